import VermouthProofs.C09
import Mathlib.Algebra.Field.Rat
import Mathlib.Algebra.Order.Ring.Rat
/-!
# C09 — a particle sits at the weighted mean of the atoms it represents

Property theorems about `C09.beadPos` / `C09.doAverageBead` / `C09.runMolecule`,
the model of `vermouth.processors.average_beads`.  The model functions are
polymorphic in the number type; all theorems hold for every linear ordered
field `K` and every tolerance `eps` (the hypothesis `0 < eps`, where needed, is
explicit; the code uses `1e-7`, the executed instance `epsQ = 1/10^7`).
`model_is_instance` ties the `Rat` functions executed by the driver to the
generic ones.

Vocabulary (all definitions are executable):
* `Atom.pos a`              : the position of the atom if it has one (`selector_has_position`: attribute
                              present, not `None`, EVERY coordinate finite), `positioned a` = it has one;
* `atomWeight w tbl a`      : `mapping_weights.get(key, 1) * subnode.get(w, 1)` (model function);
* `totalWeight w g mw`      : Σ over the positioned atoms of `g` of their weight;
* `weightedSum c w g mw`    : Σ over the positioned atoms of weight × coordinate `c` of the position;
* `Atom.move f a`           : the atom with its position (if any) replaced by `f position`;
* `V3.add`, `V3.dot`, `Mat3.apply` : vector addition, scalar product, matrix × vector;
* `keysNodup tbl`           : the keys of a dictionary are distinct.
-/
set_option linter.unusedSectionVars false

namespace C09

section spec
variable {K : Type} [Field K] [LinearOrder K] [IsStrictOrderedRing K]

/-- value of a coordinate functional at the atom's position (0 if it has none) -/
def coordOf (c : V3 K → K) (a : Atom K) : K :=
  match a.pos with
  | some p => c p
  | none => 0

/-- Σ of the weights of the positioned constituents (declarative: filter, map, `List.sum`) -/
def totalWeight (w : Option String) (g : List (Atom K)) (mw : Option (List (Int × K))) : K :=
  ((g.filter positioned).map (atomWeight w (mw.getD []))).sum

/-- Σ weight × coordinate over the positioned constituents -/
def weightedSum (c : V3 K → K) (w : Option String) (g : List (Atom K)) (mw : Option (List (Int × K))) : K :=
  ((g.filter positioned).map (fun a => atomWeight w (mw.getD []) a * coordOf c a)).sum

theorem wsum_terms_eq (w : Option String) (g : List (Atom K)) (mw : Option (List (Int × K))) :
    wsum (terms w (mw.getD []) g) = totalWeight w g mw := by
  unfold totalWeight
  induction g with
  | nil => simp [terms, wsum]
  | cons a r ih =>
    cases hp : a.pos with
    | none =>
      rw [terms_cons_none _ _ _ _ hp, List.filter_cons_of_neg (by simp [positioned, hp]), ih]
    | some p =>
      rw [terms_cons_some _ _ _ _ p hp, List.filter_cons_of_pos (by simp [positioned, hp])]
      simp only [wsum, List.map_cons, List.sum_cons, ih]

theorem wcsum_terms_eq (c : V3 K → K) (w : Option String) (g : List (Atom K)) (mw : Option (List (Int × K))) :
    wcsum c (terms w (mw.getD []) g) = weightedSum c w g mw := by
  unfold weightedSum
  induction g with
  | nil => simp [terms, wcsum]
  | cons a r ih =>
    cases hp : a.pos with
    | none =>
      rw [terms_cons_none _ _ _ _ hp, List.filter_cons_of_neg (by simp [positioned, hp]), ih]
    | some p =>
      rw [terms_cons_some _ _ _ _ p hp, List.filter_cons_of_pos (by simp [positioned, hp])]
      simp only [wcsum, List.map_cons, List.sum_cons, ih, coordOf, hp]

/-! ## the position is the weighted mean -/

/-- **NaN iff the weights of the positioned constituents sum to (numerically) zero**:
the result is undefined exactly when `|Σ w| < eps`. -/
theorem none_iff_zero_weight (eps : K) (w : Option String) (g : List (Atom K)) (mw : Option (List (Int × K))) :
    beadPos eps w g mw = none ↔ |totalWeight w g mw| < eps := by
  unfold beadPos
  rw [mean_eq_none_iff, wsum_terms_eq]

/-- an exactly zero weight sum (in particular: no positioned constituent at all) gives NaN -/
theorem zero_weight_none {eps : K} (heps : 0 < eps) (w : Option String) (g : List (Atom K))
    (mw : Option (List (Int × K))) (h : totalWeight w g mw = 0) : beadPos eps w g mw = none := by
  rw [none_iff_zero_weight, h, abs_zero]; exact heps

/-- no positioned constituent (e.g. an empty graph): NaN -/
theorem no_positioned_none {eps : K} (heps : 0 < eps) (w : Option String) (g : List (Atom K))
    (mw : Option (List (Int × K))) (h : ∀ a ∈ g, a.pos = none) : beadPos eps w g mw = none := by
  apply zero_weight_none heps
  unfold totalWeight
  have : g.filter positioned = [] := by
    rw [List.filter_eq_nil_iff]; intro a ha; simp [positioned, h a ha]
  rw [this]; rfl

/-- a weight sum of at least `eps` in absolute value always gives a position -/
theorem defined_of_weight (eps : K) (w : Option String) (g : List (Atom K)) (mw : Option (List (Int × K)))
    (h : eps ≤ |totalWeight w g mw|) : ∃ p, beadPos eps w g mw = some p := by
  cases hb : beadPos eps w g mw with
  | some p => exact ⟨p, rfl⟩
  | none => exact absurd ((none_iff_zero_weight eps w g mw).mp hb) (not_lt.mpr h)

/-- **The position is the weighted mean**: each coordinate is `Σ w·x / Σ w` over the positioned
constituents, with `Σ w ≠ 0`. -/
theorem pos_eq_weighted_mean {eps : K} (heps : 0 < eps) (w : Option String) (g : List (Atom K))
    (mw : Option (List (Int × K))) (p : V3 K) (h : beadPos eps w g mw = some p) :
    totalWeight w g mw ≠ 0 ∧
    p.x = weightedSum V3.x w g mw / totalWeight w g mw ∧
    p.y = weightedSum V3.y w g mw / totalWeight w g mw ∧
    p.z = weightedSum V3.z w g mw / totalWeight w g mw := by
  unfold beadPos at h
  have hs := wsum_ne_zero_of_mean heps h
  obtain ⟨_, rfl⟩ := (mean_eq_some_iff _ _ _).mp h
  rw [wsum_terms_eq] at hs
  refine ⟨hs, ?_, ?_, ?_⟩ <;> simp only [← wsum_terms_eq, ← wcsum_terms_eq]

/-- converse: whenever `|Σ w| ≥ eps` the result is that point -/
theorem weighted_mean_is_pos (eps : K) (w : Option String) (g : List (Atom K)) (mw : Option (List (Int × K)))
    (h : eps ≤ |totalWeight w g mw|) :
    beadPos eps w g mw = some ⟨weightedSum V3.x w g mw / totalWeight w g mw,
      weightedSum V3.y w g mw / totalWeight w g mw, weightedSum V3.z w g mw / totalWeight w g mw⟩ := by
  unfold beadPos
  rw [mean_eq_some_iff]
  refine ⟨by rwa [wsum_terms_eq], ?_⟩
  simp only [wsum_terms_eq, wcsum_terms_eq]

/-- balance form: the weighted displacements from the particle to its constituents cancel,
`Σ w·(n·x - n·p) = 0` for every direction `n` -/
theorem pos_balance {eps : K} (heps : 0 < eps) (w : Option String) (g : List (Atom K))
    (mw : Option (List (Int × K))) (p : V3 K) (h : beadPos eps w g mw = some p) (n : V3 K) :
    weightedSum (fun q => n.dot q - n.dot p) w g mw = 0 := by
  unfold beadPos at h
  have hs := wsum_ne_zero_of_mean heps h
  have hl := linear_of_mean h n
  rw [← wcsum_terms_eq]
  have e := wcsum_affine n.x n.y n.z (-(n.dot p)) (terms w (mw.getD []) g)
  have e' : (fun q : V3 K => n.x * q.x + n.y * q.y + n.z * q.z + -(n.dot p)) = fun q => n.dot q - n.dot p := by
    funext q; simp only [V3.dot]; ring
  rw [e'] at e
  rw [e, ← wcsum_dot, hl]
  field_simp
  ring

/-! ## convexity -/

/-- **Convex hull**: with non-negative weights the particle lies in every half-space
`n·q ≤ d` that contains all positioned constituents. -/
theorem in_half_space {eps : K} (heps : 0 < eps) (w : Option String) (g : List (Atom K))
    (mw : Option (List (Int × K))) (p : V3 K) (h : beadPos eps w g mw = some p)
    (hw : ∀ a ∈ g, positioned a = true → 0 ≤ atomWeight w (mw.getD []) a)
    (n : V3 K) (d : K) (hb : ∀ a ∈ g, ∀ q, a.pos = some q → n.dot q ≤ d) : n.dot p ≤ d := by
  unfold beadPos at h
  have hs := wsum_ne_zero_of_mean heps h
  have hw' : ∀ t ∈ terms w (mw.getD []) g, 0 ≤ t.1 := by
    intro t ht
    obtain ⟨a, ha, hp, e⟩ := mem_terms ht
    rw [e]; exact hw a ha (by simp [positioned, hp])
  have hb' : ∀ t ∈ terms w (mw.getD []) g, n.dot t.2 ≤ d := by
    intro t ht
    obtain ⟨a, ha, hp, _⟩ := mem_terms ht
    exact hb a ha _ hp
  have hpos : 0 < wsum (terms w (mw.getD []) g) := lt_of_le_of_ne (wsum_nonneg hw') (Ne.symm hs)
  rw [linear_of_mean h n, div_le_iff₀ hpos]
  exact wcsum_le (fun q => n.dot q) d hw' hb'

/-- **Bounding box**: with non-negative weights, every coordinate of the particle lies between
any lower and upper bound (hence between the minimum and the maximum) of that coordinate over
the positioned constituents. -/
theorem in_bounding_box {eps : K} (heps : 0 < eps) (w : Option String) (g : List (Atom K))
    (mw : Option (List (Int × K))) (p : V3 K) (h : beadPos eps w g mw = some p)
    (hw : ∀ a ∈ g, positioned a = true → 0 ≤ atomWeight w (mw.getD []) a)
    (lo hi : V3 K)
    (hb : ∀ a ∈ g, ∀ q, a.pos = some q →
      lo.x ≤ q.x ∧ q.x ≤ hi.x ∧ lo.y ≤ q.y ∧ q.y ≤ hi.y ∧ lo.z ≤ q.z ∧ q.z ≤ hi.z) :
    lo.x ≤ p.x ∧ p.x ≤ hi.x ∧ lo.y ≤ p.y ∧ p.y ≤ hi.y ∧ lo.z ≤ p.z ∧ p.z ≤ hi.z := by
  have hs := fun n d hb' => in_half_space heps w g mw p h hw n d hb'
  have ux := hs ⟨1, 0, 0⟩ hi.x (by intro a ha q hq; have := hb a ha q hq; simp only [V3.dot]; linarith)
  have lx := hs ⟨-1, 0, 0⟩ (-lo.x) (by intro a ha q hq; have := hb a ha q hq; simp only [V3.dot]; linarith)
  have uy := hs ⟨0, 1, 0⟩ hi.y (by intro a ha q hq; have := hb a ha q hq; simp only [V3.dot]; linarith)
  have ly := hs ⟨0, -1, 0⟩ (-lo.y) (by intro a ha q hq; have := hb a ha q hq; simp only [V3.dot]; linarith)
  have uz := hs ⟨0, 0, 1⟩ hi.z (by intro a ha q hq; have := hb a ha q hq; simp only [V3.dot]; linarith)
  have lz := hs ⟨0, 0, -1⟩ (-lo.z) (by intro a ha q hq; have := hb a ha q hq; simp only [V3.dot]; linarith)
  simp only [V3.dot] at ux lx uy ly uz lz
  refine ⟨?_, ?_, ?_, ?_, ?_, ?_⟩ <;> linarith

/-- non-negative mapping weights and non-negative centre weights give non-negative weights
(the hypothesis of the two theorems above in terms of the input tables) -/
theorem atomWeight_nonneg (w : Option String) (tbl : List (Int × K)) (a : Atom K)
    (ht : ∀ e ∈ tbl, 0 ≤ e.2) (ha : ∀ e ∈ a.attrs, 0 ≤ e.2) : 0 ≤ atomWeight w tbl a := by
  have getD_nonneg : ∀ {α : Type} [DecidableEq α] (l : List (α × K)) (k : α), (∀ e ∈ l, 0 ≤ e.2) →
      0 ≤ (assoc l k).getD 1 := by
    intro α _ l k hl
    cases h : assoc l k with
    | none => simp
    | some v =>
      induction l with
      | nil => simp [assoc] at h
      | cons e r ih =>
        obtain ⟨k', v'⟩ := e
        by_cases hk : k' = k
        · simp only [assoc, hk, if_true, Option.some.injEq] at h
          subst h; exact hl (k', v') (List.mem_cons_self)
        · simp only [assoc, if_neg hk] at h
          exact ih (fun e he => hl e (List.mem_cons_of_mem _ he)) h
  unfold atomWeight centerFactor
  apply mul_nonneg (getD_nonneg tbl a.key ht)
  cases w with
  | none => exact zero_le_one
  | some n => exact getD_nonneg a.attrs n ha

/-! ## rigid motions (and every other affine map) -/

/-- **Translation equivariance** -/
theorem translate_equivariant {eps : K} (heps : 0 < eps) (w : Option String) (g : List (Atom K))
    (mw : Option (List (Int × K))) (v : V3 K) :
    beadPos eps w (g.map (Atom.move fun p => p.add v)) mw = (beadPos eps w g mw).map (fun p => p.add v) := by
  unfold beadPos
  rw [terms_move, mean_translate heps]

/-- **Linear equivariance** for an arbitrary 3×3 matrix — in particular every rotation and reflection -/
theorem linear_equivariant (eps : K) (w : Option String) (g : List (Atom K))
    (mw : Option (List (Int × K))) (m : Mat3 K) :
    beadPos eps w (g.map (Atom.move m.apply)) mw = (beadPos eps w g mw).map m.apply := by
  unfold beadPos
  rw [terms_move, mean_linear]

/-- **Rigid motion** `p ↦ M p + v` (no orthogonality needed: any affine map) -/
theorem rigid_motion_equivariant {eps : K} (heps : 0 < eps) (w : Option String) (g : List (Atom K))
    (mw : Option (List (Int × K))) (m : Mat3 K) (v : V3 K) :
    beadPos eps w (g.map (Atom.move fun p => (m.apply p).add v)) mw
      = (beadPos eps w g mw).map (fun p => (m.apply p).add v) := by
  have hcomp : g.map (Atom.move fun p => (m.apply p).add v)
      = (g.map (Atom.move m.apply)).map (Atom.move fun p => p.add v) := by
    rw [List.map_map]
    apply List.map_congr_left
    intro a _
    exact (Atom.move_move m.apply (fun p => p.add v) a).symm
  rw [hcomp, translate_equivariant heps, linear_equivariant, Option.map_map]
  rfl

/-! ## constituents without coordinates -/

/-- **Unpositioned constituents never contribute**: dropping them all changes nothing -/
theorem unpositioned_ignored (eps : K) (w : Option String) (g : List (Atom K)) (mw : Option (List (Int × K))) :
    beadPos eps w (g.filter positioned) mw = beadPos eps w g mw := by
  unfold beadPos; rw [terms_filter]

/-- inserting an atom without position anywhere, whatever its key, weight and attributes -/
theorem unpositioned_insert (eps : K) (w : Option String) (g1 g2 : List (Atom K)) (a : Atom K)
    (mw : Option (List (Int × K))) (h : a.pos = none) :
    beadPos eps w (g1 ++ a :: g2) mw = beadPos eps w (g1 ++ g2) mw := by
  unfold beadPos
  rw [terms_append, terms_append, terms_cons_none _ _ _ _ h]

/-- the weight table and the centre-weight attribute matter only at the positioned constituents -/
theorem unpositioned_weight_irrelevant (eps : K) (w w' : Option String) (g : List (Atom K))
    (tbl tbl' : List (Int × K))
    (h : ∀ a ∈ g, positioned a = true → atomWeight w tbl a = atomWeight w' tbl' a) :
    beadPos eps w g (some tbl) = beadPos eps w' g (some tbl') := by
  unfold beadPos
  simp only [Option.getD_some]
  rw [terms_congr w w' tbl tbl' g h]

/-- **Partly defined coordinates count as no coordinates**: an atom one of whose coordinates is
not a finite number (`[1, nan, 2]`, an `inf` component) has no position, so by
`unpositioned_insert` it never contributes, whatever its weight. -/
theorem partly_defined_unpositioned (a : Atom K) (c : V3 (Option K)) (h : a.coords = some c)
    (hc : c.x = none ∨ c.y = none ∨ c.z = none) : a.pos = none :=
  (Atom.pos_eq_none_iff a).mpr (Or.inr ⟨c, h, hc⟩)

theorem partly_defined_ignored (eps : K) (w : Option String) (g1 g2 : List (Atom K)) (a : Atom K)
    (mw : Option (List (Int × K))) (c : V3 (Option K)) (h : a.coords = some c)
    (hc : c.x = none ∨ c.y = none ∨ c.z = none) :
    beadPos eps w (g1 ++ a :: g2) mw = beadPos eps w (g1 ++ g2) mw :=
  unpositioned_insert eps w g1 g2 a mw (partly_defined_unpositioned a c h hc)

/-- exactly the atoms with all three coordinates finite are positioned -/
theorem positioned_iff (a : Atom K) :
    positioned a = true ↔ ∃ x y z, a.coords = some ⟨some x, some y, some z⟩ := by
  unfold positioned
  rw [Option.isSome_iff_exists]
  constructor
  · rintro ⟨p, hp⟩; exact ⟨p.x, p.y, p.z, (Atom.pos_eq_some_iff a p).mp hp⟩
  · rintro ⟨x, y, z, h⟩; exact ⟨⟨x, y, z⟩, (Atom.pos_eq_some_iff a _).mpr h⟩

/-! ## which weight goes with which atom -/

/-- **Pairing / order independence**: a weight belongs to the atom with the same key, wherever
either of them sits: permuting the constituents and (independently) the entries of the weight
dictionary does not change the result. -/
theorem pairing (eps : K) (w : Option String) (g g' : List (Atom K)) (tbl tbl' : List (Int × K))
    (hg : g.Perm g') (hn : keysNodup tbl) (ht : tbl.Perm tbl') :
    beadPos eps w g (some tbl) = beadPos eps w g' (some tbl') := by
  have e : beadPos eps w g (some tbl) = beadPos eps w g (some tbl') :=
    unpositioned_weight_irrelevant eps w w g tbl tbl' (fun a _ _ => atomWeight_perm w hn ht a)
  rw [e]
  unfold beadPos
  exact mean_perm eps (terms_perm w _ hg)

/-- a key missing from the table has mapping weight 1; a missing table is the empty table -/
theorem missing_key_weight_one (w : Option String) (tbl : List (Int × K)) (a : Atom K)
    (h : a.key ∉ tbl.map Prod.fst) : atomWeight w tbl a = centerFactor w a := by
  unfold atomWeight
  rw [(assoc_eq_none_iff tbl a.key).mpr h]
  simp

theorem no_table_is_empty_table (eps : K) (w : Option String) (g : List (Atom K)) :
    beadPos eps w g none = beadPos eps w g (some []) := rfl

/-- the weight of an atom whose key is in the table and that carries the centre-weight attribute -/
theorem weight_is_product (n : String) (tbl : List (Int × K)) (hn : keysNodup tbl) (a : Atom K) (mwt c : K)
    (h1 : (a.key, mwt) ∈ tbl) (h2 : assoc a.attrs n = some c) :
    atomWeight (some n) tbl a = mwt * c ∧ atomWeight none tbl a = mwt := by
  refine ⟨?_, ?_⟩ <;> simp [atomWeight, centerFactor, (assoc_eq_some_iff tbl hn a.key mwt).mpr h1, h2]

/-! ## whole molecule -/

theorem keyErr_eq_false_iff (w : Option String) (mol : List (Bead K)) :
    keyErr w mol = false ↔ ∀ n, w = some n → ∀ b ∈ mol, lacksAttr n b = false := by
  cases w with
  | none => simp [keyErr]
  | some n => simp [keyErr, List.any_eq_false]

theorem valErr_eq_false_iff (ign : Bool) (mol : List (Bead K)) :
    valErr ign mol = false ↔ (ign = true ∨ ∀ b ∈ mol, b.graph.isSome = true) := by
  cases ign with
  | true => simp [valErr]
  | false =>
    simp only [valErr, Bool.not_false, Bool.true_and, List.any_eq_false, Bool.false_eq_true, false_or]
    constructor
    · intro h b hb; have := h b hb; cases hg : b.graph <;> simp_all
    · intro h b hb; have := h b hb; cases hg : b.graph <;> simp_all

/-- `do_average_bead` succeeds iff no particle with a graph has an atom lacking the
centre-weight attribute and (unless told to ignore them) every particle has a graph; then every
particle with a graph gets `beadPos` of ITS OWN graph and weights (atoms shared between
particles do not interact), the others are left untouched. -/
theorem doAverageBead_ok_iff (eps : K) (mol : List (Bead K)) (ign : Bool) (w : Option String)
    (l : List (Option (Option (V3 K)))) :
    doAverageBead eps mol ign w = .ok l ↔
      (∀ n, w = some n → ∀ b ∈ mol, lacksAttr n b = false) ∧
      (ign = true ∨ ∀ b ∈ mol, b.graph.isSome = true) ∧
      l = mol.map (fun b => b.graph.map fun g => beadPos eps w g b.weights) := by
  rw [← keyErr_eq_false_iff, ← valErr_eq_false_iff]
  unfold doAverageBead
  cases keyErr w mol <;> cases valErr ign mol <;> simp [eq_comm]

/-- the KeyError of the first loop takes precedence over the ValueError raised after it -/
theorem keyError_iff (eps : K) (mol : List (Bead K)) (ign : Bool) (w : Option String) :
    doAverageBead eps mol ign w = .keyError ↔ ∃ n, w = some n ∧ ∃ b ∈ mol, lacksAttr n b = true := by
  have h : keyErr w mol = true ↔ ∃ n, w = some n ∧ ∃ b ∈ mol, lacksAttr n b = true := by
    cases w with
    | none => simp [keyErr]
    | some n => simp [keyErr, List.any_eq_true]
  rw [← h]
  unfold doAverageBead
  cases keyErr w mol <;> cases valErr ign mol <;> simp

theorem valueError_iff (eps : K) (mol : List (Bead K)) (ign : Bool) (w : Option String) :
    doAverageBead eps mol ign w = .valueError ↔
      keyErr w mol = false ∧ ign = false ∧ ∃ b ∈ mol, b.graph = none := by
  have h : valErr ign mol = true ↔ (ign = false ∧ ∃ b ∈ mol, b.graph = none) := by
    cases ign <;> simp [valErr, List.any_eq_true]
  rw [← h]
  unfold doAverageBead
  cases keyErr w mol <;> cases valErr ign mol <;> simp

/-- `DoAverageBead.run_molecule`: an explicit attribute wins, `False` switches the centre weight
off, otherwise the force-field variable `center_weight` (if any) is used. -/
theorem runMolecule_weight (eps : K) (ffVar : Option String) (ign : Bool) (mol : List (Bead K)) (n : String) :
    runMolecule eps .unset ffVar ign mol = doAverageBead eps mol ign ffVar ∧
    runMolecule eps .off ffVar ign mol = doAverageBead eps mol ign none ∧
    runMolecule eps (.attr n) ffVar ign mol = doAverageBead eps mol ign (some n) := ⟨rfl, rfl, rfl⟩

/-- **The processor is stateless**: one `DoAverageBead` object applied to several molecules in a
row (whose force fields may set different `center_weight` variables, or none) gives on each
molecule what a freshly constructed processor with the same two arguments gives on that molecule
alone; nothing is remembered from earlier molecules. -/
theorem processor_stateless (eps : K) (p : Proc) (ops : List (Option String × List (Bead K))) :
    runHistory eps p ops = ops.map (fun op => runMolecule eps p.weight op.1 p.ignoreMissing op.2) := by
  induction ops with
  | nil => rfl
  | cons op ops ih => simp only [runHistory, procStep, List.map_cons, ih]

theorem processor_config_unchanged (eps : K) (p : Proc) (op : Option String × List (Bead K)) :
    (procStep eps p op).1 = p := rfl

end spec

/-! ## the executed instance -/

/-- The `Rat` functions run by the driver ARE the generic functions the theorems are about,
instantiated with the field and order structure of `ℚ` (checked by definitional unfolding). -/
theorem model_is_instance :
    (beadPosQ = fun w g mw => beadPos (K := ℚ) epsQ w g mw) ∧
    (doAverageBeadQ = fun mol ign w => doAverageBead (K := ℚ) epsQ mol ign w) ∧
    (runMoleculeQ = fun s v ign mol => runMolecule (K := ℚ) epsQ s v ign mol) ∧
    (runHistoryQ = fun p ops => runHistory (K := ℚ) epsQ p ops) := ⟨rfl, rfl, rfl, rfl⟩

theorem epsQ_pos : (0 : ℚ) < epsQ := by decide +kernel

/-- e.g. the bounding-box theorem for what the driver computes -/
theorem beadPosQ_in_bounding_box (w : Option String) (g : List (Atom ℚ)) (mw : Option (List (Int × ℚ)))
    (p : V3 ℚ) (h : beadPosQ w g mw = some p)
    (hw : ∀ a ∈ g, positioned a = true → 0 ≤ atomWeight w (mw.getD []) a) (lo hi : V3 ℚ)
    (hb : ∀ a ∈ g, ∀ q, a.pos = some q →
      lo.x ≤ q.x ∧ q.x ≤ hi.x ∧ lo.y ≤ q.y ∧ q.y ≤ hi.y ∧ lo.z ≤ q.z ∧ q.z ≤ hi.z) :
    lo.x ≤ p.x ∧ p.x ≤ hi.x ∧ lo.y ≤ p.y ∧ p.y ≤ hi.y ∧ lo.z ≤ p.z ∧ p.z ≤ hi.z :=
  in_bounding_box epsQ_pos w g mw p h hw lo hi hb

/-! ## witnesses: hypotheses are satisfiable, and pairing matters -/

namespace Ex
def a1 : Atom ℚ := .at 5 ⟨1, 2, 3⟩ [("mass", 12)]
def a2 : Atom ℚ := .at 7 ⟨3, 4, 5⟩ [("mass", 1)]
def a3 : Atom ℚ := ⟨9, none, [("mass", 16)]⟩
/-- position `[1, nan, 2]` -/
def a4 : Atom ℚ := ⟨11, some ⟨some 1, none, some 2⟩, [("mass", 16)]⟩
def g : List (Atom ℚ) := [a1, a3, a2]
def tbl : List (Int × ℚ) := [(7, 3), (5, 1), (9, 2)]
/-- the same weight VALUES attached to the other keys -/
def tblSwapped : List (Int × ℚ) := [(7, 1), (5, 3), (9, 2)]
end Ex

open Ex in
/-- non-vacuity: a concrete bead (unequal weights, one unpositioned atom, table order ≠ graph
order) has a position, so the hypotheses `beadPos … = some p`, `keysNodup`, non-negative weights
of the theorems above are satisfiable, with and without centre weight -/
example : beadPosQ none g (some tbl) = some ⟨5 / 2, 7 / 2, 9 / 2⟩
    ∧ beadPosQ (some "mass") g (some tbl) = some ⟨7 / 5, 12 / 5, 17 / 5⟩
    ∧ keysNodup tbl
    ∧ (∀ a ∈ g, positioned a = true → 0 ≤ atomWeight (some "mass") tbl a) := by
  refine ⟨by decide +kernel, by decide +kernel, by decide +kernel, ?_⟩
  decide +kernel

open Ex in
/-- **Pairing matters**: permuting the weight values without their keys (i.e. giving each atom
the weight of the wrong atom) changes the position. -/
theorem pairing_witness :
    tbl.map Prod.fst = tblSwapped.map Prod.fst ∧ (tbl.map Prod.snd).Perm (tblSwapped.map Prod.snd) ∧
    beadPosQ none g (some tbl) ≠ beadPosQ none g (some tblSwapped) := by
  refine ⟨by decide +kernel, ?_, by decide +kernel⟩
  exact List.Perm.swap _ _ _

open Ex in
/-- zero total weight and weights below the tolerance give NaN; the centre weight can make
the difference -/
theorem zero_weight_witness :
    beadPosQ none g (some [(5, 0), (7, 0)]) = none ∧
    beadPosQ none g (some [(5, 1), (7, -1)]) = none ∧
    beadPosQ (some "mass") g (some [(5, 1), (7, -1)]) ≠ none ∧
    beadPosQ none [a3] none = none ∧
    beadPosQ none [] none = none := by
  refine ⟨by decide +kernel, by decide +kernel, by decide +kernel, by decide +kernel, by decide +kernel⟩

open Ex in
/-- an atom with position `[1, nan, 2]` does not contribute, even with a large weight -/
theorem partly_defined_witness :
    beadPosQ none [a1, a4, a3, a2] (some ((11, 100) :: tbl)) = beadPosQ none g (some tbl) ∧
    beadPosQ (some "mass") [a4] none = none := by
  refine ⟨by decide +kernel, by decide +kernel⟩

open Ex in
/-- one processor object (`weight=None`), first a molecule whose force field sets
`center_weight = "mass"`, then the same molecule under a force field that sets none: the second
result is the unweighted one, not the mass-weighted one again -/
theorem stateless_witness :
    runHistoryQ ⟨false, .unset⟩ [(some "mass", [⟨some g, some tbl⟩]), (none, [⟨some g, some tbl⟩])]
      = [.ok [some (some ⟨7 / 5, 12 / 5, 17 / 5⟩)], .ok [some (some ⟨5 / 2, 7 / 2, 9 / 2⟩)]] := by
  decide +kernel

end C09
