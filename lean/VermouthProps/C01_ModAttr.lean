import VermouthProofs.C01_ModAttrProofs
/-!
# C01 — modification mappings on the particle dictionaries, and the removal of particles

`replace` dictionaries and `modifications` lists written by `apply_mod_mapping`
(`applyModX`), the "Interaction set by multiple modification mappings" warning, and
`remove_nodes_from(to_remove)` at the end of `do_mapping` (`finishX`).
-/
namespace C01
open C12

/-- what a successful `apply_mod_mapping` does to the side tables: `m2o` (= `mod_to_out`) is the one
the base step computed; dictionaries and `modifications` lists come from the node loop,
`modified_interactions` is updated per interaction type -/
theorem applyModX_spec (sx : StX) (q : ModPlacementX) (he : sx.st.err = none)
    (hok : (applyModX sx q).st.err = none) :
    ∃ out1 m2o, placeModNodes sx.st q.base q.base.nodes sx.st.out [] = some (out1, m2o)
      ∧ (applyModX sx q).xattrs = (q.nodes.foldl (modNodeStep m2o q.modId) (sx.xattrs, sx.mods)).1
      ∧ (applyModX sx q).mods = (q.nodes.foldl (modNodeStep m2o q.modId) (sx.xattrs, sx.mods)).2
      ∧ (applyModX sx q).modInters = modInterUpdate sx.modInters (appliedOf m2o q.inters) := by
  have hst := applyModX_st sx q
  rw [hst] at hok
  obtain ⟨out1, m2o, _, hp, _⟩ := applyMod_spec sx.st q.base he hok
  refine ⟨out1, m2o, hp, ?_, ?_, ?_⟩ <;>
  · unfold applyModX
    simp only [he, Option.isSome_none, Bool.false_eq_true, if_false, hok, hp]

/-- `modifications_recorded`: after a modification match is applied, every particle one of its
nodes was created as or laid over lists the modification (once: the lists stay duplicate-free),
keeps the modifications it listed before, and the lists and dictionaries of all other particles
are unchanged -/
theorem modifications_recorded (sx : StX) (q : ModPlacementX) (he : sx.st.err = none)
    (hok : (applyModX sx q).st.err = none) :
    ∃ out1 m2o, placeModNodes sx.st q.base q.base.nodes sx.st.out [] = some (out1, m2o)
      ∧ (∀ n ∈ q.nodes, ∀ k, m2o.lookup n.key = some k → q.modId ∈ mlookup (applyModX sx q).mods k)
      ∧ (∀ k id, id ∈ mlookup sx.mods k → id ∈ mlookup (applyModX sx q).mods k)
      ∧ (∀ k, (mlookup sx.mods k).Nodup → (mlookup (applyModX sx q).mods k).Nodup)
      ∧ (∀ k, (∀ n ∈ q.nodes, m2o.lookup n.key ≠ some k) →
          mlookup (applyModX sx q).mods k = mlookup sx.mods k ∧ xget (applyModX sx q).xattrs k = xget sx.xattrs k) := by
  obtain ⟨out1, m2o, hp, hx, hm, _⟩ := applyModX_spec sx q he hok
  obtain ⟨h1, h2, h3, h4⟩ := modNodes_mods m2o q.modId q.nodes (sx.xattrs, sx.mods)
  refine ⟨out1, m2o, hp, ?_, ?_, ?_, ?_⟩
  · rw [hm]; exact h1
  · rw [hm]; exact h2
  · rw [hm]; exact h3
  · rw [hm, hx]; exact h4

/-- `replace_applied`: the dictionary of a particle after the modification is decided by the last
node of the modification that concerns it: a new particle carries exactly the attributes of its
modification node; an overlaid particle carries `dict.update(replace)` of what it had: every key of
the `replace` dictionary has the declared value, every other key is untouched -/
theorem replace_applied (sx : StX) (q : ModPlacementX) (he : sx.st.err = none)
    (hok : (applyModX sx q).st.err = none) (pre post : List ModNodeX) (n : ModNodeX)
    (hsplit : q.nodes = pre ++ n :: post) :
    ∃ out1 m2o, placeModNodes sx.st q.base q.base.nodes sx.st.out [] = some (out1, m2o)
      ∧ ∀ k, m2o.lookup n.key = some k → (∀ n' ∈ post, m2o.lookup n'.key ≠ some k) →
        (n.isNew = true → xget (applyModX sx q).xattrs k = some n.attrs)
        ∧ (n.isNew = false → (n.replace.map Prod.fst).Nodup →
            ∃ before after, xget (applyModX sx q).xattrs k = some after
              ∧ before = (xget (pre.foldl (modNodeStep m2o q.modId) (sx.xattrs, sx.mods)).1 k).getD []
              ∧ (∀ A v, dget n.replace A = some v → dget after A = some v)
              ∧ (∀ A, dget n.replace A = none → dget after A = dget before A)) := by
  obtain ⟨out1, m2o, hp, hx, _, _⟩ := applyModX_spec sx q he hok
  refine ⟨out1, m2o, hp, ?_⟩
  intro k hk hpost
  have hlast := modNodes_last m2o q.modId pre post n k (sx.xattrs, sx.mods) hk hpost
  rw [← hsplit, ← hx] at hlast
  constructor
  · intro hnew
    rw [hlast, hnew]; rfl
  · intro hnew hnd
    have hl2 : xget (applyModX sx q).xattrs k
        = some (dupdate ((xget (pre.foldl (modNodeStep m2o q.modId) (sx.xattrs, sx.mods)).1 k).getD []) n.replace) := by
      rw [hlast, hnew]; rfl
    refine ⟨_, _, hl2, rfl, ?_, ?_⟩
    · intro A v hA
      rw [dget_dupdate _ _ _ hnd, hA]; rfl
    · intro A hA
      rw [dget_dupdate _ _ _ hnd, hA]; rfl

/-- `removal_exact`: `remove_nodes_from(to_remove)` at the end of `do_mapping`: the particles that
stay are the particles of the assembled graph whose key is not in `to_remove`, in order; an edge
stays iff neither end was removed, an interaction iff none of its atoms was; the sanity warnings
are those of the graph BEFORE the removal. -/
theorem removal_exact (c : Cfg) (m : MolX) (sx : StX) :
    (finishX c m sx).particles.map (·.key)
        = ((withInterEdges m.base sx.st).nodes.map Prod.fst).filter (fun k => !(finishX c m sx).removed.contains k)
    ∧ (finishX c m sx).edges = (withInterEdges m.base sx.st).edges.filter
        (fun e => !(finishX c m sx).removed.contains e.1 && !(finishX c m sx).removed.contains e.2)
    ∧ (finishX c m sx).inters = (withInterEdges m.base sx.st).inters.filter
        (fun ti => !(ti.2.atoms.any (fun a => (finishX c m sx).removed.contains a)))
    ∧ (finishX c m sx).warn.overlap = (finish m.base sx.st).warn.overlap
    ∧ (finishX c m sx).warn.disconnected = (finish m.base sx.st).warn.disconnected
    ∧ (finishX c m sx).warn.unmapped = (finish m.base sx.st).warn.unmapped
    ∧ (finishX c m sx).warn.hydrogens = (finish m.base sx.st).warn.hydrogens := by
  refine ⟨?_, rfl, rfl, rfl, rfl, rfl, rfl⟩
  unfold finishX
  simp only [List.map_map]
  rw [(dropNodes_spec _ _).1, List.filter_map]
  rfl

/-- … so nothing in the result mentions a removed particle -/
theorem removed_gone (c : Cfg) (m : MolX) (sx : StX) (k : Int) (hk : k ∈ (finishX c m sx).removed) :
    k ∉ (finishX c m sx).particles.map (·.key)
    ∧ (∀ e ∈ (finishX c m sx).edges, e.1 ≠ k ∧ e.2 ≠ k)
    ∧ (∀ ti ∈ (finishX c m sx).inters, k ∉ ti.2.atoms) := by
  obtain ⟨h1, h2, h3, _⟩ := removal_exact c m sx
  refine ⟨?_, ?_, ?_⟩
  · rw [h1]
    simp only [List.mem_filter, not_and, Bool.not_eq_true', Bool.not_eq_false]
    intro _
    simpa using hk
  · intro e he
    rw [h2] at he
    simp only [List.mem_filter, Bool.and_eq_true, Bool.not_eq_true', List.contains_eq_mem, decide_eq_false_iff_not] at he
    exact ⟨fun h => he.2.1 (h ▸ hk), fun h => he.2.2 (h ▸ hk)⟩
  · intro ti hti
    rw [h3] at hti
    simp only [List.mem_filter, Bool.not_eq_true', List.any_eq_false, List.contains_eq_mem, decide_eq_true_eq] at hti
    exact fun h => hti.2 k h hk

/-! ## witnesses -/

def xCfg : Cfg := { keep := ["chain"], must := ["resname"], stash := ["resid"] }
def xB1 : BlockX := { nodes := [(0, [("atomname", .str "B1"), ("resname", .str "X"), ("resid", .int 1)])] }
def xMol : MolX :=
  { atoms := [{ key := 0, attrs := [("resid", .int 1), ("chain", .str "A")] }, { key := 1, attrs := [("resid", .int 1), ("chain", .str "A")] },
              { key := 2, attrs := [("resid", .int 1), ("chain", .str "A")] }, { key := 3, attrs := [("resid", .int 1), ("chain", .str "A")] }],
    edges := [(0, 1), (1, 2), (0, 3)] }
def xP : PlacementX := { molToBlock := [(0, [(0, 1)]), (1, [(0, 1)])], block := xB1, refs := [] }
def xHost (r : AttrD) : ModNodeX := { key := 0, attrs := [("atomname", .str "B1")], isNew := false, replace := r }
def xPR (p : String) (v : Int) : String × Inter := ("position_restraints", { atoms := [0], params := p, version := v })
/-- PHOS on atoms 1,2 and METH on atoms 0,3, both laid over `B1`, both setting the position restraint of `B1` -/
def xPhos (is : List (String × Inter)) (r : AttrD) : ModPlacementX :=
  { modId := 0, molToMod := [(1, [(0, 1)]), (2, [(0, 1)])], nodes := [xHost r], inters := is }
def xMeth (is : List (String × Inter)) : ModPlacementX :=
  { modId := 1, molToMod := [(0, [(0, 1)]), (3, [(0, 1)])], nodes := [xHost []], inters := is }

structure Summary where
  mods : List (Int × List Nat)
  inters : List (String × List Int × String)
  multiMod : Nat
  removed : List Int
  deriving DecidableEq, Repr

def summary (r : Except Outcome ResultX) : Option Summary :=
  match r with
  | .ok r => some ⟨r.particles.map (fun p => (p.key, p.mods)), r.inters.map (fun ti => (ti.1, ti.2.atoms, ti.2.params)),
                   r.multiMod, r.removed⟩
  | .error _ => none

/-- `multi_mod_warning_misses_two_mappings` (a defect of the warning, replayed on the real code): two
DIFFERENT modification mappings set the same interaction of the same particle; the second silently
replaces the first and the "Interaction set by multiple modification mappings" warning is NOT
raised (`modified_interactions.update` replaces the record of the interaction type). -/
theorem multi_mod_warning_misses_two_mappings :
    summary (assembleX xCfg xMol [xP] [xPhos [xPR "1 PHOS" 0] [], xMeth [xPR "1 METH" 0]])
      = some ⟨[(1, [0, 1])], [("position_restraints", [1], "1 METH")], 0, []⟩ := by decide

/-- the warning is raised when ONE modification lists the interaction twice … -/
theorem multi_mod_warning_one_mapping_twice :
    summary (assembleX xCfg xMol [xP] [xPhos [xPR "1 a" 1, xPR "1 b" 2] []])
      = some ⟨[(1, [0])], [("position_restraints", [1], "1 a"), ("position_restraints", [1], "1 b")], 1, []⟩ := by decide

/-- … unless a later modification touches the same interaction type: then even that is forgotten -/
theorem multi_mod_warning_forgotten :
    summary (assembleX xCfg xMol [xP] [xPhos [xPR "1 a" 1, xPR "1 b" 2] [], xMeth [xPR "1 METH" 0]])
      = some ⟨[(1, [0, 1])], [("position_restraints", [1], "1 a"), ("position_restraints", [1], "1 b"),
                              ("position_restraints", [1], "1 METH")], 0, []⟩ := by decide

/-- `"replace": {"atomname": null}` on the overlaid node: the particle is removed at the end, with its interaction -/
theorem atomname_none_removed :
    summary (assembleX xCfg xMol [xP] [xPhos [xPR "1 PHOS" 0] [("atomname", .none)]])
      = some ⟨[], [], 0, [1]⟩ := by decide

-- hypotheses of the theorems above on the witness
example : (applyModX (applyBlockX {} xP) (xPhos [] [("atype", .str "Q5")])).st.err = none := by decide
example : (applyBlockX {} xP).st.err = none := by decide
example : xget (applyModX (applyBlockX {} xP) (xPhos [] [("atype", .str "Q5")])).xattrs 1
    = some [("atomname", .str "B1"), ("resname", .str "X"), ("resid", .int 1), ("charge_group", .int 1), ("atype", .str "Q5")] := by
  decide

end C01
