import VermouthModel.C17
import Generated.C17Tables
/-!
# C17 — theorems about the tables extracted from `vermouth/dssp/dssp.py`

`Generated/C17Tables.lean` is rewritten from the repository on every run; everything here is
re-checked by the kernel against what the code says now.
-/
namespace C17
open C17Tables

/-- every replacement has the length of its pattern -/
theorem patterns_length_preserving : ∀ p ∈ patterns, p.2.length = p.1.length := by decide

/-- no pattern is empty (`str.replace` with an empty pattern would insert text) -/
theorem patterns_nonempty : ∀ p ∈ patterns, p.1 ≠ [] := by decide

/-- every replacement has strictly fewer `H` than its pattern: each `while` loop terminates -/
theorem patterns_decrease_H : ∀ p ∈ patterns, countH p.2 < countH p.1 := by decide

/-- replacements never create or remove a dot, position by position -/
theorem patterns_keep_dots : ∀ p ∈ patterns,
    (p.1.map fun c => c == '.') = (p.2.map fun c => c == '.') := by decide

/-- the extracted `SS_CG` is the documented table -/
theorem ssCg_documented : ssCg = documentedSsCg := by decide

/-- the extracted patterns are the documented ones, in the documented order -/
theorem patterns_documented : patterns = documentedPatterns := by decide

/-- keys of `SS_CG` are distinct -/
theorem ssCg_keys_nodup : (ssCg.map (·.1)).Nodup := by decide

/-- every class the table maps to something else than helix is mapped to a class that the
table leaves fixed (E, T, S, C), and helix itself is a key mapped to helix -/
theorem ssCg_nonhelix_stable : ∀ p ∈ ssCg, p.2 ≠ 'H' → lookup ssCg p.2 = some p.2 := by decide

theorem ssCg_helix_classes : (ssCg.filter fun p => p.2 == 'H').map (·.1) = ['1', '2', '3', 'H', 'G', 'I'] := by
  decide

/-- no class is mapped to a dot or to one of the helix-part digits (the merge step could not
tell them from rewritten positions) -/
theorem ssCg_values_plain : ∀ p ∈ ssCg, p.2 ≠ '.' := by decide

end C17
