import VermouthProofs.C13_MappingProofs2
import VermouthProofs.C13_MacroProofs
/-!
# C13 — new-style `.mapping` files: what travels with the mapped atoms, the `!` marker, implicit residue
numbers, and the integer spellings `int()` accepts

Model: `VermouthModel/C13_Mapping.lean` (extended: interactions, citations, edge attributes, non-scalar
node attributes); proofs: `VermouthProofs/C13_MappingProofs2.lean`.

Note on the property text: in the new-style syntax a weight is the explicit integer third column of a
`[ mapping ]` line (1 when absent; repeated lines for one pair: the last wins -
`mapping_file_entries_are_declared`); there is no `!` null-weight marker there.  `!` in front of a block
identifier means "do not fetch the block" (`mapping_nofetch_marker`).  Multiplicity / `!` weights are the
backward-style `.map` syntax (`map_entry_weight`, `weights_formula`).
-/
namespace C13.Props
open C13 C13.Mapping

/-- **`!identifier` fetches nothing**: the identifier (without the `!`) is registered with its
attributes, the molecule of that direction is unchanged; without `!` and with a string `resname` the block
of that name is fetched from the force field of the direction and added first. -/
theorem mapping_nofetch_marker (lib : Lib) (d : Dir) (mtype : String) (c : MCtx) (spec : String × Attrs) :
    ((Mapping.stripBang spec.1).2 = true →
      blockStep lib d mtype c spec = some (register d mtype c spec) ∧
      (register d mtype c spec).mol d = c.mol d) ∧
    (∀ rn, (Mapping.stripBang spec.1).2 = false → spec.2.get "resname" = some (.str rn) →
      blockStep lib d mtype c spec =
        (fetchMol lib d mtype c (.str rn)).map fun m => register d mtype (c.setMol d m) spec) :=
  ⟨fun h => ⟨blockStep_nofetch lib d mtype c spec h, register_mol d mtype c spec⟩,
   fun rn h hr => blockStep_fetch lib d mtype c spec rn h hr⟩

example : Mapping.stripBang "!ALA" = ("ALA", true) ∧ Mapping.stripBang "ALA" = ("ALA", false) := by decide

/-- **Repeated names in a shorthand block list**: without `#resid` the k-th block of a line gets residue
number k+1 (`ALA ALA GLY` = residues 1, 2, 3), with its name (without `!`) as `resname`. -/
theorem mapping_shorthand_resids (toks : List String) (h : ∀ t ∈ toks, t.toList.contains '#' = false) :
    shorthand 0 toks = some (toks.zipIdx.map fun p => (p.1, shortAttrs p.1 ((p.2 : Int) + 1))) := by
  rw [shorthand_plain toks 0 0 h]
  congr 1
  apply List.map_congr_left
  intro p _
  congr 2
  omega

example : shorthand 0 ["ALA", "ALA", "!GLY"] = some
    [("ALA", [("resname", .str "ALA"), ("resid", .int 1)]), ("ALA", [("resname", .str "ALA"), ("resid", .int 2)]),
     ("!GLY", [("resname", .str "GLY"), ("resid", .int 3)])] := by decide
/-- **The interactions of a fetched block come along, on the renumbered atoms**: after `to_molecule` /
`merge_molecule` the interactions of every type are the earlier ones followed by those of the block, in
order, each with its atoms translated by the node correspondence (an atom that is not a node: error). -/
theorem mapping_interactions_renumbered (corr : List (String × Nat)) (its : List LInter)
    (d d' : List (String × List MInter)) (h : mapInters corr d its = some d') (sect : String) :
    ∃ new, (its.filter fun it => it.sect = sect).mapM (renumber? corr) = some new ∧
      intersOf d' sect = intersOf d sect ++ new :=
  mapInters_spec corr its d d' h sect

example : mapInters [("N", 4), ("CA", 5)] [] [{ sect := "bonds", atoms := ["N", "CA"], payload := "p" }]
    = some [("bonds", [{ atoms := [4, 5], payload := "p" }])] := by decide
example : mapInters [("N", 4)] [] [{ sect := "bonds", atoms := ["N", "CA"], payload := "p" }] = none := by decide

/-- **`block_from` keeps exactly the interactions among mapped atoms** (`Mapping.__init__` removes the
unmapped nodes): an interaction is kept iff all its atoms are kept, and no interaction type is left empty. -/
theorem mapping_interactions_kept_iff_mapped (keys : List Nat) (d : List (String × List MInter)) :
    (∀ t l, (t, l) ∈ keepInters keys d →
      l ≠ [] ∧ (∀ it ∈ l, ∀ a ∈ it.atoms, a ∈ keys) ∧ ∃ l0, (t, l0) ∈ d ∧ ∀ it ∈ l, it ∈ l0) ∧
    (∀ t l0 it, (t, l0) ∈ d → it ∈ l0 → (∀ a ∈ it.atoms, a ∈ keys) →
      ∃ l, (t, l) ∈ keepInters keys d ∧ it ∈ l) :=
  ⟨fun t l h => keepInters_sound keys d t l h,
   fun t l0 it hd hit hk => keepInters_complete keys d t l0 it hd hit hk⟩

/-- **Edge attributes** (`[ from edges ]` / `[ to edges ]` lines and the edges of fetched blocks,
`Graph.add_edge`): a new pair is appended with its attributes; for a pair that exists (in either
orientation) the set of edges is unchanged and its attributes are updated - an attribute written now wins,
the others stay. -/
theorem mapping_edge_attrs_merged (es : List ((Nat × Nat) × Attrs)) (a b : Nat) (attrs : Attrs) :
    (es.any (isEdge a b) = false → addEdge es a b attrs = es ++ [((a, b), attrs)]) ∧
    (es.any (isEdge a b) = true →
      addEdge es a b attrs = es.map (fun e => if isEdge a b e then (e.1, updAttrs e.2 attrs) else e) ∧
      (addEdge es a b attrs).map (·.1) = es.map (·.1)) ∧
    (∀ (old pre post : Attrs) (k : String) (v : JVal), (∀ e ∈ post, e.1 ≠ k) →
      (updAttrs old (pre ++ (k, v) :: post)).get k = some v) ∧
    (∀ (old new : Attrs) (k : String), (∀ e ∈ new, e.1 ≠ k) → (updAttrs old new).get k = old.get k) :=
  ⟨addEdge_new es a b attrs, addEdge_existing es a b attrs, updAttrs_last_wins, updAttrs_untouched⟩

example : addEdge [((0, 1), [("kind", .str "bb")])] 1 0 [("order", .int 2)]
    = [((0, 1), [("kind", .str "bb"), ("order", .int 2)])] := by decide

/-- **Integer columns** (`int()` on atom indices, resids, charge groups, nrexcl, shorthand residue numbers
and mapping weights): the weight of a `[ mapping ]` line is 1 when the column is absent and `int(column)`
otherwise; `pyInt?` is CPython's base-10 grammar restricted to ASCII - optional blanks, one optional sign
directly followed by digits with single underscores between digits. -/
theorem int_columns :
    weightOf [] = some 1 ∧ (∀ x r, weightOf (x :: r) = pyInt? x) ∧
    pyInt? "+1" = some 1 ∧ pyInt? "-0" = some 0 ∧ pyInt? "007" = some 7 ∧ pyInt? "1_0" = some 10 ∧
    pyInt? " 12\t" = some 12 ∧
    pyInt? "" = none ∧ pyInt? "+" = none ∧ pyInt? "_1" = none ∧ pyInt? "1_" = none ∧ pyInt? "1__0" = none ∧
    pyInt? "+ 1" = none ∧ pyInt? "+-1" = none ∧ pyInt? "1.0" = none ∧ pyInt? "0x1" = none ∧ pyInt? "1 2" = none := by
  refine ⟨rfl, fun _ _ => rfl, ?_⟩
  decide

/-- the digit part: what `intBodyOk` accepts starts and ends with a digit and has no other characters than
digits and underscores -/
theorem int_body_shape (cs : List Char) (h : intBodyOk cs = true) :
    (∃ c r, cs = c :: r ∧ isDigit c = true) ∧ ∀ c ∈ cs, isDigit c = true ∨ c = '_' := by
  have hrest : ∀ l : List Char, intBodyRest l = true → ∀ c ∈ l, isDigit c = true ∨ c = '_' :=
    fun l => intBodyRest_chars l.length l (Nat.le_refl _)
  cases cs with
  | nil => simp [intBodyOk] at h
  | cons c r =>
    simp only [intBodyOk, Bool.and_eq_true] at h
    exact ⟨⟨c, r, rfl, h.1⟩, hrest (c :: r) h.2⟩

/-- **Macros are substituted with the value in force at the line**: in a file that the macro pre-pass
accepts, the content line at position `pre.length` is the substitution of the written line with the
definitions accumulated by the `[ macros ]` lines above it (`defsAfter`: any number of `[ macros ]`
sections, anywhere), and a definition added last is the value of its name - an earlier definition of
the same name no longer counts, the other names are unaffected. -/
theorem macros_value_in_force (T : List Path) :
    (∀ (pre : List Line) (sec : Path) (ms : List (String × String)) (t : String) (post out : List Line),
      expandMacros T sec ms (pre ++ .content t :: post) = some out →
      ∃ sec' ms' t', defsAfter T sec ms pre = some (sec', ms') ∧ substMacros ms' t = some t' ∧
        out[pre.length]? = some (.content t')) ∧
    (∀ (ms : List (String × String)) (n v : String),
      lookupMacro (ms ++ [(n, v)]) n = some v ∧
      ∀ n', n' ≠ n → lookupMacro (ms ++ [(n, v)]) n' = lookupMacro ms n') :=
  ⟨fun pre => expand_in_force T pre, lookupMacro_last⟩

/-- the same line text before and after a redefinition gives two different lines -/
example : expandMacros [["macros"], ["link"]] [] []
    [.header "macros", .content "k 1250", .header "link", .content "A B $k",
     .header "macros", .content "k 7500", .header "link", .content "A B $k"]
    = some [.header "macros", .content "k 1250", .header "link", .content "A B 1250",
            .header "macros", .content "k 7500", .header "link", .content "A B 7500"] := by decide

/-- **A `[ non-edges ]` line of a link** appends exactly one entry (key of the first atom, attributes of
the second atom) and creates no node; the attributes are the link-wide ones (`[ link ]` attribute lines)
overridden by what the line says about the atom: an attribute the line does not set keeps the link-wide
value, an attribute the line sets has the line's value. -/
theorem non_edge_carries_link_attributes (line : String) (c c' : Ctx)
    (h : edgeLine .link true line c = some c') :
    (∃ k0 x, c'.nonEdges = c.nonEdges ++ [nonEdgeOf c k0 x] ∧ c'.nodes = c.nodes ∧ c'.inters = c.inters ∧
      c'.allNodes = c.allNodes) ∧
    (∀ (k0 : String) (x : Attrs) (k : String), (∀ e ∈ x, e.1 ≠ k) →
      (nonEdgeOf c k0 x).2.get k = c.allNodes.get k) ∧
    (∀ (k0 : String) (pre post : Attrs) (k : String) (v : JVal), (∀ e ∈ post, e.1 ≠ k) →
      (nonEdgeOf c k0 (pre ++ (k, v) :: post)).2.get k = some v) :=
  ⟨edgeLine_non_edge line c c' h,
   fun _ x k hx => Mapping.updAttrs_untouched c.allNodes x k hx,
   fun _ pre post k v hp => Mapping.updAttrs_last_wins c.allNodes pre post k v hp⟩

example : (edgeLine .link true "BB SC1" { allNodes := [("resname", .str "ALA")] }).map (·.nonEdges)
    = some [("BB", [("resname", .str "ALA"), ("order", .int 0), ("atomname", .str "SC1")])] := by decide
end C13.Props
