import VermouthProps.C09
import VermouthProofs.C09_Boundary
/-!
# C09 — boundary values: what holds WITHOUT the sign hypothesis, weight 0 versus a missing weight,
a single constituent, the origin as a position

All theorems are about the same generic model functions as `VermouthProps/C09.lean` (every linear
ordered field `K`, every tolerance); the witnesses are evaluated by the kernel at `ℚ`.

* The bounding-box / convex-hull clause (`in_bounding_box`, `in_half_space`) needs non-negative
  weights.  With weights of ANY sign exactly this holds: the position is the affine combination
  `Σ w x / Σ w` (`pos_eq_weighted_mean`, `pos_balance`), hence it lies in the AFFINE hull of the
  positioned constituents: `in_affine_hull` (every hyperplane `n·q = d` through all of them contains the
  particle); `negative_weight_witness` shows that the bounding box itself can be left.
* weight `0` is not "no weight": a constituent with weight 0 is out of the mean
  (`zero_weight_atom_irrelevant`), a constituent whose key is missing from `mapping_weights` counts with
  weight 1 (`missing_key_weight_one`); `zero_vs_missing_witness`.
* `[0, 0, 0]` is a position like any other (`origin_witness`): the model has no truth test on a position,
  `Atom.pos` only asks for three finite coordinates.
-/
set_option linter.unusedSectionVars false

namespace C09

section spec
variable {K : Type} [Field K] [LinearOrder K] [IsStrictOrderedRing K]

/-- **Affine hull (weights of any sign)**: every hyperplane `n·q = d` that contains all positioned
constituents contains the particle.  No hypothesis on the signs of the weights. -/
theorem in_affine_hull {eps : K} (heps : 0 < eps) (w : Option String) (g : List (Atom K))
    (mw : Option (List (Int × K))) (p : V3 K) (h : beadPos eps w g mw = some p)
    (n : V3 K) (d : K) (hb : ∀ a ∈ g, ∀ q, a.pos = some q → n.dot q = d) : n.dot p = d := by
  unfold beadPos at h
  have hs := wsum_ne_zero_of_mean heps h
  rw [linear_of_mean h n, wcsum_const_on (fun q => n.dot q) d]
  · field_simp
  · intro t ht
    obtain ⟨a, ha, hp, _⟩ := mem_terms ht
    exact hb a ha _ hp

/-- all positioned constituents sit at one point `q` (in particular: a single positioned constituent,
a one-to-one mapping): the particle, when defined, sits exactly there — whatever the weights -/
theorem coincident_constituents {eps : K} (heps : 0 < eps) (w : Option String) (g : List (Atom K))
    (mw : Option (List (Int × K))) (p q : V3 K) (h : beadPos eps w g mw = some p)
    (hq : ∀ a ∈ g, ∀ q', a.pos = some q' → q' = q) : p = q := by
  have hx := in_affine_hull heps w g mw p h ⟨1, 0, 0⟩ q.x (by
    intro a ha q' hq'; rw [hq a ha q' hq']; simp [V3.dot])
  have hy := in_affine_hull heps w g mw p h ⟨0, 1, 0⟩ q.y (by
    intro a ha q' hq'; rw [hq a ha q' hq']; simp [V3.dot])
  have hz := in_affine_hull heps w g mw p h ⟨0, 0, 1⟩ q.z (by
    intro a ha q' hq'; rw [hq a ha q' hq']; simp [V3.dot])
  simp only [V3.dot, one_mul, zero_mul, add_zero, zero_add] at hx hy hz
  cases p; cases q
  simp_all

/-- **single constituent**: the particle is AT the atom iff the atom's weight is not (numerically) zero;
otherwise it is undefined.  A short cut "one positioned constituent → copy its position" is therefore
wrong exactly for weight 0. -/
theorem single_constituent {eps : K} (heps : 0 < eps) (w : Option String) (a : Atom K)
    (mw : Option (List (Int × K))) (q : V3 K) (hq : a.pos = some q) :
    (eps ≤ |atomWeight w (mw.getD []) a| → beadPos eps w [a] mw = some q)
    ∧ (|atomWeight w (mw.getD []) a| < eps → beadPos eps w [a] mw = none) := by
  have htw : totalWeight w [a] mw = atomWeight w (mw.getD []) a := by
    simp [totalWeight, positioned, hq]
  constructor
  · intro hge
    obtain ⟨p, hp⟩ := defined_of_weight eps w [a] mw (by rw [htw]; exact hge)
    rw [hp]
    congr 1
    apply coincident_constituents heps w [a] mw p q hp
    intro b hb q' hq'
    rw [List.mem_singleton.1 hb, hq] at hq'
    exact (Option.some.inj hq').symm
  · intro hlt
    rw [none_iff_zero_weight, htw]
    exact hlt

/-- **weight 0 takes a constituent out**: a constituent whose weight (mapping weight × centre weight,
e.g. mapping weight 0 or mass 0) is zero can be removed — or moved anywhere — without changing the
result -/
theorem zero_weight_atom_irrelevant (eps : K) (w : Option String) (g1 g2 : List (Atom K)) (a : Atom K)
    (mw : Option (List (Int × K))) (h0 : atomWeight w (mw.getD []) a = 0) :
    beadPos eps w (g1 ++ a :: g2) mw = beadPos eps w (g1 ++ g2) mw := by
  unfold beadPos
  rw [terms_append, terms_append]
  cases hp : a.pos with
  | none => rw [terms_cons_none _ _ _ _ hp]
  | some q =>
    rw [terms_cons_some _ _ _ _ q hp, h0]
    unfold mean
    simp only [wsum_append, wcsum_append, wsum, wcsum, zero_mul, zero_add]

end spec

/-! ## witnesses -/

/-- a NEGATIVE weight can put the particle outside the bounding box of its constituents (atoms at
x = 0 and x = 1, weights 2 and −1: x = −1) — it stays on their line (`in_affine_hull`) -/
theorem negative_weight_witness :
    beadPosQ none [.at 1 ⟨0, 5, 7⟩ [], .at 2 ⟨1, 5, 7⟩ []] (some [(1, 2), (2, -1)]) = some ⟨-1, 5, 7⟩ := by
  decide +kernel

/-- weight 0 versus no weight: with `{1: 0}` atom 2 (key missing: weight 1) alone places the particle;
with `{1: 0, 2: 0}` the particle is undefined; the same with an integer-valued or a mass weight of 0 -/
theorem zero_vs_missing_witness :
    beadPosQ none [.at 1 ⟨8, 8, 8⟩ [("mass", 0)], .at 2 ⟨1, 2, 3⟩ [("mass", 4)]] (some [(1, 0)]) = some ⟨1, 2, 3⟩
    ∧ beadPosQ none [.at 1 ⟨8, 8, 8⟩ [("mass", 0)], .at 2 ⟨1, 2, 3⟩ [("mass", 4)]] (some [(1, 0), (2, 0)]) = none
    ∧ beadPosQ none [.at 1 ⟨8, 8, 8⟩ [("mass", 0)], .at 2 ⟨1, 2, 3⟩ [("mass", 4)]] none = some ⟨9 / 2, 5, 11 / 2⟩
    ∧ beadPosQ (some "mass") [.at 1 ⟨8, 8, 8⟩ [("mass", 0)], .at 2 ⟨1, 2, 3⟩ [("mass", 4)]] none = some ⟨1, 2, 3⟩
    ∧ beadPosQ (some "mass") [.at 1 ⟨8, 8, 8⟩ [("mass", 0)]] none = none := by
  refine ⟨by decide +kernel, by decide +kernel, by decide +kernel, by decide +kernel, by decide +kernel⟩

/-- the origin is a position: an atom at `[0, 0, 0]` is positioned and pulls the particle; a particle
whose constituents all sit at the origin is AT the origin, not undefined -/
theorem origin_witness :
    positioned (Atom.at (K := ℚ) 1 ⟨0, 0, 0⟩ []) = true
    ∧ beadPosQ none [.at 1 ⟨0, 0, 0⟩ [], .at 2 ⟨2, 4, 6⟩ []] none = some ⟨1, 2, 3⟩
    ∧ beadPosQ none [.at 1 ⟨0, 0, 0⟩ [], .at 2 ⟨0, 0, 0⟩ []] (some [(1, 3), (2, 1)]) = some ⟨0, 0, 0⟩
    ∧ beadPosQ none [.at 1 ⟨0, 0, 0⟩ []] none = some ⟨0, 0, 0⟩ := by
  refine ⟨by decide +kernel, by decide +kernel, by decide +kernel, by decide +kernel⟩

/-- magnitudes: the model is exact at every scale (`2^60`, `2^-60`); the result scales with the input -/
theorem scale_witness :
    beadPosQ none [.at 1 ⟨1152921504606846976, 0, 0⟩ [], .at 2 ⟨3 * 1152921504606846976, 0, 0⟩ []] (some [(1, 3), (2, 1)])
      = some ⟨3 * 1152921504606846976 / 2, 0, 0⟩
    ∧ beadPosQ none [.at 1 ⟨1 / 1152921504606846976, 0, 0⟩ [], .at 2 ⟨3 / 1152921504606846976, 0, 0⟩ []] (some [(1, 3), (2, 1)])
      = some ⟨3 / (2 * 1152921504606846976), 0, 0⟩ := by
  refine ⟨by decide +kernel, by decide +kernel⟩

end C09
