import VermouthProofs.C17_Annot
namespace C17

/-! residue order -/
theorem residues_mem_iff (m : Mol) (r : Nat) : r ∈ residues m ↔ ∃ a ∈ m, a.res = r :=
  mem_residues m r
theorem residues_nodup (m : Mol) : (residues m).Nodup := nodup_residues m
theorem residues_sorted (m : Mol) : (residues m).Pairwise (fun r s => minKey m r ≤ minKey m s) :=
  sorted_residues m
theorem minKey_le (m : Mol) (a : Atom) (h : a ∈ m) : minKey m a.res ≤ a.key :=
  minKey_le_key m a h
theorem minKey_attained (m : Mol) (r : Nat) (h : r ∈ residues m) : ∃ a ∈ m, a.res = r ∧ a.key = minKey m r :=
  minKey_attained' m r ((mem_residues m r).mp h)

/-! length reconciliation -/
theorem reconcile_length (L seq sequence : List Nat) (h : reconcile L seq = .ok sequence) :
    sequence.length = L.sum :=
  reconcile_length' L seq sequence h
theorem reconcile_exact (L seq : List Nat) (h1 : seq.length = L.sum) (h2 : seq.length ≠ 1)
    (h3 : ¬ (L ≠ [] ∧ allEqual L = true ∧ seq.length = L.headD 0)) :
    reconcile L seq = .ok seq :=
  reconcile_exact' L seq h1 h2 h3
theorem reconcile_one (L : List Nat) (v : Nat) (h : L ≠ []) :
    reconcile L [v] = .ok (List.replicate L.sum v) :=
  reconcile_one' L v h
theorem reconcile_per_molecule (L seq : List Nat) (h1 : L ≠ []) (h2 : allEqual L = true)
    (h3 : seq.length = L.headD 0) :
    reconcile L seq = .ok (repeatSeq seq L.length) ∧
      ∀ j k, j < L.length → k < seq.length → (repeatSeq seq L.length)[j * seq.length + k]? = seq[k]? :=
  reconcile_per_molecule' L seq h1 h2 h3
theorem reconcile_mismatch (L seq : List Nat) (h1 : seq.length ≠ L.sum) (h2 : seq.length ≠ 1)
    (h3 : ¬ (L ≠ [] ∧ allEqual L = true ∧ seq.length = L.headD 0)) :
    reconcile L seq = .error .valueerror :=
  reconcile_mismatch' L seq h1 h2 h3
theorem reconcile_nothing_selected (seq : List Nat) (h : seq ≠ []) : reconcile [] seq = .error .valueerror :=
  reconcile_nothing_selected' seq h

/-! the system -/
theorem length_mismatch_error (sys : Sys) (seq : List Nat) (h : reconcile (selLengths sys) seq = .error .valueerror) :
    annotateSystem sys seq = .error .valueerror :=
  annotateSystem_error sys seq _ h

/-- a sequence accepted by the length reconciliation is applied without any further error -/
theorem annot_ok_of_reconciled (sys : Sys) (seq sequence : List Nat) (h : reconcile (selLengths sys) seq = .ok sequence) :
    ∃ sys', annotateSystem sys seq = .ok sys' :=
  ⟨_, annotateSystem_eq_walk sys seq sequence h⟩

theorem unselected_untouched (sys sys' : Sys) (seq : List Nat) (h : annotateSystem sys seq = .ok sys') :
    sys'.length = sys.length ∧ ∀ (i : Nat) (m : Mol), sys[i]? = some (false, m) → sys'[i]? = some (false, m) := by
  obtain ⟨sequence, hr⟩ := annotateSystem_ok_reconcile sys sys' seq h
  rw [annotateSystem_eq_walk sys seq sequence hr] at h
  injection h with h
  subst h
  exact ⟨walk_length sequence 0 sys, fun i m hi => walk_unselected sequence 0 sys i m hi⟩

theorem annot_alignment (sys sys' : Sys) (seq : List Nat) (h : annotateSystem sys seq = .ok sys') :
    ∃ sequence, reconcile (selLengths sys) seq = .ok sequence ∧
      ∀ (i : Nat) (m : Mol), sys[i]? = some (true, m) →
        sys'[i]? = some (true, annotated m sequence (offset sys i)) ∧
        ∀ a ∈ m, offset sys i + (residues m).idxOf a.res < sequence.length := by
  obtain ⟨sequence, hr⟩ := annotateSystem_ok_reconcile sys sys' seq h
  rw [annotateSystem_eq_walk sys seq sequence hr] at h
  injection h with h
  subst h
  refine ⟨sequence, hr, fun i m hi => ⟨?_, fun a ha => ?_⟩⟩
  · have := walk_selected sequence 0 sys i m hi
    rwa [Nat.zero_add] at this
  · have hb := offset_bound sys i m hi
    have hlen := reconcile_length' _ _ _ hr
    have hmem : a.res ∈ residues m := (mem_residues m a.res).mpr ⟨a, ha, rfl⟩
    have := List.idxOf_lt_length_iff.mpr hmem
    omega

/-- finding F-C17-1, stated on the model of the unrepaired loop: an unselected molecule in front
of a selected one receives the annotation -/
theorem old_loop_touches_unselected :
    annotateSystemOld [(false, [⟨0, 0, none⟩]), (true, [⟨0, 0, none⟩])] [7]
      = .ok [(false, [⟨0, 0, some 7⟩]), (true, [⟨0, 0, none⟩])] := by rfl

end C17
