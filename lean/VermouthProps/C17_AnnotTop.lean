import VermouthProofs.C17_Annot
namespace C17

/-! residue order -/
theorem residues_mem_iff (m : Mol) (r : Nat) : r ∈ residues m ↔ ∃ a ∈ m, a.res = r := by sorry
theorem residues_nodup (m : Mol) : (residues m).Nodup := by sorry
theorem residues_sorted (m : Mol) : (residues m).Pairwise (fun r s => minKey m r ≤ minKey m s) := by sorry
theorem minKey_le (m : Mol) (a : Atom) (h : a ∈ m) : minKey m a.res ≤ a.key := by sorry
theorem minKey_attained (m : Mol) (r : Nat) (h : r ∈ residues m) : ∃ a ∈ m, a.res = r ∧ a.key = minKey m r := by sorry

/-! length reconciliation -/
theorem reconcile_length (L seq sequence : List Nat) (h : reconcile L seq = .ok sequence) :
    sequence.length = L.sum := by sorry
theorem reconcile_exact (L seq : List Nat) (h1 : seq.length = L.sum) (h2 : seq.length ≠ 1)
    (h3 : ¬ (L ≠ [] ∧ allEqual L = true ∧ seq.length = L.headD 0)) :
    reconcile L seq = .ok seq := by sorry
theorem reconcile_one (L : List Nat) (v : Nat) (h : L ≠ []) :
    reconcile L [v] = .ok (List.replicate L.sum v) := by sorry
theorem reconcile_per_molecule (L seq : List Nat) (h1 : L ≠ []) (h2 : allEqual L = true)
    (h3 : seq.length = L.headD 0) :
    reconcile L seq = .ok (repeatSeq seq L.length) ∧
      ∀ j k, j < L.length → k < seq.length → (repeatSeq seq L.length)[j * seq.length + k]? = seq[k]? := by sorry
theorem reconcile_mismatch (L seq : List Nat) (h1 : seq.length ≠ L.sum) (h2 : seq.length ≠ 1)
    (h3 : ¬ (L ≠ [] ∧ allEqual L = true ∧ seq.length = L.headD 0)) :
    reconcile L seq = .error .valueerror := by sorry
theorem reconcile_nothing_selected (seq : List Nat) (h : seq ≠ []) : reconcile [] seq = .error .valueerror := by sorry

/-! the system -/
theorem length_mismatch_error (sys : Sys) (seq : List Nat) (h : reconcile (selLengths sys) seq = .error .valueerror) :
    annotateSystem sys seq = .error .valueerror := by sorry

/-- a sequence accepted by the length reconciliation is applied without any further error -/
theorem annot_ok_of_reconciled (sys : Sys) (seq sequence : List Nat) (h : reconcile (selLengths sys) seq = .ok sequence) :
    ∃ sys', annotateSystem sys seq = .ok sys' := by sorry

theorem unselected_untouched (sys sys' : Sys) (seq : List Nat) (h : annotateSystem sys seq = .ok sys') :
    sys'.length = sys.length ∧ ∀ (i : Nat) (m : Mol), sys[i]? = some (false, m) → sys'[i]? = some (false, m) := by sorry

theorem annot_alignment (sys sys' : Sys) (seq : List Nat) (h : annotateSystem sys seq = .ok sys') :
    ∃ sequence, reconcile (selLengths sys) seq = .ok sequence ∧
      ∀ (i : Nat) (m : Mol), sys[i]? = some (true, m) →
        sys'[i]? = some (true, annotated m sequence (offset sys i)) ∧
        ∀ a ∈ m, offset sys i + (residues m).idxOf a.res < sequence.length := by sorry

/-- finding F-C17-1, stated on the model of the unrepaired loop: an unselected molecule in front
of a selected one receives the annotation -/
theorem old_loop_touches_unselected :
    annotateSystemOld [(false, [⟨0, 0, none⟩]), (true, [⟨0, 0, none⟩])] [7]
      = .ok [(false, [⟨0, 0, some 7⟩]), (true, [⟨0, 0, none⟩])] := by rfl

end C17
