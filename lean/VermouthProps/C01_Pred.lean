import VermouthProofs.C01_PredProofs
import VermouthProps.C01_Events
/-!
# C01 — follow-up: predicate-valued template attributes; bonds between block placements in runs with
modification matches

1. `VermouthModel/C01_Pred.lean` transcribes `attributes_match` with `LinkPredicate` values (`Choice`,
   `NotDefinedOrNot`: what `"resname": "ASP|GLU"` in a `.mapping` file becomes), `_old_atomname_match` and
   `ptm_resname_match`.  `placements_exact_pred` is `placements_exact` for that matcher, for block mappings
   (`block = true`: `edge_matcher` colours) and modification mappings (`block = false`); `attributesMatchP_iff`,
   `holds_choice`, `holds_notDef`, `oldAtomnameMatchP_iff`, `ptmResnameMatchP_iff` say what the node predicate
   is; `choice_resname_fits` is the case of the `ASP|GLU` mapping.
2. `inter_edge_with_mods`: in a run WITH modification matches two particles are bonded at the end iff they
   were bonded by a block copy / a modification's own bonds, or some atom contributing to the one (not as a
   none-to-one particle) is bonded to some atom contributing to the other and the two atoms lie in two DIFFERENT
   matches (block or modification, in either order).  `cross_block_bond_kept`: a bond between atoms of two
   different block placements always counts - whatever modification matches cover the two atoms as well
   (a cross-link that carries a modification).
-/
namespace C01
open C12

namespace Pred

/-! ## the node predicate -/

theorem holds_plain (a : AAttrs) (k : String) (v : PV) : (TVal.plain v).holds a k = true ↔ getA a k = v := by
  simp [TVal.holds]

/-- `Choice(vs)`: the attribute (`None` when missing) is one of the listed values -/
theorem holds_choice (a : AAttrs) (k : String) (vs : List PV) :
    (TVal.choice vs).holds a k = true ↔ getA a k ∈ vs := by
  simp [TVal.holds]

/-- `NotDefinedOrNot(v)`: the key is missing, or its value differs from `v` -/
theorem holds_notDef (a : AAttrs) (k : String) (v : PV) :
    (TVal.notDef v).holds a k = true ↔ a.lookup k = none ∨ ∃ x, a.lookup k = some x ∧ x ≠ v := by
  unfold TVal.holds
  cases h : a.lookup k with
  | none => simp
  | some x => simp

/-- `attributes_match`: every template attribute outside the ignore list holds -/
theorem attributesMatchP_iff (a : AAttrs) (t : TAttrs) :
    attributesMatchP a t = true ↔ ∀ kv ∈ t, kv.1 ∉ ignoreKeys → kv.2.holds a kv.1 = true := by
  unfold attributesMatchP
  simp only [List.all_eq_true, Bool.or_eq_true, List.contains_iff_mem]
  constructor
  · intro h kv hkv hni
    rcases h kv hkv with h | h
    · exact absurd h hni
    · exact h
  · intro h kv hkv
    by_cases hi : kv.1 ∈ ignoreKeys
    · exact Or.inl hi
    · exact Or.inr (h kv hkv hi)

/-- `_old_atomname_match(node1, node2)`: the (old) atom name of the atom satisfies the template's (old) atom
name - equal, among the choices, or not the excluded one -, and every other template attribute outside the
ignore list holds for the atom; a template `order` is skipped when the atom has none -/
theorem oldAtomnameMatchP_iff (a : AAttrs) (t : TAttrs) :
    oldAtomnameMatchP a t = true ↔
      (nameT t).holds [("_name", nameA a)] "_name" = true
      ∧ ∀ kv ∈ t, kv.1 ∉ ignoreKeys → kv.1 ≠ "atomname" → kv.1 ≠ "_name"
          → ¬ (kv.1 = "order" ∧ a.lookup "order" = none) → kv.2.holds a kv.1 = true := by
  unfold oldAtomnameMatchP
  rw [attributesMatchP_iff]
  have hname : (nameT t).holds (viewA a) "_name" = (nameT t).holds [("_name", nameA a)] "_name" := by
    apply holds_congr
    simp [viewA]
  have hni : "_name" ∉ ignoreKeys := by decide
  constructor
  · intro h
    refine ⟨?_, ?_⟩
    · have := h ("_name", nameT t) (by simp [viewT]) hni
      rw [← hname]; exact this
    · intro kv hkv hi h1 h2 h3
      have hmem : kv ∈ viewT a t := by
        unfold viewT
        refine List.mem_cons_of_mem _ (List.mem_filter.2 ⟨hkv, ?_⟩)
        simp only [Bool.and_eq_true, bne_iff_ne, ne_eq, Bool.not_eq_true', Bool.and_eq_false_iff,
          beq_eq_false_iff_ne, Option.isNone_eq_false_iff]
        refine ⟨⟨h1, h2⟩, ?_⟩
        by_cases ho : kv.1 = "order"
        · right
          cases hl : a.lookup "order" with
          | none => exact absurd ⟨ho, hl⟩ h3
          | some x => simp
        · exact Or.inl ho
      have := h kv hmem hi
      rw [holds_congr (viewA a) a kv.1 (viewA_lookup a kv.1 h2 h1)] at this
      exact this
  · rintro ⟨hn, hrest⟩ kv hkv hi
    unfold viewT at hkv
    rcases List.mem_cons.1 hkv with rfl | hkv
    · rw [hname]; exact hn
    · obtain ⟨hkv, hf⟩ := List.mem_filter.1 hkv
      simp only [Bool.and_eq_true, bne_iff_ne, ne_eq, Bool.not_eq_true', Bool.and_eq_false_iff,
        beq_eq_false_iff_ne, Option.isNone_eq_false_iff] at hf
      obtain ⟨⟨h1, h2⟩, h3⟩ := hf
      rw [holds_congr (viewA a) a kv.1 (viewA_lookup a kv.1 h2 h1)]
      refine hrest kv hkv hi h1 h2 ?_
      rintro ⟨ho, hl⟩
      rcases h3 with h3 | h3
      · exact h3 ho
      · rw [hl] at h3; simp at h3

/-- `ptm_resname_match`: `_old_atomname_match` once an empty `resname` / a false `PTM_atom` of the template are
dropped, and every modification the template names is among the atom's -/
theorem ptmResnameMatchP_iff (a : ANode) (t : TNode) :
    ptmResnameMatchP a t = true ↔
      oldAtomnameMatchP a.attrs (ptmView t.attrs) = true
      ∧ (match a.mods with
         | some l => ∀ x ∈ t.mods.getD [], x ∈ l
         | none => t.mods = none) := by
  obtain ⟨ak, aa, ar, am⟩ := a
  unfold ptmResnameMatchP modsMatch
  rw [Bool.and_eq_true]
  cases am with
  | none => simp
  | some l => simp [List.all_eq_true]

/-- the mapping of the seeded change `C01l`: a from-node `{atomname: n, resname: Choice(vs), resid: r}` fits an
atom (without `_old_atomname`) iff the atom is called `n` and its residue name is one of `vs` -/
theorem choice_resname_fits (a : AAttrs) (n : PV) (vs : List PV) (r : PV)
    (hold : a.lookup "_old_atomname" = none) :
    oldAtomnameMatchP a [("atomname", .plain n), ("resname", .choice vs), ("resid", .plain r)] = true
      ↔ getA a "atomname" = n ∧ getA a "resname" ∈ vs := by
  rw [oldAtomnameMatchP_iff]
  have hn : nameT [("atomname", TVal.plain n), ("resname", .choice vs), ("resid", .plain r)] = .plain n := by
    simp [nameT, List.lookup_cons]
  have hna : nameA a = getA a "atomname" := by simp [nameA, hold]
  rw [hn, holds_plain, hna]
  have hg : getA [("_name", getA a "atomname")] "_name" = getA a "atomname" := by
    simp [getA]
  rw [hg]
  constructor
  · rintro ⟨h1, h2⟩
    refine ⟨h1, ?_⟩
    have := h2 ("resname", .choice vs) (by simp) (by simp [ignoreKeys]) (by simp) (by simp) (by simp)
    exact (holds_choice _ _ _).1 this
  · rintro ⟨h1, h2⟩
    refine ⟨h1, ?_⟩
    intro kv hkv hi h3 h4 _
    simp only [List.mem_cons, List.not_mem_nil, or_false] at hkv
    rcases hkv with rfl | rfl | rfl
    · exact absurd rfl h3
    · exact (holds_choice _ _ _).2 h2
    · exact absurd (by simp [ignoreKeys]) hi

/-! ## the reference matcher -/

/-- `placements_exact_pred`: for templates whose attributes may be `Choice` / `NotDefinedOrNot` predicates, and for
both kinds of mappings, the reference matcher returns exactly the maps of the nodes of `block_from` into the
molecule that are injective, satisfy the node matcher on every node (`_old_atomname_match` for block mappings,
`ptm_resname_match` for modification mappings, self-loop onto self-loop), and map bonds to bonds and non-bonds
to non-bonds - for block mappings with agreeing "both ends in the same residue" flag -; each once. -/
theorem placements_exact_pred (block : Bool) (mol : List ANode) (medges : List (Int × Int)) (pat : List TNode)
    (pedges : List (Int × Int)) (hp : (pat.map (·.key)).Nodup) (hm : (mol.map (·.key)).Nodup) :
    (∀ f, f ∈ refMatchesP block mol medges pat pedges ↔
        f.map Prod.fst = pat.map (·.key)
        ∧ Iso.IsIndIsoP (toGraphP block (mol.map (fun n => (n.key, n.resid))) medges)
            (toGraphP block (pat.map (fun n => (n.key, n.resid))) pedges)
            (nodePredP block mol medges pat pedges) (Iso.Map.toFun f))
    ∧ (refMatchesP block mol medges pat pedges).Nodup := by
  have hk : (toGraphP block (pat.map (fun n => (n.key, n.resid))) pedges).keys = pat.map (·.key) := by
    rw [toGraphP_keys]; simp [List.map_map, Function.comp_def]
  have hk2 : (toGraphP block (mol.map (fun n => (n.key, n.resid))) medges).keys = mol.map (·.key) := by
    rw [toGraphP_keys]; simp [List.map_map, Function.comp_def]
  refine ⟨?_, Iso.allIsosP_nodup _ _ _ (by rw [hk2]; exact hm)⟩
  intro f
  unfold refMatchesP
  rw [Iso.mem_allIsosP_iff _ _ _ (by rw [hk]; exact hp), hk]

/-! ### non-vacuity: the `ASP|GLU` mapping on ASP-GLU-ASN; a cross-link modification template -/

def exAcid : List TNode :=
  [⟨0, [("atomname", .plain (some "sCA")), ("resname", .choice [some "sASP", some "sGLU"]), ("resid", .plain (some "i1"))], some 1, none⟩,
   ⟨1, [("atomname", .plain (some "sCB")), ("resname", .choice [some "sASP", some "sGLU"]), ("resid", .plain (some "i1")),
        ("element", .notDef (some "sH"))], some 1, none⟩]

def exChain : List ANode :=
  [⟨10, [("atomname", some "sCA"), ("resname", some "sASP")], some 4, none⟩,
   ⟨11, [("atomname", some "sCB"), ("resname", some "sASP"), ("element", some "sC")], some 4, none⟩,
   ⟨12, [("atomname", some "sCA"), ("resname", some "sGLU")], some 5, none⟩,
   ⟨13, [("atomname", some "sCB"), ("resname", some "sGLU")], some 5, none⟩,
   ⟨14, [("atomname", some "sCA"), ("resname", some "sASN")], some 6, none⟩,
   ⟨15, [("atomname", some "sCB"), ("resname", some "sASN")], some 6, none⟩]

example : refMatchesP true exChain [(10, 11), (10, 12), (12, 13), (12, 14), (14, 15)] exAcid [(0, 1)]
    = [[(0, 10), (1, 11)], [(0, 12), (1, 13)]] := by decide
example : (exAcid.map (·.key)).Nodup ∧ (exChain.map (·.key)).Nodup := by decide

/-- a cross-link template SG-NZ (both anchors, the modification named on both): fits only where the two atoms
carry the modification -/
def exXl : List TNode :=
  [⟨0, [("atomname", .choice [some "sSG", some "sSD"]), ("PTM_atom", .plain (some "bFalse"))], none, some ["XL"]⟩,
   ⟨1, [("atomname", .plain (some "sNZ")), ("PTM_atom", .plain (some "bFalse")), ("resname", .plain (some "s"))], none, some ["XL"]⟩]
def exXlMol : List ANode :=
  [⟨1, [("atomname", some "sSG"), ("resname", some "sCYS")], some 1, some ["XL"]⟩,
   ⟨2, [("atomname", some "sNZ"), ("resname", some "sLYS")], some 3, some ["XL", "OTHER"]⟩,
   ⟨3, [("atomname", some "sSG"), ("resname", some "sCYS")], some 4, none⟩,
   ⟨4, [("atomname", some "sNZ"), ("resname", some "sLYS")], some 5, some []⟩]
example : refMatchesP false exXlMol [(1, 2), (3, 4)] exXl [(0, 1)] = [[(0, 1), (1, 2)]] := by decide

end Pred

/-! ## bonds between placements in runs with modification matches -/

/-- the edges of the result of `finish`, for ANY state the placement loop ends in -/
theorem finish_hasEdge (m : MolIn) (st : St) (x y : Int) :
    (finish m st).hasEdge x y = true ↔
      st.out.hasEdge x y = true ∨ (x, y) ∈ interEdges m st ∨ (y, x) ∈ interEdges m st := by
  have : (finish m st).hasEdge x y = (withInterEdges m st).hasEdge x y := by
    simp [finish, Result.hasEdge, Mol.hasEdge]
  rw [this]
  exact withInterEdges_hasEdge m st x y

/-- the state the loop of `do_mapping` ends in, as a fold over the schedule -/
def finalState (ps : List Placement) (qs : List ModPlacement) : St := (eventsOf ps qs).foldl applyEv {}

/-- `inter_edge_with_mods`: with block AND modification matches, two particles are bonded in the result iff a
block copy / a modification's own bonds bonded them, or an atom `a` contributing to `x` and an atom `b`
contributing to `y` (none-to-one contributions do not count: `beadsOf`) are bonded in the input and lie in two
different matches of the run - block or modification matches, every match once, in processing order -/
theorem inter_edge_with_mods (m : MolIn) (ps : List Placement) (qs : List ModPlacement) (r : Result)
    (h : assembleAll m ps qs = .ok r) (x y : Int) :
    r.hasEdge x y = true ↔
      (finalState ps qs).out.hasEdge x y = true
      ∨ ∃ a b, x ∈ beadsOf (finalState ps qs) a ∧ y ∈ beadsOf (finalState ps qs) b ∧ x ≠ y ∧ m.adj a b = true
          ∧ ∃ kk ∈ pairsOf ((eventsOf ps qs).map Ev.atoms), (a ∈ kk.1 ∧ b ∈ kk.2) ∨ (b ∈ kk.1 ∧ a ∈ kk.2) := by
  obtain ⟨hok, rfl⟩ := assembleAll_ok m ps qs r h
  rw [runAll_eq_fold] at hok ⊢
  have hpl : (finalState ps qs).placed = (eventsOf ps qs).map Ev.atoms := by
    have := run_placed (eventsOf ps qs) {} hok
    simpa [finalState] using this
  show (finish m (finalState ps qs)).hasEdge x y = true ↔ _
  rw [finish_hasEdge]
  constructor
  · rintro (h | h | h)
    · exact Or.inl h
    · obtain ⟨ab, hab, hu, hv, hne⟩ := (mem_interEdges m _ x y).1 h
      obtain ⟨kk, hkk, h1, h2, hadj⟩ := (mem_crossBonds m _ ab.1 ab.2).1 hab
      rw [hpl] at hkk
      exact Or.inr ⟨ab.1, ab.2, hu, hv, hne, hadj, kk, hkk, Or.inl ⟨h1, h2⟩⟩
    · obtain ⟨ab, hab, hu, hv, hne⟩ := (mem_interEdges m _ y x).1 h
      obtain ⟨kk, hkk, h1, h2, hadj⟩ := (mem_crossBonds m _ ab.1 ab.2).1 hab
      rw [hpl] at hkk
      exact Or.inr ⟨ab.2, ab.1, hv, hu, fun e => hne e.symm, by rw [adj_comm]; exact hadj, kk, hkk, Or.inr ⟨h1, h2⟩⟩
  · rintro (h | ⟨a, b, hu, hv, hne, hadj, kk, hkk, hc | hc⟩)
    · exact Or.inl h
    · right; left
      refine (mem_interEdges m _ x y).2 ⟨(a, b), (mem_crossBonds m _ a b).2 ⟨kk, by rw [hpl]; exact hkk, hc.1, hc.2, hadj⟩, hu, hv, hne⟩
    · right; right
      refine (mem_interEdges m _ y x).2 ⟨(b, a), (mem_crossBonds m _ b a).2 ⟨kk, by rw [hpl]; exact hkk, hc.1, hc.2, by rw [adj_comm]; exact hadj⟩, hv, hu, fun e => hne e.symm⟩

/-- `cross_block_bond_kept`: a bond of the input between an atom of one block placement and an atom of ANOTHER
block placement bonds the particles the two atoms contribute to (none-to-one contributions aside) - whatever
other matches, e.g. a modification match covering both atoms (a cross-link that carries a modification), are
applied before, between or after the two block matches -/
theorem cross_block_bond_kept (m : MolIn) (ps : List Placement) (qs : List ModPlacement) (r : Result)
    (h : assembleAll m ps qs = .ok r) (pre mid post : List Ev) (p1 p2 : Placement)
    (hsplit : eventsOf ps qs = pre ++ .blk p1 :: (mid ++ .blk p2 :: post))
    (a b : Int) (ha : a ∈ p1.atoms) (hb : b ∈ p2.atoms) (hadj : m.adj a b = true)
    (x y : Int) (hx : x ∈ beadsOf (finalState ps qs) a) (hy : y ∈ beadsOf (finalState ps qs) b) (hne : x ≠ y) :
    r.hasEdge x y = true := by
  rw [inter_edge_with_mods m ps qs r h]
  right
  refine ⟨a, b, hx, hy, hne, hadj, (p1.atoms, p2.atoms), ?_, Or.inl ⟨ha, hb⟩⟩
  rw [hsplit]
  simp only [List.map_append, List.map_cons]
  exact mem_pairsOf_split _ _ _ _ _


/-! ### non-vacuity: CYS(CA 0, SG 1) - GLY(CA 10) - LYS(CA 20, NZ 21), cross-link SG-NZ carrying a modification
whose mapping lays a node over the side-chain particle of either residue (the seeded change `C01k`) -/

def exBS : Mol := { nodes := [(0, { name := some "BB", resid := some 1 }), (1, { name := some "SC1", resid := some 1 })],
                    edges := [(0, 1)] }
def exBG : Mol := { nodes := [(0, { name := some "BB", resid := some 1 })] }
def exXMol : MolIn :=
  { atoms := [⟨0, 1, "CYS", "A", false⟩, ⟨1, 1, "CYS", "A", false⟩, ⟨10, 2, "GLY", "A", false⟩,
              ⟨20, 3, "LYS", "A", false⟩, ⟨21, 3, "LYS", "A", false⟩],
    edges := [(0, 1), (0, 10), (10, 20), (20, 21), (1, 21)] }
def exCys : Placement := { molToBlock := [(0, [(0, 1)]), (1, [(1, 1)])], block := exBS, refs := [] }
def exGly : Placement := { molToBlock := [(10, [(0, 1)])], block := exBG, refs := [] }
def exLys : Placement := { molToBlock := [(20, [(0, 1)]), (21, [(1, 1)])], block := exBS, refs := [] }
/-- the modification match covers BOTH cross-linked atoms; its target has no bond of its own -/
def exXlMod : ModPlacement := ModPlacement.mk [(1, [(0, 1)]), (21, [(1, 1)])]
  [ModNode.mk 0 { name := some "SC1" } false {}, ModNode.mk 1 { name := some "SC1" } false {}] [] [] []

example : eventsOf [exLys, exCys, exGly] [exXlMod] = [] ++ Ev.blk exCys :: ([Ev.blk exGly] ++ Ev.blk exLys :: [Ev.mod exXlMod]) := by
  rfl
example : (match assembleAll exXMol [exLys, exCys, exGly] [exXlMod] with | .ok _ => true | .error _ => false) = true := by
  decide
example : (1 : Int) ∈ exCys.atoms ∧ (21 : Int) ∈ exLys.atoms ∧ exXMol.adj 1 21 = true
    ∧ (2 : Int) ∈ beadsOf (finalState [exLys, exCys, exGly] [exXlMod]) 1
    ∧ (5 : Int) ∈ beadsOf (finalState [exLys, exCys, exGly] [exXlMod]) 21 := by decide
-- particles: 1 BB, 2 SC1 (CYS), 3 BB (GLY), 4 BB, 5 SC1 (LYS); the two side chains are bonded, and only they
-- and the backbone neighbours
example : (match assembleAll exXMol [exLys, exCys, exGly] [exXlMod] with
    | .ok r => (r.hasEdge 2 5, r.hasEdge 1 3, r.hasEdge 3 4, r.hasEdge 2 4, r.hasEdge 1 5)
    | .error _ => (false, false, false, false, false)) = (true, true, true, false, false) := by decide

end C01
