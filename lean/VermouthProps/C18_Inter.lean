import VermouthProofs.C18_Inter
import VermouthProps.C18
import VermouthProps.C18_Order
/-!
# C18 (follow-up) — the Go pipeline on molecules that already carry interactions

`VermouthModel/C18_Inter.lean` threads the whole state (node table, edges, `molecule.interactions`,
the two parameter tables of the system) through `add_virtual_sites` and `contact_selector` /
`compute_go_interaction`.  Here:

* `vs_ignores_existing_interactions`: the sites created (and hence their `virtual_sitesn` entries and
  `atomtypes` entries) are the function `addVirtualSites` of the node table alone - whatever the
  interaction table and the parameter tables hold (in particular a `virtual_sitesn` entry that is built
  from a backbone bead changes nothing); every existing entry of every section stays where it is, the new
  entries follow the existing `virtual_sitesn` entries, no other section changes, and the only key that can
  appear is `virtual_sitesn` (at the end);
* `exclusions_appended`: the exclusions of the emitted pairs are appended, in emission order, after the
  existing `exclusions` entries; nothing is looked up, so an exclusion that already exists is written AGAIN
  (`exclusion_duplicated`: the number of copies grows by the number of times the pair is emitted); the
  outcome does not depend on the tables; after an abort (`sys.exit`, `KeyError`) the molecule keeps the
  exclusions of the pairs emitted before it (`exclusions_before_abort`) and no potential is stored;
* `pipeline_ignores_existing_interactions`: the composed pipeline on the whole state creates the sites and
  selects the contacts of `goPipelineOrd` (so every theorem of `VermouthProps/C18.lean` applies);
* `system_tables_appended`: `atomtypes` / `nonbond_params` = what was there, followed by one entry per
  site / per emitted pair; when each key exists afterwards.
-/
namespace C18

/-- **`vs_ignores_existing_interactions`** -/
theorem vs_ignores_existing_interactions (pre bb vsn : String) (s : GoState)
    (T : ITable) (at' : Option (List AtE)) (nb' : Option (List NbE)) :
    let r := addVirtualSitesM pre bb vsn s
    let r' := addVirtualSitesM pre bb vsn { s with inter := T, atomtypes := at', nonbond := nb' }
    -- the sites are a function of the node table alone
    r.2 = addVirtualSites pre bb vsn s.atoms ∧ r'.2 = r.2 ∧ r'.1.atoms = r.1.atoms
    ∧ r.1.atoms = withSites s.atoms r.2 ∧ r.1.edges = s.edges
    -- the new entries follow the existing ones (none for a molecule without atoms)
    ∧ tabGet r.1.inter "virtual_sitesn" = tabGet s.inter "virtual_sitesn" ++ r.2.map vsInter
    -- every existing entry of every section stays where it is
    ∧ (∀ name, tabGet s.inter name <+: tabGet r.1.inter name)
    ∧ (∀ name, name ≠ "virtual_sitesn" → tabGet r.1.inter name = tabGet s.inter name)
    -- the sections keep their order; `virtual_sitesn` is created at the end when it was missing
    ∧ r.1.inter.map (·.1) = (if tabHas s.inter "virtual_sitesn" || s.atoms.isEmpty then s.inter.map (·.1)
                              else s.inter.map (·.1) ++ ["virtual_sitesn"]) := by
  intro r r'
  by_cases he : s.atoms.isEmpty = true
  · have hnil : s.atoms = [] := by simpa using he
    have hr : r = (s, []) := by simp [r, addVirtualSitesM, he]
    have hr' : r' = ({ s with inter := T, atomtypes := at', nonbond := nb' }, []) := by
      simp [r', addVirtualSitesM, he]
    have hvs : addVirtualSites pre bb vsn s.atoms = [] := by rw [hnil]; rfl
    rw [hr, hr']
    refine ⟨hvs.symm, rfl, rfl, ?_, rfl, by simp, fun _ => List.prefix_refl _, fun _ _ => rfl, by simp [he]⟩
    simp [withSites]
  · have hr : r = ({ s with atoms := withSites s.atoms (addVirtualSites pre bb vsn s.atoms),
                            inter := tabExtend s.inter "virtual_sitesn" ((addVirtualSites pre bb vsn s.atoms).map vsInter),
                            atomtypes := dictAppendEach s.atomtypes
                              ((addVirtualSites pre bb vsn s.atoms).map fun v => AtE.site v.key) },
                    addVirtualSites pre bb vsn s.atoms) := by
      simp [r, addVirtualSitesM, he]
    have hr' : r'.2 = addVirtualSites pre bb vsn s.atoms
        ∧ r'.1.atoms = withSites s.atoms (addVirtualSites pre bb vsn s.atoms) := by
      simp [r', addVirtualSitesM, he]
    rw [hr]
    refine ⟨rfl, hr'.1, hr'.2, rfl, rfl, tabGet_extend_same _ _ _, ?_, ?_, ?_⟩
    · intro name
      by_cases hn : name = "virtual_sitesn"
      · subst hn
        simp only
        rw [tabGet_extend_same]
        exact List.prefix_append _ _
      · simp only
        rw [tabGet_extend_other _ _ _ _ hn]
        exact List.prefix_refl _
    · intro name hn
      exact tabGet_extend_other _ _ _ _ hn
    · simp only
      rw [tabKeys_extend]
      have he' : s.atoms.isEmpty = false := by simpa using he
      simp [he']

/-- the hypothesis-free reading for the property text: one site per backbone particle, constructed from it,
in a molecule that already carries any interactions -/
theorem vs_one_per_backbone_any_table (pre bb vsn : String) (s : GoState) :
    ((addVirtualSitesM pre bb vsn s).2).map (·.bb) = (backboneAtoms bb s.atoms).map (·.key)
    ∧ ((tabGet (addVirtualSitesM pre bb vsn s).1.inter "virtual_sitesn").drop
          (tabGet s.inter "virtual_sitesn").length).map (·.atoms)
        = (addVirtualSites pre bb vsn s.atoms).map (fun v => [v.key, v.bb]) := by
  have h := vs_ignores_existing_interactions pre bb vsn s s.inter s.atomtypes s.nonbond
  simp only at h
  obtain ⟨h1, _, _, _, _, h6, _⟩ := h
  constructor
  · rw [h1]; exact vs_one_per_backbone pre bb vsn s.atoms
  · rw [h6, List.drop_left, h1]
    simp [vsInter, Function.comp_def]

/-- the outcome of `selectContactsM` is that of the stateless model, whatever the tables hold -/
theorem selectContactsM_outcome (P : Params) (s : GoState) (contacts : List Contact) (orders : List (List Int)) :
    (selectContactsM P s contacts orders).2 = selectContactsOrd P s.atoms s.edges contacts orders := by
  unfold selectContactsM selectContactsOrd verdictsOrd
  simp only
  exact runLoopP_fst _ _

/-- **`exclusions_appended`** -/
theorem exclusions_appended (P : Params) (s : GoState) (contacts : List Contact) (orders : List (List Int)) :
    let r := selectContactsM P s contacts orders
    let em := excludedPairs P s.atoms s.edges contacts orders
    -- appended after what was there, in emission order
    tabGet r.1.inter "exclusions" = tabGet s.inter "exclusions" ++ em.map exclInter
    ∧ (∀ name, name ≠ "exclusions" → tabGet r.1.inter name = tabGet s.inter name)
    ∧ (∀ name, tabGet s.inter name <+: tabGet r.1.inter name)
    ∧ r.1.inter.map (·.1) = (if tabHas s.inter "exclusions" || em.isEmpty then s.inter.map (·.1)
                              else s.inter.map (·.1) ++ ["exclusions"])
    -- nodes and edges are not touched, the outcome ignores the tables
    ∧ r.1.atoms = s.atoms ∧ r.1.edges = s.edges
    ∧ r.2 = selectContactsOrd P s.atoms s.edges contacts orders
    -- a normal end: exactly the emitted pairs
    ∧ (∀ out, r.2 = .ok out → em = out) := by
  intro r em
  have hinter : r.1.inter = tabAppendEach s.inter "exclusions" (em.map exclInter) := rfl
  refine ⟨?_, ?_, ?_, ?_, rfl, rfl, selectContactsM_outcome P s contacts orders, ?_⟩
  · rw [hinter]; exact tabGet_appendEach_same _ _ _
  · intro name hn; rw [hinter]; exact tabGet_appendEach_other _ _ _ _ hn
  · intro name
    rw [hinter]
    by_cases hn : name = "exclusions"
    · subst hn; rw [tabGet_appendEach_same]; exact List.prefix_append _ _
    · rw [tabGet_appendEach_other _ _ _ _ hn]
      exact List.prefix_refl _
  · rw [hinter, tabKeys_appendEach]
    simp
  · intro out hout
    have h1 : r.2 = runLoop (verdictsOrd P s.atoms s.edges contacts orders) { cm := [], out := [] } :=
      runLoopP_fst _ _
    rw [h1] at hout
    exact runLoopP_ok _ _ out hout

/-- **`exclusion_duplicated`**: nothing is merged - the number of copies of an exclusion entry grows by the
number of times the pair is emitted, also when the molecule already excludes the pair -/
theorem exclusion_duplicated (P : Params) (s : GoState) (contacts : List Contact) (orders : List (List Int))
    (x : Inter) :
    (tabGet (selectContactsM P s contacts orders).1.inter "exclusions").count x
      = (tabGet s.inter "exclusions").count x
        + ((excludedPairs P s.atoms s.edges contacts orders).map exclInter).count x := by
  have h := (exclusions_appended P s contacts orders).1
  rw [h, List.count_append]

/-- **`exclusions_before_abort`**: when the loop ends with `sys.exit` / `KeyError` no potential is stored, and
the exclusions that stay in the molecule are those of an initial segment of the loop -/
theorem exclusions_before_abort (P : Params) (s : GoState) (contacts : List Contact) (orders : List (List Int))
    (h : ∀ out, (selectContactsM P s contacts orders).2 ≠ .ok out) :
    (selectContactsM P s contacts orders).1.nonbond = s.nonbond
    ∧ (selectContactsM P s contacts orders).1.atomtypes = s.atomtypes
    ∧ ∃ k, k ≤ contacts.length
        ∧ selectContactsOrd P s.atoms s.edges (contacts.take k) orders
            = .ok (excludedPairs P s.atoms s.edges contacts orders) := by
  refine ⟨?_, rfl, ?_⟩
  · unfold selectContactsM at h ⊢
    simp only at h ⊢
  · obtain ⟨k, hk, hrun⟩ := runLoopP_take (verdictsOrd P s.atoms s.edges contacts orders) { cm := [], out := [] }
    refine ⟨k, by simpa [verdictsOrd] using hk, ?_⟩
    unfold selectContactsOrd excludedPairs
    simp only
    rw [← hrun]
    unfold verdictsOrd
    simp only [List.map_take]

/-- **`pipeline_ignores_existing_interactions`** -/
theorem pipeline_ignores_existing_interactions (P : Params) (vsn : String) (s : GoState) (contacts : List Contact)
    (orders : List (List Int)) :
    let r := goPipelineM P vsn s contacts orders
    (r.2.1, r.2.2) = goPipelineOrd P vsn s.atoms s.edges contacts orders
    ∧ r.1.atoms = withSites s.atoms r.2.1 ∧ r.1.edges = s.edges := by
  intro r
  have hv := vs_ignores_existing_interactions P.pre P.backbone vsn s s.inter s.atomtypes s.nonbond
  simp only at hv
  obtain ⟨h1, _, _, h4, h5, _⟩ := hv
  have ho : r.2.2 = selectContactsOrd P (addVirtualSitesM P.pre P.backbone vsn s).1.atoms
      (addVirtualSitesM P.pre P.backbone vsn s).1.edges contacts orders :=
    selectContactsM_outcome P _ contacts orders
  have hvs : r.2.1 = (addVirtualSitesM P.pre P.backbone vsn s).2 := rfl
  refine ⟨?_, ?_, ?_⟩
  · unfold goPipelineOrd
    simp only
    rw [ho, hvs, h4, h5, h1]
  · show (selectContactsM P (addVirtualSitesM P.pre P.backbone vsn s).1 contacts orders).1.atoms = _
    rw [hvs]
    exact h4
  · show (selectContactsM P (addVirtualSitesM P.pre P.backbone vsn s).1 contacts orders).1.edges = _
    exact h5

/-- with no observed order: the plain pipeline of `VermouthProps/C18.lean` -/
theorem pipelineM_eq_goPipeline (P : Params) (vsn : String) (s : GoState) (contacts : List Contact) :
    ((goPipelineM P vsn s contacts []).2.1, (goPipelineM P vsn s contacts []).2.2)
      = goPipeline P vsn s.atoms s.edges contacts := by
  have h := (pipeline_ignores_existing_interactions P vsn s contacts []).1
  rw [h]
  unfold goPipelineOrd goPipeline
  simp only [selectContactsOrd_nil]

/-- **`system_tables_appended`** -/
theorem system_tables_appended (P : Params) (vsn : String) (s : GoState) (contacts : List Contact)
    (orders : List (List Int)) :
    let r := goPipelineM P vsn s contacts orders
    -- atomtypes: what was there, then one entry per site in creation order
    r.1.atomtypes.getD [] = s.atomtypes.getD [] ++ r.2.1.map (fun v => AtE.site v.key)
    ∧ r.1.atomtypes.isSome = (s.atomtypes.isSome || !(r.2.1).isEmpty)
    -- nonbond_params: what was there, then one entry per emitted pair in emission order
    ∧ (∀ out, r.2.2 = .ok out →
        r.1.nonbond.getD [] = s.nonbond.getD [] ++ out.map (fun c => NbE.go c.ta c.tb c.d2)
        ∧ r.1.nonbond.isSome = (s.nonbond.isSome || !out.isEmpty))
    ∧ ((∀ out, r.2.2 ≠ .ok out) → r.1.nonbond = s.nonbond) := by
  intro r
  have hat : r.1.atomtypes = (addVirtualSitesM P.pre P.backbone vsn s).1.atomtypes := rfl
  have hvs : r.2.1 = (addVirtualSitesM P.pre P.backbone vsn s).2 := rfl
  have hnb0 : (addVirtualSitesM P.pre P.backbone vsn s).1.nonbond = s.nonbond := by
    unfold addVirtualSitesM; split <;> rfl
  have hcase : ((addVirtualSitesM P.pre P.backbone vsn s).1.atomtypes
        = dictAppendEach s.atomtypes ((addVirtualSitesM P.pre P.backbone vsn s).2.map fun v => AtE.site v.key)) := by
    unfold addVirtualSitesM
    split
    · simp [dictAppendEach]
    · rfl
  refine ⟨?_, ?_, ?_, ?_⟩
  · rw [hat, hvs, hcase, dictAppendEach_getD]
  · rw [hat, hvs, hcase, dictAppendEach_isSome]
    simp
  · intro out hout
    have hnb : r.1.nonbond = dictAppendEach s.nonbond (out.map fun c => NbE.go c.ta c.tb c.d2) := by
      show (selectContactsM P (addVirtualSitesM P.pre P.backbone vsn s).1 contacts orders).1.nonbond = _
      have hout' : (selectContactsM P (addVirtualSitesM P.pre P.backbone vsn s).1 contacts orders).2 = .ok out := hout
      unfold selectContactsM at hout' ⊢
      simp only at hout' ⊢
      rw [hout', hnb0]
    rw [hnb, dictAppendEach_getD, dictAppendEach_isSome]
    simp
  · intro h
    have := (exclusions_before_abort P (addVirtualSitesM P.pre P.backbone vsn s).1 contacts orders h).1
    exact this.trans hnb0

/-! ### the two injections for `None` -/

theorem untag_chainTag (c : Option String) : untagChain (chainTag c) = c := by
  cases c with
  | none => rfl
  | some s =>
    unfold chainTag untagChain
    have : ("S" ++ s).toList = 'S' :: s.toList := by simp
    rw [this]
    simp

/-- **`chainTag_injective`**: two chains get the same tag only if they are the same (`None` included) -/
theorem chainTag_injective (a b : Option String) (h : chainTag a = chainTag b) : a = b := by
  rw [← untag_chainTag a, ← untag_chainTag b, h]

theorem le_foldl_max (l : List Nat) (init x : Nat) (h : x ≤ init ∨ x ∈ l) : x ≤ l.foldl max init := by
  induction l generalizing init with
  | nil =>
    rcases h with h | h
    · exact h
    · simp at h
  | cons y r ih =>
    simp only [List.foldl_cons]
    apply ih
    rcases h with h | h
    · left; omega
    · rcases List.mem_cons.mp h with h | h
      · left; subst h; omega
      · right; exact h

/-- **`oldSentinel_fresh`**: the integer that stands for `_old_resid = None` is named by no contact line and
carried by no bead -/
theorem oldSentinel_fresh (olds : List (Option Int)) (contacts : List (Int × Int)) :
    (∀ c ∈ contacts, c.1 ≠ oldSentinel olds contacts ∧ c.2 ≠ oldSentinel olds contacts)
    ∧ (∀ x, some x ∈ olds → x ≠ oldSentinel olds contacts) := by
  have key : ∀ n : Nat, n ∈ (olds.filterMap id).map Int.natAbs ++ contacts.flatMap (fun c => [c.1.natAbs, c.2.natAbs])
      → ∀ x : Int, x.natAbs = n → x ≠ oldSentinel olds contacts := by
    intro n hn x hx hEq
    have hle := le_foldl_max _ 0 n (Or.inr hn)
    unfold oldSentinel at hEq
    omega
  constructor
  · intro c hc
    constructor
    · apply key c.1.natAbs _ c.1 rfl
      apply List.mem_append_right
      exact List.mem_flatMap.mpr ⟨c, hc, by simp⟩
    · apply key c.2.natAbs _ c.2 rfl
      apply List.mem_append_right
      exact List.mem_flatMap.mpr ⟨c, hc, by simp⟩
  · intro x hx
    apply key x.natAbs _ x rfl
    apply List.mem_append_left
    exact List.mem_map.mpr ⟨x, List.mem_filterMap.mpr ⟨some x, hx, rfl⟩, rfl⟩

/-! ### a molecule that already has a site built from a backbone bead -/
namespace InterExample
open Example

/-- residue 2 carries a dummy site (key 8, a real node named like the Go sites) built from its backbone bead 3
and side chain bead 5; the backbone pair (9, 2) that the Go contact will exclude is excluded already -/
def table : ITable :=
  [("bonds", [⟨[2, 3], "b"⟩]),
   ("virtual_sitesn", [⟨[8, 3, 5], "['1']|{}"⟩]),
   ("exclusions", [⟨[9, 2], exclTag⟩, ⟨[2, 3], "[]|{}"⟩])]

def atoms8 : List Atom := atoms ++ [mk 8 "CA" 2 2 "A" "D" (1, 0, 0)]

def st : GoState := { atoms := atoms8, edges := edges, inter := table, atomtypes := some [.pre 0], nonbond := none }

/-- still four sites (one for bead 3 as well), after the largest key 9 -/
example : (goPipelineM P "CA" st contacts []).2.1.map (fun v => (v.key, v.bb))
    = [(10, 2), (11, 3), (12, 6), (13, 9)] := by decide
example : tabGet (goPipelineM P "CA" st contacts []).1.inter "virtual_sitesn"
    = [⟨[8, 3, 5], "['1']|{}"⟩, ⟨[10, 2], vsTag⟩, ⟨[11, 3], vsTag⟩, ⟨[12, 6], vsTag⟩, ⟨[13, 9], vsTag⟩] := by decide
/-- the exclusion (9, 2) is written a second time -/
example : tabGet (goPipelineM P "CA" st contacts []).1.inter "exclusions"
    = [⟨[9, 2], exclTag⟩, ⟨[2, 3], "[]|{}"⟩, ⟨[9, 2], exclTag⟩] := by decide
example : (goPipelineM P "CA" st contacts []).1.inter.map (·.1) = ["bonds", "virtual_sitesn", "exclusions"] := by decide
example : (goPipelineM P "CA" st contacts []).1.atomtypes
    = some [.pre 0, .site 10, .site 11, .site 12, .site 13] := by decide
example : (goPipelineM P "CA" st contacts []).1.nonbond = some [.go "mol_0_4" "mol_0_1" 25] := by decide
/-- no section, no table: the keys are created -/
example : (goPipelineM P "CA" { st with inter := [], atomtypes := none } contacts []).1.inter.map (·.1)
    = ["virtual_sitesn", "exclusions"] := by decide
/-- nothing emitted: no `exclusions` key, no `nonbond_params` key -/
example : (goPipelineM { P with up := ⟨5, 1⟩ } "CA" { st with inter := [] } contacts []).1.inter.map (·.1)
    = ["virtual_sitesn"] := by decide
example : (goPipelineM { P with up := ⟨5, 1⟩ } "CA" st contacts []).1.nonbond = none := by decide

end InterExample

end C18
