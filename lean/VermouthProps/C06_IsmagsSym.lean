import VermouthProofs.C06_IsmagsSym
import VermouthProofs.C06_IsmagsLcs
import VermouthProps.C06_Ismags
/-!
# C06 — symmetry on: constraints from the stabiliser chain give exactly one representative per class

`constraintsValidB sg C` (a CHECKER, `VermouthModel/C06_Ismags.lean`) says that the constraints are
exactly the pairs `(i, t)`, `t ≠ i`, `t` in the orbit of `i` under the automorphisms of the pattern that
fix all nodes with a smaller key - what `analyze_symmetry` + `_make_constraints` are meant to deliver
(the cosets of the ISMAGS paper).  The symmetry analysis itself is NOT transcribed: the harness runs
the checker on the constraints of every real call (op `tvalid`).  The theorem below closes the gap
between "the constraints are the right ones" and the property: with such constraints the transcribed
`find_isomorphisms` yields exactly one representative of every class of isomorphisms that differ only
by a symmetry of the pattern.
-/
namespace C06
open Iso C06I

theorem ofFun_eq_mapOf {K : List Int} {φ : Int → Option Int} {ψ : Int → Int} (h : ∀ u ∈ K, φ u = some (ψ u)) :
    ofFun K φ = mapOf K ψ := by
  induction K with
  | nil => rfl
  | cons k K ih =>
    rw [ofFun_cons_some (h k (by simp)), ih (fun u hu => h u (by simp [hu]))]
    rfl

theorem lookup_total {sg : Graph} (hs : sg.keys.Nodup) {m : Map} (hd : m.map Prod.fst = sg.keys) {u : Int}
    (hu : u ∈ sg.keys) : m.lookup u = some (Map.toFun m u) := by
  have hn : (m.map Prod.fst).Nodup := by rw [hd]; exact hs
  exact lookup_of_mem hn (mem_toFun hn (by rw [hd]; exact hu))

theorem satisfies_congr {C : Constraints} {S : List Int} {f f' : Int → Int} (h : ∀ u ∈ S, f' u = f u)
    (hf : Satisfies C S f) : Satisfies C S f' := by
  intro lo hi hc hlo hhi
  rw [h lo hlo, h hi hhi]; exact hf lo hi hc hlo hhi

/-- two members of the reference answer that both satisfy valid constraints and differ by a
symmetry of the pattern are equal -/
theorem eq_of_autEquiv_of_satisfies (g sg : Graph) (hs : sg.keys.Nodup) {C : Constraints} (hv : CValid sg C)
    {m m' : Map} (hm : m ∈ allIsos g sg) (hm' : m' ∈ allIsos g sg) (h1 : Satisfies C sg.keys (Map.toFun m))
    (h2 : Satisfies C sg.keys (Map.toFun m')) (he : AutEquiv sg m m') : m = m' := by
  obtain ⟨hd, _⟩ := allIsos_sound g sg hs m hm
  obtain ⟨hd', _⟩ := allIsos_sound g sg hs m' hm'
  obtain ⟨f, hf, rfl⟩ := (autEquiv_iff_fun sg hs m _).1 he
  have hval : ∀ u ∈ sg.keys, Map.toFun (ofFun sg.keys fun u => m.lookup (f u)) u = (Map.toFun m ∘ f) u := by
    intro u hu
    unfold Map.toFun
    rw [lookup_ofFun]
    simp only [hu, if_true, Function.comp]
    rw [lookup_total hs hd (hf.node u hu).1]
    rfl
  have h2' : Satisfies C sg.keys (Map.toFun m ∘ f) :=
    satisfies_congr (fun u hu => (hval u hu).symm) h2
  have hid := unique_rep hs hv hf h1 h2'
  have hn : (m.map Prod.fst).Nodup := by rw [hd]; exact hs
  apply map_ext_of_keys (by rw [hd, hd']) hn
  intro u hu
  rw [hd] at hu
  rw [hval u hu]
  simp only [Function.comp, hid u hu]

/-- **Symmetry on.**  If the constraints are the cosets of the stabiliser chain of the pattern
(`constraintsValidB`, decided per real call by the driver), the transcribed `find_isomorphisms` -
whatever the rule for the next node - yields, listed along the pattern nodes, an output that the
verified checker `oneRepPerClass` accepts against the reference answer: only induced subgraph
isomorphisms, none twice, no two that differ by a symmetry of the pattern, and every isomorphism is
symmetry-equivalent to a yielded one. -/
theorem ismags_find_one_per_class {pick : Map → Cands → List Int → Int} (hpick : PickOK pick) (edgeNone : Bool)
    (g sg : Graph) (C : Constraints) (hs : sg.keys.Nodup) (hg : g.keys.Nodup) (hloop : noSelfLoops sg = true)
    (hvalid : constraintsValidB sg C = true) :
    oneRepPerClass sg ((findIsomorphismsWith pick edgeNone g sg C).map (fun m => mapOf sg.keys (Map.toFun m)))
      (allIsos g sg) = true := by
  have hv : CValid sg C := (constraintsValidB_iff sg hs C).1 hvalid
  obtain ⟨hmem, hnd⟩ := ismags_find_exact hpick edgeNone g sg C hs hg hloop (cvalid_antisym hv)
  rw [oneRepPerClass_iff]
  refine ⟨fun m hm => ((hmem m).1 hm).1, hnd, ?_, ?_⟩
  · refine List.Pairwise.imp_of_mem ?_ hnd
    intro a b ha hb hne
    obtain ⟨ha1, ha2⟩ := (hmem a).1 ha
    obtain ⟨hb1, hb2⟩ := (hmem b).1 hb
    exact ⟨fun he => hne (eq_of_autEquiv_of_satisfies g sg hs hv ha1 hb1 ha2 hb2 he),
      fun he => hne (eq_of_autEquiv_of_satisfies g sg hs hv hb1 ha1 hb2 ha2 he).symm⟩
  · intro f hf
    obtain ⟨hd, hiso⟩ := allIsos_sound g sg hs f hf
    obtain ⟨a, ha, hgood⟩ := exists_good (Map.toFun f) hiso
    have hiso' : IsIndIso g sg (Map.toFun f ∘ a) := indIso_comp_aut hiso ha
    have hsat : Satisfies C sg.keys (Map.toFun f ∘ a) := satisfies_of_minAt hv hiso' hgood
    have hin : mapOf sg.keys (Map.toFun f ∘ a) ∈ allIsos g sg := allIsos_complete g sg hs _ hiso'
    refine ⟨mapOf sg.keys (Map.toFun f ∘ a), (hmem _).2 ⟨hin, ?_⟩, ?_⟩
    · exact satisfies_congr (fun u hu => toFun_mapOf _ hu) hsat
    · have hsub : (f.map Prod.fst).Sublist sg.keys := by rw [hd]; exact List.Sublist.refl _
      apply (autEquiv_equivalence sg hs).2.1 f _ hsub
      rw [autEquiv_iff_fun sg hs]
      refine ⟨a, ha, ?_⟩
      symm
      apply ofFun_eq_mapOf
      intro u hu
      exact lookup_total hs hd (ha.node u hu).1

/-- in the words of the property: for every induced subgraph isomorphism `f` there is exactly one
yielded mapping that differs from `f` only by a symmetry of the pattern -/
theorem ismags_find_exactly_one_rep {pick : Map → Cands → List Int → Int} (hpick : PickOK pick) (edgeNone : Bool)
    (g sg : Graph) (C : Constraints) (hs : sg.keys.Nodup) (hg : g.keys.Nodup) (hloop : noSelfLoops sg = true)
    (hvalid : constraintsValidB sg C = true) (f : Int → Int) (hf : IsIndIso g sg f) :
    ∃ m ∈ (findIsomorphismsWith pick edgeNone g sg C).map (fun m => mapOf sg.keys (Map.toFun m)),
      AutEquiv sg m (mapOf sg.keys f)
      ∧ ∀ m' ∈ (findIsomorphismsWith pick edgeNone g sg C).map (fun m => mapOf sg.keys (Map.toFun m)),
          AutEquiv sg m' (mapOf sg.keys f) → m' = m :=
  (oneRepPerClass_exactly_one g sg hs _
    (ismags_find_one_per_class hpick edgeNone g sg C hs hg hloop hvalid)).2 f hf

/-- **`subgraph_is_isomorphic`** (transcription; symmetry off, or on with valid constraints) answers
exactly "there is an induced subgraph isomorphism" (the reference `allIsos` is non-empty). -/
theorem ismags_subgraph_is_isomorphic {pick : Map → Cands → List Int → Int} (hpick : PickOK pick) (edgeNone : Bool)
    (g sg : Graph) (C : Constraints) (hs : sg.keys.Nodup) (hg : g.keys.Nodup) (hloop : noSelfLoops sg = true)
    (hC : C = [] ∨ constraintsValidB sg C = true) :
    subgraphIsIsomorphicWith pick edgeNone g sg C = !(allIsos g sg).isEmpty := by
  unfold subgraphIsIsomorphicWith
  have hiff : (findIsomorphismsWith pick edgeNone g sg C) = [] ↔ allIsos g sg = [] := by
    constructor
    · intro he
      apply Classical.byContradiction
      intro hne
      obtain ⟨f, hf⟩ := List.exists_mem_of_ne_nil _ hne
      have hcover : ∃ m ∈ (findIsomorphismsWith pick edgeNone g sg C).map (fun m => mapOf sg.keys (Map.toFun m)), True := by
        rcases hC with rfl | hv
        · exact ⟨f, (ismags_find_all hpick edgeNone g sg hs hg hloop).mem_iff.2 hf, trivial⟩
        · have h1 := ismags_find_one_per_class hpick edgeNone g sg C hs hg hloop hv
          obtain ⟨m, hm, _⟩ := ((oneRepPerClass_iff sg _ _).1 h1).2.2.2 f hf
          exact ⟨m, hm, trivial⟩
      obtain ⟨m, hm, _⟩ := hcover
      rw [he] at hm
      simp at hm
    · intro he
      apply Classical.byContradiction
      intro hne
      obtain ⟨m, hm⟩ := List.exists_mem_of_ne_nil _ hne
      have := (ismags_find_sound hpick edgeNone g sg C hs m hm).2.2.1
      rw [he] at this
      simp at this
  cases h1 : (findIsomorphismsWith pick edgeNone g sg C) with
  | nil => rw [hiff.1 h1]
  | cons a l =>
    cases h2 : allIsos g sg with
    | nil => rw [hiff.2 h2] at h1; cases h1
    | cons b l' => rfl

/-- **`is_isomorphic`**: the same and the node counts agree. -/
theorem ismags_is_isomorphic {pick : Map → Cands → List Int → Int} (hpick : PickOK pick) (edgeNone : Bool)
    (g sg : Graph) (C : Constraints) (hs : sg.keys.Nodup) (hg : g.keys.Nodup) (hloop : noSelfLoops sg = true)
    (hC : C = [] ∨ constraintsValidB sg C = true) :
    isIsomorphicWith pick edgeNone g sg C = (sg.keys.length == g.keys.length && !(allIsos g sg).isEmpty) := by
  unfold isIsomorphicWith
  rw [ismags_subgraph_is_isomorphic hpick edgeNone g sg C hs hg hloop hC]

/-- the checker decides the declarative statement about the constraints -/
theorem constraintsValid_spec (sg : Graph) (hs : sg.keys.Nodup) (C : Constraints) :
    constraintsValidB sg C = true ↔
      ∀ lo hi, (lo, hi) ∈ C ↔ lo ∈ sg.keys ∧ lo ≠ hi
        ∧ ∃ f, IsIndIso sg sg f ∧ (∀ j ∈ sg.keys, j < lo → f j = j) ∧ f lo = hi :=
  constraintsValidB_iff sg hs C

/-- `_make_constraints` -/
theorem mem_makeConstraints (cosets : List (Int × List Int)) (lo hi : Int) :
    (lo, hi) ∈ makeConstraints cosets ↔ ∃ ts, (lo, ts) ∈ cosets ∧ hi ∈ ts ∧ lo ≠ hi := by
  simp only [makeConstraints, List.mem_flatMap, List.mem_map, List.mem_filter, bne_iff_ne, ne_eq, Prod.mk.injEq]
  constructor
  · rintro ⟨⟨k, ts⟩, he, t, ⟨ht, hne⟩, rfl, rfl⟩
    exact ⟨ts, he, ht, hne⟩
  · rintro ⟨ts, he, ht, hne⟩
    exact ⟨(lo, ts), he, hi, ⟨ht, hne⟩, rfl, rfl⟩

/-! non-vacuity: the path 7 - 2 - 9 has the symmetry 7 <-> 9; its stabiliser-chain constraints are [(7, 9)] -/
example : constraintsValidB p3 [(7, 9)] = true ∧ constraintsValidB p3 [] = false
    ∧ constraintsValidB p3 [(9, 7)] = false := by decide
example : makeConstraints [(2, [2]), (7, [7, 9])] = [(7, 9)] := by decide
example : oneRepPerClass p3 ((findIsomorphisms true t5 p3 [(7, 9)]).map (fun m => mapOf p3.keys (Map.toFun m)))
    (allIsos t5 p3) = true := by decide

end C06
