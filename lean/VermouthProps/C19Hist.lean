import VermouthModel.C19_Hist
import VermouthProps.C19
namespace C19

/-- **Stateless across force fields**: one processor object applied to systems / molecules of
different force fields answers every time like a fresh processor with the same requests on that
input with that force field — a target known in one force field and unknown in the next is an
error exactly for the inputs of the latter. -/
theorem processor_stateless_across_force_fields (p : Proc) (ops : List (Lib × Op)) :
    runHistoryLibs p ops = ops.map fun lo => freshApply lo.1 p.mods p.muts lo.2 := by
  induction ops generalizing p with
  | nil => rfl
  | cons lo ops ih =>
    obtain ⟨lib, op⟩ := lo
    simp only [runHistoryLibs, List.map_cons]
    have hcfg := processor_config_unchanged lib p op
    rw [ih, hcfg.1, hcfg.2]
    congr 1
    have := processor_stateless lib p [op]
    simp only [runHistory, runHistoryGen, List.map_cons, List.map_nil, List.cons.injEq, and_true] at this
    exact this

/-- non-vacuity: `GLY` is a block of the first library only; the second application errs, the
first and the third do not -/
example :
    let l1 : Lib := { protein := ["GLY".toList, "ALA".toList], modifications := [], blocks := ["GLY".toList] }
    let l2 : Lib := { protein := ["GLY".toList, "ALA".toList], modifications := [], blocks := [] }
    (runHistoryLibs histProc [(l1, .system [histMol "GLY" "ALA" "GLY"]), (l2, .system [histMol "GLY" "ALA" "GLY"]),
                              (l1, .system [histMol "GLY" "ALA" "GLY"])]).map
      (fun r => match r with | .system res => res.err.isSome | .molecule _ e => e.isSome) = [false, true, false] := by
  decide

end C19

namespace C19

/-- **A request marks no atom of an object it was not applied to**: annotating system `o` of a pool
(systems that may be copies of one another, annotated before or not) leaves every other system of
the pool exactly as it was; copying changes nothing that exists. -/
theorem pool_isolation (lib : Lib) (pool : Pool) (op : PoolOp) (j : Nat) :
    (∀ mods muts o, op = .annotate mods muts o → j ≠ o → (poolStep lib pool op).1[j]? = pool[j]?) ∧
    (∀ o, op = .copy o → j < pool.length → (poolStep lib pool op).1[j]? = pool[j]?) := by
  constructor
  · rintro mods muts o rfl hne
    simp only [poolStep]
    cases ho : pool[o]? with
    | none => rfl
    | some sys => simp only; rw [List.getElem?_set_ne (Ne.symm hne)]
  · rintro o rfl hj
    simp only [poolStep]
    cases ho : pool[o]? with
    | none => rfl
    | some sys => simp only; rw [List.getElem?_append_left hj]

/-- … and the annotated system itself gets what `runSystem` gives on it, old marks kept in front
(`marks_exact`): a copy annotated further differs from its original exactly by the new targets -/
theorem pool_annotate_target (lib : Lib) (pool : Pool) (mods muts : List Request) (o : Nat) (sys : List Mol)
    (h : pool[o]? = some sys) :
    (poolStep lib pool (.annotate mods muts o)).1[o]? = some (runSystem lib mods muts sys).mols ∧
    (poolStep lib pool (.annotate mods muts o)).2 = (runSystem lib mods muts sys).err := by
  simp only [poolStep, h]
  have ho : o < pool.length := by
    rcases Nat.lt_or_ge o pool.length with h1 | h1
    · exact h1
    · rw [List.getElem?_eq_none h1] at h; cases h
  exact ⟨by rw [List.getElem?_set_self ho], trivial⟩

/-- non-vacuity: base annotated, copied, the copy annotated again: the base keeps one mark -/
example :
    let rq : Request := { spec := { chain := none, resname := some "ALA".toList, resid := some 2, icode := none },
                          target := "GLY".toList }
    ((poolHistory histLib [[histMol "GLY" "ALA" "GLY"]]
        [.annotate [] [rq] 0, .copy 0, .annotate [] [rq] 1]).map
      fun st => st.1.map fun sys => sys.map fun m => m.atoms.map fun a => a.muts.length)
      = [[[[0, 1, 0]]], [[[0, 1, 0]], [[0, 1, 0]]], [[[0, 1, 0]], [[0, 2, 0]]]] := by
  decide

end C19
