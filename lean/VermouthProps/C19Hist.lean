import VermouthModel.C19_Hist
import VermouthProps.C19
namespace C19

/-- **Stateless across force fields**: one processor object applied to systems / molecules of
different force fields answers every time like a fresh processor with the same requests on that
input with that force field — a target known in one force field and unknown in the next is an
error exactly for the inputs of the latter. -/
theorem processor_stateless_across_force_fields (p : Proc) (ops : List (Lib × Op)) :
    runHistoryLibs p ops = ops.map fun lo => freshApply lo.1 p.mods p.muts lo.2 := by
  induction ops generalizing p with
  | nil => rfl
  | cons lo ops ih =>
    obtain ⟨lib, op⟩ := lo
    simp only [runHistoryLibs, List.map_cons]
    have hcfg := processor_config_unchanged lib p op
    rw [ih, hcfg.1, hcfg.2]
    congr 1
    have := processor_stateless lib p [op]
    simp only [runHistory, runHistoryGen, List.map_cons, List.map_nil, List.cons.injEq, and_true] at this
    exact this

/-- non-vacuity: `GLY` is a block of the first library only; the second application errs, the
first and the third do not -/
example :
    let l1 : Lib := { protein := ["GLY".toList, "ALA".toList], modifications := [], blocks := ["GLY".toList] }
    let l2 : Lib := { protein := ["GLY".toList, "ALA".toList], modifications := [], blocks := [] }
    (runHistoryLibs histProc [(l1, .system [histMol "GLY" "ALA" "GLY"]), (l2, .system [histMol "GLY" "ALA" "GLY"]),
                              (l1, .system [histMol "GLY" "ALA" "GLY"])]).map
      (fun r => match r with | .system res => res.err.isSome | .molecule _ e => e.isSome) = [false, true, false] := by
  decide

end C19
