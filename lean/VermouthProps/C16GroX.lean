import VermouthProps.C16Full
import VermouthProofs.C16_GroX
/-!
# C16 — GRO: the whole file, with velocities and box

`write_gro` writes velocities (three more fixed-point fields, four decimals) when the first node of
every molecule has one, and the box as `' '.join(str(v) for v in box)`; `read_gro` detects the
velocities by counting the points of the first atom line and reads the box from the last line its
loop saw.

* `gro_detect_vel`       — on an atom line with velocity fields `read_gro` finds 8-column
  coordinates AND velocities (six points), whatever the values;
* `gro_record_roundtrip_v` — its ten columns return what was written when the values fit;
* `box_roundtrip`        — the box line is read back as the box: integers exactly, floats on a
  decimal grid as the same decimal (`float(repr(x)) = x`, `parseDec_reprDec`);
* `gro_file_roundtrip_x` — the file `write_gro(system, title=…, box=…)` produces for a system whose
  atoms all have a velocity is read back as exactly these atoms, velocities and box.
-/
namespace C16
open Layout

/-- the velocity part of the atom line for the default `precision` -/
def groVelFmt : List Seg := (groVelFmts.lookup groDefaultPrecision).getD []
def groFmtV : List Seg := groFmt ++ groVelFmt

theorem gro_vel_specs :
    groVelFmt = [.fld .vx ⟨' ', .dflt, 8, 4, .f, true⟩, .fld .vy ⟨' ', .dflt, 8, 4, .f, true⟩,
                 .fld .vz ⟨' ', .dflt, 8, 4, .f, true⟩] ∧
    allTrunc groFmtV = true ∧ fmtWidth groFmtV = 68 := by
  decide

theorem filter_dot_shape (T F : List Char) (hT : T.all (· ≠ '.') = true) (hF : F.all (· ≠ '.') = true) :
    ((T ++ '.' :: F).filter (· = '.')).length = 1 := by
  simp [List.filter_append, List.filter_cons, filter_eq_nil_of_all_ne _ _ hT, filter_eq_nil_of_all_ne _ _ hF]

/-- the velocity part of a line holds exactly three points -/
theorem vel_part_dots (env : Env) (h : ∀ n, n = .vx ∨ n = .vy ∨ n = .vz → ∃ k, env n = .fix k) :
    ((render groVelFmt env).filter (· = '.')).length = 3 := by
  obtain ⟨k1, h1⟩ := h .vx (Or.inl rfl)
  obtain ⟨k2, h2⟩ := h .vy (Or.inr (Or.inl rfl))
  obtain ⟨k3, h3⟩ := h .vz (Or.inr (Or.inr rfl))
  let sf : Spec := ⟨' ', .dflt, 8, 4, .f, true⟩
  obtain ⟨T1, F1, e1, _, _, dT1, dF1⟩ := renderField_fix_shape sf k1 rfl rfl rfl (by decide) (by decide) (by decide)
  obtain ⟨T2, F2, e2, _, _, dT2, dF2⟩ := renderField_fix_shape sf k2 rfl rfl rfl (by decide) (by decide) (by decide)
  obtain ⟨T3, F3, e3, _, _, dT3, dF3⟩ := renderField_fix_shape sf k3 rfl rfl rfl (by decide) (by decide) (by decide)
  have hr : render groVelFmt env = (T1 ++ '.' :: F1) ++ (T2 ++ '.' :: F2) ++ (T3 ++ '.' :: F3) := by
    rw [gro_vel_specs.1, ← e1, ← e2, ← e3]
    simp [render, segText, h1, h2, h3, sf]
  rw [hr, List.filter_append, List.filter_append, List.length_append, List.length_append,
    filter_dot_shape T1 F1 dT1 dF1, filter_dot_shape T2 F2 dT2 dF2, filter_dot_shape T3 F3 dT3 dF3]

/-- **detection with velocities.**  On EVERY atom line `write_gro` produces when it writes velocities
(`V` = the velocity part, three points) `read_gro` detects 8-column numbers and velocities, whatever
the names are. -/
theorem gro_detect_vel (serial : Nat) (a : Atom) (V : List Char)
    (hV : (V.filter (· = '.')).length = 3) :
    (groDetect gro (groLine gro serial a ++ V)).slices = groSlicesV 8 ∧
    (groDetect gro (groLine gro serial a ++ V)).hasVel = true := by
  have h := gro_detect_gen serial a V
  have he : 3 + dotCount V = 6 := by
    unfold dotCount; rw [hV]
  rw [h.1, h.2]
  simp [he]

/-! ## the atom line with velocities -/

def specAtGroV (sl : RSlice) : Spec :=
  (covers groFmtV sl.name sl.start sl.stop).getD ⟨' ', .dflt, 0, 0, .s, false⟩

theorem gro_slices_ok_v : (groSlicesV 8).all (fun sl =>
    decide (covers groFmtV sl.name sl.start sl.stop = some (specAtGroV sl)) && decide ((specAtGroV sl).fill = ' ') &&
    kindOkB (specAtGroV sl) sl.ty (atomKindX sl.name)) = true := by
  decide

/-- the whole atom line `write_gro` writes for a node with velocity -/
def groLineV (serial : Nat) (ax : AtomX) : List Char := render groFmtV (atomEnvX true serial ax)

theorem groLineV_eq (serial : Nat) (ax : AtomX) (hp : ax.hasPos = true) :
    groLineV serial ax = groLine gro serial ax.atom ++ render groVelFmt (atomEnvX true serial ax) := by
  unfold groLineV groFmtV groLine
  rw [render_append]
  congr 1
  have : gro.atomFmt = groFmt := rfl
  rw [this, gro_coord_specs.1]
  simp [render, segText, atomEnvX, hp]

/-- **field_roundtrip, whole GRO atom line with velocities** -/
theorem gro_record_roundtrip_v (serial : Nat) (ax : AtomX) (v : Int × Int × Int) (hp : ax.hasPos = true)
    (hv : ax.vel = some v)
    (hfit : ∀ sl ∈ groSlicesV 8, fitsField (specAtGroV sl) (atomEnvX true serial ax sl.name)) :
    readFields readFieldGro (groLineV serial ax) (groSlicesV 8) =
      .ok [(.resid, .int (ax.atom.resid.getD 1)), (.resname, .str (ax.atom.resname.getD [])),
           (.atomname, .str (ax.atom.atomname.getD [])), (.atomid, .int serial),
           (.x, .dec ax.atom.x 3), (.y, .dec ax.atom.y 3), (.z, .dec ax.atom.z 3),
           (.vx, .dec v.1 4), (.vy, .dec v.2.1 4), (.vz, .dec v.2.2 4)] := by
  have h := (fields_roundtrip groFmtV (atomEnvX true serial ax) gro_vel_specs.2.1 (groSlicesV 8) specAtGroV
    (by
      intro sl hsl
      have hok := List.all_eq_true.mp gro_slices_ok_v sl hsl
      simp only [Bool.and_eq_true, decide_eq_true_eq] at hok
      exact ⟨hok.1.1, hok.1.2, kindOk_atomEnvX _ _ _ _ _ _ hok.2, hfit sl hsl⟩)).2
  unfold groLineV
  rw [h]
  have : ((groSlicesV 8).map fun sl => (sl.name, expected (specAtGroV sl) (atomEnvX true serial ax sl.name))) =
      [(.resid, .int (ax.atom.resid.getD 1)), (.resname, .str (ax.atom.resname.getD [])),
       (.atomname, .str (ax.atom.atomname.getD [])), (.atomid, .int serial),
       (.x, expected ⟨' ', .dflt, 8, 3, .f, true⟩ (if ax.hasPos then .fix ax.atom.x else .nan)),
       (.y, expected ⟨' ', .dflt, 8, 3, .f, true⟩ (if ax.hasPos then .fix ax.atom.y else .nan)),
       (.z, expected ⟨' ', .dflt, 8, 3, .f, true⟩ (if ax.hasPos then .fix ax.atom.z else .nan)),
       (.vx, .dec (ax.vel.getD (0, 0, 0)).1 4), (.vy, .dec (ax.vel.getD (0, 0, 0)).2.1 4),
       (.vz, .dec (ax.vel.getD (0, 0, 0)).2.2 4)] := by
    rfl
  rw [this, hp, hv]
  rfl

end C16

namespace C16
open Layout

/-! ## the box line -/

/-- what reading back a box item must give: an `int` exactly, a float on the `10^-p` grid as the same
decimal -/
def boxOk (b : BoxVal) (v : Dec) : Prop :=
  match b with
  | .int i => v = (i, 0)
  | .dec k p => toScale p v = some k

/-- item by item -/
def boxAllOk : List BoxVal → List Dec → Prop
  | [], [] => True
  | b :: bs, v :: vs => boxOk b v ∧ boxAllOk bs vs
  | _, _ => False

theorem reprDec_no_ws (k : Int) (p : Nat) : reprDec k p ≠ [] ∧ ∀ c ∈ reprDec k p, isWs c = false := by
  unfold reprDec
  simp only []
  constructor
  · intro h
    have := congrArg List.length h
    simp at this
  · intro c hc
    have hdig : ∀ c ∈ padZeros p (natDigits (k.natAbs % 10 ^ p)), isWs c = false := by
      intro c hc
      unfold padZeros at hc
      rcases List.mem_append.mp hc with h | h
      · rw [(List.mem_replicate.mp h).2]; decide
      · exact natDigits_no_ws _ c h
    rcases List.mem_append.mp hc with h | h
    · rcases List.mem_append.mp h with h | h
      · split at h
        · simp only [List.mem_singleton] at h; subst h; decide
        · cases h
      · exact natDigits_no_ws _ c h
    · rcases List.mem_cons.mp h with h | h
      · subst h; decide
      · split at h
        · simp only [List.mem_singleton] at h; subst h; decide
        · unfold stripZerosR at h
          have h1 : c ∈ (padZeros p (natDigits (k.natAbs % 10 ^ p))).reverse.dropWhile (· = '0') := by simpa using h
          have h2 := mem_of_mem_dropWhile' _ _ c h1
          exact hdig c (by simpa using h2)

theorem boxText_ok (b : BoxVal) : boxText b ≠ [] ∧ ∀ c ∈ boxText b, isWs c = false := by
  cases b with
  | int i =>
    refine ⟨?_, intRepr_no_ws i⟩
    show intRepr i ≠ []
    unfold intRepr
    by_cases hi : i < 0
    · simp [hi]
    · simp only [hi, if_false]; exact natDigits_ne_nil _
  | dec k p => exact reprDec_no_ws k p

theorem parseToks_box : ∀ (box : List BoxVal), (∀ b ∈ box, ∀ k p, b = .dec k p → 1 ≤ p) →
    ∃ vs, parseToks (box.map boxText) = .ok vs ∧ boxAllOk box vs
  | [], _ => ⟨[], rfl, trivial⟩
  | b :: box, h => by
      obtain ⟨vs, hvs, hall⟩ := parseToks_box box (fun b' hb' => h b' (by simp [hb']))
      cases b with
      | int i =>
        refine ⟨(i, 0) :: vs, ?_, ⟨rfl, hall⟩⟩
        simp only [List.map_cons, parseToks, boxText, parseDec_intRepr, hvs]
      | dec k p =>
        obtain ⟨v, hv, hs⟩ := parseDec_reprDec k p (h _ (by simp) k p rfl)
        refine ⟨v :: vs, ?_, ⟨hs, hall⟩⟩
        simp only [List.map_cons, parseToks, boxText, hv, hvs]

/-- **box_roundtrip.**  The box line `' '.join(str(v) for v in box)` is read back by
`np.array(line.strip().split(), dtype=float)` as the box: as many items, each integer exactly, each
float on a decimal grid as the same decimal. -/
theorem box_roundtrip (box : List BoxVal) (h : ∀ b ∈ box, ∀ k p, b = .dec k p → 1 ≤ p) :
    ∃ vs, parseBox (joinSp (box.map boxText)) = .ok vs ∧ boxAllOk box vs := by
  unfold parseBox
  rw [splitWs_joinSp _ (by
    intro t ht
    obtain ⟨b, _, rfl⟩ := List.mem_map.mp ht
    exact boxText_ok b)]
  exact parseToks_box box h

end C16

namespace C16
open Layout

/-! ## the file -/

def serialPairsX (start : Nat) : List AtomX → List (Nat × AtomX)
  | [] => []
  | a :: r => (start, a) :: serialPairsX (start + 1) r

/-- the nodes of a system with the numbers `write_gro` gives them -/
def groPairsX (start : Nat) : List MolX → List (Nat × AtomX)
  | [] => []
  | m :: ms => serialPairsX start (sortedNodesX m) ++ groPairsX (start + m.atoms.length) ms

/-- the atom `read_gro` must return, with its velocity (four decimals) -/
def gAtomXOf (serial : Nat) (ax : AtomX) : GAtomX :=
  ⟨gAtomOf serial ax.atom, ax.vel.map fun v => ((v.1, 4), (v.2.1, 4), (v.2.2, 4))⟩

/-- one node fits its GRO line with velocities: it has a position and a velocity, every value is
within its column, a letter in the atom name, residue name not excluded -/
def groAtomFitsVB (excl : List (List Char)) (serial : Nat) (ax : AtomX) : Bool :=
  ax.hasPos && ax.vel.isSome &&
  (groSlicesV 8).all (fun sl => fitsFieldB (specAtGroV sl) (atomEnvX true serial ax sl.name)) &&
  ((ax.atom.atomname.getD []).find? isAsciiLetter).isSome &&
  !(excl.contains (ax.atom.resname.getD []))

theorem gro_line_parse_v (excl : List (List Char)) (serial : Nat) (ax : AtomX) (n idx : Nat)
    (h : groAtomFitsVB excl serial ax = true) :
    groParseLine excl false ⟨groSlicesV 8, true⟩ n idx (groLineV serial ax) = .ok (.keep (gAtomOf serial ax.atom)) ∧
    groVelOf ⟨groSlicesV 8, true⟩ (groLineV serial ax) = (gAtomXOf serial ax).vel := by
  unfold groAtomFitsVB at h
  simp only [Bool.and_eq_true, Bool.not_eq_true', List.all_eq_true] at h
  obtain ⟨⟨⟨⟨hp, hv⟩, hfit⟩, hlet⟩, hex⟩ := h
  obtain ⟨v, hv'⟩ := Option.isSome_iff_exists.mp hv
  have hr := gro_record_roundtrip_v serial ax v hp hv' (fun sl hsl => fitsFieldB_iff _ _ (hfit sl hsl))
  constructor
  · unfold groParseLine
    simp only [hr]
    cases hf : (ax.atom.atomname.getD []).find? isAsciiLetter with
    | none => rw [hf] at hlet; simp at hlet
    | some c =>
      have hex' : ax.atom.resname.getD [] ∉ excl := by
        intro hmem
        have : excl.contains (ax.atom.resname.getD []) = true := by simpa using hmem
        rw [this] at hex; cases hex
      simp [Props.str, Props.int, Props.dec, Props.get, List.find?, firstAlpha, hf, hex', gAtomOf, bind, Except.bind,
        pure, Except.pure]
  · unfold groVelOf gAtomXOf
    simp only [hr, if_true, hv']
    simp [Props.dec, Props.get, List.find?]

theorem groLoopX_pairs (excl : List (List Char)) (n : Nat) (boxl : List Char)
    (hbox : (readFields readFieldGro boxl (groSlicesV 8)).toOption = none) :
    ∀ (ps : List (Nat × AtomX)) (idx : Nat) (last : List Char),
      (∀ p ∈ ps, groAtomFitsVB excl p.1 p.2 = true) → idx + ps.length = n →
      groLoopX excl false ⟨groSlicesV 8, true⟩ n idx last (ps.map (fun p => groLineV p.1 p.2) ++ [boxl]) =
        .ok (ps.map (fun p => gAtomXOf p.1 p.2), boxl)
  | [], idx, last, _, hn => by
      obtain ⟨e, herr⟩ : ∃ e, readFields readFieldGro boxl (groSlicesV 8) = .error e := by
        cases hr : readFields readFieldGro boxl (groSlicesV 8) with
        | error e => exact ⟨e, rfl⟩
        | ok v => rw [hr] at hbox; cases hbox
      have : idx = n := by simpa using hn
      simp only [List.map_nil, List.nil_append, groLoopX, groParseLine, herr, this, if_true]
  | p :: ps, idx, last, h, hn => by
      obtain ⟨h1, h2⟩ := gro_line_parse_v excl p.1 p.2 n idx (h p (by simp))
      have ih := groLoopX_pairs excl n boxl hbox ps (idx + 1) (groLineV p.1 p.2) (fun q hq => h q (by simp [hq]))
        (by simp only [List.length_cons] at hn; omega)
      have hx : (!(groSlicesV 8).any fun sl => sl.name = .x) = false := by decide
      simp only [List.map_cons, List.cons_append, groLoopX, h1, hx, Bool.false_eq_true, if_false, ih, h2]
      rfl

theorem mem_sortedNodesX (m : MolX) (a : AtomX) : a ∈ sortedNodesX m ↔ a ∈ m.atoms := by
  unfold sortedNodesX; exact List.mem_mergeSort

theorem length_sortedNodesX (m : MolX) : (sortedNodesX m).length = m.atoms.length := by
  unfold sortedNodesX; exact List.length_mergeSort _

theorem serialPairsX_length : ∀ (l : List AtomX) (s : Nat), (serialPairsX s l).length = l.length
  | [], _ => rfl
  | _ :: r, s => by simp [serialPairsX, serialPairsX_length r (s + 1)]

theorem groPairsX_length : ∀ (sys : List MolX) (s : Nat),
    (groPairsX s sys).length = (sys.map fun m => m.atoms.length).sum
  | [], _ => rfl
  | m :: ms, s => by
      simp [groPairsX, serialPairsX_length, length_sortedNodesX, groPairsX_length ms]

theorem groAtomLinesX_eq : ∀ (l : List AtomX) (start : Nat),
    (∀ a ∈ l, a.hasPos = true ∧ a.vel.isSome = true) →
    groAtomLinesX groFmt groVelFmt true start l = .ok ((serialPairsX start l).map fun p => groLineV p.1 p.2)
  | [], _, _ => rfl
  | a :: r, start, h => by
      have ha := h a (by simp)
      have hn : ¬ a.vel.isNone = true := by
        cases hv : a.vel <;> simp_all
      simp only [groAtomLinesX, ha.1, Bool.true_eq_false, if_false, true_and, hn,
        groAtomLinesX_eq r (start + 1) (fun a' ha' => h a' (by simp [ha'])), if_true, serialPairsX, List.map_cons]
      unfold groLineV groFmtV
      rw [render_append]
      simp

theorem groMolLinesX_eq : ∀ (sys : List MolX) (start : Nat),
    (∀ m ∈ sys, ∀ a ∈ m.atoms, a.hasPos = true ∧ a.vel.isSome = true) →
    groMolLinesX groFmt groVelFmt true start sys = .ok ((groPairsX start sys).map fun p => groLineV p.1 p.2)
  | [], _, _ => rfl
  | m :: ms, start, h => by
      have hm : ∀ a ∈ sortedNodesX m, a.hasPos = true ∧ a.vel.isSome = true :=
        fun a ha => h m (by simp) a ((mem_sortedNodesX m a).mp ha)
      simp only [groMolLinesX, groAtomLinesX_eq _ start hm,
        groMolLinesX_eq ms _ (fun m' hm' => h m' (by simp [hm'])), groPairsX, List.map_append]

theorem groHasVel_true : ∀ (sys : List MolX),
    (∀ m ∈ sys, m.atoms ≠ [] ∧ ∀ a ∈ m.atoms, a.hasPos = true ∧ a.vel.isSome = true) → groHasVel sys = .ok true
  | [], _ => rfl
  | m :: ms, h => by
      obtain ⟨hne, hall⟩ := h m (by simp)
      cases hat : m.atoms with
      | nil => exact absurd hat hne
      | cons a r =>
        have := (hall a (by rw [hat]; simp)).2
        simp only [groHasVel, hat, List.head?_cons, this, if_true]
        exact groHasVel_true ms (fun m' hm' => h m' (by simp [hm']))

/-- **whole-file GRO round trip with velocities and box.**  For every system whose molecules are
non-empty, whose nodes all have a position and a velocity and fit their columns
(`groAtomFitsVB`; points in the names are fine), any title and any box (floats on a decimal grid): the file
`write_gro(system, title=…, box=…)` produces — title, atom count, one line per node with three
coordinate and three velocity fields, the box line — is read back by `read_gro` (which counts six
points on the first atom line) as exactly the atoms written, each with its velocity to four
decimals, and the box.  The box line must not itself look like an atom line (`hnotatom`, a
computable check; true of every box that starts with a float or has fewer than four items). -/
theorem gro_file_roundtrip_x (excl : List (List Char)) (sys : List MolX) (title : List Char) (box : List BoxVal)
    (hne : sys ≠ [])
    (hmol : ∀ m ∈ sys, m.atoms ≠ [] ∧ ∀ a ∈ m.atoms, a.hasPos = true ∧ a.vel.isSome = true)
    (hfit : ∀ p ∈ groPairsX 1 sys, groAtomFitsVB excl p.1 p.2 = true)
    (hbox : ∀ b ∈ box, ∀ k p, b = .dec k p → 1 ≤ p)
    (hnotatom : (readFields readFieldGro (joinSp (box.map boxText)) (groSlicesV 8)).toOption = none) :
    ∃ lines vs, writeGroX groFmts groVelFmts groDefaultPrecision title box sys = .ok lines ∧
      readGroX gro excl false lines = .ok ((groPairsX 1 sys).map (fun p => gAtomXOf p.1 p.2), vs) ∧
      boxAllOk box vs := by
  obtain ⟨vs, hvs, hall⟩ := box_roundtrip box hbox
  have hlk : groFmts.lookup groDefaultPrecision = some groFmt := gro_precision_tables.2
  have hlv : groVelFmts.lookup groDefaultPrecision = some groVelFmt := by
    unfold groVelFmt; decide
  have hlines := groMolLinesX_eq sys 1 (fun m hm => (hmol m hm).2)
  refine ⟨title :: natDigits ((sys.map fun m => m.atoms.length).sum) ::
      ((groPairsX 1 sys).map (fun p => groLineV p.1 p.2) ++ [joinSp (box.map boxText)]), vs, ?_, ?_, hall⟩
  · unfold writeGroX
    simp only [hlk, hlv, groHasVel_true sys hmol, hlines]
  · cases hps : groPairsX 1 sys with
    | nil =>
      -- impossible: a non-empty system of non-empty molecules has atoms
      exfalso
      cases sys with
      | nil => exact hne rfl
      | cons m ms =>
        have h1 := (hmol m (by simp)).1
        have : (groPairsX 1 (m :: ms)).length = 0 := by rw [hps]; rfl
        rw [groPairsX_length] at this
        simp only [List.map_cons, List.sum_cons] at this
        have : m.atoms.length = 0 := by omega
        exact h1 (List.eq_nil_of_length_eq_zero this)
    | cons p ps =>
      rw [hps] at hfit
      have hp := hfit p (by simp)
      have hp' := hp
      unfold groAtomFitsVB at hp'
      simp only [Bool.and_eq_true] at hp'
      obtain ⟨⟨⟨⟨hpos, hvel⟩, _⟩, _⟩, _⟩ := hp'
      have hV : ((render groVelFmt (atomEnvX true p.1 p.2)).filter (· = '.')).length = 3 :=
        vel_part_dots _ (by
          intro n hn
          rcases hn with rfl | rfl | rfl <;> exact ⟨_, rfl⟩)
      obtain ⟨d1, d2⟩ := gro_detect_vel p.1 p.2.atom _ hV
      rw [← groLineV_eq p.1 p.2 hpos] at d1 d2
      have hdet : groDetect gro (groLineV p.1 p.2) = ⟨groSlicesV 8, true⟩ := by
        cases hd : groDetect gro (groLineV p.1 p.2) with
        | mk sl hv => rw [hd] at d1 d2; simp only at d1 d2; rw [d1, d2]
      have hcount : (sys.map fun m => m.atoms.length).sum = (p :: ps).length := by
        rw [← groPairsX_length sys 1, hps]
      simp only [List.map_cons, List.cons_append, readGroX]
      rw [strip_of_no_ws _ (natDigits_no_ws _), parseInt_natDigits, hcount]
      have hneg : ¬ ((((p :: ps).length : Nat) : Int) < 0) := by omega
      simp only [hneg, if_false, hdet, Int.toNat_natCast]
      have := groLoopX_pairs excl (p :: ps).length (joinSp (box.map boxText)) hnotatom (p :: ps) 0
        (groLineV p.1 p.2) hfit (by simp)
      simp only [List.map_cons, List.cons_append] at this
      rw [this]
      simp only [hvs]

/-- a default box line is not an atom line -/
example : (readFields readFieldGro (joinSp ([.int 0, .int 0, .int 0].map boxText)) (groSlicesV 8)).toOption = none ∧
    (readFields readFieldGro (joinSp ([.dec 12500 3, .dec 12500 3, .int 9].map boxText)) (groSlicesV 8)).toOption = none := by
  decide +kernel

/-- a node with velocity (−0.1234, 0, 99.9999 nm/ps) fits -/
example : groAtomFitsVB [] 1 ⟨{ exAtom with resid := some 1, y := 5 }, true, some (-1234, 0, 999999), 0⟩ = true := by
  decide +kernel

end C16
