import VermouthProofs.C15_Num
import VermouthProps.C15
/-!
# C15 — the two numeric clauses and the thresholds of `compute_force_constants`

* length: what the oracle accepts for a rendered length is the integer interval `lenBounds d2` (the model outputs
  it; the harness tests the decimal string the ITP writer produces against it);
* force constant: where the decay `exp(-a (d - lower)^p)` is ≥ 1 for every value `exp` can take (`noDecay`) the
  constant is the base constant exactly — no numeric tolerance is involved;
* boundary handling of `self_distance_matrix` / `build_pair_matrix` / `compute_force_constants`: symmetric
  matrices, zero diagonal, `constants < minimum_force` zeroing against the emission test `> minimum_force`.
-/
namespace C15

/-! ## length = distance to 5 decimals -/

/-- **len_bounds_spec.** A rendered length of `n`·1e-5 nm passes the test `|n·1e-5 − sqrt(d2)/256| ≤ 0.5e-5`
(as the exact integer inequality `(2n−1)²·64 ≤ 4·d2·3125² ≤ (2n+1)²·64`) iff `n` lies in the interval the model
outputs. -/
theorem len_bounds_spec (d2 n : Nat) :
    lenAdmissible d2 n = true ↔ (lenBounds d2).1 ≤ n ∧ n ≤ (lenBounds d2).2 :=
  roundBounds_spec 3125 8 d2 n (by decide)

/-- the inequality in full -/
theorem lenAdmissible_iff (d2 n : Nat) :
    lenAdmissible d2 n = true ↔
      (2 * n - 1) * (2 * n - 1) * 64 ≤ 4 * d2 * (3125 * 3125) ∧ 4 * d2 * (3125 * 3125) ≤ (2 * n + 1) * (2 * n + 1) * 64 := by
  unfold lenAdmissible roundAdmissible
  simp

/-- **len5_in_bounds.** The interval holds one integer, or two neighbours on an exact tie; the length the model emits
(`round`, ties to even) is in it. -/
theorem len5_in_bounds (d2 : Nat) :
    (lenBounds d2).1 ≤ len5Of d2 ∧ len5Of d2 ≤ (lenBounds d2).2 ∧ (lenBounds d2).2 ≤ (lenBounds d2).1 + 1 :=
  ⟨((len_bounds_spec d2 _).mp (roundSqrtScaled_admissible 3125 8 d2 (by decide))).1,
   ((len_bounds_spec d2 _).mp (roundSqrtScaled_admissible 3125 8 d2 (by decide))).2,
   (roundBounds_width 3125 8 d2).2⟩

/-- every emitted bond carries an admissible length for the distance of its two atoms -/
theorem bond_length_admissible (atoms : List Atom) (edges : List (Int × Int)) (p : Params) (b : Bond)
    (hb : b ∈ network atoms edges p) :
    ∃ i j, i < atoms.length ∧ j < atoms.length ∧ b.a = keyAt atoms i ∧ b.b = keyAt atoms j ∧
      b.d2 = dist2 (posAt atoms i) (posAt atoms j) ∧ lenAdmissible b.d2 b.len5 = true := by
  obtain ⟨i, j, hi, hj, ha, hbb, hd, hl⟩ := length_is_distance atoms edges p b hb
  exact ⟨i, j, hi, hj, ha, hbb, hd, by rw [hl]; exact roundSqrtScaled_admissible 3125 8 _ (by decide)⟩

/-- a tie (two admissible lengths) and a plain case -/
example : lenBounds (4 * 4) = (1562, 1563) ∧ len5Of (4 * 4) = 1562 ∧ lenBounds (256 * 256) = (100000, 100000) ∧
    lenBounds 0 = (0, 0) ∧ lenBounds 53084 = (90000, 90000) := by decide +kernel

/-! ## the decay at and below the lower bound -/

/-- **no_decay_below_lower.** For a non-negative base constant: without decay (`a = 0`), at `d = lower` (`p ≥ 1`),
and for `d < lower` with `a > 0` and an ODD power, the documented decayed constant
`base · exp(−a (d − lower)^p)` is at least the base constant, so capped at the base constant it IS the base
constant — whatever the numeric value of `exp`. (`d = sqrt(d2)/256`.) -/
theorem no_decay_below_lower (dec : Decay) (d2 : Nat) (base : Rat) (hb : 0 ≤ base) (h : noDecay dec d2 = true) :
    min ((base : ℝ) * Real.exp (-((dec.a : ℝ) * (Real.sqrt (d2 : ℝ) / 256 - (dec.lower : ℝ)) ^ dec.p))) (base : ℝ)
      = (base : ℝ) := by
  have harg := decay_arg_nonpos dec d2 h
  have hexp : 1 ≤ Real.exp (-((dec.a : ℝ) * (Real.sqrt (d2 : ℝ) / 256 - (dec.lower : ℝ)) ^ dec.p)) :=
    Real.one_le_exp (by linarith)
  have hb' : (0 : ℝ) ≤ (base : ℝ) := by exact_mod_cast hb
  rw [min_eq_right]
  nlinarith

/-- **capped_of_ge_base.** What `compute_force_constants` and the emission test make of ANY decayed constant
`k ≥ base ≥ 0` is what they make of `base`: the same pairs are emitted, with the base constant.  Together with
`no_decay_below_lower` this is why the model uses `base` itself there (`kOf_no_decay`). -/
theorem capped_of_ge_base (p : Params) (diag : Bool) (d2 : Nat) (k : Rat) (hb : 0 ≤ p.base) (hk : p.base ≤ k) :
    emitVal p (forceConstK p diag d2 k) = emitVal p (forceConstK p diag d2 p.base) :=
  capped_of_ge_base' p diag d2 k hb hk

theorem kOf_no_decay (p : Params) (dec : Decay) (d2 : Nat) (hd : p.decay = some dec) (hb : 0 ≤ p.base)
    (h : noDecay dec d2 = true) : kOf p d2 = p.base ∧ forceConst p false d2 = forceConstK p false d2 p.base := by
  have : noDecayAt p d2 = true := by simp [noDecayAt, hd, hb, h]
  exact ⟨kOf_noDecayAt p d2 this, by rw [forceConst_eq_K, kOf_noDecayAt p d2 this]⟩

/-- **decay_below_lower_even_power.** The converse does not hold for an even power: with `a > 0`, `p ≥ 2` even and
`d < lower` the decay is strictly below 1 — the constant of such a pair is NOT the base constant (the help text of
`-el`, "F = Fc if rij < lo", and the docstring of `compute_force_constants` hold for odd powers only). -/
theorem decay_below_lower_even_power (dec : Decay) (d2 : Nat) (ha : 0 < dec.a) (hp : dec.p ≠ 0) (he : dec.p % 2 = 0)
    (h : belowLower dec.lower d2 = true) :
    Real.exp (-((dec.a : ℝ) * (Real.sqrt (d2 : ℝ) / 256 - (dec.lower : ℝ)) ^ dec.p)) < 1 := by
  have hx := sqrt_lt_of_belowLower _ _ h
  have hev : Even dec.p := Nat.even_iff.mpr he
  have hpow : 0 < (Real.sqrt (d2 : ℝ) / 256 - (dec.lower : ℝ)) ^ dec.p := hev.pow_pos (ne_of_lt hx)
  have ha' : (0 : ℝ) < (dec.a : ℝ) := by exact_mod_cast ha
  have := mul_pos ha' hpow
  calc Real.exp (-((dec.a : ℝ) * (Real.sqrt (d2 : ℝ) / 256 - (dec.lower : ℝ)) ^ dec.p))
      < Real.exp 0 := Real.exp_lt_exp.mpr (by linarith)
    _ = 1 := Real.exp_zero

/-- non-vacuity: lower bound 0.5 nm = 128 lattice units, a pair at 100 units -/
example : noDecay { a := 1, lower := 1 / 2, p := 1 } (100 * 100) = true ∧
    noDecay { a := 1, lower := 1 / 2, p := 3 } (128 * 128) = true ∧
    noDecay { a := 0, lower := 1 / 2, p := 2 } (300 * 300) = true ∧
    noDecay { a := 1, lower := 1 / 2, p := 2 } (100 * 100) = false ∧
    noDecay { a := 1, lower := 1 / 2, p := 0 } (128 * 128) = false ∧
    noDecay { a := 1, lower := 1 / 2, p := 1 } (129 * 129) = false ∧
    belowLower (1 / 2) (100 * 100) = true := by decide +kernel

/-! ## boundary handling of the matrices and of the two thresholds -/

/-- **distance_matrix_symmetric.** `self_distance_matrix`: symmetric, zero on the diagonal. -/
theorem distance_matrix_symmetric (atoms : List Atom) (edges : List (Int × Int)) (p : Params) (a c : Nat)
    (ha : a < (selection p.names atoms).length) (hc : c < (selection p.names atoms).length) :
    mget (mats atoms edges p).dist a c 0 = mget (mats atoms edges p).dist c a 0 ∧
    mget (mats atoms edges p).dist a a 0 = 0 := by
  rw [mget_dist _ _ _ _ _ ha hc, mget_dist _ _ _ _ _ hc ha, mget_dist _ _ _ _ _ ha ha]
  refine ⟨dist2_symm _ _, ?_⟩
  unfold dist2; simp

/-- **pair_matrices_symmetric.** The sub-selection domain matrix (filled for `combinations(selection, 2)` and
mirrored) and the connectivity matrix are symmetric with a `False` diagonal. -/
theorem pair_matrices_symmetric (atoms : List Atom) (edges : List (Int × Int)) (p : Params) (a c : Nat)
    (ha : a < (selection p.names atoms).length) (hc : c < (selection p.names atoms).length) :
    mget (mats atoms edges p).dom a c false = mget (mats atoms edges p).dom c a false ∧
    mget (mats atoms edges p).conn a c false = mget (mats atoms edges p).conn c a false ∧
    mget (mats atoms edges p).dom a a false = false ∧ mget (mats atoms edges p).conn a a false = false := by
  rw [mget_dom _ _ _ _ _ ha hc, mget_dom _ _ _ _ _ hc ha, mget_conn _ _ _ _ _ ha hc, mget_conn _ _ _ _ _ hc ha,
    mget_dom _ _ _ _ _ ha ha, mget_conn _ _ _ _ _ ha ha]
  generalize (selection p.names atoms).getD a 0 = i
  generalize (selection p.names atoms).getD c 0 = j
  refine ⟨?_, ?_, ?_, ?_⟩
  · unfold domEntry
    rcases Nat.lt_trichotomy i j with h | h | h
    · have h' : ¬ j < i := by omega
      simp [h, h', Bool.and_comm]
    · subst h; rfl
    · have h' : ¬ i < j := by omega
      simp [h, h', Bool.and_comm]
  · unfold connEntry
    rw [resConnected_symm]
    by_cases h : i = j
    · subst h; rfl
    · have h' : j ≠ i := fun e => h e.symm
      have e1 : (i != j) = true := by simpa using h
      have e2 : (j != i) = true := by simpa using h'
      rw [e1, e2]
  · unfold domEntry; simp
  · unfold connEntry; simp

/-- **threshold_equality_case.** A constant exactly equal to the minimum force survives the zeroing
`constants[constants < minimum_force] = 0` (it stays what it is) … -/
theorem threshold_equality_case (p : Params) (d2 : Nat) (hk : kOf p d2 = p.minForce) (hb : p.minForce ≤ p.base)
    (hu : d2 ≤ p.upper2) : forceConst p false d2 = p.minForce := by
  unfold forceConst
  simp only [Bool.false_eq_true, if_false, hk, lt_irrefl, gt_iff_lt]
  rw [if_neg (by omega), if_neg (by linarith)]

/-- **emit_threshold_strict.** … but is not emitted: the emission test is `force_constant > minimum_force`.
No cell of the matrix whose constant equals the minimum force gives a bond, every emitted bond has a constant
strictly above it, and (minimum force ≥ 0, distinct keys) a pair of atoms whose capped decayed constant equals the
minimum force gets no bond in either orientation whatever its other criteria are. -/
theorem emit_threshold_strict (atoms : List Atom) (edges : List (Int × Int)) (p : Params) :
    (∀ b ∈ network atoms edges p, p.minForce < b.k) ∧
    (∀ a c, constEntry p (mats atoms edges p) a c = p.minForce →
        ∀ b ∈ network atoms edges p, b ≠ mkBond atoms p (mats atoms edges p) (a, c)) ∧
    (0 ≤ p.minForce → KeysNodup atoms → ∀ i j, i < atoms.length → j < atoms.length →
        min (kOf p (dist2 (posAt atoms i) (posAt atoms j))) p.base = p.minForce →
        ¬ ∃ b ∈ network atoms edges p, joins b (keyAt atoms i) (keyAt atoms j)) := by
  refine ⟨?_, ?_, ?_⟩
  · intro b hb
    obtain ⟨a, c, _, _, hgt, rfl⟩ := (mem_emit _ _ _ _).mp hb
    exact hgt
  · intro a c he b hb hbe
    obtain ⟨a', c', _, _, hgt, rfl⟩ := (mem_emit _ _ _ _).mp hb
    have : (mkBond atoms p (mats atoms edges p) (a', c')).k = (mkBond atoms p (mats atoms edges p) (a, c)).k := by
      rw [hbe]
    simp only [mkBond] at this
    rw [this, he] at hgt
    exact lt_irrefl _ hgt
  · intro h0 hk i j hi hj heq ⟨b, hb, hj'⟩
    rcases hj' with ⟨e1, e2⟩ | ⟨e1, e2⟩
    · have := (emit_iff atoms edges p h0 hk i j hi hj).mp ⟨b, hb, e1, e2⟩
      have hc := this.2.2.2.2.2.2
      rw [heq] at hc
      exact lt_irrefl _ hc
    · have := (emit_iff atoms edges p h0 hk j i hj hi).mp ⟨b, hb, e1, e2⟩
      have hc := this.2.2.2.2.2.2
      rw [dist2_symm, heq] at hc
      exact lt_irrefl _ hc

/-- the diagonal of `constants` is 0 and never emitted for a non-negative minimum force -/
theorem diagonal_never_emits (p : Params) (d2 : Nat) (h0 : 0 ≤ p.minForce) :
    emitVal p (forceConst p true d2) = none := by
  have : ¬ p.minForce < forceConst p true d2 := by
    rw [forceConst_gt_iff p true d2 h0]; simp
  unfold emitVal; rw [if_neg this]

def pEq : Params :=
  { names := ["BB"], sep := 1, upper2 := 600 * 600, base := 700, minForce := 700, kTab := [], dom := .always }

/-- non-vacuity: base == minimum force, no decay: every constant sits exactly on the threshold, nothing is emitted;
one unit below the threshold the two bonds are there -/
example : 0 ≤ pEq.minForce ∧ KeysNodup at4 ∧
    min (kOf pEq (dist2 (posAt at4 0) (posAt at4 2))) pEq.base = pEq.minForce ∧
    forceConst pEq false (dist2 (posAt at4 0) (posAt at4 2)) = 700 ∧
    network at4 ed4 pEq = [] ∧ (network at4 ed4 { pEq with minForce := 699 }).length = 2 := by decide +kernel

end C15
