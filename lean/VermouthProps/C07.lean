import VermouthModel.C07
