import VermouthProofs.C07
/-!
# C07 — no output from a run with unwaived warnings; existing files are never lost

Property theorems about the model `VermouthModel/C07.lean` of
`vermouth.file_writer.DeferredFileWriter` and of the gate at the end of `bin/martinize2`.
Helper lemmas are in `VermouthProofs/C07.lean`.

Vocabulary (all executable unless marked Prop):
* `get fs p`                 : contents of the file named `p`, `none` if there is no such file;
* `Path.isTmp`               : the name is one of the writer's temporary files;
* `runOpens st ops`          : the state after the deferred opens/writes `ops = [(path, mode, data), …]`;
* `closeOp`, `finalizeAll`, `finalizeFuel k` : `close()`, complete `write()`, `write()` interrupted before its
  `(k+1)`-th mutating system call;
* `firstFreeIdx fs p`        : the number `N` of the first free backup name `#p.N#`;
* `WF st` / `FinOK fs l` (Prop) : the invariant of reachable writer states (`reachable_wf`);
* `BackupOf q q'` (Prop)     : `q'` is `q` or an iterated backup name of `q`;
* `directRun fs ops`         : what the same opens would have done with the builtin `open`.
-/
namespace C07

/-! ## clause 1: destinations untouched until finalisation, and for good after `close()` -/

/-- Whatever is opened, written, re-opened (any modes, failing opens included): every file that is not one of
the writer's temporary files is exactly as before. -/
theorem deferred_untouched (st : State) (ops : List OpenReq) (q : Path) (hq : q.isTmp = false) :
    get (runOpens st ops).fs q = get st.fs q :=
  runOpens_user ops st hq

/-- The states reachable from an empty writer satisfy the invariant used below (distinct temporaries and
destinations, stored modes contain `w`, `+` or `a`, every pending temporary exists, no stray temporary). -/
theorem reachable_wf (fs : FS) (ops : List OpenReq) (h0 : NoTmp fs) (hu : ∀ o ∈ ops, o.1.isTmp = false) :
    WF (runOpens (init fs) ops) :=
  runOpens_wf ops (init_wf h0) hu

/-- Discarding the writer: destinations untouched. -/
theorem discard_untouched (st : State) (ops : List OpenReq) (q : Path) (hq : q.isTmp = false) :
    get (closeOp (runOpens st ops)).fs q = get st.fs q := by
  simp only [closeOp]
  rw [closeFs_user _ _ hq, runOpens_user ops st hq]

/-- … and for good: after `close()` the whole file system is what it was before the first open — no
temporary file is left, nothing is pending. -/
theorem discard_restores (fs : FS) (ops : List OpenReq) (h0 : NoTmp fs) (hu : ∀ o ∈ ops, o.1.isTmp = false) :
    (∀ p, get (closeOp (runOpens (init fs) ops)).fs p = get fs p)
    ∧ (closeOp (runOpens (init fs) ops)).pending = [] := by
  refine ⟨fun p => ?_, rfl⟩
  have hwf := reachable_wf fs ops h0 hu
  cases hp : p.isTmp with
  | false => exact discard_untouched (init fs) ops p hp
  | true =>
    cases p with
    | tmp k =>
      simp only [closeOp]
      rw [closeFs_tmp, h0 k]
      split
      · rfl
      · rename_i hk
        cases hg : get (runOpens (init fs) ops).fs (.tmp k) with
        | none => rfl
        | some c => exact absurd (hwf.owned k (by rw [hg]; simp)) hk
    | base n => simp [Path.isTmp] at hp
    | bak a b => simp [Path.isTmp] at hp

/-! ## clause 3: what a complete finalisation leaves behind -/

/-- A destination whose stored mode is `w`-like ends up holding exactly the contents of its temporary file. -/
theorem finalize_content_write (fs : FS) (l : List Entry) (h : FinOK fs l) (e : Entry) (he : e ∈ l)
    (hw : e.mode.writeish = true) (t : Bytes) (ht : get fs (.tmp e.tmp) = some t) :
    get (finalizeAll fs l) e.dest = some t :=
  finalizeAll_content_w l fs h e he hw t ht

/-- An append-mode destination (stored mode `a` or `a+`) ends up holding its old contents followed by what was written (empty old
contents if it did not exist).  Hypothesis: the destination exists already or is not itself the backup name
of another pending destination. -/
theorem finalize_content_append (fs : FS) (l : List Entry) (h : FinOK fs l) (e : Entry) (he : e ∈ l)
    (ha : e.mode.hasA = true) (t : Bytes) (ht : get fs (.tmp e.tmp) = some t)
    (hfree : get fs e.dest ≠ none ∨ ∀ e' ∈ l, ∀ n, e.dest ≠ .bak e'.dest n) :
    get (finalizeAll fs l) e.dest = some ((get fs e.dest).getD [] ++ t) :=
  finalizeAll_content_a l fs h e he ha t ht hfree

theorem finalize_no_temp_left (fs : FS) (l : List Entry) (h : FinOK fs l) (e : Entry) (he : e ∈ l) :
    get (finalizeAll fs l) (.tmp e.tmp) = none :=
  finalizeAll_tmp_gone l fs h e he

/-- A file that was already there is kept, byte for byte, under the first free backup name: `N ≥ 1`, `#p.N#`
was free, all smaller numbers were taken, and after `write()` `#p.N#` holds the old contents.  Hypothesis: no
pending destination is itself a backup name of a pending destination. -/
theorem backup_first_free (fs : FS) (l : List Entry) (h : FinOK fs l)
    (hH : ∀ e1 ∈ l, ∀ e2 ∈ l, ∀ n, e1.dest ≠ .bak e2.dest n)
    (e : Entry) (he : e ∈ l) (hw : e.mode.writeish = true) (c : Bytes) (hc : get fs e.dest = some c) :
    1 ≤ firstFreeIdx fs e.dest
    ∧ get fs (.bak e.dest (firstFreeIdx fs e.dest)) = none
    ∧ (∀ m, 1 ≤ m → m < firstFreeIdx fs e.dest → get fs (.bak e.dest m) ≠ none)
    ∧ get (finalizeAll fs l) (.bak e.dest (firstFreeIdx fs e.dest)) = some c := by
  obtain ⟨a, b, d⟩ := firstFreeIdx_spec fs e.dest
  exact ⟨a, b, d, finalizeAll_backup l fs h hH e he hw c hc⟩

/-- Nothing else changes: a name that is no destination and no temporary of the pending table, and that
exists or is not a backup name of a destination, has the same contents (or absence) after `write()`. -/
theorem nothing_else_changes (fs : FS) (l : List Entry) (h : FinOK fs l) (q : Path)
    (h1 : ∀ e ∈ l, q ≠ e.dest ∧ q ≠ .tmp e.tmp)
    (h2 : get fs q ≠ none ∨ ∀ e ∈ l, ∀ n, q ≠ .bak e.dest n) :
    get (finalizeAll fs l) q = get fs q :=
  finalizeAll_frame l fs h q h1 h2

/-- `write()` that is allowed at least three system calls per entry is the complete `write()`. -/
theorem finalize_enough_fuel (fs : FS) (l : List Entry) (h : FinOK fs l) (fuel : Nat) (hf : 3 * l.length ≤ fuel) :
    finalizeFuel fuel fs l = (finalizeAll fs l, []) :=
  finalizeFuel_enough l fuel fs h.mode_ok hf

/-! ## clause 3 (continued): exactly what was written for it -/

/-- **Deferred = direct.**  After any history of opens in the modes `r`, `w`, `a`, `w+`, `a+` on an empty writer, a
complete `write()` leaves every non-temporary name `p` — destination or not — with exactly the contents that
performing the same opens and writes directly with the builtin `open` would have left there (so: what was
written for it, appended to the old contents in append mode).  Excluded are only the names that are a backup
name of a pending destination and did not exist before (these are the backup copies, which writing directly
does not make). -/
theorem finalize_matches_direct (fs0 : FS) (ops : List OpenReq) (h0 : NoTmp fs0)
    (hu : ∀ o ∈ ops, o.1.isTmp = false ∧ o.2.1.plain = true)
    (p : Path) (hp : p.isTmp = false)
    (hpb : get fs0 p ≠ none ∨ ∀ e ∈ (runOpens (init fs0) ops).pending, ∀ n, p ≠ .bak e.dest n) :
    get (finalizeAll (runOpens (init fs0) ops).fs (runOpens (init fs0) ops).pending) p
      = get (directRun fs0 ops) p := by
  have hwf : WF (runOpens (init fs0) ops) := reachable_wf fs0 ops h0 (fun o ho => (hu o ho).1)
  have hsame : get (runOpens (init fs0) ops).fs p = get fs0 p := deferred_untouched _ _ _ hp
  have tr := tracks_run ops (init_wf h0) (tracks_init fs0) hu p hp
  cases hf : findEntry (runOpens (init fs0) ops).pending p with
  | none =>
    rw [hf] at tr
    simp only [] at tr
    rw [tr, ← hsame]
    apply nothing_else_changes _ _ hwf.finOK
    · intro e he
      refine ⟨fun hh => (findEntry_none.1 hf) (hh ▸ mem_map_dest he), ne_tmp_of_user hp _⟩
    · rw [hsame]; exact hpb
  | some e =>
    rw [hf] at tr
    simp only [] at tr
    obtain ⟨he, hd⟩ := findEntry_some hf
    obtain ⟨t, ht⟩ := Option.ne_none_iff_exists'.1 (hwf.tmp_exists e.tmp (mem_map_tmp he))
    subst hd
    rcases mode_cases (hwf.mode_ok e he) with hw | ha
    · rw [if_pos hw] at tr
      rw [tr, ht]
      exact finalize_content_write _ _ hwf.finOK e he hw t ht
    · have hw : ¬ e.mode.writeish = true := by simp [Mode.writeish, ha]
      rw [if_neg hw] at tr
      rw [tr, ht, ← hsame]
      exact finalize_content_append _ _ hwf.finOK e he ha t ht (by rw [hsame]; exact hpb)

/-! ## clause 4: interrupted finalisation -/

/-- `q` is the destination of a pending append-mode entry -/
def AppendDest (l : List Entry) (q : Path) : Prop := ∃ e ∈ l, e.mode.writeish = false ∧ e.dest = q

/-- **Crash safety.**  Interrupt `write()` before any of its system calls (`fuel` arbitrary, also beyond the
end = complete run).  Every file `q` that existed (and is not a temporary file) still exists under its own name
or an (iterated) backup name `q'`, with the same contents `c` — or, if `q'` is a destination opened for
appending, with contents that start with `c`.  A file that is no pending destination keeps name and contents. -/
theorem crash_safe (fs : FS) (l : List Entry) (fuel : Nat)
    (hn : (l.map Entry.dest).Nodup) (hu : ∀ e ∈ l, e.dest.isTmp = false)
    (q : Path) (c : Bytes) (hq : q.isTmp = false) (hc : get fs q = some c) :
    ∃ q' c', BackupOf q q' ∧ get (finalizeFuel fuel fs l).1 q' = some c'
      ∧ (q ∉ l.map Entry.dest → q' = q ∧ c' = c)
      ∧ (c' = c ∨ (AppendDest l q' ∧ c <+: c')) := by
  have hs := finalizeFuel_safe (A := AppendDest l) (D := fun p => p ∈ l.map Entry.dest) l fuel fs hu
    (fun e he => mem_map_dest he)
    (fun e he hw hA => by
      obtain ⟨e2, he2, hw2, hd2⟩ := hA
      have := eq_of_dest_eq hn he2 he hd2
      subst this
      rw [hw] at hw2; cases hw2)
    (fun e he hw => ⟨e, he, hw, rfl⟩)
  obtain ⟨q', c', b, g, _, d, e⟩ := hs q c hq hc
  exact ⟨q', c', b, g, d, e⟩

/-- Corollary for reachable states: after any history of deferred opens on an empty writer, `write()`
interrupted anywhere loses no pre-existing file. -/
theorem crash_safe_reachable (fs0 : FS) (ops : List OpenReq) (h0 : NoTmp fs0)
    (hu : ∀ o ∈ ops, o.1.isTmp = false) (fuel : Nat)
    (q : Path) (c : Bytes) (hq : q.isTmp = false) (hc : get fs0 q = some c) :
    ∃ q' c', BackupOf q q'
      ∧ get (finalizeOp (runOpens (init fs0) ops) (some fuel)).fs q' = some c'
      ∧ (c' = c ∨ (AppendDest (runOpens (init fs0) ops).pending q' ∧ c <+: c')) := by
  have hwf := reachable_wf fs0 ops h0 hu
  have hc' : get (runOpens (init fs0) ops).fs q = some c := by
    rw [deferred_untouched _ _ _ hq]; exact hc
  obtain ⟨q', c', b, g, _, e⟩ := crash_safe _ _ fuel hwf.dest_nodup
    (fun e he => hwf.dest_user _ (mem_map_dest he)) q c hq hc'
  exact ⟨q', c', b, g, e⟩

/-! ## clause 2: the CLI gate -/

/-- Leftover warnings ≠ 0: exit code 2, no finalisation — every file that is not a temporary is as before the
run, so no new output file and no changed one. -/
theorem gate_blocks (fs0 : FS) (opens : List OpenReq) (counter : List C08.Entry) (specs : List (List C08.Spec))
    (level : Nat) (h : C08.leftover counter specs level ≠ 0) :
    (cliRun fs0 opens counter specs level).2 = 2
    ∧ ∀ q, q.isTmp = false → get (cliRun fs0 opens counter specs level).1.fs q = get fs0 q := by
  simp only [cliRun, cliGate, h, ne_eq, not_false_eq_true, if_true, true_and]
  intro q hq
  exact deferred_untouched (init fs0) opens q hq

/-- The same for the exit status the operating system sees (the exit code truncated to a byte): with leftover
warnings the status is 2, in particular non-zero, whatever the number of warnings. -/
theorem gate_blocks_status (fs0 : FS) (opens : List OpenReq) (counter : List C08.Entry)
    (specs : List (List C08.Spec)) (level : Nat) (h : C08.leftover counter specs level ≠ 0) :
    exitStatus (cliRun fs0 opens counter specs level).2 = 2
    ∧ exitStatus (cliRun fs0 opens counter specs level).2 ≠ 0 := by
  rw [(gate_blocks fs0 opens counter specs level h).1]
  decide

/-- Why the constant matters: a gate that exits with the leftover count itself would report status 0 for
exactly 256 (512, …) leftover warnings. -/
theorem exit_with_count_wraps : exitStatus 256 = 0 ∧ exitStatus 512 = 0 ∧ exitStatus 2 = 2 ∧ exitStatus 255 = 255 := by
  decide

/-- Leftover warnings = 0: exit code 0 and the run is finalised completely. -/
theorem gate_passes (fs0 : FS) (opens : List OpenReq) (counter : List C08.Entry) (specs : List (List C08.Spec))
    (level : Nat) (h : C08.leftover counter specs level = 0) :
    (cliRun fs0 opens counter specs level).2 = 0
    ∧ (cliRun fs0 opens counter specs level).1.fs
        = finalizeAll (runOpens (init fs0) opens).fs (runOpens (init fs0) opens).pending
    ∧ (cliRun fs0 opens counter specs level).1.pending = [] := by
  simp [cliRun, cliGate, h, finalizeOp]

/-- The exit code tells which: 0 iff the leftover count is zero (otherwise 2). -/
theorem gate_sound (fs0 : FS) (opens : List OpenReq) (counter : List C08.Entry) (specs : List (List C08.Spec))
    (level : Nat) :
    ((cliRun fs0 opens counter specs level).2 = 0 ↔ C08.leftover counter specs level = 0)
    ∧ ((cliRun fs0 opens counter specs level).2 = 2 ↔ C08.leftover counter specs level ≠ 0) := by
  by_cases h : C08.leftover counter specs level = 0
  · simp [cliRun, cliGate, h]
  · simp [cliRun, cliGate, h]

/-! ## non-vacuity: a concrete history satisfying the hypotheses, and what the theorems say about it

`a` exists with contents "old", its first backup name is taken; `a` is opened for appending, then re-opened
with `w` (F-C07-1, repaired: the entry becomes a `w` entry), `b` (absent) is appended to twice. -/

def exFs : FS := [(.base "a", ['o','l','d']), (.bak (.base "a") 1, ['b','k'])]
def exOps : List OpenReq :=
  [(.base "a", .a, ['x']), (.base "a", .w, ['n','e','w']), (.base "b", .a, ['p']), (.base "b", .a, ['q'])]
def exSt : State := runOpens (init exFs) exOps

theorem exFs_noTmp : NoTmp exFs := by intro k; simp [exFs, C07.get]
theorem exOps_user : ∀ o ∈ exOps, o.1.isTmp = false := by decide
theorem exSt_wf : WF exSt := reachable_wf _ _ exFs_noTmp exOps_user
theorem exSt_finOK : FinOK exSt.fs exSt.pending := exSt_wf.finOK

example : exSt.pending
    = [{ tmp := 0, dest := .base "a", mode := .w }, { tmp := 1, dest := .base "b", mode := .a }] := by decide
/-- hypothesis of `backup_first_free` / `finalize_content_append` on the example -/
theorem exSt_noBakDest : ∀ e1 ∈ exSt.pending, ∀ e2 ∈ exSt.pending, ∀ n, e1.dest ≠ .bak e2.dest n := by
  have hp : exSt.pending
      = [{ tmp := 0, dest := .base "a", mode := .w }, { tmp := 1, dest := .base "b", mode := .a }] := by decide
  rw [hp]
  intro e1 h1 e2 _ n hh
  simp only [List.mem_cons, List.mem_nil_iff, or_false] at h1
  rcases h1 with rfl | rfl <;> cases hh
-- untouched before finalisation, restored by close()
example : get exSt.fs (.base "a") = some ['o','l','d'] ∧ get exSt.fs (.base "b") = none := by decide
example : (closeOp exSt).fs = exFs := by decide
-- complete finalisation: contents, backup under the first free name (#a.2#), append to an absent file
example : get (finalizeAll exSt.fs exSt.pending) (.base "a") = some ['n','e','w'] := by decide
example : firstFreeIdx exSt.fs (.base "a") = 2 := by decide
example : get (finalizeAll exSt.fs exSt.pending) (.bak (.base "a") 2) = some ['o','l','d'] := by decide
example : get (finalizeAll exSt.fs exSt.pending) (.bak (.base "a") 1) = some ['b','k'] := by decide
example : get (finalizeAll exSt.fs exSt.pending) (.base "b") = some ['p','q'] := by decide
example : get (finalizeAll exSt.fs exSt.pending) (.tmp 0) = none := by decide
-- … and it agrees with writing directly
example : ∀ o ∈ exOps, o.1.isTmp = false ∧ o.2.1.plain = true := by decide
example : get (finalizeAll exSt.fs exSt.pending) (.base "a") = get (directRun exFs exOps) (.base "a")
    ∧ get (finalizeAll exSt.fs exSt.pending) (.base "b") = get (directRun exFs exOps) (.base "b") := by decide
-- interrupted after the backup move, before the temporary file is moved in: "old" is found at #a.2#
example : get (finalizeFuel 1 exSt.fs exSt.pending).1 (.base "a") = none
    ∧ get (finalizeFuel 1 exSt.fs exSt.pending).1 (.bak (.base "a") 2) = some ['o','l','d'] := by decide
-- the gate on one unwaived warning / the same warning waived by `-maxwarn 1`
example : (cliRun exFs exOps [{ level := 30, type := "general", count := 1 }] [] 30).2 = 2 := by decide
example : (cliRun exFs exOps [{ level := 30, type := "general", count := 1 }] [[(none, some 1)]] 30).2 = 0 := by
  decide

/-! ## the repaired update-mode behaviour (F-C07-3, F-C07-4), as concrete instances

`a+` is finalised by appending; a failed `r+` on a missing file registers nothing and leaves no temporary;
a truncating reopen of a pending `a+` entry turns it into a `w` entry (replace + backup). -/

theorem aplus_appends :
    let st := runOpens (init [(.base "a", ['o','l','d'])]) [(.base "a", .ap, ['x'])]
    get (finalizeAll st.fs st.pending) (.base "a") = some ['o','l','d','x']
    ∧ get (finalizeAll st.fs st.pending) (.bak (.base "a") 1) = none
    ∧ get (directRun [(.base "a", ['o','l','d'])] [(.base "a", .ap, ['x'])]) (.base "a") = some ['o','l','d','x'] := by
  decide

theorem rplus_missing_queues_nothing :
    (openOp (init []) (.base "a") .rp ['x']).2 = .notFound
    ∧ (openOp (init []) (.base "a") .rp ['x']).1.pending = []
    ∧ (openOp (init []) (.base "a") .rp ['x']).1.fs = [] := by
  decide

theorem aplus_then_w_replaces :
    let st := runOpens (init [(.base "a", ['o','l','d'])]) [(.base "a", .ap, ['x']), (.base "a", .w, ['Y'])]
    get (finalizeAll st.fs st.pending) (.base "a") = some ['Y']
    ∧ get (finalizeAll st.fs st.pending) (.bak (.base "a") 1) = some ['o','l','d'] := by
  decide

end C07
