import VermouthProofs.C04_Patch
/-!
# C04 — the reference residue: `_patch_modification` and `_get_reference_residue`

Property-level theorems about `C04.Ref.patchMod` / `C04.Ref.getRef` (VermouthModel/C04_Ref.lean),
the models of `_patch_modification` / `_get_reference_residue` of
vermouth/processors/repair_graph.py, built on the overlay model shared with C19.

Vocabulary: a modification `md` is a `Block` whose atoms with `PTM_atom = True` (`newAtoms md`) are
the ones it ADDS; the others (`anchors md`) are overlaid on the block atoms of the same name;
`core a` = (key, atom name, element, `PTM_atom`) of an atom; `patchEdges md img` = the bonds of the
modification with an added end, both ends sent through `img`.
-/
namespace C04.Ref
open Iso C04 C19.Repair

/-- **The patched reference contains the block**: every block atom stays where it was (same index
= same key), with its name, element and `PTM_atom` mark and every attribute except the
`modifications` bookkeeping list; every bond of the block is kept. -/
theorem patched_reference_contains_block (b md b' : Block) (n : String) (h : patchMod b n md = some b') :
    (∀ (i : Nat) (a : Atom), b.nodes[i]? = some a → ∃ a', b'.nodes[i]? = some a' ∧ core a' = core a
        ∧ ∀ k, k ≠ "modifications" → a'.attrs.lookup k = a.attrs.lookup k)
    ∧ (∃ extra, b'.edges = b.edges ++ extra) := by
  obtain ⟨am, _, _, hn, he⟩ := patchMod_some h
  refine ⟨?_, ⟨_, he⟩⟩
  intro i a hi
  have hlt : i < b.nodes.length := by
    rcases Nat.lt_or_ge i b.nodes.length with h | h
    · exact h
    · rw [List.getElem?_eq_none h] at hi; cases hi
  refine ⟨markFn b md n am a, ?_, markFn_core _ _ _ _ _, fun k hk => markFn_attrs _ _ _ _ _ k hk⟩
  rw [hn, List.getElem?_map, List.getElem?_append_left hlt, hi]; rfl

/-- the same for the reference `_get_reference_residue` returns: it starts with the block of the
requested mutation (else of the residue name), atom for atom, bond for bond -/
theorem reference_contains_block (ff : FF) (rn : String) (mu mods : Option (List String)) (ref : Block)
    (h : getRef ff rn mu mods = .ok ref) :
    ∃ name b0, targetOf rn mu = .ok name ∧ ff.blocks.lookup name = some b0
      ∧ (∃ added, ref.nodes.map core = b0.nodes.map core ++ added)
      ∧ (∃ extra, ref.edges = b0.edges ++ extra) := by
  unfold getRef at h
  cases ht : targetOf rn mu with
  | error e => simp [ht] at h
  | ok name =>
    simp only [ht] at h
    cases hb : ff.blocks.lookup name with
    | none => simp [hb] at h
    | some b0 =>
      simp only [hb] at h
      cases ha : applyMods ff (dedupReq (mods.getD [])) b0 with
      | error e => simp [ha] at h
      | ok b1 =>
        simp only [ha] at h
        obtain ⟨⟨added, e1⟩, ⟨extra, e2⟩⟩ := applyMods_prefix ff _ b0 b1 ha
        refine ⟨name, b0, rfl, hb, ⟨added, ?_⟩, ⟨extra, ?_⟩⟩
        · cases mods <;> cases mu <;> simp only [Except.ok.injEq] at h <;> subst h <;> simp only [setAll_core, e1]
        · cases mods <;> cases mu <;> simp only [Except.ok.injEq] at h <;> subst h <;> simp only [setAll_edges, e2]

/-- **The patch adds exactly the atoms the modification declares**: as many atoms as the
modification has `PTM_atom` atoms, with their names and elements, marked `PTM_atom = True`,
numbered `len(block), len(block)+1, …` in the order in which the modification lists them. -/
theorem patch_adds_exactly_mod_atoms (b md b' : Block) (n : String) (h : patchMod b n md = some b') :
    b'.nodes.length = b.nodes.length + (newAtoms md).length
    ∧ (b'.nodes.drop b.nodes.length).map (fun a => (a.name, a.elem, a.ptm))
        = (newAtoms md).map (fun a => (a.name, a.elem, some true))
    ∧ (b'.nodes.drop b.nodes.length).map (·.key) = (List.range' b.nodes.length (newAtoms md).length).map Int.ofNat := by
  obtain ⟨am, _, _, hn, _⟩ := patchMod_some h
  have hcore : b'.nodes.map core = b.nodes.map core ++ (renumber b.nodes.length (newAtoms md)).map core := by
    rw [hn, List.map_map]
    have : (core ∘ markFn b md n am) = core := by funext a; exact markFn_core b md n am a
    rw [this, List.map_append]
  have hdrop : (b'.nodes.drop b.nodes.length).map core = (renumber b.nodes.length (newAtoms md)).map core := by
    rw [List.map_drop, hcore]
    have : b.nodes.length = (b.nodes.map core).length := by simp
    rw [this, List.drop_left]
  refine ⟨by rw [hn]; simp [renumber_length], ?_, ?_⟩
  · have := congrArg (List.map fun (c : Int × String × Int × Option Bool) => (c.2.1, c.2.2.1, c.2.2.2)) hdrop
    simp only [List.map_map, Function.comp_def, core] at this
    rw [this, renumber_shape]
    apply List.map_congr_left
    intro a ha
    rw [newAtoms_ptm ha]
  · have := congrArg (List.map fun (c : Int × String × Int × Option Bool) => c.1) hdrop
    simp only [List.map_map, Function.comp_def, core] at this
    rw [this, renumber_keys]

/-- **The bonds are exactly those the modification declares**: with `img` = "anchor ↦ the block atom
of the same name, i-th added atom ↦ `len(block) + i`", the patched reference has the bonds of the
block plus, for every bond of the modification with an added end, the bond between the images —
nothing else; bonds between two anchors are not copied but CHECKED: the overlay is only accepted
when two anchors are bonded in the modification iff their namesakes are bonded in the block, and
two anchors never share a namesake (otherwise `ValueError('Cannot apply modification to block')`). -/
theorem patch_edges_exact (b md b' : Block) (n : String) (hk : (md.nodes.map (·.key)).Nodup)
    (h : patchMod b n md = some b') :
    ∃ img : List (Int × Int),
      b'.edges = b.edges ++ patchEdges md img
      ∧ (∀ a ∈ anchors md, ∃ t ∈ b.nodes, t.name = a.name ∧ img.lookup a.key = some t.key)
      ∧ (∀ (i : Nat) (x : Atom), (newAtoms md)[i]? = some x → img.lookup x.key = some ((b.nodes.length + i : Nat) : Int))
      ∧ (∀ u v, (u, v) ∈ patchEdges md img ↔
            ∃ e ∈ md.edges, (isNewKey md e.1 || isNewKey md e.2) = true ∧ img.lookup e.1 = some u ∧ img.lookup e.2 = some v)
      ∧ (∀ a ∈ anchors md, ∀ c ∈ anchors md, a.key ≠ c.key → ∀ ta tc, img.lookup a.key = some ta → img.lookup c.key = some tc →
            ta ≠ tc ∧ hasEdge md.edges a.key c.key = hasEdge b.edges ta tc) := by
  obtain ⟨am, ha, hfit, _, he⟩ := patchMod_some h
  have hspec := anchorMap_spec ha
  have hdomA : am.map Prod.fst = (anchors md).map (·.key) := forall₂_dom hspec
  have hndA : (am.map Prod.fst).Nodup := by rw [hdomA]; exact sublist_keys_nodup hk _
  have hndN : ((newMap b.nodes.length (newAtoms md)).map Prod.fst).Nodup := by
    rw [newMap_dom]; exact sublist_keys_nodup hk _
  -- lookups in the concatenated dictionary
  have lookA : ∀ a ∈ anchors md, ∀ t, (a.key, t) ∈ am →
      (am ++ newMap b.nodes.length (newAtoms md)).lookup a.key = some t := by
    intro a _ t hm
    rw [List.lookup_append, Iso.lookup_of_mem hndA hm]; rfl
  have lookN : ∀ i x, (newAtoms md)[i]? = some x →
      (am ++ newMap b.nodes.length (newAtoms md)).lookup x.key = some ((b.nodes.length + i : Nat) : Int) := by
    intro i x hx
    have hxm : x ∈ newAtoms md := List.mem_of_getElem? hx
    have hnot : x.key ∉ am.map Prod.fst := by
      rw [hdomA]; intro hc
      obtain ⟨a, ha', e⟩ := List.mem_map.1 hc
      exact anchors_new_disjoint hk ha' hxm e
    rw [List.lookup_append, Iso.lookup_eq_none_of_not_mem hnot]
    exact Iso.lookup_of_mem hndN (newMap_get _ _ i x hx)
  refine ⟨am ++ newMap b.nodes.length (newAtoms md), he, ?_, lookN, mem_patchEdges md _, ?_⟩
  · intro a haA
    obtain ⟨t, ht, hm⟩ := forall₂_mem hspec haA
    obtain ⟨h1, h2⟩ := findByName_spec ht
    exact ⟨t, h1, h2, lookA a haA _ hm⟩
  · intro a haA c hcA hne ta tc hla hlc
    obtain ⟨t1, _, hm1⟩ := forall₂_mem hspec haA
    obtain ⟨t2, _, hm2⟩ := forall₂_mem hspec hcA
    rw [lookA a haA _ hm1] at hla
    rw [lookA c hcA _ hm2] at hlc
    cases hla; cases hlc
    unfold anchorFits at hfit
    simp only [Bool.and_eq_true, decide_eq_true_eq, List.all_eq_true, Bool.or_eq_true, beq_iff_eq] at hfit
    obtain ⟨hran, hall⟩ := hfit
    constructor
    · intro e
      have hr : (ran am).Nodup := hran
      have := fst_eq_of_snd_nodup hr hm1 (e ▸ hm2)
      exact hne this
    · rcases hall _ hm1 _ hm2 with h' | h'
      · exact absurd h' hne
      · exact h'

/-! ### the guard of `_get_reference_residue` and non-vacuity -/

/-- **A residue can be mutated only once**: two different requested targets are refused whatever
else is asked; the same target requested several times is one request. -/
theorem mutate_once (ff : FF) (rn t u : String) (rest : List String) (mods : Option (List String)) (hne : u ≠ t) :
    getRef ff rn (some (t :: u :: rest)) mods = .error .mutateTwice
    ∧ targetOf rn (some (t :: t :: [])) = .ok t := by
  constructor
  · unfold getRef targetOf
    have : ((u :: rest).all (· == t)) = false := by simp [hne]
    simp [this]
  · simp [targetOf]

private def at' (k : Int) (n : String) (e : Int) (p : Option Bool) : Atom := { key := k, name := n, elem := e, attrs := [], ptm := p }

/-- block C1–C2–O1 -/
def blkP : Block := { nodes := [at' 0 "C1" 6 none, at' 1 "C2" 6 none, at' 2 "O1" 8 none], edges := [(0, 1), (1, 2)] }
/-- modification: anchors C1–C2 (bonded), adds P1 on C1 and O9 on P1 -/
def modP : Block :=
  { nodes := [at' 10 "C1" 6 (some false), at' 11 "P1" 15 (some true), at' 12 "C2" 6 (some false), at' 13 "O9" 8 (some true)],
    edges := [(10, 12), (10, 11), (13, 11)] }
/-- the same with the two anchors NOT bonded in the modification although C1–C2 is a bond of the block -/
def modBad : Block := { modP with edges := [(10, 11), (13, 11)] }

example : (modP.nodes.map (·.key)).Nodup := by decide
example : ((patchMod blkP "P" modP).map fun b => (b.nodes.map fun a => (a.key, a.name, a.ptm), b.edges))
    = some ([(0, "C1", none), (1, "C2", none), (2, "O1", none), (3, "P1", some true), (4, "O9", some true)],
            [(0, 1), (1, 2), (0, 3), (4, 3)]) := by decide
example : patchMod blkP "P" modBad = none := by decide
example : ((patchMod blkP "P" modP).map fun b => b.nodes.map fun a => a.attrs.lookup "modifications")
    = some [some "[<Modification P>]", some "[<Modification P>]", none, some "[<Modification P>]", some "[<Modification P>]"] := by decide

end C04.Ref
