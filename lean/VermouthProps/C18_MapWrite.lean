import VermouthProofs.C18_MapWrite
import VermouthProps.C18_Reuse
/-!
# C18 (extension) — the contact map written by `-go-write-file`

`_write_contacts` (vermouth/rcsu/contact_map.py) is modelled in `VermouthModel/C18_MapWrite.lean` as it
is.  It writes one `R` line per entry of `all_contacts`, in order, numbered from 1, with the residues'
names, chains and numbers, the CA distance and the contact flags: 17 columns.  `read_go_map` accepts
lines of exactly 18 columns (the rCSU server format has a further `Model` column), so **the file
martinize2 writes is never accepted by its own reader** (`written_map_not_readable`): an observation
about the two functions, not a clause of property C18 (the Go model built in the same run takes its
contacts from memory, not from the file).

`RowOk r`: the residue names and chain identifiers of the entry are non-empty and blank-free.
-/
namespace C18

def RowOk (r : MapRow) : Prop :=
  WsFree r.resnameA.toList ∧ WsFree r.chainA.toList ∧ WsFree r.resnameB.toList ∧ WsFree r.chainB.toList
instance (r : MapRow) : Decidable (RowOk r) := by unfold RowOk; exact inferInstance

theorem flag_wsFree (b : Bool) : WsFree (flag b) := by cases b <;> decide

theorem rowTokens_wsFree (extra : List (List Char)) (n : Nat) (r : MapRow) (h : RowOk r) (hx : ∀ t ∈ extra, WsFree t) :
    ∀ t ∈ rowTokens extra n r, WsFree t := by
  intro t ht
  obtain ⟨h1, h2, h3, h4⟩ := h
  simp only [rowTokens, List.mem_append, List.mem_cons, List.not_mem_nil, or_false] at ht
  rcases ht with (e | e | e | e | e | e | e | e | e | e | e | e | e | e | e | e | e) | e
  all_goals first
    | exact hx t e
    | (subst e; first
        | exact h1 | exact h2 | exact h3 | exact h4 | exact (decInt_tok _).wsFree | exact (fmtFixed_tok _ _).wsFree
        | exact flag_wsFree _ | decide)

/-- **The columns of a written line**: `line.split()` gives `R`, the running number, then for both
residues serial id, name, chain, residue number, then the CA distance, the overlap count, the three
0/1 flags, rCSU as a number, the contact count (and the further columns `extra`, none in the code). -/
theorem written_line_columns (extra : List (List Char)) (n : Nat) (r : MapRow) (h : RowOk r)
    (hx : ∀ t ∈ extra, WsFree t) : splitWs (rowLine extra n r) = rowTokens extra n r := by
  unfold rowLine
  rw [splitWs_pieces _ (rowPieces_wellSep extra n r) (by rw [rowPieces_toks]; exact rowTokens_wsFree extra n r h hx),
    rowPieces_toks]

/-! ### the selection flags -/

theorem decAux_length (fuel n : Nat) (acc : List Char) : acc.length ≤ (decAux fuel n acc).length := by
  induction fuel generalizing n acc with
  | zero => simp [decAux]
  | succ f ih =>
    unfold decAux
    split
    · simp
    · exact Nat.le_trans (by simp) (ih _ _)

theorem decAux_length_succ (fuel n : Nat) (acc : List Char) : acc.length + 1 ≤ (decAux (fuel + 1) n acc).length := by
  unfold decAux
  split
  · simp
  · exact Nat.le_trans (by simp) (decAux_length _ _ _)

theorem decNat_single (n : Nat) (c : Char) (h : decNat n = [c]) : n < 10 ∧ c = digitChar n := by
  unfold decNat decAux at h
  split at h
  · rename_i hlt
    simp only [List.cons.injEq, and_true] at h
    exact ⟨hlt, h.symm⟩
  · rename_i hge
    cases n with
    | zero => exact absurd (by decide) hge
    | succ m =>
      have := decAux_length_succ m ((m + 1) / 10) [digitChar ((m + 1) % 10)]
      rw [h] at this
      simp at this

theorem digitChar_eq (n : Nat) (h : n < 10) (d : Nat) (hd : d < 10) : digitChar n = digitChar d ↔ n = d := by
  have key : ∀ a b : Fin 10, digitChar a.val = digitChar b.val ↔ a = b := by decide
  have := key ⟨n, h⟩ ⟨d, hd⟩
  simpa [Fin.ext_iff] using this

theorem decInt_digit (i : Int) (d : Nat) (hd : d < 10) : decInt i = [digitChar d] ↔ i = d := by
  constructor
  · intro h
    unfold decInt at h
    split at h
    · have : '-' = digitChar d := by
        cases hh : decNat i.natAbs with
        | nil => rw [hh] at h; simp at h; exact h
        | cons c t => rw [hh] at h; simp at h
      have k : ∀ a : Fin 10, '-' ≠ digitChar a.val := by decide
      exact absurd this (k ⟨d, hd⟩)
    · rename_i hneg
      obtain ⟨hlt, hc⟩ := decNat_single _ _ h
      have := (digitChar_eq _ hlt d hd).mp hc.symm
      omega
  · intro h
    subst h
    unfold decInt
    simp only [Int.natAbs_natCast]
    have : ¬ ((d : Int) < 0) := by omega
    rw [if_neg this]
    unfold decNat decAux
    rw [if_pos hd]

/-- **The flags in columns 12 and 15 encode the selection of `_get_contacts`**: the test `read_go_map`
applies to them (`col12 == "1" or (col12 == "0" and col15 == "1")`) holds exactly for the entries that
`_get_contacts` also puts on the contact list it hands to the Go pipeline
(`over == 1 or (over == 0 and rcsu)`). -/
theorem written_line_selection (r : MapRow) : flagsOk (decInt r.over) (flag r.rcsu) = r.selected := by
  have h1 : decInt r.over = ['1'] ↔ r.over = 1 := by
    have := decInt_digit r.over 1 (by decide)
    have e1 : [digitChar 1] = ['1'] := by decide
    rw [e1] at this
    simpa using this
  have h0 : decInt r.over = ['0'] ↔ r.over = 0 := by
    have := decInt_digit r.over 0 (by decide)
    have e0 : [digitChar 0] = ['0'] := by decide
    rw [e0] at this
    simpa using this
  have hf : flag r.rcsu = ['1'] ↔ r.rcsu = true := by cases r.rcsu <;> simp [flag]
  unfold flagsOk MapRow.selected
  rw [Bool.eq_iff_iff]
  simp only [Bool.or_eq_true, Bool.and_eq_true, decide_eq_true_eq, h1, h0, hf]

/-! ### one line per entry, in order -/

theorem rowLines_eq (extra : List (List Char)) (k : Nat) (rows : List MapRow) :
    rowLines extra k rows = (rows.zipIdx k).map (fun p => rowLine extra (p.2 + 1) p.1) := by
  induction rows generalizing k with
  | nil => rfl
  | cons r rest ih =>
    rw [rowLines, List.zipIdx_cons, List.map_cons, ih (k + 1)]

/-- **`_write_contacts` writes every entry of `all_contacts` exactly once, in order, numbered from 1**:
after the 17 header lines the file consists of one line per entry whose columns are those of
`written_line_columns` (chain and residue number in columns 5/6 and 9/10, selection flags in 12 and 15). -/
theorem written_map_rows (extra : List (List Char)) (version : String) (rows : List MapRow)
    (h : ∀ r ∈ rows, RowOk r) (hx : ∀ t ∈ extra, WsFree t) :
    (mapFileLines extra version rows).drop 17 = rowLines extra 0 rows
    ∧ (rowLines extra 0 rows).length = rows.length
    ∧ (rowLines extra 0 rows).map splitWs = rows.zipIdx.map (fun p => rowTokens extra (p.2 + 1) p.1) := by
  refine ⟨rfl, by rw [rowLines_eq]; simp, ?_⟩
  rw [rowLines_eq, List.map_map]
  apply List.map_congr_left
  intro p hp
  have hr : p.1 ∈ rows := List.fst_mem_of_mem_zipIdx hp
  simp only [Function.comp_def]
  exact written_line_columns extra _ p.1 (h p.1 hr) hx

/-! ### reading the written file -/

theorem splitLinesAux_line (l rest cur : List Char) (h : ∀ c ∈ l, c ≠ '\n' ∧ c ≠ '\r') :
    splitLinesAux (l ++ '\n' :: rest) cur = (cur.reverse ++ l) :: splitLinesAux rest [] := by
  induction l generalizing cur with
  | nil => simp [splitLinesAux]
  | cons c l ih =>
    obtain ⟨h1, h2⟩ := h c (by simp)
    simp only [List.cons_append, splitLinesAux, h1, h2, decide_false, Bool.or_self, Bool.false_eq_true, if_false]
    rw [ih (c :: cur) (fun x hx => h x (List.mem_cons_of_mem _ hx))]
    simp

theorem splitLines_join (lines : List (List Char)) (h : ∀ l ∈ lines, ∀ c ∈ l, c ≠ '\n' ∧ c ≠ '\r') :
    splitLines (lines.flatMap (· ++ ['\n'])) = lines := by
  unfold splitLines
  induction lines with
  | nil => rfl
  | cons l rest ih =>
    simp only [List.flatMap_cons, List.append_assoc, List.singleton_append]
    rw [splitLinesAux_line l _ [] (h l (by simp)), ih (fun x hx => h x (List.mem_cons_of_mem _ hx))]
    simp

theorem wsFree_no_newline {t : List Char} (h : WsFree t) : ∀ c ∈ t, c ≠ '\n' ∧ c ≠ '\r' := by
  intro c hc
  have := h.2 c hc
  constructor <;> (intro e; subst e; revert this; decide)

theorem rowLine_no_newline (extra : List (List Char)) (n : Nat) (r : MapRow) (h : RowOk r)
    (hx : ∀ t ∈ extra, WsFree t) : ∀ c ∈ rowLine extra n r, c ≠ '\n' ∧ c ≠ '\r' := by
  intro c hc
  rcases mem_flat _ c hc with e | ⟨t, ht, hct⟩
  · subst e; decide
  · rw [rowPieces_toks] at ht
    exact wsFree_no_newline (rowTokens_wsFree extra n r h hx t ht) c hct

/-- the version line has 7 columns -/
theorem version_line_ignored (version : String) (hv : WsFree version.toList) :
    parseLine ("Go contact map calculated with vermouth ".toList ++ version.toList) = .ignored := by
  apply go_map_other_lines_ignored
  have e : "Go contact map calculated with vermouth ".toList ++ version.toList
      = [] ++ render ["Go".toList, "contact".toList, "map".toList, "calculated".toList, "with".toList,
          "vermouth".toList, version.toList] ++ [] := by
    simp [render]
  rw [e, splitWs_render [] [] _ _ (by intro c hc; cases hc) (by intro c hc; cases hc)]
  · simp
  · intro t ht
    simp only [List.mem_cons, List.not_mem_nil, or_false] at ht
    rcases ht with e | e | e | e | e | e | e <;> subst e
    all_goals first | exact hv | decide

/-- a written line has 17 columns: `read_go_map` ignores it -/
theorem written_line_ignored (n : Nat) (r : MapRow) (h : RowOk r) : parseLine (rowLine [] n r) = .ignored := by
  apply go_map_other_lines_ignored
  rw [written_line_columns [] n r h (by intro t ht; cases ht)]
  simp [rowTokens]

/-- **`written_map_not_readable`**: whatever contacts are written, `read_go_map` finds no contact in a
file produced by `_write_contacts` and reports an empty map (IOError).  (Replayed on the real functions
by the harness for every generated contact list; the shipped
`tests/data/integration_tests/tier-1/lysozyme_GO_internal/martinize2/martinize_contact_map.out` behaves
the same.) -/
theorem written_map_not_readable (version : String) (rows : List MapRow) (hv : WsFree version.toList)
    (h : ∀ r ∈ rows, RowOk r) : readGoMap (mapFileText [] version rows) = .ioError := by
  have hnl : ∀ l ∈ mapFileLines [] version rows, ∀ c ∈ l, c ≠ '\n' ∧ c ≠ '\r' := by
    intro l hl
    simp only [mapFileLines, List.mem_cons, List.mem_append] at hl
    rcases hl with (e | e | e) | e
    · subst e
      intro c hc
      rcases List.mem_append.mp hc with h1 | h1
      · have k : ∀ c ∈ "Go contact map calculated with vermouth ".toList, c ≠ '\n' ∧ c ≠ '\r' := by decide
        exact k c h1
      · exact wsFree_no_newline hv c h1
    · subst e; intro c hc; cases hc
    · have : ∀ l ∈ mapHeader, ∀ c ∈ l, c ≠ '\n' ∧ c ≠ '\r' := by decide
      exact this l e
    · rw [rowLines_eq] at e
      obtain ⟨p, hp, rfl⟩ := List.mem_map.mp e
      have hr : p.1 ∈ rows := List.fst_mem_of_mem_zipIdx hp
      exact rowLine_no_newline [] _ p.1 (h p.1 hr) (by intro t ht; cases ht)
  have hall : ∀ l ∈ mapFileLines [] version rows, parseLine l = .ignored := by
    intro l hl
    simp only [mapFileLines, List.mem_cons, List.mem_append] at hl
    rcases hl with (e | e | e) | e
    · subst e; exact version_line_ignored version hv
    · subst e; rfl
    · have : ∀ l ∈ mapHeader, parseLine l = .ignored := by decide +kernel
      exact this l e
    · rw [rowLines_eq] at e
      obtain ⟨p, hp, rfl⟩ := List.mem_map.mp e
      have hr : p.1 ∈ rows := List.fst_mem_of_mem_zipIdx hp
      exact written_line_ignored _ p.1 (h p.1 hr)
  rw [go_map_file]
  unfold mapFileText
  rw [splitLines_join _ hnl]
  have hmap : (mapFileLines [] version rows).map parseLine = (mapFileLines [] version rows).map (fun _ => .ignored) :=
    List.map_congr_left hall
  rw [hmap]
  have h1 : LineResult.valueError ∉ (mapFileLines [] version rows).map (fun _ => LineResult.ignored) := by
    simp
  rw [if_neg h1]
  have h2 : ((mapFileLines [] version rows).map (fun _ => LineResult.ignored)).filterMap contactOf = [] := by
    simp [List.filterMap_map, contactOf, Function.comp_def]
  rw [if_pos h2]

/-! ## non-vacuity -/
namespace MapWriteExample
def r1 : MapRow := { i1 := 1, i2 := 2, resnameA := "LYS", chainA := "A", residA := 1, resnameB := "VAL", chainB := "A",
                     residB := 2, dca := ⟨38094, 10000⟩, over := 1, cont := 369, stab := 1, rcsu := true }
def r2 : MapRow := { i1 := 2, i2 := 40, resnameA := "VAL", chainA := "A", residA := 2, resnameB := "THR", chainB := "B",
                     residB := -40, dca := ⟨54657, 10000⟩, over := 0, cont := 0, stab := 0, rcsu := false }
example : RowOk r1 ∧ RowOk r2 := by decide
example : WsFree "0.9.7.dev1".toList := by decide
/-- the format of the shipped `martinize_contact_map.out` -/
example : rowLine [] 1 r1 = "R      1     1  LYS A    1        2  VAL A    2       3.8094     1 1 1 1     1     369".toList := by
  decide
example : rowLine [] 2 r2 = "R      2     2  VAL A    2       40  THR B  -40       5.4657     0 0 0 0     0       0".toList := by
  decide
example : (splitWs (rowLine [] 1 r1)).length = 17 := by decide
example : parseLine (rowLine [] 1 r1) = .ignored := by decide
/-- with the 18th column of the server format the same line is read as the contact it stands for, and the
unselected entry is skipped -/
example : readGoMap (mapFileText [['0']] "0.9.7" [r1, r2]) = .ok [⟨1, "A", 2, "A"⟩] := by decide +kernel
example : selectedContacts [r1, r2] = [⟨1, "A", 2, "A"⟩] := by decide
end MapWriteExample

end C18
