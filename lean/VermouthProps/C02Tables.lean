import VermouthModel.C02
import Generated.C02Tables
/-!
# C02 — theorems about the arity table re-extracted from `vermouth/gmx/itp_read.py`

Re-checked by the kernel against the table as the code has it NOW (the file
`Generated/C02Tables.lean` is rewritten from the repo on every run).
-/
namespace C02

/-- every entry of `atom_idxs` has one of the shapes the reader model understands -/
theorem table_shapes_understood : rawAtomIdxs.all (fun p => (arityOf p.2).isSome) = true := by decide

/-- section names are distinct -/
theorem table_names_nodup : (rawAtomIdxs.map (·.1)).Nodup := by decide

/-- `impropers` is not a section of the file format (they are written under `dihedrals`), and the
two reserved sections are not interaction sections -/
theorem table_reserved : arityTable.lookup "impropers" = none ∧ arityTable.lookup "atoms" = none
    ∧ arityTable.lookup "moleculetype" = none := by decide

theorem table_dihedrals : arityTable.lookup "dihedrals" = some (.fixed 4) := by decide
theorem table_bonds : arityTable.lookup "bonds" = some (.fixed 2) := by decide
theorem table_angles : arityTable.lookup "angles" = some (.fixed 3) := by decide
/-- n-body virtual sites: the function type is the token after the first atom -/
theorem table_virtual_sitesn : arityTable.lookup "virtual_sitesn" = some .firstSkip := by decide
theorem table_exclusions : arityTable.lookup "exclusions" = some .all := by decide

/-- every fixed arity in the table is at least 1 (so an interaction line starts with an atom number) -/
theorem table_fixed_pos : arityTable.all (fun p => match p.2 with
    | .fixed k => decide (1 ≤ k)
    | _ => true) = true := by decide

end C02
