import VermouthModel.C02
namespace C02
end C02
