import VermouthProofs.C02_Atoms
import VermouthProofs.C02_Walk
import VermouthProofs.C02_Errors
import VermouthProofs.C02_Hist
import Generated.C02Tables
/-!
# C02 — a written ITP states exactly the molecule held in memory

Property theorems about `C02.write` (model of `vermouth.gmx.itp.write_molecule_itp`), the
reader `C02.parseTokens` / `C02.parse` and `C02.canon` (the molecule in memory, as the file
must state it).  Helper lemmas live in `VermouthProofs/C02*.lean`.

Vocabulary (all executable):
* `sortedNodes m`        : nodes in atom-id order (stable; absent ids last) — the order of the `[ atoms ]` rows;
* `correspondence m`     : the renumbering table node key ↦ row number;
* `toPInter c name i`    : in-memory interaction `i` of type `name` as a file record: section
                           (`impropers` retagged `dihedrals`), guard, atoms through the table, parameters;
* `wellFormed tbl m`     : the decidable domain of the round trip (see the model file);
* `lineTokens l`         : the tokens a written line carries.
-/
namespace C02

/-- the interactions of the molecule in memory as file records, in dict order -/
def memoryRecords (m : Mol) : List PInter :=
  m.inters.flatMap (fun p => p.2.map (toPInter (correspondence m) p.1))

/-! ## atoms: numbered 1..N without gaps, in atom-id order, same fields -/

/-- Whatever the node keys, node order and atom ids: every successful write numbers the atom rows
exactly 1..N, and the rows are the nodes in atom-id order with their fields unchanged. -/
theorem write_atoms_consecutive (m : Mol) (ls : List Line) (h : write m = .ok ls) :
    ls.filterMap Line.atomIdx? = List.range' 1 m.atoms.length
    ∧ ls.filterMap Line.atomRow? = sortedNodes m := by
  obtain ⟨rest, rfl, hrest⟩ := write_shape h
  obtain ⟨r1, r2⟩ := filterMap_idx_of_noAtom rest hrest
  obtain ⟨p1, p2⟩ := filterMap_idx_of_noAtom (prelude m) (prelude_noAtom m)
  obtain ⟨a1, a2⟩ := filterMap_idx_of_noAtom (linesOf m.pre "atoms") (linesOf_noAtom _ _)
  obtain ⟨b1, b2⟩ := filterMap_idx_of_noAtom (linesOf m.post "atoms") (linesOf_noAtom _ _)
  have s1 : List.filterMap Line.atomIdx? [Line.sect "atoms"] = [] := rfl
  have s2 : List.filterMap Line.atomIdx? [Line.blank] = [] := rfl
  have s3 : List.filterMap Line.atomRow? [Line.sect "atoms"] = [] := rfl
  have s4 : List.filterMap Line.atomRow? [Line.blank] = [] := rfl
  constructor
  · simp only [atomsPart, List.filterMap_append, r1, p1, a1, b1, atomLines_idx, sortedNodes_length,
      s1, s2, List.nil_append, List.append_nil]
  · simp only [atomsPart, List.filterMap_append, r2, p2, a2, b2, atomLines_row,
      s3, s4, List.nil_append, List.append_nil]

/-- the rows are a rearrangement of the nodes (no atom lost or duplicated) sorted by atom id -/
theorem atoms_sorted_perm (m : Mol) :
    (sortedNodes m).Perm m.atoms
    ∧ (sortedNodes m).Pairwise (fun a b => atomidLe a.atomid b.atomid = true) :=
  ⟨sortedNodes_perm m, sortedNodes_pairwise m⟩

/-! ## the renumbering table -/

/-- Two different node keys never get the same number. -/
theorem correspondence_inj (m : Mol) (k1 k2 : Int) (n : Nat)
    (h1 : lookupIdx (correspondence m) k1 = some n) (h2 : lookupIdx (correspondence m) k2 = some n) :
    k1 = k2 := by
  obtain ⟨_, _, e1⟩ := lookup_corrOf_some _ _ _ _ h1
  obtain ⟨_, _, e2⟩ := lookup_corrOf_some _ _ _ _ h2
  rw [e1] at e2
  exact Option.some.inj e2

/-- Every node has a number, it lies in 1..N, and it is the row at which that node is written:
the i-th row (0-based) carries the node whose key is mapped to i+1. -/
theorem correspondence_matches_rows (m : Mol) (hnd : (m.atoms.map (·.key)).Nodup) (i : Nat)
    (hi : i < (sortedNodes m).length) :
    lookupIdx (correspondence m) (sortedNodes m)[i].key = some (i + 1) := by
  have hnd' : ((sortedNodes m).map (·.key)).Nodup := ((sortedNodes_perm m).map _).nodup_iff.mpr hnd
  have := lookup_corrOf_get (sortedNodes m) 1 hnd' i hi
  rw [Nat.add_comm] at this
  exact this

theorem correspondence_total (m : Mol) (k : Int) (h : k ∈ m.atoms.map (·.key)) :
    ∃ n, lookupIdx (correspondence m) k = some n ∧ 1 ≤ n ∧ n ≤ m.atoms.length := by
  obtain ⟨n, hn⟩ := Option.isSome_iff_exists.mp (correspondence_isSome m k h)
  exact ⟨n, hn, correspondence_range m k n hn⟩

/-! ## nothing dropped, nothing duplicated -/

/-- The records the file must contain (`canon`) are, as a multiset, exactly the interactions in
memory mapped through the renumbering table with `impropers` retagged `dihedrals`: sorting
sections and guard/group blocks only rearranges. -/
theorem no_loss_no_dup (m : Mol) : (canon m).inters.Perm (memoryRecords m) := by
  unfold canon memoryRecords
  simp only []
  have h1 : ((sortInteractions m).flatMap (fun s => (sortInters s.2.2).map (toPInter (correspondence m) s.2.1))).Perm
      ((sortInteractions m).flatMap (fun s => s.2.2.map (toPInter (correspondence m) s.2.1))) :=
    perm_flatMap_of_forall _ _ _ (fun s _ => (sortInters_perm s.2.2).map _)
  have h2 : ((sortInteractions m).flatMap (fun s => s.2.2.map (toPInter (correspondence m) s.2.1))).Perm
      ((sectKeys m.inters).flatMap (fun s => s.2.2.map (toPInter (correspondence m) s.2.1))) :=
    List.Perm.flatMap_right _ (List.mergeSort_perm _ _)
  rw [sectKeys_flatMap m.inters (toPInter (correspondence m))] at h2
  exact h1.trans h2

/-! ## what the writer refuses -/

/-- **The writer raises exactly on the unwritable molecules** (`writable`, decidable): it
succeeds iff there is at least one atom, no atom has a mass but no charge, no interaction has
both `ifdef` and `ifndef`, every interaction atom is a node and no `virtual_sitesn` interaction is
without atoms. -/
theorem write_succeeds_iff (m : Mol) : (∃ ls, write m = .ok ls) ↔ writable m = true :=
  write_isOk_iff m

/-- An atom with a mass but no charge cannot be expressed in the positional `[ atoms ]` columns
(the mass would be read back as the charge): the writer refuses the molecule with ValueError,
whatever else it contains. -/
theorem write_rejects_mass_without_charge (m : Mol) (a : Atom) (ha : a ∈ m.atoms)
    (hm : a.mass ≠ "") (hc : a.charge = "") : write m = .error .valueerror := by
  unfold write
  by_cases he : m.atoms.isEmpty = true
  · simp [he]
  · have hall : m.atoms.all atomOk = false := by
      rw [List.all_eq_false]
      exact ⟨a, ha, by simp [atomOk, hm, hc]⟩
    simp [he, hall]

/-- conversely a successful write means every atom row has its charge whenever it has a mass -/
theorem written_atoms_expressible (m : Mol) (ls : List Line) (h : write m = .ok ls) :
    ∀ a ∈ m.atoms, a.mass ≠ "" → a.charge ≠ "" := by
  intro a ha hm hc
  rw [write_rejects_mass_without_charge m a ha hm hc] at h
  cases h

/-! ## the round trip -/

/-- On a well-formed molecule the writer does not raise. -/
theorem write_succeeds (tbl : List (String × Arity)) (m : Mol) (h : wellFormed tbl m = true) :
    ∃ ls, write m = .ok ls :=
  ⟨_, write_ok tbl m (wfFacts_of tbl m h)⟩

/-- **Round trip at token level**: reading the tokens of the written lines gives back the
molecule: moleculetype line, the atom rows in atom-id order with the running number checked
against 1..N, and per written section in order every interaction with its guard, its atoms
through the renumbering table and its parameters.  Keys, key order and atom ids are arbitrary. -/
theorem parse_write_tokens (tbl : List (String × Arity)) (m : Mol) (h : wellFormed tbl m = true) :
    ∃ ls, write m = .ok ls ∧ parseTokens tbl (ls.map lineTokens) = .ok (canon m) := by
  have hf := wfFacts_of tbl m h
  refine ⟨fileLines m, write_ok tbl m hf, ?_⟩
  obtain ⟨sct, hrun⟩ := run_fileLines tbl m hf
  unfold parseTokens
  rw [← run_eq_foldlM, hrun]
  rfl

/-- the same for the table extracted from the repository -/
theorem parse_write_tokens_repo (m : Mol) (h : wellFormed arityTable m = true) :
    ∃ ls, write m = .ok ls ∧ parseTokens arityTable (ls.map lineTokens) = .ok (canon m) :=
  parse_write_tokens arityTable m h

/-- Reading back gives, as a multiset, exactly the interactions held in memory. -/
theorem read_back_multiset (tbl : List (String × Arity)) (m : Mol) (h : wellFormed tbl m = true) :
    ∃ ls p, write m = .ok ls ∧ parseTokens tbl (ls.map lineTokens) = .ok p
      ∧ p.inters.Perm (memoryRecords m)
      ∧ p.atoms = (sortedNodes m).map toPAtom
      ∧ p.moltype = some (m.moltype, m.nrexcl) := by
  obtain ⟨ls, h1, h2⟩ := parse_write_tokens tbl m h
  exact ⟨ls, canon m, h1, h2, no_loss_no_dup m, rfl, rfl⟩

/-- **Guards**: every interaction read back from the written file sits inside exactly the
`#ifdef`/`#ifndef` of the in-memory interaction it comes from (none if it has none). -/
theorem guard_preserved (tbl : List (String × Arity)) (m : Mol) (h : wellFormed tbl m = true)
    (ls : List Line) (p : Parsed) (hw : write m = .ok ls)
    (hp : parseTokens tbl (ls.map lineTokens) = .ok p) :
    ∀ q ∈ p.inters, ∃ name is i, (name, is) ∈ m.inters ∧ i ∈ is
      ∧ q = toPInter (correspondence m) name i ∧ q.guard = guardOf i := by
  obtain ⟨ls', h1, h2⟩ := parse_write_tokens tbl m h
  rw [hw] at h1; cases h1
  rw [hp] at h2; cases h2
  intro q hq
  have hq' := (no_loss_no_dup m).mem_iff.mp hq
  simp only [memoryRecords, List.mem_flatMap, List.mem_map] at hq'
  obtain ⟨⟨name, is⟩, hm, i, hi, rfl⟩ := hq'
  exact ⟨name, is, i, hm, hi, rfl, rfl⟩

/-- **Sections**: every interaction read back sits in the section of its in-memory type,
impropers under `dihedrals`; its atoms are the in-memory atoms through the table and its
parameters are unchanged (for `virtual_sitesn` the reader takes the token after the first atom
as the parameter, so the function type is where the format wants it). -/
theorem section_correct (tbl : List (String × Arity)) (m : Mol) (h : wellFormed tbl m = true)
    (ls : List Line) (p : Parsed) (hw : write m = .ok ls)
    (hp : parseTokens tbl (ls.map lineTokens) = .ok p) :
    ∀ q ∈ p.inters, ∃ name is i, (name, is) ∈ m.inters ∧ i ∈ is
      ∧ q.sect = (if name = "impropers" then "dihedrals" else name)
      ∧ q.atoms = i.atoms.filterMap (lookupIdx (correspondence m))
      ∧ q.atoms.length = i.atoms.length
      ∧ q.params = i.params := by
  intro q hq
  obtain ⟨name, is, i, hm, hi, rfl, _⟩ := guard_preserved tbl m h ls p hw hp q hq
  refine ⟨name, is, i, hm, hi, rfl, rfl, ?_, rfl⟩
  have hf := wfFacts_of tbl m h
  -- all atoms of i are nodes, so no lookup is dropped
  have hs : ∃ s ∈ sortInteractions m, s.2.1 = name ∧ s.2.2 = is := by
    have hne : is ≠ [] := by intro e; subst e; cases hi
    have : ((match is with | [] => 0 | i :: _ => i.atoms.length), name, is) ∈ sectKeys m.inters := by
      simp only [sectKeys, List.mem_filterMap]
      refine ⟨(name, is), hm, ?_⟩
      cases is with
      | nil => exact absurd rfl hne
      | cons a t => rfl
    exact ⟨_, (List.mergeSort_perm _ _).mem_iff.mpr this, rfl, rfl⟩
  obtain ⟨s, hs, rfl, rfl⟩ := hs
  obtain ⟨_, _, ar, _, _, hall⟩ := hf.sections s hs
  exact idxsOf_length (hall i hi).2

/-- the n-body virtual-site line carries the function type right after the first atom -/
theorem virtual_sitesn_layout (w : Nat) (a : Nat) (rest : List Nat) (funct : String) (c : Option String) :
    lineTokens (.inter w true (a :: rest) [funct] c)
      = toString a :: funct :: rest.map (fun (i : Nat) => toString i) := rfl

/-! ## character level -/

/-- **Splitter lemma**: for a written line whose token fields are non-empty and free of
whitespace and `;` (`LineOk`), stripping the comment and splitting the rendered characters on
whitespace gives back exactly the tokens of the line, whatever the column widths. -/
theorem splitWs_renderLine (l : Line) (h : LineOk l) :
    splitWs (stripComment (renderLine l).toList) = lineTokens l := by
  unfold renderLine
  rw [String.toList_ofList]
  exact tokenize_renderLine l h

/-- Reading the rendered text = reading the tokens of the lines (lines free of newlines). -/
theorem parse_render_eq (tbl : List (String × Arity)) (ls : List Line)
    (h : ∀ l ∈ ls, LineOk l ∧ NoNl l) :
    parse tbl (render ls) = parseTokens tbl (ls.map lineTokens) :=
  parse_render tbl ls h

/-- the character conditions on the molecule carry over to every written line -/
theorem written_lines_ok (tbl : List (String × Arity)) (m : Mol) (h : wellFormed tbl m = true)
    (hc : charOk m = true) (ls : List Line) (hw : write m = .ok ls) :
    ∀ l ∈ ls, LineOk l ∧ NoNl l := by
  have hf := wfFacts_of tbl m h
  rw [write_ok tbl m hf] at hw
  cases hw
  intro l hl
  have := fileLines_good tbl m hf (charFacts_of m hc) l hl
  exact ⟨lineOk_of_good l this, noNl_of_good l this⟩

/-- **Round trip at character level** (the statement of DESIGN 5.2): for every well-formed
molecule whose token fields are non-empty and free of whitespace and `;` and whose free texts
contain no newline, the writer succeeds and the independent reader applied to the rendered TEXT
returns exactly the molecule in memory in canonical form — atoms 1..N in atom-id order with
their fields, every interaction in its section (impropers under dihedrals), inside its guard, on
the same atoms through the renumbering table, with the same parameters.  Node keys, node order,
atom ids, column widths are arbitrary. -/
theorem parse_write (tbl : List (String × Arity)) (m : Mol) (h : wellFormed tbl m = true)
    (hc : charOk m = true) :
    ∃ ls, write m = .ok ls ∧ parse tbl (render ls) = .ok (canon m) := by
  obtain ⟨ls, h1, h2⟩ := parse_write_tokens tbl m h
  refine ⟨ls, h1, ?_⟩
  rw [parse_render tbl ls (written_lines_ok tbl m h hc ls h1), h2]

/-- the same for the arity table extracted from the repository -/
theorem parse_write_repo (m : Mol) (h : wellFormed arityTable m = true) (hc : charOk m = true) :
    ∃ ls, write m = .ok ls ∧ parse arityTable (render ls) = .ok (canon m) :=
  parse_write arityTable m h hc

/-! ## histories: one molecule object edited in place and written again -/

/-- **The writer has no memory.**  In a session that writes one molecule, edits it in place
(atom ids permuted / assigned / deleted, fields changed, nodes and interactions added or removed,
guards and groups changed) and writes it again, round after round, the k-th text is what
`write` gives on the molecule's CURRENT state — nothing of an earlier write or an earlier atom
order survives. -/
theorem write_depends_on_state_only (m : Mol) (rounds : List (List Edit)) (k : Nat)
    (hk : k < rounds.length) :
    (session m rounds)[k]? = some (write (applyEdits m (rounds.take (k + 1)).flatten)) :=
  session_get m rounds k hk

/-- ... hence equal to what a freshly built equal molecule writes -/
theorem session_equals_fresh (m fresh : Mol) (rounds : List (List Edit)) (k : Nat) (hk : k < rounds.length)
    (heq : fresh = applyEdits m (rounds.take (k + 1)).flatten) :
    (session m rounds)[k]? = some (write fresh) := by
  rw [heq]; exact session_get m rounds k hk

/-- ... and its atom rows are numbered 1..N in the atom-id order of the CURRENT atom ids -/
theorem session_atoms_current_order (m : Mol) (rounds : List (List Edit)) (k : Nat) (hk : k < rounds.length)
    (ls : List Line) (h : (session m rounds)[k]? = some (.ok ls)) :
    ls.filterMap Line.atomRow? = sortedNodes (applyEdits m (rounds.take (k + 1)).flatten)
    ∧ ls.filterMap Line.atomIdx? = List.range' 1 (applyEdits m (rounds.take (k + 1)).flatten).atoms.length := by
  rw [session_get m rounds k hk] at h
  have h' := Option.some.inj h
  exact ⟨(write_atoms_consecutive _ ls h').2, (write_atoms_consecutive _ ls h').1⟩

/-! ## non-vacuity -/

def exMol : Mol :=
  { moltype := "X", nrexcl := "1", header := ["h"], defines := [("POSRES_FC", "1000")]
    atoms := [⟨7, some 2, "P1", "1", "ALA", "BB", "1", "0.0", "72.0"⟩,
              ⟨-3, some 1, "C1", "1", "ALA", "SC1", "2", "", ""⟩,
              ⟨5, none, "C1", "2", "GLY", "BB", "3", "1.0", ""⟩]
    inters := [("bonds", [⟨[7, -3], ["1", "0.3"], some "FLEX", none, some "g", none⟩,
                          ⟨[5, -3], [], none, none, none, some "c"⟩]),
               ("impropers", [⟨[7, -3, 5, 7], ["2"], none, some "A", none, none⟩]),
               ("virtual_sitesn", [⟨[5, 7, -3], ["1"], none, none, none, none⟩]),
               ("exclusions", [⟨[7, 5], [], none, none, none, none⟩]),
               ("angles", [])]
    pre := [("atoms", ["; pre"])], post := [("bonds", ["#include \"x\""])] }

example : wellFormed arityTable exMol = true := by decide
/-- the hypothesis of the round trip is satisfiable by a molecule with sparse, negative and
unordered keys, a permuted / partly absent atom id, guards, groups, impropers, `virtual_sitesn`,
`exclusions`, an empty interaction list and free lines -/
example : ∃ ls, write exMol = .ok ls ∧ parseTokens arityTable (ls.map lineTokens) = .ok (canon exMol) :=
  parse_write_tokens_repo exMol (by decide)
example : (exMol.atoms.map (·.key)).Nodup := by decide
example : writable exMol = true := by decide
/-- a molecule that is refused: second atom has a mass and no charge -/
example : write { exMol with atoms := exMol.atoms ++ [⟨9, none, "C1", "2", "GLY", "SC1", "4", "", "36.0"⟩] }
    = .error .valueerror :=
  write_rejects_mass_without_charge _ ⟨9, none, "C1", "2", "GLY", "SC1", "4", "", "36.0"⟩
    (by simp) (by decide) rfl
example : charOk exMol = true := by decide
example : ∃ ls, write exMol = .ok ls ∧ parse arityTable (render ls) = .ok (canon exMol) :=
  parse_write_repo exMol (by decide) (by decide)
/-- a line with padding, an empty charge column and a comment satisfies `LineOk` -/
example : LineOk (.inter 3 true [1, 22] ["1"] (some "c ; d")) := by
  refine ⟨?_, by simp⟩
  intro p hp
  simp only [List.mem_singleton] at hp
  subst hp
  exact tokS_toString 1

end C02
