import VermouthModel.C19_Cli
/-!
# C19 — the command line hands over the requests the user wrote, in the order written

Theorems about `C19.cliLists` / `C19.cliRequests` (model of the argparse destinations, of the
assembly block of `bin/martinize2` and of the constructor of `AnnotateMutMod`).
Vocabulary: `argModifications opts` / `argMutations opts` = what argparse collected (`-modify`,
`-nter`, `-cter` share one list), `firstParts given` = the `resspecs` of the code,
`isInfixOf cter s` = `"cter" in s`.
-/
namespace C19

/-! ## argparse keeps command-line order -/

theorem argModifications_append (a b : List Opt) :
    argModifications (a ++ b) = argModifications a ++ argModifications b := by
  induction a with
  | nil => rfl
  | cons o t ih => cases o <;> simp [argModifications, ih]

theorem argMutations_append (a b : List Opt) :
    argMutations (a ++ b) = argMutations a ++ argMutations b := by
  induction a with
  | nil => rfl
  | cons o t ih => cases o <;> simp [argMutations, ih]

/-- every option contributes to exactly one list, at the position where it was written -/
theorem arg_lists_in_command_line_order (a b : List Opt) (s : Str) :
    argModifications (a ++ .modify s :: b) = argModifications a ++ splitOn ':' s :: argModifications b ∧
    argModifications (a ++ .nterO s :: b) = argModifications a ++ [nter, s] :: argModifications b ∧
    argModifications (a ++ .cterO s :: b) = argModifications a ++ [cter, s] :: argModifications b ∧
    argModifications (a ++ .mutate s :: b) = argModifications a ++ argModifications b ∧
    argModifications (a ++ .nt :: b) = argModifications a ++ argModifications b ∧
    argMutations (a ++ .mutate s :: b) = argMutations a ++ splitOn ':' s :: argMutations b ∧
    argMutations (a ++ .modify s :: b) = argMutations a ++ argMutations b ∧
    argMutations (a ++ .nterO s :: b) = argMutations a ++ argMutations b ∧
    argMutations (a ++ .cterO s :: b) = argMutations a ++ argMutations b ∧
    argMutations (a ++ .nt :: b) = argMutations a ++ argMutations b := by
  simp [argModifications_append, argMutations_append, argModifications, argMutations]

/-- `A-PHE45:ALA` is split at the colon; a text without colon stays one part (and is refused later) -/
example : splitOn ':' "A-PHE45:ALA".toList = ["A-PHE45".toList, "ALA".toList] ∧
    splitOn ':' "PHE45".toList = ["PHE45".toList] ∧ splitOn ':' [] = [[]] ∧
    splitOn ':' "a:b:".toList = ["a".toList, "b".toList, []] := by decide

/-! ## the assembly block -/

theorem assemble_false (given out : List (List Str)) (h : assembleModifications false given = some out) :
    out = given ++ defaultsFor (firstParts given) := by
  unfold assembleModifications at h
  simp only [Bool.false_eq_true, if_false] at h
  split at h
  · rename_i he
    have : given = [] := by simpa using he
    subst this
    simpa [firstParts] using h.symm
  · split at h
    · simpa using h.symm
    · cases h

/-- the default requests: at most one for each terminus, the C-terminus first -/
theorem defaultsFor_spec (rs : List Str) :
    ([cter, cterDefault] ∈ defaultsFor rs ↔ ∀ s ∈ rs, isInfixOf cter s = false) ∧
    ([nter, nterDefault] ∈ defaultsFor rs ↔ ∀ s ∈ rs, isInfixOf nter s = false) ∧
    (∃ c n, defaultsFor rs = c ++ n ∧ (c = [] ∨ c = [[cter, cterDefault]]) ∧ (n = [] ∨ n = [[nter, nterDefault]])) := by
  have hne : ([cter, cterDefault] : List Str) ≠ [nter, nterDefault] := by decide
  have hne' : ([nter, nterDefault] : List Str) ≠ [cter, cterDefault] := by decide
  have hall : ∀ pat : Str, (rs.any (isInfixOf pat) = true) ↔ ¬ ∀ s ∈ rs, isInfixOf pat s = false := by
    intro pat
    rw [List.any_eq_true]
    constructor
    · rintro ⟨s, hs, ht⟩ hc; rw [hc s hs] at ht; cases ht
    · intro hc
      apply Classical.byContradiction
      intro hn
      apply hc
      intro s hs
      cases hv : isInfixOf pat s with
      | false => rfl
      | true => exact absurd ⟨s, hs, hv⟩ hn
  unfold defaultsFor
  by_cases h1 : rs.any (isInfixOf cter) = true <;> by_cases h2 : rs.any (isInfixOf nter) = true
  · have n1 := (hall cter).1 h1
    have n2 := (hall nter).1 h2
    simp only [h1, h2, if_true, List.append_nil]
    exact ⟨⟨fun h => by simp at h, fun h => absurd h n1⟩, ⟨fun h => by simp at h, fun h => absurd h n2⟩,
      [], [], rfl, Or.inl rfl, Or.inl rfl⟩
  · have n1 := (hall cter).1 h1
    have n2 : ∀ s ∈ rs, isInfixOf nter s = false := Classical.not_not.1 (fun hc => h2 ((hall nter).2 hc))
    simp only [h1, h2, if_true, if_false, List.nil_append, Bool.false_eq_true]
    exact ⟨⟨fun h => by simp [hne] at h, fun h => absurd h n1⟩, ⟨fun _ => n2, fun _ => by simp⟩,
      [], _, rfl, Or.inl rfl, Or.inr rfl⟩
  · have n1 : ∀ s ∈ rs, isInfixOf cter s = false := Classical.not_not.1 (fun hc => h1 ((hall cter).2 hc))
    have n2 := (hall nter).1 h2
    simp only [h1, h2, if_true, if_false, List.append_nil, Bool.false_eq_true]
    exact ⟨⟨fun _ => n1, fun _ => by simp⟩, ⟨fun h => by simp [hne'] at h, fun h => absurd h n2⟩,
      _, [], by simp, Or.inr rfl, Or.inl rfl⟩
  · have n1 : ∀ s ∈ rs, isInfixOf cter s = false := Classical.not_not.1 (fun hc => h1 ((hall cter).2 hc))
    have n2 : ∀ s ∈ rs, isInfixOf nter s = false := Classical.not_not.1 (fun hc => h2 ((hall nter).2 hc))
    simp only [h1, h2, if_false, Bool.false_eq_true]
    exact ⟨⟨fun _ => n1, fun _ => by simp⟩, ⟨fun _ => n2, fun _ => by simp⟩, _, _, rfl, Or.inr rfl, Or.inr rfl⟩

/-- **Order of the requests.**  What `AnnotateMutMod` is called with: the mutations are the
`-mutate` values in command-line order; the modifications are the `-modify` / `-nter` / `-cter`
values in command-line order (one list), followed by what the assembly block appends: with `-nt`
always `cter:COOH-ter` then `nter:NH2-ter`; without it `cter:C-ter` and/or `nter:N-ter`, in that
order.  Nothing the user wrote is dropped, moved or rewritten. -/
theorem requests_order (opts : List Opt) (mods muts : List (List Str)) (h : cliLists opts = .lists mods muts) :
    muts = argMutations opts ∧
    ∃ dflt, mods = argModifications opts ++ dflt ∧
      (argNeutral opts = true → dflt = [[cter, cooh], [nter, nh2]]) ∧
      (argNeutral opts = false → dflt = defaultsFor (firstParts (argModifications opts))) := by
  unfold cliLists at h
  split at h
  · cases h
  · rename_i out ho
    simp only [CliResult.lists.injEq] at h
    obtain ⟨h1, h2⟩ := h
    refine ⟨h2.symm, ?_⟩
    subst h1
    cases hn : argNeutral opts with
    | true =>
      rw [hn] at ho
      simp only [assembleModifications, if_true, Option.some.injEq] at ho
      exact ⟨_, ho.symm, fun _ => rfl, fun hc => Bool.noConfusion hc⟩
    | false =>
      rw [hn] at ho
      exact ⟨_, assemble_false _ _ ho, fun hc => Bool.noConfusion hc, fun _ => rfl⟩

/-- **An explicit terminus replaces the default one** (without `-nt`): the default `cter:C-ter` is
appended iff no given specification contains the text `cter` — `-cter X`, `-modify A-cter:X`, but
also `-modify ncter:X` (a substring test) — and likewise for `nter`; nothing else is appended. -/
theorem explicit_terminus_overrides_default (given out : List (List Str))
    (h : assembleModifications false given = some out) :
    ∃ dflt, out = given ++ dflt ∧
      ([cter, cterDefault] ∈ dflt ↔ ∀ s ∈ firstParts given, isInfixOf cter s = false) ∧
      ([nter, nterDefault] ∈ dflt ↔ ∀ s ∈ firstParts given, isInfixOf nter s = false) ∧
      (∀ e ∈ dflt, e = [cter, cterDefault] ∨ e = [nter, nterDefault]) := by
  refine ⟨_, assemble_false _ _ h, (defaultsFor_spec _).1, (defaultsFor_spec _).2.1, ?_⟩
  obtain ⟨c, n, hcn, hc, hn⟩ := (defaultsFor_spec (firstParts given)).2.2
  rw [hcn]
  intro e he
  rcases List.mem_append.1 he with h1 | h1
  · rcases hc with rfl | rfl
    · cases h1
    · left; simpa using h1
  · rcases hn with rfl | rfl
    · cases h1
    · right; simpa using h1

/-- the block refuses (ValueError) exactly when something is given and its shortest entry does not
have two parts (`-modify LYS` without colon; `-modify a:b:c` only if every entry has three) -/
theorem assemble_error_iff (given : List (List Str)) :
    assembleModifications false given = none ↔ given ≠ [] ∧ zipWidth given ≠ 2 := by
  unfold assembleModifications
  simp only [Bool.false_eq_true, if_false]
  cases given with
  | nil => simp
  | cons a t =>
    simp only [List.isEmpty_cons, Bool.false_eq_true, if_false, ne_eq, reduceCtorEq, not_false_eq_true, true_and]
    split <;> simp_all

example : assembleModifications false [["LYS".toList]] = none ∧
    assembleModifications false [["a".toList, "b".toList, "c".toList], [nter, nh2]]
      = some [["a".toList, "b".toList, "c".toList], [nter, nh2], [cter, cterDefault]] ∧
    assembleModifications false [["ncter".toList, "x".toList]]
      = some [["ncter".toList, "x".toList], [nter, nterDefault]] ∧
    assembleModifications false [["A-cter".toList, "x".toList], ["winter5".toList, "y".toList]]
      = some [["A-cter".toList, "x".toList], ["winter5".toList, "y".toList]] := by decide

/-! ## `-nt` -/

theorem argModifications_filter (opts : List Opt) :
    argModifications (opts.filter (· ≠ .nt)) = argModifications opts := by
  induction opts with
  | nil => rfl
  | cons o t ih =>
    have ih' : argModifications (List.filter (fun x => !decide (x = Opt.nt)) t) = argModifications t := by
      simpa using ih
    cases o <;> simp [argModifications, ih']

theorem argMutations_filter (opts : List Opt) :
    argMutations (opts.filter (· ≠ .nt)) = argMutations opts := by
  induction opts with
  | nil => rfl
  | cons o t ih =>
    have ih' : argMutations (List.filter (fun x => !decide (x = Opt.nt)) t) = argMutations t := by
      simpa using ih
    cases o <;> simp [argMutations, ih']

theorem toPairs_width (l : List (List Str)) (p : List (Str × Str)) (h : toPairs l = some p) (hne : l ≠ []) :
    zipWidth l = 2 ∧ firstParts l = p.map Prod.fst := by
  induction l generalizing p with
  | nil => exact absurd rfl hne
  | cons a t ih =>
    match a, h with
    | [x, y], h =>
      simp only [toPairs, Option.map_eq_some_iff] at h
      obtain ⟨q, hq, rfl⟩ := h
      cases t with
      | nil =>
        simp only [toPairs, Option.some.injEq] at hq
        subst hq
        simp [zipWidth, firstParts]
      | cons b t' =>
        have := ih q hq (by simp)
        constructor
        · simp only [zipWidth, List.length_cons, List.length_nil]
          rw [this.1]; rfl
        · simp only [firstParts, List.filterMap_cons, List.head?_cons, List.map_cons] at this ⊢
          rw [this.2]

theorem toPairs_append (a b : List (List Str)) :
    toPairs (a ++ b) = (toPairs a).bind fun pa => (toPairs b).map fun pb => pa ++ pb := by
  induction a with
  | nil => cases h : toPairs b <;> simp [toPairs, h]
  | cons x t ih =>
    match x with
    | [] => simp [toPairs]
    | [_] => simp [toPairs]
    | [u, v] =>
      simp only [List.cons_append, toPairs, ih]
      cases toPairs t <;> cases toPairs b <;> simp
    | _ :: _ :: _ :: _ => simp [toPairs]

/-- **`-nt` means neutral termini.**  (1) With `-nt` the assembly never fails and appends
`cter:COOH-ter`, `nter:NH2-ter` after everything given — an explicit `-nter X` is kept AND the
neutral one is requested as well (both end up on the terminal residue).  (2) As the help text says,
`-nt` is an alias: the processor is built with the same requests as when `-cter COOH-ter -nter
NH2-ter` is written at the end of the command line instead (or the run ends with `ValueError` in
both cases). -/
theorem nt_means_neutral_termini (opts : List Opt) (hnt : argNeutral opts = true) :
    cliLists opts = .lists (argModifications opts ++ [[cter, cooh], [nter, nh2]]) (argMutations opts) ∧
    cliRequests opts = cliRequests (opts.filter (· ≠ .nt) ++ [.cterO cooh, .nterO nh2]) := by
  have h1 : cliLists opts = .lists (argModifications opts ++ [[cter, cooh], [nter, nh2]]) (argMutations opts) := by
    unfold cliLists
    rw [hnt]
    simp [assembleModifications]
  refine ⟨h1, ?_⟩
  have hneu : argNeutral (opts.filter (· ≠ .nt) ++ [.cterO cooh, .nterO nh2]) = false := by
    unfold argNeutral
    simp
  have hmods : argModifications (opts.filter (· ≠ .nt) ++ [.cterO cooh, .nterO nh2])
      = argModifications opts ++ [[cter, cooh], [nter, nh2]] := by
    rw [argModifications_append, argModifications_filter]; rfl
  have hmuts : argMutations (opts.filter (· ≠ .nt) ++ [.cterO cooh, .nterO nh2]) = argMutations opts := by
    rw [argMutations_append, argMutations_filter]; simp [argMutations]
  have hc : isInfixOf cter cter = true := by decide
  have hn : isInfixOf nter nter = true := by decide
  conv => rhs; unfold cliRequests cliLists
  rw [hneu, hmods, hmuts]
  unfold cliRequests
  rw [h1]
  simp only
  generalize argModifications opts = g
  by_cases hw : zipWidth (g ++ [[cter, cooh], [nter, nh2]]) = 2
  · have : assembleModifications false (g ++ [[cter, cooh], [nter, nh2]]) = some (g ++ [[cter, cooh], [nter, nh2]]) := by
      unfold assembleModifications
      simp only [Bool.false_eq_true, if_false, hw, if_true]
      have hne : (g ++ [[cter, cooh], [nter, nh2]]).isEmpty = false := by simp
      rw [hne]
      simp only [Bool.false_eq_true, if_false, Option.some.injEq]
      have : defaultsFor (firstParts (g ++ [[cter, cooh], [nter, nh2]])) = [] := by
        unfold defaultsFor firstParts
        simp [List.filterMap_append, List.any_append, hc, hn]
      rw [this]; simp
    rw [this]
  · have h2 : assembleModifications false (g ++ [[cter, cooh], [nter, nh2]]) = none :=
      (assemble_error_iff _).2 ⟨by simp, hw⟩
    rw [h2]
    simp only
    unfold constructProc
    cases hp : toPairs (g ++ [[cter, cooh], [nter, nh2]]) with
    | none => rfl
    | some p => exact absurd (toPairs_width _ _ hp (by simp)).1 hw

example : argNeutral [.nterO "X".toList, .nt] = true ∧
    cliLists [.nterO "X".toList, .nt] = .lists [[nter, "X".toList], [cter, cooh], [nter, nh2]] [] := by decide

/-! ## `-cter none` -/

/-- **`-cter none` is a placeholder**: it is handed over as the request `cter:none` (so the
C-terminal residue IS marked, with the text `none`), it keeps the default `cter:C-ter` from being
appended, and `none` is a known target in every force field (never a `NameError`).  That the
repair then adds no atom for it is `C19.Repair.none_adds_nothing`. -/
theorem cter_none_is_placeholder (opts : List Opt) (hnt : argNeutral opts = false)
    (hin : Opt.cterO "none".toList ∈ opts) (mods muts : List (List Str)) (h : cliLists opts = .lists mods muts) :
    (∃ dflt, mods = argModifications opts ++ dflt ∧ [cter, cterDefault] ∉ dflt) ∧
    [cter, "none".toList] ∈ argModifications opts ∧
    ∀ lib : Lib, ∀ k : Kind, lib.known k "none".toList = true := by
  have hmem : [cter, "none".toList] ∈ argModifications opts := by
    obtain ⟨a, b, rfl⟩ := List.append_of_mem hin
    rw [(arg_lists_in_command_line_order a b _).2.2.1]
    simp
  obtain ⟨_, dflt, hm, _, hd⟩ := requests_order opts mods muts h
  refine ⟨⟨dflt, hm, ?_⟩, hmem, fun lib k => by simp [Lib.known]⟩
  rw [hd hnt]
  intro hc
  have := ((defaultsFor_spec _).1.1 hc) cter (by
    unfold firstParts
    exact List.mem_filterMap.2 ⟨_, hmem, rfl⟩)
  revert this; decide

example : cliLists [.cterO "none".toList] = .lists [[cter, "none".toList], [nter, nterDefault]] [] := by decide

/-! ## the constructor -/

/-- entries with exactly two parts are what the constructor accepts; on those the general assembly
is the pair-level `cliModifications` of `VermouthModel/C19.lean` -/
theorem assemble_pairs (nt : Bool) (given : List (Str × Str)) :
    assembleModifications nt (given.map fun p => [p.1, p.2])
      = some ((cliModifications nt given).map fun p => [p.1, p.2]) := by
  have hw : ∀ l : List (Str × Str), l ≠ [] → zipWidth (l.map fun p => [p.1, p.2]) = 2 := by
    intro l
    induction l with
    | nil => intro h; exact absurd rfl h
    | cons a t ih =>
      intro _
      cases t with
      | nil => simp [zipWidth]
      | cons b t' =>
        have := ih (by simp)
        simp only [List.map_cons, zipWidth, List.length_cons, List.length_nil] at this ⊢
        rw [this]; rfl
  have hf : ∀ l : List (Str × Str), firstParts (l.map fun p => [p.1, p.2]) = l.map Prod.fst := by
    intro l; induction l with
    | nil => rfl
    | cons a t ih => simp only [firstParts, List.map_cons, List.filterMap_cons, List.head?_cons] at ih ⊢; rw [ih]
  have hany : ∀ (pat : Str) (l : List (Str × Str)), (l.map Prod.fst).any (isInfixOf pat) = l.any fun p => isInfixOf pat p.1 := by
    intro pat l; simp [List.any_map, Function.comp_def]
  unfold assembleModifications cliModifications
  have k1 : cooh = "COOH-ter".toList := rfl
  have k2 : nh2 = "NH2-ter".toList := rfl
  have k3 : cterDefault = "C-ter".toList := rfl
  have k4 : nterDefault = "N-ter".toList := rfl
  cases nt with
  | true => simp [k1, k2]
  | false =>
    simp only [Bool.false_eq_true, if_false]
    cases given with
    | nil => simp [defaultsFor, k3, k4]
    | cons a t =>
      simp only [List.map_cons, List.isEmpty_cons, Bool.false_eq_true, if_false]
      have h2 := hw (a :: t) (by simp)
      simp only [List.map_cons] at h2
      rw [if_pos h2]
      have h3 := hf (a :: t)
      simp only [List.map_cons] at h3
      rw [h3]
      unfold defaultsFor
      have e1 := hany cter (a :: t)
      have e2 := hany nter (a :: t)
      simp only [List.map_cons] at e1 e2
      rw [e1, e2]
      by_cases c1 : ((a :: t).any fun p => isInfixOf cter p.1) = true <;>
      by_cases c2 : ((a :: t).any fun p => isInfixOf nter p.1) = true <;>
      simp [c1, c2, k3, k4]

end C19
