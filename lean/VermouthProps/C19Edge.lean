import VermouthProps.C19
/-!
# C19 — legal edge values in request texts

What `parse_residue_spec` / `residue_matches` do with values that are falsy in Python or sit at the
edge of the syntax `[<chain>-][<resname>][[#]<resid>]`: residue number 0, negative numbers, the
empty chain, names containing `#` or digits, surrounding whitespace.  (ASCII only: Python's
`str.isdigit` also accepts non-ASCII digits; strings with such characters never reach the model,
the harness counts them.)
-/
namespace C19

/-! ## residue number 0 and negative numbers -/

/-- **0 is a residue number like any other**: `A-PHE0` asks for number 0 (the text `'0'` is truthy
for `if resid:`), the matcher compares it (`_subdict` uses `!=`, not truthiness), the report prints it. -/
theorem resid_zero_is_a_number :
    parseSpec "A-PHE0".toList = .ok { chain := some "A".toList, resname := some "PHE".toList, resid := some 0, icode := none } ∧
    (∀ r : ResKey, subdict { chain := none, resname := none, resid := some 0, icode := none } r = true ↔ r.resid = some 0) ∧
    formatSpec { chain := some "A".toList, resname := some "PHE".toList, resid := some 0, icode := none } = "A-PHE0".toList := by
  refine ⟨by decide, ?_, by decide⟩
  intro r
  simp [subdict, optAgrees]

theorem stripWs_sub (s : Str) : ∀ x ∈ stripWs s, x ∈ s := by
  intro x hx
  unfold stripWs at hx
  have h1 := List.mem_reverse.1 hx
  have h2 := (List.dropWhile_sublist _).subset h1
  have h3 := List.mem_reverse.1 h2
  exact (List.dropWhile_sublist _).subset h3

/-- Python's `int` gives a negative number only for a text with a minus sign -/
theorem pyInt_nonneg (s : Str) (h : '-' ∉ s) (i : Int) (hi : pyInt s = some i) : 0 ≤ i := by
  unfold pyInt at hi
  split at hi
  · cases hi
  · rename_i c ds hs
    have hc : c ∈ s := stripWs_sub s c (by rw [hs]; simp)
    have hne : c ≠ '-' := fun e => h (e ▸ hc)
    rw [if_neg hne] at hi
    split at hi
    · split at hi
      · cases hi; exact Int.natCast_nonneg _
      · cases hi
    · split at hi
      · cases hi; exact Int.natCast_nonneg _
      · cases hi

theorem assemble_resid_nonneg (chain : Option Str) (name idstr : Str) (h : '-' ∉ idstr) (sp : Spec)
    (hs : assemble chain name idstr = .ok sp) (i : Int) (hi : sp.resid = some i) : 0 ≤ i := by
  unfold assemble at hs
  split at hs
  · cases hs; cases hi
  · split at hs
    · rename_i j hj
      cases hs
      simp only [Option.some.injEq] at hi
      subst hi
      exact pyInt_nonneg idstr h j hj
    · cases hs

/-- **The first `-` is always the chain separator, so a negative number needs a chain.**
A text without `-` never yields a chain or a negative number; whenever a request asks for a
negative residue number, the text before the first `-` was taken as its chain.  Consequently
`PHE-1` means chain `PHE`, number 1, and `PHE#-1` means chain `PHE#`, number 1; residue −1 of any
chain cannot be requested without naming a chain; residue −1 of chain A is `A-PHE#-1` (in `A-PHE-1`
the name is `PHE-` and the number 1). -/
theorem negative_needs_chain (s : Str) (sp : Spec) (h : parseSpec s = .ok sp) :
    ('-' ∉ s → sp.chain = none ∧ ∀ i, sp.resid = some i → 0 ≤ i) ∧
    (∀ i, sp.resid = some i → i < 0 → ∃ c rest, s = c ++ '-' :: rest ∧ '-' ∉ c ∧ sp.chain = some c) := by
  have key : ∀ (chain : Option Str) (res : Str) (sp : Spec), parseRes chain res = .ok sp →
      sp.chain = chain ∧ ('-' ∉ res → ∀ i, sp.resid = some i → 0 ≤ i) := by
    intro chain res sp hp
    rcases parseRes_cases chain res with ⟨name, idstr, e, _, hq⟩ | ⟨_, name, idstr, e, _, _, hq⟩
    all_goals
      rw [hq] at hp
      refine ⟨?_, ?_⟩
      · unfold assemble at hp
        split at hp
        · cases hp; rfl
        · split at hp
          · cases hp; rfl
          · cases hp
      · intro hd i hi
        exact assemble_resid_nonneg chain name idstr (fun hc => hd (by rw [e]; simp [hc])) sp hp i hi
  unfold parseSpec at h
  cases hs : splitFirst '-' s with
  | none =>
    rw [hs] at h
    have hd := splitFirst_eq_none _ _ hs
    obtain ⟨k1, k2⟩ := key none s sp h
    exact ⟨fun _ => ⟨k1, k2 hd⟩, fun i hi hneg => absurd (k2 hd i hi) (by omega)⟩
  | some p =>
    obtain ⟨c, r⟩ := p
    rw [hs] at h
    obtain ⟨e, hc⟩ := splitFirst_some _ _ _ _ hs
    obtain ⟨k1, _⟩ := key (some c) r sp h
    exact ⟨fun hd => absurd (by rw [e]; simp) hd, fun _ _ _ => ⟨c, r, e, hc, k1⟩⟩

example :
    parseSpec "PHE-1".toList = .ok { chain := some "PHE".toList, resname := none, resid := some 1, icode := none } ∧
    parseSpec "PHE#-1".toList = .ok { chain := some "PHE#".toList, resname := none, resid := some 1, icode := none } ∧
    parseSpec "A-PHE#-1".toList = .ok { chain := some "A".toList, resname := some "PHE".toList, resid := some (-1), icode := none } ∧
    parseSpec "A-PHE-1".toList = .ok { chain := some "A".toList, resname := some "PHE-".toList, resid := some 1, icode := none } ∧
    parseSpec "-PHE#-1".toList = .ok { chain := some [], resname := some "PHE".toList, resid := some (-1), icode := none } ∧
    parseSpec "A-#-0".toList = .ok { chain := some "A".toList, resname := none, resid := some 0, icode := none } := by
  decide

/-! ## the empty chain -/

/-- **An empty chain is a constraint, a missing chain is none**: `-ALA5` (chain `''`) matches only
residues whose chain IS the empty string, `ALA5` matches residues of every chain and residues
without chain attribute.  The report cannot tell them apart: `_format_resname` drops an empty chain,
so an unmatched `-ALA5` is reported as `ALA5`. -/
theorem empty_chain_differs_from_missing :
    parseSpec "-ALA5".toList = .ok { chain := some [], resname := some "ALA".toList, resid := some 5, icode := none } ∧
    parseSpec "ALA5".toList = .ok { chain := none, resname := some "ALA".toList, resid := some 5, icode := none } ∧
    (∀ s : Spec, ∀ r : ResKey, subdict { s with chain := some [] } r = true → r.chain = some []) ∧
    (∀ s : Spec, ∀ r : ResKey, subdict { s with chain := none } r = subdict { s with chain := none } { r with chain := none }) ∧
    (∀ s : Spec, formatSpec { s with chain := some [] } = formatSpec { s with chain := none }) := by
  refine ⟨by decide, by decide, ?_, ?_, ?_⟩
  · intro s r h
    simp only [subdict, optAgrees, Bool.and_eq_true, decide_eq_true_eq] at h
    exact h.1.1.1
  · intro s r; simp [subdict, optAgrees]
  · intro s; simp [formatSpec]

/-! ## whitespace, `#` and digits in names -/

theorem digitSuffix_append_nondigit (l : Str) (c : Char) (h : isDigit c = false) :
    digitSuffix (l ++ [c]) = [] ∧ beforeDigits (l ++ [c]) = l ++ [c] := by
  unfold digitSuffix beforeDigits
  simp [List.reverse_append, List.takeWhile_cons, List.dropWhile_cons, h]

/-- **Whitespace is never stripped from a request text** (only Python's `int` ignores it around
the number after `#`): a text ending in a blank has no number, the blank belongs to the name; a
leading blank belongs to the chain or the name.  Such a request names no residue of an ordinary
structure and is reported. -/
theorem whitespace_is_kept (name : Str) (h1 : '-' ∉ name) (h2 : '#' ∉ name) :
    parseSpec (name ++ [' ']) = .ok { chain := none, resname := some (name ++ [' ']), resid := none, icode := none } := by
  have hd : '-' ∉ name ++ [' '] := by simp [h1]
  have hh : '#' ∉ name ++ [' '] := by simp [h2]
  unfold parseSpec
  rw [splitFirst_none _ _ hd]
  simp only
  unfold parseRes
  rw [splitLast_none _ _ hh]
  simp only
  obtain ⟨e1, e2⟩ := digitSuffix_append_nondigit name ' ' (by decide)
  rw [e1, e2]
  simp [assemble, nonEmpty]

example :
    parseSpec " ALA5".toList = .ok { chain := none, resname := some " ALA".toList, resid := some 5, icode := none } ∧
    parseSpec " A-ALA5".toList = .ok { chain := some " A".toList, resname := some "ALA".toList, resid := some 5, icode := none } ∧
    parseSpec "ALA# 5 ".toList = .ok { chain := none, resname := some "ALA".toList, resid := some 5, icode := none } ∧
    parseSpec "ALA 5".toList = .ok { chain := none, resname := some "ALA ".toList, resid := some 5, icode := none } := by
  decide

/-- **`#` and digits in a residue name**: only the LAST `#` separates name and number, so a name
containing `#` must be followed by one more `#` (`X#1#5`, `X#1#`); without it its tail is read as
the number (`X#1` = name `X`, number 1), like the digits of `PO4` (`C19.parse_PO4`). -/
theorem hash_in_name (name ds : Str) (hne : ds ≠ []) (hd : ∀ c ∈ ds, isDigit c = true) (hdash : '-' ∉ name) :
    parseSpec (name ++ '#' :: ds) = .ok { chain := none, resname := nonEmpty name, resid := some (digitsVal ds : Int), icode := none } ∧
    parseSpec (name ++ ['#']) = .ok { chain := none, resname := nonEmpty name, resid := none, icode := none } := by
  have hdig : ∀ c, isDigit c = true → c ≠ '-' ∧ c ≠ '#' := by
    intro c hc; constructor <;> (intro e; subst e; revert hc; decide)
  have h1 : '-' ∉ name ++ '#' :: ds := by
    simp only [List.mem_append, List.mem_cons, not_or]
    exact ⟨hdash, by decide, fun hc => (hdig _ (hd _ hc)).1 rfl⟩
  have h2 : '#' ∉ ds := fun hc => (hdig _ (hd _ hc)).2 rfl
  constructor
  · unfold parseSpec
    rw [splitFirst_none _ _ h1]
    simp only
    unfold parseRes
    rw [splitLast_append _ _ _ h2]
    simp only
    exact assemble_digits none name ds hne hd
  · have h3 : '-' ∉ name ++ ['#'] := by simp [hdash]
    unfold parseSpec
    rw [splitFirst_none _ _ h3]
    simp only
    unfold parseRes
    have := splitLast_append '#' name [] (by simp)
    rw [this]
    simp [assemble]

example :
    parseSpec "X#1#5".toList = .ok { chain := none, resname := some "X#1".toList, resid := some 5, icode := none } ∧
    parseSpec "X#1".toList = .ok { chain := none, resname := some "X".toList, resid := some 1, icode := none } ∧
    parseSpec "13DB#".toList = .ok { chain := none, resname := some "13DB".toList, resid := none, icode := none } ∧
    parseSpec "1#".toList = .ok { chain := none, resname := some "1".toList, resid := none, icode := none } ∧
    parseSpec "1".toList = .ok { chain := none, resname := none, resid := some 1, icode := none } := by
  decide

end C19
