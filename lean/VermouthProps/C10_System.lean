import VermouthModel.C10_System
import VermouthProps.C10
import VermouthProps.C10_Search
/-!
# C10 — `MakeBonds.run_system`: every mode combination, missing attributes, order, `distance`

* `run_system_outcome`, `run_system_all_modes` : the only early return is the system without
  molecules; for all four `(allow_name, allow_dist)` combinations - both False included - the
  system goes through `make_bonds` and is re-split; the only exception is KeyError('position'),
  raised iff distance mode is on and an atom with a known radius has no coordinates.
* `partition_all_modes` : the partition clauses of the property for EVERY combination.
* `none_mode_resplits` : with both modes off the bonds are exactly the input bonds and the
  molecules are exactly the connected components of the residue graph over them.
* `hasDupName_iff`, `unnamed_atoms_never_name_bonded`, `no_resname_no_name_bond` : atoms lacking
  attributes.
* `ordered_mols_are_the_molecules`, `ordered_mols_by_smallest_atom`,
  `ordered_mols_atoms_ascending` : the order in which molecules (and their atoms) are returned.
* `distance_attr_of_new_bond`, `distance_attr_kept` : the `distance` edge attribute.
-/
namespace C10

/-! ## the early return and the one exception -/

theorem run_system_outcome (sp : SearchSpec) (ms : List InMol) (ff : FF) (radii : List (String × Nat))
    (an ad : Bool) (p q : Nat) :
    (ms = [] → runSystem sp ms ff radii an ad p q = Outcome.unchanged)
    ∧ (ms ≠ [] → needsMissingPosition (sysOf ms ff radii an ad p q) = true →
        runSystem sp ms ff radii an ad p q = Outcome.keyErrorPosition)
    ∧ (ms ≠ [] → needsMissingPosition (sysOf ms ff radii an ad p q) = false →
        runSystem sp ms ff radii an ad p q
          = Outcome.ok (sysOf ms ff radii an ad p q) (runX sp (sysOf ms ff radii an ad p q))) := by
  refine ⟨?_, ?_, ?_⟩
  · intro h; subst h; rfl
  · intro h hn
    cases ms with
    | nil => exact absurd rfl h
    | cons m ms => simp [runSystem, hn]
  · intro h hn
    cases ms with
    | nil => exact absurd rfl h
    | cons m ms => simp [runSystem, hn]

/-- KeyError('position') needs distance mode -/
theorem no_position_error_without_distance (S : Sys) (h : S.allowDist = false) :
    needsMissingPosition S = false := by
  unfold needsMissingPosition; simp [h]

/-- all atoms have coordinates -/
def AllPositions (ms : List InMol) : Prop := ∀ m ∈ ms, ∀ a ∈ m.atoms, a.hasPos = true

instance (ms : List InMol) : Decidable (AllPositions ms) := by unfold AllPositions; infer_instance

theorem unionFrom_hasPos (ms : List InMol) (h : AllPositions ms) : ∀ (i off : Nat),
    ∀ a ∈ (unionFrom i off ms).1, a.hasPos = true := by
  induction ms with
  | nil => intro i off a ha; simp [unionFrom] at ha
  | cons m ms ih =>
    intro i off a ha
    simp only [unionFrom, List.mem_append, List.mem_map] at ha
    rcases ha with ⟨b, hb, rfl⟩ | ha
    · exact h m List.mem_cons_self b hb
    · exact ih (fun m' hm' => h m' (List.mem_cons_of_mem _ hm')) _ _ a ha

theorem needsMissingPosition_false (S : Sys) (h : ∀ a ∈ S.atoms, a.hasPos = true) :
    needsMissingPosition S = false := by
  unfold needsMissingPosition
  rw [Bool.and_eq_false_iff]
  right
  rw [List.any_eq_false]
  intro i hi
  have : (atomAt S.atoms i).hasPos = true := h _ (atomAt_mem (List.mem_range.mp hi))
  simp [this]

/-- **Every mode combination goes through `make_bonds`**: for a system with at least one molecule
whose atoms all have coordinates, `run_system` returns the molecules of `run` - in particular with
both modes off (no early return). -/
theorem run_system_all_modes (ms : List InMol) (hne : ms ≠ []) (hpos : AllPositions ms)
    (ff : FF) (radii : List (String × Nat)) (an ad : Bool) (p q : Nat) (hq : 0 < q) :
    runSystem searchSpec ms ff radii an ad p q
      = Outcome.ok (sysOf ms ff radii an ad p q) (run (sysOf ms ff radii an ad p q)) := by
  have h := (run_system_outcome searchSpec ms ff radii an ad p q).2.2 hne
    (needsMissingPosition_false _ (unionFrom_hasPos ms hpos 0 0))
  rw [h, extracted_search_is_model _ hq]

/-! ## the partition clauses for every mode combination -/

/-- the system with the modes replaced -/
def Sys.withModes (S : Sys) (an ad : Bool) : Sys := { S with allowName := an, allowDist := ad }

/-- **`split_partition`, `residue_whole`, `split_connected`, `no_fusion_across_molecules` hold for
all four `(allow_name, allow_dist)`** - the property quantifies over the mode combination. -/
theorem partition_all_modes (S : Sys) (an ad : Bool) :
    let T := S.withModes an ad
    (run T).mols.flatten.Perm (List.range T.atoms.length)
    ∧ (∀ u v, SameRes T u v → SameMol T u v)
    ∧ (∀ u v, SameMol T u v → Conn (SameRes T) (finalEdges T) u v)
    ∧ (∀ u v, u < T.atoms.length → v < T.atoms.length → (atomAt T.atoms u).mol ≠ (atomAt T.atoms v).mol →
        serial T.atoms u ≠ serial T.atoms v ∧ ¬ SameRes T u v ∧ (u, v) ∉ (run T).nameE ∧ (u, v) ∉ (run T).NE
          ∧ ((isH (atomAt T.atoms u) = true ∨ isH (atomAt T.atoms v) = true) → (u, v) ∉ (run T).distE)) := by
  intro T
  exact ⟨split_partition T, residue_whole T, split_connected T,
    fun u v hu hv hm => no_fusion_across_molecules T u v hu hv hm⟩

/-- **Both modes off**: no bond is added, and the system is still re-split: two atoms are in one
returned molecule iff they are linked through residues and INPUT bonds. -/
theorem none_mode_resplits (S : Sys) (hn : S.allowName = false) (hd : S.allowDist = false) :
    finalEdges S = S.pre
    ∧ (∀ u v, SameMol S u v → Conn (SameRes S) S.pre u v)
    ∧ (WF S → ∀ u v, u < S.atoms.length → (SameMol S u v ↔ Conn (SameRes S) S.pre u v)) := by
  have he : finalEdges S = S.pre := by
    unfold finalEdges allEdges
    rw [(no_name_when_off S hn).1, no_dist_when_off S hd]
    simp
  refine ⟨he, ?_, ?_⟩
  · intro u v h
    have := split_connected S u v h
    rwa [he] at this
  · intro hwf u v hu
    have := split_components_iff S hwf u v hu
    rwa [he] at this

-- non-vacuity: one input molecule, two residues, no bond between them, both modes off: two molecules
example :
    let a (r : Int) (x : Int) : Atom :=
      { mol := 0, chain := some "A", resid := some r, resname := some "GLY", icode := none, name := some "CA",
        element := some "C", x := x, y := 0, z := 0 }
    let S : Sys := { atoms := [a 1 0, a 2 1000], pre := [], ff := [], radii := [("C", 170)],
                     allowName := false, allowDist := false, p := 6, q := 5 }
    S.allowName = false ∧ S.allowDist = false ∧ WF S ∧ (run S).mols = [[0], [1]] := by decide

/-! ## atoms lacking attributes -/

/-- a residue is ambiguous iff two of its atoms carry the same atom name, or two carry the value
`None` as atom name; atoms WITHOUT the attribute never make it ambiguous. -/
theorem hasDupName_iff (atoms : List Atom) (ms : List Nat) :
    hasDupName atoms ms = true ↔
      ∃ i ∈ ms, ∃ j ∈ ms, i ≠ j ∧
        ((∃ nm, (atomAt atoms i).name = some nm ∧ (atomAt atoms j).name = some nm)
          ∨ ((atomAt atoms i).nameNone = true ∧ (atomAt atoms j).nameNone = true)) := by
  unfold hasDupName
  simp only [List.any_eq_true, Bool.and_eq_true, Bool.or_eq_true, bne_iff_ne, ne_eq, beq_iff_eq]
  constructor
  · rintro ⟨i, hi, j, hj, hne, h⟩
    refine ⟨i, hi, j, hj, hne, ?_⟩
    rcases h with ⟨h1, h2⟩ | h
    · left
      obtain ⟨nm, hnm⟩ := Option.isSome_iff_exists.mp h1
      exact ⟨nm, hnm, by rw [← h2, hnm]⟩
    · exact Or.inr h
  · rintro ⟨i, hi, j, hj, hne, h⟩
    refine ⟨i, hi, j, hj, hne, ?_⟩
    rcases h with ⟨nm, h1, h2⟩ | h
    · left; rw [h1, h2]; simp
    · exact Or.inr h

/-- an atom without an atom name is in no name bond and in no block non-bond -/
theorem unnamed_atoms_never_name_bonded (S : Sys) (u v : Nat)
    (h : (atomAt S.atoms u).name = none ∨ (atomAt S.atoms v).name = none) :
    (u, v) ∉ (run S).nameE ∧ (u, v) ∉ (run S).NE := by
  constructor
  · intro hm
    obtain ⟨_, _, _, _, _, _, _, n1, n2, _⟩ := (name_bonds_exact S u v).mp hm
    rcases h with h | h
    · exact n1 h
    · exact n2 h
  · intro hm
    obtain ⟨_, _, _, _, _, _, _, n1, n2, _⟩ := (nonbonds_exact S u v).mp hm
    rcases h with h | h
    · exact n1 h
    · exact n2 h

/-- a residue without a residue name (or with one the force field does not know) gets nothing from
the blocks -/
theorem no_resname_no_name_bond (S : Sys) (u v : Nat)
    (h : lookupBlock S.ff (keyAt S.atoms u).resname = none) :
    (u, v) ∉ (run S).nameE ∧ (u, v) ∉ (run S).NE := by
  constructor
  · intro hm
    obtain ⟨_, _, b, hb, _⟩ := (name_bonds_exact S u v).mp hm
    rw [h] at hb; cases hb
  · intro hm
    obtain ⟨_, _, b, hb, _⟩ := (nonbonds_exact S u v).mp hm
    rw [h] at hb; cases hb

example : lookupBlock [("GLY", { names := ["CA"], edges := [] })] none = none := rfl

-- legal falsy values are values: chain '' / None, insertion code None / '' / ' ', resid 1 / 0 / None give
-- six different residues (six serials); an attribute that is missing and one that is None are the same
example :
    let a (ch ic : Option String) (ri : Option Int) : Atom :=
      { mol := 0, chain := ch, resid := ri, resname := some "GLY", icode := ic, name := none, element := some "C",
        x := 0, y := 0, z := 0 }
    let atoms := [a (some "") none (some 1), a none none (some 1), a (some "") (some "") (some 1),
                  a (some "") (some " ") (some 1), a (some "") none (some 0), a (some "") none none,
                  a (some "") none (some 1)]
    (List.range 7).map (serial atoms) = [0, 1, 2, 3, 4, 5, 0] := by decide

/-! ## the order of the returned molecules -/

theorem molOf_mem {mols : List (List Nat)} {i : Nat} (h : (molOf mols i).contains i = true) :
    molOf mols i ∈ mols := by
  unfold molOf at h ⊢
  cases hf : mols.find? (·.contains i) with
  | none => rw [hf] at h; simp at h
  | some m => exact List.mem_of_find?_eq_some hf

theorem molOf_eq {mols : List (List Nat)} (hnd : mols.flatten.Nodup) {m : List Nat} (hm : m ∈ mols)
    {i : Nat} (hi : i ∈ m) : molOf mols i = m := by
  unfold molOf
  cases hf : mols.find? (·.contains i) with
  | none =>
    rw [List.find?_eq_none] at hf
    have := hf m hm
    simp [hi] at this
  | some m' =>
    have h1 : m' ∈ mols := List.mem_of_find?_eq_some hf
    have h2 : i ∈ m' := by simpa using List.find?_some hf
    simp only [Option.getD_some]
    exact flatten_nodup_unique mols hnd m' h1 m hm i h2 hi

theorem isFirstOf_iff {m : List Nat} {i : Nat} : isFirstOf m i = true ↔ ∀ j, j < i → j ∉ m := by
  unfold isFirstOf
  simp [List.all_eq_true]

theorem exists_first (m : List Nat) : ∀ (i : Nat), i ∈ m → ∃ j, j ∈ m ∧ j ≤ i ∧ isFirstOf m j = true := by
  intro i
  induction i using Nat.strongRecOn with
  | _ i ih =>
    intro hi
    by_cases hf : isFirstOf m i = true
    · exact ⟨i, hi, Nat.le_refl _, hf⟩
    · rw [isFirstOf_iff] at hf
      have : ∃ j, j < i ∧ j ∈ m := by
        apply Classical.byContradiction
        intro hno
        apply hf
        intro j hj hjm
        exact hno ⟨j, hj, hjm⟩
      obtain ⟨j, hj, hjm⟩ := this
      obtain ⟨k, hk, hkj, hkf⟩ := ih j hj hjm
      exact ⟨k, hk, by omega, hkf⟩

theorem mem_orderedMols {n : Nat} {mols : List (List Nat)} {l : List Nat} :
    l ∈ orderedMols n mols ↔
      ∃ i, i < n ∧ (molOf mols i).contains i = true ∧ isFirstOf (molOf mols i) i = true
        ∧ l = (List.range n).filter (molOf mols i).contains := by
  unfold orderedMols
  rw [List.mem_filterMap]
  constructor
  · rintro ⟨i, hi, h⟩
    refine ⟨i, List.mem_range.mp hi, ?_⟩
    simp only at h
    split at h
    · rename_i hc
      simp only [Bool.and_eq_true] at hc
      exact ⟨hc.1, hc.2, by simpa using h.symm⟩
    · cases h
  · rintro ⟨i, hi, h1, h2, rfl⟩
    refine ⟨i, List.mem_range.mpr hi, ?_⟩
    simp only [h1, h2, Bool.and_self, if_true]

/-- **The returned list consists of exactly the molecules** (each with its atoms in ascending node
key): nothing is dropped, nothing is listed twice. -/
theorem ordered_mols_are_the_molecules (S : Sys) (l : List Nat) :
    l ∈ orderedMols S.atoms.length (run S).mols ↔
      ∃ m ∈ (run S).mols, m ≠ [] ∧ l = (List.range S.atoms.length).filter m.contains := by
  obtain ⟨hmem, hnd⟩ := keeps_atoms S
  rw [mem_orderedMols]
  constructor
  · rintro ⟨i, _, h1, _, rfl⟩
    refine ⟨molOf (run S).mols i, molOf_mem h1, ?_, rfl⟩
    intro he; rw [he] at h1; simp at h1
  · rintro ⟨m, hm, hne, rfl⟩
    obtain ⟨x, hx⟩ := List.exists_mem_of_ne_nil m hne
    obtain ⟨j, hj, _, hjf⟩ := exists_first m x hx
    have hjn : j < S.atoms.length := (hmem j).mp (List.mem_flatten.mpr ⟨m, hm, hj⟩)
    have he := molOf_eq hnd hm hj
    exact ⟨j, hjn, by rw [he]; simpa using hj, by rw [he]; exact hjf, by rw [he]⟩

/-- **Molecules are returned in the order of their smallest atom**: if `a` comes before `b`, then
`a` has an atom that is smaller than every atom of `b`. -/
theorem ordered_mols_by_smallest_atom (n : Nat) (mols : List (List Nat)) :
    (orderedMols n mols).Pairwise (fun a b => ∃ i ∈ a, ∀ y ∈ b, i < y) := by
  unfold orderedMols
  rw [List.pairwise_filterMap]
  refine List.Pairwise.imp_of_mem ?_ (List.pairwise_lt_range (n := n))
  intro i j hi _ hij a ha b hb
  have hin : i < n := List.mem_range.mp hi
  simp only at ha hb
  split at ha
  · rename_i hc
    simp only [Bool.and_eq_true] at hc
    split at hb
    · rename_i hc'
      simp only [Bool.and_eq_true] at hc'
      cases ha; cases hb
      refine ⟨i, ?_, ?_⟩
      · simp only [List.mem_filter, List.mem_range]
        exact ⟨by omega, hc.1⟩
      · intro y hy
        simp only [List.mem_filter, List.mem_range] at hy
        have hfirst := isFirstOf_iff.mp hc'.2
        apply Classical.byContradiction
        intro hle
        have hyj : y < j ∨ y = j := by omega
        rcases hyj with h | h
        · exact hfirst y h (by simpa using hy.2)
        · omega
    · cases hb
  · cases ha

/-- inside a molecule the model lists the atoms in ascending node key (the real order is the iteration
order of a CPython set and is compared as a set) -/
theorem ordered_mols_atoms_ascending (n : Nat) (mols : List (List Nat)) :
    ∀ l ∈ orderedMols n mols, l.Pairwise (· < ·) := by
  intro l hl
  obtain ⟨i, _, _, _, rfl⟩ := mem_orderedMols.mp hl
  exact List.Pairwise.sublist List.filter_sublist List.pairwise_lt_range

example : orderedMols 6 [[4, 5], [3, 1], [0, 2]] = [[0, 2], [1, 3], [4, 5]] := by decide

/-! ## the `distance` attribute -/

/-- **Every bond made by name or by distance carries the distance of its two atoms**: the float
whose square is the exact squared distance on the grid (nan if an atom has no coordinates, which
only a name bond can have). -/
theorem distance_attr_of_new_bond (S : Sys) (pre : Nat → Nat → DAttr) (u v : Nat)
    (h : has (run S).nameE u v = true ∨ has (run S).distE u v = true) :
    distanceAttr S (run S) pre u v = geomAttr S u v
    ∧ ((atomAt S.atoms u).hasPos = true → (atomAt S.atoms v).hasPos = true →
        distanceAttr S (run S) pre u v = DAttr.sq (dist2 (atomAt S.atoms u) (atomAt S.atoms v))) := by
  have e : distanceAttr S (run S) pre u v = geomAttr S u v := by
    unfold distanceAttr
    rcases h with h | h <;> simp [h]
  refine ⟨e, fun h1 h2 => ?_⟩
  rw [e]; unfold geomAttr; simp [h1, h2]

/-- an input bond that is not re-made by name keeps whatever `distance` it had -/
theorem distance_attr_kept (S : Sys) (pre : Nat → Nat → DAttr) (u v : Nat)
    (h1 : has (run S).nameE u v = false) (h2 : has (run S).distE u v = false) :
    distanceAttr S (run S) pre u v = pre u v := by
  unfold distanceAttr; simp [h1, h2]

end C10
