import VermouthProofs.C05_Eff
/-!
# C05 — effector mechanics, the run with error kinds, the pairwise order test, the table API

Model: `VermouthModel/C05_Run.lean`, sections C (effectors), D (`applyLinksX`), E (`pairwiseVerdict`,
`matchLinkV`) and F (table API).  Proofs: `VermouthProofs/C05_Eff.lean`.

Specification helpers defined next to the proofs:
* `Verdict.toOpt`      the outcome of the sequential loop a verdict names (`yes ↦ some true`, `no ↦ some false`,
  `raises ↦ none`, `either ↦ none`)
* `witPos`, `witMap`, `eitherTable`, `eitherTable1`, `eitherTable2`   concrete witnesses

All theorems are unbounded (any molecule, placement, key list, table); hypotheses are explicit.
-/
namespace C05.Top
open Iso C05

/-! ### concrete instances used by the non-vacuity examples -/

/-- a path of three atoms in the residues 1, 2, 3 -/
def effMol : Mol :=
  { nodes := [⟨10, [("resid", .int 1)], []⟩, ⟨11, [("resid", .int 2)], []⟩, ⟨12, [("resid", .int 3)], []⟩],
    edges := [(10, 11), (11, 12)] }

/-- one bond between an atom of order 0 and an atom of order +1, carrying a bond whose second
parameter is the distance between the two atoms -/
def effLink : Link :=
  { nodes := [⟨0, [("order", .plain (.int 0))], none⟩, ⟨1, [("order", .plain (.int 1))], none⟩],
    edges := [(0, 1)],
    inters := [("bonds", ⟨[0, 1], [.lit "1", .eff "dist" [0, 1] (some ".3f")], []⟩)] }

/-- the same link with an effector of a class without `_apply` -/
def effLinkNoApply : Link :=
  { effLink with inters := [("bonds", ⟨[0, 1], [.eff "base" [0, 1] none], []⟩)] }

/-- a link whose second atom has the invalid order `True` -/
def effLinkBadOrder : Link :=
  { nodes := [⟨0, [("order", .plain (.int 0))], none⟩, ⟨1, [("order", .plain (.bool true))], none⟩],
    edges := [(0, 1)] }

/-- three ordered atoms: the orders 0 and 2 never fit on neighbouring residues, the order `True` is
invalid, so whether `match_link` rejects the placement or raises depends on the dictionary order -/
def effLinkEither : Link :=
  { nodes := [⟨0, [("order", .plain (.int 0))], none⟩, ⟨1, [("order", .plain (.int 2))], none⟩,
              ⟨2, [("order", .plain (.bool true))], none⟩],
    edges := [(0, 1), (1, 2)] }

/-- every atom on the lattice -/
def effPos : PosFn := fun a =>
  if a = 10 then some (.lattice 0 0 0) else if a = 11 then some (.lattice 3 4 0)
  else if a = 12 then some (.lattice 3 4 12) else none

/-- atom 12 has no `position` -/
def effPosGap : PosFn := fun a => if a = 12 then some .missing else effPos a

/-- the exception of a run, if any (for the examples: molecules have no decidable equality) -/
def errOf (r : RunResult) : Option RunErr :=
  match r.out with
  | .error e => some e
  | .ok _ => none

theorem errOf_eq (r : RunResult) (e : RunErr) : errOf r = some e ↔ r.out = .error e := by
  unfold errOf
  cases r.out <;> simp

/-! ### effector mechanics -/

/-- The parameters an effector computes depend only on the positions of the atoms the placement
assigns to the effector's names: changing the position of any other atom changes nothing. -/
theorem effector_reads_placement_atoms (pos pos' : PosFn) (mp : Map) (name : String) (keys : List Int)
    (fmt : Option String) (h : ∀ k ∈ keys, ∀ a, mp.lookup k = some a → pos a = pos' a) :
    effCall pos mp name keys fmt = effCall pos' mp name keys fmt :=
  C05.effector_reads_placement_atoms pos pos' mp name keys fmt h

/-- `effPos` and `effPosGap` differ (on atom 12) but agree on the atoms the placement gives to 0 and 1 -/
example : (∀ k ∈ [0, 1], ∀ a, ([(0, 10), (1, 11)] : Map).lookup k = some a → effPos a = effPosGap a)
    ∧ effPos 12 ≠ effPosGap 12 := by
  refine ⟨?_, by decide⟩
  intro k hk a ha
  simp only [List.mem_cons, List.not_mem_nil, or_false] at hk
  rcases hk with rfl | rfl
  · cases ha; decide
  · cases ha; decide

/-- ... and only on what the placement says about the effector's own names. -/
theorem effector_reads_placement_names (pos : PosFn) (mp mp' : Map) (name : String) (keys : List Int)
    (fmt : Option String) (h : ∀ k ∈ keys, mp.lookup k = mp'.lookup k) :
    effCall pos mp name keys fmt = effCall pos mp' name keys fmt :=
  C05.effector_reads_placement_names pos mp mp' name keys fmt h

example : (∀ k ∈ [0, 1], ([(0, 10), (1, 11)] : Map).lookup k = ([(1, 11), (2, 12), (0, 10)] : Map).lookup k)
    ∧ ([(0, 10), (1, 11)] : Map) ≠ [(1, 11), (2, 12), (0, 10)] := by decide

/-- The error outcomes of `effector(molecule, match)`, exactly: KeyError when a name of the effector is
not in the placement, or (all names placed and the class implements `_apply`) when one of the atoms
read is not a node or has no position; NotImplementedError when all names are placed and the class
does not implement `_apply`. -/
theorem effCall_errors (pos : PosFn) (mp : Map) (name : String) (keys : List Int) (fmt : Option String) :
    (effCall pos mp name keys fmt = .error .keyError ↔
      (∃ k ∈ keys, mp.lookup k = none) ∨
      ((∀ k ∈ keys, (mp.lookup k).isSome) ∧ (nKeysAsked name).isSome ∧
        ∃ k ∈ keys, posOf pos (Map.toFun mp k) = none)) ∧
    (effCall pos mp name keys fmt = .error .notImplemented ↔
      (∀ k ∈ keys, (mp.lookup k).isSome) ∧ nKeysAsked name = none) :=
  C05.effCall_errors pos mp name keys fmt

/-- a call succeeds exactly when every name is placed, the class implements `_apply` and every atom
read has a position -/
theorem effCall_ok_iff (pos : PosFn) (mp : Map) (name : String) (keys : List Int) (fmt : Option String) :
    (∃ v, effCall pos mp name keys fmt = .ok v) ↔
      (∀ k ∈ keys, (mp.lookup k).isSome) ∧ (nKeysAsked name).isSome ∧
        ∀ k ∈ keys, (posOf pos (Map.toFun mp k)).isSome :=
  C05.effCall_ok_iff pos mp name keys fmt

example : effCall effPos [(0, 10)] "dist" [0, 1] none = .error .keyError := by decide
example : effCall effPosGap [(0, 11), (1, 12)] "dist" [0, 1] none = .error .keyError := by decide
example : effCall effPos [(0, 10), (1, 11)] "base" [0, 1] none = .error .notImplemented := by decide
example : effCall effPos [(0, 10)] "base" [0, 1] none = .error .keyError := by decide
example : effCall effPos [(0, 10), (1, 11), (2, 12)] "angle" [0, 1, 2] none
    = .ok (.sym "angle" [10, 11, 12] none) := by decide

/-- `__init__` raises ValueError exactly when the class fixes a number of keys and another number is
given; otherwise the effector holds its class, keys and format. -/
theorem effNew_rejects (name : String) (keys : List Int) (fmt : Option String) :
    (effNew name keys fmt = none ↔ ∃ n, nKeysAsked name = some n ∧ keys.length ≠ n) ∧
    (∀ p, effNew name keys fmt = some p → p = .eff name keys fmt) :=
  C05.effNew_rejects name keys fmt

example : effNew "angle" [0, 1] none = none := by decide
example : effNew "angle" [0, 1, 2] (some ".2f") = some (.eff "angle" [0, 1, 2] (some ".2f")) := by decide
example : effNew "base" [0, 1, 2, 3, 4] none = some (.eff "base" [0, 1, 2, 3, 4] none) := by decide

/-- `__eq__`: two effectors are equal exactly when they have the same class, the same keys in the same
order and the same format; an effector never equals a literal parameter. -/
theorem effEq_iff (a b : Param) :
    effEq a b = true ↔ ∃ n k f, a = .eff n k f ∧ b = .eff n k f :=
  C05.effEq_iff a b

example : effEq (.eff "dist" [0, 1] none) (.eff "dist" [1, 0] none) = false := by decide
example : effEq (.eff "dist" [0, 1] none) (.lit "dist") = false := by decide
example : effEq (.eff "dist" [0, 1] none) (.eff "dist" [0, 1] none) = true := by decide

/-- `ParamDistance` on two lattice points: the exact squared distance, tagged with the format. -/
theorem dist_exact (pos : PosFn) (mp : Map) (k1 k2 a1 a2 : Int) (x1 y1 z1 x2 y2 z2 : Int)
    (fmt : Option String)
    (h1 : mp.lookup k1 = some a1) (h2 : mp.lookup k2 = some a2)
    (p1 : pos a1 = some (.lattice x1 y1 z1)) (p2 : pos a2 = some (.lattice x2 y2 z2)) :
    effCall pos mp "dist" [k1, k2] fmt =
      .ok (.dist2 ((x2 - x1) * (x2 - x1) + (y2 - y1) * (y2 - y1) + (z2 - z1) * (z2 - z1)) fmt) :=
  C05.dist_exact pos mp k1 k2 a1 a2 x1 y1 z1 x2 y2 z2 fmt h1 h2 p1 p2

/-- the distance does not depend on the order of its two keys -/
theorem dist_symm (pos : PosFn) (mp : Map) (k1 k2 a1 a2 : Int) (x1 y1 z1 x2 y2 z2 : Int)
    (fmt : Option String)
    (h1 : mp.lookup k1 = some a1) (h2 : mp.lookup k2 = some a2)
    (p1 : pos a1 = some (.lattice x1 y1 z1)) (p2 : pos a2 = some (.lattice x2 y2 z2)) :
    effCall pos mp "dist" [k2, k1] fmt = effCall pos mp "dist" [k1, k2] fmt :=
  C05.dist_symm pos mp k1 k2 a1 a2 x1 y1 z1 x2 y2 z2 fmt h1 h2 p1 p2

/-- a squared distance is not negative -/
theorem dist_nonneg (x1 y1 z1 x2 y2 z2 : Int) :
    0 ≤ (x2 - x1) * (x2 - x1) + (y2 - y1) * (y2 - y1) + (z2 - z1) * (z2 - z1) :=
  C05.dist_nonneg x1 y1 z1 x2 y2 z2

example : ([(0, 10), (1, 11)] : Map).lookup 0 = some 10 ∧ ([(0, 10), (1, 11)] : Map).lookup 1 = some 11
    ∧ effPos 10 = some (.lattice 0 0 0) ∧ effPos 11 = some (.lattice 3 4 0) := by decide
example : effCall effPos [(0, 10), (1, 11)] "dist" [0, 1] (some ".3f") = .ok (.dist2 25 (some ".3f")) := by
  decide

/-- The atoms are read in the effector's order: permuting the keys of an angle changes the ordered atom
list handed to `_apply` (hence, in general, the value), while a distance on lattice points is the same. -/
theorem effector_order_sensitive_witness :
    effCall witPos witMap "angle" [10, 11, 12] none = .ok (.sym "angle" [1, 2, 3] none) ∧
    effCall witPos witMap "angle" [11, 10, 12] none = .ok (.sym "angle" [2, 1, 3] none) ∧
    effCall witPos witMap "angle" [11, 10, 12] none ≠ effCall witPos witMap "angle" [10, 11, 12] none ∧
    effCall witPos witMap "dist" [10, 11] (some "f") = .ok (.dist2 1 (some "f")) ∧
    effCall witPos witMap "dist" [11, 10] (some "f") = .ok (.dist2 1 (some "f")) ∧
    effCall witPos witMap "dist" [10, 12] none = .ok (.dist2 2 none) :=
  C05.effector_order_sensitive_witness

/-- Deferred evaluation: the interaction table keeps the effector with its keys mapped on the molecule
(`mapParam`); evaluating that entry later on the (unchanged) positions gives exactly what calling the
effector with the placement gives at build time. -/
theorem effCall_eq_evalParam (pos : PosFn) (mp : Map) (name : String) (keys : List Int) (fmt : Option String)
    (h : ∀ k ∈ keys, (mp.lookup k).isSome) :
    effCall pos mp name keys fmt = evalParam pos (mapParam mp (.eff name keys fmt)) :=
  C05.effCall_eq_evalParam pos mp name keys fmt h

example : ∀ k ∈ [0, 1], (([(0, 10), (1, 11)] : Map).lookup k).isSome := by decide
example : evalParam effPos (mapParam [(0, 10), (1, 11)] (.eff "dist" [0, 1] none)) = .ok (.dist2 25 none) := by
  decide

/-- An interaction built without exception has all its atoms placed, and the deferred evaluation of
each of its parameters succeeds. -/
theorem buildErr_none_eval (pos : PosFn) (mp : Map) (i : Inter)
    (h : buildErr pos mp i.atoms i.params = none) :
    (∀ a ∈ i.atoms, (mp.lookup a).isSome) ∧ ∀ p ∈ i.params, ∃ v, evalParam pos (mapParam mp p) = .ok v :=
  ⟨C05.buildErr_none_atoms pos mp i h, C05.buildErr_none_eval pos mp i h⟩

example : buildErr effPos [(0, 10), (1, 11)] [0, 1] [.lit "1", .eff "dist" [0, 1] (some ".3f")] = none := by
  decide
example : buildErr effPosGap [(0, 11), (1, 12)] [0, 1] [.lit "1", .eff "dist" [0, 1] none] = some .keyError := by
  decide

/-! ### the pairwise order test and the dictionary order -/

/-- The four-valued verdict agrees with the base model's `pairwiseOrders`: `yes`/`no` are its
`some true`/`some false`, and it reports an exception exactly for `raises` and `either`. -/
theorem pairwiseVerdict_vs_orders (tbl : List (Order × Int)) :
    (pairwiseVerdict tbl = .yes ↔ pairwiseOrders tbl = some true) ∧
    (pairwiseVerdict tbl = .no ↔ pairwiseOrders tbl = some false) ∧
    ((pairwiseVerdict tbl = .raises ∨ pairwiseVerdict tbl = .either) ↔ pairwiseOrders tbl = none) :=
  C05.pairwiseVerdict_vs_orders tbl

/-- the verdict itself does not depend on the order of the `order_match` dictionary -/
theorem pairwiseVerdict_perm (tbl tbl' : List (Order × Int)) (hp : tbl'.Perm tbl) :
    pairwiseVerdict tbl' = pairwiseVerdict tbl :=
  C05.pairwiseVerdict_perm hp

/-- Whatever order the `order_match` dictionary has (`tbl'` is any rearrangement of `tbl`), the loop
`for pair in combinations(..): if not match_order(..): break` ends the way the verdict says: all pairs
pass, a pair fails, or ValueError — unless the verdict is `either`. -/
theorem pairwise_order_independent (tbl tbl' : List (Order × Int)) (hp : tbl'.Perm tbl)
    (h : pairwiseVerdict tbl ≠ .either) :
    pairwiseSeq tbl' = (match pairwiseVerdict tbl with
      | .yes => some true | .no => some false | .raises => none | .either => none) :=
  C05.pairwise_order_independent tbl tbl' hp h

example : ([(.str ['>'], 7), (.num 0, 5), (.str ['*'], 9)] : List (Order × Int)).Perm
      [(.num 0, 5), (.str ['>'], 7), (.str ['*'], 9)]
    ∧ pairwiseVerdict [(.num 0, 5), (.str ['>'], 7), (.str ['*'], 9)] = .yes :=
  ⟨List.Perm.swap _ _ _, by decide⟩
example : pairwiseVerdict [(.num 0, 5), (.bad, 5), (.num 1, 6)] = .raises := by decide
example : pairwiseVerdict [(.num 0, 5), (.num 1, 9)] = .no := by decide

/-- The outcome genuinely depends on the dictionary order when the verdict is `either`: a table with
two valid orders whose relation fails and one invalid order; one order of the dictionary makes the
loop reject the placement, another makes it raise ValueError. -/
theorem pairwise_either_witness :
    pairwiseVerdict eitherTable = .either ∧ eitherTable1.Perm eitherTable ∧ eitherTable2.Perm eitherTable ∧
      pairwiseSeq eitherTable1 = some false ∧ pairwiseSeq eitherTable2 = none :=
  C05.pairwise_either_witness

/-- On the table in the order the code built it: the sequential loop gives the verdict; under `either`
it rejects or raises. -/
theorem pairwiseVerdict_seq (tbl : List (Order × Int)) :
    (pairwiseVerdict tbl = .yes → pairwiseSeq tbl = some true) ∧
    (pairwiseVerdict tbl = .no → pairwiseSeq tbl = some false) ∧
    (pairwiseVerdict tbl = .raises → pairwiseSeq tbl = none) ∧
    (pairwiseVerdict tbl = .either → (pairwiseSeq tbl = none ∨ pairwiseSeq tbl = some false)) :=
  C05.pairwiseVerdict_seq tbl

/-! ### `match_link` without assuming a dictionary order -/

/-- the loop body of `match_link`, four-valued, against the base model -/
theorem placementOk_eq_toOpt (m : Mol) (l : Link) (mp : Map) :
    placementOk m l mp = (placementVerdict m l mp).toOpt :=
  C05.placementOk_eq_toOpt m l mp

/-- whenever `match_link` may return (for every or for some dictionary order), what it returns is the
list of placements of the base model -/
theorem matchLinkV_ps (m : Mol) (l : Link) (ps : List Map)
    (h : matchLinkV m l = .yields ps ∨ matchLinkV m l = .either ps) : ps = matchLink m l :=
  C05.matchLinkV_ps m l ps h

/-- `match_link` returns `ps` for every dictionary order exactly when the exception-aware base model
returns `ps`; the base model reports an exception exactly when `match_link` raises for every or for
some dictionary order. -/
theorem matchLinkV_vs_E (m : Mol) (l : Link) :
    (∀ ps, matchLinkV m l = .yields ps ↔ matchLinkE m l = some ps) ∧
    (matchLinkE m l = none ↔ (matchLinkV m l = .raises ∨ ∃ ps, matchLinkV m l = .either ps)) :=
  C05.matchLinkV_vs_E m l

example : (match matchLinkV effMol effLink with
    | .yields ps => ps == [[(0, 10), (1, 11)], [(0, 11), (1, 12)]]
    | _ => false) = true := by decide
example : (match matchLinkV effMol effLinkBadOrder with
    | .raises => true
    | _ => false) = true := by decide

example : (match matchLinkV effMol effLinkEither with
    | .either ps => ps == []
    | _ => false) = true := by decide
example : matchLinkE effMol effLinkEither = none := by decide

/-! ### the run with error kinds -/

/-- When the run with error kinds returns a molecule, it is the molecule of the total run
`applyLinks` (so every theorem about `applyLinks` applies to it). -/
theorem applyLinksX_ok_eq (pos : PosFn) (m : Mol) (links : List Link) (given : List (List Map))
    (s : Mol × List Int) (h : (applyLinksX pos m links given).out = .ok s) :
    s.1 = applyLinks m links given :=
  C05.applyLinksX_ok_eq pos m links given s h

/-- the same from any state of the run -/
theorem applyLinksFromX_ok_eq (pos : PosFn) (mb : Bool) (s : Mol × List Int) (links : List Link)
    (gs : List (List Map)) (r : Mol × List Int)
    (h : (applyLinksFromX pos mb s links gs).out = .ok r) : r = applyLinksFrom s links gs :=
  C05.applyLinksFromX_ok_eq pos mb s links gs r h

example : (match (applyLinksX effPos effMol [effLink, effLink] []).out with
    | .ok s => s.1.inters.map (·.2.atoms) == [[10, 11], [11, 12]]
    | .error _ => false) = true := by decide

/-- a run whose only doubt is the dictionary order of one `match_link`: flagged, and otherwise fine -/
example : (applyLinksX effPos effMol [effLinkEither, effLink] []).maybe = true
    ∧ errOf (applyLinksX effPos effMol [effLinkEither, effLink] []) = none := by decide

/-- An effector exception during the first link comes from the first placement, in processing
order, whose construction raises (every earlier placement builds without exception); if no placement
of that link raises, the exception comes from the rest of the run. -/
theorem applyLinksX_first_error (pos : PosFn) (mb : Bool) (s : Mol × List Int) (l : Link) (ls : List Link)
    (gs : List (List Map)) (ps : List Map) (e : EffErr)
    (hv : matchLinkV s.1 l = .yields ps)
    (h : (applyLinksFromX pos mb s (l :: ls) gs).out = .error (.eff e)) :
    (∃ before mp after, orderAs (gs.headD []) ps = before ++ mp :: after ∧
        placementErr pos l mp = some e ∧ ∀ x ∈ before, placementErr pos l x = none) ∨
    ((∀ x ∈ orderAs (gs.headD []) ps, placementErr pos l x = none) ∧
      (applyLinksFromX pos mb (applyLinkWith l s (orderAs (gs.headD []) ps)) ls gs.tail).out
        = .error (.eff e)) :=
  C05.applyLinksX_first_error pos mb s l ls gs ps e hv h

/-- atom 12 has no position: the second placement raises KeyError, the first one does not -/
example : errOf (applyLinksX effPosGap effMol [effLink] []) = some (.eff .keyError) := by decide
example : placementErr effPosGap effLink [(0, 10), (1, 11)] = none
    ∧ placementErr effPosGap effLink [(0, 11), (1, 12)] = some .keyError := by decide
example : errOf (applyLinksX effPos effMol [effLinkNoApply] []) = some (.eff .notImplemented) := by decide
example : errOf (applyLinksX effPos effMol [effLinkBadOrder] []) = some .matching := by decide
/-- the hypotheses of `applyLinksX_first_error` on this instance -/
example : ∃ ps, matchLinkV (effMol, ([] : List Int)).1 effLink = .yields ps ∧
    (applyLinksFromX effPosGap false (effMol, []) (effLink :: []) []).out = .error (.eff .keyError) := by
  refine ⟨[[(0, 10), (1, 11)], [(0, 11), (1, 12)]], ?_, ?_⟩
  · exact ((C05.matchLinkV_vs_E effMol effLink).1 _).2 (by decide)
  · exact (errOf_eq _ _).1 (by decide)

/-! ### the interaction-table API called directly -/

/-- `add_or_replace_interaction` acts on the table as the `addOrReplace` of the base model and adds
the citations, touching nothing else; it raises (KeyError of `add_interaction`) exactly when the
identity (type, atoms, version) is new and some atom is not a node of the molecule — an existing
identity is replaced without looking at the atoms. -/
theorem addOrReplaceInteraction_table (m : Mol) (ty : String) (atoms : List Int) (params : List Param)
    (md : Option Attrs) (cites : Option (List String)) :
    (∀ m', addOrReplaceInteraction m ty atoms params md cites = some m' →
      m'.inters = addOrReplace m.inters (ty, ⟨atoms, params, md.getD []⟩) ∧
      m'.cites = unionSet m.cites (cites.getD []) ∧ m'.nodes = m.nodes ∧ m'.edges = m.edges ∧ m'.md = m.md) ∧
    (addOrReplaceInteraction m ty atoms params md cites = none ↔
      (∀ e ∈ m.inters, keyOf e ≠ keyOf (ty, (⟨atoms, params, md.getD []⟩ : Inter))) ∧
      ∃ a ∈ atoms, a ∉ m.keys) :=
  C05.addOrReplaceInteraction_table m ty atoms params md cites

/-- a new identity goes to the end of the table -/
theorem addOrReplace_new (t : Table) (x : String × Inter) (h : ∀ e ∈ t, keyOf e ≠ keyOf x) :
    addOrReplace t x = t ++ [x] :=
  C05.addOrReplace_new t x h

example : (addOrReplaceInteraction effMol "bonds" [10, 11] [.lit "1"] none none).isSome = true := by decide
example : (addOrReplaceInteraction effMol "bonds" [10, 99] [.lit "1"] none none).isNone = true := by decide
/-- an existing identity is replaced although atom 99 is not a node -/
example : ((addOrReplaceInteraction { effMol with inters := [("bonds", ⟨[10, 99], [], []⟩)] }
    "bonds" [10, 99] [.lit "1"] none none).map (·.inters))
    = some [("bonds", ⟨[10, 99], [.lit "1"], []⟩)] := by decide

/-- `add_interaction` appends, and raises exactly when some atom is not a node -/
theorem addInteraction_table (m : Mol) (ty : String) (atoms : List Int) (params : List Param)
    (md : Option Attrs) :
    (∀ m', addInteraction m ty atoms params md = some m' →
      m'.inters = m.inters ++ [(ty, ⟨atoms, params, md.getD []⟩)]) ∧
    (addInteraction m ty atoms params md = none ↔ ∃ a ∈ atoms, a ∉ m.keys) :=
  C05.addInteraction_table m ty atoms params md

/-- `remove_matching_interaction` acts on the table as the `removeMatching` of the base model, touching
nothing else; it raises (ValueError) exactly when no entry of that type matches the template, and then
the swallowed call made by `DoLinks` leaves the table as it is. -/
theorem removeMatchingE_table (m : Mol) (ty : String) (d : LDel) :
    (∀ m', removeMatchingE m ty d = some m' →
      m'.inters = removeMatching m.attrsOf m.inters ty d ∧ m'.nodes = m.nodes ∧ m'.edges = m.edges) ∧
    (removeMatchingE m ty d = none ↔ ∀ e ∈ m.inters, ¬ (e.1 = ty ∧ interMatch m.attrsOf e.2 d = true)) ∧
    (removeMatchingE m ty d = none → removeMatching m.attrsOf m.inters ty d = m.inters) :=
  C05.removeMatchingE_table m ty d

example : ((removeMatchingE { effMol with inters := [("bonds", ⟨[10, 11], [], []⟩), ("angles", ⟨[10, 11, 12], [], []⟩)] }
    "bonds" ⟨[10, 11], [], none, []⟩).map (·.inters)) = some [("angles", ⟨[10, 11, 12], [], []⟩)] := by decide
example : (removeMatchingE { effMol with inters := [("bonds", ⟨[10, 11], [], []⟩)] }
    "bonds" ⟨[11, 12], [], none, []⟩).isNone = true := by decide

/-- `remove_interaction` deletes the first entry with that identity and raises (KeyError) exactly
when the table has none -/
theorem removeInteraction_table (m : Mol) (ty : String) (atoms : List Int) (ver : Val) :
    (∀ m', removeInteraction m ty atoms ver = some m' →
      m'.inters = eraseFirstKey m.inters (ty, atoms, ver)) ∧
    (removeInteraction m ty atoms ver = none ↔ (ty, atoms, ver) ∉ tableKeys m.inters) :=
  C05.removeInteraction_table m ty atoms ver

end C05.Top
