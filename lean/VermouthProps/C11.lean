import VermouthModel.C11
namespace C11
end C11
