import VermouthProofs.C11
import VermouthProps.C08
import VermouthProps.C09
import VermouthProps.C10
import VermouthProps.C15
import VermouthProps.C18
import Mathlib.Tactic.Ring
import Mathlib.Tactic.LinearCombination
/-!
# C11 — the topology depends on the chemistry of the input, not on its presentation (PARTIAL)

The end-to-end claim is about `bin/martinize2` as executed by CPython and is *explored* by paired runs
(harness/c11.py).  This file holds what is *proved*:

1. **exact rigid motions** — `sqdist_isometry`: for every integer matrix with `AᵀA = I` and every translation,
   squared distances are invariant; the 48 signed permutation matrices are such matrices
   (`signedPerms_ortho`), 24 of them proper rotations (`rotations90_proper`).  The harness moves structures with
   exactly this `move`.
2. **stage invariance** — through 1., the stage models of the other properties are invariant under these motions:
   `elastic_network_rigid_invariant` (C15.run), `bond_distance_rigid_invariant` (the squared distance entering
   C10.DistCrit), `go_distance_rigid_invariant` (the squared distance entering the C18 contact window).  The stage
   theorems that are already stated in the needed form are listed in `lean/theorems/C11.txt` with their module:
   `C09.rigid_motion_equivariant` (bead placement commutes with every affine map), `C15.order_invariant`
   (elastic network independent of the node order), `C15.emit_iff`, `C10.dist_bond_iff`, `C18.go_pair_iff`,
   `C18.go_eligible_symm` (set comprehensions over pairs: no dependence on enumeration order),
   `C08.leftover_order_indep`.
3. **the comparator** — `canonTop_invariant`, `canonTop_injective_mod_presentation`, `interRec_faithful`,
   `atomRec_faithful`, `canonTop_complete`, `canonTop_presentation_exists`: two topologies have the same canonical form *iff* they differ by a presentation
   change (order of atom lines, consistent renumbering, order of interaction lines, reversal of reversible
   interactions), so the paired-run comparison is neither too weak nor too strong.
-/
namespace C11

/-! ## 1. exact rigid motions -/

/-- **sqdist_isometry.** Squared distances are invariant under `p ↦ A p + t` for every integer matrix with
orthonormal columns. -/
theorem sqdist_isometry (A : Mat3) (hA : A.IsOrtho) (t p q : V3) :
    sqdist (move A t p) (move A t q) = sqdist p q := by
  obtain ⟨⟨a11, a12, a13⟩, ⟨a21, a22, a23⟩, ⟨a31, a32, a33⟩⟩ := A
  obtain ⟨t1, t2, t3⟩ := t
  obtain ⟨p1, p2, p3⟩ := p
  obtain ⟨q1, q2, q3⟩ := q
  obtain ⟨h11, h22, h33, h12, h13, h23⟩ := hA
  simp only [Mat3.col1, Mat3.col2, Mat3.col3, V3.dot] at h11 h22 h33 h12 h13 h23
  simp only [sqdist, move, Mat3.apply, V3.add, V3.dot]
  linear_combination (p1 - q1) * (p1 - q1) * h11 + (p2 - q2) * (p2 - q2) * h22 + (p3 - q3) * (p3 - q3) * h33
    + 2 * (p1 - q1) * (p2 - q2) * h12 + 2 * (p1 - q1) * (p3 - q3) * h13 + 2 * (p2 - q2) * (p3 - q3) * h23

/-- a pure translation is the motion with the identity matrix -/
theorem sqdist_translate (t p q : V3) : sqdist (p.add t) (q.add t) = sqdist p q := by
  obtain ⟨t1, t2, t3⟩ := t
  obtain ⟨p1, p2, p3⟩ := p
  obtain ⟨q1, q2, q3⟩ := q
  simp only [sqdist, V3.add]
  ring

theorem sqdist_nonneg (p q : V3) : 0 ≤ sqdist p q := by
  unfold sqdist
  have h1 := mul_self_nonneg (p.1 - q.1)
  have h2 := mul_self_nonneg (p.2.1 - q.2.1)
  have h3 := mul_self_nonneg (p.2.2 - q.2.2)
  omega

/-- all 48 signed permutation matrices satisfy `AᵀA = I` (non-vacuity of the hypothesis of `sqdist_isometry`) -/
theorem signedPerms_ortho : ∀ A ∈ allSignedPerms, A.IsOrtho := by decide

/-- the matrices the harness rotates with: 24 proper rotations by multiples of 90 degrees -/
theorem rotations90_proper : rotations90.length = 24 ∧ ∀ A ∈ rotations90, A.IsOrtho ∧ A.det = 1 := by decide

/-- a concrete instance: rotation by 90 degrees about z and a translation -/
example : sqdist (move ⟨(0, -1, 0), (1, 0, 0), (0, 0, 1)⟩ (5, -7, 11) (1, 2, 3))
    (move ⟨(0, -1, 0), (1, 0, 0), (0, 0, 1)⟩ (5, -7, 11) (-4, 0, 9)) = sqdist (1, 2, 3) (-4, 0, 9) := by decide

/-! ## 2. stage invariance under these motions -/

theorem c15_dist2_eq (u v : V3) : C15.dist2 u v = (sqdist u v).toNat := rfl

/-- **the elastic-network model is invariant under every exact rigid motion**: same outcome, same bonds in the
same order, same lengths and force constants (instance of `C15.isometry_invariant`). -/
theorem elastic_network_rigid_invariant (A : Mat3) (hA : A.IsOrtho) (t : V3)
    (atoms : List C15.Atom) (edges : List (Int × Int)) (p : C15.Params) :
    C15.run (C15.moveAll (move A t) atoms) edges p = C15.run atoms edges p :=
  C15.isometry_invariant (move A t)
    (fun u v => by rw [c15_dist2_eq, c15_dist2_eq, sqdist_isometry A hA]) atoms edges p

/-- the C10 atom moved by a rigid motion (identity and element untouched) -/
def moveAtom10 (A : Mat3) (t : V3) (a : C10.Atom) : C10.Atom :=
  { a with x := (move A t (a.x, a.y, a.z)).1, y := (move A t (a.x, a.y, a.z)).2.1, z := (move A t (a.x, a.y, a.z)).2.2 }

theorem c10_dist2_eq (a b : C10.Atom) : (C10.dist2 a b : Int) = sqdist (a.x, a.y, a.z) (b.x, b.y, b.z) := by
  unfold C10.dist2 C10.sq sqdist
  simp only [Int.natCast_add, Int.natCast_mul, Int.natAbs_mul_self']

/-- **the squared distance entering the distance-bond criterion `C10.DistCrit` is invariant under every exact
rigid motion** (the other conjuncts of the criterion - element radii, hydrogen tests, residue serials, name
non-edges - do not read coordinates). -/
theorem bond_distance_rigid_invariant (A : Mat3) (hA : A.IsOrtho) (t : V3) (a b : C10.Atom) :
    C10.dist2 (moveAtom10 A t a) (moveAtom10 A t b) = C10.dist2 a b := by
  have h : (C10.dist2 (moveAtom10 A t a) (moveAtom10 A t b) : Int) = (C10.dist2 a b : Int) := by
    rw [c10_dist2_eq, c10_dist2_eq]
    exact sqdist_isometry A hA t (a.x, a.y, a.z) (b.x, b.y, b.z)
  exact_mod_cast h

theorem c18_dist2_eq (p q : C18.Pos) : C18.dist2 p q = (sqdist p q).toNat := rfl

/-- **the squared distance entering the Go contact window (`C18.go_eligible_iff`) is invariant under every exact
rigid motion** -/
theorem go_distance_rigid_invariant (A : Mat3) (hA : A.IsOrtho) (t : V3) (p q : C18.Pos) :
    C18.dist2 (move A t p) (move A t q) = C18.dist2 p q := by
  rw [c18_dist2_eq, c18_dist2_eq, sqdist_isometry A hA]

/-! ## 3. the comparator -/

/-- every atom index a topology mentions -/
def allKeys (T : Top) : List Int := T.atoms.map (·.key) ++ T.inters.flatMap (·.atoms)

/-- `i'` is `i` after renumbering with `ρ`, possibly listed in reverse when its section is reversible -/
def InterEquiv (sym : Tok → Bool) (ρ : Int → Int) (i i' : Inter) : Prop :=
  i'.sect = i.sect ∧ i'.params = i.params ∧
    (i'.atoms = i.atoms.map ρ ∨ (sym i.sect = true ∧ i'.atoms = (i.atoms.map ρ).reverse))

/-- **`T'` is another presentation of `T`**: the atom lines are those of `T` with indices renumbered by `ρ`, in any
order; the interaction lines are those of `T`, renumbered, each possibly reversed if reversible, in any order. -/
structure Presents (sym : Tok → Bool) (ρ : Int → Int) (T T' : Top) : Prop where
  atoms : T'.atoms.Perm (T.atoms.map (Atom.rekey ρ))
  inters : ∃ l, T'.inters.Perm l ∧ Forall2 (InterEquiv sym ρ) T.inters l

theorem atomRec_rekey (ρ : Int → Int) (a : Atom) : atomRec (a.rekey ρ) = atomRec a := rfl

/-- an atom record states exactly the chemistry columns of the line (everything but the index) -/
theorem atomRec_faithful (a b : Atom) :
    atomRec a = atomRec b ↔ a.resid = b.resid ∧ a.name = b.name ∧ a.fields = b.fields := by
  unfold atomRec
  constructor
  · intro h
    simp only [Prod.mk.injEq] at h
    exact ⟨h.1.1, h.1.2, h.2⟩
  · rintro ⟨h1, h2, h3⟩
    rw [h1, h2, h3]

theorem interRec_of_equiv (sym : Tok → Bool) (ρ : Int → Int) (as as' : List Atom) (i i' : Inter)
    (hid : ∀ k ∈ i.atoms, ident as' (ρ k) = ident as k) (h : InterEquiv sym ρ i i') :
    interRec sym as' i' = interRec sym as i := by
  obtain ⟨hs, hp, ha⟩ := h
  have hmap : (i.atoms.map ρ).map (ident as') = i.atoms.map (ident as) := by
    rw [List.map_map]
    exact List.map_congr_left (fun k hk => hid k hk)
  unfold interRec
  rw [hs, hp]
  rcases ha with ha | ⟨hsym, ha⟩
  · rw [ha, hmap]
  · rw [ha, List.map_reverse, hmap, hsym, orient_reverse]

/-- **canonTop_invariant.** A presentation change leaves the canonical form unchanged.  Hypotheses: the atom indices
of `T` are distinct and the renumbering is injective on the indices `T` mentions. -/
theorem canonTop_invariant (sym : Tok → Bool) (ρ : Int → Int) (T T' : Top)
    (hk : (T.atoms.map (·.key)).Nodup)
    (hinj : ∀ x ∈ allKeys T, ∀ y ∈ allKeys T, ρ x = ρ y → x = y)
    (h : Presents sym ρ T T') : canonTop sym T' = canonTop sym T := by
  obtain ⟨hat, l, hl, hf⟩ := h
  -- atoms
  have hA : (T'.atoms.map atomRec).Perm (T.atoms.map atomRec) := by
    have := hat.map atomRec
    rw [List.map_map] at this
    exact this
  -- identities seen through the renumbering
  have hk' : ((T.atoms.map (Atom.rekey ρ)).map (·.key)).Nodup := by
    rw [List.map_map]
    have : (T.atoms.map ((fun a => a.key) ∘ Atom.rekey ρ)) = (T.atoms.map (·.key)).map ρ := by
      rw [List.map_map]; rfl
    rw [this]
    refine (List.nodup_map_iff_inj_on hk).mpr ?_
    intro x hx y hy e
    exact hinj x (List.mem_append_left _ hx) y (List.mem_append_left _ hy) e
  have hid : ∀ k ∈ allKeys T, ident T'.atoms (ρ k) = ident T.atoms k := by
    intro k hkm
    rw [ident_perm hat.symm hk' (ρ k) |>.symm]
    apply ident_rekey
    intro a ha e
    exact hinj a.key (List.mem_append_left _ (List.mem_map_of_mem ha)) k hkm e
  -- interactions
  have hrec : ∀ (l1 : List Inter) (l2 : List Inter), (∀ i ∈ l1, ∀ k ∈ i.atoms, k ∈ allKeys T) →
      Forall2 (InterEquiv sym ρ) l1 l2 →
      l2.map (interRec sym T'.atoms) = l1.map (interRec sym T.atoms) := by
    intro l1 l2 hmem hf
    induction hf with
    | nil => rfl
    | cons hab _ ih =>
      rw [List.map_cons, List.map_cons, ih (fun i hi => hmem i (List.mem_cons_of_mem _ hi))]
      rw [interRec_of_equiv sym ρ T.atoms T'.atoms _ _
        (fun k hk => hid k (hmem _ List.mem_cons_self k hk)) hab]
  have hI : (T'.inters.map (interRec sym T'.atoms)).Perm (T.inters.map (interRec sym T.atoms)) := by
    rw [← hrec T.inters l (fun i hi k hk => List.mem_append_right _ (List.mem_flatMap.mpr ⟨i, hi, hk⟩)) hf]
    exact hl.map _
  unfold canonTop
  rw [sort_eq_of_perm good_aRecLe hA, sort_eq_of_perm good_iRecLe hI]

/-- **canonTop_injective_mod_presentation.** Equal canonical forms mean: the two topologies have the same
multiset of atom records and the same multiset of interaction records (each record determines its line up to
index numbering and admissible reversal, see `atomRec_faithful`, `interRec_faithful`). -/
theorem canonTop_injective_mod_presentation (sym : Tok → Bool) (T T' : Top)
    (h : canonTop sym T = canonTop sym T') :
    (T.atoms.map atomRec).Perm (T'.atoms.map atomRec) ∧
    (T.inters.map (interRec sym T.atoms)).Perm (T'.inters.map (interRec sym T'.atoms)) := by
  unfold canonTop at h
  simp only [Canon.mk.injEq] at h
  exact ⟨perm_of_sort_eq h.1, perm_of_sort_eq h.2⟩

/-- the converse of the previous statement: the canonical form is a function of the two multisets -/
theorem canonTop_complete (sym : Tok → Bool) (T T' : Top)
    (hA : (T.atoms.map atomRec).Perm (T'.atoms.map atomRec))
    (hI : (T.inters.map (interRec sym T.atoms)).Perm (T'.inters.map (interRec sym T'.atoms))) :
    canonTop sym T = canonTop sym T' := by
  unfold canonTop
  rw [sort_eq_of_perm good_aRecLe hA, sort_eq_of_perm good_iRecLe hI]

/-- **interRec_faithful.** Two interaction lines have the same record iff they are in the same section, carry the
same tokens, and refer to the same particle identities in the same order - or, in a reversible section, in
exactly the reverse order. -/
theorem interRec_faithful (sym : Tok → Bool) (as as' : List Atom) (i i' : Inter) :
    interRec sym as i = interRec sym as' i' ↔
      i.sect = i'.sect ∧ i.params = i'.params ∧
        (i.atoms.map (ident as) = i'.atoms.map (ident as') ∨
          (sym i.sect = true ∧ i.atoms.map (ident as) = (i'.atoms.map (ident as')).reverse)) := by
  unfold interRec
  constructor
  · intro h
    simp only [Prod.mk.injEq] at h
    obtain ⟨hs, ho, hp⟩ := h
    refine ⟨hs, hp, ?_⟩
    rw [← hs] at ho
    rcases orient_cases (sym i.sect) (i.atoms.map (ident as)) with h1 | ⟨hsym, h1⟩ <;>
      rcases orient_cases (sym i.sect) (i'.atoms.map (ident as')) with h2 | ⟨hsym', h2⟩
    · left; rw [← h1, ho, h2]
    · right; exact ⟨hsym', by rw [← h1, ho, h2]⟩
    · right
      refine ⟨hsym, ?_⟩
      have : (i.atoms.map (ident as)).reverse = i'.atoms.map (ident as') := by rw [← h1, ho, h2]
      rw [← this, List.reverse_reverse]
    · left
      have : (i.atoms.map (ident as)).reverse = (i'.atoms.map (ident as')).reverse := by rw [← h1, ho, h2]
      exact List.reverse_injective this
  · rintro ⟨hs, hp, ha⟩
    rw [← hs, ← hp]
    rcases ha with ha | ⟨hsym, ha⟩
    · rw [ha]
    · rw [ha, hsym, orient_reverse]

/-- **canonTop_presentation_exists** (the strong form of injectivity).  If two well-formed topologies with distinct
atom indices and distinct particle identities have the same canonical form, then the second IS a presentation of
the first: the renumbering `transport` (send the index of a particle to the index of the particle with the same
(resid, name) in the other file) turns the atom lines of the first into a permutation of those of the second and
its interaction lines, up to admissible reversal, into a permutation of those of the second. -/
theorem canonTop_presentation_exists (sym : Tok → Bool) (T T' : Top)
    (hk : (T.atoms.map (·.key)).Nodup) (hk' : (T'.atoms.map (·.key)).Nodup)
    (hid : (T.atoms.map Atom.id).Nodup) (hid' : (T'.atoms.map Atom.id).Nodup)
    (hwf : ∀ i ∈ T.inters, ∀ k ∈ i.atoms, k ∈ T.atoms.map (·.key))
    (hwf' : ∀ i ∈ T'.inters, ∀ k ∈ i.atoms, k ∈ T'.atoms.map (·.key))
    (h : canonTop sym T = canonTop sym T') :
    Presents sym (transport T.atoms T'.atoms) T T' := by
  obtain ⟨hA, hI⟩ := canonTop_injective_mod_presentation sym T T' h
  have F : ∀ a ∈ T.atoms, ∃ b ∈ T'.atoms, a.rekey (transport T.atoms T'.atoms) = b := by
    intro a ha
    have hm : atomRec a ∈ T'.atoms.map atomRec := hA.subset (List.mem_map_of_mem ha)
    obtain ⟨b, hb, hbe⟩ := List.mem_map.mp hm
    have hf := (atomRec_faithful b a).mp hbe
    have e : a.id = b.id := by unfold Atom.id; rw [hf.1, hf.2.1]
    refine ⟨b, hb, ?_⟩
    have hkey := transport_of_mem hk hid' ha hb e
    obtain ⟨ak, ar, an, af⟩ := a
    obtain ⟨bk, br, bn, bf⟩ := b
    simp only [Atom.rekey] at hkey ⊢
    simp only at hf
    rw [hkey, hf.1, hf.2.1, hf.2.2]
  constructor
  · have nd1 : T'.atoms.Nodup := List.Nodup.of_map _ hid'
    have nd2 : (T.atoms.map (Atom.rekey (transport T.atoms T'.atoms))).Nodup := by
      apply List.Nodup.of_map Atom.id
      rw [List.map_map]
      exact hid
    refine (List.perm_ext_iff_of_nodup nd1 nd2).mpr (fun x => ⟨fun hx => ?_, fun hx => ?_⟩)
    · have hm : atomRec x ∈ T.atoms.map atomRec := hA.symm.subset (List.mem_map_of_mem hx)
      obtain ⟨a, ha, hae⟩ := List.mem_map.mp hm
      obtain ⟨b, hb, hab⟩ := F a ha
      have hbx : b.id = x.id := by
        have e1 : atomRec b = atomRec x := by rw [← hab, atomRec_rekey, hae]
        have := (atomRec_faithful b x).mp e1
        unfold Atom.id; rw [this.1, this.2.1]
      have : b = x := List.inj_on_of_nodup_map hid' hb hx hbx
      rw [← this, ← hab]
      exact List.mem_map_of_mem ha
    · obtain ⟨a, ha, rfl⟩ := List.mem_map.mp hx
      obtain ⟨b, hb, hab⟩ := F a ha
      rw [hab]; exact hb
  · obtain ⟨l, hl, hf⟩ := exists_perm_forall₂ (interRec sym T.atoms) (interRec sym T'.atoms) T.inters T'.inters hI
    refine ⟨l, hl, hf.imp_mem ?_⟩
    intro i hi i' hi' hR
    have hi'' : i' ∈ T'.inters := hl.symm.subset hi'
    obtain ⟨hs, hp, ha⟩ := (interRec_faithful sym T.atoms T'.atoms i i').mp hR
    refine ⟨hs.symm, hp.symm, ?_⟩
    rcases ha with ha | ⟨hsym, ha⟩
    · left
      exact ids_transport hk hk' hid' i.atoms i'.atoms (hwf i hi) (hwf' i' hi'') ha
    · right
      refine ⟨hsym, ?_⟩
      rw [← List.map_reverse] at ha
      have := ids_transport hk hk' hid' i.atoms i'.atoms.reverse (hwf i hi)
        (fun k hk => hwf' i' hi'' k (List.mem_reverse.mp hk)) ha
      rw [← this, List.reverse_reverse]

/-! ### non-vacuity: a concrete presentation change satisfying every hypothesis -/
namespace Ex

def bonds : Tok := [98, 111, 110, 100, 115]
def excl : Tok := [101, 120]
def sym (s : Tok) : Bool := s == bonds

/-- three particles, a bond, a second bond, an exclusion line -/
def T : Top :=
  { atoms := [⟨1, 1, [66, 66], [[80, 50]]⟩, ⟨2, 1, [83, 67], [[67, 49]]⟩, ⟨3, 2, [66, 66], [[80, 50]]⟩],
    inters := [⟨bonds, [1, 2], [[49]]⟩, ⟨bonds, [1, 3], [[49]]⟩, ⟨excl, [1, 2, 3], []⟩] }

def ρ (k : Int) : Int := 10 - k

/-- the same topology: atoms listed backwards with indices 9, 8, 7, interactions in another order, the first
bond reversed -/
def T' : Top :=
  { atoms := [⟨7, 2, [66, 66], [[80, 50]]⟩, ⟨8, 1, [83, 67], [[67, 49]]⟩, ⟨9, 1, [66, 66], [[80, 50]]⟩],
    inters := [⟨excl, [9, 8, 7], []⟩, ⟨bonds, [8, 9], [[49]]⟩, ⟨bonds, [9, 7], [[49]]⟩] }

theorem presents : Presents sym ρ T T' where
  atoms := by decide
  inters := ⟨[⟨bonds, [8, 9], [[49]]⟩, ⟨bonds, [9, 7], [[49]]⟩, ⟨excl, [9, 8, 7], []⟩], by decide,
    .cons ⟨rfl, rfl, .inr ⟨by decide, by decide⟩⟩
      (.cons ⟨rfl, rfl, .inl (by decide)⟩ (.cons ⟨rfl, rfl, .inl (by decide)⟩ .nil))⟩

example : canonTop sym T' = canonTop sym T :=
  canonTop_invariant sym ρ T T' (by decide) (by decide) presents

/-- and back: the equality of the canonical forms yields a presentation (all hypotheses hold for `T`, `T'`) -/
example : Presents sym (transport T.atoms T'.atoms) T T' :=
  canonTop_presentation_exists sym T T' (by decide) (by decide) (by decide) (by decide) (by decide) (by decide)
    (canonTop_invariant sym ρ T T' (by decide) (by decide) presents).symm

end Ex

end C11
