import VermouthProofs.C10_Bonds
/-!
# C10 — guessed bonds obey the stated criteria and never split or lose residues

Property theorems about `C10.run`, the model of `vermouth.processors.make_bonds.make_bonds`
(see `VermouthModel/C10.lean`).  Only top-level statements live here; helper lemmas are in
`VermouthProofs/C10.lean` and `VermouthProofs/C10_Bonds.lean`; the table theorem
`radii_are_bondi` is in `VermouthProps/C10Tables.lean`.

Vocabulary (all executable or explicit):
* atoms are the node keys `0 .. n-1` (`n = S.atoms.length`) after the disjoint union;
  `atomAt S.atoms i` is atom `i`, `keyAt S.atoms i` its identifying tuple
  `(mol_idx, chain, resid, resname, insertion_code)`, `serial S.atoms i` its `_res_serial`;
* `(run S).nameE`, `.distE` : bonds added by name / by distance, `.NE` the collected non-bonds,
  `.mols` the node sets of the returned molecules; `S.pre` the bonds already there;
* `has E u v` : `u - v` is in the undirected edge list `E`;
* `Named atoms b e u v` : atoms `u`, `v` have atom names and these are the names of the block
  nodes `e.1`, `e.2`;
* `Conn same E x y` : `x`, `y` are linked by a chain of steps, each inside one residue or
  along an edge of `E`.
-/
namespace C10

/-- pre-existing edges join atoms of the system -/
def WF (S : Sys) : Prop := ∀ e ∈ S.pre, e.1 < S.atoms.length ∧ e.2 < S.atoms.length

instance (S : Sys) : Decidable (WF S) := by unfold WF; infer_instance

/-- `u`, `v` are in one returned molecule -/
def SameMol (S : Sys) (u v : Nat) : Prop := ∃ m ∈ (run S).mols, u ∈ m ∧ v ∈ m

/-- `u`, `v` are atoms of one residue (same input molecule, chain, number, name, insertion code) -/
def SameRes (S : Sys) (u v : Nat) : Prop :=
  u < S.atoms.length ∧ v < S.atoms.length ∧ keyAt S.atoms u = keyAt S.atoms v

instance (S : Sys) (u v : Nat) : Decidable (SameRes S u v) := by unfold SameRes; infer_instance

/-- all bonds of the final graph -/
def finalEdges (S : Sys) : List Edge := allEdges S (run S).nameE (run S).distE

/-- `u - v` is a bond of the residue's reference block among the atoms present: the residue has a
(non-empty) block, no atom name occurs twice in it, and the two atoms carry the names of the
end points of a block edge. -/
def NameBond (S : Sys) (u v : Nat) : Prop :=
  SameRes S u v ∧
  ∃ b, lookupBlock S.ff (keyAt S.atoms u).resname = some b
    ∧ hasDupName S.atoms (members S.atoms (keyAt S.atoms u)) = false
    ∧ ∃ e ∈ b.edges, Named S.atoms b e u v

/-- `u - v` is a non-bond of the reference block: as `NameBond`, for two distinct block nodes
that are not adjacent in the block. -/
def NonBond (S : Sys) (u v : Nat) : Prop :=
  SameRes S u v ∧
  ∃ b, lookupBlock S.ff (keyAt S.atoms u).resname = some b
    ∧ hasDupName S.atoms (members S.atoms (keyAt S.atoms u)) = false
    ∧ ∃ e, (e.1 < e.2 ∧ e.2 < b.names.length ∧ (e.1, e.2) ∉ b.edges ∧ (e.2, e.1) ∉ b.edges)
        ∧ Named S.atoms b e u v

/-- The distance criteria for the pair `u`, `v` (everything but "not bonded already"):
both elements have a radius; the pair is not in `NE`; not H–H; no hydrogen linking two
residues; `dist ≤ fudge · (ra + rb)/2` as the exact inequality `4 q² d² ≤ 100 p² (ra+rb)²`
(`d²` in (1e-4 nm)², radii in 1e-3 nm, fudge = p/q). -/
def DistCrit (S : Sys) (NE : List Edge) (u v : Nat) : Prop :=
  ∃ ra rb, radiusOf S.radii (atomAt S.atoms u).element = some ra
    ∧ radiusOf S.radii (atomAt S.atoms v).element = some rb
    ∧ has NE u v = false
    ∧ ¬ (isH (atomAt S.atoms u) = true ∧ isH (atomAt S.atoms v) = true)
    ∧ ¬ (serial S.atoms u ≠ serial S.atoms v
          ∧ (isH (atomAt S.atoms u) = true ∨ isH (atomAt S.atoms v) = true))
    ∧ 4 * (S.q * S.q) * dist2 (atomAt S.atoms u) (atomAt S.atoms v)
        ≤ 100 * (S.p * S.p) * ((ra + rb) * (ra + rb))

/-! ## auxiliary facts about `run` -/

theorem run_nameE (S : Sys) : (run S).nameE = (resKeys S.atoms).flatMap (nameOf S) := by
  show (loopRes S).nameE = _
  unfold loopRes
  rw [fold_nameE]; rfl

theorem run_NE (S : Sys) : (run S).NE = (resKeys S.atoms).flatMap (nonOf S) := by
  show (loopRes S).NE = _
  unfold loopRes
  rw [fold_NE]; rfl

theorem run_distE (S : Sys) : (run S).distE = (loopRes S).fbE ++ finalPass S (loopRes S) := rfl

theorem run_mols (S : Sys) :
    (run S).mols = split ((resKeys S.atoms).map (members S.atoms)) (finalEdges S) := rfl

theorem crit_iff {S : Sys} {NE : List Edge} {u v : Nat} : crit S NE u v = true ↔ DistCrit S NE u v := by
  unfold crit DistCrit
  cases h1 : radiusOf S.radii (atomAt S.atoms u).element with
  | none => simp
  | some ra =>
    cases h2 : radiusOf S.radii (atomAt S.atoms v).element with
    | none => simp
    | some rb =>
      simp only [Bool.and_eq_true, Bool.not_eq_eq_eq_not, Bool.not_true, within, decide_eq_true_eq,
        Option.some.injEq, exists_and_left, exists_eq_left']
      constructor
      · rintro ⟨⟨⟨a, b⟩, c⟩, d⟩
        refine ⟨a, ?_, ?_, d⟩
        · intro hh; simp [hh.1, hh.2] at b
        · intro hh
          have : (serial S.atoms u != serial S.atoms v) = true := by simpa using hh.1
          rcases hh.2 with h | h <;> simp [this, h] at c
      · rintro ⟨a, b, c, d⟩
        refine ⟨⟨⟨a, ?_⟩, ?_⟩, d⟩
        · cases hu : isH (atomAt S.atoms u) <;> cases hv : isH (atomAt S.atoms v) <;> simp
          exact b ⟨hu, hv⟩
        · cases hs : (serial S.atoms u != serial S.atoms v) with
          | false => simp
          | true =>
            have hne : serial S.atoms u ≠ serial S.atoms v := by simpa using hs
            cases hu : isH (atomAt S.atoms u) <;> cases hv : isH (atomAt S.atoms v) <;> simp
            · exact c ⟨hne, Or.inr hv⟩
            · exact c ⟨hne, Or.inl hu⟩
            · exact c ⟨hne, Or.inl hu⟩

/-- members of a name bond / non-bond contributed by residue `k` lie in `k`, and `k` did not fall back -/
theorem nameOf_key {S : Sys} {k : ResKey} {u v : Nat} (h : (u, v) ∈ nameOf S k) :
    SameRes S u v ∧ keyAt S.atoms u = k ∧ failed S k = false := by
  obtain ⟨_, b, hb, hd, hu, hv, _⟩ := nameOf_mem h
  obtain ⟨u1, u2⟩ := mem_members.mp hu
  obtain ⟨v1, v2⟩ := mem_members.mp hv
  refine ⟨⟨u1, v1, by rw [u2, v2]⟩, u2, ?_⟩
  unfold failed
  have := namePass_isSome_of_block (S := S) hb hd
  cases hp : namePass S.atoms S.ff k with
  | none => rw [hp] at this; cases this
  | some r => simp

theorem nonOf_key {S : Sys} {k : ResKey} {u v : Nat} (h : (u, v) ∈ nonOf S k) :
    SameRes S u v ∧ keyAt S.atoms u = k ∧ failed S k = false := by
  obtain ⟨_, b, hb, hd, hu, hv, _⟩ := nonOf_mem h
  obtain ⟨u1, u2⟩ := mem_members.mp hu
  obtain ⟨v1, v2⟩ := mem_members.mp hv
  refine ⟨⟨u1, v1, by rw [u2, v2]⟩, u2, ?_⟩
  unfold failed
  have := namePass_isSome_of_block (S := S) hb hd
  cases hp : namePass S.atoms S.ff k with
  | none => rw [hp] at this; cases this
  | some r => simp

/-- what the fall-back inside the loop adds -/
theorem fbE_mem {S : Sys} {e : Edge} (h : e ∈ (loopRes S).fbE) :
    ∃ k ∈ resKeys S.atoms, failed S k = true
      ∧ e ∈ distPass S (fun i => keyAt S.atoms i == k) [] (has S.pre) := by
  unfold loopRes at h
  rcases fold_fbE_sub S _ _ e h with h | h
  · cases h
  · exact h

/-! ## the property theorems -/

/-- **Name-based bonds are exactly the reference block's bonds among the atoms present.** -/
theorem name_bonds_exact (S : Sys) (u v : Nat) :
    (u, v) ∈ (run S).nameE ↔ S.allowName = true ∧ NameBond S u v := by
  rw [run_nameE, List.mem_flatMap]
  constructor
  · rintro ⟨k, _, h⟩
    obtain ⟨han, b, hb, hd, hu, hv, e, he, hn⟩ := nameOf_mem h
    obtain ⟨u1, u2⟩ := mem_members.mp hu
    obtain ⟨v1, v2⟩ := mem_members.mp hv
    refine ⟨han, ⟨u1, v1, by rw [u2, v2]⟩, b, by rw [u2]; exact hb, by rw [u2]; exact hd, e, he, hn⟩
  · rintro ⟨han, ⟨u1, v1, huv⟩, b, hb, hd, e, he, hn⟩
    refine ⟨keyAt S.atoms u, keyAt_mem_resKeys u1, ?_⟩
    exact nameOf_of han hb hd (mem_members.mpr ⟨u1, rfl⟩) (mem_members.mpr ⟨v1, huv.symm⟩) he hn

/-- The collected non-bonds are exactly the reference block's non-bonds among the atoms present. -/
theorem nonbonds_exact (S : Sys) (u v : Nat) :
    (u, v) ∈ (run S).NE ↔ S.allowName = true ∧ NonBond S u v := by
  rw [run_NE, List.mem_flatMap]
  constructor
  · rintro ⟨k, _, h⟩
    obtain ⟨han, b, hb, hd, hu, hv, e, he, hn⟩ := nonOf_mem h
    obtain ⟨u1, u2⟩ := mem_members.mp hu
    obtain ⟨v1, v2⟩ := mem_members.mp hv
    refine ⟨han, ⟨u1, v1, by rw [u2, v2]⟩, b, by rw [u2]; exact hb, by rw [u2]; exact hd, e,
      mem_blockNonEdges.mp he, hn⟩
  · rintro ⟨han, ⟨u1, v1, huv⟩, b, hb, hd, e, he, hn⟩
    refine ⟨keyAt S.atoms u, keyAt_mem_resKeys u1, ?_⟩
    exact nonOf_of han hb hd (mem_members.mpr ⟨u1, rfl⟩) (mem_members.mpr ⟨v1, huv.symm⟩)
      (mem_blockNonEdges.mpr he) hn

/-- With name mode off nothing is taken from the blocks. -/
theorem no_name_when_off (S : Sys) (h : S.allowName = false) : (run S).nameE = [] ∧ (run S).NE = [] := by
  constructor
  · apply List.eq_nil_iff_forall_not_mem.mpr
    rintro ⟨u, v⟩ hm
    have := ((name_bonds_exact S u v).mp hm).1
    rw [h] at this; cases this
  · apply List.eq_nil_iff_forall_not_mem.mpr
    rintro ⟨u, v⟩ hm
    have := ((nonbonds_exact S u v).mp hm).1
    rw [h] at this; cases this

/-- With distance mode off no bond is made by distance. -/
theorem no_dist_when_off (S : Sys) (h : S.allowDist = false) : (run S).distE = [] := by
  apply List.eq_nil_iff_forall_not_mem.mpr
  intro e hm
  rw [run_distE, List.mem_append] at hm
  rcases hm with hm | hm
  · obtain ⟨k, _, hf, _⟩ := fbE_mem hm
    unfold failed at hf
    simp [h] at hf
  · unfold finalPass at hm
    simp [h] at hm

/-- **A distance-based bond is added exactly when the six criteria hold** (and the pair is not
bonded already: the code never adds an edge twice).  The right-hand side does not mention the
KD-tree cut-off `max radius × fudge`: the cut-off never removes a pair that meets the criteria. -/
theorem dist_bond_iff (S : Sys) (had : S.allowDist = true) (u v : Nat) :
    (u, v) ∈ (run S).distE ↔
      u < v ∧ v < S.atoms.length ∧ DistCrit S (run S).NE u v
        ∧ has S.pre u v = false ∧ has (run S).nameE u v = false := by
  constructor
  · intro hm
    rw [run_distE, List.mem_append] at hm
    rcases hm with hm | hm
    · -- fall-back inside the loop, residue k
      obtain ⟨k, _, hf, hd⟩ := fbE_mem hm
      rw [mem_distPass] at hd
      obtain ⟨huv, hvn, he1, he2, _, hc, hpre⟩ := hd
      have hku : keyAt S.atoms u = k := by
        unfold eligible at he1; simp only [Bool.and_eq_true] at he1; simpa using he1.1
      have hkv : keyAt S.atoms v = k := by
        unfold eligible at he2; simp only [Bool.and_eq_true] at he2; simpa using he2.1
      -- no name bond and no non-bond touches a residue that fell back
      have hNE : has (run S).NE u v = false := by
        rw [has_false_iff, run_NE]
        constructor
        · intro hx
          obtain ⟨k', _, hx⟩ := List.mem_flatMap.mp hx
          obtain ⟨_, hk, hff⟩ := nonOf_key hx
          rw [← hk, hku, hf] at hff; cases hff
        · intro hx
          obtain ⟨k', _, hx⟩ := List.mem_flatMap.mp hx
          obtain ⟨_, hk, hff⟩ := nonOf_key hx
          rw [← hk, hkv, hf] at hff; cases hff
      have hnm : has (run S).nameE u v = false := by
        rw [has_false_iff, run_nameE]
        constructor
        · intro hx
          obtain ⟨k', _, hx⟩ := List.mem_flatMap.mp hx
          obtain ⟨_, hk, hff⟩ := nameOf_key hx
          rw [← hk, hku, hf] at hff; cases hff
        · intro hx
          obtain ⟨k', _, hx⟩ := List.mem_flatMap.mp hx
          obtain ⟨_, hk, hff⟩ := nameOf_key hx
          rw [← hk, hkv, hf] at hff; cases hff
      obtain ⟨ra, rb, c1, c2, _, c4, c5, c6⟩ := crit_iff.mp hc
      exact ⟨huv, hvn, ⟨ra, rb, c1, c2, hNE, c4, c5, c6⟩, hpre, hnm⟩
    · -- final pass over the whole system
      unfold finalPass at hm
      simp only [had, if_true] at hm
      rw [mem_distPass] at hm
      obtain ⟨huv, hvn, _, _, _, hc, hb⟩ := hm
      unfold bondedIn at hb
      simp only [Bool.or_eq_false_iff] at hb
      exact ⟨huv, hvn, crit_iff.mp hc, hb.1.1, hb.1.2⟩
  · rintro ⟨huv, hvn, hc, hpre, hnm⟩
    rw [run_distE, List.mem_append]
    cases hb : bondedIn S (loopRes S) u v with
    | true =>
      -- already bonded: can only be through the fall-back
      left
      unfold bondedIn at hb
      have hnm' : has (loopRes S).nameE u v = false := hnm
      simp only [hpre, hnm', Bool.false_or] at hb
      rcases has_iff.mp hb with h | h
      · exact h
      · exfalso
        obtain ⟨k, _, _, hd⟩ := fbE_mem h
        rw [mem_distPass] at hd
        have := hd.1
        simp only at this
        omega
    | false =>
      right
      unfold finalPass
      simp only [had, if_true]
      rw [mem_distPass]
      obtain ⟨ra, rb, c1, c2, c3, c4, c5, c6⟩ := hc
      have e1 : eligible S (fun _ => true) u = true := by unfold eligible; simp [c1]
      have e2 : eligible S (fun _ => true) v = true := by unfold eligible; simp [c2]
      refine ⟨huv, hvn, e1, e2, ?_, crit_iff.mpr ⟨ra, rb, c1, c2, c3, c4, c5, c6⟩, hb⟩
      -- the cut-off is implied by the criterion
      have m1 := radius_le_maxRadius (S := S) (inN := fun _ => true) (by omega) e1 c1
      have m2 := radius_le_maxRadius (S := S) (inN := fun _ => true) hvn e2 c2
      unfold inCut
      apply within_mono (ra := ra) (rb := rb) (by omega)
      unfold within
      simpa using c6

/-- every bond of the final graph joins two atoms of the system -/
theorem finalEdges_lt (S : Sys) (hwf : WF S) : ∀ e ∈ finalEdges S,
    e.1 < S.atoms.length ∧ e.2 < S.atoms.length := by
  intro e he
  unfold finalEdges allEdges at he
  rw [List.mem_append, List.mem_append] at he
  rcases he with (he | he) | he
  · exact hwf e he
  · obtain ⟨u, v⟩ := e
    obtain ⟨_, ⟨h1, h2, _⟩, _⟩ := (name_bonds_exact S u v).mp he
    exact ⟨h1, h2⟩
  · obtain ⟨u, v⟩ := e
    cases had : S.allowDist with
    | false => rw [no_dist_when_off S had] at he; cases he
    | true =>
      obtain ⟨h1, h2, _⟩ := (dist_bond_iff S had u v).mp he
      exact ⟨by omega, h2⟩

/-- **The returned molecules partition the atoms**: their node lists, put together, are a
re-arrangement of `0 .. n-1`. -/
theorem split_partition (S : Sys) : (run S).mols.flatten.Perm (List.range S.atoms.length) := by
  rw [run_mols]
  exact (split_perm _ _).trans (groups_perm S.atoms)

/-- **Every atom is kept**, exactly once, and nothing else appears. -/
theorem keeps_atoms (S : Sys) :
    (∀ i, i ∈ (run S).mols.flatten ↔ i < S.atoms.length) ∧ (run S).mols.flatten.Nodup := by
  have hp := split_partition S
  refine ⟨fun i => ?_, hp.symm.nodup List.nodup_range⟩
  rw [hp.mem_iff, List.mem_range]

/-- **Each residue lies wholly inside one molecule.** -/
theorem residue_whole (S : Sys) (u v : Nat) (h : SameRes S u v) : SameMol S u v := by
  obtain ⟨hu, hv, hk⟩ := h
  have hg : members S.atoms (keyAt S.atoms u) ∈ (resKeys S.atoms).map (members S.atoms) :=
    List.mem_map.mpr ⟨_, keyAt_mem_resKeys hu, rfl⟩
  obtain ⟨m, hm, hsub⟩ := split_coarsens (finalEdges S) _ _ hg
  refine ⟨m, by rw [run_mols]; exact hm, hsub _ (mem_members.mpr ⟨hu, rfl⟩), hsub _ (mem_members.mpr ⟨hv, hk.symm⟩)⟩

/-- Every bond of the final graph has both ends in one returned molecule (so taking the
sub-graphs loses no bond). -/
theorem edges_inside (S : Sys) (hwf : WF S) (u v : Nat) (h : (run S).bonded S u v = true) :
    SameMol S u v := by
  have key : ∀ a b, (a, b) ∈ finalEdges S → SameMol S a b := by
    intro a b hab
    obtain ⟨ha, hb⟩ := finalEdges_lt S hwf _ hab
    have fa : a ∈ ((resKeys S.atoms).map (members S.atoms)).flatten :=
      (groups_perm S.atoms).mem_iff.mpr (List.mem_range.mpr ha)
    have fb : b ∈ ((resKeys S.atoms).map (members S.atoms)).flatten :=
      (groups_perm S.atoms).mem_iff.mpr (List.mem_range.mpr hb)
    obtain ⟨m, hm, h1, h2⟩ := split_joins (finalEdges S) _ (a, b) hab fa fb
    exact ⟨m, by rw [run_mols]; exact hm, h1, h2⟩
  have hmem : (u, v) ∈ finalEdges S ∨ (v, u) ∈ finalEdges S := by
    unfold Result.bonded at h
    simp only [Bool.or_eq_true, has_iff] at h
    unfold finalEdges allEdges
    simp only [List.mem_append]
    rcases h with (h | h) | h <;> rcases h with h | h
    · exact Or.inl (Or.inl (Or.inl h))
    · exact Or.inr (Or.inl (Or.inl h))
    · exact Or.inl (Or.inl (Or.inr h))
    · exact Or.inr (Or.inl (Or.inr h))
    · exact Or.inl (Or.inr h)
    · exact Or.inr (Or.inr h)
  rcases hmem with h | h
  · exact key u v h
  · obtain ⟨m, hm, h1, h2⟩ := key v u h
    exact ⟨m, hm, h2, h1⟩

/-- **Every pre-existing bond is kept**: it is a bond of the final graph and both its ends are
in one returned molecule. -/
theorem keeps_edges (S : Sys) (hwf : WF S) : ∀ e ∈ S.pre,
    (run S).bonded S e.1 e.2 = true ∧ SameMol S e.1 e.2 := by
  intro e he
  have hb : (run S).bonded S e.1 e.2 = true := by
    unfold Result.bonded
    have : has S.pre e.1 e.2 = true := has_iff.mpr (Or.inl he)
    simp [this]
  exact ⟨hb, edges_inside S hwf _ _ hb⟩

/-- **The residues of one molecule are connected to each other**: any two atoms of a returned
molecule are linked by a chain of steps inside a residue or along a bond. -/
theorem split_connected (S : Sys) (u v : Nat) (h : SameMol S u v) :
    Conn (SameRes S) (finalEdges S) u v := by
  obtain ⟨m, hm, hu, hv⟩ := h
  rw [run_mols] at hm
  apply split_conn (SameRes S) (finalEdges S) (finalEdges S) _ (fun _ h => h) _ m hm u hu v hv
  intro p hp x hx y hy
  obtain ⟨k, _, rfl⟩ := List.mem_map.mp hp
  obtain ⟨x1, x2⟩ := mem_members.mp hx
  obtain ⟨y1, y2⟩ := mem_members.mp hy
  exact Conn.res ⟨x1, y1, by rw [x2, y2]⟩

/-- Conversely, atoms linked by such a chain are in one molecule: the returned molecules are
exactly the connected components of the residue graph. -/
theorem split_components_iff (S : Sys) (hwf : WF S) (u v : Nat) (hu : u < S.atoms.length) :
    SameMol S u v ↔ Conn (SameRes S) (finalEdges S) u v := by
  refine ⟨split_connected S u v, fun hc => ?_⟩
  have hmem : ∀ x, x ∈ (run S).mols.flatten ↔ x < S.atoms.length := (keeps_atoms S).1
  have hnd := (keeps_atoms S).2
  have hsymm : ∀ {a b}, SameMol S a b → SameMol S b a := by
    rintro a b ⟨m, hm, h1, h2⟩; exact ⟨m, hm, h2, h1⟩
  have htrans : ∀ {a b c}, SameMol S a b → SameMol S b c → SameMol S a c := by
    rintro a b c ⟨m, hm, h1, h2⟩ ⟨m', hm', h3, h4⟩
    have := flatten_nodup_unique _ hnd m hm m' hm' b h2 h3
    subst this
    exact ⟨m, hm, h1, h4⟩
  have hlt : ∀ {a b}, SameMol S a b → a < S.atoms.length ∧ b < S.atoms.length := by
    rintro a b ⟨m, hm, h1, h2⟩
    exact ⟨(hmem a).mp (List.mem_flatten.mpr ⟨m, hm, h1⟩), (hmem b).mp (List.mem_flatten.mpr ⟨m, hm, h2⟩)⟩
  have main : ∀ x y, Conn (SameRes S) (finalEdges S) x y →
      (x < S.atoms.length ∨ y < S.atoms.length) → SameMol S x y := by
    intro x y hxy
    induction hxy with
    | refl x =>
      intro h
      have hx : x < S.atoms.length := by rcases h with h | h <;> exact h
      obtain ⟨m, hm, hxm⟩ := List.mem_flatten.mp ((hmem x).mpr hx)
      exact ⟨m, hm, hxm, hxm⟩
    | res hs => intro _; exact residue_whole S _ _ hs
    | edge he =>
      intro _
      apply edges_inside S hwf
      unfold Result.bonded
      unfold finalEdges allEdges at he
      rw [List.mem_append, List.mem_append] at he
      rcases he with (he | he) | he
      · have : has S.pre _ _ = true := has_iff.mpr (Or.inl he); simp [this]
      · have : has (run S).nameE _ _ = true := has_iff.mpr (Or.inl he); simp [this]
      · have : has (run S).distE _ _ = true := has_iff.mpr (Or.inl he); simp [this]
    | symm _ ih => intro h; exact hsymm (ih h.symm)
    | trans _ _ ih1 ih2 =>
      intro h
      rcases h with h | h
      · have s1 := ih1 (Or.inl h)
        exact htrans s1 (ih2 (Or.inl (hlt s1).2))
      · have s2 := ih2 (Or.inr h)
        exact htrans (ih1 (Or.inr (hlt s2).1)) s2
  exact main u v hc (Or.inl hu)

/-- **Atoms of different input molecules are never fused into one residue**, whatever their
chain, residue number and name: they get different residue serials, are never joined by a name
bond, are not a block non-bond, and a hydrogen of one never bonds to the other by distance. -/
theorem no_fusion_across_molecules (S : Sys) (u v : Nat) (hu : u < S.atoms.length) (hv : v < S.atoms.length)
    (hm : (atomAt S.atoms u).mol ≠ (atomAt S.atoms v).mol) :
    serial S.atoms u ≠ serial S.atoms v
      ∧ ¬ SameRes S u v
      ∧ (u, v) ∉ (run S).nameE ∧ (u, v) ∉ (run S).NE
      ∧ ((isH (atomAt S.atoms u) = true ∨ isH (atomAt S.atoms v) = true) → (u, v) ∉ (run S).distE) := by
  have hk : keyAt S.atoms u ≠ keyAt S.atoms v := by
    intro h
    apply hm
    have : (keyAt S.atoms u).1 = (keyAt S.atoms v).1 := by rw [h]
    exact this
  have hs : serial S.atoms u ≠ serial S.atoms v := fun h => hk ((serial_eq_iff_key hu hv).mp h)
  refine ⟨hs, fun h => hk h.2.2, ?_, ?_, ?_⟩
  · intro h
    exact hk ((name_bonds_exact S u v).mp h).2.1.2.2
  · intro h
    exact hk ((nonbonds_exact S u v).mp h).2.1.2.2
  · intro hH h
    cases had : S.allowDist with
    | false => rw [no_dist_when_off S had] at h; cases h
    | true =>
      obtain ⟨_, _, ⟨_, _, _, _, _, _, c5, _⟩, _⟩ := (dist_bond_iff S had u v).mp h
      exact c5 ⟨hs, hH⟩

/-- Residue serials identify residues: equal serial ⟺ equal identifying tuple (input molecule included). -/
theorem serial_eq_iff (S : Sys) (u v : Nat) (hu : u < S.atoms.length) (hv : v < S.atoms.length) :
    serial S.atoms u = serial S.atoms v ↔ keyAt S.atoms u = keyAt S.atoms v :=
  serial_eq_iff_key hu hv

/-- Elements without a radius never bond by distance. -/
theorem no_radius_no_bond (S : Sys) (u v : Nat)
    (h : radiusOf S.radii (atomAt S.atoms u).element = none ∨ radiusOf S.radii (atomAt S.atoms v).element = none) :
    (u, v) ∉ (run S).distE := by
  intro hm
  cases had : S.allowDist with
  | false => rw [no_dist_when_off S had] at hm; cases hm
  | true =>
    obtain ⟨_, _, ⟨_, _, c1, c2, _⟩, _⟩ := (dist_bond_iff S had u v).mp hm
    rcases h with h | h
    · rw [h] at c1; cases c1
    · rw [h] at c2; cases c2

/-- The final graph: `u - v` is bonded iff it was bonded before, or is a name bond, or a distance bond. -/
theorem bonded_iff (S : Sys) (u v : Nat) :
    (run S).bonded S u v = true ↔
      has S.pre u v = true ∨ has (run S).nameE u v = true ∨ has (run S).distE u v = true := by
  unfold Result.bonded
  simp only [Bool.or_eq_true, or_assoc]

/-! ## the integer distance test is the stated inequality

`d2` is the exact squared distance in (1e-4 nm)².  The real distance `√d2` is not a number of
the model; it is pinned down by its rational approximations `D/s` (in 1e-4 nm).  The threshold
`fudge · (ra + rb)/2` with radii in 1e-3 nm is `5 p (ra+rb) / q` in 1e-4 nm, so
`D/s ≤ threshold ⟺ 2 q D ≤ 10 p s (ra+rb)`.  The two theorems say: the test
`4 q² d2 ≤ 100 p² (ra+rb)²` holds iff every lower approximation of the distance is at most the
threshold, equivalently iff the distance is at most the threshold. -/

/-- If the test holds, every lower approximation `D/s ≤ dist` is at most the threshold. -/
theorem distance_test_sound (p q ra rb d2 D s : Nat) (hD : D * D ≤ s * s * d2)
    (hw : 4 * (q * q) * d2 ≤ 100 * (p * p) * ((ra + rb) * (ra + rb))) :
    2 * q * D ≤ 10 * p * s * (ra + rb) :=
  within_below p q ra rb d2 D s hD (by unfold within; simpa using hw)

/-- If some upper approximation `D/s ≥ dist` is at most the threshold, the test holds. -/
theorem distance_test_complete (p q ra rb d2 D s : Nat) (hs : 0 < s) (hD : s * s * d2 ≤ D * D)
    (hle : 2 * q * D ≤ 10 * p * s * (ra + rb)) :
    4 * (q * q) * d2 ≤ 100 * (p * p) * ((ra + rb) * (ra + rb)) := by
  have := within_above p q ra rb d2 D s hs hD hle
  unfold within at this
  simpa using this

example : 0 < 1 ∧ 1 * 1 * 9 ≤ 3 * 3 ∧ 2 * 1 * 3 ≤ 10 * 1 * 1 * (1 + 1) := by decide

/-! ## non-vacuity: a concrete system satisfying the hypotheses used above

Residue AAA of input molecule 0 has atoms N, CA, C (in the block: N-CA, CA-C bonded, N..C a
non-bond although 0.139 nm apart) and OXT (unknown to the block, 0.12 nm from C); input
molecule 1 has the same chain/number/name with a hydrogen 0.09 nm from OXT and a far carbon. -/

def exAtom (mol : Nat) (name el : String) (x y : Int) : Atom :=
  { mol := mol, chain := some "A", resid := some 1, resname := some "AAA", icode := none,
    name := some name, element := some el, x := x, y := y, z := 0 }

def exS : Sys :=
  { atoms := [exAtom 0 "N" "N" 0 0, exAtom 0 "CA" "C" 1400 0, exAtom 0 "C" "C" 700 1200,
              exAtom 0 "OXT" "O" 700 2400, exAtom 1 "HX" "H" 700 3300, exAtom 1 "CX" "C" 9000 9000],
    pre := [(0, 3)],
    ff := [("AAA", { names := ["N", "CA", "C"], edges := [(0, 1), (1, 2)] })],
    radii := [("H", 120), ("C", 170), ("N", 155), ("O", 152)],
    allowName := true, allowDist := true, p := 1, q := 1 }

example : WF exS := by decide
example : exS.allowDist = true := rfl
example : (run exS).nameE = [(0, 1), (1, 2)] := by decide
example : (run exS).NE = [(0, 2)] := by decide
example : (run exS).distE = [(2, 3)] := by decide
example : (run exS).mols = [[0, 1, 2, 3], [4, 5]] := by decide
example : (List.range 6).map (serial exS.atoms) = [0, 0, 0, 0, 1, 1] := by decide
-- hypotheses of `no_fusion_across_molecules`: OXT (molecule 0) and HX (molecule 1), same chain,
-- number and name, 0.09 nm apart (threshold 0.136 nm)
example : 3 < exS.atoms.length ∧ 4 < exS.atoms.length
    ∧ (atomAt exS.atoms 3).mol ≠ (atomAt exS.atoms 4).mol
    ∧ isH (atomAt exS.atoms 4) = true
    ∧ within exS.p exS.q 152 120 (dist2 (atomAt exS.atoms 3) (atomAt exS.atoms 4)) = true := by decide
-- hypothesis of `residue_whole` / `split_connected`
example : SameRes exS 0 3 := by decide
example : SameMol exS 0 3 := ⟨[0, 1, 2, 3], by decide, by decide, by decide⟩

/-! ## the result is a function of the atoms and bonds handed in, not of their history

Input molecules may have been through `make_bonds` before and still carry `mol_idx` and
`_res_serial`.  The model reads neither (`InAtom.label` overwrites the first, the loop over
residues the second), so two inputs that differ only in such leftovers give the same system
and hence the same result; and every atom of the union is labelled with the position of its
input molecule in *this* call. -/

theorem run_ignores_leftovers (ms ms' : List InMol) (ff : FF) (radii : List (String × Nat))
    (an ad : Bool) (p q : Nat) (h : ms.map InMol.erase = ms'.map InMol.erase) :
    sysOf ms ff radii an ad p q = sysOf ms' ff radii an ad p q
      ∧ run (sysOf ms ff radii an ad p q) = run (sysOf ms' ff radii an ad p q) := by
  have e : unionFrom 0 0 ms = unionFrom 0 0 ms' := by
    rw [← unionFrom_erase ms, ← unionFrom_erase ms', h]
  have : sysOf ms ff radii an ad p q = sysOf ms' ff radii an ad p q := by
    unfold sysOf; rw [e]
  exact ⟨this, by rw [this]⟩

theorem union_labels_by_position (ms : List InMol) (ff : FF) (radii : List (String × Nat))
    (an ad : Bool) (p q : Nat) :
    (sysOf ms ff radii an ad p q).atoms.map (·.mol) = molTags 0 ms :=
  unionFrom_mols ms 0 0

-- two waters with the same chain/number/name that both carry `mol_idx = 0` from earlier runs
example :
    let w (sm : Option Nat) (x : Int) : InMol :=
      { atoms := [{ staleMol := sm, staleSerial := sm, chain := some "A", resid := some 1, resname := some "WAT",
                    icode := none, name := some "OW", element := some "O", x := x, y := 0, z := 0 }],
        edges := [] }
    [w (some 0) 0, w (some 0) 50000].map InMol.erase = [w none 0, w none 50000].map InMol.erase
      ∧ (sysOf [w (some 0) 0, w (some 0) 50000] [] [("O", 152)] true true 6 5).atoms.map (·.mol) = [0, 1]
      ∧ (run (sysOf [w (some 0) 0, w (some 0) 50000] [] [("O", 152)] true true 6 5)).mols = [[0], [1]] := by
  decide

end C10
