import VermouthProofs.C10
namespace C10
end C10
