import VermouthProofs.C03_Text
/-!
# C03 at text level — the k-th coordinate record and the k-th `[ atoms ]` row, read out of the files

Composition of three models over ONE molecule description (`TMol`, `VermouthModel/C03_Text.lean`):

* `NameMolType` + `write_gmx_topology` (this property): which molecule's ITP is the file of a name;
* C02's ITP writer `C02.write` / `C02.render` and C02's independent reader `C02.parse`;
* C16's `C16.writePdb` / `C16.writeGro` on the layout extracted from the repository and C16's
  reader models `C16.readPdb` / `C16.readGro`.

`kth_record_agree_text` is the literal composition: the TEXT of the PDB file of a system is read
back, the TEXT of the ITP file written for the molecule type of molecule `i` is read back, and the
records of molecule `i` carry, row by row, the atom name, residue name and residue number of the
`[ atoms ]` rows.  Hypotheses, all decidable: C16's `Fits` (every value fits its column), C02's
`wellFormed` / `charOk` for the molecule whose ITP is written, `ExactAttrs` (F-C03-2).
For residue numbers wider than the column the exact relation is `truncResid` (section 3).
-/
namespace C03
open C16.Layout

/-- molecule-type ids of a system, as the abstract model computes them -/
def sysNames (close : Val → Val → Bool) (dedup : Bool) (sys : List TMol) : List Nat :=
  nameMolTypes (shareMolType close) dedup (sys.map TMol.mol)

/-- the checks `write_molecule_itp` makes before it writes: `nrexcl` set, the five attributes on
every atom -/
def itpReady (t : TMol) : Bool :=
  t.mol.nrexcl.isSome && t.mol.nodes.all fun a => itpRequired.all (hasAttr a)

theorem writeItp_of_ready (hd : List String) (name : String) (t : TMol) (h : itpReady t = true) :
    writeItp hd name t = C02.write (itpMol hd name t) := by
  unfold itpReady at h
  simp only [Bool.and_eq_true] at h
  unfold writeItp
  have h1 : t.mol.nrexcl.isNone = false := by
    cases hn : t.mol.nrexcl <;> simp_all
  simp [h1, h.2]

/-! ## 1. same name ⇒ same keys (from the abstract theorem) -/

/-- the molecule whose ITP is the file of the type of molecule `i` has, row by row, the keys of
molecule `i` -/
theorem keys_agree (close : Val → Val → Bool) (hc : ∀ v, isNumeric v = true → close v v = true)
    (dedup : Bool) (sys : List TMol)
    (hex : ∀ a ∈ sys, ∀ b ∈ sys, ExactAttrs close a.mol b.mol)
    (i : Nat) (t r : TMol) (g src : Nat)
    (hm : sys[i]? = some t) (hg : (sysNames close dedup sys)[i]? = some g)
    (hsrc : (g, src) ∈ itpWrites (sysNames close dedup sys)) (hr : sys[src]? = some r) :
    t.keys = r.keys := by
  have hm' : (sys.map TMol.mol)[i]? = some t.mol := by simp [List.getElem?_map, hm]
  obtain ⟨r', hr', hk⟩ := kth_record_agree_model close hc dedup (sys.map TMol.mol)
    (by
      intro a ha b hb
      obtain ⟨a', ha', rfl⟩ := List.mem_map.mp ha
      obtain ⟨b', hb', rfl⟩ := List.mem_map.mp hb
      exact hex a' ha' b' hb')
    i t.mol g src hm' hg hsrc
  have : r' = r.mol := by
    simp only [List.getElem?_map, hr, Option.map_some, Option.some.injEq] at hr'
    exact hr'.symm
  subst this
  apply keys_of_writeAtoms
  apply List.ext_getElem?
  intro k
  exact (hk k).1

/-! ## 2. the literal composition -/

/-- what the ITP text gives back, as keys -/
theorem itp_text_keys (hd : List String) (name : String) (r : TMol)
    (hready : itpReady r = true)
    (hwf : C02.wellFormed C02.arityTable (itpMol hd name r) = true)
    (hch : C02.charOk (itpMol hd name r) = true) :
    ∃ ls p, writeItp hd name r = .ok ls ∧ C02.parse C02.arityTable (C02.render ls) = .ok p ∧
      p.atoms.map itpKey = r.keys.map some ∧ p.moltype = some (name, (itpMol hd name r).nrexcl) := by
  obtain ⟨ls, h1, h2⟩ := C02.parse_write_repo (itpMol hd name r) hwf hch
  refine ⟨ls, C02.canon (itpMol hd name r), ?_, h2, canon_keys hd name r, rfl⟩
  rw [writeItp_of_ready hd name r hready, h1]

/-- **k-th record agreement on the text of the files (PDB vs ITP).**
For every system whose values fit the PDB columns (`C16.Fits`): write the PDB text with C16's
writer model and read it back with C16's reader model; write the ITP text of the molecule type of
molecule `i` (from the molecule `r` that `write_gmx_topology` takes for that name, under the name
`molName molname g`) with C02's writer model, render it, and read it back with C02's reader.
Then the ATOM records of molecule `i` and the `[ atoms ]` rows are the same list of
(atom name, residue name, residue number). -/
theorem kth_record_agree_text (close : Val → Val → Bool) (hc : ∀ v, isNumeric v = true → close v v = true)
    (dedup : Bool) (molname : String) (hd : List String) (sys : List TMol)
    (hex : ∀ a ∈ sys, ∀ b ∈ sys, ExactAttrs close a.mol b.mol)
    (hfits : C16.Fits [] (sys.map pdbMol) = true)
    (i : Nat) (t r : TMol) (g src : Nat)
    (hm : sys[i]? = some t) (hg : (sysNames close dedup sys)[i]? = some g)
    (hsrc : (g, src) ∈ itpWrites (sysNames close dedup sys)) (hr : sys[src]? = some r)
    (hready : itpReady r = true)
    (hwf : C02.wellFormed C02.arityTable (itpMol hd (molName molname g) r) = true)
    (hch : C02.charOk (itpMol hd (molName molname g) r) = true) :
    ∃ pdbl pdbr itpl itpp,
      pdbLines pdb false sys = .ok pdbl ∧ C16.readPdb pdb [] false pdbl = .ok pdbr ∧
      writeItp hd (molName molname g) r = .ok itpl ∧
      C02.parse C02.arityTable (C02.render itpl) = .ok itpp ∧
      itpp.moltype.map (·.1) = some (molName molname g) ∧
      (pdbr.mols[i]?).map (·.map fun a => some (pdbKey a)) = some (itpp.atoms.map itpKey) := by
  obtain ⟨pdbl, pdbr, h1, h2, h3, _⟩ := C16.pdb_file_roundtrip [] (sys.map pdbMol) hfits
  obtain ⟨itpl, itpp, h4, h5, h6, h7⟩ := itp_text_keys hd (molName molname g) r hready hwf hch
  refine ⟨pdbl, pdbr, itpl, itpp, h1, h2, h4, h5, by rw [h7]; rfl, ?_⟩
  have hk := keys_agree close hc dedup sys hex i t r g src hm hg hsrc hr
  have hmols : pdbr.mols.map (·.map pdbKey) = sys.map TMol.keys := by rw [h3]; exact expectedMols_keys sys 1
  have hi : (pdbr.mols.map (·.map pdbKey))[i]? = some t.keys := by
    rw [hmols, List.getElem?_map, hm]; rfl
  rw [List.getElem?_map] at hi
  cases hpi : pdbr.mols[i]? with
  | none => rw [hpi] at hi; cases hi
  | some pm =>
    rw [hpi] at hi
    simp only [Option.map_some, Option.some.injEq] at hi ⊢
    rw [h6, ← hk, ← hi, List.map_map]
    rfl

/-- the same with CONECT records (what `write_pdb` writes by default and martinize2 uses): the
hypotheses of C16's `conect_set_roundtrip` are added -/
theorem kth_record_agree_text_conect (close : Val → Val → Bool) (hc : ∀ v, isNumeric v = true → close v v = true)
    (dedup : Bool) (molname : String) (hd : List String) (sys : List TMol)
    (hex : ∀ a ∈ sys, ∀ b ∈ sys, ExactAttrs close a.mol b.mol)
    (hfits : C16.Fits [] (sys.map pdbMol) = true)
    (hgraph : ∀ m ∈ sys.map pdbMol, C16.graphOk m) (hser : C16.serialEnd 1 (sys.map pdbMol) ≤ 100000)
    (i : Nat) (t r : TMol) (g src : Nat)
    (hm : sys[i]? = some t) (hg : (sysNames close dedup sys)[i]? = some g)
    (hsrc : (g, src) ∈ itpWrites (sysNames close dedup sys)) (hr : sys[src]? = some r)
    (hready : itpReady r = true)
    (hwf : C02.wellFormed C02.arityTable (itpMol hd (molName molname g) r) = true)
    (hch : C02.charOk (itpMol hd (molName molname g) r) = true) :
    ∃ pdbl pdbr itpl itpp,
      pdbLines pdb true sys = .ok pdbl ∧ C16.readPdb pdb [] false pdbl = .ok pdbr ∧
      writeItp hd (molName molname g) r = .ok itpl ∧
      C02.parse C02.arityTable (C02.render itpl) = .ok itpp ∧
      (pdbr.mols[i]?).map (·.map fun a => some (pdbKey a)) = some (itpp.atoms.map itpKey) := by
  obtain ⟨pdbl, pdbr, h1, h2, h3, _⟩ := C16.conect_set_roundtrip [] (sys.map pdbMol) hfits hgraph hser
  obtain ⟨itpl, itpp, h4, h5, h6, _⟩ := itp_text_keys hd (molName molname g) r hready hwf hch
  refine ⟨pdbl, pdbr, itpl, itpp, h1, h2, h4, h5, ?_⟩
  have hk := keys_agree close hc dedup sys hex i t r g src hm hg hsrc hr
  have hmols : pdbr.mols.map (·.map pdbKey) = sys.map TMol.keys := by rw [h3]; exact expectedMols_keys sys 1
  have hi : (pdbr.mols.map (·.map pdbKey))[i]? = some t.keys := by
    rw [hmols, List.getElem?_map, hm]; rfl
  rw [List.getElem?_map] at hi
  cases hpi : pdbr.mols[i]? with
  | none => rw [hpi] at hi; cases hi
  | some pm =>
    rw [hpi] at hi
    simp only [Option.map_some, Option.some.injEq] at hi ⊢
    rw [h6, ← hk, ← hi, List.map_map]
    rfl

/-- **k-th record agreement on the text of the files (GRO vs ITP).**  The GRO text (title, atom
count, C16's atom lines, then `tail`: nothing or a line that is not an atom line, i.e. the box)
is read back by C16's `readGro`; the record at position `recordOffset sys i + k` is the k-th
`[ atoms ]` row of the ITP text of the molecule type of molecule `i`. -/
theorem kth_record_agree_text_gro (close : Val → Val → Bool) (hc : ∀ v, isNumeric v = true → close v v = true)
    (dedup : Bool) (molname : String) (hd : List String) (sys : List TMol)
    (hex : ∀ a ∈ sys, ∀ b ∈ sys, ExactAttrs close a.mol b.mol)
    (title : List Char) (tail : List (List Char))
    (hfits : C16.FitsGro [] (sys.map groMol) = true)
    (htail : tail = [] ∨ ∃ b t, tail = b :: t ∧
      (C16.readFields C16.readFieldGro b (C16.groSlices 8)).toOption = none)
    (i : Nat) (t r : TMol) (g src : Nat)
    (hm : sys[i]? = some t) (hg : (sysNames close dedup sys)[i]? = some g)
    (hsrc : (g, src) ∈ itpWrites (sysNames close dedup sys)) (hr : sys[src]? = some r)
    (hready : itpReady r = true)
    (hwf : C02.wellFormed C02.arityTable (itpMol hd (molName molname g) r) = true)
    (hch : C02.charOk (itpMol hd (molName molname g) r) = true) :
    ∃ gatoms itpl itpp,
      C16.readGro gro [] false
        (title :: C16.natDigits (groLines gro sys).length :: (groLines gro sys ++ tail)) = .ok gatoms ∧
      writeItp hd (molName molname g) r = .ok itpl ∧
      C02.parse C02.arityTable (C02.render itpl) = .ok itpp ∧
      gatoms.map groKey = sys.flatMap TMol.keys ∧
      itpp.atoms.length = t.mol.nodes.length ∧
      ∀ k, k < t.mol.nodes.length →
        (gatoms[recordOffset sys i + k]?).map (fun a => some (groKey a)) = (itpp.atoms[k]?).map itpKey := by
  have hgro := C16.gro_file_roundtrip [] (sys.map groMol) title tail hfits htail
  obtain ⟨itpl, itpp, h4, h5, h6, _⟩ := itp_text_keys hd (molName molname g) r hready hwf hch
  have hk := keys_agree close hc dedup sys hex i t r g src hm hg hsrc hr
  have hlen : itpp.atoms.length = t.mol.nodes.length := by
    have := congrArg List.length h6
    simp only [List.length_map] at this
    rw [this, ← hk, keys_length]
  refine ⟨_, itpl, itpp, hgro, h4, h5, ?_, hlen, ?_⟩
  · rw [List.map_map]; exact groPairs_keys sys 1
  · intro k hk'
    have hall : ((C16.groPairs 1 (sys.map groMol)).map fun p => C16.gAtomOf p.1 p.2).map groKey
        = sys.flatMap TMol.keys := by rw [List.map_map]; exact groPairs_keys sys 1
    have hall' : List.map (fun a => some (groKey a)) ((C16.groPairs 1 (sys.map groMol)).map fun p => C16.gAtomOf p.1 p.2)
        = (sys.flatMap TMol.keys).map some := by
      rw [← hall]; simp only [List.map_map, Function.comp_def]
    rw [← List.getElem?_map, ← List.getElem?_map, h6, ← hk, hall']
    rw [List.getElem?_map, List.getElem?_map]
    congr 1
    exact flatMap_getElem_offset TMol.keys sys i k t hm (by rw [keys_length]; exact hk')

/-! ## 3. residue numbers wider than the column: the exact relation -/

/-- **the residue number read from an integer column is `truncResid`**: any right-aligned,
blank-filled, truncating `d` field of width `w ≥ 1`; `i` fits → `i`, else the last `w` characters
of `str(i)`, i.e. `|i| mod 10^w`. -/
theorem int_field_reads_truncResid (sp : C16.Spec) (i : Int) (hty : sp.ty = .d) (hf : sp.fill = ' ')
    (ht : sp.trunc = true) (hw : 1 ≤ sp.width) (hal : sp.leftAligned = false) :
    C16.parseInt (C16.strip (C16.renderField sp (.int i))) = some (truncResid sp.width i) := by
  unfold truncResid
  by_cases hfit : (C16.intRepr i).length ≤ sp.width
  · simp only [hfit, if_true]
    exact C16.field_roundtrip_int sp i hty hf hfit
  · simp only [hfit, if_false]
    have hb : C16.fieldBody sp (.int i) = C16.intRepr i := by unfold C16.fieldBody; rw [hty]
    have hover : sp.width < (C16.fieldBody sp (.int i)).length := by rw [hb]; omega
    rw [C16.overflow_truncates sp (.int i) ht (by omega) hover, hal, hb]
    simp only [Bool.false_eq_true, if_false]
    have hnows : ∀ c ∈ (C16.intRepr i).drop ((C16.intRepr i).length - sp.width), C16.isWs c = false :=
      fun c hc => C16.intRepr_no_ws i c (List.mem_of_mem_drop hc)
    rw [C16.strip_of_no_ws _ hnows]
    exact parseInt_truncated sp.width hw i (by omega)

/-- the residue-number columns of the PDB ATOM record and of the GRO atom line (extracted layout) -/
def pdbResidSlice : C16.RSlice := ⟨.resid, .int, 22, 26⟩
def groResidSlice : C16.RSlice := ⟨.resid, .int, 0, 5⟩

theorem pdbResidSlice_mem : pdbResidSlice ∈ C16.mkSlices 0 pdbReaderFields := by decide
theorem groResidSlice_mem : groResidSlice ∈ C16.groSlices 8 := by decide

/-- **PDB, any residue number**: the residue-number columns of the ATOM line of ANY atom (whatever
its other values do) read as `truncResid 4 resid`: equal to the residue number of the `[ atoms ]`
row when it fits (−999 … 9999), else `|resid| mod 10^4` -/
theorem pdb_resid_truncated (serial : Nat) (p : Atom × Deco) :
    C16.readFieldPdb (C16.atomLine pdb serial (pdbAtom p)) pdbResidSlice
      = .ok (.int (truncResid 4 ((intAttr p.1 "resid").getD 1))) := by
  have hcov : C16.covers atomFmt .resid 22 26 = some ⟨' ', .right, 4, 0, .d, true⟩ := by decide
  have hs := C16.read_slice atomFmt (C16.atomEnv serial (pdbAtom p)) .resid 22 26 _ C16.atom_fmt_allTrunc.1 hcov
  have hp := int_field_reads_truncResid ⟨' ', .right, 4, 0, .d, true⟩ ((intAttr p.1 "resid").getD 1)
    rfl rfl rfl (by decide) rfl
  have henv : C16.atomEnv serial (pdbAtom p) .resid = .int ((intAttr p.1 "resid").getD 1) := rfl
  rw [henv] at hs
  have hline : C16.atomLine pdb serial (pdbAtom p) = C16.render atomFmt (C16.atomEnv serial (pdbAtom p)) := rfl
  unfold C16.readFieldPdb pdbResidSlice
  simp only [hline, hs]
  have hne : C16.strip (C16.renderField ⟨' ', .right, 4, 0, .d, true⟩ (.int ((intAttr p.1 "resid").getD 1))) ≠ [] := by
    intro h0; rw [h0] at hp; simp [C16.parseInt] at hp
  simp [hne, C16.convert, hp]

/-- **GRO, any residue number**: `truncResid 5 resid` -/
theorem gro_resid_truncated (serial : Nat) (p : Atom × Deco) :
    C16.readFieldGro (C16.groLine gro serial (groAtom p)) groResidSlice
      = .ok (.int (truncResid 5 ((intAttr p.1 "resid").getD 1))) := by
  have hcov : C16.covers groFmt .resid 0 5 = some ⟨' ', .dflt, 5, 0, .d, true⟩ := by decide
  have hs := C16.read_slice groFmt (C16.atomEnv serial (groAtom p)) .resid 0 5 _ C16.atom_fmt_allTrunc.2.2 hcov
  have hp := int_field_reads_truncResid ⟨' ', .dflt, 5, 0, .d, true⟩ ((intAttr p.1 "resid").getD 1)
    rfl rfl rfl (by decide) rfl
  have henv : C16.atomEnv serial (groAtom p) .resid = .int ((intAttr p.1 "resid").getD 1) := rfl
  rw [henv] at hs
  have hline : C16.groLine gro serial (groAtom p) = C16.render groFmt (C16.atomEnv serial (groAtom p)) := rfl
  unfold C16.readFieldGro groResidSlice
  simp only [hline, hs]
  simp [C16.convert, hp]

/-- in the ITP the residue number is written in full, whatever its size -/
theorem itp_resid_full (p : Atom × Deco) :
    C16.parseInt (C02.toPAtom (itpAtom p)).resid.toList = some ((intAttr p.1 "resid").getD 1) := by
  simp [C02.toPAtom, itpAtom, intStr, String.toList_ofList, C16.parseInt_intRepr]

/-- `truncResid` is the residue number modulo `10^w` for non-negative residue numbers -/
theorem truncResid_mod (w : Nat) (i : Nat) (hw : 1 ≤ w) : truncResid w (i : Int) = ((i % 10 ^ w : Nat) : Int) := by
  unfold truncResid
  split
  · rename_i hfit
    rw [C16.intRepr_nat] at hfit
    -- a number with at most `w` digits is below `10^w`
    have hlt : i < 10 ^ w := by
      have hval := C16.digitsVal_natDigits i
      have hdrop := digitsVal_drop_natDigits (C16.natDigits i).length i (Nat.le_refl _)
      simp only [Nat.sub_self, List.drop_zero, hval] at hdrop
      have h1 : i < 10 ^ (C16.natDigits i).length := by
        have hpos : 0 < 10 ^ (C16.natDigits i).length := Nat.pow_pos (by omega)
        have := Nat.mod_lt i hpos
        omega
      exact Nat.lt_of_lt_of_le h1 (Nat.pow_le_pow_right (by omega) hfit)
    rw [Nat.mod_eq_of_lt hlt]
  · simp

example : truncResid 4 12345 = 2345 ∧ truncResid 4 (-12345) = 2345 ∧ truncResid 4 (-1000) = 1000
    ∧ truncResid 4 (-999) = -999 ∧ truncResid 4 9999 = 9999 ∧ truncResid 4 10000 = 0
    ∧ truncResid 5 100000 = 0 ∧ truncResid 5 99999 = 99999 := by decide +kernel

/-! ## 4. the ITP file is its comment header followed by the header-free file -/

/-- rendering of the comment header (`; line` for every header line, then an empty line) -/
def headerLines (hd : List String) : List C02.Line :=
  hd.map C02.Line.comment ++ (if hd.isEmpty then [] else [C02.Line.blank])

/-- **header ++ body**: the ITP written with a comment header is the rendering of the header lines
followed by exactly the file written without header.  (`write_gmx_topology` passes a header one
of whose elements ends in a newline, so C02's `charOk` - no newline inside a header line - holds
for the body, `hd = []`, to which `kth_record_agree_text` is applied; the header part consists of
`;` comment lines and empty lines only.) -/
theorem itp_header_then_body (hd : List String) (name : String) (t : TMol) (body : List C02.Line)
    (h : writeItp [] name t = .ok body) :
    writeItp hd name t = .ok (headerLines hd ++ body) := by
  unfold writeItp at h ⊢
  split at h
  · cases h
  · split at h
    · cases h
    · rename_i h1 h2
      simp only [h1, h2, Bool.false_eq_true, if_false] at h ⊢
      unfold C02.write at h ⊢
      have e1 : (itpMol hd name t).atoms = (itpMol [] name t).atoms := rfl
      rw [e1]
      split at h
      · cases h
      · split at h
        · cases h
        · rename_i h3 h4
          simp only [h3, h4, Bool.false_eq_true, if_false] at h ⊢
          unfold C02.writeBody at h ⊢
          have e2 : C02.sortInteractions (itpMol hd name t) = C02.sortInteractions (itpMol [] name t) := rfl
          have e3 : C02.correspondence (itpMol hd name t) = C02.correspondence (itpMol [] name t) := rfl
          have e4 : C02.widthsOf (itpMol hd name t) = C02.widthsOf (itpMol [] name t) := rfl
          have e5 : C02.writeSection (itpMol hd name t) = C02.writeSection (itpMol [] name t) := by
            funext c w s; rfl
          rw [e2, e3, e4, e5]
          cases hs : (C02.sortInteractions (itpMol [] name t)).mapM
              (C02.writeSection (itpMol [] name t) (C02.correspondence (itpMol [] name t))
                (C02.widthsOf (itpMol [] name t)).idx) with
          | error e => rw [hs] at h; cases h
          | ok secs =>
            rw [hs] at h
            simp only [bind, Except.bind, pure, Except.pure, Except.ok.injEq] at h ⊢
            subst h
            have e6 : C02.prelude (itpMol hd name t) = headerLines hd ++ C02.prelude (itpMol [] name t) := by
              simp [C02.prelude, headerLines, itpMol]
            have e7 : C02.atomsPart (itpMol hd name t) = C02.atomsPart (itpMol [] name t) := rfl
            have e8 : C02.remainingPart (itpMol hd name t) = C02.remainingPart (itpMol [] name t) := rfl
            rw [e6, e7, e8]
            simp only [List.append_assoc]

/-! ## 5. non-vacuity -/

section examples

private def tAtom (key : Int) (aid : Option Int) (name res : String) (resid : Int) : Atom :=
  { key := key,
    attrs := (match aid with | some i => [("atomid", Val.int i)] | none => []) ++
      [("atomname", Val.str name), ("atype", Val.str "P1"), ("chain", Val.str "A"),
       ("charge_group", Val.int 1), ("resid", Val.int resid), ("resname", Val.str res)] }

private def shellOf (inters : List (String × List C02.Inter)) : C02.Mol :=
  { moltype := "", nrexcl := "1", header := [], defines := [("POSRES_FC", "1000")], atoms := [],
    inters := inters, pre := [], post := [] }

/-- atom ids 3, 1, 2 on nodes 5, 1, 0: every writer lists 1, 0, 5; residue number 9999 at the
limit of the PDB column, a negative one -/
private def tA (dx : Int) : TMol :=
  { mol := { nrexcl := some 1, ff := none, metadata := [], edges := [(1, 5)], inters := [],
             nodes := [tAtom 5 (some 3) "BB" "ALA" 9999, tAtom 1 (some 1) "SC1" "ALA" (-3), tAtom 0 (some 2) "SC2" "LYS" 0] },
    deco := [⟨"1.0", "72", dx, 10, -20, none, none⟩, ⟨"0.0", "", 0, 0, 0, some 50, none⟩],
    shell := shellOf [("bonds", [⟨[5, 1], ["1", "0.47", "1250"], none, none, none, none⟩])] }
private def tB : TMol :=
  { mol := { nrexcl := some 1, ff := none, metadata := [], edges := [], inters := [], nodes := [tAtom 7 none "W" "W" 12] },
    deco := [], shell := shellOf [] }
private def tSys : List TMol := [tA 0, tB, tA 35]

example : sysNames npClose true tSys = [0, 1, 0] := by decide
example : (0, 0) ∈ itpWrites (sysNames npClose true tSys) ∧ (1, 1) ∈ itpWrites (sysNames npClose true tSys) :=
  ⟨(itpSource_first _ _ _).mpr (by decide), (itpSource_first _ _ _).mpr (by decide)⟩
example : ∀ a ∈ tSys, ∀ b ∈ tSys, ExactAttrs npClose a.mol b.mol := by decide
example : C16.Fits [] (tSys.map pdbMol) = true := by
  simp only [C16.Fits, tSys, List.map, C16.allSysB, sortedNodes_pdbMol, TMol.sorted_eq_ins]
  decide +kernel
example : C16.FitsGro [] (tSys.map groMol) = true := by
  simp only [C16.FitsGro, tSys, List.map, C16.groPairs, sortedNodes_groMol, TMol.sorted_eq_ins]
  decide +kernel
example : ∀ m ∈ tSys.map pdbMol, C16.graphOk m := by decide +kernel
example : C16.serialEnd 1 (tSys.map pdbMol) ≤ 100000 := by
  simp only [tSys, List.map, C16.serialEnd, sortedNodes_pdbMol, TMol.sorted_eq_ins]
  decide +kernel
example : itpReady (tA 0) = true ∧ itpReady tB = true := by decide
example : C02.wellFormed C02.arityTable (itpMol [] (molName "molecule" 0) (tA 0)) = true
    ∧ C02.charOk (itpMol [] (molName "molecule" 0) (tA 0)) = true := by decide +kernel
example : (tA 35).keys = [⟨"SC1".toList, "ALA".toList, -3⟩, ⟨"SC2".toList, "LYS".toList, 0⟩, ⟨"BB".toList, "ALA".toList, 9999⟩] := by
  decide +kernel
/-- the box line `write_gro` writes by default (`0 0 0`) is not an atom line -/
example : (C16.readFields C16.readFieldGro ['0', ' ', '0', ' ', '0'] (C16.groSlices 8)).toOption = none := by
  decide +kernel

end examples

end C03
