import VermouthProps.C09_Pipeline
/-!
# C09 — follow-up: particles nothing maps to, next to a modification mapping that puts atoms on ONE of them

A block may have several particles no atom maps to (charge dummies, virtual sites): `do_mapping` gives each of
them every atom of the match with weight 0 - each its OWN table.  A modification mapping may afterwards put an
atom with a non-zero weight on one of them.  In the model the tables are values (association lists), so an
assignment to one particle cannot show up in another: `sibling_assignment_irrelevant` (any further assignment
naming ANOTHER particle leaves a particle's position unchanged, whatever run produced the assignments) and the
kernel-evaluated pipeline run `spawned_sibling_witness` (the input of the seeded change `C09l`: `B1` at the
weighted mean, `D1` on the extra atom, its sibling `D2` still undefined).  On the real code the harness checks
the same with an identity test (no two particles share one `mapping_weights` object) and the definition
oracle (stream `mapdef-xmods`).
-/
namespace C09
open C01 (St Placement ModPlacement Ev applyEv eventsOf lastW addEntriesRev)

/-- an assignment `out_to_mol[k'][a] = w` for ANOTHER particle `k' ≠ k`, made at any point of the run, does not
change the position of particle `k` -/
theorem sibling_assignment_irrelevant (geom : List (Atom Rat)) (cw : Option String)
    (pre post : List (Int × Int × Rat)) (a k' : Int) (w : Rat) (k : Int) (hk : k' ≠ k) :
    declaredPos geom cw (pre ++ (a, k', w) :: post) k = declaredPos geom cw (pre ++ post) k := by
  rw [other_particles_irrelevant geom cw (pre ++ (a, k', w) :: post) k,
      other_particles_irrelevant geom cw (pre ++ post) k]
  congr 1
  have : ((a, k', w).2.1 == k) = false := by
    simp only [beq_eq_false_iff_ne, ne_eq]; exact hk
  simp only [List.filter_append, List.filter_cons, this]
  rfl

/-- a particle all of whose assignments carry weight 0 stays undefined whatever is assigned to other particles
in between (`zero_weights_undefined` after `sibling_assignment_irrelevant`) -/
theorem untouched_spawned_undefined (geom : List (Atom Rat)) (cw : Option String)
    (pre post : List (Int × Int × Rat)) (a k' : Int) (w : Rat) (k : Int) (hk : k' ≠ k)
    (hsome : (pre ++ post).any (fun e => e.2.1 == k) = true) (hall : ∀ e ∈ pre ++ post, e.2.1 = k → e.2.2 = 0) :
    declaredPos geom cw (pre ++ (a, k', w) :: post) k = some none := by
  rw [sibling_assignment_irrelevant geom cw pre post a k' w k hk]
  exact zero_weights_undefined geom cw _ k hsome hall

namespace AEx
/-- target block: `B1` and two particles `D1`, `D2` nothing maps to -/
def blockBDD : C12.Mol :=
  { nodes := [(0, { name := some "B1", resid := some 1 }), (1, { name := some "D1", resid := some 1 }),
              (2, { name := some "D2", resid := some 1 })], edges := [(0, 1), (0, 2)] }
/-- atoms 0, 1, 2 on `B1` with weights 1, 2, 1 -/
def blk : Placement := { molToBlock := [(0, [(0, 1)]), (1, [(0, 2)]), (2, [(0, 1)])], block := blockBDD, refs := [] }
/-- the modification mapping: anchor atom 2 on `D1` with weight 0, the extra atom 3 on `D1` with weight 1 -/
def modD1 : ModPlacement := ModPlacement.mk [(2, [(0, 0)]), (3, [(0, 1)])]
  [C01.ModNode.mk 0 { name := some "D1" } false {}] [] [] []
def geom : List (Atom ℚ) :=
  [.at 0 ⟨0, 0, 0⟩ [], .at 1 ⟨2, 0, 0⟩ [], .at 2 ⟨4, 4, 0⟩ [], .at 3 ⟨6, 2, 1⟩ []]
end AEx

open AEx in
/-- the input of the seeded change `C09l`: `B1` = (0 + 2·(2,0,0) + (4,4,0))/4 = (2, 1, 0); `D1` sits on the
extra atom; `D2`, which no mapping touches, is undefined; the extra atom has no weight in `D2` -/
theorem spawned_sibling_witness :
    (geom.map (·.key)).Nodup
    ∧ pipeline geom .unset none false [blk] [modD1]
        = .averaged [1, 2, 3] (.ok [some (some ⟨2, 1, 0⟩), some (some ⟨6, 2, 1⟩), some none])
    ∧ declaredWeight (logFrom {} (eventsOf [blk] [modD1])) 3 2 = some 1
    ∧ declaredWeight (logFrom {} (eventsOf [blk] [modD1])) 3 3 = none
    ∧ declaredWeight (logFrom {} (eventsOf [blk] [modD1])) 2 3 = some 0 := by
  refine ⟨by decide +kernel, by decide +kernel, by decide +kernel, by decide +kernel, by decide +kernel⟩

-- hypotheses of `untouched_spawned_undefined` on a log of that shape
example : (([(0, 3, (0 : Rat)), (1, 3, 0)] ++ [(2, 3, 0)]).any (fun e => e.2.1 == 3) = true)
    ∧ (∀ e ∈ [(0, 3, (0 : Rat)), (1, 3, 0)] ++ [(2, 3, 0)], e.2.1 = 3 → e.2.2 = 0) ∧ ((2 : Int) ≠ 3) := by decide

end C09
