import VermouthProofs.C17_Select
import VermouthProps.C17_Ext
import Generated.C17Selectors
/-!
# C17, follow-up round — the real selectors, and histories with in-place edits of residue attributes

Model: `VermouthModel/C17_Select.lean`.  A node now carries what
`get_attrs(node, ('chain', 'resid', 'resname', 'insertion_code'))` reads; the residue of a node
and the selection of a molecule are COMPUTED by the model (`resCode`, `isProtein`) instead of being
received from the harness.
-/
namespace C17
open C17Tables C17Selectors

/-!
## Part 8 — `selectors.is_protein` and the other selectors of the `-dssp` / `-ss` / `-collagen` statement
-/

/-- **`is_protein`**: a molecule is a protein iff EVERY atom has a residue name that is a `str` of
`PROTEIN_RESIDUES` -/
theorem is_protein_iff (tbl : List String) (ns : NMol) :
    isProtein tbl ns = true ↔ ∀ n ∈ ns, ∃ s, n.resname = .str s ∧ s ∈ tbl :=
  isProtein_iff tbl ns

/-- ... so one atom whose residue name is absent / `None` / not a string / not in the table makes
the molecule a non-protein -/
theorem is_protein_false_iff (tbl : List String) (ns : NMol) :
    isProtein tbl ns = false ↔ ∃ n ∈ ns, ∀ s, n.resname = .str s → s ∉ tbl :=
  isProtein_false_iff tbl ns

/-- an atom WITHOUT a residue name (attribute absent or `None`): not a protein -/
theorem is_protein_missing_resname (tbl : List String) (ns : NMol) (n : Node) (hn : n ∈ ns)
    (h : n.resname = .none) : isProtein tbl ns = false :=
  (isProtein_false_iff tbl ns).mpr ⟨n, hn, fun s hs => by rw [h] at hs; cases hs⟩

/-- `all([])`: a molecule without atoms IS a protein for the selector -/
theorem is_protein_empty (tbl : List String) : isProtein tbl [] = true := rfl

/-- the empty residue name is not in the extracted table -/
theorem is_protein_empty_name (ns : NMol) (n : Node) (hn : n ∈ ns) (h : n.resname = .str "") :
    isProtein proteinResidues ns = false :=
  (isProtein_false_iff _ ns).mpr ⟨n, hn, fun s hs => by
    rw [h] at hs
    injection hs with hs
    subst hs
    decide⟩

/-- `selector_has_position` -/
theorem has_position_iff (p : Option (List Bool)) :
    hasPosition p = true ↔ ∃ fs, p = some fs ∧ ∀ f ∈ fs, f = true := by
  cases p with
  | none => simp [hasPosition]
  | some fs => simp [hasPosition]

/-- `filter_minimal`: exactly the keys of the accepted nodes, in node order -/
theorem filter_minimal_spec {α : Type} (sel : α → Bool) (nodes : List (Int × α)) :
    (∀ k, k ∈ filterMinimal sel nodes ↔ ∃ p ∈ nodes, p.1 = k ∧ sel p.2 = true) ∧
      (filterMinimal sel nodes).Sublist (nodes.map (·.1)) := by
  refine ⟨fun k => ?_, ?_⟩
  · simp only [filterMinimal, List.mem_map, List.mem_filter]
    constructor
    · rintro ⟨p, ⟨hp, hs⟩, rfl⟩
      exact ⟨p, hp, rfl, hs⟩
    · rintro ⟨p, hp, rfl, hs⟩
      exact ⟨p, ⟨hp, hs⟩, rfl⟩
  · exact List.Sublist.map _ List.filter_sublist

theorem select_all_true (ns : NMol) : selectAll ns = true := rfl

/-- the selectors the command-line statement and `dssp.py` refer to (re-extracted on every run) are
the ones modelled here -/
theorem selectors_modelled : ∀ s ∈ cliSelectors ++ dsspSelectors, s ∈ modelledSelectors := by decide

/-!
## Part 9 — the residue of a node is computed from its current attributes
-/

/-- two nodes of a molecule are in the same residue iff `get_attrs` gives the same
(chain, resid, resname, insertion_code) for them - absent = `None` -/
theorem res_code_eq_iff (ns : NMol) (a b : Node) (ha : a ∈ ns) :
    resCode ns a = resCode ns b ↔ a.ident = b.ident := resCode_eq_iff ns a b ha

/-- **The residue partition is a function of the CURRENT node table**: node keys and the four
residue attributes, in node order.  Two `Molecule` objects that agree on those - whatever happened to
them before, whatever their other attributes - have the same `iter_residues` (exact tuples), the same
residue order, and the model needs the guard of the set order for the one iff for the other. -/
theorem residues_depend_on_current_attrs (ns ns' : NMol)
    (h : ns.map (fun n => (n.key, n.ident)) = ns'.map (fun n => (n.key, n.ident))) :
    (iterResidues (toSrc ns)).map (·.2) = (iterResidues (toSrc ns')).map (·.2) ∧
      residues (toSrc ns) = residues (toSrc ns') ∧
      iterResidues (toDst ns) = iterResidues (toSrc ns) := by
  have hc : (toSrc ns).map (fun a => (a.res, a.key)) = (toSrc ns').map (fun a => (a.res, a.key)) := by
    rw [toSrc_codes, toSrc_codes]; exact codes_congr ns ns' h
  have h1 := (iterResidues_congr _ _ hc).1
  refine ⟨by rw [h1], ?_, ?_⟩
  · rw [← (residues_eq_spec (toSrc ns)).1, ← (residues_eq_spec (toSrc ns')).1, h1]
  · exact (iterResidues_congr _ _ (by rw [toDst_codes, toSrc_codes])).1

/-!
## Part 10 — `AnnotateResidues` with the real selector
-/

/-- **`unselected_untouched` with `molecule_selector=selectors.is_protein`**: a molecule with an atom
whose residue name is absent / `None` / not in `PROTEIN_RESIDUES` comes out exactly as it went in
(and is not counted: see `selected_alignment_real`). -/
theorem unselected_untouched_real (prot : List String) (sys : List NMol) (sys' : Sys) (seq : List Nat)
    (h : annotateSystemN prot sys seq = .ok sys') :
    sys'.length = sys.length ∧
      ∀ (i : Nat) (ns : NMol), sys[i]? = some ns →
        (∃ n ∈ ns, ∀ s, n.resname = .str s → s ∉ prot) →
        sys'[i]? = some (false, toSrc ns) := by
  obtain ⟨hl, hu⟩ := unselected_untouched _ _ _ h
  refine ⟨by rw [hl]; simp [selSys], fun i ns hi hx => ?_⟩
  apply hu
  rw [selSys, List.getElem?_map, hi, Option.map_some, (isProtein_false_iff prot ns).mpr hx]

/-- ... and the k-th element of the reconciled sequence goes to the k-th residue of the molecules ALL
of whose atoms have a protein residue name, in system order; the residue counts that are reconciled
are those of exactly these molecules -/
theorem selected_alignment_real (prot : List String) (sys : List NMol) (sys' : Sys) (seq : List Nat)
    (h : annotateSystemN prot sys seq = .ok sys') :
    ∃ sequence, reconcile (selLengths (selSys prot sys)) seq = .ok sequence ∧
      ∀ (i : Nat) (ns : NMol), sys[i]? = some ns →
        (∀ n ∈ ns, ∃ s, n.resname = .str s ∧ s ∈ prot) →
        sys'[i]? = some (true, annotated (toSrc ns) sequence (offset (selSys prot sys) i)) := by
  obtain ⟨sequence, hr, hal⟩ := annot_alignment _ _ _ h
  refine ⟨sequence, hr, fun i ns hi hx => ?_⟩
  have : (selSys prot sys)[i]? = some (true, toSrc ns) := by
    rw [selSys, List.getElem?_map, hi, Option.map_some, (isProtein_iff prot ns).mpr hx]
  exact (hal i _ this).1

/-- the residue counts that enter the length reconciliation: one per molecule that `is_protein`
accepts (an empty molecule is accepted and counts 0 residues) -/
theorem sel_lengths_real (prot : List String) (sys : List NMol) :
    selLengths (selSys prot sys)
      = (sys.filter (isProtein prot)).map fun ns => (residues (toSrc ns)).length := by
  unfold selLengths selSys
  induction sys with
  | nil => rfl
  | cons ns rest ih =>
    simp only [List.map_cons, List.filter_cons]
    cases hp : isProtein prot ns <;> simp_all

/-- `-ss`: the statement of `cli_ss_alignment` holds with the selection computed by `is_protein`;
and the `aasecstruct` of a molecule with an atom lacking a protein residue name is not written -/
theorem cli_ss_real_selector (prot : List String) (sys : List NMol) (ss : List Char) (out : List Mol2)
    (h : cliSsN ssCg patterns prot sys ss = .ok out) :
    out.length = sys.length ∧
    (∀ (i : Nat) (ns : NMol), sys[i]? = some ns → (∃ n ∈ ns, ∀ s, n.resname = .str s → s ∉ prot) →
      ∃ m, out[i]? = some m ∧ srcMol m = toSrc ns) ∧
    (∃ sequence,
      reconcile (selLengths (selSys prot sys)) ((ss.map upperAscii).map Char.toNat) = .ok sequence ∧
      ∀ (i : Nat) (ns : NMol), sys[i]? = some ns → (∀ n ∈ ns, ∃ s, n.resname = .str s ∧ s ∈ prot) →
        keysNodup (toSrc ns) →
        ∃ cg,
          convertVals ssCg patterns
            (slice sequence (offset (selSys prot sys) i)
              (offset (selSys prot sys) i + (residues (toSrc ns)).length)) = some cg ∧
          out[i]? = some (withDst
            (withSrc (toMol2 ns) (annotated (toSrc ns) sequence (offset (selSys prot sys) i)))
            (annotated (toDst ns) (cg.map Char.toNat) 0))) := by
  have hsel : (selSys2 prot sys).map (fun p => (p.1, srcMol p.2)) = selSys prot sys := by
    simp [selSys2, selSys, toSrc, List.map_map, Function.comp_def]
  obtain ⟨sequence, hr, hlen, hal⟩ := cli_ss_alignment _ _ _ h
  rw [hsel] at hr hal
  refine ⟨by rw [hlen]; simp [selSys2], ?_, sequence, hr, ?_⟩
  · intro i ns hi hx
    -- the source attribute of an unselected molecule is untouched by `annotateSystem`, and the
    -- conversion only writes the target attribute
    unfold cliSsN cliSs at h
    simp only at h
    rw [hsel] at h
    cases ha : annotateSystem (selSys prot sys) ((ss.map upperAscii).map Char.toNat) with
    | error e => rw [ha] at h; cases h
    | ok s =>
      rw [ha] at h
      simp only at h
      obtain ⟨_, hu⟩ := unselected_untouched_real prot sys s _ ha
      have hs := hu i ns hi hx
      obtain ⟨_, hoi⟩ := martiniSystem_ok _ _ _ _ h
      have hx2 : (sysWithSrc (selSys2 prot sys) s)[i]? = some (withSrc (toMol2 ns) (toSrc ns)) := by
        unfold sysWithSrc
        rw [List.getElem?_zipWith, hs]
        simp [selSys2, hi]
      obtain ⟨y, hy1, hy2⟩ := hoi i _ hx2
      refine ⟨y, hy2, ?_⟩
      have hw : withSrc (toMol2 ns) (toSrc ns) = toMol2 ns := by
        simp only [withSrc, toSrc, srcMol, List.zipWith_map_right]
        rw [List.zipWith_self]
        simp
      rw [hw] at hy1
      exact convertAnnotationCode_src _ _ _ _ hy1
  · intro i ns hi hx hk
    have : (selSys2 prot sys)[i]? = some (true, toMol2 ns) := by
      rw [selSys2, List.getElem?_map, hi, Option.map_some, (isProtein_iff prot ns).mpr hx]
    exact hal i (toMol2 ns) this hk

/-- `-collagen` with the real selector -/
theorem cli_collagen_real (prot : List String) (sys : List NMol) :
    ((∀ ns ∈ sys, ∃ n ∈ ns, ∀ s, n.resname = .str s → s ∉ prot) →
        cliCollagenN prot sys = .error .valueerror) ∧
    (∀ out, cliCollagenN prot sys = .ok out →
      out.length = sys.length ∧
      (∀ (i : Nat) (ns : NMol), sys[i]? = some ns → (∃ n ∈ ns, ∀ s, n.resname = .str s → s ∉ prot) →
        out[i]? = some (toMol2 ns)) ∧
      (∀ (i : Nat) (ns : NMol), sys[i]? = some ns → (∀ n ∈ ns, ∃ s, n.resname = .str s ∧ s ∈ prot) →
        ∀ a ∈ (out[i]?).getD [], a.dst = some 'F'.toNat)) := by
  obtain ⟨h1, h2⟩ := cli_collagen (selSys2 prot sys)
  refine ⟨fun hall => h1 ?_, fun out ho => ?_⟩
  · intro p hp
    obtain ⟨ns, hns, rfl⟩ := List.mem_map.mp hp
    exact (isProtein_false_iff prot ns).mpr (hall ns hns)
  · obtain ⟨hl, hf, ht⟩ := h2 out ho
    refine ⟨by rw [hl]; simp [selSys2], fun i ns hi hx => hf i _ ?_, fun i ns hi hx => ht i (toMol2 ns) ?_⟩
    · rw [selSys2, List.getElem?_map, hi, Option.map_some, (isProtein_false_iff prot ns).mpr hx]
    · rw [selSys2, List.getElem?_map, hi, Option.map_some, (isProtein_iff prot ns).mpr hx]

/-!
## Part 11 — histories with in-place edits on the same `Molecule` objects

`runEdits T st ops` applies the steps to ONE evolving state; `eStep T st op` is the step on fresh
objects built from the node tables `st`.
-/

/-- every step of a history gives what the same step gives on FRESH objects built from the current
node tables -/
theorem history_step_is_fresh (T : Tables) (st : EState) (ops : List EOp) (k : Nat) (op : EOp)
    (h : ops[k]? = some op) :
    (runEdits T st ops)[k]? = some (eStep T (finalState T st (ops.take k)) op) :=
  runEdits_getElem? T st ops k op h

/-- what happens after a prefix of the history depends only on the node tables it left behind -/
theorem history_suffix_depends_on_state (T : Tables) (st : EState) (ops1 ops2 : List EOp) :
    runEdits T st (ops1 ++ ops2) = runEdits T st ops1 ++ runEdits T (finalState T st ops1) ops2 :=
  runEdits_append T st ops1 ops2

/-- reading (`iter_residues`, `sequence_from_residues`, `is_protein`) leaves the state alone ... -/
theorem read_is_pure (T : Tables) (st : EState) (op : EOp) (h : op.isRead = true) : mutate T st op = st :=
  mutate_read T st op h

/-- ... so **earlier reads do not matter**: the results of the other steps are the same with and
without them (there is nothing a read could have left behind - no cached partition) -/
theorem reads_do_not_matter (T : Tables) (st : EState) (ops : List EOp) :
    ((ops.zip (runEdits T st ops)).filter (fun p => !p.1.isRead)).map (·.2)
      = runEdits T st (ops.filter fun o => !o.isRead) :=
  runEdits_drop_reads T st ops

/-- after an in-place edit, the residues that are read are those of the edited table -/
theorem edit_then_residues (T : Tables) (ns : NMol) (es : List (Int × Attr × PyVal)) :
    (runEdits T [ns] [.iterres 0, .edit 0 es, .iterres 0]).map (·.1)
      = [.tuples ((iterResidues (toSrc ns)).map (·.2)) (iterResiduesExact (toSrc ns)), .done,
         .tuples ((iterResidues (toSrc (applyEdits ns es))).map (·.2))
           (iterResiduesExact (toSrc (applyEdits ns es)))] := by
  simp [runEdits, eStep, observe, mutate]

/-! non-vacuity -/

def exT : Tables := ⟨ssCg, patterns, proteinResidues⟩

/-- two residues of three atoms -/
def exMol : NMol :=
  [⟨0, .str "A", .int 1, .str "ALA", .none, none, none⟩, ⟨1, .str "A", .int 1, .str "ALA", .none, none, none⟩,
   ⟨2, .str "A", .int 1, .str "ALA", .none, none, none⟩, ⟨3, .str "A", .int 2, .str "GLY", .none, none, none⟩,
   ⟨4, .str "A", .int 2, .str "GLY", .none, none, none⟩, ⟨5, .str "A", .int 2, .str "GLY", .none, none, none⟩]

/-- atom 3 is moved to the first residue in place: the second annotation follows the new partition -/
example : (runEdits exT [exMol]
      [.annot 0 [72, 67], .edit 0 [(3, .resid, .int 1), (3, .resname, .str "ALA")], .annot 0 [69, 84]]).map
        (fun r => (r.1, r.2.map fun ns => ns.map (·.src)))
    = [(.done, [[some 72, some 72, some 72, some 67, some 67, some 67]]), (.done, [[some 72, some 72, some 72, some 67, some 67, some 67]]),
       (.done, [[some 69, some 69, some 69, some 69, some 84, some 84]])] := by decide +kernel

/-- fusing the two residues: a two-element sequence is now a length mismatch, and removing the
residue name of one atom makes the molecule a non-protein -/
example : (runEdits exT [exMol]
      [.isprot 0, .edit 0 [(3, .resid, .int 1), (3, .resname, .str "ALA"), (4, .resid, .int 1), (4, .resname, .str "ALA"),
        (5, .resid, .int 1), (5, .resname, .str "ALA")], .annot 0 [69, 84], .edit 0 [(0, .resname, .none)], .isprot 0,
        .annotsys [70]]).map (·.1)
    = [.flag true, .done, .err .valueerror, .done, .flag false, .err .valueerror] := by decide +kernel

example : isProtein proteinResidues [⟨0, .none, .none, .str "ALA", .none, none, none⟩] = true
    ∧ isProtein proteinResidues [⟨0, .none, .none, .str "ALA", .none, none, none⟩, ⟨1, .none, .none, .none, .none, none, none⟩] = false
    ∧ isProtein proteinResidues [⟨0, .none, .none, .str "", .none, none, none⟩] = false
    ∧ isProtein proteinResidues [⟨0, .none, .none, .int 3, .none, none, none⟩] = false
    ∧ isProtein proteinResidues [⟨0, .none, .none, .str "LIG", .none, none, none⟩] = false := by decide

example : hasPosition (some [true, true, true]) = true ∧ hasPosition (some [true, false, true]) = false
    ∧ hasPosition none = false ∧ hasPosition (some []) = true := by decide

/-- a molecule whose only atom has no residue name, in front of a protein: the one-element
sequence reaches the protein only -/
example : annotateSystemN proteinResidues
      [[⟨0, .none, .int 1, .none, .none, none, none⟩], [⟨0, .none, .int 1, .str "ALA", .none, none, none⟩]] [70]
    = .ok [(false, [⟨0, 0, none⟩]), (true, [⟨0, 0, some 70⟩])] := by decide +kernel

end C17
