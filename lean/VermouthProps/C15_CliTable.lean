import VermouthModel.C15_Cli
import Generated.C15Cli
/-!
# C15 — the constants of the command-line model are those of the source

`Generated/C15Cli.lean` is rewritten from `bin/martinize2` and `vermouth/processors/apply_rubber_band.py` on every
run of the check; this module is rebuilt whenever it changes.
-/
namespace C15

/-- **cli_source_table.** The table re-extracted from `bin/martinize2` / `apply_rubber_band.py` on every run
(`Generated/C15Cli.lean`) carries the option names, destinations, converters and defaults, the keyword ↔ option
mapping of the constructor call, the tests of the `if/elif` chain, the processor defaults and the statements that
follow the construction of the processor (network, then the molecule types named again) that the model hard-codes. -/
theorem cli_source_table :
    CliTable.options = [
      ⟨"-elastic", "elastic", "", "store_true", "False"⟩,
      ⟨"-ef", "rb_force_constant", "float", "", "700"⟩,
      ⟨"-el", "rb_lower_bound", "float", "", "0"⟩,
      ⟨"-eu", "rb_upper_bound", "float", "", "0.9"⟩,
      ⟨"-ermd", "res_min_dist", "int", "", "None"⟩,
      ⟨"-ea", "rb_decay_factor", "float", "", "0"⟩,
      ⟨"-ep", "rb_decay_power", "float", "", "1"⟩,
      ⟨"-em", "rb_minimum_force", "float", "", "0"⟩,
      ⟨"-eb", "rb_selection", "lambda x: x.split(',')", "", "None"⟩,
      ⟨"-eunit", "rb_unit", "", "", "'molecule'"⟩] ∧
    CliTable.dfltRat = [("-ef", dfltEf.num, dfltEf.den), ("-el", dfltEl.num, dfltEl.den),
      ("-eu", dfltEu.num, dfltEu.den), ("-ea", dfltEa.num, dfltEa.den), ("-ep", dfltEp.num, dfltEp.den),
      ("-em", dfltEm.num, dfltEm.den)] ∧
    CliTable.callKeywords = [("lower_bound", "args.rb_lower_bound"), ("upper_bound", "args.rb_upper_bound"),
      ("decay_factor", "args.rb_decay_factor"), ("decay_power", "args.rb_decay_power"),
      ("base_constant", "args.rb_force_constant"), ("minimum_force", "args.rb_minimum_force"),
      ("selector", "selector"), ("domain_criterion", "domain_criterion"), ("res_min_dist", "args.res_min_dist")] ∧
    CliTable.guards = ["args.elastic and args.go", "args.to_ff.startswith('elnedyn')", "args.elastic"] ∧
    CliTable.unitTests = ["args.rb_unit == 'molecule'", "args.rb_unit == 'all'", "args.rb_unit == 'chain'"] ∧
    CliTable.processorDefaults = [("res_min_dist", "None"), ("bond_type", "None"),
      ("selector", "selectors.select_backbone"), ("bond_type_variable", "'elastic_network_bond_type'"),
      ("res_min_dist_variable", "'elastic_network_res_min_dist'"), ("domain_criterion", "always_true")] ∧
    CliTable.constants = [("DEFAULT_BOND_TYPE", DEFAULT_BOND_TYPE), ("DEFAULT_RMD", DEFAULT_RMD)] ∧
    CliTable.tailStatements = ["rubber_band_processor.run_system(system)",
      "vermouth.NameMolType(deduplicate=not args.keep_duplicate_itp, molname=args.molname).run_system(system)"] ∧
    CliTable.namingOptions = [⟨"-sep", "keep_duplicate_itp", "", "store_true", "False"⟩,
      ⟨"-name", "molname", "str", "", "'" ++ String.ofList dfltMolname ++ "'"⟩] := by
  decide +kernel

end C15
