import VermouthProofs.C13_Disp
/-!
# C13 — force-field, topology and mapping files load to exactly what they declare

Top-level property theorems about the models of `VermouthModel/C13.lean` (section dispatchers of
`FFDirector` / `MappingDirector`, `_tokenize`, `_treat_atom_prefix`, `_get_atoms` + arity check,
`_compute_weights`, `_substitute_macros`).  Helper lemmas and the specification functions
(`linkSpec`, `blockSpec`, `modSpec`, `mapSpec`, `hdrIdxs`, `TopOk`, `NameStable`) are in
`VermouthProofs/C13_Disp.lean` and `VermouthProofs/C13_Comp.lean`.

The dispatcher theorems hold for EVERY dispatch table `T`, routing function, per-line handlers and
EVERY sequence of headers and content lines (`Params` is universally quantified); the whole-file
reader `readFF` of `C13_Reader.lean` is the instance `ffParams`.
-/
namespace C13
variable {C G : Type}

/-! ## 1. Section dispatcher -/

/-- **Declared once, in file order** (links).  For every dispatch table containing the three
declaration headers, every handler set and every sequence of lines accepted by the dispatcher:
the emitted links are, one for one and in order, the `[ link ]` headers of the file; their header
positions are strictly increasing (no link is emitted twice). -/
theorem decl_once_in_order (P : Params C G) (g0 : G) (lines : List Line) (s : St C G)
    (hT : TopOk P.T) (h : ffRun P g0 lines = some s) :
    s.links.map (·.1) = hdrIdxs "link" 0 lines ∧ (s.links.map (·.1)).Pairwise (· < ·) := by
  have e := decl_links_once_in_order P g0 lines s hT h
  exact ⟨e, e ▸ hdrIdxs_strict "link" 0 lines⟩

/-- the content of each emitted link is exactly what its own section contained: the lines routed to
the link context between its header and the next top-level header (or the end of the file). -/
theorem link_content_is_section_content (P : Params C G) (g0 : G) (lines : List Line) (s : St C G)
    (hT : TopOk P.T) (h : ffRun P g0 lines = some s) : s.links = linkSpec P [] none 0 lines :=
  ff_links_spec P g0 lines s hT h

/-- **Blocks**: the library holds, per name, the LAST block declared with that name, keys in order of
first declaration (`blocks[name] = block`), each block holding the lines routed to it until the next
`[ moleculetype ]`; one `blockSpec` entry per `[ moleculetype ]` header, in file order. -/
theorem blocks_declared_last_wins (P : Params C G) (g0 : G) (lines : List Line) (s : St C G)
    (hT : TopOk P.T) (hS : NameStable P .block "moleculetype") (h : ffRun P g0 lines = some s) :
    s.blocks = dictOfList ((blockSpec P [] none 0 lines).map (fun b => (P.nameOf b.2, b))) ∧
    (blockSpec P [] none 0 lines).map (·.1) = hdrIdxs "moleculetype" 0 lines :=
  ⟨ff_blocks_spec P g0 lines s hT hS h, blockSpec_hdrs P [] 0 lines⟩

/-- **Modifications**: same statement for `[ modification ]`. -/
theorem modifications_declared_last_wins (P : Params C G) (g0 : G) (lines : List Line) (s : St C G)
    (hT : TopOk P.T) (hS : NameStable P .modification "modification") (h : ffRun P g0 lines = some s) :
    s.mods = dictOfList ((modSpec P [] none 0 lines).map (fun b => (P.nameOf b.2, b))) ∧
    (modSpec P [] none 0 lines).map (·.1) = hdrIdxs "modification" 0 lines :=
  ⟨ff_mods_spec P g0 lines s hT hS h, modSpec_hdrs P [] 0 lines⟩

/-- a content line under a section path that is not in the dispatch table is rejected -/
theorem unknown_section_rejected (P : Params C G) (s : St C G) (t : String)
    (h : P.T.contains s.sec = false) : ffContent P s t = none := by
  unfold ffContent
  rw [h]
  rfl

/-- ... and so is the rest of the file, whatever follows -/
theorem unknown_section_rejects_rest (P : Params C G) (s : St C G) (i : Nat) (t : String) (rest : List Line)
    (h : P.T.contains s.sec = false) : ffRunFromWith ffFinalize P s i (.content t :: rest) = none := by
  have h1 : ffContent P s t = none := unknown_section_rejected P s t h
  show (match ffStepWith ffFinalize P s i (.content t) with
    | none => none
    | some s' => ffRunFromWith ffFinalize P s' (i + 1) rest) = none
  have h2 : ffStepWith ffFinalize P s i (.content t) = none := h1
  rw [h2]

/-- **.mapping files**: the mappings emitted by the section machine of `MappingDirector` are exactly
one per ended `[ block ]` / `[ modification ]` section, in file order (`mapSpec`). -/
theorem mapping_emitted_per_declaration (P : MParams C) (lines : List Line) (s : MSt C)
    (h : mapRun P lines = some s) : s.out = mapSpec P [] (0, P.fresh) 0 lines :=
  map_out_spec P lines s h

/-! ### witnesses: the statement is FALSE for the dispatcher before the repairs -/

/-- before the repair of F-C13-1: `[link] A [link] B [moleculetype] X [link] C` emits link B twice -/
theorem unrepaired_dispatcher_duplicates :
    (ffRunOld P0 () W1).map (fun s => s.links.map (·.1)) = some [0, 2, 2, 6] :=
  old_dispatcher_duplicates_links

/-- first repair only (F-C13-2): a header outside the table after a link loses that link -/
theorem first_repair_loses_link :
    (ffRunV1 P0 () W2).map (fun s => s.links.map (·.1)) = some [4] := v1_dispatcher_loses_link

/-- non-vacuity: the repaired dispatcher accepts both witnesses and emits each link once -/
example : (ffRun P0 () W1).map (fun s => s.links.map (·.1)) = some [0, 2, 6] := repaired_dispatcher_W1
example : (ffRun P0 () W2).map (fun s => s.links.map (·.1)) = some [0, 4] := repaired_dispatcher_W2
example : TopOk P0.T := by unfold TopOk; decide
end C13
