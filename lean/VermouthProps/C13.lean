import VermouthProofs.C13_Disp
import VermouthProofs.C13_Comp
import VermouthProofs.C13_ReaderProofs
import VermouthProofs.C13_Itp
/-!
# C13 — force-field, topology and mapping files load to exactly what they declare

Top-level property theorems about the models of `VermouthModel/C13.lean` (section dispatchers of
`FFDirector` / `MappingDirector`, `_tokenize`, `_treat_atom_prefix`, `_get_atoms` + arity check,
`_compute_weights`, `_substitute_macros`).  Helper lemmas and the specification functions
(`linkSpec`, `blockSpec`, `modSpec`, `mapSpec`, `hdrIdxs`, `TopOk`, `NameStable`) are in
`VermouthProofs/C13_Disp.lean` and `VermouthProofs/C13_Comp.lean`.

The dispatcher theorems hold for EVERY dispatch table `T`, routing function, per-line handlers and
EVERY sequence of headers and content lines (`Params` is universally quantified); the whole-file
reader `readFF` of `C13_Reader.lean` is the instance `ffParams`.
-/
namespace C13
variable {C G : Type}

/-! ## 1. Section dispatcher -/

/-- **Declared once, in file order** (links).  For every dispatch table containing the three
declaration headers, every handler set and every sequence of lines accepted by the dispatcher:
the emitted links are, one for one and in order, the `[ link ]` headers of the file; their header
positions are strictly increasing (no link is emitted twice). -/
theorem decl_once_in_order (P : Params C G) (g0 : G) (lines : List Line) (s : St C G)
    (hT : TopOk P.T) (h : ffRun P g0 lines = some s) :
    s.links.map (·.1) = hdrIdxs "link" 0 lines ∧ (s.links.map (·.1)).Pairwise (· < ·) := by
  have e := decl_links_once_in_order P g0 lines s hT h
  exact ⟨e, e ▸ hdrIdxs_strict "link" 0 lines⟩

/-- the content of each emitted link is exactly what its own section contained: the lines routed to
the link context between its header and the next top-level header (or the end of the file). -/
theorem link_content_is_section_content (P : Params C G) (g0 : G) (lines : List Line) (s : St C G)
    (hT : TopOk P.T) (h : ffRun P g0 lines = some s) : s.links = linkSpec P [] none 0 lines :=
  ff_links_spec P g0 lines s hT h

/-- **Blocks**: the library holds, per name, the LAST block declared with that name, keys in order of
first declaration (`blocks[name] = block`), each block holding the lines routed to it until the next
`[ moleculetype ]`; one `blockSpec` entry per `[ moleculetype ]` header, in file order.
Hypothesis `NameStableR`: a handler called for a line routed to the block does not rename it outside
`[ moleculetype ]` itself (proved for the concrete reader: `Tables.reader_name_stable`). -/
theorem blocks_declared_last_wins (P : Params C G) (g0 : G) (lines : List Line) (s : St C G)
    (hT : TopOk P.T) (hS : NameStableR P .block "moleculetype") (h : ffRun P g0 lines = some s) :
    s.blocks = dictOfList ((blockSpec P [] none 0 lines).map (fun b => (P.nameOf b.2, b))) ∧
    (blockSpec P [] none 0 lines).map (·.1) = hdrIdxs "moleculetype" 0 lines :=
  ⟨ff_blocks_spec_R P g0 lines s hT hS h, blockSpec_hdrs P [] 0 lines⟩

/-- **Modifications**: same statement for `[ modification ]`. -/
theorem modifications_declared_last_wins (P : Params C G) (g0 : G) (lines : List Line) (s : St C G)
    (hT : TopOk P.T) (hS : NameStableR P .modification "modification") (h : ffRun P g0 lines = some s) :
    s.mods = dictOfList ((modSpec P [] none 0 lines).map (fun b => (P.nameOf b.2, b))) ∧
    (modSpec P [] none 0 lines).map (·.1) = hdrIdxs "modification" 0 lines :=
  ⟨ff_mods_spec_R P g0 lines s hT hS h, modSpec_hdrs P [] 0 lines⟩

/-- a content line under a section path that is not in the dispatch table is rejected -/
theorem unknown_section_rejected (P : Params C G) (s : St C G) (t : String)
    (h : P.T.contains s.sec = false) : ffContent P s t = none := by
  unfold ffContent
  rw [h]
  rfl

/-- ... and so is the rest of the file, whatever follows -/
theorem unknown_section_rejects_rest (P : Params C G) (s : St C G) (i : Nat) (t : String) (rest : List Line)
    (h : P.T.contains s.sec = false) : ffRunFromWith ffFinalize P s i (.content t :: rest) = none := by
  have h1 : ffContent P s t = none := unknown_section_rejected P s t h
  show (match ffStepWith ffFinalize P s i (.content t) with
    | none => none
    | some s' => ffRunFromWith ffFinalize P s' (i + 1) rest) = none
  have h2 : ffStepWith ffFinalize P s i (.content t) = none := h1
  rw [h2]

/-- **.mapping files**: the mappings emitted by the section machine of `MappingDirector` are exactly
one per ended `[ block ]` / `[ modification ]` section, in file order (`mapSpec`). -/
theorem mapping_emitted_per_declaration (P : MParams C) (lines : List Line) (s : MSt C)
    (h : mapRun P lines = some s) : s.out = mapSpec P [] (0, P.fresh) 0 lines :=
  map_out_spec P lines s h

/-- **.itp files** (`ITPDirector`, which finalises at every header and refreshes its atom-name table
when an `[ atoms ]` section ends): the blocks loaded are, per name, the last `[ moleculetype ]` declared
with that name, keys in order of first declaration, one candidate per header, each holding the lines up
to the next `[ moleculetype ]`. -/
theorem itp_blocks_declared_last_wins {C : Type} (P : IParams C) (lines : List Line) (s : ISt C)
    (hT : P.T.contains ["moleculetype"] = true)
    (hS : ∀ sec t c c', sec ≠ ["moleculetype"] → P.handle sec t c = some c' → P.nameOf c' = P.nameOf c)
    (hA : ∀ c, P.nameOf (P.atomsEnded c) = P.nameOf c) (h : itpRun P lines = some s) :
    s.blocks = dictOfList ((itpSpec P [] none 0 lines).map (fun b => (P.nameOf b.2, b))) ∧
    (itpSpec P [] none 0 lines).map (·.1) = hdrIdxs "moleculetype" 0 lines :=
  ⟨itp_blocks_spec P lines s hT hS hA h, itpSpec_hdrs P hT [] 0 lines⟩

/-! ### witnesses: the statement is FALSE for the dispatcher before the repairs -/

/-- before the repair of F-C13-1: `[link] A [link] B [moleculetype] X [link] C` emits link B twice -/
theorem unrepaired_dispatcher_duplicates :
    (ffRunOld P0 () W1).map (fun s => s.links.map (·.1)) = some [0, 2, 2, 6] :=
  old_dispatcher_duplicates_links

/-- first repair only (F-C13-2): a header outside the table after a link loses that link -/
theorem first_repair_loses_link :
    (ffRunV1 P0 () W2).map (fun s => s.links.map (·.1)) = some [4] := v1_dispatcher_loses_link

/-- non-vacuity: the repaired dispatcher accepts both witnesses and emits each link once -/
example : (ffRun P0 () W1).map (fun s => s.links.map (·.1)) = some [0, 2, 6] := repaired_dispatcher_W1
example : (ffRun P0 () W2).map (fun s => s.links.map (·.1)) = some [0, 4] := repaired_dispatcher_W2
example : TopOk P0.T := by unfold TopOk; decide
end C13

/-! ## 2.-6. Components (namespace `C13.Props`; proofs in `VermouthProofs/C13_Comp.lean`) -/
namespace C13.Props
open C13

/-- **Unbalanced braces are rejected**: a line whose numbers of `{` and `}` differ is never tokenized. -/
theorem tokenize_rejects (cs : List Char) (h : cs.count '{' ≠ cs.count '}') : tokenize cs = none :=
  C13.tokenize_rejects_unbalanced h

/-- an accepted line is cut into non-empty tokens, each with balanced braces, and nothing but
separators is dropped -/
theorem tokenize_balanced (cs : List Char) (toks : List (List Char)) (h : tokenize cs = some toks) :
    cs.count '{' = cs.count '}' ∧ (∀ t ∈ toks, t.count '{' = t.count '}' ∧ t ≠ []) ∧
    toks.flatten.filter (fun c => !isSep c) = cs.filter (fun c => !isSep c) :=
  ⟨C13.tokenize_balanced h,
   fun t ht => ⟨C13.tokenize_tokens_balanced h t ht, C13.tokenize_nonempty h t ht⟩,
   C13.tokenize_no_loss h⟩

/-- brace-free words separated by single blanks are returned as they are -/
theorem tokenize_words (ws : List (List Char))
    (h : ∀ w ∈ ws, w ≠ [] ∧ ∀ c ∈ w, isSep c = false ∧ c ≠ '{' ∧ c ≠ '}') :
    tokenize (List.intercalate [' '] ws) = some ws := C13.tokenize_words ws h

example : tokenize "BB {\"a\": 1}+CC -- 1".toList
    = some ["BB".toList, "{\"a\": 1}".toList, "+CC".toList, "--".toList, "1".toList] := by decide
example : tokenize "a {b".toList = none := by decide

/-- **Order prefixes and explicit order attributes mean the same thing**: `n` signs `+`/`-` in front of
a name are the attribute `order = ±n` (for every `n`, including 0), and `n ≥ 1` characters `>`, `<`
or `*` are the attribute `order = "that string"`: same node key, same attributes. -/
theorem prefix_order_equiv (c : Char) (n : Nat) (base : List Char) (a : Attrs)
    (hb : GoodBase base) (ha : Attrs.get a "order" = none) :
    ((c = '+' ∨ c = '-') →
      treatAtomPrefix (List.replicate n c ++ base) a
        = treatAtomPrefix base (a ++ [("order", JVal.int (if c = '+' then (n : Int) else -(n : Int)))])) ∧
    ((c = '>' ∨ c = '<' ∨ c = '*') → 1 ≤ n →
      treatAtomPrefix (List.replicate n c ++ base) a
        = treatAtomPrefix base (a ++ [("order", JVal.str (String.ofList (List.replicate n c)))])) :=
  ⟨fun hc => C13.prefix_order_equiv_sign c n base a hc hb ha,
   fun hc hn => C13.prefix_order_equiv_sym c n base a hc hn hb ha⟩

example : GoodBase "BB".toList := ⟨'B', ['B'], rfl, by decide⟩
example : treatAtomPrefix "++BB".toList [] = treatAtomPrefix "BB".toList [("order", .int 2)] := by decide
example : treatAtomPrefix "++BB".toList []
    = some ("++BB".toList, [("order", .int 2), ("atomname", .str "BB")]) := by decide

/-- **A prefix that contradicts the explicit order is rejected.** -/
theorem prefix_order_conflict_rejected (c : Char) (pre base : List Char) (a : Attrs) (v : JVal)
    (hpre : pre ≠ []) (hall : ∀ x ∈ pre, x = c) (hpc : isPrefixChar c = true) (hb : GoodBase base)
    (ha : Attrs.get a "order" = some v) (hv : v ≠ JVal.null) (hne : v ≠ (orderFromPrefix pre).2) :
    treatAtomPrefix (pre ++ base) a = none :=
  C13.prefix_order_conflict_rejected c pre base a v hpre hall hpc hb ha hv hne

example : treatAtomPrefix "+BB".toList [("order", .int 2)] = none := by decide

/-- every normalised atom carries an `order` and an `atomname` -/
theorem prefix_result_has_order_and_name (ref : List Char) (a : Attrs) (key : List Char) (a' : Attrs)
    (h : treatAtomPrefix ref a = some (key, a')) :
    (Attrs.get a' "order").isSome ∧ (Attrs.get a' "atomname").isSome := C13.prefix_result_order h

/-- **Fixed arity is enforced**: an accepted line of an `n`-atom interaction has exactly `n` atoms; with
the `--` delimiter after exactly `n` plain atoms they are those atoms and the rest are parameters;
fewer than `n` atoms (with or without delimiter) is rejected. -/
theorem arity_enforced (n : Nat) :
    (∀ toks atoms rest, baseAtoms (some n) toks = some (atoms, rest) → atoms.length = n) ∧
    (∀ a p : List String, (∀ t ∈ a, Plain t) → "--" ∉ p → a.length = n →
        baseAtoms (some n) (a ++ "--" :: p) = some (a.map (fun t => (t, none)), p)) ∧
    (∀ a p : List String, (∀ t ∈ a, Plain t) → a.length < n → baseAtoms (some n) (a ++ "--" :: p) = none) ∧
    (∀ a : List String, (∀ t ∈ a, Plain t) → a.length < n → baseAtoms (some n) a = none) :=
  ⟨fun _ _ _ h => C13.arity_enforced h,
   fun a p ha hp hl => C13.arity_delimiter_exact n a p ha hp hl,
   fun a p ha hl => C13.arity_delimiter_short n a p ha hl,
   fun a ha hl => C13.arity_too_few n a ha hl⟩

/-- sections without a fixed arity take every token before `--` as an atom -/
theorem arity_free (a p : List String) (ha : ∀ t ∈ a, Plain t) (hp : "--" ∉ p) :
    baseAtoms none (a ++ "--" :: p) = some (a.map (fun t => (t, none)), p) := C13.arity_free a p ha hp

/-- more than `n` plain atoms before `--` are rejected (repair of F-C13-7; before it the surplus and the
delimiter were loaded as parameters) -/
theorem arity_excess_before_delimiter_rejected (n : Nat) (a p : List String) (ha : ∀ t ∈ a, Plain t)
    (hlen : n < a.length) : baseAtoms (some n) (a ++ "--" :: p) = none :=
  C13.arity_delimiter_excess_rejected n a p ha hlen

example : baseAtoms (some 2) ["A", "B", "C", "--", "1"] = none := by decide
example : baseAtoms (some 2) ["A", "B", "--", "1"] = some ([("A", none), ("B", none)], ["1"]) := by decide

/-- **Mapping weights**: weight(to, from) = multiplicity of `to` on the line of `from` / number of
entries without `!` on that line; a `!` entry has weight 0; any other pair has no weight. -/
theorem weights_formula (m : List (String × List String)) (w : List (String × String × Frac))
    (f t : String) (tos : List String)
    (hw : computeWeights m = some w) (hnd : (m.map (·.1)).Nodup) (hm : (f, tos) ∈ m) :
    (t ∈ nonNull tos → lookupWeight w t f = some ⟨(nonNull tos).count t, (nonNull tos).length⟩) ∧
    (t ∈ nullTargets tos → lookupWeight w t f = some ⟨0, 1⟩) ∧
    (t ∉ nonNull tos → t ∉ nullTargets tos → lookupWeight w t f = none) :=
  C13.weights_formula hw hnd hm

/-- the same target with and without `!` on one line is an error -/
theorem weights_conflict_rejected (m : List (String × List String)) (f t : String) (tos : List String)
    (hm : (f, tos) ∈ m) (h1 : t ∈ nonNull tos) (h2 : t ∈ nullTargets tos) : computeWeights m = none :=
  C13.weights_conflict_rejected hm h1 h2

/-- the non-null weights of one source atom add up to 1 (numerators add up to the common denominator),
and every denominator is positive -/
theorem weights_normalised (m : List (String × List String)) (w : List (String × String × Frac))
    (hw : computeWeights m = some w) (tos : List String) :
    ((nonNull tos).eraseDups.map fun t => (nonNull tos).count t).sum = (nonNull tos).length ∧
    ∀ e ∈ w, 0 < e.2.2.den :=
  ⟨C13.weights_sum_one tos, C13.weights_den_pos hw⟩

example : computeWeights [("A", ["X", "X", "Y", "!Z"])]
    = some [("X", "A", ⟨2, 3⟩), ("Y", "A", ⟨1, 3⟩), ("Z", "A", ⟨0, 1⟩)] := by decide
example : computeWeights [("A", ["X", "!X"])] = none := by decide

/-- **Macros are substituted**: a `$name` delimited by one of `' ${}\n\t"'` or the end of the line is
replaced by its value; an undefined name is an error; a line without `$` is unchanged; no `$` is left. -/
theorem macro_subst (ms : List (String × String)) (name tail : List Char)
    (hn : ∀ x ∈ name, isMacroEnd x = false)
    (ht : tail = [] ∨ ∃ e r, tail = e :: r ∧ isMacroEnd e = true) :
    (∀ v : String, name ++ tail ≠ [] → lookupMacro ms (String.ofList name) = some v → '$' ∉ v.toList →
      ∀ (pre : List Char) (fuel : Nat), '$' ∉ pre → (pre ++ '$' :: name ++ tail).length < fuel →
        substMacrosAux ms fuel (pre ++ '$' :: name ++ tail)
          = (substMacrosAux ms (fuel - pre.length - 1) tail).map (fun r => pre ++ v.toList ++ r)) ∧
    (lookupMacro ms (String.ofList name) = none →
      ∀ (pre : List Char) (fuel : Nat), '$' ∉ pre → (pre ++ '$' :: name ++ tail).length < fuel →
        substMacrosAux ms fuel (pre ++ '$' :: name ++ tail) = none) :=
  ⟨fun v hne hl hv => C13.subst_step ms name tail v hn ht hne hl hv,
   fun hl => C13.subst_undefined_rejected ms name tail hn ht hl⟩

theorem macro_subst_plain_and_complete (ms : List (String × String)) :
    (∀ (cs : List Char) (fuel : Nat), '$' ∉ cs → cs.length < fuel → substMacrosAux ms fuel cs = some cs) ∧
    (∀ (fuel : Nat) (cs r : List Char), substMacrosAux ms fuel cs = some r → cs.length < fuel → '$' ∉ r) :=
  ⟨C13.subst_plain ms, C13.subst_no_dollar ms⟩

example : substMacros [("a", "b")] "x $a{1} $a" = some "x b{1} b" := by decide
example : substMacros [] "x $a" = none := by decide

end C13.Props
