import VermouthProofs.C01_AttrProofs
import VermouthProofs.C01_AttrRun
/-!
# C01 — attributes of the output particles (the final loop of `do_mapping`), for every
`attribute_keep` / `attribute_must` / `attribute_stash`

Model: `VermouthModel/C01_Attr.lean`.  `attrLoopOne c m refs k ws node` is one iteration of
`for out_idx in out_to_mol` for the particle `k` whose weight table is `ws` and whose dictionary is
`node`: it returns the new dictionary and the attribute list of the "garbage" warning.
`sources` are the atoms that supply values: the reference atom when the mapping declares one for the
particle, else the constituent atoms in the order of the weight table; `srcVals c srcs A` are the
values of attribute `A` those atoms carry (after their own `replace`), in order.  `attr_loop_run`
ties the per-particle statements to the whole run (`finishX`).

Hypotheses: `AtomWF` (the attribute dictionary of a source atom has distinct keys: it is a
dictionary), `NoCollide c A` (no stashed attribute `s` has `"_old_"+s = A`: otherwise the stash
write and the write of `A` hit the same key and the later one wins).
-/
namespace C01

/-- the atoms that supply attribute values for particle `k` -/
def sources (m : MolX) (refs : List (Int × Int)) (k : Int) (ws : List (Int × Rat)) : List AtomX :=
  match (refs.lookup k).bind m.atom? with
  | some r => [r]
  | none => (ws.map Prod.fst).filterMap m.atom?

/-- no stashed attribute is written under the key `A` -/
def NoCollide (c : Cfg) (A : String) : Prop := ∀ s ∈ c.stash, stashKey s ≠ A

instance (c : Cfg) (A : String) : Decidable (NoCollide c A) := by unfold NoCollide; infer_instance

theorem keys_sub_all (c : Cfg) (a : AtomX) (A : String) (h : A ∈ (attrsFromNode c a).map Prod.fst) : A ∈ c.all := by
  unfold attrsFromNode at h
  simp only [List.mem_map, List.mem_filter] at h
  obtain ⟨kv, ⟨_, hc⟩, rfl⟩ := h
  simpa using hc

theorem srcVals_ne_nil (c : Cfg) (srcs : List AtomX) (A : String) (h : srcVals c srcs A ≠ []) : A ∈ c.all := by
  obtain ⟨v, hv⟩ := List.exists_mem_of_ne_nil _ h
  unfold srcVals at hv
  simp only [List.mem_flatMap, Option.mem_toList] at hv
  obtain ⟨a, _, ha⟩ := hv
  exact keys_sub_all c a A (List.mem_map.2 ⟨(A, v), mem_of_dget _ _ _ ha, rfl⟩)

theorem collect_keys (c : Cfg) (atoms : List AtomX) (hwf : ∀ a ∈ atoms, AtomWF a) (A : String) :
    A ∈ (collect c atoms).map Prod.fst ↔ srcVals c atoms A ≠ [] := by
  obtain ⟨h1, h2⟩ := collect_gget c atoms hwf A
  rw [← h1]
  constructor
  · intro hA
    obtain ⟨kv, hkv, rfl⟩ := List.mem_map.1 hA
    rw [gget_mem _ _ h2.1 kv.2 hkv]
    exact h2.2 kv hkv
  · intro hne
    exact List.mem_map.2 ⟨_, mem_of_gget_ne _ _ hne, rfl⟩

/-- the value of attribute `A` after the iteration: untouched when no source carries `A`, else
overwritten with the value of the FIRST source that carries it when `A` is kept or the particle
has no `A` yet -/
theorem attrLoopOne_get (c : Cfg) (m : MolX) (refs : List (Int × Int)) (k : Int) (ws : List (Int × Rat))
    (node : AttrD) (A : String) (hwf : ∀ a ∈ sources m refs k ws, AtomWF a) (hcol : NoCollide c A) :
    dget (attrLoopOne c m refs k ws node).1 A =
      (match srcVals c (sources m refs k ws) A with
       | [] => dget node A
       | v :: _ => if (c.keep.contains A || !(hasKey node A)) = true then some v else dget node A) := by
  have hc : ∀ (L : AttrD), ∀ kv ∈ L, c.stash.contains kv.1 = true → stashKey kv.1 ≠ A := by
    intro L kv _ hs
    exact hcol kv.1 (by simpa using hs)
  unfold attrLoopOne sources at *
  cases hr : (refs.lookup k).bind m.atom? with
  | some r =>
    simp only [hr] at hwf ⊢
    have hnd := nodup_attrsFromNode c r (hwf r (by simp))
    simp only [srcVals, List.flatMap_cons, List.flatMap_nil, List.append_nil]
    cases hd : dget (attrsFromNode c r) A with
    | none =>
      simp only [Option.toList_none]
      exact refLoop_absent c node _ A ((dget_none_iff _ _).1 hd) (hc _)
    | some v =>
      simp only [Option.toList_some]
      exact refLoop_present c node _ A v hnd (mem_of_dget _ _ _ hd) (hc _)
  | none =>
    simp only [hr] at hwf ⊢
    obtain ⟨h1, h2⟩ := collect_gget c _ hwf A
    rw [consLoop_eq]
    cases hv : srcVals c (List.filterMap m.atom? (List.map Prod.fst ws)) A with
    | nil =>
      simp only
      apply refLoop_absent
      · simp only [List.map_map]
        have : (Prod.fst ∘ fun (kv : String × List Val) => (kv.1, headVal kv.2)) = Prod.fst := rfl
        rw [this]
        intro hA
        exact (collect_keys c _ hwf A).1 hA hv
      · exact hc _
    | cons v rest =>
      simp only
      have hne : gget (collect c (List.filterMap m.atom? (List.map Prod.fst ws))) A ≠ [] := by rw [h1, hv]; simp
      have hmem := mem_of_gget_ne _ _ hne
      rw [h1, hv] at hmem
      apply refLoop_present
      · simp only [List.map_map]
        have : (Prod.fst ∘ fun (kv : String × List Val) => (kv.1, headVal kv.2)) = Prod.fst := rfl
        rw [this]
        exact h2.1
      · exact List.mem_map.2 ⟨_, hmem, rfl⟩
      · exact hc _

/-! ## T1 — the named statements -/

/-- `keep_attr_from_constituents`: for a kept attribute `A` the value written on the particle is
the value of the first source atom that carries `A` — the reference atom when the mapping declares
one, else a constituent atom; hence it is the value of one of its sources, and the common value when
all sources agree.  When no source carries `A` the particle keeps what the block gave it. -/
theorem keep_attr_from_constituents (c : Cfg) (m : MolX) (refs : List (Int × Int)) (k : Int)
    (ws : List (Int × Rat)) (node : AttrD) (A : String) (hkeep : A ∈ c.keep)
    (hwf : ∀ a ∈ sources m refs k ws, AtomWF a) (hcol : NoCollide c A) :
    (srcVals c (sources m refs k ws) A = [] → dget (attrLoopOne c m refs k ws node).1 A = dget node A)
    ∧ (∀ v rest, srcVals c (sources m refs k ws) A = v :: rest → dget (attrLoopOne c m refs k ws node).1 A = some v)
    ∧ (srcVals c (sources m refs k ws) A ≠ [] →
        ∃ v ∈ srcVals c (sources m refs k ws) A, dget (attrLoopOne c m refs k ws node).1 A = some v)
    ∧ (∀ r, (refs.lookup k).bind m.atom? = some r → sources m refs k ws = [r])
    ∧ ((refs.lookup k).bind m.atom? = none → sources m refs k ws = (ws.map Prod.fst).filterMap m.atom?)
    ∧ (∀ v0, srcVals c (sources m refs k ws) A ≠ [] → (∀ v ∈ srcVals c (sources m refs k ws) A, v = v0) →
        dget (attrLoopOne c m refs k ws node).1 A = some v0) := by
  have hget := attrLoopOne_get c m refs k ws node A hwf hcol
  have hk : c.keep.contains A = true := by simpa using hkeep
  refine ⟨?_, ?_, ?_, ?_, ?_, ?_⟩
  · intro h; rw [hget, h]
  · intro v rest h; rw [hget, h]; simp [hkeep]
  · intro h
    cases hv : srcVals c (sources m refs k ws) A with
    | nil => exact absurd hv h
    | cons v rest => exact ⟨v, List.mem_cons_self, by rw [hget, hv]; simp [hkeep]⟩
  · intro r hr; unfold sources; rw [hr]
  · intro hr; unfold sources; rw [hr]
  · intro v0 h hall
    cases hv : srcVals c (sources m refs k ws) A with
    | nil => exact absurd hv h
    | cons v rest =>
      rw [hget, hv]
      have : v = v0 := hall v (by rw [hv]; exact List.mem_cons_self)
      simp [hkeep, this]

/-- `must_attr_present`: an attribute of `attribute_must` (or of any of the three tuples) that some
source atom carries is a key of the particle afterwards; a value the block gave the particle is
never overwritten unless the attribute is also kept; a particle that had none gets the value of
the first source carrying it -/
theorem must_attr_present (c : Cfg) (m : MolX) (refs : List (Int × Int)) (k : Int)
    (ws : List (Int × Rat)) (node : AttrD) (A : String) (v : Val) (rest : List Val)
    (hwf : ∀ a ∈ sources m refs k ws, AtomWF a) (hcol : NoCollide c A)
    (hv : srcVals c (sources m refs k ws) A = v :: rest) :
    hasKey (attrLoopOne c m refs k ws node).1 A = true
    ∧ (A ∉ c.keep → hasKey node A = true → dget (attrLoopOne c m refs k ws node).1 A = dget node A)
    ∧ (hasKey node A = false → dget (attrLoopOne c m refs k ws node).1 A = some v)
    ∧ A ∈ c.all := by
  have hget := attrLoopOne_get c m refs k ws node A hwf hcol
  rw [hv] at hget
  simp only at hget
  refine ⟨?_, ?_, ?_, srcVals_ne_nil c _ A (by rw [hv]; simp)⟩
  · unfold hasKey
    rw [hget]
    split
    · rfl
    · rename_i h
      simp only [Bool.or_eq_true, Bool.not_eq_true', not_or, Bool.not_eq_false] at h
      exact h.2
  · intro hnk hhas
    have : c.keep.contains A = false := by simpa using hnk
    rw [hget]; simp [hnk, hhas]
  · intro hno
    rw [hget]; simp [hno]

/-- `stash_value_exact`: for a stashed attribute `s` whose stash key `"_old_"+s` is not itself one
of the transferred attributes, `_old_s` of the particle is exactly the value of the first source
that carries `s` (the reference atom's when declared); when no source carries `s` the key is not
touched -/
theorem stash_value_exact (c : Cfg) (m : MolX) (refs : List (Int × Int)) (k : Int)
    (ws : List (Int × Rat)) (node : AttrD) (s : String) (hs : s ∈ c.stash) (hfree : stashKey s ∉ c.all)
    (hwf : ∀ a ∈ sources m refs k ws, AtomWF a) :
    (∀ v rest, srcVals c (sources m refs k ws) s = v :: rest →
        dget (attrLoopOne c m refs k ws node).1 (stashKey s) = some v)
    ∧ (srcVals c (sources m refs k ws) s = [] →
        dget (attrLoopOne c m refs k ws node).1 (stashKey s) = dget node (stashKey s)) := by
  have hsb : c.stash.contains s = true := by simpa using hs
  unfold attrLoopOne sources at *
  cases hr : (refs.lookup k).bind m.atom? with
  | some r =>
    simp only [hr] at hwf ⊢
    have hnd := nodup_attrsFromNode c r (hwf r (by simp))
    have hfr : stashKey s ∉ (attrsFromNode c r).map Prod.fst := fun h => hfree (keys_sub_all c r _ h)
    simp only [srcVals, List.flatMap_cons, List.flatMap_nil, List.append_nil]
    constructor
    · intro v rest hv
      cases hd : dget (attrsFromNode c r) s with
      | none => rw [hd] at hv; cases hv
      | some v' =>
        rw [hd] at hv
        simp only [Option.toList_some, List.cons.injEq] at hv
        rw [← hv.1]
        exact refLoop_stash c node _ s v' hnd (mem_of_dget _ _ _ hd) hsb hfr
    · intro hv
      cases hd : dget (attrsFromNode c r) s with
      | some v' => rw [hd] at hv; cases hv
      | none =>
        apply refLoop_absent _ _ _ _ hfr
        intro kv hkv _ heq
        have : kv.1 = s := stashKey_inj heq
        exact (dget_none_iff _ _).1 hd (this ▸ List.mem_map.2 ⟨kv, hkv, rfl⟩)
  | none =>
    simp only [hr] at hwf ⊢
    have hmapfst : ∀ g : List (String × List Val),
        (g.map (fun (kv : String × List Val) => (kv.1, headVal kv.2))).map Prod.fst = g.map Prod.fst := by
      intro g; simp only [List.map_map]; rfl
    have hfr : stashKey s ∉ (collect c (List.filterMap m.atom? (List.map Prod.fst ws))).map Prod.fst := by
      intro h
      exact hfree (srcVals_ne_nil c _ _ ((collect_keys c _ hwf _).1 h))
    obtain ⟨h1, h2⟩ := collect_gget c _ hwf s
    rw [consLoop_eq]
    constructor
    · intro v rest hv
      have hne : gget (collect c (List.filterMap m.atom? (List.map Prod.fst ws))) s ≠ [] := by rw [h1, hv]; simp
      have hmem := mem_of_gget_ne _ _ hne
      rw [h1, hv] at hmem
      apply refLoop_stash c node _ s v
      · rw [hmapfst]; exact h2.1
      · exact List.mem_map.2 ⟨_, hmem, rfl⟩
      · exact hsb
      · rw [hmapfst]; exact hfr
    · intro hv
      apply refLoop_absent
      · rw [hmapfst]; exact hfr
      · intro kv hkv _ heq
        have hks : kv.1 = s := stashKey_inj heq
        have : s ∈ (collect c (List.filterMap m.atom? (List.map Prod.fst ws))).map Prod.fst := by
          rw [← hmapfst, ← hks]
          exact List.mem_map.2 ⟨kv, hkv, rfl⟩
        exact (collect_keys c _ hwf s).1 this hv

/-- `garbage_warning_iff`: the "attributes … are going to be garbage" warning is raised for a
particle exactly when the mapping declares no reference atom for it and its constituent atoms
disagree on one of the transferred attributes (two of those that carry it have different values);
the attribute list of the warning names exactly those attributes -/
theorem garbage_warning_iff (c : Cfg) (m : MolX) (refs : List (Int × Int)) (k : Int)
    (ws : List (Int × Rat)) (node : AttrD) (hwf : ∀ a ∈ sources m refs k ws, AtomWF a) :
    (∀ A, A ∈ (attrLoopOne c m refs k ws node).2 ↔
        (refs.lookup k).bind m.atom? = none
        ∧ ∃ v1 ∈ srcVals c (sources m refs k ws) A, ∃ v2 ∈ srcVals c (sources m refs k ws) A, v1 ≠ v2)
    ∧ ((attrLoopOne c m refs k ws node).2 ≠ [] ↔
        (refs.lookup k).bind m.atom? = none
        ∧ ∃ A ∈ c.all, ∃ v1 ∈ srcVals c (sources m refs k ws) A, ∃ v2 ∈ srcVals c (sources m refs k ws) A, v1 ≠ v2) := by
  have first : ∀ A, A ∈ (attrLoopOne c m refs k ws node).2 ↔
        (refs.lookup k).bind m.atom? = none
        ∧ ∃ v1 ∈ srcVals c (sources m refs k ws) A, ∃ v2 ∈ srcVals c (sources m refs k ws) A, v1 ≠ v2 := by
    intro A
    unfold attrLoopOne sources at *
    cases hr : (refs.lookup k).bind m.atom? with
    | some r => simp
    | none =>
      simp only [hr] at hwf ⊢
      obtain ⟨h1, h2⟩ := collect_gget c _ hwf A
      rw [mem_notSane _ h2.1, h1, allEq_false_iff]
      constructor
      · rintro ⟨h, _⟩; exact ⟨trivial, h⟩
      · rintro ⟨_, h⟩
        refine ⟨h, (collect_keys c _ hwf A).2 ?_⟩
        obtain ⟨v1, hv1, _⟩ := h
        exact List.ne_nil_of_mem hv1
  refine ⟨first, ?_⟩
  constructor
  · intro hne
    obtain ⟨A, hA⟩ := List.exists_mem_of_ne_nil _ hne
    obtain ⟨h1, v1, hv1, rest⟩ := (first A).1 hA
    exact ⟨h1, A, srcVals_ne_nil c _ A (List.ne_nil_of_mem hv1), v1, hv1, rest⟩
  · rintro ⟨h1, A, _, h2⟩
    exact List.ne_nil_of_mem ((first A).2 ⟨h1, h2⟩)

/-- the two `else: ... = None` branches of the constituent loop (do_mapping.py lines 673 and 679
at the pinned commit) are dead code: a value list is created by its first value -/
theorem collect_nonempty (c : Cfg) (atoms : List AtomX) (hwf : ∀ a ∈ atoms, AtomWF a) :
    ∀ kv ∈ collect c atoms, kv.2 ≠ [] :=
  (collect_gget c atoms hwf "").2.2

/-! ## the whole run -/

/-- `attr_loop_run`: in the result of a run (`finishX`), for EVERY particle that has a weight table
the dictionary after the loop is `attrLoopOne` applied to the dictionary the particle had before
the loop (the copy of its block node / modification node, `replace`s applied); the garbage warnings
are, in the order of `out_to_mol`, those of the particles whose attribute list is not empty; the
removed particles are those with a weight table whose atomname is None after the loop.  The
hypothesis (distinct keys of `out_to_mol`) holds for every run: `run_outToMol_nodup`. -/
theorem attr_loop_run (c : Cfg) (m : MolX) (sx : StX) (hnd : (dom sx.st.outToMol).Nodup) :
    (∀ kw ∈ sx.st.outToMol,
        xget (attrLoop c m sx.st.refs sx.st.outToMol sx.xattrs).x kw.1
          = some (attrLoopOne c m sx.st.refs kw.1 kw.2 ((xget sx.xattrs kw.1).getD [])).1)
    ∧ (∀ k, k ∉ dom sx.st.outToMol → xget (attrLoop c m sx.st.refs sx.st.outToMol sx.xattrs).x k = xget sx.xattrs k)
    ∧ (finishX c m sx).garbage = sx.st.outToMol.filterMap (fun kw =>
        if (attrLoopOne c m sx.st.refs kw.1 kw.2 ((xget sx.xattrs kw.1).getD [])).2.isEmpty then none
        else some (kw.1, (attrLoopOne c m sx.st.refs kw.1 kw.2 ((xget sx.xattrs kw.1).getD [])).2))
    ∧ (finishX c m sx).removed = (sx.st.outToMol.filter (fun kw =>
        nameIsNone (attrLoopOne c m sx.st.refs kw.1 kw.2 ((xget sx.xattrs kw.1).getD [])).1)).map Prod.fst
    ∧ (finishX c m sx).warn.garbage = (finishX c m sx).garbage.length := by
  obtain ⟨h1, h2, h3, h4⟩ := attrLoop_spec c m sx.st.refs sx.st.outToMol { x := sx.xattrs } hnd
  refine ⟨h1, h2, ?_, ?_, rfl⟩
  · show (attrLoop c m sx.st.refs sx.st.outToMol sx.xattrs).warns = _
    unfold attrLoop
    rw [h3]; rfl
  · show (attrLoop c m sx.st.refs sx.st.outToMol sx.xattrs).toRemove = _
    unfold attrLoop
    rw [h4]; rfl

/-- the keys of `out_to_mol` are distinct after any run (it is a dictionary) -/
theorem run_outToMol_nodup (n : Nat) (ps : List PlacementX) (qs : List ModPlacementX) (sx : StX)
    (h : (dom sx.st.outToMol).Nodup) : (dom (runAllX n ps qs sx).st.outToMol).Nodup :=
  runAllX_otm_nodup n ps qs sx h

/-- … and without foreign-force-field blocks the base component of the extended run is the run of
`C01_Mod.lean`, to which all theorems of `VermouthProps/C01.lean` apply -/
theorem run_base (n : Nat) (ps : List PlacementX) (qs : List ModPlacementX) (sx : StX)
    (hff : ∀ p ∈ ps, p.block.ffOk = true) :
    (runAllX n ps qs sx).st = runAll n (ps.map PlacementX.base) (qs.map ModPlacementX.base) sx.st :=
  runAllX_st n ps qs sx hff

/-! ## non-vacuity -/

def exCfg : Cfg := { keep := ["chain"], must := ["resname"], stash := ["resid"] }
def exAtoms : List AtomX :=
  [{ key := 1, attrs := [("resid", .int 5), ("resname", .str "ALA"), ("chain", .str "A")] },
   { key := 2, attrs := [("resid", .int 5), ("resname", .str "ALA"), ("chain", .str "B")], replace := some [("chain", .none)] },
   { key := 3, attrs := [("resid", .int 6), ("resname", .str "GLY")] }]
def exMolX : MolX := { atoms := exAtoms, edges := [(1, 2), (2, 3)] }
def exWs : List (Int × Rat) := [(1, 1), (2, 1), (3, 0)]
def exNode : AttrD := [("atomname", .str "BB"), ("resid", .int 1), ("charge_group", .int 1)]

example : ∀ a ∈ sources exMolX [] 7 exWs, AtomWF a := by decide
example : ∀ a ∈ sources exMolX [(7, 3)] 7 exWs, AtomWF a := by decide
example : NoCollide exCfg "chain" ∧ NoCollide exCfg "resname" := by decide
example : stashKey "resid" ∉ exCfg.all := by decide
example : srcVals exCfg (sources exMolX [] 7 exWs) "chain" = [.str "A", .none] := by decide
example : srcVals exCfg (sources exMolX [] 7 exWs) "resname" = [.str "ALA", .str "ALA", .str "GLY"] := by decide
-- without reference: chain of the first constituent, resname added, `_old_resid` = 5, resid kept; warning for all three
example : attrLoopOne exCfg exMolX [] 7 exWs exNode
    = ([("atomname", .str "BB"), ("resid", .int 1), ("charge_group", .int 1), ("_old_resid", .int 5),
        ("resname", .str "ALA"), ("chain", .str "A")], ["resid", "resname", "chain"]) := by decide
-- with atom 3 as reference: no chain (atom 3 has none), its resname and resid, no warning
example : attrLoopOne exCfg exMolX [(7, 3)] 7 exWs exNode
    = ([("atomname", .str "BB"), ("resid", .int 1), ("charge_group", .int 1), ("_old_resid", .int 6),
        ("resname", .str "GLY")], []) := by decide

end C01
