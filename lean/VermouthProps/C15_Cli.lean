import VermouthProofs.C15_Cli
/-!
# C15 — the command-line layer (`bin/martinize2`: `-elastic -ef -el -eu -ermd -ea -ep -em -eb -eunit`)

Theorems about `C15.parseUnit` / `C15.cliBuild`, the model of the option parsing and of the statement that
builds `vermouth.ApplyRubberBand(...)` (see `VermouthModel/C15_Cli.lean`).  The model is executed against the
statements extracted from the source on every run; `cli_source_table` (`VermouthProps/C15_CliTable.lean`) pins the constants the model hard-codes
(defaults, keyword ↔ option mapping, tests of the `if/elif` chain) to the table re-extracted from the source.

Vocabulary (defined in `VermouthProofs/C15_Cli.lean`): `isKeyword s` — `s` is `molecule`, `all` or `chain`;
`unitFields s` — `[[int(i) for i in apair.split(":")] for apair in s.split(",")]` with `none` for a field `int()`
rejects; `ermdOf a` — the value of `-ermd` after `type=int` (`none`: rejected, `some none`: option not given);
`renderRegions rs` — `','.join('%d:%d' % r for r in rs)`.
-/
namespace C15

/-- **cli_domain_choice.** Which criterion each value of `-eunit` selects: `molecule` → `always_true`,
`all` → `always_true` after merging all molecules, `chain` → `same_chain`; every other string goes through the
region parser and yields a region criterion or a `ValueError` — never one of the other criteria, never a merge. -/
theorem cli_domain_choice (s : List Char) :
    (s = "molecule".toList → unitDomain (parseUnit s) = some .always ∧ unitMerges (parseUnit s) = false) ∧
    (s = "all".toList → unitDomain (parseUnit s) = some .always ∧ unitMerges (parseUnit s) = true) ∧
    (s = "chain".toList → unitDomain (parseUnit s) = some .chain ∧ unitMerges (parseUnit s) = false) ∧
    (¬ isKeyword s → unitMerges (parseUnit s) = false ∧
       ((∃ rs, parseUnit s = .regions rs) ∨ parseUnit s = .errInt ∨ parseUnit s = .errFaulty)) := by
  refine ⟨?_, ?_, ?_, ?_⟩
  · rintro rfl; decide
  · rintro rfl; decide
  · rintro rfl; decide
  · intro h
    rw [parseUnit_of_not_keyword s h]
    split
    · exact ⟨rfl, Or.inr (Or.inl rfl)⟩
    · split
      · exact ⟨rfl, Or.inr (Or.inr rfl)⟩
      · exact ⟨rfl, Or.inl ⟨_, rfl⟩⟩

/-- **cli_regions_parse_format.** Parsing the canonical rendering `a1:b1,a2:b2,...` (`'%d:%d'` joined by commas;
negative numbers with a minus sign) of ANY non-empty region list gives that list back: same regions, same order,
bounds not swapped or sorted. -/
theorem cli_regions_parse_format (rs : List (Int × Int)) (h : rs ≠ []) :
    parseUnit (renderRegions rs) = .regions rs := by
  rw [parseUnit_of_not_keyword _ (render_not_keyword rs h), unitFields_render rs h, filterMap_pairOfList]
  rw [if_neg, if_neg]
  · simp
  · simp

/-- **cli_regions_parse_iff** (exact grammar). A string that is not one of the three keywords is accepted as the
region list `rs` exactly when its comma-separated pieces correspond one to one to the regions, each piece
consisting of exactly two `:`-separated fields that `int()` accepts with the values of the two bounds.
Everything else is rejected (see `cli_regions_malformed_rejected`). -/
theorem cli_regions_parse_iff (s : List Char) (hk : ¬ isKeyword s) (rs : List (Int × Int)) :
    parseUnit s = .regions rs ↔ unitFields s = rs.map fun r => [some r.1, some r.2] := by
  rw [parseUnit_of_not_keyword s hk]
  constructor
  · intro h
    split at h
    · cases h
    · split at h
      · cases h
      · next h1 h2 =>
        injection h with h
        rw [← h]
        exact fields_of_shape _ (by simpa using h1) (by simpa using h2)
  · intro h
    rw [h, filterMap_pairOfList, if_neg, if_neg]
    · simp
    · simp

/-- **cli_regions_malformed_rejected.** A specification (not a keyword) with a field `int()` does not accept ends in
the `ValueError` of `int`; one whose fields are all ints but where some piece has not exactly two fields ends in the
'Faulty resid interval' `ValueError`.  In both cases no criterion is built. -/
theorem cli_regions_malformed_rejected (s : List Char) (hk : ¬ isKeyword s) :
    ((∃ p ∈ unitFields s, none ∈ p) → parseUnit s = .errInt) ∧
    ((∀ p ∈ unitFields s, none ∉ p) → (∃ p ∈ unitFields s, p.length ≠ 2) → parseUnit s = .errFaulty) ∧
    (parseUnit s = .errInt ∨ parseUnit s = .errFaulty → unitDomain (parseUnit s) = none) := by
  rw [parseUnit_of_not_keyword s hk]
  refine ⟨?_, ?_, ?_⟩
  · rintro ⟨p, hp, hn⟩
    rw [if_pos]
    simp only [List.any_eq_true]
    exact ⟨p, hp, none, hn, rfl⟩
  · intro hall ⟨p, hp, hl⟩
    rw [if_neg, if_pos]
    · simp only [List.any_eq_true, bne_iff_ne]
      exact ⟨p, hp, hl⟩
    · simp only [List.any_eq_true, not_exists, not_and]
      intro q hq x hx hnone
      cases x with
      | none => exact hall q hq hx
      | some v => simp at hnone
  · rintro (h | h) <;> rw [h] <;> rfl

/-! ## numeric options, `-ermd`, `-eb` -/

/-- **cli_options_pass_through.** Whenever a processor is built, every numeric option lands in the constructor
argument of its meaning (`-el` lower bound, `-eu` upper bound, `-ea` decay factor, `-ep` decay power, `-ef` base
constant, `-em` minimum force; an option not given: its documented default), `-ermd` becomes `res_min_dist`
(`None` if not given), the bond type is never given, the variable names are the defaults, the selector is the
backbone selector unless `-eb` is given, and the domain is the one chosen by `-eunit`. -/
theorem cli_options_pass_through (a : CliArgs) (m d : Bool) (p : Proc) (h : cliBuild a = .processor m d p) :
    p.lower = a.el.getD 0 ∧ p.upper = a.eu.getD dfltEu ∧ p.decayFactor = a.ea.getD 0 ∧ p.decayPower = a.ep.getD 1 ∧
    p.base = a.ef.getD 700 ∧ p.minForce = a.em.getD 0 ∧ some p.resMinDist = ermdOf a ∧ p.bondType = none ∧
    p.bondTypeVar = "elastic_network_bond_type" ∧ p.resMinDistVar = "elastic_network_res_min_dist" ∧
    p.names = selectorNames a.eb ∧ d = a.eb.isNone ∧
    unitDomain (parseUnit (a.eunit.getD "molecule".toList)) = some p.dom ∧
    m = unitMerges (parseUnit (a.eunit.getD "molecule".toList)) := by
  rw [cliBuild_eq] at h
  split at h
  · cases h
  · next rmd hr =>
    split at h
    · cases h
    · split at h
      · cases h
      · split at h
        · cases h
        · next dom hd =>
          injection h with h1 h2 h3
          subst h1 h2 h3
          exact ⟨rfl, rfl, rfl, rfl, rfl, rfl, hr.symm, rfl, rfl, rfl, rfl, rfl, hd, rfl⟩

/-- **cli_res_min_dist_default.** Without `-ermd` the residue separation a molecule gets is the variable
`elastic_network_res_min_dist` of ITS force field if that force field has it, else 2; with `-ermd v` (0 included,
negative included) it is `v` whatever the force field says.  The bond type always comes from the force field
(`elastic_network_bond_type`, else 6). -/
theorem cli_res_min_dist_default (a : CliArgs) (m d : Bool) (p : Proc) (h : cliBuild a = .processor m d p)
    (vars : List (String × Int)) :
    (a.ermd = none → (resolveOptions p vars).resMinDist = (vars.lookup "elastic_network_res_min_dist").getD 2) ∧
    (∀ s v, a.ermd = some s → pyInt s = some v → (resolveOptions p vars).resMinDist = v) ∧
    (resolveOptions p vars).bondType = (vars.lookup "elastic_network_bond_type").getD 6 := by
  obtain ⟨_, _, _, _, _, _, hr, hb, hbv, hrv, _⟩ := cli_options_pass_through a m d p h
  refine ⟨?_, ?_, ?_⟩
  · intro hn
    have : p.resMinDist = none := by
      simp only [ermdOf, hn] at hr; exact Option.some.inj hr
    simp [resolveOptions, orVariable, this, hrv, DEFAULT_RMD]
  · intro s v hs hv
    have : p.resMinDist = some v := by
      simp only [ermdOf, hs, hv, Option.map_some] at hr; exact Option.some.inj hr
    simp [resolveOptions, orVariable, this]
  · simp [resolveOptions, orVariable, hb, hbv, DEFAULT_BOND_TYPE]

/-- `-ermd` with a string `int()` rejects: argparse error, nothing is built. -/
theorem cli_ermd_rejected (a : CliArgs) (s : List Char) (h : a.ermd = some s) (hs : pyInt s = none) :
    cliBuild a = .usageError := by
  rw [cliBuild_eq]
  simp [ermdOf, h, hs]

/-- **cli_selector.** Without `-eb` exactly the atoms named `BB` are selected; with `-eb s` exactly the atoms whose
name is one of the comma-separated pieces of `s` (pieces are not stripped; an empty piece selects atoms whose name is
the empty string; an atom without a name is never selected). -/
theorem cli_selector (eb : Option (List Char)) (x : Atom) :
    (eb = none → (selected (selectorNames eb) x = true ↔ x.name = some "BB")) ∧
    (∀ s, eb = some s → (selected (selectorNames eb) x = true ↔ ∃ n, x.name = some n ∧ n.toList ∈ splitOn ',' s)) := by
  constructor
  · rintro rfl
    unfold selected selectorNames
    cases x.name with
    | none => simp
    | some n => simp
  · rintro s rfl
    unfold selected selectorNames
    cases x.name with
    | none => simp
    | some n =>
      simp only [List.contains_iff_mem, List.mem_map, Option.some.injEq, exists_eq_left']
      constructor
      · rintro ⟨l, hl, rfl⟩; simpa using hl
      · intro h; exact ⟨n.toList, h, by simp⟩

/-- **cli_elastic_switch.** Nothing is built exactly when the options parse, `-elastic` is absent and the target
force field does not start with `elnedyn`; `-elastic` together with `-go` is a usage error (tested BEFORE elnedyn
switches the network on, so an elnedyn force field with `-go` and without `-elastic` does get a network). -/
theorem cli_elastic_switch (a : CliArgs) :
    (cliBuild a = .noElastic ↔ ermdOf a ≠ none ∧ a.elastic = false ∧ elnedyn.isPrefixOf a.toFF = false) ∧
    (ermdOf a ≠ none → a.elastic = true → a.go = true → cliBuild a = .usageError) := by
  rw [cliBuild_eq]
  constructor
  · cases hr : ermdOf a with
    | none => simp
    | some rmd =>
      cases he : a.elastic <;> cases hg : a.go <;> cases hp : elnedyn.isPrefixOf a.toFF <;>
        simp [elasticOn, he, hp] <;> (split <;> simp)
  · intro h1 h2 h3
    cases hr : ermdOf a with
    | none => exact absurd hr h1
    | some rmd => simp [h2, h3]

/-! ## non-vacuity -/

example : parseUnit "2:10,8:20".toList = .regions [(2, 10), (8, 20)] ∧
    parseUnit " 5 : +8 , -3:1_0".toList = .regions [(5, 8), (-3, 10)] ∧
    parseUnit "10:2".toList = .regions [(10, 2)] ∧
    parseUnit "1:2:3".toList = .errFaulty ∧ parseUnit "1,2".toList = .errFaulty ∧
    parseUnit "1:2,".toList = .errInt ∧ parseUnit "".toList = .errInt ∧ parseUnit "Chain".toList = .errInt ∧
    parseUnit "1:2:3,a:b".toList = .errInt ∧ parseUnit "1__0:2".toList = .errInt ∧ parseUnit "1:2_".toList = .errInt ∧
    renderRegions [(2, 10), (-8, 20)] = "2:10,-8:20".toList ∧ renderRegions [(0, -105)] = "0:-105".toList := by
  decide

def argsDefault : CliArgs :=
  { elastic := true, go := false, toFF := "martini3001".toList, ef := none, el := none, eu := none, ea := none,
    ep := none, em := none, ermd := none, eb := none, eunit := none }

/-- hypotheses of `cli_options_pass_through` / `cli_res_min_dist_default` / `cli_elastic_switch` are satisfiable;
the elnedyn quirk -/
example :
    (∃ p, cliBuild argsDefault = .processor false true p) ∧
    (∃ p, cliBuild { argsDefault with eunit := some "all".toList, eb := some "BB,SC1".toList,
                                      ermd := some "0".toList } = .processor true false p) ∧
    cliBuild { argsDefault with elastic := false } = .noElastic ∧
    cliBuild { argsDefault with go := true } = .usageError ∧
    (∃ p, cliBuild { argsDefault with elastic := false, go := true, toFF := "elnedyn22".toList }
            = .processor false true p) ∧
    cliBuild { argsDefault with ermd := some "2.0".toList } = .usageError ∧
    (∃ f, cliBuild { argsDefault with eunit := some "1-5".toList } = .valueError f) := by
  refine ⟨⟨_, rfl⟩, ⟨_, rfl⟩, ?_, ?_, ⟨_, rfl⟩, ?_, ⟨_, rfl⟩⟩ <;> decide

end C15
