import VermouthProofs.C11_Stages
import VermouthProofs.C11_StagesC10
import VermouthProofs.C11_StagesC18
import VermouthProofs.C11_StagesC01
import VermouthProps.C15
/-!
# C11 — stage-level PRESENTATION invariance, proved on the models of the other properties

C11 itself (two presentations of one structure give the same topology) is a statement about
`bin/martinize2` as executed and stays *explored* (harness/c11.py).  What is *proved* here: every stage
for which a Lean model exists is invariant (or equivariant) under the presentation changes C11 names, on
that model, for every input.  Models and their own theorems are imported read-only.

| clause of C11                         | stage (model)                    | theorem here |
|---------------------------------------|----------------------------------|--------------|
| atoms listed in another order         | bond guessing (C10.run)          | `bond_guessing_order_invariant`, `bond_guessing_any_permutation` |
| rigid motion                          | bond guessing (C10.run)          | `bond_guessing_rigid_invariant` |
| hydrogens renamed / atoms permuted    | repair_graph (C04.repairResidue) | `repair_names_presentation_free`, `repair_two_presentations` |
| atom numbering of the reader          | do_mapping (C01.assemble)        | `mapping_rekey_equivariant`, `mapping_table_rekey_invariant`, `mapping_table_monotone_renumbering`, `mapping_nonmonotone_changes_block_order` |
| rigid motion / node numbering         | Go model (C18.selectContacts)    | `go_contacts_rigid_invariant`, `go_pipeline_rigid_equivariant`, `go_contacts_rekey_equivariant`, `go_pipeline_rekey_outcome`, `go_rekey_nonmonotone_witness` |
| rigid motion, composed stages         | C09.beadPos then C15.run         | `comp_invariant`, `comp_equivariant`, `bead_position_rigid_equivariant`, `placement_then_network_rigid_invariant` |

Helper lemmas: `VermouthProofs/C11_Stages*.lean`.
-/
namespace C11

/-! ## 0. composition of stages -/

/-- **comp_invariant.**  If stage `f` is equivariant under an action (of anything: a group is not needed) and
stage `g` is invariant under the action on its input, the composed stage is invariant. -/
theorem comp_invariant {G X Y Z : Type} (actX : G → X → X) (actY : G → Y → Y) (f : X → Y) (g : Y → Z)
    (hf : ∀ a x, f (actX a x) = actY a (f x)) (hg : ∀ a y, g (actY a y) = g y) (a : G) (x : X) :
    g (f (actX a x)) = g (f x) := by
  rw [hf, hg]

/-- **comp_equivariant.**  The composition of two equivariant stages is equivariant. -/
theorem comp_equivariant {G X Y Z : Type} (actX : G → X → X) (actY : G → Y → Y) (actZ : G → Z → Z)
    (f : X → Y) (g : Y → Z)
    (hf : ∀ a x, f (actX a x) = actY a (f x)) (hg : ∀ a y, g (actY a y) = actZ a (g y)) (a : G) (x : X) :
    g (f (actX a x)) = actZ a (g (f x)) := by
  rw [hf, hg]

/-! ## 1. rigid motion: bead placement (C09, over ℚ) then elastic network (C15, on the lattice)

The two models do not share a coordinate type: bead placement is a weighted mean (a field is needed),
the elastic network compares squared lattice distances.  They are composed where both make sense: on
beads whose position is a lattice point (`PlacedAt`).  First half: `bead_position_rigid_equivariant`
(instance of `C09.rigid_motion_equivariant`).  Second half: `elastic_network_rigid_invariant`
(VermouthProps/C11.lean, instance of `C15.isometry_invariant`).  Bridge: `moveQ_castV`. -/

/-- **first half**: the exact rigid motions of this file, acting on the rational coordinates of the
atoms, move every bead by the same motion. -/
theorem bead_position_rigid_equivariant (A : Mat3) (t : V3) (w : Option String) (g : List (C09.Atom ℚ))
    (mw : Option (List (Int × ℚ))) :
    C09.beadPosQ w (g.map (C09.Atom.move (moveQ A t))) mw = (C09.beadPosQ w g mw).map (moveQ A t) :=
  C09.rigid_motion_equivariant C09.epsQ_pos w g mw (castM A) (castV t)

/-- a coarse-grained particle before it is placed: what the elastic network reads of it (`info`, position
not yet set) and what bead placement reads (`graph`, `mw` = mapping weights) -/
structure CGBead where
  info : C15.Atom
  graph : List (C09.Atom ℚ)
  mw : Option (List (Int × ℚ))

/-- the underlying atoms moved by `x ↦ A x + t` -/
def CGBead.moved (A : Mat3) (t : V3) (c : CGBead) : CGBead :=
  { c with graph := c.graph.map (C09.Atom.move (moveQ A t)) }

/-- `a` is the particle `c` after `do_average_bead`, and its position is a lattice point -/
def PlacedAt (w : Option String) (c : CGBead) (a : C15.Atom) : Prop :=
  ∃ p : V3, C09.beadPosQ w c.graph c.mw = some (castV p) ∧ a = { c.info with pos := C15.Pos.at p.1 p.2.1 p.2.2 }

/-- **placement_then_network_rigid_invariant** (the composed statement).  Take coarse-grained particles
`cs`; place them from the atoms (`atoms`) and from the rigidly moved atoms (`atoms'`), the positions
being lattice points in both cases.  Then the elastic network of the two placed molecules is the same:
same outcome, same bonds in the same order, same lengths and force constants. -/
theorem placement_then_network_rigid_invariant (A : Mat3) (hA : A.IsOrtho) (t : V3) (w : Option String)
    (cs : List CGBead) (atoms atoms' : List C15.Atom)
    (h : Forall2 (PlacedAt w) cs atoms)
    (h' : Forall2 (PlacedAt w) (cs.map (CGBead.moved A t)) atoms')
    (edges : List (Int × Int)) (P : C15.Params) :
    C15.run atoms' edges P = C15.run atoms edges P := by
  have key : atoms' = C15.moveAll (move A t) atoms := by
    clear edges P
    induction h generalizing atoms' with
    | nil => cases h'; rfl
    | @cons c a cs as hca _ ih =>
      cases h' with
      | cons hca' hrest =>
        rename_i a' as'
        obtain ⟨p, hp, ha⟩ := hca
        obtain ⟨p', hp', ha'⟩ := hca'
        have e : castV p' = castV (move A t p) := by
          have := bead_position_rigid_equivariant A t w c.graph c.mw
          simp only [CGBead.moved] at hp'
          rw [hp', hp, Option.map_some, moveQ_castV] at this
          exact Option.some.inj this
        have e' := castV_injective e
        show a' :: as' = C15.moveAtom (move A t) a :: C15.moveAll (move A t) as
        rw [ih as' hrest, ha', ha, e']
        rfl
  rw [key]
  exact elastic_network_rigid_invariant A hA t atoms edges P

namespace ExPlace
/-- one bead made of two atoms of equal weight at (0,0,0) and (2,4,6): it sits at the lattice point (1,2,3) -/
def c : CGBead :=
  { info := { key := 0, name := some "BB", res := ⟨some "A", some 1, some "ALA", none⟩, oldResid := none,
              pos := C15.Pos.missing },
    graph := [.at 1 ⟨0, 0, 0⟩ [], .at 2 ⟨2, 4, 6⟩ []], mw := none }
def rotZ : Mat3 := ⟨(0, -1, 0), (1, 0, 0), (0, 0, 1)⟩

example : PlacedAt none c { c.info with pos := C15.Pos.at 1 2 3 } := ⟨(1, 2, 3), by decide +kernel, rfl⟩
example : PlacedAt none (c.moved rotZ (10, 20, 30)) { c.info with pos := C15.Pos.at 8 21 33 } :=
  ⟨(8, 21, 33), by decide +kernel, rfl⟩
example : rotZ.IsOrtho := by decide
end ExPlace

/-! ## 2. atom order and frame: bond guessing (C10) -/

/-- **bond_guessing_order_invariant.**  `S'` is `S` with the atoms listed in another order (`Reorder`: atom
`i` of `S` is atom `σ i` of `S'`).  Then the bonds of the final graph are the same set of unordered pairs
of atoms; so are the name bonds, the distance bonds, the collected non-bonds and the bonds carrying a
`distance` attribute. -/
theorem bond_guessing_order_invariant {σ τ : Nat → Nat} {S S' : C10.Sys} (R : Reorder σ τ S S') (u v : Nat)
    (hu : u < S.atoms.length) (hv : v < S.atoms.length) :
    (C10.run S').bonded S' (σ u) (σ v) = (C10.run S).bonded S u v
    ∧ C10.has (C10.run S').nameE (σ u) (σ v) = C10.has (C10.run S).nameE u v
    ∧ C10.has (C10.run S').distE (σ u) (σ v) = C10.has (C10.run S).distE u v
    ∧ C10.has (C10.run S').NE (σ u) (σ v) = C10.has (C10.run S).NE u v
    ∧ (C10.run S').hasDistance (σ u) (σ v) = (C10.run S).hasDistance u v :=
  ⟨c10_bonds_reorder_invariant R u v hu hv, c10_name_bonds_reorder R u v hu hv,
    c10_dist_bonds_reorder R u v hu hv, c10_nonbonds_reorder R u v hu hv,
    c10_distance_attr_reorder_invariant R u v hu hv⟩

/-- **bond_guessing_any_permutation.**  Every permutation `π` of the atom list (`reorderSys π S` lists the
atoms in the order `π` and renumbers the pre-existing bonds) gives the same bonds. -/
theorem bond_guessing_any_permutation (π : List Nat) (S : C10.Sys) (hπ : π.Perm (List.range S.atoms.length))
    (hwf : C10.WF S) (u v : Nat) (hu : u < S.atoms.length) (hv : v < S.atoms.length) :
    (C10.run (reorderSys π S)).bonded (reorderSys π S) (π.idxOf u) (π.idxOf v) = (C10.run S).bonded S u v :=
  c10_bonds_any_permutation π S hπ hwf u v hu hv

/-- the orientation-free reading of `C10.dist_bond_iff` used above: the right-hand side mentions no order
of the atom list (the criterion `C10.DistCrit` is symmetric: `distance_criterion_symmetric`). -/
theorem distance_bond_iff_unordered (S : C10.Sys) (had : S.allowDist = true) (u v : Nat) :
    C10.has (C10.run S).distE u v = true ↔
      u ≠ v ∧ u < S.atoms.length ∧ v < S.atoms.length ∧ C10.DistCrit S (C10.run S).NE u v
        ∧ C10.has S.pre u v = false ∧ C10.has (C10.run S).nameE u v = false :=
  has_distE_iff S had u v

theorem distance_criterion_symmetric (S : C10.Sys) (NE : List C10.Edge) (u v : Nat) :
    C10.DistCrit S NE u v ↔ C10.DistCrit S NE v u :=
  ⟨distCrit_symm S NE u v, distCrit_symm S NE v u⟩

/-- **bond_guessing_rigid_invariant.**  An exact rigid motion of all atoms leaves the complete result of
bond guessing unchanged (name bonds, distance bonds, non-bonds, split into molecules). -/
theorem bond_guessing_rigid_invariant (A : Mat3) (hA : A.IsOrtho) (t : V3) (S : C10.Sys) :
    C10.run (moveSys A t S) = C10.run S :=
  c10_run_rigid_invariant A t hA S

/-! ## 3. hydrogens renamed, atoms permuted inside the residue: repair_graph (C04)

`C04.scramble_invariant` read as the clause of C11: a residue that IS its reference block under ANY
renaming of its atoms, ANY atom order and ANY key numbering (`ScrambleOf`: an element- and
bond-preserving bijection exists, the matcher meets its specification) comes out of the repair with
exactly the block's `(name, element)` table and exactly the block's bonds between those names - neither
of which mentions the input names, order or keys.  Hence two presentations agree. -/

/-- **repair_names_presentation_free.** -/
theorem repair_names_presentation_free {m : C04.Mol} {R : C04.Residue} (h : ScrambleOf m R) :
    (∀ x, x ∈ atomTable (C04.repairResidue m R).mol R.found ↔ x ∈ blockTable R.block)
    ∧ (∀ n n', n ≠ n' → (NamedBond (C04.repairResidue m R).mol R.found n n' ↔ BlockBond R.block n n'))
    ∧ (C04.repairResidue m R).log = [] ∧ (C04.repairResidue m R).lost = []
    ∧ (C04.repairResidue m R).mol.keys = m.keys := by
  obtain ⟨f, hf⟩ := h.iso
  obtain ⟨_, _, hlost, hlog, _, _, _, hkeys, _⟩ :=
    C04.scramble_invariant m R h.blockKeys h.molKeys h.found f hf h.size h.mcis
  exact ⟨scramble_atomTable h, scramble_bonds h, hlog, hlost, hkeys⟩

/-- **repair_two_presentations.**  Two presentations `(m₁, R₁)`, `(m₂, R₂)` of a residue with the same
reference block - other atom names, other order, other keys - are repaired to the same set of
`(canonical name, element)` and the same bonds between canonical names. -/
theorem repair_two_presentations {m₁ m₂ : C04.Mol} {R₁ R₂ : C04.Residue} (hb : R₁.block = R₂.block)
    (h₁ : ScrambleOf m₁ R₁) (h₂ : ScrambleOf m₂ R₂) :
    (∀ x, x ∈ atomTable (C04.repairResidue m₁ R₁).mol R₁.found ↔ x ∈ atomTable (C04.repairResidue m₂ R₂).mol R₂.found)
    ∧ (∀ n n', n ≠ n' → (NamedBond (C04.repairResidue m₁ R₁).mol R₁.found n n'
                          ↔ NamedBond (C04.repairResidue m₂ R₂).mol R₂.found n n')) := by
  constructor
  · intro x
    rw [scramble_atomTable h₁, scramble_atomTable h₂, hb]
  · intro n n' hne
    rw [scramble_bonds h₁ n n' hne, scramble_bonds h₂ n n' hne, hb]

namespace ExRepair
open C04
private def at' (k : Int) (n : String) (e : Int) : C04.Atom := { key := k, name := n, elem := e, attrs := [], ptm := none }

/-- a second presentation of `C04.molScr`: other names, other order, other keys -/
def molScr2 : C04.Mol :=
  { nodes := [at' 7 "HA" 6, at' 3 "1H" 1, at' 9 "O" 7, at' 1 "N" 6, at' 5 "q" 8],
    edges := [(9, 7), (7, 3), (1, 7), (5, 1)] }
def resScr2 : C04.Residue :=
  { block := blkEx, found := [7, 3, 9, 1, 5], mtch := [(0, 9), (1, 7), (2, 3), (3, 1), (4, 5)], common := [] }

theorem scr1 : ScrambleOf molScr resScr where
  blockKeys := by decide
  molKeys := by decide
  found := by decide
  iso := ⟨Iso.Map.toFun resScr.mtch, (C06.allIsos_sound _ _ (by decide) _ (by decide)).2⟩
  size := by decide
  mcis := by decide

theorem scr2 : ScrambleOf molScr2 resScr2 where
  blockKeys := by decide
  molKeys := by decide
  found := by decide
  iso := ⟨Iso.Map.toFun resScr2.mtch, (C06.allIsos_sound _ _ (by decide) _ (by decide)).2⟩
  size := by decide
  mcis := by decide

example : resScr.block = resScr2.block := rfl
example : atomTable (repairResidue molScr2 resScr2).mol resScr2.found
    = [("CA", 6), ("HA", 1), ("N", 7), ("C", 6), ("O", 8)] := by decide
end ExRepair

/-! ## 4. rigid motion and node numbering: the Go model (C18)

Positions are read only through `C18.dist2`; node keys only through equality, through the order of the
smallest key of each residue (`sorted(partitions, key=min)`, which fixes the residue indices and hence which
residue wins in `_chain_id_to_resnode` when two share (chain, `_old_resid`)), and as the backbone keys written
into the exclusions.  What is needed of a renumbering `ρ` is therefore exactly: STRICTLY INCREASING ON THE KEYS
THE MOLECULE MENTIONS (`keys18`: node keys and both end points of every edge); nothing outside them.  An
injective renumbering that is not order preserving can change the outcome (`go_rekey_nonmonotone_witness`). -/

/-- **go_contacts_rigid_invariant.**  The Go pairs (types, squared distances, backbone keys, order) or the error
outcome are the same after an exact rigid motion; so are the exclusions and the `nonbond_params` pairs. -/
theorem go_contacts_rigid_invariant (A : Mat3) (hA : A.IsOrtho) (t : V3)
    (P : C18.Params) (atoms : List C18.Atom) (edges : List (Int × Int)) (contacts : List C18.Contact) :
    C18.selectContacts P (atoms.map (moveAtom18 (move A t))) edges contacts
      = C18.selectContacts P atoms edges contacts :=
  c18_select_rigid_invariant A hA t P atoms edges contacts

/-- the same for every map of the lattice that preserves squared distances -/
theorem go_contacts_isometry_invariant (f : C18.Pos → C18.Pos)
    (hf : ∀ p q, C18.dist2 (f p) (f q) = C18.dist2 p q)
    (P : C18.Params) (atoms : List C18.Atom) (edges : List (Int × Int)) (contacts : List C18.Contact) :
    C18.selectContacts P (atoms.map (moveAtom18 f)) edges contacts = C18.selectContacts P atoms edges contacts :=
  c18_select_isometry_invariant f hf P atoms edges contacts

/-- **go_pipeline_rigid_equivariant.**  `GoPipeline` (virtual sites, then contacts): the sites of the moved
molecule are the moved sites, the contact outcome is the same. -/
theorem go_pipeline_rigid_equivariant (A : Mat3) (hA : A.IsOrtho) (t : V3)
    (P : C18.Params) (vsn : String) (atoms : List C18.Atom) (edges : List (Int × Int))
    (contacts : List C18.Contact) :
    C18.goPipeline P vsn (atoms.map (moveAtom18 (move A t))) edges contacts
      = (((C18.goPipeline P vsn atoms edges contacts).1.map (fun v => { v with pos := move A t v.pos })),
         (C18.goPipeline P vsn atoms edges contacts).2) :=
  c18_pipeline_rigid_equivariant A hA t P vsn atoms edges contacts

/-- **go_contacts_rekey_equivariant.**  Renumbering the node keys with a `ρ` that is strictly increasing on the
keys the molecule mentions renumbers the backbone keys of the Go pairs and changes nothing else; the
exclusions are the renumbered exclusions, the `nonbond_params` pairs are the same. -/
theorem go_contacts_rekey_equivariant (ρ : Int → Int)
    (P : C18.Params) (atoms : List C18.Atom) (edges : List (Int × Int)) (contacts : List C18.Contact)
    (hρ : ∀ x ∈ keys18 atoms edges, ∀ y ∈ keys18 atoms edges, x < y → ρ x < ρ y) :
    C18.selectContacts P (atoms.map (rekey18 ρ)) (edges.map (fun e => (ρ e.1, ρ e.2))) contacts
      = Outcome.rekey ρ (C18.selectContacts P atoms edges contacts)
    ∧ ∀ out, C18.selectContacts P atoms edges contacts = .ok out →
        ∃ out', C18.selectContacts P (atoms.map (rekey18 ρ)) (edges.map (fun e => (ρ e.1, ρ e.2))) contacts = .ok out'
          ∧ C18.exclusionsOf out' = (C18.exclusionsOf out).map (fun e => (ρ e.1, ρ e.2))
          ∧ C18.nonbondOf out' = C18.nonbondOf out :=
  ⟨c18_select_rekey_equivariant ρ P atoms edges contacts hρ,
    fun out hok => c18_exclusions_rekey_equivariant ρ P atoms edges contacts hρ out hok⟩

/-- **go_pipeline_rekey_outcome.**  For the whole `GoPipeline` (the new site keys `max key + 1, ...` do NOT commute
with `ρ`, see `c18_pipeline_rekey_site_keys_witness`): the contact outcome of the renumbered molecule is the
renumbered outcome, provided the sites are not named like the backbone bead, the molecule is not empty and
every edge joins nodes of the molecule. -/
theorem go_pipeline_rekey_outcome (ρ : Int → Int)
    (P : C18.Params) (vsn : String) (atoms : List C18.Atom) (edges : List (Int × Int))
    (contacts : List C18.Contact) (hne : atoms ≠ []) (hvs : vsn ≠ P.backbone)
    (hρ : ∀ x ∈ atoms.map (·.key), ∀ y ∈ atoms.map (·.key), x < y → ρ x < ρ y)
    (hE : ∀ e ∈ edges, e.1 ∈ atoms.map (·.key) ∧ e.2 ∈ atoms.map (·.key)) :
    (C18.goPipeline P vsn (atoms.map (rekey18 ρ)) (edges.map (fun e => (ρ e.1, ρ e.2))) contacts).2
      = Outcome.rekey ρ (C18.goPipeline P vsn atoms edges contacts).2 :=
  c18_pipeline_rekey_outcome ρ P vsn atoms edges contacts hne hvs hρ hE

/-- **go_rekey_nonmonotone_witness.**  Order preservation cannot be dropped: three one-bead residues, the first two
with the same `_old_resid`; exchanging the keys 1 and 2 (injective, distinct node keys) turns "no Go pair" into
"one Go pair". -/
theorem go_rekey_nonmonotone_witness :
    (∀ x ∈ keys18 Ex18.dupAtoms [], ∀ y ∈ keys18 Ex18.dupAtoms [], Ex18.swap12 x = Ex18.swap12 y → x = y)
    ∧ (Ex18.dupAtoms.map (·.key)).Nodup
    ∧ C18.selectContacts Ex18.Pd Ex18.dupAtoms [] Ex18.dupContacts = .ok []
    ∧ C18.selectContacts Ex18.Pd (Ex18.dupAtoms.map (rekey18 Ex18.swap12)) [] Ex18.dupContacts
        = .ok [{ ta := "g_3", tb := "g_1", d2 := 9, bbA := 3, bbB := 2 }] := by
  obtain ⟨h1, h2, h3, h4, _⟩ := c18_rekey_nonmonotone_witness
  exact ⟨h1, h2, h3, h4⟩

example : Ex18.rotZ.IsOrtho := by decide
example : ∀ x ∈ keys18 Ex18.atoms Ex18.edges, ∀ y ∈ keys18 Ex18.atoms Ex18.edges, x < y → Ex18.ρ x < Ex18.ρ y := by
  decide
example : C18.Example.atoms ≠ [] ∧ ("CA" : String) ≠ Ex18.P.backbone
    ∧ (∀ x ∈ C18.Example.atoms.map (·.key), ∀ y ∈ C18.Example.atoms.map (·.key), x < y → Ex18.ρ x < Ex18.ρ y)
    ∧ (∀ e ∈ Ex18.edges, e.1 ∈ C18.Example.atoms.map (·.key) ∧ e.2 ∈ C18.Example.atoms.map (·.key)) := by
  decide

/-! ## 5. numbering of the input atoms: do_mapping (C01)

The keys of the input atoms are assigned by the PDB reader in file order; they are presentation.  `C01.assemble`
reads them through (i) equality (dictionaries, overlap test, references, edges) and (ii) the ORDER of the lowest
atom keys of the matches (`sorted(block_matches, key=min key)`, which fixes the order of the blocks, hence
particle numbers, resids and charge groups).  `S01.support m ps` = every key the input mentions (atom keys, both
ends of the edges, atoms and reference targets of the matches). -/

/-- **mapping_rekey_equivariant.**  For every renumbering `ρ` that is injective on the keys the input mentions and
keeps the order of the lowest atom keys of the matches, `do_mapping` on the renumbered input gives the
renumbered result: same particles, names, resids, charge groups, `_old_resid`, weights, bonds, interactions,
warnings, same error outcome; the constituent atoms of every particle are the renumbered ones. -/
theorem mapping_rekey_equivariant (ρ : Int → Int) (m : C01.MolIn) (ps : List C01.Placement)
    (hinj : ∀ x ∈ S01.support m ps, ∀ y ∈ S01.support m ps, ρ x = ρ y → x = y)
    (hord : ∀ p ∈ ps, ∀ q ∈ ps,
      (C01.minKey (Placement.rekey ρ p) ≤ C01.minKey (Placement.rekey ρ q) ↔ C01.minKey p ≤ C01.minKey q)) :
    C01.assemble (MolIn.rekey ρ m) (ps.map (Placement.rekey ρ)) = (C01.assemble m ps).map (Result.rekey ρ) :=
  c01_assemble_rekey_equivariant ρ m ps hinj hord

/-- **mapping_table_rekey_invariant** (the clause of C11).  Under the same hypotheses the particle table (key,
name, resid, charge group, `_old_resid`, weights in order), the bonds, the interactions and the warnings - or
the error - are THE SAME. -/
theorem mapping_table_rekey_invariant (ρ : Int → Int) (m : C01.MolIn) (ps : List C01.Placement)
    (hinj : ∀ x ∈ S01.support m ps, ∀ y ∈ S01.support m ps, ρ x = ρ y → x = y)
    (hord : ∀ p ∈ ps, ∀ q ∈ ps,
      (C01.minKey (Placement.rekey ρ p) ≤ C01.minKey (Placement.rekey ρ q) ↔ C01.minKey p ≤ C01.minKey q)) :
    (C01.assemble (MolIn.rekey ρ m) (ps.map (Placement.rekey ρ))).map Result.table
      = (C01.assemble m ps).map Result.table :=
  c01_table_rekey_invariant ρ m ps hinj hord

/-- **mapping_table_monotone_renumbering.**  In particular for every renumbering that is strictly increasing on the
keys the input mentions (what the reader does when atoms are added or removed elsewhere in the file, or numbering
starts elsewhere); nothing is required outside those keys. -/
theorem mapping_table_monotone_renumbering (ρ : Int → Int) (m : C01.MolIn) (ps : List C01.Placement)
    (hmono : ∀ x ∈ S01.support m ps, ∀ y ∈ S01.support m ps, x < y → ρ x < ρ y) :
    C01.assemble (MolIn.rekey ρ m) (ps.map (Placement.rekey ρ)) = (C01.assemble m ps).map (Result.rekey ρ)
    ∧ (C01.assemble (MolIn.rekey ρ m) (ps.map (Placement.rekey ρ))).map Result.table
        = (C01.assemble m ps).map Result.table :=
  ⟨c01_assemble_rekey_equivariant_increasing ρ m ps hmono, c01_table_rekey_invariant_increasing ρ m ps hmono⟩

/-- a renumbering that is strictly increasing inside the atoms of a match moves the lowest key with it -/
theorem mapping_lowest_key_rekey (ρ : Int → Int) (p : C01.Placement) (hne : p.atoms ≠ [])
    (hmono : ∀ x ∈ p.atoms, ∀ y ∈ p.atoms, x < y → ρ x < ρ y) :
    C01.minKey (Placement.rekey ρ p) = ρ (C01.minKey p) :=
  c01_minKey_rekey ρ p hne hmono

/-- **mapping_nonmonotone_changes_block_order.**  The order hypothesis cannot be dropped: exchanging the keys of two
residues (an injective renumbering of the same molecule with the same matches) exchanges the two blocks in the
particle table.  This is why the numbering of the PDB reader (file order of the RESIDUES) is not presentation,
while the order of the atoms inside a residue is. -/
theorem mapping_nonmonotone_changes_block_order :
    (∀ x y, Ex01.swap x = Ex01.swap y → x = y)
    ∧ (C01.assemble Ex01.mol [Ex01.pA, Ex01.pB]).map (fun r => (Result.table r).beads)
        = .ok [⟨1, some "A", some 1, some 1, some 1, [1, 1]⟩, ⟨2, some "B", some 2, some 2, some 2, [1, 1]⟩]
    ∧ (C01.assemble (MolIn.rekey Ex01.swap Ex01.mol) ([Ex01.pA, Ex01.pB].map (Placement.rekey Ex01.swap))).map
          (fun r => (Result.table r).beads)
        = .ok [⟨1, some "B", some 1, some 1, some 2, [1, 1]⟩, ⟨2, some "A", some 2, some 2, some 1, [1, 1]⟩] := by
  obtain ⟨h1, _, h3, h4, _⟩ := c01_nonmonotone_changes_block_order
  exact ⟨h1, h3, h4⟩

example : ∀ x ∈ S01.support C01.exMol [C01.exP2, C01.exP1], ∀ y ∈ S01.support C01.exMol [C01.exP2, C01.exP1],
    x < y → Ex01.ρK x < Ex01.ρK y := by decide
example : ¬ (∀ x y, Ex01.ρK x = Ex01.ρK y → x = y) := fun h => absurd (h 0 1 (by decide)) (by decide)

end C11
