import VermouthProps.C12
import VermouthProofs.C12_Ext
/-!
# C12, extension round — the enlarged operation set

Top-level statements about the operations added to the model in the extension round
(`lean/VermouthModel/C12.lean`): bond attribute dicts, `remove_edge(s_from)`,
`make_edges_from_interaction(s|_type)`, `Molecule.clear`, log entries and citations of a merge, force
fields, a molecule merged into itself, `Block` building steps, `LinkPredicate` values and version 0
in the templates of `remove_matching_interaction`.

Vocabulary:
* `Mol.EaOk m`   : every entry of the bond attribute table belongs to an existing bond;
* `Mol.InvE m`   : `Mol.Inv m ∧ Mol.EaOk m`, the extended invariant; `PoolInvE`;
* `Op.safe p op` : false only for `clear` of a molecule that has an interaction with an atom;
* `Op.blockOk op`: the block argument of `fromBlock` / `buildBlock` has `Block.EaOk`;
* `Mol.LogOk m`  : every format map of every log entry mentions atoms of `m` only (NOT invariant);
* `pathPair atoms a b` : `{a, b}` are consecutive atoms of the interaction.
-/
namespace C12

/-! ## 1. The extended invariant -/

theorem inve_iff (m : Mol) :
    m.InvE ↔ m.Inv ∧ ∀ x ∈ m.eattr, (x.1.1, x.1.2) ∈ m.edges ∨ (x.1.2, x.1.1) ∈ m.edges := by
  unfold Mol.InvE Mol.EaOk
  apply and_congr Iff.rfl
  constructor
  · intro h x hx; exact (hasEdge_iff m _ _).mp (h x hx)
  · intro h x hx; exact (hasEdge_iff m _ _).mpr (h x hx)

/-- `exA` with attribute dicts on both bonds (one stored under the reversed orientation) -/
def exAE : Mol := { exA with eattr := [((1, 2), { order := some 1 }), ((2, 5), { kind := some "arom" })] }
/-- an attribute dict for a bond that does not exist: violates `EaOk` -/
def exBadE : Mol := { exA with eattr := [((1, 5), { order := some 2 })] }

example : exAE.InvE := by decide
example : exA.InvE ∧ exB.InvE := by decide
example : exBadE.Inv ∧ ¬ exBadE.EaOk := by decide

/-- EVERY operation of the enlarged set (with every argument, succeeding or failing) preserves the
extended invariant, except `clear` of a molecule with interactions (`Op.safe`) -/
theorem inve_step (p : Pool) (op : Op) (h : PoolInvE p) (hs : op.safe p = true) (hb : op.blockOk = true) :
    PoolInvE (step p op).1 :=
  step_inve h op hs hb

theorem inve_reachable (ops : List Op) (hs : SafeRun [] ops = true) (hb : ∀ op ∈ ops, op.blockOk = true) :
    PoolInvE (run [] ops) :=
  run_inve (fun m hm => by cases hm) ops hs hb

/-- a history without `clear` is safe from every pool -/
theorem safe_run_of_no_clear (p : Pool) (ops : List Op) (h : ∀ op ∈ ops, op.isClear = false) :
    SafeRun p ops = true :=
  safeRun_of_no_clear p ops h

/-- a history over the new operations: bond attributes, bond removal, bonds from interactions,
bulk node addition with common attributes, log entries, a block built with `add_atom` -/
def exHistoryE : List Op :=
  [.newMol (some 1) (some "ffA"),
   .addNodesC 0 [(1, none), (2, some { name := some "CA" }), (1, some { resid := some 4 }), (3, none)] { chain := some "A" },
   .addEdgeA 0 1 2 { order := some 1 }, .addEdgeA 0 2 1 { kind := some "single" },
   .addInter 0 "angles" [1, 2, 3] "q" none, .addInter 0 "bonds" [3, 1] "p" (some 0) false,
   .makeEdgesType 0 "angles", .makeEdgesAll 0, .removeEdge 0 2 1, .addEdgeA 0 1 2 {},
   .addLog 0 20 "msg" [[("A", 1)]],
   .buildBlock { nrexcl := some 1, ff := some "ffA" }
     [.addAtom { name := some "N" }, .addAtom { name := some "CA", resid := some 2 }, .addEdge "N" "CA" { order := some 2 },
      .addInter { ty := "bonds", atoms := ["N", "CA"], params := "p" }, .log 30 "block note"] 1 0 0,
   .merge 0 1, .removeEdges 0 [(4, 5), (9, 9)], .copy 0, .clear 2]

example : SafeRun [] exHistoryE = false := by decide
example : SafeRun [] exHistoryE.dropLast = true := by decide
example : ∀ op ∈ exHistoryE, op.blockOk = true := by decide
example : PoolInvE (run [] exHistoryE.dropLast) := by decide
example : ((run [] exHistoryE.dropLast)[0]?.map (fun m => (m.keys, m.edges, m.eattr))) =
    some ([1, 2, 3, 4, 5], [(2, 3), (1, 2)], [((1, 2), ({} : EAttrs))]) := by decide
example : ¬ PoolInv (run [] exHistoryE) := by decide

/-! ## 2. `Molecule.clear()` (finding F-C12-4) -/

/-- what `clear` does: atoms, bonds and bond attributes go; the interactions (and citations, nrexcl,
force field, log entries) stay -/
theorem clear_spec (m : Mol) :
    m.clear.nodes = [] ∧ m.clear.edges = [] ∧ m.clear.eattr = [] ∧ m.clear.inters = m.inters ∧
    m.clear.cites = m.cites ∧ m.clear.nrexcl = m.nrexcl ∧ m.clear.ff = m.ff ∧ m.clear.logs = m.logs ∧
    (m.clear.Inv ↔ ∀ ti ∈ m.inters, ti.2.atoms = []) :=
  ⟨rfl, rfl, rfl, rfl, rfl, rfl, rfl, rfl, clear_inv_iff m⟩

/-- the first clause of C12 is FALSE for `clear`: from a molecule that satisfies the invariant it
leads to one whose two interactions mention atoms that are not present (replayed on the real code
by corpus/c12_hard.json, history `clear`) -/
theorem clear_dangling_witness :
    exA.Inv ∧ ¬ exA.clear.Inv ∧ exA.clear.keys = [] ∧
    exA.clear.inters.map (fun ti => ti.2.atoms) = [[1, 2], [1, 2, 5]] ∧
    (step [exA] (.clear 0)).2 = .ok ∧ Op.safe [exA] (.clear 0) = false := by
  decide

/-! ## 3. Bonds: attributes, removal, bonds derived from interactions -/

/-- `add_edge(u, v, **a)`: nodes / bonds as for `add_edge(u, v)`; the bond's dict is its old dict
updated with `a` (whatever the orientation it is stored under), no other bond's dict changes -/
theorem add_edge_attrs_spec (m : Mol) (u v : Int) (a : EAttrs) :
    (m.addEdgeA u v a).nodes = (m.addEdge u v).nodes ∧ (m.addEdgeA u v a).edges = (m.addEdge u v).edges ∧
    (m.addEdgeA u v a).inters = m.inters ∧
    lookupE (m.addEdgeA u v a).eattr u v = (lookupE m.eattr u v).update a ∧
    (∀ c d, sameEdge c d (u, v) = false → lookupE (m.addEdgeA u v a).eattr c d = lookupE m.eattr c d) := by
  refine ⟨rfl, rfl, addEdge_inters m u v, ?_, ?_⟩
  · show lookupE (upsertE (m.addEdge u v).eattr u v a) u v = _
    rw [lookupE_upsertE_self, addEdge_eattr]
  · intro c d h
    show lookupE (upsertE (m.addEdge u v).eattr u v a) c d = _
    rw [lookupE_upsertE_other _ _ _ _ _ _ h, addEdge_eattr]

example : lookupE (exAE.addEdgeA 5 2 { order := some 3 }).eattr 2 5 = { order := some 3, kind := some "arom" } := by decide
example : lookupE (exAE.addEdgeA 5 2 { order := some 3 }).eattr 1 2 = { order := some 1 } := by decide

/-- `remove_edge` / `remove_edges_from`: exactly the listed bonds go (either orientation), with
their attribute dicts; atoms, interactions and everything else stay; `remove_edge` of an absent
bond raises NetworkXError and changes nothing -/
theorem remove_edges_spec (m : Mol) (l : List (Int × Int)) :
    (m.dropEdges l).nodes = m.nodes ∧ (m.dropEdges l).inters = m.inters ∧
    (∀ a b, (m.dropEdges l).hasEdge a b = true ↔
      m.hasEdge a b = true ∧ ∀ uv ∈ l, sameEdge uv.1 uv.2 (a, b) = false) ∧
    (∀ uv ∈ l, lookupE (m.dropEdges l).eattr uv.1 uv.2 = {}) ∧
    (∀ p i u v, p[i]? = some m → m.hasEdge u v = false → step p (.removeEdge i u v) = (p, .nxerror)) := by
  refine ⟨rfl, rfl, ?_, ?_, ?_⟩
  · intro a b
    have hsym : ∀ uv : Int × Int, sameEdge uv.1 uv.2 (b, a) = sameEdge uv.1 uv.2 (a, b) := by
      intro uv
      have := sameEdge_swap uv.1 uv.2 (a, b)
      simp only at this
      rw [this, sameEdge_comm]
    rw [hasEdge_iff, hasEdge_iff]
    simp only [Mol.dropEdges, List.mem_filter, Bool.not_eq_true', List.any_eq_false, Bool.not_eq_true]
    constructor
    · rintro (⟨h1, h2⟩ | ⟨h1, h2⟩)
      · exact ⟨Or.inl h1, h2⟩
      · exact ⟨Or.inr h1, fun uv huv => by rw [← hsym]; exact h2 uv huv⟩
    · rintro ⟨h1 | h1, h2⟩
      · exact Or.inl ⟨h1, h2⟩
      · exact Or.inr ⟨h1, fun uv huv => by rw [hsym]; exact h2 uv huv⟩
  · intro uv huv
    unfold lookupE
    have : (m.dropEdges l).eattr.find? (fun x => sameEdge uv.1 uv.2 x.1) = none := by
      rw [List.find?_eq_none]
      intro x hx
      simp only [Mol.dropEdges, List.mem_filter, Bool.not_eq_true', List.any_eq_false, Bool.not_eq_true] at hx
      simpa using hx.2 uv huv
    rw [this]
  · intro p i u v hm hne
    simp only [step, onMol, hm, hne, setAt, Bool.false_eq_true, ↓reduceIte, set_self p i m hm]

/-- so a bond that is removed and added again starts with the attributes given then -/
theorem bond_attrs_fresh_after_removal (m : Mol) (u v : Int) (a : EAttrs) :
    lookupE ((m.dropEdges [(u, v)]).addEdgeA u v a).eattr u v = a := by
  rw [(add_edge_attrs_spec _ u v a).2.2.2.1, (remove_edges_spec m [(u, v)]).2.2.2.1 (u, v) List.mem_cons_self]
  cases a with
  | mk o k => cases o <;> cases k <;> rfl

example : (exAE.dropEdges [(2, 1), (7, 7)]).edges = [(5, 2)] ∧
    (exAE.dropEdges [(2, 1), (7, 7)]).eattr = [((2, 5), { kind := some "arom" })] := by decide
example : step [exA] (.removeEdge 0 1 5) = ([exA], .nxerror) := by decide

/-- `make_edges_from_interaction_type(ty)` under the invariant: no atom, interaction or attribute
dict changes; afterwards `{a, b}` is a bond iff it was one or `a`, `b` are consecutive atoms of an
interaction of type `ty` whose meta does not say `edge: False` -/
theorem make_edges_spec (m : Mol) (h : m.Inv) (ty : String) :
    (m.makeEdgesType ty).nodes = m.nodes ∧ (m.makeEdgesType ty).inters = m.inters ∧
    (m.makeEdgesType ty).eattr = m.eattr ∧ (m.makeEdgesType ty).cites = m.cites ∧
    (m.makeEdgesType ty).nrexcl = m.nrexcl ∧
    (∀ a b, (m.makeEdgesType ty).hasEdge a b = true ↔
      m.hasEdge a b = true ∨ ∃ ti ∈ m.inters, ti.1 = ty ∧ ti.2.edge = true ∧ pathPair ti.2.atoms a b) :=
  makeEdgesType_spec' m h.1 ty

/-- `make_edges_from_interactions()` = the same for bonds, angles, dihedrals, cmap, constraints in turn -/
theorem make_edges_all_spec (m : Mol) :
    m.makeEdgesAll = ((((m.makeEdgesType "bonds").makeEdgesType "angles").makeEdgesType "dihedrals").makeEdgesType
      "cmap").makeEdgesType "constraints" := rfl

theorem path_pair_iff (atoms : List Int) (a b : Int) :
    pathPair atoms a b ↔ ∃ i, (atoms[i]? = some a ∧ atoms[i + 1]? = some b) ∨ (atoms[i]? = some b ∧ atoms[i + 1]? = some a) := by
  have key : ∀ (l : List Int) (x y : Int), (x, y) ∈ consecPairs l ↔ ∃ i, l[i]? = some x ∧ l[i + 1]? = some y := by
    intro l
    induction l with
    | nil => intro x y; simp [consecPairs]
    | cons c t ih =>
      intro x y
      cases t with
      | nil =>
        simp only [consecPairs, List.not_mem_nil, false_iff, not_exists, not_and]
        intro i _ h2; simp at h2
      | cons d r =>
        simp only [consecPairs, List.mem_cons, Prod.mk.injEq, ih x y]
        constructor
        · rintro (⟨rfl, rfl⟩ | ⟨i, h1, h2⟩)
          · exact ⟨0, rfl, rfl⟩
          · exact ⟨i + 1, h1, h2⟩
        · rintro ⟨i, h1, h2⟩
          cases i with
          | zero => simp only [List.getElem?_cons_zero, Option.some.injEq, Nat.zero_add, List.getElem?_cons_succ] at h1 h2
                    exact Or.inl ⟨h1.symm, h2.symm⟩
          | succ j => exact Or.inr ⟨j, h1, h2⟩
  unfold pathPair
  rw [key, key]
  constructor
  · rintro (⟨i, h⟩ | ⟨i, h⟩)
    · exact ⟨i, Or.inl h⟩
    · exact ⟨i, Or.inr h⟩
  · rintro ⟨i, h | h⟩
    · exact Or.inl ⟨i, h⟩
    · exact Or.inr ⟨i, h⟩

example : (exB.makeEdgesType "constraints").edges = exB.edges := by decide          -- edge: False
example : ((exA.dropEdges [(5, 2)]).makeEdgesType "angles").edges = [(1, 2), (2, 5)] := by decide
example : (({ exA with edges := [] } : Mol).makeEdgesAll).edges = [(1, 2), (2, 5)] := by decide

/-- `add_nodes_from(entries, **common)`: a bare key gets `common`, a `(key, dict)` pair gets `common`
overridden by its dict; the node table is then updated entry by entry (a repeated key is updated
again), which preserves the invariant like every node addition -/
theorem add_nodes_common_spec (p : Pool) (i : Nat) (l : List (Int × Option Attrs)) (common : Attrs) :
    step p (.addNodesC i l common) = step p (.addNodes i (withCommon common l)) ∧
    (withCommon common l).map Prod.fst = l.map Prod.fst ∧
    (∀ k, (k, none) ∈ l → (k, common) ∈ withCommon common l) ∧
    (∀ k dd, (k, some dd) ∈ l → (k, common.update dd) ∈ withCommon common l) := by
  refine ⟨rfl, by simp [withCommon], ?_, ?_⟩
  · intro k hk; exact List.mem_map.mpr ⟨(k, none), hk, rfl⟩
  · intro k dd hk; exact List.mem_map.mpr ⟨(k, some dd), hk, rfl⟩

/-! ## 4. Templates of `remove_matching_interaction`: `LinkPredicate` values, version 0 -/

/-- the three kinds of template value (`x` = `attributes.get(key)`, `none` = absent) -/
theorem pred_holds_iff {α : Type} [BEq α] [LawfulBEq α] (x : Option α) :
    (∀ v, (Pred.eq v).holds x = true ↔ x = v) ∧
    (∀ vs, (Pred.choice vs).holds x = true ↔ x ∈ vs) ∧
    (∀ v, (Pred.notDefOrNot v).holds x = true ↔ x = none ∨ x ≠ v) := by
  refine ⟨?_, ?_, ?_⟩
  · intro v; simp [Pred.holds]
  · intro vs; simp [Pred.holds]
  · intro v; simp [Pred.holds]

/-- a template asking for version 0 does NOT match an interaction without version key
(`meta.get('version')` is `None`), although `remove_interaction(..., version=0)` and
`add_or_replace_interaction` treat that interaction as version 0 -/
theorem template_version_zero_witness :
    interMatch exA.nodes { atoms := [1, 2], version := some (.eq (some 0)) } { atoms := [1, 2], params := "p" } = false ∧
    interMatch exA.nodes { atoms := [1, 2], version := some (.eq (some 0)) }
      { atoms := [1, 2], params := "p", version := some 0 } = true ∧
    interMatch exA.nodes { atoms := [1, 2], version := some (.notDefOrNot (some 1)) } { atoms := [1, 2], params := "p" } = true ∧
    (exA.removeMatching "bonds" { atoms := [1, 2], version := some (.eq (some 0)) }).2 = .valueerror ∧
    (exA.removeInter "bonds" [1, 2] 0).2 = .ok := by
  decide

def exTmplPred : Template :=
  { atoms := [1, 2], atomAttrs := some [{ name := some (.choice [some "N", some "C"]), chain := some (.eq none) },
                                         { resid := some (.notDefOrNot (some 3)) }] }
example : (exA.removeMatching "bonds" exTmplPred).2 = .ok := by decide
example : (exChainA.removeMatching "bonds" exTmplPred).2 = .valueerror := by decide   -- chain is set

/-! ## 5. Merge: citations, force field, bond attributes, log entries -/

/-- the citation set of a merge is the union; the force field of the receiving molecule stays; a
merge of molecules with different force fields fails with ValueError and changes nothing -/
theorem merge_citations_union (self other : Mol) (hs : self.Inv) (ho : other.Inv)
    (hok : (self.merge other).2 = .ok) :
    (∀ c, c ∈ (self.merge other).1.cites ↔ c ∈ self.cites ∨ c ∈ other.cites) ∧
    (self.merge other).1.ff = self.ff ∧ self.ff = other.ff ∧
    (∀ a b : Mol, a.ff ≠ b.ff → a.merge b = (a, .valueerror)) := by
  refine ⟨(merge_keeps_meta self other hs ho hok).2.2, ?_, ?_, fun a b h => merge_err (Or.inl h)⟩
  · rw [merge_ok_eq hs ho hok]
    show ((mergeMid self other other.nrexcl self.offset self.shiftBy.1 self.shiftBy.2).addEdges _).ff = self.ff
    have : ∀ (m : Mol) (es : List (Int × Int)), (m.addEdges es).ff = m.ff := by
      intro m es
      induction es generalizing m with
      | nil => rfl
      | cons e t ih =>
        rw [addEdges_cons, ih]
        rw [addEdge_eq]
        have he : ∀ (x : Mol) (u : Int), (x.ensure u).ff = x.ff := by
          intro x u; unfold Mol.ensure; split <;> rfl
        split <;> simp [he]
    rw [this]; rfl
  · apply Classical.byContradiction
    intro hf
    rw [merge_err (Or.inl hf)] at hok; cases hok

/-- the bond attribute table of a merge: the receiving molecule's entries, then the newcomer's
entries re-keyed through the key correspondence (entries of self loops dropped with the loops) -/
theorem merge_keeps_bond_attrs (self other : Mol) (hs : self.InvE) (ho : other.InvE)
    (hok : (self.merge other).2 = .ok) :
    (self.merge other).1.eattr = self.eattr ++ renameEAttr other.keys self.offset other.eattr ∧
    (∀ x, x ∈ renameEAttr other.keys self.offset other.eattr ↔
      ∃ y ∈ other.eattr, corr other.keys self.offset y.1.1 ≠ corr other.keys self.offset y.1.2 ∧
        x = ((corr other.keys self.offset y.1.1, corr other.keys self.offset y.1.2), y.2)) ∧
    (self.merge other).1.InvE := by
  refine ⟨by rw [merge_ok_eq hs.1 ho.1 hok]; rfl, mem_renameEAttr ho.1.1 ho.2 self.offset, merge_inve hs ho⟩

/-- **log_entries_renumbered.**  When the newcomer's log entries mention only its own atoms, the
log entries of the result are those of the receiving molecule, extended — for every (level, entry)
of the newcomer in its iteration order — by the newcomer's format maps with every atom `k`
replaced by `corr keys offset k`, i.e. by the key that atom has in the result (`merge_corr`,
`merge_shift_uniform`), followed by the correspondence dict itself; and the result again mentions
only atoms that are present -/
theorem log_entries_renumbered (self other : Mol) (hs : self.Inv) (ho : other.Inv) (hol : other.LogOk)
    (hok : (self.merge other).2 = .ok) :
    (self.merge other).1.logs = mergedLogs self.logs other.keys self.offset (flattenLogs other.logs) ∧
    (∀ i : Nat, (corrArg other.keys self.offset)[i]? =
      (other.keys[i]?).map (fun k => (toString k, self.offset + 1 + (i : Int)))) ∧
    (self.LogOk → (self.merge other).1.LogOk) := by
  rw [merge_ok_eq hs ho hok]
  refine ⟨mergeResult_logs hol _ _ _ _, fun i => corrArgFrom_getElem? _ _ i,
    fun hsl => mergeResult_logOk ho.1 hsl hol _ _ _ _⟩

/-- with such log entries a merge is all-or-nothing and never raises KeyError (see `merge_outcome`);
without, it is not (finding F-C12-6): the newcomer's entry mentions atom 2, which was removed; the
merge raises KeyError AFTER it has added the newcomer's atom and interaction -/
def exLogDangling : Mol :=
  { nodes := [(1, { name := some "A" })], inters := [("bonds", { atoms := [1], params := "p" })], nrexcl := some 1,
    logs := [(30, [("warn {X}", [[("X", 2)]])])] }

theorem merge_log_keyerror_witness :
    exLogDangling.Inv ∧ ¬ exLogDangling.LogOk ∧ (exA.merge exLogDangling).2 = .keyerror ∧
    (exA.merge exLogDangling).1.keys = [1, 2, 5, 6] ∧ (exA.merge exLogDangling).1.inters.length = 3 ∧
    (exA.merge exLogDangling).1.logs = [] ∧ (exA.merge exLogDangling).1.Inv := by
  decide

/-- log entries are not maintained by `remove_node`: the entry of atom 5 ("C") survives the removal
of atom 5, and after the next merge it points to the newcomer's third atom (key 0 there), which
got key 5 -/
def exLogged : Mol := { exA with logs := [(20, [("msg {A}", [[("A", 5)]])])] }

theorem stale_log_after_remove_witness :
    exLogged.LogOk ∧ ¬ (exLogged.dropNodes [5]).LogOk ∧
    ((exLogged.dropNodes [5]).merge exB).2 = .ok ∧
    ((exLogged.dropNodes [5]).merge exB).1.logs = [(20, [("msg {A}", [[("A", 5)]])])] ∧
    (lookupAttrs exLogged.nodes 5).map Attrs.name = some (some "C") ∧
    corr exB.keys (exLogged.dropNodes [5]).offset 0 = 5 ∧
    lookupAttrs ((exLogged.dropNodes [5]).merge exB).1.nodes 5 = some { resid := some 2, cg := some 2 } := by
  decide

example : exLogged.LogOk ∧ ({ exB with logs := [(20, [("msg {A}", [[("A", 8)], [("B", 0)]])]), (30, [("w", [])])] } : Mol).LogOk := by
  decide
example : (exLogged.merge { exB with logs := [(20, [("msg {A}", [[("A", 8)]])]), (30, [("w", [])])] }).1.logs =
    [(20, [("msg {A}", [[("A", 5)], [("A", 7)], [("-3", 6), ("8", 7), ("0", 8)]])]),
     (30, [("w", [[("-3", 6), ("8", 7), ("0", 8)]])])] := by decide

/-- `Block.to_molecule` copies the citations and the (format-map free) log entries, hands over
the block's force field and re-keys the bond attribute dicts; with a consistent block the result
satisfies the extended invariant -/
theorem to_molecule_bookkeeping (b : Block) (atomOff residOff cgOff : Int) (m : Mol)
    (h : b.toMolecule atomOff residOff cgOff = some m) :
    m.cites = b.cites ∧ m.ff = b.ff ∧
    m.logs = b.logs.foldl (fun acc le => extendLog acc le.1 le.2 []) [] ∧
    m.eattr = blockEAttr (b.nodes.map Prod.fst) atomOff b.eattr ∧
    (b.EaOk → m.InvE) := by
  obtain ⟨inters, edges, _, _, rfl⟩ := toMolecule_eq b _ _ _ m h
  have hff : ∀ (x : Mol) (es : List (Int × Int)), (x.addEdges es).ff = x.ff ∧ (x.addEdges es).logs = x.logs := by
    intro x es
    induction es generalizing x with
    | nil => exact ⟨rfl, rfl⟩
    | cons e t ih =>
      rw [addEdges_cons, (ih _).1, (ih _).2, addEdge_eq]
      have he : ∀ (y : Mol) (u : Int), (y.ensure u).ff = y.ff ∧ (y.ensure u).logs = y.logs := by
        intro y u; unfold Mol.ensure; split <;> exact ⟨rfl, rfl⟩
      split <;> simp [he]
  refine ⟨by rw [addEdges_cites]; rfl, (hff _ _).1, (hff _ _).2, by rw [addEdges_eattr]; rfl, ?_⟩
  intro hb
  exact ⟨toMolecule_inv' b _ _ _ _ h, toMolecule_ea b hb _ _ _ _ h⟩

/-! ## 6. A molecule merged into itself (finding F-C12-5) -/

/-- **self_merge_spec.**  What `m.merge_molecule(m)` does to a molecule that satisfies the invariant:
* no atom, or one atom and no interaction: the normal merge of `m` with (a snapshot of) itself —
  the merge theorems of section 6 apply with `other = self`, every clause of the property holds;
* two or more atoms: RuntimeError; ONE atom has been added, under the fresh key `offset + 1`, a
  copy of the FIRST atom shifted like a merged atom; nothing else;
* one atom `k` and interactions: KeyError; the atom has been duplicated under `k + 1` and the
  interactions of the first interaction's type have been duplicated onto it; nothing else.
In the last two cases "fresh keys" and "uniform shift" hold for what was added and nothing of
`self` is lost, but "keeps every atom, bond and interaction of both operands" fails, and the
operation has raised.  The invariant survives in every case. -/
theorem self_merge_spec (m : Mol) (h : m.Inv) :
    ((m.nodes = [] ∨ (∃ first, m.nodes = [first]) ∧ m.inters = []) → m.selfMerge = m.merge m) ∧
    (∀ first second rest, m.nodes = first :: second :: rest →
      m.selfMerge =
        ({ m with nodes := m.nodes ++ [(m.offset + 1, first.2.shift m.shiftBy.1 m.shiftBy.2)], maxNode := none },
         .runtimeerror)) ∧
    (∀ first ty i rest, m.nodes = [first] → m.inters = (ty, i) :: rest →
      m.selfMerge =
        ({ m with nodes := m.nodes ++ [(m.offset + 1, first.2.shift m.shiftBy.1 m.shiftBy.2)],
                  inters := m.inters ++ (m.inters.filter (fun ti => ti.1 == ty)).map
                    (fun ti => (ti.1, { ti.2 with atoms := ti.2.atoms.map (fun _ => m.offset + 1) })),
                  maxNode := some (m.offset + 1) }, .keyerror)) ∧
    m.offset + 1 ∉ m.keys ∧ m.selfMerge.1.Inv ∧ (m.EaOk → m.selfMerge.1.EaOk) :=
  ⟨selfMerge_normal, fun f s r hn => selfMerge_two h f s r hn,
   fun f ty i r hn hi => selfMerge_one_inters h f ty i r hn hi,
   fun hx => by have := offset_ge (self := m) _ hx; omega,
   selfMerge_inv h, selfMerge_ea h⟩

/-- on `exA` (3 atoms, 2 bonds, 2 interactions): RuntimeError, 4 atoms instead of 6, no new bond, no
new interaction; a one-atom molecule without interactions IS duplicated correctly -/
theorem self_merge_incomplete_witness :
    exA.selfMerge.2 = .runtimeerror ∧ exA.selfMerge.1.keys = [1, 2, 5, 6] ∧
    exA.selfMerge.1.edges = exA.edges ∧ exA.selfMerge.1.inters = exA.inters ∧
    (lookupAttrs exA.selfMerge.1.nodes 6) = some { name := some "N", resid := some 7, cg := some 9 } ∧
    (step [exA] (.merge 0 0)).2 = .runtimeerror ∧
    (({ nodes := [(4, { name := some "X", resid := some 2 })], nrexcl := some 1 } : Mol).selfMerge).2 = .ok ∧
    (({ nodes := [(4, { name := some "X", resid := some 2 })], nrexcl := some 1 } : Mol).selfMerge).1.nodes =
      [(4, { name := some "X", resid := some 2 }), (5, { name := some "X", resid := some 4, cg := some 2 })] ∧
    (({ nodes := [(4, {})], inters := [("bonds", { atoms := [4, 4], params := "p" }), ("angles", { atoms := [4], params := "q" })],
        nrexcl := some 1 } : Mol).selfMerge).2 = .keyerror := by
  decide

/-- `MergeAllMolecules` on a system that lists its first molecule again: the operands before the
repetition are merged normally, then the accumulated molecule is merged into itself
(`mergeFoldS` = the fold with `Mol.selfMerge` at those positions) -/
theorem merge_all_self_step (st : State) (s i0 : Nat) (rest : List Nat) (m0 : Mol) (ms : List (Option Mol))
    (hs : st.systems[s]? = some (i0 :: rest)) (hrep : i0 ∈ rest)
    (hm : st.pool[i0]? = some m0) (hg : getMolsS st.pool i0 rest = some ms) :
    sstep st (.mergeAll s) =
      ({ st with pool := st.pool.set i0 (mergeFoldS m0 ms).1,
                 systems := if (mergeFoldS m0 ms).2 = .ok then st.systems.set s [i0] else st.systems },
       (mergeFoldS m0 ms).2) ∧
    (m0.Inv → (∀ o, some o ∈ ms → o.Inv) → (mergeFoldS m0 ms).1.Inv) ∧
    (∀ acc, mergeS acc none = acc.selfMerge) ∧ (∀ acc x, mergeS acc (some x) = acc.merge x) := by
  have : rest.contains i0 = true := by simpa using hrep
  refine ⟨?_, fun h0 hms => mergeFoldS_inv ms h0 hms, fun _ => rfl, fun _ _ => rfl⟩
  simp only [sstep, hs, this, hm, hg, ↓reduceIte]

example : (sstep { exSys with systems := [[0, 1, 0]] } (.mergeAll 0)).2 = .runtimeerror := by decide
example : ((sstep { exSys with systems := [[0, 1, 0]] } (.mergeAll 0)).1.pool[0]?.map Mol.keys) =
    some [1, 2, 5, 6, 7, 8, 9] := by decide
example : (sstep { exSys with systems := [[3, 3, 0]] } (.mergeAll 0)).2 = .ok := by decide   -- the empty molecule

/-- the extended invariant in the system layer: every system-level operation (add_molecule with
its force-field hand-over, System.copy, MergeAllMolecules incl. the self-merge, MergeChains, and
the safe molecule operations) preserves `SInv` and `PoolInvE` -/
theorem sinve_step (st : State) (op : SOp) (h : SInv st) (he : PoolInvE st.pool)
    (hsafe : ∀ op', op = .mol op' → op'.safe st.pool = true ∧ op'.blockOk = true) :
    SInv (sstep st op).1 ∧ PoolInvE (sstep st op).1.pool := by
  have h1 := sstep_inv h op (fun op' e => (hsafe op' e).1)
  exact ⟨h1, poolInvE_of h1.1 (sstep_ea he op (fun op' e => (hsafe op' e).2))⟩

/-! ## 7. Building a block with its own editing methods -/

/-- `Block.add_atom(atom)` needs an `atomname` (ValueError otherwise, the block is not built) and
stores the atom under that name, updating an atom of the same name; `add_interaction` on a block
raises KeyError on an unknown atom; in a built block no name is repeated and every attribute dict
belongs to a bond -/
theorem block_build_spec (b : Block) :
    (∀ a, a.name = none → b.bstep (.addAtom a) = .error .valueerror) ∧
    (∀ a n, a.name = some n → b.bstep (.addAtom a) = .ok { b with nodes := upsertB b.nodes n a }) ∧
    (∀ i, (∃ x ∈ i.atoms, x ∉ b.names) → b.bstep (.addInter i) = .error .keyerror) ∧
    (∀ steps b', b.build steps = .ok b' → (b.names.Nodup → b'.names.Nodup) ∧ (b.EaOk → b'.EaOk)) ∧
    (∀ p steps ao ro co e, b.build steps = .error e → step p (.buildBlock b steps ao ro co) = (p, e)) := by
  refine ⟨?_, ?_, ?_, ?_, ?_⟩
  · intro a ha; simp only [Block.bstep, ha]
  · intro a n ha; simp only [Block.bstep, ha]
  · intro i ⟨x, hx, hn⟩
    have : ¬ i.atoms.all b.names.contains = true := by
      intro hall; rw [List.all_eq_true] at hall
      exact hn (by simpa using hall x hx)
    simp only [Block.bstep, this, Bool.false_eq_true, ↓reduceIte]
  · intro steps b' hb
    exact ⟨fun hn => Block.build_names hn steps hb, fun he => Block.build_ea he steps hb⟩
  · intro p steps ao ro co e hb
    simp only [step, hb]

def exSteps : List BStep :=
  [.addAtom { name := some "N", resid := some 1 }, .addAtom { name := some "CA" }, .addAtom { name := some "N", cg := some 3 },
   .rawInter { ty := "angles", atoms := ["N", "CA", "C"], params := "q" }, .makeEdges "angles",
   .addEdge "CA" "N" { order := some 2 }, .log 20 "note"]

example : (Block.build {} exSteps).toOption.map (fun b => (b.names, b.edges, b.eattr.length)) =
    some (["N", "CA", "C"], [("N", "CA"), ("CA", "C")], 2) := by decide
example : (Block.build {} (exSteps ++ [.addAtom { resid := some 1 }])).toOption = none := by decide
example : (step [] (.buildBlock { nrexcl := some 1 } exSteps 1 0 0)).1.map
    (fun m => (m.keys, m.edges, lookupE m.eattr 1 2, m.logs)) =
    [([1, 2, 3], [(1, 2), (2, 3)], { order := some 2 }, [(20, [("note", [])])])] := by decide

end C12
