import VermouthProofs.C03_Sort
import VermouthProps.C03
/-!
# C03 — `SortMoleculeAtoms` and the order naming → sorting → writing of martinize2

Model: `VermouthModel/C03_Sort.lean`.  martinize2 names the molecule types FIRST
(`NameMolType`), sorts the atoms of every molecule AFTERWARDS (`SortMoleculeAtoms()`, default
attributes `chain, resid, resname, insertion_code, atomid`, no renumbering) and then writes.
-/
namespace C03

/-! ## 1. the sort -/

/-- **`SortMoleculeAtoms` without `target_attr` is a permutation of the nodes** (keys, attributes
untouched; only the node order changes). -/
theorem sort_is_permutation (attrs : List String) (nodes : List Atom) :
    (sortMoleculeAtoms attrs none nodes).Perm nodes :=
  insSortBy_perm _ _

/-- with a `target_attr` the node keys are permuted and every attribute other than the target is
untouched; the target attribute is the new position, counted from 1 -/
theorem sort_renumber_permutation (attrs : List String) (k : String) (nodes : List Atom) :
    ((sortMoleculeAtoms attrs (some k) nodes).map (·.key)).Perm (nodes.map (·.key)) ∧
    ∀ (i : Nat) (a : Atom), (sortMoleculeAtoms attrs (some k) nodes)[i]? = some a →
      getAttr a k = Val.int ((i + 1 : Nat) : Int) ∧
      ∃ b, (insSortBy (sortLe attrs) nodes)[i]? = some b ∧ a.key = b.key ∧
        ∀ k₂, k₂ ≠ k → getAttr a k₂ = getAttr b k₂ := by
  constructor
  · simp only [sortMoleculeAtoms, renumber_keys]
    exact (insSortBy_perm _ _).map _
  · simp only [sortMoleculeAtoms]
    generalize insSortBy (sortLe attrs) nodes = l
    have : ∀ (l : List Atom) (s i : Nat) (a : Atom), (renumber k s l)[i]? = some a →
        getAttr a k = Val.int ((s + i : Nat) : Int) ∧
        ∃ b, l[i]? = some b ∧ a.key = b.key ∧ ∀ k₂, k₂ ≠ k → getAttr a k₂ = getAttr b k₂ := by
      intro l
      induction l with
      | nil => intro s i a h; simp [renumber] at h
      | cons x xs ih =>
        intro s i a h
        cases i with
        | zero =>
          simp only [renumber, List.getElem?_cons_zero, Option.some.injEq] at h
          subst h
          exact ⟨by simp [getAttr_setAttr_same], x, rfl, rfl, fun k₂ hk => getAttr_setAttr_other x k k₂ _ hk⟩
        | succ j =>
          simp only [renumber, List.getElem?_cons_succ] at h
          obtain ⟨h1, b, h2, h3⟩ := ih (s + 1) j a h
          refine ⟨?_, b, by simpa using h2, h3⟩
          rw [h1]; congr 1; omega
    intro i a h
    obtain ⟨h1, h2⟩ := this l 1 i a h
    refine ⟨?_, h2⟩
    rw [h1]; congr 1; omega

/-- the result is ordered by the key list (python list order, `None` < numbers < strings) ... -/
theorem sort_sorted (attrs : List String) (nodes : List Atom) :
    (sortMoleculeAtoms attrs none nodes).Pairwise (fun a b => sortLe attrs a b = true) :=
  insSortBy_sorted _ (sortLe_trans attrs) (sortLe_total attrs) _

/-- ... and stable: nodes with the same key list keep their order -/
theorem sort_stable (attrs : List String) (nodes : List Atom) (κ : List SKey) :
    (sortMoleculeAtoms attrs none nodes).filter (fun a => sortKey attrs a == κ)
      = nodes.filter (fun a => sortKey attrs a == κ) := by
  simp only [sortMoleculeAtoms]
  induction nodes with
  | nil => rfl
  | cons x xs ih =>
    simp only [insSortBy]
    rw [insBy_filter, List.filter_cons, List.filter_cons, ih]
    intro hx y _ hy
    simp only [beq_iff_eq] at hx hy
    simp [sortLe, hx, hy, lexLt_irrefl]

/-- **residues stay contiguous in the sorted node order**: with the default attributes, between
two nodes of one residue (same chain, residue number, residue name, insertion code) there are only
nodes of that residue. -/
theorem sort_keeps_residues_contiguous (nodes : List Atom) (i j k : Nat) (a b c : Atom)
    (hij : i < j) (hjk : j < k)
    (ha : (sortMoleculeAtoms sortbyDefault none nodes)[i]? = some a)
    (hb : (sortMoleculeAtoms sortbyDefault none nodes)[j]? = some b)
    (hc : (sortMoleculeAtoms sortbyDefault none nodes)[k]? = some c)
    (hres : residueKey a = residueKey c) : residueKey b = residueKey a := by
  have hs := sort_sorted sortbyDefault nodes
  have hab := pairwise_get _ _ hs i j a b hij ha hb
  have hbc := pairwise_get _ _ hs j k b c hjk hb hc
  simp only [sortLe, Bool.not_eq_true'] at hab hbc
  have h4 : ∀ x : Atom, residueKey x = (sortKey sortbyDefault x).take 4 := by
    intro x; rw [sortKey_take]; rfl
  rw [h4 a, h4 c] at hres
  rw [h4 a, h4 b]
  exact lexLt_take_convex 4 _ _ _ hab hbc hres

/-- with `target_attr = 'atomid'` the writers (`sorted_nodes`, by atom id) keep the sorted order:
residues are contiguous in the written files too -/
theorem sort_renumber_written_order (attrs : List String) (nodes : List Atom) :
    sortedNodes (sortMoleculeAtoms attrs (some "atomid") nodes) = sortMoleculeAtoms attrs (some "atomid") nodes := by
  simp only [sortMoleculeAtoms]
  apply sortedNodes_of_sorted
  apply pairwise_of_map_range _ 1
  rw [renumber_atomids, renumber_length]

/-! ## 2. martinize2: naming, then sorting, then writing -/

def sortMol (m : Mol) : Mol := { m with nodes := sortMoleculeAtoms sortbyDefault none m.nodes }

/-- all nodes of the molecule carry the same `chain` value (or none) -/
def ChainUniform (m : Mol) : Prop := ∀ a ∈ m.nodes, ∀ b ∈ m.nodes, getAttr a "chain" = getAttr b "chain"

instance (m : Mol) : Decidable (ChainUniform m) := by unfold ChainUniform; infer_instance

def noChain : List String := ["resid", "resname", "insertion_code", "atomid"]

theorem sortLe_chain_uniform (a b : Atom) (h : getAttr a "chain" = getAttr b "chain") :
    sortLe sortbyDefault a b = sortLe noChain (strip a) (strip b) := by
  have hk : ∀ x : Atom, sortKey sortbyDefault x = skeyOf (getAttr x "chain") :: sortKey noChain x := fun _ => rfl
  have hs : ∀ x : Atom, sortKey noChain (strip x) = sortKey noChain x := by
    intro x
    simp only [sortKey, noChain, List.map_cons, List.map_nil]
    rw [getAttr_strip _ _ (by decide), getAttr_strip _ _ (by decide), getAttr_strip _ _ (by decide),
      getAttr_strip _ _ (by decide)]
  simp only [sortLe, hk, hs, h, lexLt, sLt_irrefl, beq_self_eq_true, Bool.true_and, Bool.false_or]

/-- sorting a molecule whose nodes share one chain value commutes with forgetting the attributes
`share_moltype_with` ignores -/
theorem sort_strip (m : Mol) (h : ChainUniform m) :
    (sortMoleculeAtoms sortbyDefault none m.nodes).map strip = insSortBy (sortLe noChain) (m.nodes.map strip) :=
  insSortBy_map _ _ strip m.nodes (fun x hx y hy => sortLe_chain_uniform x y (h x hx y hy))

/-- **naming before sorting is harmless when every molecule has one chain**: molecules that share
a molecule type (under `ExactAttrs`) are written identically after sorting -/
theorem share_sorted_same (close : Val → Val → Bool) (m t : Mol) (hex : ExactAttrs close m t)
    (hm : ChainUniform m) (ht : ChainUniform t) (h : shareMolType close m t = true) :
    writeAtoms (sortMol m) = writeAtoms (sortMol t) := by
  simp only [shareMolType, Bool.and_eq_true] at h
  have hn := nodesSame_eq m.nodes t.nodes hex h.1.1.2
  rw [writeAtoms_strip, writeAtoms_strip]
  simp only [sortMol]
  rw [sort_strip m hm, sort_strip t ht, hn]

/-- **k-th record agreement for the martinize2 order** (name, then sort, then write): under
`ExactAttrs` and `ChainUniform` for the molecules of the system, the k-th PDB/GRO record of every
SORTED molecule is the k-th `[ atoms ]` row of the ITP written from the SORTED first molecule of
its name. -/
theorem pipeline_kth_record_agree (close : Val → Val → Bool)
    (hc : ∀ v, isNumeric v = true → close v v = true) (dedup : Bool) (sys : List Mol)
    (hex : ∀ a ∈ sys, ∀ b ∈ sys, ExactAttrs close a b) (hch : ∀ a ∈ sys, ChainUniform a)
    (i : Nat) (m : Mol) (g src : Nat)
    (hm : sys[i]? = some m) (hg : (nameMolTypes (shareMolType close) dedup sys)[i]? = some g)
    (hsrc : (g, src) ∈ itpWrites (nameMolTypes (shareMolType close) dedup sys)) :
    ∃ r, sys[src]? = some r ∧
      ∀ k : Nat, (pdbRecords (sortMol m))[k]? = (itpAtoms (sortMol r))[k]? :=
  kth_record_agree (shareMolType close) (fun m => writeAtoms (sortMol m)) dedup sys
    (fun a ha b hb h => share_sorted_same close a b (hex a ha b hb) (hch a ha) (hch b hb) h)
    (fun m0 _ => shareMolType_refl close hc m0) i m g src hm hg hsrc

/-- the names martinize2 hands to the writers are those of the UNSORTED molecules, the molecules
are the sorted ones; the ITP files are those of `write_gmx_topology` (first molecule of a name) -/
theorem cliPlan_names_mols (render : Nat → String) (shares : Mol → Mol → Bool) (cli : Cli) (sys : List Mol)
    (hgo : cli.go = false) :
    (cliPlan render shares cli sys).names = (nameMolTypes shares (!cli.sep) sys).map render ∧
    (cliPlan render shares cli sys).mols = sys.map sortMol ∧
    cliItps (cliPlan render shares cli sys)
      = if cli.top then itpWrites ((nameMolTypes shares (!cli.sep) sys).map render) else [] := by
  simp [cliPlan, hgo, cliItps, sortMol]

/-! ## 3. non-vacuity, and the boundary of `ChainUniform` (a finding) -/

section examples

private def sAtom (key : Int) (chain : String) (resid : Int) (name : String) (aid : Option Int) : Atom :=
  { key := key,
    attrs := (match aid with | some i => [("atomid", Val.int i)] | none => []) ++
      [("atomname", Val.str name), ("chain", Val.str chain), ("resid", Val.int resid), ("resname", Val.str "ALA")] }

private def mkMol (nodes : List Atom) : Mol :=
  { nrexcl := some 1, ff := none, metadata := [], edges := [], inters := [], nodes := nodes }

/-- two residues interleaved in node order are made contiguous -/
example : (sortMoleculeAtoms sortbyDefault none
      [sAtom 0 "A" 2 "X" none, sAtom 1 "A" 1 "Y" none, sAtom 2 "A" 2 "Z" none]).map (·.key) = [1, 0, 2] := by
  decide +kernel

/-- **without renumbering the WRITTEN order can break residues**: the node order is contiguous
after the sort, but the writers order by atom id; ids 1, 2, 3 on residues 2, 1, 2 -/
example : (sortedNodes (sortMoleculeAtoms sortbyDefault none
      [sAtom 0 "A" 2 "X" (some 1), sAtom 1 "A" 1 "Y" (some 2), sAtom 2 "A" 2 "Z" (some 3)])).map
        (fun a => getAttr a "resid") = [Val.int 2, Val.int 1, Val.int 2] := by
  decide +kernel

/-- **naming before sorting, two chains in one molecule** (finding F-C03-6): the two molecules
differ only in `chain` (ignored by `share_moltype_with`), so they get ONE name; sorting (chain is
the first sort attribute) orders their atoms differently; the ITP written from the first is not
the second's: `ChainUniform` is necessary. -/
private def molBA : Mol := mkMol [sAtom 0 "B" 1 "X" none, sAtom 1 "A" 2 "Y" none]
private def molAB : Mol := mkMol [sAtom 0 "A" 1 "X" none, sAtom 1 "B" 2 "Y" none]
example : nameMolTypes (shareMolType npClose) true [molBA, molAB] = [0, 0]
    ∧ writeAtoms (sortMol molBA) ≠ writeAtoms (sortMol molAB)
    ∧ ¬ ChainUniform molBA := by decide +kernel

/-- the hypotheses of `pipeline_kth_record_agree` are satisfiable -/
private def molAA : Mol := mkMol [sAtom 0 "A" 2 "X" none, sAtom 1 "A" 1 "Y" none]
private def molCC : Mol := mkMol [sAtom 0 "C" 2 "X" none, sAtom 1 "C" 1 "Y" none]
example : (∀ a ∈ [molAA, molCC], ChainUniform a)
    ∧ (∀ a ∈ [molAA, molCC], ∀ b ∈ [molAA, molCC], ExactAttrs npClose a b)
    ∧ nameMolTypes (shareMolType npClose) true [molAA, molCC] = [0, 0] := by decide +kernel

end examples

end C03
