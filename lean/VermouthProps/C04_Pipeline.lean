import VermouthProofs.C04_Pipeline
/-!
# C04 — the property for the COMPOSED model: `make_reference` + `repair_residue` / `repair_graph`

The theorems of `VermouthProps/C04.lean` start from an abstract node of the reference graph (block,
found, match).  Here they are restated for the residue node that the model of `make_reference`
(`C04.Ref.refNode`: `_get_reference_residue`, relabelling, first answer of the matcher, unsorting)
actually builds from a molecule, the force field and the requests, with the matcher SPECIFIED, not
transcribed:

  `MatcherOK g sg answers`: if the matcher yields anything for the graphs `g` (relabelled residue)
  and `sg` (relabelled reference) it was handed, its first answer is a non-empty maximum common
  induced subgraph on element colours (`IsMCIS`, any order of the pairs).

`Setting ff m q blk` collects the hypotheses about one residue request `q` of molecule `m` (all
decidable except the specification of the matcher): keys of the molecule distinct, the residue's atoms
`q.found` distinct and in the molecule, every atom has an element, `_get_reference_residue` returns
`blk`, whose keys are distinct, whose bonds join its atoms and whose atoms have elements.
-/
namespace C04.Ref
open Iso C04 C19.Repair

structure Setting (ff : FF) (m : Mol) (q : ResReq) (blk : Block) : Prop where
  molKeys : m.keys.Nodup
  foundNd : q.found.Nodup
  foundIn : ∀ k ∈ q.found, k ∈ m.keys
  molElems : AllElems m.nodes
  ref : getRef ff q.resname q.mutation q.modification = .ok blk
  blkKeys : blk.keys.Nodup
  blkClosed : BlockClosed blk
  blkElems : AllElems blk.nodes
  matcher : ∀ out, makeRef ((resAtoms m q.found).map toRAtom) (blk.nodes.map toRAtom) (resEdges m q.found) blk.edges q.answers = .ok out →
              MatcherOK out.resCopy out.refCopy q.answers

/-- **What `make_reference` hands to `repair_residue`** for a residue it does not skip: the
reference block, the residue's atoms, and a match that is a non-empty maximum common induced
subgraph of the ORIGINAL residue and reference (relabelling and unsorting cancel) — hence
well-formed in the sense of `C04.WF` (the analogue of `wf_of_mcis`). -/
theorem reference_node (ff : FF) (m : Mol) (i : Nat) (q : ResReq) (blk : Block) (R : Residue)
    (S : Setting ff m q blk) (h : refNode ff m i q = .ok (some R)) :
    R.block = blk ∧ R.found = q.found ∧ R.common = commonOf q ∧ R.mtch ≠ []
    ∧ IsMCIS (resGraph m R.found) (blockGraph R.block) R.mtch ∧ WF m R := by
  obtain ⟨h1, h2, h3, h4, h5⟩ :=
    refNode_spec S.molKeys S.foundNd S.foundIn S.molElems S.ref S.blkKeys S.blkClosed S.blkElems S.matcher h
  refine ⟨h1, h2, h3, h4, h5, wf_of_spec m R (h1 ▸ S.blkKeys) S.molKeys (h2 ▸ S.foundIn) h5⟩

/-- **The order-free specification and the enumerating reference of C06 agree**: every member of
`allMCIS` satisfies `IsMCIS`, and every `M` satisfying `IsMCIS` has the size `mcisSize` that the
reference announces (so `IsMCIS` answers are the members of `allMCIS` up to the order of the pairs;
the harness checks every recorded answer of the real matcher against the reference). -/
theorem spec_vs_reference (g sg : Graph) (hs : sg.keys.Nodup) :
    (∀ M ∈ allMCIS g sg, IsMCIS g sg M) ∧ (∀ M, IsMCIS g sg M → M.length = mcisSize g sg) :=
  ⟨fun _ h => isMCIS_of_allMCIS hs h, fun _ h => isMCIS_length hs h⟩

/-- **A repair leaves the rest of the molecule alone**: atoms outside the residue are still there,
unchanged, and so are the bonds between them. -/
theorem repair_leaves_rest_alone (m : Mol) (R : Residue) (h : WF m R) :
    (∀ a ∈ m.nodes, a.key ∉ R.found → a ∈ (repairResidue m R).mol.nodes)
    ∧ (∀ u ∈ m.keys, ∀ v ∈ m.keys, u ∉ R.found → v ∉ R.found →
        hasEdge (repairResidue m R).mol.edges u v = hasEdge m.edges u v) := repair_frame m R h

/-! ## the clauses of the property -/

/-- **Names are unique** in the repaired residue. -/
theorem names_unique (ff : FF) (m : Mol) (i : Nat) (q : ResReq) (blk : Block) (R : Residue)
    (S : Setting ff m q blk) (h : refNode ff m i q = .ok (some R)) (hN : NamesDistinct blk) :
    ∀ a ∈ (repairResidue m R).mol.nodes, ∀ b ∈ (repairResidue m R).mol.nodes,
      a.key ∈ ran (repairResidue m R).mtch → b.key ∈ ran (repairResidue m R).mtch → a.name = b.name → a = b := by
  obtain ⟨h1, _, _, _, _, hwf⟩ := reference_node ff m i q blk R S h
  exact C04.names_unique m R hwf (h1 ▸ hN)

/-- **The name assignment is an embedding into the block**: two block atoms the matcher matched are
played, after the repair, by two different atoms that carry their names and elements — the element
the input atom had — and are bonded exactly if the block atoms are. -/
theorem assignment_embedding (ff : FF) (m : Mol) (i : Nat) (q : ResReq) (blk : Block) (R : Residue)
    (S : Setting ff m q blk) (h : refNode ff m i q = .ok (some R)) :
    ∀ p ∈ R.mtch, ∀ p' ∈ R.mtch, p.1 ≠ p'.1 →
      p.2 ≠ p'.2
      ∧ (∃ a ∈ (repairResidue m R).mol.nodes, a.key = p.2 ∧ a.name = nameOf blk p.1 ∧ a.elem = elemOf blk p.1
            ∧ (resGraph m q.found).ncol p.2 = (blockGraph blk).ncol p.1)
      ∧ hasEdge (repairResidue m R).mol.edges p.2 p'.2 = hasEdge blk.edges p.1 p'.1 := by
  obtain ⟨h1, h2, _, _, hM, hwf⟩ := reference_node ff m i q blk R S h
  intro p hp p' hp' hne
  have hdn : ((R.mtch).map Prod.fst).Nodup := hM.domNd
  have htf : ∀ x ∈ R.mtch, Map.toFun R.mtch x.1 = x.2 := fun x hx => Iso.toFun_of_mem hdn (u := x.1) (t := x.2) hx
  have hd : ∀ x ∈ R.mtch, x.1 ∈ dom R.mtch := fun x hx => mem_dom_of_mem hx
  have e1 : p.2 ≠ p'.2 := by
    have := hM.iso.inj p.1 (hd p hp) p'.1 (hd p' hp') hne
    rwa [htf p hp, htf p' hp'] at this
  have e2 : (resGraph m R.found).ncol p.2 = (blockGraph R.block).ncol p.1 := by
    have := (hM.iso.node p.1 (hd p hp)).2
    unfold colourPred at this
    rw [htf p hp] at this
    simpa using this
  have e3 : (resGraph m R.found).ecol p.2 p'.2 = (blockGraph R.block).ecol p.1 p'.1 := by
    have := hM.iso.edge p.1 (hd p hp) p'.1 (hd p' hp') hne
    rwa [htf p hp, htf p' hp'] at this
  obtain ⟨⟨ext, hext, _⟩, hcons⟩ := rebuild_conservative m R hwf
  have hpf : p ∈ (repairResidue m R).mtch := by rw [hext]; exact List.mem_append_left _ hp
  obtain ⟨a, ha, hk, hn, he⟩ := canonical_names m R hwf p hpf
  have hpk := hwf.2.2.2.2.2.1 p.2 (mem_ran_of_mem hp)
  have hqk := hwf.2.2.2.2.2.1 p'.2 (mem_ran_of_mem hp')
  have hne1 : p.2 ∉ extraAtoms R.found (repairResidue m R).mtch :=
    fun hc => ((extra_final_iff m R hwf _).1 hc).2 (mem_ran_of_mem hp)
  have hne2 : p'.2 ∉ extraAtoms R.found (repairResidue m R).mtch :=
    fun hc => ((extra_final_iff m R hwf _).1 hc).2 (mem_ran_of_mem hp')
  refine ⟨e1, ⟨a, ha, hk, h1 ▸ hn, h1 ▸ he, h1 ▸ h2 ▸ e2⟩, ?_⟩
  rw [hcons p.2 (hwf.2.2.2.2.2.2 _ hpk) p'.2 (hwf.2.2.2.2.2.2 _ hqk) hne1 hne2, ← resGraph_ecol m R.found p.2 p'.2 hpk hqk,
    ← h1, ← blockGraph_ecol, e3]

/-- **The rebuild is complete**: if the reference is connected, nothing is lost, every atom of the
reference is played by an atom of the molecule afterwards, and every bond of the reference with a
rebuilt end exists between the atoms that play its ends.  (That a skipped residue is the only
alternative is `chosen_match_is_answer`; a residue that is not skipped has a non-empty match.) -/
theorem rebuild_complete (ff : FF) (m : Mol) (i : Nat) (q : ResReq) (blk : Block) (R : Residue)
    (S : Setting ff m q blk) (h : refNode ff m i q = .ok (some R)) (hc : connectedB blk = true) :
    (repairResidue m R).lost = []
    ∧ (∀ r ∈ blk.keys, ∃ k, (r, k) ∈ (repairResidue m R).mtch ∧ k ∈ (repairResidue m R).mol.keys)
    ∧ (∀ e ∈ blk.edges, ∀ k1 k2, (e.1, k1) ∈ (repairResidue m R).mtch → (e.2, k2) ∈ (repairResidue m R).mtch →
        ((e.1, k1) ∉ R.mtch ∨ (e.2, k2) ∉ R.mtch) → hasEdge (repairResidue m R).mol.edges k1 k2 = true) := by
  obtain ⟨h1, _, _, hne, _, hwf⟩ := reference_node ff m i q blk R S h
  have := C04.rebuild_complete m R hwf (h1 ▸ hc) hne
  rw [h1] at this; exact this

/-- **Flagged ⟺ beyond a largest possible match**: for a reference without `PTM_atom` marks of its
own and an input without flags, an atom of the residue is flagged iff it is outside the range of the
match, a matched atom is present and not flagged, and the match has the size of a maximum common
induced subgraph of residue and reference (`mcisSize`, the enumerating reference of C06). -/
theorem ptm_only_beyond_max (ff : FF) (m : Mol) (i : Nat) (q : ResReq) (blk : Block) (R : Residue)
    (S : Setting ff m q blk) (h : refNode ff m i q = .ok (some R))
    (hbp : ∀ r ∈ blk.nodes, r.ptm = none) (hmp : ∀ a ∈ m.nodes, a.ptm ≠ some true) :
    (∀ k ∈ q.found, k ∉ ran R.mtch → ∀ b ∈ (repairResidue m R).mol.nodes, b.key = k → b.ptm = some true)
    ∧ (∀ k ∈ q.found, k ∈ ran R.mtch → ∃ b ∈ (repairResidue m R).mol.nodes, b.key = k ∧ b.ptm ≠ some true)
    ∧ R.mtch.length = mcisSize (resGraph m q.found) (blockGraph blk) := by
  obtain ⟨h1, h2, _, _, hM, hwf⟩ := reference_node ff m i q blk R S h
  have hB : R.block.keys.Nodup := h1 ▸ S.blkKeys
  have hf : ∀ k ∈ R.found, k ∈ m.keys := h2 ▸ S.foundIn
  have hinv := inv_final m R hwf
  have hlen := (spec_facts m R hB hM).2.2.2.2
  rw [h1, h2] at hlen
  refine ⟨?_, ?_, hlen⟩
  · intro k hk hnr b hb hbk
    rw [repairResidue_mol] at hb
    obtain ⟨a, _, e⟩ := mem_flagExtra hb
    have hex : k ∈ extraAtoms R.found (repairResidue m R).mtch := (extra_final_iff m R hwf k).2 ⟨h2 ▸ hk, hnr⟩
    rw [repairResidue_mtch] at hex
    have hak : a.key = k := by rw [← hbk, e, flagAtom_key]
    rw [e]; unfold flagAtom
    rw [if_pos (by rw [hak]; simpa using hex)]
  · intro k hk hr
    have hk' : k ∈ R.found := h2 ▸ hk
    obtain ⟨p, hp, hpk⟩ := List.mem_map.1 hr
    obtain ⟨ref, _, hkey, hmem⟩ := find_of_mem_keys (hwf.2.2.2.2.1 p.1 (mem_dom_of_mem hp))
    obtain ⟨a0, ha0, hka0⟩ := List.mem_map.1 (hf k hk')
    have hl0 : R.mtch.lookup ref.key = some a0.key := by
      rw [hkey, hka0, ← hpk]; exact Iso.lookup_of_mem hwf.2.2.1 hp
    have hnamed := canonFn_named R.mtch R.block.nodes a0 ref hmem hB hl0 (by
      intro r' _ hl'
      exact fst_eq_of_snd_nodup hwf.2.2.2.1 (mem_of_lookup hl') (mem_of_lookup hl0))
    obtain ⟨new, hnew⟩ := hinv.next
    have hin : canonFn R.mtch R.block.nodes a0 ∈ (rebuilt m R).2.nodes := by
      rw [hnew]; apply List.mem_append_left
      rw [canonicalise_eq_map]; exact List.mem_map.2 ⟨a0, ha0, rfl⟩
    refine ⟨canonFn R.mtch R.block.nodes a0, ?_, by rw [canonFn_key]; exact hka0, ?_⟩
    · rw [repairResidue_mol]
      apply flagExtra_keep _ hin
      rw [canonFn_key, hka0, ← repairResidue_mtch]
      intro hc
      exact ((extra_final_iff m R hwf k).1 hc).2 hr
    · rw [hnamed.2.2, hbp ref (h1 ▸ hmem)]
      exact hmp a0 ha0

/-- **Scramble invariance for the composed model**: if the residue is the reference block under ANY
renaming of its atoms, ANY atom order and ANY key numbering (an element- and bond-preserving
bijection `f` from the block onto the residue), then — whichever maximum match the matcher returns
first, whatever the name-biased relabelling did — the match is total in both directions (its domain is the block's atoms, each once, in whatever order
the matcher lists them; its range covers the residue), nothing is
added, lost, logged or flagged, the atoms and bonds of the molecule are the input ones, and every
atom carries the canonical name and element of the block atom it plays. -/
theorem scramble_invariant (ff : FF) (m : Mol) (i : Nat) (q : ResReq) (blk : Block) (R : Residue)
    (S : Setting ff m q blk) (h : refNode ff m i q = .ok (some R))
    (f : Int → Int) (hf : IsIndIso (resGraph m q.found) (blockGraph blk) f)
    (hlen : blk.keys.length = (resGraph m q.found).keys.length) :
    (dom R.mtch).Perm blk.keys
    ∧ (∀ k ∈ q.found, k ∈ ran R.mtch)
    ∧ (repairResidue m R).lost = []
    ∧ (repairResidue m R).log = []
    ∧ (repairResidue m R).mtch = R.mtch
    ∧ extraAtoms q.found (repairResidue m R).mtch = []
    ∧ (repairResidue m R).mol = { nodes := canonicalise blk R.mtch m.nodes, edges := m.edges }
    ∧ (repairResidue m R).mol.keys = m.keys
    ∧ (∀ p ∈ R.mtch, ∃ a ∈ (repairResidue m R).mol.nodes,
        a.key = p.2 ∧ a.name = nameOf blk p.1 ∧ a.elem = elemOf blk p.1) := by
  obtain ⟨h1, h2, _, _, hM, hwf⟩ := reference_node ff m i q blk R S h
  have hB : R.block.keys.Nodup := h1 ▸ S.blkKeys
  have hfound : ∀ k ∈ R.found, k ∈ m.keys := h2 ▸ S.foundIn
  obtain ⟨hdn, hds, hrn, hrs, _⟩ := spec_facts m R hB hM
  rw [← h1, ← h2] at hf hlen
  have hf' : IsIndIsoOn (resGraph m R.found) (blockGraph R.block)
      (colourPred (resGraph m R.found) (blockGraph R.block)) R.block.keys f := by
    have := hf; unfold IsIndIso IsIndIsoP at this; rwa [blockGraph_keys] at this
  -- the block itself is a competitor: the match is at least as large, hence total
  have hle : R.block.keys.length ≤ R.mtch.length :=
    hM.max R.block.keys f hB (fun r hr => by rw [blockGraph_keys]; exact hr) hf'
  have hdl : (dom R.mtch).length = R.mtch.length := by simp [dom]
  have hdomP : ∀ r ∈ R.block.keys, r ∈ dom R.mtch :=
    fun r hr => Iso.subset_of_nodup_of_length_le hdn hds (by rw [hdl]; exact hle) hr
  have hlen2 : (resGraph m R.found).keys.length ≤ (ran R.mtch).length := by
    rw [← hlen]; simpa [ran] using hle
  have hsub : ran R.mtch ⊆ (resGraph m R.found).keys := fun k hk => (mem_resGraph_keys _ _ _).2 (hrs k hk)
  have hcov : ∀ k ∈ (resGraph m R.found).keys, k ∈ ran R.mtch :=
    fun k hk => Iso.subset_of_nodup_of_length_le hrn hsub hlen2 hk
  have hmiss : missing0 R.block R.mtch = [] := missing0_nil_of_total hdomP
  have hma : missingAtoms R.block R.mtch = [] := by
    have := hmiss; unfold missing0 at this; exact List.map_eq_nil_iff.1 this
  have hreb : rebuilt m R = ([], startState m R) := by
    unfold rebuilt; rw [hmiss]; rfl
  have hcovf : ∀ k ∈ R.found, k ∈ ran R.mtch :=
    fun k hk => hcov k ((mem_resGraph_keys _ _ _).2 ⟨hk, hfound k hk⟩)
  have hex : extraAtoms R.found R.mtch = [] := by
    apply List.eq_nil_iff_forall_not_mem.2
    intro k hk
    have := List.mem_filter.1 hk
    simp only [Bool.not_eq_true', List.contains_eq_mem, decide_eq_false_iff_not] at this
    exact this.2 (hcovf k this.1)
  have hmol : (repairResidue m R).mol = { nodes := canonicalise R.block R.mtch m.nodes, edges := m.edges } := by
    rw [repairResidue_mol, hreb]
    show flagExtra (extraAtoms R.found R.mtch) _ _ = _
    rw [hex, flagExtra_nil]; rfl
  have hmt : (repairResidue m R).mtch = R.mtch := by rw [repairResidue_mtch, hreb]; rfl
  have hdomEq : (dom R.mtch).Perm R.block.keys :=
    (List.perm_ext_iff_of_nodup hdn hB).2 (fun a => ⟨hds a, hdomP a⟩)
  refine ⟨?_, h2 ▸ hcovf, ?_, ?_, hmt, by rw [hmt, ← h2]; exact hex, h1 ▸ hmol, ?_, ?_⟩
  · exact h1 ▸ hdomEq
  · rw [repairResidue_lost, hreb]
  · rw [repairResidue_log, hreb]; simp [startState, hma]
  · rw [hmol]; exact canonicalise_keys _ _ _
  · intro p hp
    have := canonical_names m R hwf p (by rw [hmt]; exact hp)
    rw [h1] at this; exact this

/-! ## residues without a reference block, without any match -/

/-- **No block, no result**: a residue whose (mutated) name is not a block of the force field makes
`make_reference` raise (`KeyError`), whatever else the molecule contains; `RepairGraph.run_molecule`
works on a copy, so the input molecule is what it was (`run_system` then drops or re-raises). -/
theorem unknown_block_is_refused (ff : FF) (m : Mol) (i : Nat) (q : ResReq) (name : String)
    (ht : targetOf q.resname q.mutation = .ok name) (hb : ff.blocks.lookup name = none) :
    refNode ff m i q = .error (.ref i (.unknownBlock name)) := by
  unfold refNode getRef; simp [ht, hb]

/-- an exception in one residue ends `make_reference` for the whole molecule -/
theorem refNodes_error (ff : FF) (m : Mol) (pre : List ResReq) (q : ResReq) (post : List ResReq) (e : PErr) :
    ∀ i, (∀ j q', pre[j]? = some q' → ∃ r, refNode ff m (i + j) q' = .ok r) →
      refNode ff m (i + pre.length) q = .error e →
      refNodes ff m i (pre ++ q :: post) = .error e := by
  induction pre with
  | nil =>
    intro i _ he
    simp only [List.nil_append, refNodes]
    simp only [List.length_nil, Nat.add_zero] at he
    rw [he]
  | cons p pre ih =>
    intro i hpre he
    obtain ⟨r, hr⟩ := hpre 0 p rfl
    simp only [Nat.add_zero] at hr
    simp only [List.cons_append, refNodes, hr]
    have := ih (i + 1) (fun j q' hj => by
      obtain ⟨r', hr'⟩ := hpre (j + 1) q' (by simpa using hj)
      exact ⟨r', by rw [show i + 1 + j = i + (j + 1) by omega]; exact hr'⟩)
      (by rw [show i + 1 + pre.length = i + (p :: pre).length by simp; omega]; exact he)
    rw [this]

theorem pipeline_error (ff : FF) (m : Mol) (pre : List ResReq) (q : ResReq) (post : List ResReq) (e : PErr)
    (redges : List (Nat × Nat))
    (hpre : ∀ j q', pre[j]? = some q' → ∃ r, refNode ff m j q' = .ok r)
    (he : refNode ff m pre.length q = .error e) :
    pipeline ff m (pre ++ q :: post) redges = .error e := by
  unfold pipeline
  rw [refNodes_error ff m pre q post e 0 (fun j q' hj => by simpa using hpre j q' hj) (by simpa using he)]

/-- **No match, no change** (behaviour after fix 4abf057): a molecule whose only residue gets no
answer from the matcher comes back exactly as it went in — no atom renamed, added, flagged or
removed, no bond touched, nothing logged by the repair — and the reference graph is empty. -/
theorem no_reference_no_change (ff : FF) (m : Mol) (q : ResReq) (blk : Block) (out : RefOut) (redges : List (Nat × Nat))
    (hg : getRef ff q.resname q.mutation q.modification = .ok blk)
    (hmk : makeRef ((resAtoms m q.found).map toRAtom) (blk.nodes.map toRAtom) (resEdges m q.found) blk.edges q.answers = .ok out)
    (ha : q.answers = []) :
    pipeline ff m [q] redges = .ok { mol := m, kept := [], refEdges := [], mtchs := [], log := [] } := by
  unfold pipeline
  simp only [refNodes, refNode_skip hg hmk ha]
  simp [repairGraph]

/-! ### a skipped residue inside a larger molecule -/

theorem pairwise_get? {α} {R : α → α → Prop} {l : List α} (h : l.Pairwise R) {i j : Nat} {a b : α}
    (hi : l[i]? = some a) (hj : l[j]? = some b) (hlt : i < j) : R a b := by
  obtain ⟨hi', ei⟩ := List.getElem?_eq_some_iff.1 hi
  obtain ⟨hj', ej⟩ := List.getElem?_eq_some_iff.1 hj
  have := List.pairwise_iff_getElem.1 h i j hi' hj' hlt
  rw [ei, ej] at this; exact this

/-- the nodes of the reference graph are listed by increasing residue index -/
theorem refNodes_sorted (ff : FF) (m : Mol) : ∀ (qs : List ResReq) (i : Nat) (rs : List (Nat × Residue)),
    refNodes ff m i qs = .ok rs → rs.Pairwise (fun x y => x.1 < y.1) ∧ ∀ x ∈ rs, i ≤ x.1 := by
  intro qs
  induction qs with
  | nil => intro i rs h; simp only [refNodes, Except.ok.injEq] at h; subst h; exact ⟨List.Pairwise.nil, fun x hx => by cases hx⟩
  | cons q qs ih =>
    intro i rs h
    unfold refNodes at h
    cases hq : refNode ff m i q with
    | error e => simp [hq] at h
    | ok r =>
      simp only [hq] at h
      cases hr : refNodes ff m (i + 1) qs with
      | error e => simp [hr] at h
      | ok rs' =>
        simp only [hr, Except.ok.injEq] at h
        obtain ⟨p1, p2⟩ := ih (i + 1) rs' hr
        cases r with
        | none => subst h; exact ⟨p1, fun x hx => by have := p2 x hx; omega⟩
        | some R0 =>
          subst h
          refine ⟨List.pairwise_cons.2 ⟨fun x hx => by have := p2 x hx; simp only; omega, p1⟩, ?_⟩
          intro x hx
          rcases List.mem_cons.1 hx with e | hx'
          · rw [e]; exact Nat.le_refl _
          · have := p2 x hx'; omega

theorem mem_refNodes (ff : FF) (m : Mol) : ∀ (qs : List ResReq) (i : Nat) (rs : List (Nat × Residue)),
    refNodes ff m i qs = .ok rs → ∀ j R, (j, R) ∈ rs → ∃ q, i ≤ j ∧ qs[j - i]? = some q ∧ refNode ff m j q = .ok (some R) := by
  intro qs
  induction qs with
  | nil => intro i rs h j R hm; simp only [refNodes, Except.ok.injEq] at h; subst h; cases hm
  | cons q qs ih =>
    intro i rs h j R hm
    unfold refNodes at h
    cases hq : refNode ff m i q with
    | error e => simp [hq] at h
    | ok r =>
      simp only [hq] at h
      cases hr : refNodes ff m (i + 1) qs with
      | error e => simp [hr] at h
      | ok rs' =>
        simp only [hr, Except.ok.injEq] at h
        have tailCase : (j, R) ∈ rs' → ∃ q', i ≤ j ∧ (q :: qs)[j - i]? = some q' ∧ refNode ff m j q' = .ok (some R) := by
          intro hm'
          obtain ⟨q', hle, hget, hrn⟩ := ih (i + 1) rs' hr j R hm'
          refine ⟨q', by omega, ?_, hrn⟩
          have : j - i = (j - (i + 1)) + 1 := by omega
          rw [this]; simpa using hget
        cases r with
        | none => subst h; exact tailCase hm
        | some R0 =>
          subst h
          rcases List.mem_cons.1 hm with e | hm'
          · cases e
            exact ⟨q, Nat.le_refl _, by simp, hq⟩
          · exact tailCase hm'

/-- repairing one residue keeps another, disjoint one well-formed -/
theorem wf_frame (m : Mol) (R R' : Residue) (h : WF m R) (h' : WF m R') (hd : ∀ k ∈ R'.found, k ∉ R.found) :
    WF (repairResidue m R).mol R' := by
  obtain ⟨b1, _, b3, b4, b5, b6, b7⟩ := h'
  refine ⟨b1, out_keys_nodup m R h, b3, b4, b5, b6, ?_⟩
  intro k hk
  obtain ⟨a, ha, hka⟩ := List.mem_map.1 (b7 k hk)
  have := (repair_frame m R h).1 a ha (by rw [hka]; exact hd k hk)
  exact List.mem_map.2 ⟨a, this, hka⟩

def repairStep (acc : Mol × List Map × List Event) (R : Residue) : Mol × List Map × List Event :=
  let o := repairResidue acc.1 R
  (o.mol, acc.2.1 ++ [o.mtch], acc.2.2 ++ o.log)

theorem repairGraph_eq (m : Mol) (rs : List Residue) : repairGraph m rs = rs.foldl repairStep (m, [], []) := rfl

/-- atoms and bonds outside every repaired residue survive a whole `repair_graph` -/
theorem foldl_frame : ∀ (rs : List Residue) (acc : Mol × List Map × List Event),
    (∀ R ∈ rs, WF acc.1 R) → rs.Pairwise (fun R R' => ∀ k ∈ R'.found, k ∉ R.found) →
    (∀ a ∈ acc.1.nodes, (∀ R ∈ rs, a.key ∉ R.found) → a ∈ (rs.foldl repairStep acc).1.nodes)
    ∧ (∀ u ∈ acc.1.keys, ∀ v ∈ acc.1.keys, (∀ R ∈ rs, u ∉ R.found) → (∀ R ∈ rs, v ∉ R.found) →
        hasEdge (rs.foldl repairStep acc).1.edges u v = hasEdge acc.1.edges u v) := by
  intro rs
  induction rs with
  | nil => intro acc _ _; exact ⟨fun a ha _ => ha, fun _ _ _ _ _ _ => rfl⟩
  | cons R rs ih =>
    intro acc hwf hpw
    have hR := hwf R (by simp)
    obtain ⟨hhead, htail⟩ := List.pairwise_cons.1 hpw
    have hwf' : ∀ R' ∈ rs, WF (repairStep acc R).1 R' := by
      intro R' hR'
      exact wf_frame acc.1 R R' hR (hwf R' (List.mem_cons_of_mem _ hR')) (hhead R' hR')
    obtain ⟨i1, i2⟩ := ih (repairStep acc R) hwf' htail
    obtain ⟨f1, f2⟩ := repair_frame acc.1 R hR
    simp only [List.foldl_cons]
    constructor
    · intro a ha hnot
      exact i1 a (f1 a ha (hnot R (by simp))) (fun R' hR' => hnot R' (List.mem_cons_of_mem _ hR'))
    · intro u hu v hv hnu hnv
      have hu' : u ∈ (repairStep acc R).1.keys := by
        obtain ⟨a, ha, hka⟩ := List.mem_map.1 hu
        exact List.mem_map.2 ⟨a, f1 a ha (by rw [hka]; exact hnu R (by simp)), hka⟩
      have hv' : v ∈ (repairStep acc R).1.keys := by
        obtain ⟨a, ha, hka⟩ := List.mem_map.1 hv
        exact List.mem_map.2 ⟨a, f1 a ha (by rw [hka]; exact hnv R (by simp)), hka⟩
      rw [i2 u hu' v hv' (fun R' hR' => hnu R' (List.mem_cons_of_mem _ hR')) (fun R' hR' => hnv R' (List.mem_cons_of_mem _ hR'))]
      exact f2 u hu v hv (hnu R (by simp)) (hnv R (by simp))

/-- **A residue without any match stays untouched inside a repaired molecule**: it is not a node of
the reference graph, no edge of the reference graph mentions it (the crash fixed by 4abf057 came
from such an edge), every one of its atoms is in the result exactly as it was — same name, same
attributes, no `PTM_atom` flag —, and the bonds among its atoms are unchanged.
Hypotheses: the residues' atom sets are pairwise disjoint (`make_residue_graph` partitions the
molecule), and every residue request satisfies `Setting` (so that the repaired ones are well-formed). -/
theorem skipped_residue_untouched (ff : FF) (m : Mol) (qs : List ResReq) (redges : List (Nat × Nat)) (o : PipeOut)
    (hS : ∀ q ∈ qs, ∃ blk, Setting ff m q blk)
    (hdis : qs.Pairwise (fun q q' => ∀ k ∈ q'.found, k ∉ q.found))
    (h : pipeline ff m qs redges = .ok o)
    (j : Nat) (q : ResReq) (hj : qs[j]? = some q) (ha : q.answers = []) :
    j ∉ o.kept
    ∧ (∀ e ∈ o.refEdges, e.1 ≠ j ∧ e.2 ≠ j)
    ∧ (∀ a ∈ m.nodes, a.key ∈ q.found → a ∈ o.mol.nodes)
    ∧ (∀ u ∈ q.found, ∀ v ∈ q.found, hasEdge o.mol.edges u v = hasEdge m.edges u v) := by
  unfold pipeline at h
  cases hr : refNodes ff m 0 qs with
  | error e => simp [hr] at h
  | ok rs =>
    simp only [hr] at h
    have ho : o = { mol := (repairGraph m (rs.map Prod.snd)).1, kept := rs.map Prod.fst,
                    refEdges := redges.filter fun e => (rs.map Prod.fst).contains e.1 && (rs.map Prod.fst).contains e.2,
                    mtchs := (repairGraph m (rs.map Prod.snd)).2.1, log := (repairGraph m (rs.map Prod.snd)).2.2 } := by
      simp only [Except.ok.injEq] at h; rw [← h]
    have hmem := mem_refNodes ff m qs 0 rs hr
    -- the skipped residue is not kept
    have hnot : j ∉ rs.map Prod.fst := by
      intro hc
      obtain ⟨⟨j', R⟩, hm, e⟩ := List.mem_map.1 hc
      simp only at e; subst e
      obtain ⟨q', _, hget, hrn⟩ := hmem j' R hm
      simp only [Nat.sub_zero] at hget
      rw [hj] at hget; cases hget
      obtain ⟨blk, S⟩ := hS q (List.mem_of_getElem? hj)
      have hne := (reference_node ff m j' q blk R S hrn).2.2.2.1
      -- a kept residue has a non-empty match, but with no answer the residue is skipped
      unfold refNode at hrn
      simp only [S.ref] at hrn
      cases hmk : makeRef ((resAtoms m q.found).map toRAtom) (blk.nodes.map toRAtom) (resEdges m q.found) blk.edges q.answers with
      | error e => simp [hmk] at hrn
      | ok out =>
        have := (chosen_match_is_answer hmk).1.2 ha
        simp [hmk, this] at hrn
    -- every kept residue is well-formed, and disjoint from the skipped one
    have hkept : ∀ R ∈ rs.map Prod.snd, WF m R ∧ ∃ j' q', qs[j']? = some q' ∧ R.found = q'.found ∧ j' ≠ j ∧ (j', R) ∈ rs := by
      intro R hR
      obtain ⟨⟨j', R'⟩, hm, e⟩ := List.mem_map.1 hR
      simp only at e; subst e
      obtain ⟨q', _, hget, hrn⟩ := hmem j' R' hm
      simp only [Nat.sub_zero] at hget
      obtain ⟨blk, S⟩ := hS q' (List.mem_of_getElem? hget)
      obtain ⟨_, hf, _, _, _, hwf⟩ := reference_node ff m j' q' blk R' S hrn
      refine ⟨hwf, j', q', hget, hf, ?_, hm⟩
      intro e; subst e
      exact hnot (List.mem_map.2 ⟨(j', R'), hm, rfl⟩)
    have hdisj : ∀ R ∈ rs.map Prod.snd, ∀ k ∈ q.found, k ∉ R.found := by
      intro R hR k hk
      obtain ⟨_, j', q', hget, hf, hne, _⟩ := hkept R hR
      rw [hf]
      rcases Nat.lt_or_gt_of_ne hne with hlt | hlt
      · exact pairwise_get? hdis hget hj hlt k hk
      · intro hc
        exact pairwise_get? hdis hj hget hlt k hc hk
    -- pairwise disjointness of the kept residues
    have hpw : (rs.map Prod.snd).Pairwise (fun R R' => ∀ k ∈ R'.found, k ∉ R.found) := by
      have hsorted := (refNodes_sorted ff m qs 0 rs hr).1
      rw [List.pairwise_map]
      refine List.Pairwise.imp_of_mem ?_ hsorted
      intro x y hx hy hlt
      obtain ⟨q1, _, hg1, hr1⟩ := hmem x.1 x.2 hx
      obtain ⟨q2, _, hg2, hr2⟩ := hmem y.1 y.2 hy
      simp only [Nat.sub_zero] at hg1 hg2
      obtain ⟨blk1, S1⟩ := hS q1 (List.mem_of_getElem? hg1)
      obtain ⟨blk2, S2⟩ := hS q2 (List.mem_of_getElem? hg2)
      have f1 := (reference_node ff m x.1 q1 blk1 x.2 S1 hr1).2.1
      have f2 := (reference_node ff m y.1 q2 blk2 y.2 S2 hr2).2.1
      rw [f1, f2]
      exact pairwise_get? hdis hg1 hg2 hlt
    obtain ⟨fr1, fr2⟩ := foldl_frame (rs.map Prod.snd) (m, [], []) (fun R hR => (hkept R hR).1) hpw
    obtain ⟨blkq, Sq⟩ := hS q (List.mem_of_getElem? hj)
    rw [ho]
    refine ⟨hnot, ?_, ?_, ?_⟩
    · intro e he
      have := (List.mem_filter.1 he).2
      simp only [Bool.and_eq_true, List.contains_eq_mem, decide_eq_true_eq] at this
      exact ⟨fun e1 => hnot (e1 ▸ this.1), fun e2 => hnot (e2 ▸ this.2)⟩
    · intro a ham hk
      exact fr1 a ham (fun R hR => hdisj R hR a.key hk)
    · intro u hu v hv
      exact fr2 u (Sq.foundIn u hu) v (Sq.foundIn v hv) (fun R hR => hdisj R hR u hu) (fun R hR => hdisj R hR v hv)

/-! ## non-vacuity: a concrete residue through the whole composed model -/

/-- force field with the one block N–CA(–HA)–C=O of `VermouthProps/C04.lean` -/
def ffEx : FF := { blocks := [("GLY", blkEx)], mods := [] }

/-- the matcher's answer for the scrambled residue `molScr`, in the RELABELLED node numbers
(reference: C CA HA N O ↦ 0…4 by name; residue: X1…X5 ↦ 0…4), listed in the node order of the reference copy -/
def ansEx : Map := [(3, 2), (1, 1), (2, 3), (0, 4), (4, 0)]

def qEx : ResReq :=
  { found := [40, 12, 31, 5, 22], resname := "GLY", mutation := none, modification := none, common := [], answers := [ansEx] }

def outEx : RefOut :=
  match makeRef ((resAtoms molScr qEx.found).map toRAtom) (blkEx.nodes.map toRAtom) (resEdges molScr qEx.found) blkEx.edges qEx.answers with
  | .ok o => o
  | .error _ => default

example : outEx.resNew = [(40, 0), (12, 1), (31, 2), (5, 3), (22, 4)] ∧ outEx.refNew = [(3, 0), (1, 1), (2, 2), (0, 3), (4, 4)] := by decide
example : outEx.refCopy.nodes = [(3, 7), (1, 6), (2, 1), (0, 6), (4, 8)] := by decide
example : outEx.mtch = some [(0, 31), (1, 12), (2, 5), (3, 22), (4, 40)] := by decide

theorem settingEx : Setting ffEx molScr qEx blkEx where
  molKeys := by decide
  foundNd := by decide
  foundIn := by decide
  molElems := by decide
  ref := by decide
  blkKeys := by decide
  blkClosed := by decide
  blkElems := by decide
  matcher := by
    intro out h
    have hc : makeRef ((resAtoms molScr qEx.found).map toRAtom) (blkEx.nodes.map toRAtom) (resEdges molScr qEx.found)
        blkEx.edges qEx.answers = .ok outEx := by decide
    rw [hc] at h; cases h
    exact ⟨isMCIS_of_allMCIS (by decide) (by decide), by decide⟩

example : (match refNode ffEx molScr 0 qEx with
           | .ok (some R) => (R.mtch, R.found)
           | _ => ([], [])) = ([(0, 31), (1, 12), (2, 5), (3, 22), (4, 40)], qEx.found) := by decide
example : NamesDistinct blkEx ∧ connectedB blkEx = true ∧ (∀ r ∈ blkEx.nodes, r.ptm = none) ∧ (∀ a ∈ molScr.nodes, a.ptm ≠ some true) := by decide
-- the whole pipeline gives every atom its canonical name, adds, flags and logs nothing
example : (match pipeline ffEx molScr [qEx] [] with
           | .ok o => (o.mol.nodes.map fun a => (a.key, a.name, a.ptm), o.kept, o.log.length)
           | .error _ => ([], [], 99))
    = ([(40, "O", none), (12, "CA", none), (31, "N", none), (5, "HA", none), (22, "C", none)], [0], 0) := by decide
-- a residue named like a block it shares nothing with gets no answer and is left alone
example : pipeline ffEx molScr [{ qEx with answers := [] }] [] = .ok { mol := molScr, kept := [], refEdges := [], mtchs := [], log := [] } :=
  no_reference_no_change ffEx molScr { qEx with answers := [] } blkEx { outEx with mtch := none } [] (by decide) (by decide) rfl
-- an unknown residue name
example : pipeline ffEx molScr [{ qEx with resname := "ZZZ" }] [] = .error (.ref 0 (.unknownBlock "ZZZ")) := by decide

end C04.Ref
