import VermouthModel.C02_Call
import VermouthProps.C02_Order
/-!
# C02 — the call: arguments, `meta`, legal falsy values

A value that is falsy in Python (`''`, `0`, `{}`) is still a value: the writer's tests are
`is None` / `key in dict`.  These theorems pin that down for the model of the call
(`VermouthModel/C02_Call.lean`, lines 103-117 and 151-154 of `vermouth/gmx/itp.py`); the
differential stream `call-*` of the harness checks the real code against it on exactly these inputs.
-/
namespace C02

theorem mapM_none_iff {α β} (f : α → Option β) (l : List α) :
    l.mapM f = none ↔ ∃ a ∈ l, f a = none := by
  induction l with
  | nil => simp
  | cons a t ih =>
    rw [List.mapM_cons]
    cases ha : f a with
    | none => simp [ha]
    | some b =>
      cases ht : t.mapM f with
      | none =>
        have := ih.mp ht
        obtain ⟨x, hx, hfx⟩ := this
        simp only [Option.bind_eq_bind, Option.bind_some, Option.bind_none, true_iff]
        exact ⟨x, by simp [hx], hfx⟩
      | some r =>
        simp only [Option.bind_eq_bind, Option.bind_some, Option.pure_def, reduceCtorEq, false_iff]
        rintro ⟨x, hx, hfx⟩
        simp only [List.mem_cons] at hx
        rcases hx with rfl | hx
        · rw [ha] at hfx; cases hfx
        · have := ih.mpr ⟨x, hx, hfx⟩
          rw [ht] at this; cases this

/-- **The early errors**: the call raises before writing exactly when no molecule type is given
(argument and meta both `None`), `nrexcl` is absent/`None`, or an atom lacks one of `atype`, `resid`,
`resname`, `atomname`, `charge_group` — and then it is a `ValueError`. -/
theorem resolve_error_iff (c : Call) :
    (∃ e, resolve c = .error e) ↔
      (c.moltypeArg = none ∧ c.moltypeMeta = none) ∨ c.nrexcl = none
        ∨ ∃ a ∈ c.atoms, resolveAtom a = none := by
  have hm := mapM_none_iff resolveAtom c.atoms
  unfold resolve
  cases h1 : c.moltypeArg <;> cases h2 : c.moltypeMeta <;> cases h3 : c.nrexcl <;>
    cases h4 : c.atoms.mapM resolveAtom <;> simp [orElseNone, h4] <;>
    first
      | exact hm.mp h4
      | (intro a ha hr; have := hm.mpr ⟨a, ha, hr⟩; rw [h4] at this; cases this)

theorem resolve_error_is_valueerror (c : Call) (e : Err) (h : resolve c = .error e) : e = .valueerror := by
  unfold resolve at h
  split at h
  · cases h; rfl
  · split at h
    · cases h; rfl
    · split at h
      · cases h; rfl
      · cases h

/-- **A falsy argument is an argument**: the `moltype` argument wins over the meta attribute whenever it
is not `None` — also when it is the empty string. -/
theorem moltype_argument_wins (c : Call) (a : String) (h : c.moltypeArg = some a) (m : Mol)
    (hr : resolve c = .ok m) : m.moltype = a := by
  unfold resolve at hr
  rw [h] at hr
  simp only [orElseNone] at hr
  split at hr
  · cases hr
  · split at hr
    · cases hr
    · cases hr; rfl

/-- without the argument the meta attribute is used -/
theorem moltype_from_meta (c : Call) (a : String) (h : c.moltypeArg = none) (h2 : c.moltypeMeta = some a)
    (m : Mol) (hr : resolve c = .ok m) : m.moltype = a := by
  unfold resolve at hr
  rw [h, h2] at hr
  simp only [orElseNone] at hr
  split at hr
  · cases hr
  · split at hr
    · cases hr
    · cases hr; rfl

/-- **An empty `post_section_lines` / `pre_section_lines` argument hides the meta lines**: only `None`
falls back to `molecule.meta`. -/
theorem section_lines_argument_wins (c : Call) (m : Mol) (hr : resolve c = .ok m) :
    (∀ l, c.postArg = some l → m.post = l) ∧ (∀ l, c.preArg = some l → m.pre = l)
    ∧ (c.postArg = none → m.post = c.postMeta.getD []) ∧ (c.preArg = none → m.pre = c.preMeta.getD []) := by
  unfold resolve at hr
  split at hr
  · cases hr
  · split at hr
    · cases hr
    · split at hr
      · cases hr
      · cases hr
        refine ⟨?_, ?_, ?_, ?_⟩
        · intro l hl; simp [orElseNone, hl]
        · intro l hl; simp [orElseNone, hl]
        · intro hl; simp [orElseNone, hl]
        · intro hl; simp [orElseNone, hl]

/-- the atoms of the resolved molecule are the atoms of the call, field by field (a falsy field such
as `resid = "0"` or `charge = "0"` is a field) -/
theorem resolve_atoms (c : Call) (m : Mol) (hr : resolve c = .ok m) :
    c.atoms.mapM resolveAtom = some m.atoms ∧ m.nrexcl ∈ c.nrexcl ∧ m.inters = c.inters
      ∧ m.header = c.header ∧ m.defines = c.defines := by
  unfold resolve at hr
  split at hr
  · cases hr
  · split at hr
    · cases hr
    · next nr hnr =>
      split at hr
      · cases hr
      · next atoms hat => cases hr; exact ⟨hat, by simp [hnr], rfl, rfl, rfl⟩

/-- **The round trip of a call**: when the call resolves to a well-formed molecule, the text it
writes — with the left-over sections in any order — reads back as `canon` of that molecule. -/
theorem call_roundtrip (c : Call) (m : Mol) (hr : resolve c = .ok m) (h : wellFormed arityTable m = true)
    (hc : charOk m = true) (names : List String) (hp : names.Perm (remainingNames m)) :
    ∃ ls, writeCall c (some names) = .ok ls ∧ parse arityTable (render ls) = .ok (canon m) := by
  obtain ⟨ls, h1, h2⟩ := leftover_order_irrelevant_repo m h hc names hp
  exact ⟨ls, by simp [writeCall, hr, h1], h2⟩

/-! ## non-vacuity -/

def exCall : Call :=
  { moltypeArg := some "", moltypeMeta := some "META", nrexcl := some "0", header := [""],
    defines := [], atoms := [⟨0, some 0, some "P1", some "0", some "ALA", some "BB", some "0", "0", "0.0"⟩],
    inters := [("bonds", [⟨[0, 0], ["0", "0.0"], none, none, some "", some ""⟩])],
    preArg := some [], postArg := none, preMeta := some [("atoms", ["; hidden"])],
    postMeta := some [("atoms", ["; shown"])] }

example : ∃ m, resolve exCall = .ok m ∧ m.moltype = "" ∧ m.pre = [] ∧ m.post = [("atoms", ["; shown"])]
    ∧ wellFormed arityTable m = true := ⟨_, rfl, rfl, rfl, rfl, by decide⟩
example : resolve { exCall with moltypeArg := none, moltypeMeta := none } = .error .valueerror := rfl
example : resolve { exCall with nrexcl := none } = .error .valueerror := rfl
example : resolve { exCall with atoms := [⟨0, none, some "P1", none, some "ALA", some "BB", some "1", "", ""⟩] }
    = .error .valueerror := rfl

end C02
