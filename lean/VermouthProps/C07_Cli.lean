import VermouthProps.C07
import VermouthProofs.C07_Cli
import Generated.C07Names
/-!
# C07 — the set of files a run of martinize2 creates

Property theorems about `VermouthModel/C07_Cli.lean` (`outputs`, `debugDumps`, `dsspArtefacts`, `cliOutRun`):

* `gate_no_new_files`      : leftover ≠ 0 — exit 2 and the files that exist afterwards are exactly those that existed
  before plus the requested `-write-*` dumps (plus the DSSP input dump of F-C07-2 with `-dssp -v`);
* `gate_creates_exactly_outputs` : leftover = 0 — exit 0 and a name exists afterwards iff it existed before the
  gate, or is one of `outputs`, or is the first free backup name of an output that existed; every output holds
  what was written for it, its old version is at the first free backup name, no temporary is left;
* `new_files_exact`        : both cases as a statement on the names that did not exist before the run.
-/
namespace C07

/-- the names given on the command line / handed out by mkstemp are no temporaries of the writer -/
def Options.userPaths (o : Options) (f : Facts) : Prop :=
  (∀ p ∈ o.outpath.toList ++ o.topPath.toList ++ o.writeGraph.toList ++ o.writeRepair.toList ++ o.writeCanon.toList
      ++ f.dsspTmp, p.isTmp = false)
  ∧ (∀ p, o.goWrite = .named p → p.isTmp = false)

theorem directFiles_user {o : Options} {f : Facts} (h : o.userPaths f) : ∀ p ∈ directFiles o f, p.isTmp = false := by
  intro p hp
  apply h.1
  simp only [directFiles, debugDumps, dsspArtefacts, List.mem_append] at hp ⊢
  rcases hp with (((hp | hp) | hp) | hp)
  · exact Or.inl (Or.inl (Or.inl (Or.inr hp)))
  · exact Or.inl (Or.inl (Or.inr hp))
  · exact Or.inl (Or.inr hp)
  · split at hp
    · exact Or.inr hp
    · cases hp

theorem outputs_user (N : Names) {o : Options} {f : Facts} (h : o.userPaths f) :
    ∀ p ∈ outputs N o f, p.isTmp = false := by
  intro p hp
  simp only [outputs, List.mem_append, List.mem_singleton] at hp
  rcases hp with ((hp | hp) | hp) | hp
  · simp only [dsspSaves] at hp
    split at hp
    · simp only [List.mem_map] at hp
      obtain ⟨_, _, rfl⟩ := hp; rfl
    · cases hp
  · simp only [contactMapFile] at hp
    split at hp
    · split at hp
      · cases hp
      · simp only [List.mem_singleton] at hp; subst hp; rfl
      · rename_i q hq
        simp only [List.mem_singleton] at hp; subst hp
        exact h.2 _ hq
    · cases hp
  · simp only [topologyFiles] at hp
    split at hp
    · cases hp
    · rename_i top htop
      simp only [List.mem_append, List.mem_map, List.mem_singleton] at hp
      rcases hp with (hp | hp) | hp
      · split at hp
        · simp only [List.mem_append] at hp
          rcases hp with hp | hp <;> (split at hp <;> first | (simp only [List.mem_singleton] at hp; subst hp; rfl) | cases hp)
        · cases hp
      · obtain ⟨_, _, rfl⟩ := hp; rfl
      · subst hp
        apply h.1
        simp [htop]
  · subst hp
    simp only [structureFile]
    cases hx : o.outpath with
    | none => rfl
    | some x => apply h.1; simp [hx]

/-! ## leftover ≠ 0 -/

/-- **No new output file.**  With warnings left after `-maxwarn` the run exits with status 2 and every name that is
not a temporary of the writer is afterwards exactly what the direct writes made of it: the requested `-write-*`
dumps (and the DSSP input dump of F-C07-2) hold what was dumped, every other name is as before the run (absent
names stay absent, existing files keep their contents). -/
theorem gate_no_new_files (N : Names) (fs : FS) (o : Options) (f : Facts) (cont : List (Path × Bytes))
    (counter : List C08.Entry) (specs : List (List C08.Spec)) (level : Nat)
    (h : C08.leftover counter specs level ≠ 0) :
    (cliOutRun N fs o f cont counter specs level).2 = 2
    ∧ ∀ q, q.isTmp = false →
        get (cliOutRun N fs o f cont counter specs level).1.fs q
          = if q ∈ debugDumps o ++ dsspArtefacts o f then some (contentOf cont q) else get fs q := by
  obtain ⟨h1, h2⟩ := gate_blocks (directWrites cont fs (directFiles o f)) (deferredOpens cont (outputs N o f))
    counter specs level h
  refine ⟨h1, fun q hq => ?_⟩
  simp only [cliOutRun]
  rw [h2 q hq, get_directWrites]
  rfl

/-- … so the set of files the blocked run created is exactly the set of requested dumps that were not there
(plus the F-C07-2 artefact). -/
theorem blocked_new_files (N : Names) (fs : FS) (o : Options) (f : Facts) (cont : List (Path × Bytes))
    (counter : List C08.Entry) (specs : List (List C08.Spec)) (level : Nat)
    (h : C08.leftover counter specs level ≠ 0) (q : Path) (hq : q.isTmp = false) (hnew : get fs q = none) :
    get (cliOutRun N fs o f cont counter specs level).1.fs q ≠ none ↔ (q ∈ debugDumps o ∨ q ∈ dsspArtefacts o f) := by
  rw [(gate_no_new_files N fs o f cont counter specs level h).2 q hq]
  by_cases hm : q ∈ debugDumps o ++ dsspArtefacts o f
  · simp only [hm, if_true]
    simpa using hm
  · simp only [hm, if_false, hnew]
    simpa using hm

/-- Without `-dssp`, or without `-v`, there is no artefact: the new files are exactly the requested dumps. -/
theorem blocked_new_files_exactly_dumps (N : Names) (fs : FS) (o : Options) (f : Facts) (cont : List (Path × Bytes))
    (counter : List C08.Entry) (specs : List (List C08.Spec)) (level : Nat)
    (h : C08.leftover counter specs level ≠ 0) (hv : o.dssp = .off ∨ o.verbosity = 0)
    (q : Path) (hq : q.isTmp = false) (hnew : get fs q = none) :
    get (cliOutRun N fs o f cont counter specs level).1.fs q ≠ none ↔ q ∈ debugDumps o := by
  rw [blocked_new_files N fs o f cont counter specs level h q hq hnew]
  have : dsspArtefacts o f = [] := by
    simp only [dsspArtefacts]
    rcases hv with hv | hv
    · simp [hv]
    · simp [hv]
  simp [this]

/-! ## leftover = 0 -/

/-- **Exactly `outputs`.**  With no warning left the run exits with status 0 and, writing `fs₁` for the directory
as the direct writes left it: (1) a name exists afterwards iff it existed in `fs₁`, or is one of `outputs`, or is
the first free backup name `#p.N#` of an output `p` that existed; (2) every output holds what was written for it;
(3) an output that existed is kept byte for byte at its first free backup name; (4) every name that is neither
an output nor a new backup name is untouched; (5) no temporary file is left.
Hypotheses: no temporary in the directory; the names on the command line are no temporaries; no output is a
backup name of an output. -/
theorem gate_creates_exactly_outputs (N : Names) (fs : FS) (o : Options) (f : Facts) (cont : List (Path × Bytes))
    (counter : List C08.Entry) (specs : List (List C08.Spec)) (level : Nat)
    (h : C08.leftover counter specs level = 0) (h0 : NoTmp fs) (hu : o.userPaths f)
    (hH : ∀ p ∈ outputs N o f, ∀ p' ∈ outputs N o f, ∀ n, p ≠ .bak p' n) :
    let fs1 := directWrites cont fs (directFiles o f)
    let after := (cliOutRun N fs o f cont counter specs level).1.fs
    (cliOutRun N fs o f cont counter specs level).2 = 0
    ∧ (∀ q, q.isTmp = false →
        (get after q ≠ none ↔
          get fs1 q ≠ none ∨ q ∈ outputs N o f
            ∨ ∃ p ∈ outputs N o f, get fs1 p ≠ none ∧ q = .bak p (firstFreeIdx fs1 p)))
    ∧ (∀ p ∈ outputs N o f, get after p = some (contentOf cont p))
    ∧ (∀ p ∈ outputs N o f, ∀ c, get fs1 p = some c → get after (.bak p (firstFreeIdx fs1 p)) = some c)
    ∧ (∀ q, q.isTmp = false → q ∉ outputs N o f →
        (get fs1 q ≠ none ∨ ∀ p ∈ outputs N o f, ∀ n, q ≠ .bak p n) → get after q = get fs1 q)
    ∧ (∀ k, get after (.tmp k) = none) := by
  intro fs1 after
  have hd := directFiles_user hu
  have hou := outputs_user N hu
  have h01 : NoTmp fs1 := noTmp_directWrites h0 hd
  have hops := deferredOpens_user (cont := cont) hou
  obtain ⟨hcode, hfs, _⟩ := gate_passes fs1 (deferredOpens cont (outputs N o f)) counter specs level h
  have hwf : WF (runOpens (init fs1) (deferredOpens cont (outputs N o f))) :=
    reachable_wf fs1 _ h01 (fun o' ho' => (hops o' ho').1)
  have hafter : after = finalizeAll (runOpens (init fs1) (deferredOpens cont (outputs N o f))).fs
      (runOpens (init fs1) (deferredOpens cont (outputs N o f))).pending := hfs
  -- abbreviations
  generalize hst : runOpens (init fs1) (deferredOpens cont (outputs N o f)) = st at hwf hafter
  have hdest : ∀ q, q ∈ st.pending.map Entry.dest ↔ q ∈ outputs N o f := by
    intro q
    rw [← hst, runOpens_w_dests]
    simp [init]
  have hwr : ∀ e ∈ st.pending, e.mode.writeish = true := by
    rw [← hst]
    exact runOpens_w_writeish cont _ _ (by simp [init])
  have hsame : ∀ q, q.isTmp = false → get st.fs q = get fs1 q := by
    intro q hq
    rw [← hst]
    exact deferred_untouched _ _ _ hq
  have hHp : ∀ e1 ∈ st.pending, ∀ e2 ∈ st.pending, ∀ n, e1.dest ≠ .bak e2.dest n := by
    intro e1 h1 e2 h2 n
    exact hH _ ((hdest _).1 (mem_map_dest h1)) _ ((hdest _).1 (mem_map_dest h2)) n
  have hidx : ∀ p, p.isTmp = false → firstFreeIdx st.fs p = firstFreeIdx fs1 p := by
    intro p _
    obtain ⟨a, b, c⟩ := firstFreeIdx_spec fs1 p
    apply firstFreeIdx_unique a
    · rw [hsame _ rfl]; exact b
    · intro m h1 h2; rw [hsame _ rfl]; exact c m h1 h2
  have hmd : ∀ q, q.isTmp = false →
      get after q = get (directRun fs1 (deferredOpens cont (outputs N o f))) q
        ∨ (get fs1 q = none ∧ ∃ e ∈ st.pending, ∃ n, q = .bak e.dest n) := by
    intro q hq
    by_cases hb : get fs1 q ≠ none ∨ ∀ e ∈ st.pending, ∀ n, q ≠ .bak e.dest n
    · left
      rw [hafter, ← hst]
      apply finalize_matches_direct fs1 _ h01 hops q hq
      rw [hst]; exact hb
    · right
      have hb1 : get fs1 q = none := by
        by_cases hh : get fs1 q = none
        · exact hh
        · exact absurd (Or.inl hh) hb
      refine ⟨hb1, ?_⟩
      apply Classical.byContradiction
      intro hcon
      apply hb
      right
      intro e he n hqe
      exact hcon ⟨e, he, n, hqe⟩
  -- the value at a fresh backup name
  have hbak : ∀ e ∈ st.pending, ∀ n, get fs1 (.bak e.dest n) = none →
      get after (.bak e.dest n) = if n = firstFreeIdx fs1 e.dest then get fs1 e.dest else none := by
    intro e he n hq
    have hu' := hwf.dest_user _ (mem_map_dest he)
    rw [hafter, finalizeAll_bak_fresh _ _ hwf.finOK hHp e he (hwr e he) n (by rw [hsame _ rfl]; exact hq),
      hidx _ hu', hsame _ hu']
  refine ⟨hcode, ?_, ?_, ?_, ?_, ?_⟩
  · intro q hq
    rcases hmd q hq with hv | ⟨hnone, e, he, n, hqe⟩
    · rw [hv, get_directRun_w]
      by_cases hm : q ∈ outputs N o f
      · simp [hm]
      · simp only [hm, if_false, false_or]
        constructor
        · intro hh; exact Or.inl hh
        · rintro (hh | ⟨p, hp, hpe, hqp⟩)
          · exact hh
          · -- q would be a fresh backup name, but then hmd gave the other case or q exists
            exfalso
            by_cases hex : get fs1 q = none
            · -- the frame theorem was applicable only if q is no backup of a destination: contradiction via values
              have hp' : p ∈ st.pending.map Entry.dest := (hdest p).2 hp
              obtain ⟨e, he, hde⟩ := List.mem_map.1 hp'
              have := hbak e he (firstFreeIdx fs1 p) (by rw [hde, ← hqp]; exact hex)
              rw [hde, ← hqp, if_pos rfl, hv, get_directRun_w, if_neg hm, hex] at this
              exact hpe this.symm
            · rw [hqp] at hex
              exact hex (firstFreeIdx_spec fs1 p).2.1
    · subst hqe
      have hpo : e.dest ∈ outputs N o f := (hdest _).1 (mem_map_dest he)
      have hnot : Path.bak e.dest n ∉ outputs N o f := fun hh => hH _ hh _ hpo n rfl
      rw [hbak e he n hnone]
      simp only [hnone, ne_eq, not_true_eq_false, false_or, hnot]
      constructor
      · intro hh
        by_cases hn : n = firstFreeIdx fs1 e.dest
        · rw [if_pos hn] at hh
          exact ⟨e.dest, hpo, hh, by rw [hn]⟩
        · rw [if_neg hn] at hh; exact absurd rfl hh
      · rintro ⟨p, _, hpe, hqp⟩
        injection hqp with h1 h2
        subst h1
        rw [if_pos h2]; exact hpe
  · intro p hp
    have hp' : p ∈ st.pending.map Entry.dest := (hdest p).2 hp
    obtain ⟨e, he, hde⟩ := List.mem_map.1 hp'
    have hq := hou p hp
    rcases hmd p hq with hv | ⟨_, e', he', n, hqe⟩
    · rw [hv, get_directRun_w, if_pos hp]
    · exact absurd hqe (hH _ hp _ ((hdest _).1 (mem_map_dest he')) n)
  · intro p hp c hc
    have hp' : p ∈ st.pending.map Entry.dest := (hdest p).2 hp
    obtain ⟨e, he, hde⟩ := List.mem_map.1 hp'
    subst hde
    have := hbak e he (firstFreeIdx fs1 e.dest) (firstFreeIdx_spec fs1 e.dest).2.1
    rw [if_pos rfl, hc] at this
    exact this
  · intro q hq hno hb
    rcases hmd q hq with hv | ⟨hnone, e, he, n, hqe⟩
    · rw [hv, get_directRun_w, if_neg hno]
    · rcases hb with hb | hb
      · exact absurd hnone hb
      · exact absurd hqe (hb _ ((hdest _).1 (mem_map_dest he)) n)
  · intro k
    rw [hafter]
    by_cases hk : k ∈ st.pending.map Entry.tmp
    · obtain ⟨e, he, hke⟩ := List.mem_map.1 hk
      subst hke
      exact finalize_no_temp_left _ _ hwf.finOK e he
    · have hnone : get st.fs (.tmp k) = none := by
        by_cases hh : get st.fs (.tmp k) = none
        · exact hh
        · exact absurd (hwf.owned k hh) hk
      rw [nothing_else_changes _ _ hwf.finOK (.tmp k)]
      · exact hnone
      · intro e he
        refine ⟨fun hh => ?_, fun hh => ?_⟩
        · have := hwf.dest_user _ (mem_map_dest he); rw [← hh] at this; simp [Path.isTmp] at this
        · injection hh with hh; exact hk (hh ▸ mem_map_tmp he)
      · right; intro e _ n hh; cases hh

/-- **Both cases, on the names that did not exist before the run** (and with no output pre-existing, so that no
backup is made): the run creates exactly the requested dumps (and the F-C07-2 artefact) when warnings are left,
and exactly those plus `outputs` when none is. -/
theorem new_files_exact (N : Names) (fs : FS) (o : Options) (f : Facts) (cont : List (Path × Bytes))
    (counter : List C08.Entry) (specs : List (List C08.Spec)) (level : Nat)
    (h0 : NoTmp fs) (hu : o.userPaths f)
    (hH : ∀ p ∈ outputs N o f, ∀ p' ∈ outputs N o f, ∀ n, p ≠ .bak p' n)
    (hfresh : ∀ p ∈ outputs N o f, get fs p = none ∧ p ∉ directFiles o f)
    (q : Path) (hq : q.isTmp = false) (hnew : get fs q = none) :
    (get (cliOutRun N fs o f cont counter specs level).1.fs q ≠ none ↔
      q ∈ directFiles o f ∨ (C08.leftover counter specs level = 0 ∧ q ∈ outputs N o f)) := by
  by_cases h : C08.leftover counter specs level = 0
  · obtain ⟨_, hiff, _⟩ := gate_creates_exactly_outputs N fs o f cont counter specs level h h0 hu hH
    rw [hiff q hq]
    have hfs1 : ∀ p, get (directWrites cont fs (directFiles o f)) p ≠ none ↔ (p ∈ directFiles o f ∨ get fs p ≠ none) := by
      intro p
      rw [get_directWrites]
      by_cases hm : p ∈ directFiles o f
      · simp [hm]
      · simp [hm]
    simp only [h, true_and]
    constructor
    · rintro (hh | hh | ⟨p, hp, hpe, _⟩)
      · rcases (hfs1 q).1 hh with hh | hh
        · exact Or.inl hh
        · exact absurd hnew hh
      · exact Or.inr hh
      · exfalso
        rcases (hfs1 p).1 hpe with hh | hh
        · exact (hfresh p hp).2 hh
        · exact hh (hfresh p hp).1
    · rintro (hh | hh)
      · exact Or.inl ((hfs1 q).2 (Or.inl hh))
      · exact Or.inr (Or.inl hh)
  · rw [blocked_new_files N fs o f cont counter specs level h q hq hnew]
    simp [h, directFiles]

/-! ## the error branches of `write()` and `number_of_counts_by` -/

/-- For every pending table built by deferred opens, `write()` never reaches its `AssertionError` / `KeyError`
branches (`entrySteps = none`). -/
theorem write_error_branches_unreachable (fs : FS) (ops : List OpenReq) (h0 : NoTmp fs)
    (hu : ∀ o ∈ ops, o.1.isTmp = false) (fs' : FS) :
    ∀ e ∈ (runOpens (init fs) ops).pending, entrySteps fs' e ≠ none := by
  intro e he
  exact entrySteps_some_of_mode_ok ((reachable_wf fs ops h0 hu).mode_ok e he)

/-- `number_of_counts_by(level=l)` is the total the leftover computation starts from -/
theorem countBy_level (counter : List C08.Entry) (l : Nat) :
    (countBy counter (some l) none : Int) = C08.totalAtOrAbove counter l := by
  simp only [countBy, C08.totalAtOrAbove, Bool.and_true]
  generalize counter.filter (fun e => decide (l ≤ e.level)) = L
  have : ∀ (acc : Nat), ((L.foldl (fun acc e => acc + e.count) acc : Nat) : Int)
      = acc + (L.map (fun e => (e.count : Int))).sum := by
    induction L with
    | nil => intro acc; simp
    | cons a t ih => intro acc; simp only [List.foldl_cons, List.map_cons, List.sum_cons]; rw [ih]; omega
  simpa using this 0

/-! ## non-vacuity: concrete runs with the names extracted from the sources -/

/-- the names of the current sources; the examples use this fixed copy, the driver uses `generatedNames`, which is
re-extracted on every run (a renamed include file changes the model together with the code) -/
def exNames : Names :=
  { goAtomtypes := "go_atomtypes.itp", goNonbond := "go_nbparams.itp", vsAtomtypes := "virtual_sites_atomtypes.itp",
    vsNonbond := "virtual_sites_nonbond_params.itp", goWriteConst := "contact_map_martinize.out",
    defaultMolname := "molecule", itpSuffix := ".itp", ssdPrefix := "chain_", ssdSuffix := ".ssd", noOutpath := "None" }

def exOpts : Options :=
  { outpath := some (.base "cg.pdb"), topPath := some (.base "topol.top"), molname := none, sep := false, go := .off,
    goWrite := .off, waterBias := false, dssp := .off, haveMdtraj := true, verbosity := 0,
    writeGraph := some (.base "g.pdb"), writeRepair := none, writeCanon := none }
def exFacts : Facts := { molClass := [0, 0], hasAtomtypes := false, hasNonbond := false, dsspChains := [], dsspTmp := [] }
def exGo : Options := { exOpts with go := .internal, goWrite := .const, outpath := none, writeGraph := none }
def exGoFacts : Facts := { exFacts with molClass := [0], hasAtomtypes := true, hasNonbond := true }
def exDssp : Options := { exOpts with dssp := .exe, verbosity := 1, sep := true, molname := some "pp" }
def exDsspFacts : Facts := { exFacts with dsspChains := [["B"], ["A"]], dsspTmp := [.base "dssp_in_x.pdb", .base "dssp_in_y.pdb"] }

example : outputs exNames exOpts exFacts = [.base "molecule_0.itp", .base "topol.top", .base "cg.pdb"] := by decide
example : debugDumps exOpts = [.base "g.pdb"] := by decide
example : outputs exNames exGo exGoFacts
    = [.base "contact_map_martinize.out", .base "go_atomtypes.itp", .base "go_nbparams.itp", .base "molecule.itp",
       .base "topol.top", .base "None"] := by decide
example : outputs exNames exDssp exDsspFacts
    = [.base "chain_B.ssd", .base "chain_A.ssd", .base "pp_0.itp", .base "pp_1.itp", .base "topol.top", .base "cg.pdb"] := by
  decide
example : sortedChains ["B", "A", "B", ""] = ["", "A", "B"] := by decide
example : dsspArtefacts exDssp exDsspFacts = [.base "dssp_in_x.pdb", .base "dssp_in_y.pdb"] := by decide
/-- the hypotheses of `gate_creates_exactly_outputs` / `new_files_exact` hold for the example -/
theorem exOpts_userPaths : exOpts.userPaths exFacts := by
  constructor
  · decide
  · intro p hp; cases hp
theorem exOpts_noBak : ∀ p ∈ outputs exNames exOpts exFacts, ∀ p' ∈ outputs exNames exOpts exFacts,
    ∀ n, p ≠ .bak p' n := by
  have : outputs exNames exOpts exFacts = [.base "molecule_0.itp", .base "topol.top", .base "cg.pdb"] := by decide
  rw [this]
  intro p hp p' _ n hh
  simp only [List.mem_cons, List.mem_nil_iff, or_false] at hp
  rcases hp with rfl | rfl | rfl <;> cases hh
-- one unwaived warning: only the dump appears; the warning waived: dump + outputs, the old cg.pdb at #cg.pdb.1#
example : ((cliOutRun exNames [(.base "cg.pdb", ['o'])] exOpts exFacts [] [{ level := 30, type := "general", count := 1 }] [] 30).1.fs.filter
    (fun kv => !kv.1.isTmp)).map Prod.fst = [.base "g.pdb", .base "cg.pdb"] := by decide
example : ((cliOutRun exNames [(.base "cg.pdb", ['o'])] exOpts exFacts [] [{ level := 30, type := "general", count := 1 }]
    [[(none, some 1)]] 30).1.fs.filter (fun kv => !kv.1.isTmp)).map Prod.fst
    = [.base "cg.pdb", .bak (.base "cg.pdb") 1, .base "topol.top", .base "molecule_0.itp", .base "g.pdb"] := by decide

end C07
