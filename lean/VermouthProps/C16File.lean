import VermouthProps.C16Tables
import VermouthProofs.C16_File
/-!
# C16 — whole-file theorems on the layout extracted from the repository

`Fits excl sys` is the explicit, computable precondition: every value of every atom fits its
column (strings without blanks at their ends), alternate location blank or 'A', residue name not
excluded, an element is given or the atom name has an ASCII letter, no '#' in the written line,
every molecule has at least one atom.
-/
namespace C16
open Layout

/-- the element the reader ends up with: the element column, else the first ASCII letter of the name -/
def elementOf (a : Atom) : Option (List Char) :=
  if a.element.getD [] ≠ [] then some (a.element.getD [])
  else ((a.atomname.getD []).find? isAsciiLetter).map fun c => [c]

/-- the atom `read_pdb` must return for atom `a` written with serial `serial` -/
def pAtomOf (serial : Nat) (a : Atom) : PAtom :=
  { atomid := serial, atomname := a.atomname.getD [], altloc := a.altloc.getD [],
    resname := a.resname.getD [], chain := a.chain.getD [], resid := a.resid.getD 1,
    icode := a.icode.getD [], x := (a.x, 3), y := (a.y, 3), z := (a.z, 3),
    occ := (a.occ.getD 100, 2), temp := (a.temp.getD 0, 2), element := (elementOf a).getD [] }

def fitsFieldB (sp : Spec) (v : Val) : Bool :=
  decide ((fieldBody sp v).length ≤ sp.width) &&
  match v with
  | .str s => strip s == s
  | _ => true

theorem fitsFieldB_iff (sp : Spec) (v : Val) (h : fitsFieldB sp v = true) : fitsField sp v := by
  unfold fitsFieldB at h
  unfold fitsField
  simp only [Bool.and_eq_true, decide_eq_true_eq] at h
  refine ⟨h.1, ?_⟩
  cases v <;> simp_all

/-- one atom fits its ATOM record -/
def atomFitsB (excl : List (List Char)) (serial : Nat) (a : Atom) : Bool :=
  (mkSlices 0 pdbReaderFields).all (fun sl => fitsFieldB (specAt sl) (atomEnv serial a sl.name)) &&
  (a.altloc.getD [] == [] || a.altloc.getD [] == ['A']) &&
  !(excl.contains (a.resname.getD [])) &&
  (elementOf a).isSome &&
  (atomLine pdb serial a).all (· ≠ '#')

/-- **the precondition of the file round trip** -/
def Fits (excl : List (List Char)) (sys : List Mol) : Bool := allSysB (atomFitsB excl) 1 sys

/-- ATOM record round trip, element guessed from the name when the element column is blank -/
theorem pdb_atom_roundtrip_el (excl : List (List Char)) (serial : Nat) (a : Atom)
    (hfit : ∀ sl ∈ mkSlices 0 pdbReaderFields, fitsField (specAt sl) (atomEnv serial a sl.name))
    (halt : a.altloc.getD [] = [] ∨ a.altloc.getD [] = ['A'])
    (hex : a.resname.getD [] ∉ excl) (hel : (elementOf a).isSome = true) :
    parseAtomLine pdb excl false (atomLine pdb serial a) = .ok (.keep (pAtomOf serial a)) := by
  unfold parseAtomLine
  have h := atom_record_roundtrip serial a hfit
  have hp : pdb.readerFields = pdbReaderFields := rfl
  rw [hp, h]
  unfold pAtomOf elementOf at *
  by_cases he : a.element.getD [] = []
  · simp only [he, ne_eq, not_true_eq_false, if_false] at hel ⊢
    cases hf : (a.atomname.getD []).find? isAsciiLetter with
    | none => rw [hf] at hel; simp at hel
    | some c =>
      rcases halt with halt | halt <;>
        simp [pdbAtomOfProps, Props.isNan, Props.str, Props.int, Props.dec, Props.get, List.find?, halt, hex, he, hf, firstAlpha,
          bind, Except.bind, pure, Except.pure]
  · rcases halt with halt | halt <;>
      simp [pdbAtomOfProps, Props.isNan, Props.str, Props.int, Props.dec, Props.get, List.find?, halt, hex, he, bind, Except.bind,
        pure, Except.pure]

theorem atomFitsB_reads (excl : List (List Char)) (serial : Nat) (a : Atom) (h : atomFitsB excl serial a = true) :
    ReadsAsAtom pdb excl false (atomLine pdb serial a) (pAtomOf serial a) := by
  unfold atomFitsB at h
  simp only [Bool.and_eq_true, Bool.or_eq_true, beq_iff_eq, Bool.not_eq_true', List.all_eq_true] at h
  obtain ⟨⟨⟨⟨hfit, halt⟩, hex⟩, hel⟩, hhash⟩ := h
  apply atom_lines_read excl false serial a _ (by rw [List.all_eq_true]; exact hhash)
  apply pdb_atom_roundtrip_el excl serial a (fun sl hsl => fitsFieldB_iff _ _ (hfit sl hsl)) halt _ hel
  intro hmem
  have : excl.contains (a.resname.getD []) = true := by simpa using hmem
  rw [this] at hex; cases hex

/-- **whole-file PDB round trip (atoms and molecules).**  For every system that `Fits`, the text
`write_pdb_string(system, conect=False)` produces is read back by `read_pdb` as exactly the
system: the same molecules (split at the TER records), in each the same atoms in `sorted_nodes`
order, each with the serial it was written with, the same name, alternate location, residue name,
chain, residue number, insertion code, coordinates on the 0.001 Å grid, occupancy, temperature
factor and element; no bonds. -/
theorem pdb_file_roundtrip (excl : List (List Char)) (sys : List Mol) (hfits : Fits excl sys = true) :
    ∃ lines r, writePdb pdb false sys = .ok lines ∧ readPdb pdb excl false lines = .ok r ∧
      r.mols = expectedMols pAtomOf 1 sys ∧ r.bonds = [] := by
  have hall := AllSys_mono (fun s a h => atomFitsB_reads excl s a h) sys 1 (allSysB_iff _ sys 1 hfits)
  have hne := AllSys_nonempty sys 1 hall
  have hgroups := groupsOf_ok pdb excl false pAtomOf (fun s a => (ter_end_lines_finish excl false s a).1) sys 1 hall
  have hend := (ter_end_lines_finish excl false 0 exAtom).2
  have hw := writeMols_eq_groups pdb pAtomOf sys 1 none hne
  have hr := readPdb_groups_conects pdb excl false (groupsOf pdb pAtomOf 1 sys) [] pdb.endLine hgroups
    (by intro l hl; cases hl) hend
  refine ⟨groupLines (groupsOf pdb pAtomOf 1 sys) ++ [] ++ [pdb.endLine],
    ⟨(groupsOf pdb pAtomOf 1 sys).map (fun g => g.1.map Prod.snd), []⟩, ?_, ?_, ?_, rfl⟩
  · simp only [writePdb, hw, bind, Except.bind, pure, Except.pure]
    rfl
  · rw [hr]; rfl
  · exact groupsOf_mols pdb pAtomOf sys 1 hne

/-- two molecules, atoms reordered by their atom ids, a residue number and coordinates at the
column limits, an element to be guessed from the name `1HB`: the system `Fits` -/
def exA : Atom := { exAtom with key := 5, atomid := some 2, resid := some 9999, y := -999999, element := some ['C'] }
def exB : Atom := { exAtom with key := 1, atomid := some 1, atomname := some ['1', 'H', 'B'], resid := some 1,
                                y := 0, x := 9999999 }
def exC : Atom := { exAtom with key := 0, resid := some (-999), altloc := some ['A'], resname := none, y := 5 }
def exSys : List Mol := [ { atoms := [exA, exB], edges := [(5, 1)] }, { atoms := [exC], edges := [] } ]

theorem exSys_sorted : sortedNodes { atoms := [exA, exB], edges := [(5, 1)] } = [exB, exA] ∧
    sortedNodes { atoms := [exC], edges := [] } = [exC] := by
  constructor <;>
    simp [sortedNodes, List.mergeSort, List.MergeSort.Internal.splitInTwo, List.merge, atomidLe, exA, exB, exAtom]

example : Fits [] exSys = true := by
  simp only [Fits, exSys, allSysB, exSys_sorted.1, exSys_sorted.2]
  decide +kernel

/-! ## the overflow clause at atom and file level -/

/-- the fields of a read atom by column name (element and charge are derived, not copied) -/
def pAtomField (pa : PAtom) : FName → Option RVal
  | .atomid => some (.int pa.atomid)
  | .atomname => some (.str pa.atomname)
  | .altloc => some (.str pa.altloc)
  | .resname => some (.str pa.resname)
  | .chain => some (.str pa.chain)
  | .resid => some (.int pa.resid)
  | .insertion_code => some (.str pa.icode)
  | .x => some (.dec pa.x.1 pa.x.2)
  | .y => some (.dec pa.y.1 pa.y.2)
  | .z => some (.dec pa.z.1 pa.z.2)
  | .occupancy => some (.dec pa.occ.1 pa.occ.2)
  | .temp_factor => some (.dec pa.temp.1 pa.temp.2)
  | _ => none

theorem atom_slices_kind (serial : Nat) (a : Atom) : ∀ sl ∈ mkSlices 0 pdbReaderFields,
    covers atomFmt sl.name sl.start sl.stop = some (specAt sl) ∧ (specAt sl).fill = ' ' ∧
      kindOk (specAt sl) sl.ty (atomEnv serial a sl.name) := by
  intro sl hsl
  have hok := List.all_eq_true.mp atom_slices_ok sl hsl
  simp only [Bool.and_eq_true, decide_eq_true_eq] at hok
  exact ⟨hok.1.1, hok.1.2, kindOk_atomEnv _ _ _ _ _ hok.2⟩

/-- **overflow never corrupts another field (atom level).**  Take ANY atom — over-long names,
six-digit residue numbers, coordinates beyond eight columns — and suppose its ATOM line is read as
an atom `pa`.  Then every field of `pa` whose written value fits its column equals the value
written: an overflowing field changes its own value only. -/
theorem pdb_atom_overflow_local (excl : List (List Char)) (ignh : Bool) (serial : Nat) (a : Atom) (pa : PAtom)
    (hread : parseAtomLine pdb excl ignh (atomLine pdb serial a) = .ok (.keep pa)) :
    ∀ sl ∈ mkSlices 0 pdbReaderFields, fitsField (specAt sl) (atomEnv serial a sl.name) →
      ∀ v, pAtomField pa sl.name = some v → v = expected (specAt sl) (atomEnv serial a sl.name) := by
  intro sl hsl hfit v hv
  unfold parseAtomLine at hread
  have hp : pdb.readerFields = pdbReaderFields := rfl
  rw [hp] at hread
  cases hr : readFields readFieldPdb (atomLine pdb serial a) (mkSlices 0 pdbReaderFields) with
  | error e => rw [hr] at hread; simp [bind, Except.bind] at hread
  | ok props =>
    rw [hr] at hread
    simp only [bind, Except.bind] at hread
    have hk := pdbAtomOfProps_keep excl ignh props pa hread
    have hloc := fields_overflow_local atomFmt (atomEnv serial a) atom_fmt_allTrunc.1 readFieldPdb (Or.inl rfl)
      specAt _ props (atom_slices_kind serial a) hr
    have hnd : (props.map Prod.fst).Nodup := by rw [hloc.1]; decide
    have hget := Props.get_of_mem props _ _ (hloc.2 sl hsl hfit) hnd
    obtain ⟨k1, k2, k3, k4, k5, k6, k7, k8, k9, k10, k11, k12⟩ := hk
    simp only [mkSlices, pdbReaderFields, List.mem_cons, List.not_mem_nil, or_false] at hsl
    rcases hsl with rfl | rfl | rfl | rfl | rfl | rfl | rfl | rfl | rfl | rfl | rfl | rfl | rfl | rfl <;>
      simp only [pAtomField, Option.some.injEq, reduceCtorEq] at hv <;>
      (subst hv; simp_all [Props.int, Props.str, Props.dec, expected, atomEnv])

/-- the atom the reader makes of the line of atom `a` (whatever it is) -/
def parsedAtomOf (excl : List (List Char)) (serial : Nat) (a : Atom) : PAtom :=
  match parseAtomLine pdb excl false (atomLine pdb serial a) with
  | .ok (.keep pa) => pa
  | _ => pAtomOf serial a

/-- the line of the atom is read as an atom at all (alternate location blank or 'A', residue name
not excluded, an element can be found) and contains no '#'; NO requirement that values fit -/
def atomReadableB (excl : List (List Char)) (serial : Nat) (a : Atom) : Bool :=
  (match parseAtomLine pdb excl false (atomLine pdb serial a) with
   | .ok (.keep _) => true
   | _ => false) &&
  (atomLine pdb serial a).all (· ≠ '#')

/-- (superseded by `pdb_file_overflow_local` in `C16Total`, where readability is proved from the layout
and the atoms read back are given explicitly)  For a system
whose atoms are merely readable — fields may overflow in any way — the text of `write_pdb_string`
is read back with the same number of molecules, the same number of atoms in each, in the same
order, and the k-th atom read is what the reader makes of the k-th atom's own line: no other
atom's values enter (`parsedAtomOf` depends on that atom only), and by `pdb_atom_overflow_local`
it agrees with the atom written on every field that fits. -/
theorem pdb_file_overflow_of_readable (excl : List (List Char)) (sys : List Mol)
    (h : allSysB (atomReadableB excl) 1 sys = true) :
    ∃ lines r, writePdb pdb false sys = .ok lines ∧ readPdb pdb excl false lines = .ok r ∧
      r.mols = expectedMols (parsedAtomOf excl) 1 sys ∧ r.bonds = [] := by
  have hreads : ∀ s a, atomReadableB excl s a = true →
      ReadsAsAtom pdb excl false (atomLine pdb s a) (parsedAtomOf excl s a) := by
    intro s a hb
    unfold atomReadableB at hb
    simp only [Bool.and_eq_true] at hb
    apply atom_lines_read excl false s a _ hb.2
    unfold parsedAtomOf
    cases hp : parseAtomLine pdb excl false (atomLine pdb s a) with
    | error e => rw [hp] at hb; simp at hb
    | ok r =>
      cases r with
      | skip => rw [hp] at hb; simp at hb
      | keep pa => rfl
  have hall := AllSys_mono hreads sys 1 (allSysB_iff _ sys 1 h)
  have hne := AllSys_nonempty sys 1 hall
  have hgroups := groupsOf_ok pdb excl false (parsedAtomOf excl)
    (fun s a => (ter_end_lines_finish excl false s a).1) sys 1 hall
  have hend := (ter_end_lines_finish excl false 0 exAtom).2
  have hw := writeMols_eq_groups pdb (parsedAtomOf excl) sys 1 none hne
  have hr := readPdb_groups_conects pdb excl false (groupsOf pdb (parsedAtomOf excl) 1 sys) [] pdb.endLine hgroups
    (by intro l hl; cases hl) hend
  refine ⟨groupLines (groupsOf pdb (parsedAtomOf excl) 1 sys) ++ [] ++ [pdb.endLine],
    ⟨(groupsOf pdb (parsedAtomOf excl) 1 sys).map (fun g => g.1.map Prod.snd), []⟩, ?_, ?_, ?_, rfl⟩
  · simp only [writePdb, hw, bind, Except.bind, pure, Except.pure]
    rfl
  · rw [hr]; rfl
  · exact groupsOf_mols pdb (parsedAtomOf excl) sys 1 hne

/-- `exAtom` (residue number 10000 and y = 99999.999 Å overflow) is readable; its other fields come
back as written (instance of `pdb_atom_overflow_local`: see the example in `C16Tables`) -/
example : allSysB (atomReadableB []) 1 [ { atoms := [exAtom], edges := [] } ] = true := by
  have h : sortedNodes { atoms := [exAtom], edges := [] } = [exAtom] := by simp [sortedNodes]
  simp only [allSysB, h]
  decide +kernel

end C16
