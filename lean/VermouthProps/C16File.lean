import VermouthProps.C16Tables
import VermouthProofs.C16_File
/-!
# C16 — whole-file theorems on the layout extracted from the repository

`Fits excl sys` is the explicit, computable precondition: every value of every atom fits its
column (strings without blanks at their ends), alternate location blank or 'A', residue name not
excluded, an element is given or the atom name has an ASCII letter, no '#' in the written line,
every molecule has at least one atom.
-/
namespace C16
open Layout

/-- the element the reader ends up with: the element column, else the first ASCII letter of the name -/
def elementOf (a : Atom) : Option (List Char) :=
  if a.element.getD [] ≠ [] then some (a.element.getD [])
  else ((a.atomname.getD []).find? isAsciiLetter).map fun c => [c]

/-- the atom `read_pdb` must return for atom `a` written with serial `serial` -/
def pAtomOf (serial : Nat) (a : Atom) : PAtom :=
  { atomid := serial, atomname := a.atomname.getD [], altloc := a.altloc.getD [],
    resname := a.resname.getD [], chain := a.chain.getD [], resid := a.resid.getD 1,
    icode := a.icode.getD [], x := (a.x, 3), y := (a.y, 3), z := (a.z, 3),
    occ := (a.occ.getD 100, 2), temp := (a.temp.getD 0, 2), element := (elementOf a).getD [] }

def fitsFieldB (sp : Spec) (v : Val) : Bool :=
  decide ((fieldBody sp v).length ≤ sp.width) &&
  match v with
  | .str s => strip s == s
  | _ => true

theorem fitsFieldB_iff (sp : Spec) (v : Val) (h : fitsFieldB sp v = true) : fitsField sp v := by
  unfold fitsFieldB at h
  unfold fitsField
  simp only [Bool.and_eq_true, decide_eq_true_eq] at h
  refine ⟨h.1, ?_⟩
  cases v <;> simp_all

/-- one atom fits its ATOM record -/
def atomFitsB (excl : List (List Char)) (serial : Nat) (a : Atom) : Bool :=
  (mkSlices 0 pdbReaderFields).all (fun sl => fitsFieldB (specAt sl) (atomEnv serial a sl.name)) &&
  (a.altloc.getD [] == [] || a.altloc.getD [] == ['A']) &&
  !(excl.contains (a.resname.getD [])) &&
  (elementOf a).isSome &&
  (atomLine pdb serial a).all (· ≠ '#')

/-- **the precondition of the file round trip** -/
def Fits (excl : List (List Char)) (sys : List Mol) : Bool := allSysB (atomFitsB excl) 1 sys

/-- ATOM record round trip, element guessed from the name when the element column is blank -/
theorem pdb_atom_roundtrip_el (excl : List (List Char)) (serial : Nat) (a : Atom)
    (hfit : ∀ sl ∈ mkSlices 0 pdbReaderFields, fitsField (specAt sl) (atomEnv serial a sl.name))
    (halt : a.altloc.getD [] = [] ∨ a.altloc.getD [] = ['A'])
    (hex : a.resname.getD [] ∉ excl) (hel : (elementOf a).isSome = true) :
    parseAtomLine pdb excl false (atomLine pdb serial a) = .ok (.keep (pAtomOf serial a)) := by
  unfold parseAtomLine
  have h := atom_record_roundtrip serial a hfit
  have hp : pdb.readerFields = pdbReaderFields := rfl
  rw [hp, h]
  unfold pAtomOf elementOf at *
  by_cases he : a.element.getD [] = []
  · simp only [he, ne_eq, not_true_eq_false, if_false] at hel ⊢
    cases hf : (a.atomname.getD []).find? isAsciiLetter with
    | none => rw [hf] at hel; simp at hel
    | some c =>
      rcases halt with halt | halt <;>
        simp [pdbAtomOfProps, Props.str, Props.int, Props.dec, Props.get, List.find?, halt, hex, he, hf, firstAlpha,
          bind, Except.bind, pure, Except.pure]
  · rcases halt with halt | halt <;>
      simp [pdbAtomOfProps, Props.str, Props.int, Props.dec, Props.get, List.find?, halt, hex, he, bind, Except.bind,
        pure, Except.pure]

theorem atomFitsB_reads (excl : List (List Char)) (serial : Nat) (a : Atom) (h : atomFitsB excl serial a = true) :
    ReadsAsAtom pdb excl false (atomLine pdb serial a) (pAtomOf serial a) := by
  unfold atomFitsB at h
  simp only [Bool.and_eq_true, Bool.or_eq_true, beq_iff_eq, Bool.not_eq_true', List.all_eq_true] at h
  obtain ⟨⟨⟨⟨hfit, halt⟩, hex⟩, hel⟩, hhash⟩ := h
  apply atom_lines_read excl false serial a _ (by rw [List.all_eq_true]; exact hhash)
  apply pdb_atom_roundtrip_el excl serial a (fun sl hsl => fitsFieldB_iff _ _ (hfit sl hsl)) halt _ hel
  intro hmem
  have : excl.contains (a.resname.getD []) = true := by simpa using hmem
  rw [this] at hex; cases hex

/-- **whole-file PDB round trip (atoms and molecules).**  For every system that `Fits`, the text
`write_pdb_string(system, conect=False)` produces is read back by `read_pdb` as exactly the
system: the same molecules (split at the TER records), in each the same atoms in `sorted_nodes`
order, each with the serial it was written with, the same name, alternate location, residue name,
chain, residue number, insertion code, coordinates on the 0.001 Å grid, occupancy, temperature
factor and element; no bonds. -/
theorem pdb_file_roundtrip (excl : List (List Char)) (sys : List Mol) (hfits : Fits excl sys = true) :
    ∃ lines r, writePdb pdb false sys = .ok lines ∧ readPdb pdb excl false lines = .ok r ∧
      r.mols = expectedMols pAtomOf 1 sys ∧ r.bonds = [] := by
  have hall := AllSys_mono (fun s a h => atomFitsB_reads excl s a h) sys 1 (allSysB_iff _ sys 1 hfits)
  have hne := AllSys_nonempty sys 1 hall
  have hgroups := groupsOf_ok pdb excl false pAtomOf (fun s a => (ter_end_lines_finish excl false s a).1) sys 1 hall
  have hend := (ter_end_lines_finish excl false 0 exAtom).2
  have hw := writeMols_eq_groups pdb pAtomOf sys 1 none hne
  have hr := readPdb_groups_conects pdb excl false (groupsOf pdb pAtomOf 1 sys) [] pdb.endLine hgroups
    (by intro l hl; cases hl) hend
  refine ⟨groupLines (groupsOf pdb pAtomOf 1 sys) ++ [] ++ [pdb.endLine],
    ⟨(groupsOf pdb pAtomOf 1 sys).map (fun g => g.1.map Prod.snd), []⟩, ?_, ?_, ?_, rfl⟩
  · simp only [writePdb, hw, bind, Except.bind, pure, Except.pure]
    rfl
  · rw [hr]; rfl
  · exact groupsOf_mols pdb pAtomOf sys 1 hne

/-- two molecules, atoms reordered by their atom ids, a residue number and coordinates at the
column limits, an element to be guessed from the name `1HB`: the system `Fits` -/
def exA : Atom := { exAtom with key := 5, atomid := some 2, resid := some 9999, y := -999999, element := some ['C'] }
def exB : Atom := { exAtom with key := 1, atomid := some 1, atomname := some ['1', 'H', 'B'], resid := some 1,
                                y := 0, x := 9999999 }
def exC : Atom := { exAtom with key := 0, resid := some (-999), altloc := some ['A'], resname := none, y := 5 }
def exSys : List Mol := [ { atoms := [exA, exB], edges := [(5, 1)] }, { atoms := [exC], edges := [] } ]

theorem exSys_sorted : sortedNodes { atoms := [exA, exB], edges := [(5, 1)] } = [exB, exA] ∧
    sortedNodes { atoms := [exC], edges := [] } = [exC] := by
  constructor <;>
    simp [sortedNodes, List.mergeSort, List.MergeSort.Internal.splitInTwo, List.merge, atomidLe, exA, exB, exAtom]

example : Fits [] exSys = true := by
  simp only [Fits, exSys, allSysB, exSys_sorted.1, exSys_sorted.2]
  decide +kernel

end C16
