import VermouthProofs.C19
import VermouthProofs.C19_Run
/-!
# C19 — mutation and modification requests hit exactly the residues they name

Top-level statements about the model in `VermouthModel/C19.lean`
(`parse_residue_spec`, `_format_resname`, `residue_matches`, `annotate_modifications`,
`AnnotateMutMod.run_system` of `vermouth/processors/annotate_mut_mod.py`).
Helper lemmas are in `VermouthProofs/C19.lean` and `VermouthProofs/C19_Run.lean`.
-/
namespace C19

/-! ## 1. The specification syntax -/

/-- What `[<chain>-][<resname>][[#]<resid>]` can express: a chain that is non-empty and free of `-`,
a residue name that is non-empty and free of `#` (and of `-` when no chain is given), a
non-negative residue number, no insertion code. -/
def wellFormed (s : Spec) : Bool :=
  (match s.chain with
   | none => !(s.resname.getD []).contains '-'
   | some c => !c.isEmpty && !c.contains '-') &&
  (match s.resname with
   | none => true
   | some n => !n.isEmpty && !n.contains '#') &&
  (match s.resid with
   | none => true
   | some i => decide (0 ≤ i)) &&
  s.icode.isNone

/-- **parse ∘ format = id** on every specification the syntax can express; in particular a
residue name ending in a digit is written with `#` (`PO4#3`, and `PO4#` without number) and read
back as the same name. -/
theorem parse_format (s : Spec) (h : wellFormed s = true) : parseSpec (formatSpec s) = .ok s := by
  obtain ⟨chain, resname, resid, icode⟩ := s
  simp only [wellFormed, Bool.and_eq_true] at h
  obtain ⟨⟨⟨hc, hn⟩, hi⟩, hic⟩ := h
  have hic' : icode = none := by simpa using hic
  subst hic'
  -- the digits
  have hds : ∃ ds : Str, (∀ c ∈ ds, isDigit c = true) ∧
      residText resid = ds ∧
      ∀ ch name, assemble ch name ds = .ok { chain := ch, resname := nonEmpty name, resid := resid, icode := none } := by
    cases resid with
    | none => exact ⟨[], by simp, rfl, fun ch name => assemble_nil ch name⟩
    | some i =>
      have h0 : 0 ≤ i := by simpa using hi
      refine ⟨natDigits i.natAbs, natDigits_all _, ?_, ?_⟩
      · simp only [residText, intStr]; rw [if_neg (by omega)]
      · intro ch name
        rw [assemble_digits ch name _ (natDigits_ne_nil _) (natDigits_all _), natDigits_val]
        have : ((i.natAbs : Nat) : Int) = i := by omega
        rw [this]
  obtain ⟨ds, hdall, hdeq, hasm⟩ := hds
  -- the name
  have hname : '#' ∉ resname.getD [] ∧ nonEmpty (resname.getD []) = resname := by
    cases resname with
    | none => simp [nonEmpty]
    | some n =>
      simp only [Bool.and_eq_true, Bool.not_eq_true', List.contains_eq_mem, decide_eq_false_iff_not] at hn
      refine ⟨by simpa using hn.2, ?_⟩
      simp [nonEmpty, hn.1]
  have hfmt : formatSpec { chain := chain, resname := resname, resid := resid, icode := none } =
      (if (chain.getD []).isEmpty then [] else chain.getD [] ++ ['-']) ++
        (resname.getD [] ++ (if endsInDigit (resname.getD []) = true then ['#'] else []) ++ ds) := by
    simp only [formatSpec, hdeq, Option.getD_none, List.append_nil, List.append_assoc]
  rw [hfmt]
  cases chain with
  | some c =>
    simp only [Bool.and_eq_true, Bool.not_eq_true', List.contains_eq_mem, decide_eq_false_iff_not] at hc
    have hc2 : '-' ∉ c := by simpa using hc.2
    simp only [Option.getD_some, hc.1]
    unfold parseSpec
    have e : ∀ rest : Str, (c ++ ['-']) ++ rest = c ++ '-' :: rest := by simp
    rw [if_neg (by simp), e, splitFirst_append _ _ _ hc2]
    simp only
    rw [parseRes_format _ _ _ hname.1 hdall, hasm, hname.2]
  | none =>
    simp only [Option.getD_none, List.isEmpty_nil, if_true, List.nil_append]
    have hc2 : '-' ∉ resname.getD [] := by simpa using hc
    have hno : '-' ∉ resname.getD [] ++ (if endsInDigit (resname.getD []) = true then ['#'] else []) ++ ds := by
      intro hm
      simp only [List.mem_append] at hm
      rcases hm with (hm | hm) | hm
      · exact hc2 hm
      · split at hm
        · simp at hm
        · simp at hm
      · exact (isDigit_ne _ (hdall _ hm)).1 rfl
    unfold parseSpec
    rw [splitFirst_none _ _ hno]
    simp only
    rw [parseRes_format _ _ _ hname.1 hdall, hasm, hname.2]

/-- non-vacuity of `parse_format`: `A-PO4#3` and chainless `PHE45` are well-formed -/
example : wellFormed { chain := some "A".toList, resname := some "PO4".toList, resid := some 3, icode := none } = true := by
  decide
example : formatSpec { chain := some "A".toList, resname := some "PO4".toList, resid := some 3, icode := none }
    = "A-PO4#3".toList := by decide
example : formatSpec { chain := none, resname := some "PO4".toList, resid := none, icode := none }
    = "PO4#".toList := by decide

/-- **Characterisation of the parser on arbitrary strings.**  The string is cut at its first `-`
(if any) into chain and rest; the rest is cut at its last `#` (if any) into name and number text,
otherwise at the start of its maximal digit suffix; `assemble` drops empty pieces and reads the
number with `int`. -/
theorem parse_characterisation (s : Str) :
    ∃ (chain : Option Str) (res name idstr : Str),
      ((chain = none ∧ res = s ∧ '-' ∉ s) ∨ (∃ c, chain = some c ∧ s = c ++ '-' :: res ∧ '-' ∉ c)) ∧
      ((res = name ++ '#' :: idstr ∧ '#' ∉ idstr) ∨
       ('#' ∉ res ∧ res = name ++ idstr ∧ (∀ c ∈ idstr, isDigit c = true) ∧ endsInDigit name = false)) ∧
      parseSpec s = assemble chain name idstr := by
  unfold parseSpec
  cases hs : splitFirst '-' s with
  | some p =>
    obtain ⟨c, r⟩ := p
    obtain ⟨e, hn⟩ := splitFirst_some _ _ _ _ hs
    simp only
    rcases parseRes_cases (some c) r with ⟨name, idstr, e1, h1, h2⟩ | ⟨h0, name, idstr, e1, h1, h2, h3⟩
    · exact ⟨some c, r, name, idstr, Or.inr ⟨c, rfl, e, hn⟩, Or.inl ⟨e1, h1⟩, h2⟩
    · exact ⟨some c, r, name, idstr, Or.inr ⟨c, rfl, e, hn⟩, Or.inr ⟨h0, e1, h1, h2⟩, h3⟩
  | none =>
    have hn := splitFirst_eq_none _ _ hs
    simp only
    rcases parseRes_cases none s with ⟨name, idstr, e1, h1, h2⟩ | ⟨h0, name, idstr, e1, h1, h2, h3⟩
    · exact ⟨none, s, name, idstr, Or.inl ⟨rfl, rfl, hn⟩, Or.inl ⟨e1, h1⟩, h2⟩
    · exact ⟨none, s, name, idstr, Or.inl ⟨rfl, rfl, hn⟩, Or.inr ⟨h0, e1, h1, h2⟩, h3⟩

/-- what `assemble` does with the pieces: no number text -/
theorem assemble_without_number (chain : Option Str) (name : Str) :
    assemble chain name [] = .ok { chain := chain, resname := nonEmpty name, resid := none, icode := none } :=
  assemble_nil chain name

/-- … and with a non-empty string of digits: its decimal value -/
theorem assemble_with_digits (chain : Option Str) (name ds : Str) (hne : ds ≠ [])
    (h : ∀ c ∈ ds, isDigit c = true) :
    assemble chain name ds =
      .ok { chain := chain, resname := nonEmpty name, resid := some (digitsVal ds : Int), icode := none } :=
  assemble_digits chain name ds hne h

/-- The documented ambiguity: without `#` a name ending in digits loses them to the number. -/
theorem parse_PO4 :
    parseSpec "PO4".toList = .ok { chain := none, resname := some "PO".toList, resid := some 4, icode := none } ∧
    parseSpec "PO4#".toList = .ok { chain := none, resname := some "PO4".toList, resid := none, icode := none } ∧
    parseSpec "PO4#3".toList = .ok { chain := none, resname := some "PO4".toList, resid := some 3, icode := none } ∧
    parseSpec "A-PHE45".toList = .ok { chain := some "A".toList, resname := some "PHE".toList, resid := some 45, icode := none } ∧
    parseSpec "-ALA".toList = .ok { chain := some [], resname := some "ALA".toList, resid := none, icode := none } ∧
    parseSpec "ALA#x".toList = .valueError := by
  decide

/-! ## 2. The matcher -/

/-- every part given in the specification is present in the residue with that value -/
def PlainMatch (s : Spec) (r : ResKey) : Prop :=
  (∀ c, s.chain = some c → r.chain = some c) ∧ (∀ i, s.resid = some i → r.resid = some i) ∧
  (∀ n, s.resname = some n → r.resname = some n) ∧ (∀ c, s.icode = some c → r.icode = some c)

/-- residue `nb` is another residue joined to residue `r` by at least one atom–atom edge -/
def Bonded (m : Mol) (r nb : ResKey) : Prop :=
  nb ≠ r ∧ ∃ e ∈ m.edges, (resOf m e.1 = some r ∧ resOf m e.2 = some nb) ∨
                           (resOf m e.2 = some r ∧ resOf m e.1 = some nb)

/-- the neighbour list of the residue graph is the `Bonded` relation, without repetition -/
theorem neighbours_spec (m : Mol) (r nb : ResKey) : nb ∈ neighbours m r ↔ Bonded m r nb := by
  unfold neighbours Bonded
  rw [List.mem_eraseDups, List.mem_filterMap]
  constructor
  · rintro ⟨e, he, h⟩
    unfold edgeNeighbour at h
    cases h1 : resOf m e.1 with
    | none => simp [h1] at h
    | some a =>
      cases h2 : resOf m e.2 with
      | none => simp [h1, h2] at h
      | some b =>
        simp only [h1, h2] at h
        by_cases c1 : a = r ∧ b ≠ r
        · rw [if_pos c1] at h
          cases h
          exact ⟨c1.2, e, he, Or.inl ⟨by rw [h1, c1.1], h2⟩⟩
        · rw [if_neg c1] at h
          by_cases c2 : b = r ∧ a ≠ r
          · rw [if_pos c2] at h
            cases h
            exact ⟨c2.2, e, he, Or.inr ⟨by rw [h2, c2.1], h1⟩⟩
          · rw [if_neg c2] at h; cases h
  · rintro ⟨hne, e, he, h⟩
    refine ⟨e, he, ?_⟩
    unfold edgeNeighbour
    rcases h with ⟨h1, h2⟩ | ⟨h2, h1⟩
    · simp [h1, h2, hne]
    · simp [h1, h2, hne]

theorem neighbours_nodup (m : Mol) (r : ResKey) : (neighbours m r).Nodup := nodup_eraseDups _

/-- "a single neighbour": the residue graph gives `r` degree 1 exactly when `nb` is the one and
only residue bonded to it -/
theorem single_neighbour_iff (m : Mol) (r nb : ResKey) :
    neighbours m r = [nb] ↔ ∀ x, Bonded m r x ↔ x = nb := by
  constructor
  · intro h x
    rw [← neighbours_spec, h]; simp
  · intro h
    have hnd := neighbours_nodup m r
    have hmem : ∀ x, x ∈ neighbours m r ↔ x = nb := fun x => by rw [neighbours_spec]; exact h x
    cases hl : neighbours m r with
    | nil => have := (hmem nb).mpr rfl; rw [hl] at this; simp at this
    | cons a t =>
      rw [hl] at hnd hmem
      have ha : a = nb := (hmem a).mp (by simp)
      subst ha
      cases t with
      | nil => rfl
      | cons b t' =>
        have hb : b = a := (hmem b).mp (by simp)
        subst hb
        simp at hnd

/-- **Plain specifications** (anything but `nter`/`cter` on a degree-1 residue): the residue
matches iff every given part agrees. -/
theorem matches_plain (protein : List Str) (s : Spec) (m : Mol) (r : ResKey)
    (h : isTerminalName s.resname = false ∨ ∀ nb, neighbours m r ≠ [nb]) :
    residueMatches protein s m r = true ↔ PlainMatch s r := by
  have hsub : subdict s r = true ↔ PlainMatch s r := by
    unfold subdict PlainMatch
    simp only [Bool.and_eq_true, optAgrees_iff]
    constructor
    · rintro ⟨⟨⟨a, b⟩, c⟩, d⟩; exact ⟨a, b, c, d⟩
    · rintro ⟨a, b, c, d⟩; exact ⟨⟨⟨a, b⟩, c⟩, d⟩
  rw [← hsub]
  unfold residueMatches
  split
  · rename_i nb hn
    cases h with
    | inl h => rw [h]; simp
    | inr h => exact absurd hn (h nb)
  · rfl

/-- **Terminal specifications**: on a residue with the single neighbour `nb`, `nter` (`cter`)
matches iff the residue is a protein residue whose residue number is lower (higher) than the
neighbour's and the chain / insertion code, if given, agree; a residue name or number in the
specification plays no role. -/
theorem matches_terminal (protein : List Str) (s : Spec) (m : Mol) (r nb : ResKey)
    (ht : isTerminalName s.resname = true) (hn : neighbours m r = [nb]) :
    residueMatches protein s m r = true ↔
      isProtein protein r = true ∧
      (s.resname = some nter → r.resid.getD 0 < nb.resid.getD 0) ∧
      (s.resname = some cter → r.resid.getD 0 > nb.resid.getD 0) ∧
      (∀ c, s.chain = some c → r.chain = some c) ∧ (∀ c, s.icode = some c → r.icode = some c) := by
  unfold residueMatches
  rw [hn]
  simp only [ht, if_true]
  have hsub : subdict { s with resname := none, resid := none } r = true ↔
      (∀ c, s.chain = some c → r.chain = some c) ∧ (∀ c, s.icode = some c → r.icode = some c) := by
    unfold subdict
    simp only [Bool.and_eq_true, optAgrees_iff]
    constructor
    · rintro ⟨⟨⟨a, _⟩, _⟩, d⟩; exact ⟨a, d⟩
    · rintro ⟨a, d⟩; exact ⟨⟨⟨a, by simp⟩, by simp⟩, d⟩
  have hne : nter ≠ cter := by decide
  unfold isTerminalName at ht
  simp only [Bool.or_eq_true, decide_eq_true_eq] at ht
  have key : terminalMatches protein s.resname r nb = true ↔
      (isProtein protein r = true ∧ (s.resname = some nter → r.resid.getD 0 < nb.resid.getD 0) ∧
        (s.resname = some cter → r.resid.getD 0 > nb.resid.getD 0)) := by
    unfold terminalMatches
    cases hp : isProtein protein r with
    | false => simp
    | true =>
      simp only [Bool.not_true, Bool.false_eq_true, if_false, true_and]
      rcases ht with e | e
      · simp [e, hne]
      · have e2 : ¬ (some cter = some nter) := fun x => hne (Option.some.inj x).symm
        simp [e, e2, hne.symm]
  cases htm : terminalMatches protein s.resname r nb with
  | true =>
    have hk := key.mp htm
    simp only [Bool.not_true, Bool.false_eq_true, if_false]
    rw [hsub]
    constructor
    · intro h; exact ⟨hk.1, hk.2.1, hk.2.2, h.1, h.2⟩
    · intro h; exact ⟨h.2.2.2.1, h.2.2.2.2⟩
  | false =>
    simp only [Bool.not_false, if_true]
    constructor
    · intro h; cases h
    · intro h
      have := key.mpr ⟨h.1, h.2.1, h.2.2.1⟩
      rw [htm] at this; cases this

/-- non-vacuity: a three-residue chain GLY1-ALA2-GLY3; `nter` names residue 1 only -/
example :
    let r (i : Int) (n : String) : ResKey := { chain := some "A".toList, resid := some i, resname := some n.toList, icode := none }
    let m : Mol := { atoms := [⟨0, r 1 "GLY", [], []⟩, ⟨1, r 2 "ALA", [], []⟩, ⟨2, r 3 "GLY", [], []⟩],
                     edges := [(0, 1), (1, 2)] }
    let s : Spec := { chain := none, resname := some nter, resid := none, icode := none }
    (m.atoms.map fun a => residueMatches ["GLY".toList, "ALA".toList] s m a.res) = [true, false, false] := by
  decide

/-- **From the request text to the residues**: a request written in the documented syntax for the
parts `s` (chain / name / number in any combination, name not `nter`/`cter`) is read back as `s` and
matches exactly the residues on which every given part agrees. -/
theorem request_text_names_residues (protein : List Str) (s : Spec) (m : Mol) (r : ResKey)
    (h : wellFormed s = true) (hn : isTerminalName s.resname = false) :
    ∃ sp, parseSpec (formatSpec s) = .ok sp ∧ (residueMatches protein sp m r = true ↔ PlainMatch s r) :=
  ⟨s, parse_format s h, matches_plain protein s m r (Or.inl hn)⟩

/-- `AnnotateMutMod.__init__` parses every request text; it succeeds iff every text parses, and
keeps order and targets. -/
theorem parseRequests_spec (l : List (Str × Str)) (rs : List Request) :
    parseRequests l = some rs ↔
      rs.length = l.length ∧ ∀ i (h1 : i < l.length) (h2 : i < rs.length),
        parseSpec l[i].1 = .ok rs[i].spec ∧ rs[i].target = l[i].2 := by
  induction l generalizing rs with
  | nil =>
    cases rs with
    | nil => simp [parseRequests]
    | cons a t => simp [parseRequests]
  | cons p rest ih =>
    obtain ⟨str, tgt⟩ := p
    unfold parseRequests
    cases hp : parseSpec str with
    | valueError =>
      simp only [reduceCtorEq, false_iff]
      rintro ⟨hl, hall⟩
      cases rs with
      | nil => simp at hl
      | cons a t =>
        have := (hall 0 (by simp) (by simp)).1
        simp [hp] at this
    | ok sp =>
      simp only
      cases hr : parseRequests rest with
      | none =>
        simp only [reduceCtorEq, false_iff]
        rintro ⟨hl, hall⟩
        cases rs with
        | nil => simp at hl
        | cons a t =>
          have : parseRequests rest = some t := (ih t).mpr ⟨by simpa using hl, fun i h1 h2 => by
            have := hall (i + 1) (by simp; omega) (by simp; omega)
            simpa using this⟩
          rw [hr] at this; cases this
      | some tl =>
        simp only [Option.some.injEq]
        have ihtl := (ih tl).mp hr
        constructor
        · rintro rfl
          refine ⟨by simp [ihtl.1], ?_⟩
          intro i h1 h2
          cases i with
          | zero => simp [hp]
          | succ j =>
            have := ihtl.2 j (by simpa using h1) (by simpa using h2)
            simpa using this
        · rintro ⟨hl, hall⟩
          cases rs with
          | nil => simp at hl
          | cons a t =>
            have h0 := hall 0 (by simp) (by simp)
            simp only [List.getElem_cons_zero, hp, ParseResult.ok.injEq] at h0
            have ht : parseRequests rest = some t := (ih t).mpr ⟨by simpa using hl, fun i h1 h2 => by
              have := hall (i + 1) (by simp; omega) (by simp; omega)
              simpa using this⟩
            rw [hr] at ht
            cases ht
            obtain ⟨ra, rb⟩ := a
            simp only at h0
            rw [h0.1, h0.2]

/-! ## 3. Marking -/

theorem matchesAny_iff (lib : Lib) (s : Spec) (m : Mol) :
    matchesAny lib s m = true ↔ ∃ a ∈ m.atoms, residueMatches lib.protein s m a.res = true := by
  unfold matchesAny; rw [List.any_eq_true]

/-- `targetsFor lib m l r`: the targets of the requests of `l`, in order, whose specification
matches residue `r` of molecule `m`. -/
theorem targetsFor_eq (lib : Lib) (m : Mol) (l : List Request) (r : ResKey) :
    targetsFor lib m l r = (l.filter fun rq => residueMatches lib.protein rq.spec m r).map (·.target) := rfl

/-- No exception is raised iff there is no request at all, or no molecule is empty and every
request that matches a residue somewhere asks for a known modification / block. -/
theorem no_error_iff (lib : Lib) (mods muts : List Request) (mols : List Mol) :
    (runSystem lib mods muts mols).err = none ↔
      (mods = [] ∧ muts = []) ∨
      ∀ m ∈ mols, m.atoms ≠ [] ∧
        (∀ rq ∈ mods, matchesAny lib rq.spec m = true → lib.known .modification rq.target = true) ∧
        (∀ rq ∈ muts, matchesAny lib rq.spec m = true → lib.known .mutation rq.target = true) := by
  have hbad : ∀ m, molBad lib mods muts m = false ↔
      ((mods = [] ∧ muts = []) ∨ (m.atoms ≠ [] ∧
        (∀ rq ∈ mods, matchesAny lib rq.spec m = true → lib.known .modification rq.target = true) ∧
        (∀ rq ∈ muts, matchesAny lib rq.spec m = true → lib.known .mutation rq.target = true))) := by
    intro m
    unfold molBad bad
    simp only [Bool.and_eq_false_iff, Bool.not_eq_false', Bool.and_eq_true, List.isEmpty_iff,
      Bool.or_eq_false_iff, List.any_eq_false, Bool.not_eq_true', not_and, Bool.not_eq_false]
    constructor
    · rintro (h | ⟨⟨h1, h2⟩, h3⟩)
      · exact Or.inl h
      · refine Or.inr ⟨by simpa using h1, ?_, ?_⟩
        · intro rq hr hm; exact h2 rq hr hm
        · intro rq hr hm; exact h3 rq hr hm
    · rintro (h | ⟨h1, h2, h3⟩)
      · exact Or.inl h
      · exact Or.inr ⟨⟨by simpa using h1, fun rq hr hm => h2 rq hr hm⟩, fun rq hr hm => h3 rq hr hm⟩
  by_cases hall : ∀ m ∈ mols, molBad lib mods muts m = false
  · have : (runSystem lib mods muts mols).err = none := by
      unfold runSystem; simp only [runMols_ok _ _ _ _ _ hall]
    simp only [this, true_iff]
    by_cases he : mods = [] ∧ muts = []
    · exact Or.inl he
    · right
      intro m hm
      rcases (hbad m).mp (hall m hm) with h | h
      · exact absurd h he
      · exact h
  · have hex : ∃ m ∈ mols, molBad lib mods muts m = true := by
      apply Classical.byContradiction
      intro hn
      apply hall
      intro m hm
      cases hb : molBad lib mods muts m with
      | false => rfl
      | true => exact absurd ⟨m, hm, hb⟩ hn
    obtain ⟨m, hm, e, he, _⟩ := runMols_bad lib mods muts mols [] hex
    have : (runSystem lib mods muts mols).err = some e := by
      unfold runSystem; simp only [he]
    rw [this]
    simp only [reduceCtorEq, false_iff]
    intro h
    apply hall
    intro x hx
    rw [hbad]
    rcases h with h | h
    · exact Or.inl h
    · exact Or.inr (h x hx)

/-- **Marks are exactly the matches.**  When no exception is raised, every atom `a` of every
molecule `m` ends with `modification = old ++ targetsFor … modifications a.res` and
`mutation = old ++ targetsFor … mutations a.res` (`marked`), i.e. it carries the target of request
`rq` iff `rq` matches its residue, as often and in the order requested; nothing else changes
(same molecules, same atoms in the same order, same edges). -/
theorem marks_exact (lib : Lib) (mods muts : List Request) (mols : List Mol)
    (h : (runSystem lib mods muts mols).err = none) :
    (runSystem lib mods muts mols).mols =
      mols.map fun m => { m with atoms := m.atoms.map fun a =>
        { a with mods := a.mods ++ targetsFor lib m mods a.res,
                 muts := a.muts ++ targetsFor lib m muts a.res } } := by
  have hall : ∀ m ∈ mols, molBad lib mods muts m = false := by
    intro m hm
    cases hb : molBad lib mods muts m with
    | false => rfl
    | true =>
      obtain ⟨_, _, e, he, _⟩ := runMols_bad lib mods muts mols [] ⟨m, hm, hb⟩
      have : (runSystem lib mods muts mols).err = some e := by
        unfold runSystem; simp only [he]
      rw [this] at h; cases h
  unfold runSystem
  simp only [runMols_ok _ _ _ _ _ hall]
  rfl

/-- A target is among the appended marks of a residue iff some request with that target matches
the residue ("marks every residue that matches … and no other"). -/
theorem marks_iff_matches (lib : Lib) (m : Mol) (l : List Request) (r : ResKey) (t : Str) :
    t ∈ targetsFor lib m l r ↔ ∃ rq ∈ l, rq.target = t ∧ residueMatches lib.protein rq.spec m r = true := by
  unfold targetsFor
  simp only [List.mem_map, List.mem_filter]
  constructor
  · rintro ⟨rq, ⟨h1, h2⟩, h3⟩; exact ⟨rq, h1, h3, h2⟩
  · rintro ⟨rq, h1, h3, h2⟩; exact ⟨rq, ⟨h1, h2⟩, h3⟩

/-- … and a request that does not match the residue contributes nothing, one that matches
contributes exactly one mark: the number of marks is the number of matching requests. -/
theorem marks_count (lib : Lib) (m : Mol) (l : List Request) (r : ResKey) :
    (targetsFor lib m l r).length = (l.filter fun rq => residueMatches lib.protein rq.spec m r).length := by
  simp [targetsFor]

/-- **All atoms of a residue are marked alike**: the appended marks depend on the atom only
through its residue. -/
theorem marks_all_atoms (lib : Lib) (mods muts : List Request) (m : Mol) (a b : Atom)
    (hres : a.res = b.res) :
    (marked lib m mods muts a).mods = a.mods ++ targetsFor lib m mods a.res ∧
    (marked lib m mods muts b).mods = b.mods ++ targetsFor lib m mods a.res ∧
    (marked lib m mods muts a).muts = a.muts ++ targetsFor lib m muts a.res ∧
    (marked lib m mods muts b).muts = b.muts ++ targetsFor lib m muts a.res := by
  simp [marked, hres]

/-! ## 4. Unknown targets -/

/-- **A request whose target is unknown and which matches a residue is an error**: with no
empty molecule in the system the run ends in a NameError for an unknown target and nothing is
reported. -/
theorem unknown_target_error (lib : Lib) (mods muts : List Request) (mols : List Mol)
    (hne : ∀ m ∈ mols, m.atoms ≠ [])
    (h : ∃ m ∈ mols, (∃ rq ∈ mods, matchesAny lib rq.spec m = true ∧ lib.known .modification rq.target = false) ∨
                     (∃ rq ∈ muts, matchesAny lib rq.spec m = true ∧ lib.known .mutation rq.target = false)) :
    ∃ k t, (runSystem lib mods muts mols).err = some (.nameError k t) ∧ lib.known k t = false ∧
      (runSystem lib mods muts mols).reports = [] := by
  have hex : ∃ m ∈ mols, molBad lib mods muts m = true := by
    obtain ⟨m, hm, hw⟩ := h
    refine ⟨m, hm, ?_⟩
    unfold molBad
    rcases hw with ⟨rq, hr, h1, h2⟩ | ⟨rq, hr, h1, h2⟩
    · have : mods.any (bad lib m .modification) = true :=
        List.any_eq_true.mpr ⟨rq, hr, by simp [bad, h1, h2]⟩
      have hne' : mods.isEmpty = false := by cases mods with
        | nil => simp at hr
        | cons _ _ => rfl
      simp [this, hne']
    · have : muts.any (bad lib m .mutation) = true :=
        List.any_eq_true.mpr ⟨rq, hr, by simp [bad, h1, h2]⟩
      have hne' : muts.isEmpty = false := by cases muts with
        | nil => simp at hr
        | cons _ _ => rfl
      simp [this, hne']
  obtain ⟨m, hm, e, he, hwhy⟩ := runMols_bad lib mods muts mols [] hex
  rcases hwhy with ⟨_, hempty⟩ | ⟨k, rq, hek, hb, _⟩
  · exact absurd hempty (hne m hm)
  · refine ⟨k, rq.target, ?_, ?_, ?_⟩
    · unfold runSystem; simp only [he, hek]
    · unfold bad at hb; simp only [Bool.and_eq_true, Bool.not_eq_true'] at hb; exact hb.2
    · unfold runSystem; simp only [he]

/-- non-vacuity: a matching request for the unknown block `XYZ` -/
example :
    let r : ResKey := { chain := some "A".toList, resid := some 1, resname := some "GLY".toList, icode := none }
    let m : Mol := { atoms := [⟨0, r, [], []⟩], edges := [] }
    let lib : Lib := { protein := ["GLY".toList], modifications := [], blocks := ["ALA".toList] }
    let rq : Request := { spec := { chain := none, resname := some "GLY".toList, resid := none, icode := none }, target := "XYZ".toList }
    (runSystem lib [] [rq] [m]).err = some (.nameError .mutation "XYZ".toList) := by
  decide

/-! ## 5. The report -/

/-- the warning issued for request `rq` of kind `k` -/
def reportOf (k : Kind) (rq : Request) : Report := { mutmod := formatSpec rq.spec, kind := k, post := rq.target }

theorem system_counts (lib : Lib) (mods muts : List Request) (mols : List Mol)
    (h : (runSystem lib mods muts mols).err = none) :
    (runSystem lib mods muts mols).reports = report (mols.flatMap (molCounts lib mods muts)) := by
  have hall : ∀ m ∈ mols, molBad lib mods muts m = false := by
    intro m hm
    cases hb : molBad lib mods muts m with
    | false => rfl
    | true =>
      obtain ⟨_, _, e, he, _⟩ := runMols_bad lib mods muts mols [] ⟨m, hm, hb⟩
      have : (runSystem lib mods muts mols).err = some e := by
        unfold runSystem; simp only [he]
      rw [this] at h; cases h
  unfold runSystem
  simp only [runMols_ok _ _ _ _ _ hall, List.nil_append]

/-- **A request that matches no residue of any molecule is reported** (system with at least one
molecule, run without exception): the warning carrying its formatted specification, its kind
and its target is issued. -/
theorem unmatched_reported (lib : Lib) (mods muts : List Request) (mols : List Mol)
    (h : (runSystem lib mods muts mols).err = none) (hmols : mols ≠ [])
    (k : Kind) (i : Nat) (rq : Request) (hrq : reqAt mods muts (k, i) = some rq)
    (hun : ∀ m ∈ mols, matchesAny lib rq.spec m = false) :
    reportOf k rq ∈ (runSystem lib mods muts mols).reports := by
  rw [system_counts _ _ _ _ h]
  unfold report
  rw [reportLoop_eq]
  obtain ⟨m0, rest, rfl⟩ : ∃ m0 rest, mols = m0 :: rest := by
    cases mols with
    | nil => exact absurd rfl hmols
    | cons a t => exact ⟨a, t, rfl⟩
  let counts := (m0 :: rest).flatMap (molCounts lib mods muts)
  have hc0 : countOf lib m0 k i rq ∈ counts := by
    rw [List.mem_flatMap]
    exact ⟨m0, by simp, (mem_molCounts _ _ _ _ _).mpr ⟨rq, by simpa [countOf, Count.id] using hrq, by simp [countOf]⟩⟩
  have hnf : foundAnywhere counts (k, i) = false := by
    rw [found_system lib mods muts (m0 :: rest) (k, i) rq hrq]
    rw [List.any_eq_false]
    intro m hm; simp [hun m hm]
  have hid := reportedCounts_complete counts counts [] (countOf lib m0 k i rq) hc0
    (by simpa [countOf, Count.id] using hnf) (by simp)
  rw [List.mem_map] at hid
  obtain ⟨c, hc, hcid⟩ := hid
  rw [List.mem_map]
  refine ⟨c, hc, ?_⟩
  have hcm := (reportedCounts_mem counts counts [] c hc).1
  rw [List.mem_flatMap] at hcm
  obtain ⟨m, _, hcm⟩ := hcm
  rw [mem_molCounts] at hcm
  obtain ⟨rq', hr', hc'⟩ := hcm
  have hid2 : c.id = (k, i) := by simpa [countOf, Count.id] using hcid
  rw [hid2, hrq] at hr'
  cases hr'
  have hk : c.kind = k := by have := congrArg Prod.fst hid2; simpa [Count.id] using this
  rw [hc']
  simp [Count.toReport, countOf, reportOf, hk]

/-- **Only unmatched requests are reported, each once**: the warnings are those of a
duplicate-free list of request identities (kind, position), each belonging to a request that
matches no residue of any molecule. -/
theorem reported_only_unmatched_once (lib : Lib) (mods muts : List Request) (mols : List Mol)
    (h : (runSystem lib mods muts mols).err = none) :
    ∃ ids : List (SpecId × Request),
      (ids.map (·.1)).Nodup ∧
      (runSystem lib mods muts mols).reports = ids.map (fun p => reportOf p.1.1 p.2) ∧
      ∀ p ∈ ids, reqAt mods muts p.1 = some p.2 ∧ ∀ m ∈ mols, matchesAny lib p.2.spec m = false := by
  rw [system_counts _ _ _ _ h]
  unfold report
  rw [reportLoop_eq]
  let counts := mols.flatMap (molCounts lib mods muts)
  have key : ∀ c ∈ reportedCounts counts counts [],
      ∃ rq, reqAt mods muts c.id = some rq ∧ c.toReport = reportOf c.kind rq ∧
        ∀ m ∈ mols, matchesAny lib rq.spec m = false := by
    intro c hc
    obtain ⟨hcm, hnf, _⟩ := reportedCounts_mem counts counts [] c hc
    rw [List.mem_flatMap] at hcm
    obtain ⟨m, _, hcm⟩ := hcm
    rw [mem_molCounts] at hcm
    obtain ⟨rq, hr, hc'⟩ := hcm
    refine ⟨rq, hr, ?_, ?_⟩
    · rw [hc']; simp [Count.toReport, countOf, reportOf]
    · rw [found_system lib mods muts mols c.id rq hr, List.any_eq_false] at hnf
      intro x hx; simpa using hnf x hx
  have hnd := reportedCounts_nodup counts counts []
  generalize reportedCounts counts counts [] = cs at key hnd
  have main : ∃ ids : List (SpecId × Request), ids.map (·.1) = cs.map Count.id ∧
      cs.map Count.toReport = ids.map (fun p => reportOf p.1.1 p.2) ∧
      ∀ p ∈ ids, reqAt mods muts p.1 = some p.2 ∧ ∀ m ∈ mols, matchesAny lib p.2.spec m = false := by
    clear hnd
    induction cs with
    | nil => exact ⟨[], by simp, by simp, by simp⟩
    | cons c t ih =>
      obtain ⟨rq, hr, hrep, hun⟩ := key c (by simp)
      obtain ⟨ids, h1, h2, h3⟩ := ih (fun x hx => key x (by simp [hx]))
      refine ⟨(c.id, rq) :: ids, by simp [h1], ?_, ?_⟩
      · simp [h2, hrep, Count.id]
      · intro p hp
        simp only [List.mem_cons] at hp
        cases hp with
        | inl e => subst e; exact ⟨hr, hun⟩
        | inr e => exact h3 p e
  obtain ⟨ids, h1, h2, h3⟩ := main
  exact ⟨ids, by rw [h1]; exact hnd, h2, h3⟩

/-- The hypothesis `mols ≠ []` of `unmatched_reported` cannot be dropped: on a system without
molecules nothing is ever reported (the bookkeeping is filled per molecule). -/
theorem empty_system_reports_nothing (lib : Lib) (mods muts : List Request) :
    (runSystem lib mods muts []).reports = [] ∧ (runSystem lib mods muts []).err = none := by
  simp [runSystem, runMols, report, reportLoop]

/-- non-vacuity, and the history of finding F-C19-1 (an unmatched request next to a matching
one): GLY1-ALA2-GLY3 with the implicit `cter`/`nter` requests and the mutation `A-PHE45:ALA`;
the termini are marked and exactly the mutation request is reported. -/
example :
    let r (i : Int) (n : String) : ResKey := { chain := some "A".toList, resid := some i, resname := some n.toList, icode := some [] }
    let m : Mol := { atoms := [⟨0, r 1 "GLY", [], []⟩, ⟨1, r 2 "ALA", [], []⟩, ⟨2, r 3 "GLY", [], []⟩],
                     edges := [(0, 1), (1, 2)] }
    let lib : Lib := { protein := ["GLY".toList, "ALA".toList], modifications := ["N-ter".toList, "C-ter".toList],
                       blocks := ["ALA".toList] }
    let t (s : String) (x : String) : Request :=
      { spec := match parseSpec s.toList with | .ok sp => sp | .valueError => default, target := x.toList }
    let res := runSystem lib [t "cter" "C-ter", t "nter" "N-ter"] [t "A-PHE45" "ALA"] [m]
    res.err = none ∧
    res.reports = [{ mutmod := "A-PHE45".toList, kind := .mutation, post := "ALA".toList }] ∧
    res.mols.map (fun m => m.atoms.map (·.mods)) = [[["N-ter".toList], [], ["C-ter".toList]]] := by
  decide

/-! ## 5b. A processor object used more than once -/

/-- **The processor is stateless as far as results go**: when ONE `AnnotateMutMod` object is applied
to any sequence of systems and single molecules, every application marks, raises and reports
exactly what a freshly constructed processor with the same requests does on that input alone —
the k-th answer depends only on the k-th input (the bookkeeping list is emptied by `run_system`
and never influences marks or errors). -/
theorem processor_stateless (lib : Lib) (p : Proc) (ops : List Op) :
    runHistory lib p ops = ops.map (freshApply lib p.mods p.muts) := by
  unfold runHistory
  induction ops generalizing p with
  | nil => rfl
  | cons op ops ih =>
    simp only [runHistoryGen, List.map_cons]
    have hcfg : (procStepGen true lib p op).1.mods = p.mods ∧ (procStepGen true lib p op).1.muts = p.muts := by
      cases op <;> exact ⟨rfl, rfl⟩
    rw [ih, hcfg.1, hcfg.2]
    congr 1
    cases op with
    | system mols => rfl
    | molecule m =>
      simp only [freshApply, procStep, procStepGen]
      obtain ⟨h1, h2⟩ := annotateMol_counts_indep lib p.mods p.muts m p.counts []
      rw [h1, h2]

/-- the requests the processor was built with are never changed by using it -/
theorem processor_config_unchanged (lib : Lib) (p : Proc) (op : Op) :
    (procStep lib p op).1.mods = p.mods ∧ (procStep lib p op).1.muts = p.muts := by
  cases op <;> exact ⟨rfl, rfl⟩

/-- a system run of a reused processor is `runSystem` on that system -/
theorem reused_system_run (lib : Lib) (p : Proc) (mols : List Mol) :
    (procStep lib p (.system mols)).2 = .system (runSystem lib p.mods p.muts mols) := by
  simp only [procStep, procStepGen, if_true, resultOf, runSystem]

def histLib : Lib := { protein := ["GLY".toList, "ALA".toList], modifications := [], blocks := ["GLY".toList] }
def histRes (i : Int) (n : String) : ResKey :=
  { chain := some "A".toList, resid := some i, resname := some n.toList, icode := none }
/-- a chain of three one-atom residues -/
def histMol (a b c : String) : Mol :=
  { atoms := [⟨0, histRes 1 a, [], []⟩, ⟨1, histRes 2 b, [], []⟩, ⟨2, histRes 3 c, [], []⟩], edges := [(0, 1), (1, 2)] }
def histProc : Proc :=
  { mods := [], muts := [{ spec := { chain := none, resname := some "ALA".toList, resid := some 2, icode := none },
                           target := "GLY".toList }], counts := [] }
def reportsOf : OpResult → List Report
  | .system r => r.reports
  | .molecule _ _ => []

/-- **witness of the behaviour before fix ed8f8af** (the list is never emptied): `ALA2` is in the
first system and absent from the second; the reused processor does not report it for the second
system, the fixed one does. -/
theorem old_reuse_hides_report :
    (runHistoryGen false histLib histProc [.system [histMol "GLY" "ALA" "GLY"], .system [histMol "GLY" "GLY" "GLY"]]).map
        (fun r => (reportsOf r).length) = [0, 0] ∧
    (runHistory histLib histProc [.system [histMol "GLY" "ALA" "GLY"], .system [histMol "GLY" "GLY" "GLY"]]).map
        (fun r => (reportsOf r).length) = [0, 1] := by
  decide

/-! ## 6. Command line -/

/-- `martinize2` keeps the given `-modify`, `-nter`, `-cter` requests in order and only appends. -/
theorem cli_keeps_given (nt : Bool) (given : List (Str × Str)) :
    ∃ added, cliModifications nt given = given ++ added := by
  unfold cliModifications
  cases nt with
  | true => exact ⟨_, rfl⟩
  | false =>
    simp only [Bool.false_eq_true, if_false]
    split <;> split
    · exact ⟨[], by simp⟩
    · exact ⟨_, rfl⟩
    · exact ⟨_, rfl⟩
    · exact ⟨_, by rw [List.append_assoc]⟩

/-- Whatever the user gives, the request list handed to `AnnotateMutMod` mentions both termini:
every run of the command line has requests besides the user's own (which is why finding F-C19-1
hid every mistyped `-mutate` or `-modify` target). -/
theorem cli_termini_requested (nt : Bool) (given : List (Str × Str)) :
    (cliModifications nt given).any (fun p => isInfixOf cter p.1) = true ∧
    (cliModifications nt given).any (fun p => isInfixOf nter p.1) = true := by
  have hc : isInfixOf cter cter = true := by decide
  have hn : isInfixOf nter nter = true := by decide
  unfold cliModifications
  cases nt with
  | true => simp [List.any_append, hc, hn]
  | false =>
    simp only [Bool.false_eq_true, if_false]
    by_cases h1 : given.any (fun p => isInfixOf cter p.1) = true <;>
    by_cases h2 : given.any (fun p => isInfixOf nter p.1) = true <;>
    simp [h1, h2, List.any_append, hc, hn]

end C19
