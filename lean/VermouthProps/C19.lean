import VermouthProofs.C19
/-!
# C19 — mutation and modification requests hit exactly the residues they name

Top-level statements about the model in `VermouthModel/C19.lean`
(`parse_residue_spec`, `_format_resname`, `residue_matches`, `annotate_modifications`,
`AnnotateMutMod.run_system` of `vermouth/processors/annotate_mut_mod.py`).
Helper lemmas are in `VermouthProofs/C19.lean` and `VermouthProofs/C19_Run.lean`.
-/
namespace C19

/-! ## 1. The specification syntax -/

/-- What `[<chain>-][<resname>][[#]<resid>]` can express: a chain that is non-empty and free of `-`,
a residue name that is non-empty and free of `#` (and of `-` when no chain is given), a
non-negative residue number, no insertion code. -/
def wellFormed (s : Spec) : Bool :=
  (match s.chain with
   | none => !(s.resname.getD []).contains '-'
   | some c => !c.isEmpty && !c.contains '-') &&
  (match s.resname with
   | none => true
   | some n => !n.isEmpty && !n.contains '#') &&
  (match s.resid with
   | none => true
   | some i => decide (0 ≤ i)) &&
  s.icode.isNone

/-- **parse ∘ format = id** on every specification the syntax can express; in particular a
residue name ending in a digit is written with `#` (`PO4#3`, and `PO4#` without number) and read
back as the same name. -/
theorem parse_format (s : Spec) (h : wellFormed s = true) : parseSpec (formatSpec s) = .ok s := by
  obtain ⟨chain, resname, resid, icode⟩ := s
  simp only [wellFormed, Bool.and_eq_true] at h
  obtain ⟨⟨⟨hc, hn⟩, hi⟩, hic⟩ := h
  have hic' : icode = none := by simpa using hic
  subst hic'
  -- the digits
  have hds : ∃ ds : Str, (∀ c ∈ ds, isDigit c = true) ∧
      residText resid = ds ∧
      ∀ ch name, assemble ch name ds = .ok { chain := ch, resname := nonEmpty name, resid := resid, icode := none } := by
    cases resid with
    | none => exact ⟨[], by simp, rfl, fun ch name => assemble_nil ch name⟩
    | some i =>
      have h0 : 0 ≤ i := by simpa using hi
      refine ⟨natDigits i.natAbs, natDigits_all _, ?_, ?_⟩
      · simp only [residText, intStr]; rw [if_neg (by omega)]
      · intro ch name
        rw [assemble_digits ch name _ (natDigits_ne_nil _) (natDigits_all _), natDigits_val]
        have : ((i.natAbs : Nat) : Int) = i := by omega
        rw [this]
  obtain ⟨ds, hdall, hdeq, hasm⟩ := hds
  -- the name
  have hname : '#' ∉ resname.getD [] ∧ nonEmpty (resname.getD []) = resname := by
    cases resname with
    | none => simp [nonEmpty]
    | some n =>
      simp only [Bool.and_eq_true, Bool.not_eq_true', List.contains_eq_mem, decide_eq_false_iff_not] at hn
      refine ⟨by simpa using hn.2, ?_⟩
      simp [nonEmpty, hn.1]
  have hfmt : formatSpec { chain := chain, resname := resname, resid := resid, icode := none } =
      (if (chain.getD []).isEmpty then [] else chain.getD [] ++ ['-']) ++
        (resname.getD [] ++ (if endsInDigit (resname.getD []) = true then ['#'] else []) ++ ds) := by
    simp only [formatSpec, hdeq, Option.getD_none, List.append_nil, List.append_assoc]
  rw [hfmt]
  cases chain with
  | some c =>
    simp only [Bool.and_eq_true, Bool.not_eq_true', List.contains_eq_mem, decide_eq_false_iff_not] at hc
    have hc2 : '-' ∉ c := by simpa using hc.2
    simp only [Option.getD_some, hc.1]
    unfold parseSpec
    have e : ∀ rest : Str, (c ++ ['-']) ++ rest = c ++ '-' :: rest := by simp
    rw [if_neg (by simp), e, splitFirst_append _ _ _ hc2]
    simp only
    rw [parseRes_format _ _ _ hname.1 hdall, hasm, hname.2]
  | none =>
    simp only [Option.getD_none, List.isEmpty_nil, if_true, List.nil_append]
    have hc2 : '-' ∉ resname.getD [] := by simpa using hc
    have hno : '-' ∉ resname.getD [] ++ (if endsInDigit (resname.getD []) = true then ['#'] else []) ++ ds := by
      intro hm
      simp only [List.mem_append] at hm
      rcases hm with (hm | hm) | hm
      · exact hc2 hm
      · split at hm
        · simp at hm
        · simp at hm
      · exact (isDigit_ne _ (hdall _ hm)).1 rfl
    unfold parseSpec
    rw [splitFirst_none _ _ hno]
    simp only
    rw [parseRes_format _ _ _ hname.1 hdall, hasm, hname.2]

/-- non-vacuity of `parse_format`: `A-PO4#3` and chainless `PHE45` are well-formed -/
example : wellFormed { chain := some "A".toList, resname := some "PO4".toList, resid := some 3, icode := none } = true := by
  decide
example : formatSpec { chain := some "A".toList, resname := some "PO4".toList, resid := some 3, icode := none }
    = "A-PO4#3".toList := by decide
example : formatSpec { chain := none, resname := some "PO4".toList, resid := none, icode := none }
    = "PO4#".toList := by decide

/-- **Characterisation of the parser on arbitrary strings.**  The string is cut at its first `-`
(if any) into chain and rest; the rest is cut at its last `#` (if any) into name and number text,
otherwise at the start of its maximal digit suffix; `assemble` drops empty pieces and reads the
number with `int`. -/
theorem parse_characterisation (s : Str) :
    ∃ (chain : Option Str) (res name idstr : Str),
      ((chain = none ∧ res = s ∧ '-' ∉ s) ∨ (∃ c, chain = some c ∧ s = c ++ '-' :: res ∧ '-' ∉ c)) ∧
      ((res = name ++ '#' :: idstr ∧ '#' ∉ idstr) ∨
       ('#' ∉ res ∧ res = name ++ idstr ∧ (∀ c ∈ idstr, isDigit c = true) ∧ endsInDigit name = false)) ∧
      parseSpec s = assemble chain name idstr := by
  unfold parseSpec
  cases hs : splitFirst '-' s with
  | some p =>
    obtain ⟨c, r⟩ := p
    obtain ⟨e, hn⟩ := splitFirst_some _ _ _ _ hs
    simp only
    rcases parseRes_cases (some c) r with ⟨name, idstr, e1, h1, h2⟩ | ⟨h0, name, idstr, e1, h1, h2, h3⟩
    · exact ⟨some c, r, name, idstr, Or.inr ⟨c, rfl, e, hn⟩, Or.inl ⟨e1, h1⟩, h2⟩
    · exact ⟨some c, r, name, idstr, Or.inr ⟨c, rfl, e, hn⟩, Or.inr ⟨h0, e1, h1, h2⟩, h3⟩
  | none =>
    have hn := splitFirst_eq_none _ _ hs
    simp only
    rcases parseRes_cases none s with ⟨name, idstr, e1, h1, h2⟩ | ⟨h0, name, idstr, e1, h1, h2, h3⟩
    · exact ⟨none, s, name, idstr, Or.inl ⟨rfl, rfl, hn⟩, Or.inl ⟨e1, h1⟩, h2⟩
    · exact ⟨none, s, name, idstr, Or.inl ⟨rfl, rfl, hn⟩, Or.inr ⟨h0, e1, h1, h2⟩, h3⟩

/-- what `assemble` does with the pieces: no number text -/
theorem assemble_without_number (chain : Option Str) (name : Str) :
    assemble chain name [] = .ok { chain := chain, resname := nonEmpty name, resid := none, icode := none } :=
  assemble_nil chain name

/-- … and with a non-empty string of digits: its decimal value -/
theorem assemble_with_digits (chain : Option Str) (name ds : Str) (hne : ds ≠ [])
    (h : ∀ c ∈ ds, isDigit c = true) :
    assemble chain name ds =
      .ok { chain := chain, resname := nonEmpty name, resid := some (digitsVal ds : Int), icode := none } :=
  assemble_digits chain name ds hne h

/-- The documented ambiguity: without `#` a name ending in digits loses them to the number. -/
theorem parse_PO4 :
    parseSpec "PO4".toList = .ok { chain := none, resname := some "PO".toList, resid := some 4, icode := none } ∧
    parseSpec "PO4#".toList = .ok { chain := none, resname := some "PO4".toList, resid := none, icode := none } ∧
    parseSpec "PO4#3".toList = .ok { chain := none, resname := some "PO4".toList, resid := some 3, icode := none } ∧
    parseSpec "A-PHE45".toList = .ok { chain := some "A".toList, resname := some "PHE".toList, resid := some 45, icode := none } ∧
    parseSpec "-ALA".toList = .ok { chain := some [], resname := some "ALA".toList, resid := none, icode := none } ∧
    parseSpec "ALA#x".toList = .valueError := by
  decide

end C19
