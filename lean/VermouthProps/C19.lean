import VermouthProofs.C19
namespace C19
theorem placeholder : True := trivial
end C19
