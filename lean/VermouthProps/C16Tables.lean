import VermouthProps.C16
import Generated.C16Layout
/-!
# C16 — table theorems, re-checked on every run against the layout extracted from the repository

`Generated/C16Layout.lean` holds the format strings of `write_pdb_string` / `write_gro` and the
column tables of `PDBParser._atom`, `PDBParser.do_conect` and `read_gro` as they are in the
source NOW.  Everything here is closed by `decide` on those tables, or instantiates a generic
theorem of `VermouthProps/C16.lean` with them.
-/
namespace C16
open Layout

/-- every reader column of `fields` covers the writer field of the same name (and blank literal
columns besides), with a blank fill character and matching type letter / reader type -/
def slicesAgree (fmt : List Seg) (slices : List RSlice) : Bool :=
  slices.all fun sl =>
    match covers fmt sl.name sl.start sl.stop with
    | some sp => decide (sp.fill = ' ') &&
        (match sp.ty, sl.ty with
         | .d, .int => true
         | .s, .str => true
         | .f, .float => decide (1 ≤ sp.prec)
         | _, _ => false)
    | none => false

/-- every field of the format string is read by some reader column -/
def allFieldsRead (fmt : List Seg) (slices : List RSlice) : Bool :=
  fmt.all fun
    | .lit _ => true
    | .fld n _ => slices.any fun sl => sl.name = n

/-- the GRO reader's columns once it has detected `w`-column coordinates, no velocities -/
def groSlices (w : Nat) : List RSlice :=
  (groNames.zip (groTypes.zip (groSliceBounds 0 (groWidths ++ [w, w, w])))).map
    fun (n, t, b) => (⟨n, t, b.1, b.2⟩ : RSlice)

/-! ## record_length_const on the extracted format strings -/

theorem atom_fmt_allTrunc : allTrunc atomFmt = true ∧ allTrunc terFmt = true ∧ allTrunc groFmt = true := by
  decide

/-- every ATOM record is 80 columns, every TER record 27, every GRO atom line 44 — whatever the
values (over-long names, six-digit residue numbers, overflowing coordinates) -/
theorem record_length_tables (env : Env) :
    (render atomFmt env).length = 80 ∧ (render terFmt env).length = 27 ∧ (render groFmt env).length = 44 := by
  refine ⟨?_, ?_, ?_⟩
  · rw [record_length_const _ _ atom_fmt_allTrunc.1]; decide
  · rw [record_length_const _ _ atom_fmt_allTrunc.2.1]; decide
  · rw [record_length_const _ _ atom_fmt_allTrunc.2.2]; decide

/-! ## layouts_agree -/

/-- **layouts_agree** (PDB): each column of `PDBParser._atom` covers the like-named field of the ATOM
format string and only blanks besides; each field written is read. -/
theorem layouts_agree_pdb :
    slicesAgree atomFmt (mkSlices 0 pdbReaderFields) = true ∧
    allFieldsRead atomFmt (mkSlices 0 pdbReaderFields) = true := by
  decide

/-- **layouts_agree** (GRO): with the 8-column coordinates that `write_gro` produces, the columns of
`read_gro` coincide with the fields of the format string. -/
theorem layouts_agree_gro :
    slicesAgree groFmt (groSlices 8) = true ∧ allFieldsRead groFmt (groSlices 8) = true := by
  decide

/-- the CONECT writer and reader agree on where numbers start and how wide they are, numbers
are right-aligned blank-filled `t`-truncated integers, four partners per record -/
theorem layouts_agree_conect :
    conectPrefix.length = conectStart ∧ conectNum.width = conectWidth ∧ 1 ≤ conectWidth ∧
    conectNum.ty = .d ∧ conectNum.fill = ' ' ∧ conectNum.trunc = true ∧ conectNum.leftAligned = false ∧
    conectChunk ≠ 0 ∧ 10 ^ conectWidth = 100000 := by
  decide

/-! ## conect_roundtrip on the extracted layout -/

/-- **conect_roundtrip.** With the layout in the source now, every CONECT record whose serials are
≤ 99999 is read back as exactly the serials written. -/
theorem conect_roundtrip_tables (ids : List Nat) (hne : ids ≠ []) (h : ∀ i ∈ ids, i ≤ 99999) :
    conectIds pdb (conectLine pdb ids) = .ok (ids.map Int.ofNat) := by
  obtain ⟨h1, h2, h3, h4, h5, h6, h7, _, h9⟩ := layouts_agree_conect
  apply conect_roundtrip pdb ids hne h1 h2 h3 h4 h5 h6 h7
  intro i hi
  have := h i hi
  show i < 10 ^ conectWidth
  rw [h9]; omega

/-- F-C16-1 (repaired in the repository): the unrepaired writer put a blank and a 4-column
`t`-truncated number per serial; serial 10000 came out as `0000` and the reader (same columns
as now) gets serial 0 back, so the bond 9999–10000 is lost. -/
theorem conect_4wide_loses_bonds :
    (conectIds pdb (['C', 'O', 'N', 'E', 'C', 'T'] ++ ' ' :: renderField ⟨' ', .right, 4, 0, .d, true⟩ (.int 9999)
        ++ ' ' :: renderField ⟨' ', .right, 4, 0, .d, true⟩ (.int 10000))).toOption = some [9999, 0] := by
  decide +kernel

/-! ## ter_split on the extracted layout -/

/-- the TER line the writer puts after each molecule and the closing END line are end-of-molecule
lines for the reader, whatever residue data the TER line carries -/
theorem ter_end_lines_finish (excl : List (List Char)) (ignh : Bool) (serial : Nat) (a : Atom) :
    ReadsAsFinish pdb excl ignh (terLine pdb serial a) ∧ ReadsAsFinish pdb excl ignh pdb.endLine := by
  constructor
  · have : terLine pdb serial a = ['T', 'E', 'R'] ++ [' ', ' ', ' '] ++ render terFmt.tail (atomEnv serial a) := rfl
    rw [this]
    exact reads_as_finish pdb excl ignh _ _ _ (by decide) (by decide) (by decide) (by decide) (by decide)
      (by decide) (by decide)
  · have : pdb.endLine = ['E', 'N', 'D'] ++ [' ', ' ', ' '] ++ [] := rfl
    rw [this]
    exact reads_as_finish pdb excl ignh _ _ _ (by decide) (by decide) (by decide) (by decide) (by decide)
      (by decide) (by decide)

/-! ## non-vacuity: concrete instances of the hypotheses used above -/

/-- columns 22–26 of an ATOM record are the residue number, 30–38 the x coordinate -/
example : covers atomFmt .resid 22 26 = some ⟨' ', .right, 4, 0, .d, true⟩ ∧
    covers atomFmt .x 30 38 = some ⟨' ', .dflt, 8, 3, .f, true⟩ ∧
    covers atomFmt .resname 17 21 = some ⟨' ', .dflt, 3, 0, .s, true⟩ := by decide

/-- residue number 9999 fits its four columns, 10000 does not; −12.345 Å fits eight columns -/
example : (fieldBody ⟨' ', .right, 4, 0, .d, true⟩ (.int 9999)).length ≤ 4 ∧
    ¬ (fieldBody ⟨' ', .right, 4, 0, .d, true⟩ (.int 10000)).length ≤ 4 ∧
    (fieldBody ⟨' ', .dflt, 8, 3, .f, true⟩ (.fix (-12345))).length ≤ 8 := by decide +kernel

/-- an over-long residue number loses its leading digit and nothing else moves -/
example : renderField ⟨' ', .right, 4, 0, .d, true⟩ (.int 12345) = ['2', '3', '4', '5'] ∧
    renderField ⟨' ', .dflt, 4, 0, .s, true⟩ (.str ['A', 'B', 'C', 'D', 'E']) = ['A', 'B', 'C', 'D'] ∧
    renderField ⟨' ', .dflt, 8, 3, .f, true⟩ (.fix (-12345678)) = ['2', '3', '4', '5', '.', '6', '7', '8'] := by
  decide +kernel

/-- an atom whose residue number overflows and whose y coordinate overflows -/
def exAtom : Atom :=
  { key := 0, atomid := none, atomname := some ['C', 'A'], altloc := none, resname := some ['A', 'L', 'A'],
    chain := some ['B'], resid := some 10000, icode := none, x := -12345, y := 99999999, z := 0,
    occ := none, temp := none, element := none }

def exPAtom : PAtom :=
  { atomid := 10000, atomname := ['C', 'A'], altloc := [], resname := ['A', 'L', 'A'], chain := ['B'],
    resid := 0, icode := [], x := (-12345, 3), y := (9999999, 3), z := (0, 3), occ := (100, 2),
    temp := (0, 2), element := ['C'] }

/-- a concrete written ATOM line is an atom line for the reader (hypothesis `ReadsAsAtom` of
`ter_split`); the overflowing fields come back truncated, all others exactly -/
example : ReadsAsAtom pdb [] false (atomLine pdb 10000 exAtom) exPAtom := by
  intro st
  have hd : decomment (atomLine pdb 10000 exAtom) ≠ [] ∧
      classify (decomment (atomLine pdb 10000 exAtom)) = .atom ∧
      (match parseAtomLine pdb [] false (decomment (atomLine pdb 10000 exAtom)) with
        | .ok r => some r | .error _ => none) = some (.keep exPAtom) := by
    decide +kernel
  unfold pdbStep
  simp only [hd.1, if_false, hd.2.1]
  cases hp : parseAtomLine pdb [] false (decomment (atomLine pdb 10000 exAtom)) with
  | error e => rw [hp] at hd; simp at hd
  | ok r =>
    rw [hp] at hd
    simp only [Option.some.injEq] at hd
    rw [hd.2.2]
    rfl

end C16
