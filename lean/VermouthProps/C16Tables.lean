import VermouthProps.C16
import Generated.C16Layout
namespace C16
end C16
