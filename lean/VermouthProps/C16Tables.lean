import VermouthProps.C16
import Generated.C16Layout
/-!
# C16 — table theorems, re-checked on every run against the layout extracted from the repository

`Generated/C16Layout.lean` holds the format strings of `write_pdb_string` / `write_gro` and the
column tables of `PDBParser._atom`, `PDBParser.do_conect` and `read_gro` as they are in the
source NOW.  Everything here is closed by `decide` on those tables, or instantiates a generic
theorem of `VermouthProps/C16.lean` with them.
-/
namespace C16
open Layout

/-- every reader column of `fields` covers the writer field of the same name (and blank literal
columns besides), with a blank fill character and matching type letter / reader type -/
def slicesAgree (fmt : List Seg) (slices : List RSlice) : Bool :=
  slices.all fun sl =>
    match covers fmt sl.name sl.start sl.stop with
    | some sp => decide (sp.fill = ' ') &&
        (match sp.ty, sl.ty with
         | .d, .int => true
         | .s, .str => true
         | .f, .float => decide (1 ≤ sp.prec)
         | _, _ => false)
    | none => false

/-- every field of the format string is read by some reader column -/
def allFieldsRead (fmt : List Seg) (slices : List RSlice) : Bool :=
  fmt.all fun
    | .lit _ => true
    | .fld n _ => slices.any fun sl => sl.name = n

/-- the GRO reader's columns once it has detected `w`-column coordinates, no velocities -/
def groSlices (w : Nat) : List RSlice :=
  (groNames.zip (groTypes.zip (groSliceBounds 0 (groWidths ++ [w, w, w])))).map
    fun (n, t, b) => (⟨n, t, b.1, b.2⟩ : RSlice)

/-- … once it has counted six points (velocities) -/
def groSlicesV (w : Nat) : List RSlice :=
  ((groNames ++ groVelNames).zip ((groTypes ++ ([.float, .float, .float] : List RTy)).zip
      (groSliceBounds 0 (groWidths ++ [w, w, w] ++ [w, w, w])))).map
    fun (n, t, b) => (⟨n, t, b.1, b.2⟩ : RSlice)

/-! ## record_length_const on the extracted format strings -/

theorem atom_fmt_allTrunc : allTrunc atomFmt = true ∧ allTrunc terFmt = true ∧ allTrunc groFmt = true := by
  decide

/-- every ATOM record is 80 columns, every TER record 27, every GRO atom line 44 — whatever the
values (over-long names, six-digit residue numbers, overflowing coordinates) -/
theorem record_length_tables (env : Env) :
    (render atomFmt env).length = 80 ∧ (render terFmt env).length = 27 ∧ (render groFmt env).length = 44 := by
  refine ⟨?_, ?_, ?_⟩
  · rw [record_length_const _ _ atom_fmt_allTrunc.1]; decide
  · rw [record_length_const _ _ atom_fmt_allTrunc.2.1]; decide
  · rw [record_length_const _ _ atom_fmt_allTrunc.2.2]; decide

/-- `write_gro(precision=p)`: for every precision in the extracted table all fields truncate and the
atom line is `20 + 3 (p + 1)` columns long; the table entry of the default precision is the
default format string -/
theorem gro_precision_tables :
    groFmts.all (fun e => allTrunc e.2 && fmtWidth e.2 == 20 + 3 * (e.1 + 1)) = true ∧
    groFmts.lookup groDefaultPrecision = some groFmt := by
  decide

/-! ## layouts_agree -/

/-- **layouts_agree** (PDB): each column of `PDBParser._atom` covers the like-named field of the ATOM
format string and only blanks besides; each field written is read. -/
theorem layouts_agree_pdb :
    slicesAgree atomFmt (mkSlices 0 pdbReaderFields) = true ∧
    allFieldsRead atomFmt (mkSlices 0 pdbReaderFields) = true := by
  decide

/-- **layouts_agree** (GRO): with the 8-column coordinates that `write_gro` produces, the columns of
`read_gro` coincide with the fields of the format string. -/
theorem layouts_agree_gro :
    slicesAgree groFmt (groSlices 8) = true ∧ allFieldsRead groFmt (groSlices 8) = true := by
  decide

/-- the CONECT writer and reader agree on where numbers start and how wide they are, numbers
are right-aligned blank-filled `t`-truncated integers, four partners per record -/
theorem layouts_agree_conect :
    conectPrefix.length = conectStart ∧ conectNum.width = conectWidth ∧ 1 ≤ conectWidth ∧
    conectNum.ty = .d ∧ conectNum.fill = ' ' ∧ conectNum.trunc = true ∧ conectNum.leftAligned = false ∧
    conectChunk ≠ 0 ∧ 10 ^ conectWidth = 100000 := by
  decide

/-! ## conect_roundtrip on the extracted layout -/

/-- **conect_roundtrip.** With the layout in the source now, every CONECT record whose serials are
≤ 99999 is read back as exactly the serials written. -/
theorem conect_roundtrip_tables (ids : List Nat) (hne : ids ≠ []) (h : ∀ i ∈ ids, i ≤ 99999) :
    conectIds pdb (conectLine pdb ids) = .ok (ids.map Int.ofNat) := by
  obtain ⟨h1, h2, h3, h4, h5, h6, h7, _, h9⟩ := layouts_agree_conect
  apply conect_roundtrip pdb ids hne h1 h2 h3 h4 h5 h6 h7
  intro i hi
  have := h i hi
  show i < 10 ^ conectWidth
  rw [h9]; omega

/-- F-C16-1 (repaired in the repository): the unrepaired writer put a blank and a 4-column
`t`-truncated number per serial; serial 10000 came out as `0000` and the reader (same columns
as now) gets serial 0 back, so the bond 9999–10000 is lost. -/
theorem conect_4wide_loses_bonds :
    (conectIds pdb (['C', 'O', 'N', 'E', 'C', 'T'] ++ ' ' :: renderField ⟨' ', .right, 4, 0, .d, true⟩ (.int 9999)
        ++ ' ' :: renderField ⟨' ', .right, 4, 0, .d, true⟩ (.int 10000))).toOption = some [9999, 0] := by
  decide +kernel

/-! ## ter_split on the extracted layout -/

/-- the TER line the writer puts after each molecule and the closing END line are end-of-molecule
lines for the reader, whatever residue data the TER line carries -/
theorem ter_end_lines_finish (excl : List (List Char)) (ignh : Bool) (serial : Nat) (a : Atom) :
    ReadsAsFinish pdb excl ignh (terLine pdb serial a) ∧ ReadsAsFinish pdb excl ignh pdb.endLine := by
  constructor
  · have : terLine pdb serial a = ['T', 'E', 'R'] ++ [' ', ' ', ' '] ++ render terFmt.tail (atomEnv serial a) := rfl
    rw [this]
    exact reads_as_finish pdb excl ignh _ _ _ (by decide) (by decide) (by decide) (by decide) (by decide)
      (by decide) (by decide)
  · have : pdb.endLine = ['E', 'N', 'D'] ++ [' ', ' ', ' '] ++ [] := rfl
    rw [this]
    exact reads_as_finish pdb excl ignh _ _ _ (by decide) (by decide) (by decide) (by decide) (by decide)
      (by decide) (by decide)

/-- an ATOM line of the writer that contains no '#' is read as whatever atom the column slicing of
the raw line yields (`fields_roundtrip` says which) -/
theorem atom_lines_read (excl : List (List Char)) (ignh : Bool) (serial : Nat) (a : Atom) (pa : PAtom)
    (hhash : (atomLine pdb serial a).all (· ≠ '#') = true)
    (hparse : parseAtomLine pdb excl ignh (atomLine pdb serial a) = .ok (.keep pa)) :
    ReadsAsAtom pdb excl ignh (atomLine pdb serial a) pa := by
  have h : atomLine pdb serial a = ['A', 'T', 'O', 'M'] ++ [' ', ' '] ++ render atomFmt.tail (atomEnv serial a) := rfl
  rw [h] at hhash hparse ⊢
  exact reads_as_atom pdb excl ignh _ _ _ pa (by decide) (by decide) (by decide) (by decide) (by decide)
    (by decide) hhash hparse

/-- the spec of the writer field a reader column covers -/
def specAt (sl : RSlice) : Spec :=
  (covers atomFmt sl.name sl.start sl.stop).getD ⟨' ', .dflt, 0, 0, .s, false⟩

/-- kind of value the PDB writer passes for each name (see `atomEnv`): 0 = int, 1 = str, 2 = fixed-point -/
def atomKind : FName → Nat
  | .atomid | .resid => 0
  | .x | .y | .z | .occupancy | .temp_factor => 2
  | _ => 1

def kindOkB (sp : Spec) (rty : RTy) (k : Nat) : Bool :=
  match sp.ty, rty, k with
  | .d, .int, 0 => true
  | .s, .str, 1 => true
  | .f, .float, 2 => decide (1 ≤ sp.prec)
  | _, _, _ => false

theorem atom_slices_ok : (mkSlices 0 pdbReaderFields).all (fun sl =>
    decide (covers atomFmt sl.name sl.start sl.stop = some (specAt sl)) && decide ((specAt sl).fill = ' ') &&
    kindOkB (specAt sl) sl.ty (atomKind sl.name)) = true := by
  decide

theorem kindOk_atomEnv (sp : Spec) (rty : RTy) (serial : Nat) (a : Atom) (n : FName)
    (h : kindOkB sp rty (atomKind n) = true) : kindOk sp rty (atomEnv serial a n) := by
  unfold kindOkB at h
  unfold kindOk
  cases n <;> cases hty : sp.ty <;> cases rty <;> simp_all [atomKind, atomEnv]

/-- **field_roundtrip, whole ATOM record.**  If every value of an atom fits its column (and strings
have no blanks at their ends), the column slicing of `PDBParser._atom` applied to the ATOM line
that `write_pdb_string` produces returns exactly the values written: serial, names, chain, residue
number, insertion code, coordinates, occupancy, temperature factor, element. -/
theorem atom_record_roundtrip (serial : Nat) (a : Atom)
    (hfit : ∀ sl ∈ mkSlices 0 pdbReaderFields, fitsField (specAt sl) (atomEnv serial a sl.name)) :
    readFields readFieldPdb (atomLine pdb serial a) (mkSlices 0 pdbReaderFields) =
      .ok [(.atomid, .int serial), (.atomname, .str (a.atomname.getD [])), (.altloc, .str (a.altloc.getD [])),
           (.resname, .str (a.resname.getD [])), (.chain, .str (a.chain.getD [])), (.resid, .int (a.resid.getD 1)),
           (.insertion_code, .str (a.icode.getD [])), (.x, .dec a.x 3), (.y, .dec a.y 3), (.z, .dec a.z 3),
           (.occupancy, .dec (a.occ.getD 100) 2), (.temp_factor, .dec (a.temp.getD 0) 2),
           (.element, .str (a.element.getD [])), (.charge, .str [])] := by
  have h := (fields_roundtrip atomFmt (atomEnv serial a) atom_fmt_allTrunc.1 (mkSlices 0 pdbReaderFields) specAt
    (by
      intro sl hsl
      have hok := List.all_eq_true.mp atom_slices_ok sl hsl
      simp only [Bool.and_eq_true, decide_eq_true_eq] at hok
      exact ⟨hok.1.1, hok.1.2, kindOk_atomEnv _ _ _ _ _ hok.2, hfit sl hsl⟩)).1
  exact h

/-- **ATOM record round trip.**  An atom whose values fit their columns, with an element, a blank or
'A' alternate location and a residue name that is not excluded, is read back from its ATOM line as
exactly the atom written (serial, names, chain, residue number, insertion code, coordinates to
0.001 Å, occupancy, temperature factor, element). -/
theorem pdb_atom_roundtrip (excl : List (List Char)) (serial : Nat) (a : Atom)
    (hfit : ∀ sl ∈ mkSlices 0 pdbReaderFields, fitsField (specAt sl) (atomEnv serial a sl.name))
    (halt : a.altloc.getD [] = [] ∨ a.altloc.getD [] = ['A'])
    (hex : a.resname.getD [] ∉ excl) (hel : a.element.getD [] ≠ []) :
    parseAtomLine pdb excl false (atomLine pdb serial a) =
      .ok (.keep { atomid := serial, atomname := a.atomname.getD [], altloc := a.altloc.getD [],
                   resname := a.resname.getD [], chain := a.chain.getD [], resid := a.resid.getD 1,
                   icode := a.icode.getD [], x := (a.x, 3), y := (a.y, 3), z := (a.z, 3),
                   occ := (a.occ.getD 100, 2), temp := (a.temp.getD 0, 2), element := a.element.getD [] }) := by
  unfold parseAtomLine
  have h := atom_record_roundtrip serial a hfit
  have hp : pdb.readerFields = pdbReaderFields := rfl
  rw [hp, h]
  rcases halt with halt | halt <;>
    simp [pdbAtomOfProps, Props.isNan, Props.str, Props.int, Props.dec, Props.get, List.find?, halt, hex, hel, bind, Except.bind,
      pure, Except.pure]

/-! ## non-vacuity: concrete instances of the hypotheses used above -/

/-- columns 22–26 of an ATOM record are the residue number, 30–38 the x coordinate -/
example : covers atomFmt .resid 22 26 = some ⟨' ', .right, 4, 0, .d, true⟩ ∧
    covers atomFmt .x 30 38 = some ⟨' ', .dflt, 8, 3, .f, true⟩ ∧
    covers atomFmt .resname 17 21 = some ⟨' ', .dflt, 3, 0, .s, true⟩ := by decide

/-- residue number 9999 fits its four columns, 10000 does not; −12.345 Å fits eight columns -/
example : (fieldBody ⟨' ', .right, 4, 0, .d, true⟩ (.int 9999)).length ≤ 4 ∧
    ¬ (fieldBody ⟨' ', .right, 4, 0, .d, true⟩ (.int 10000)).length ≤ 4 ∧
    (fieldBody ⟨' ', .dflt, 8, 3, .f, true⟩ (.fix (-12345))).length ≤ 8 := by decide +kernel

/-- an over-long residue number loses its leading digit and nothing else moves -/
example : renderField ⟨' ', .right, 4, 0, .d, true⟩ (.int 12345) = ['2', '3', '4', '5'] ∧
    renderField ⟨' ', .dflt, 4, 0, .s, true⟩ (.str ['A', 'B', 'C', 'D', 'E']) = ['A', 'B', 'C', 'D'] ∧
    renderField ⟨' ', .dflt, 8, 3, .f, true⟩ (.fix (-12345678)) = ['2', '3', '4', '5', '.', '6', '7', '8'] := by
  decide +kernel

/-- an atom whose residue number overflows and whose y coordinate overflows -/
def exAtom : Atom :=
  { key := 0, atomid := none, atomname := some ['C', 'A'], altloc := none, resname := some ['A', 'L', 'A'],
    chain := some ['B'], resid := some 10000, icode := none, x := -12345, y := 99999999, z := 0,
    occ := none, temp := none, element := none }

def exPAtom : PAtom :=
  { atomid := 10000, atomname := ['C', 'A'], altloc := [], resname := ['A', 'L', 'A'], chain := ['B'],
    resid := 0, icode := [], x := (-12345, 3), y := (9999999, 3), z := (0, 3), occ := (100, 2),
    temp := (0, 2), element := ['C'] }

/-- a concrete written ATOM line is an atom line for the reader (hypothesis `ReadsAsAtom` of
`ter_split`); the overflowing fields come back truncated, all others exactly -/
example : ReadsAsAtom pdb [] false (atomLine pdb 10000 exAtom) exPAtom := by
  intro st
  have hd : decomment (atomLine pdb 10000 exAtom) ≠ [] ∧
      classify (decomment (atomLine pdb 10000 exAtom)) = .atom ∧
      (match parseAtomLine pdb [] false (decomment (atomLine pdb 10000 exAtom)) with
        | .ok r => some r | .error _ => none) = some (.keep exPAtom) := by
    decide +kernel
  unfold pdbStep
  simp only [hd.1, if_false, hd.2.1]
  cases hp : parseAtomLine pdb [] false (decomment (atomLine pdb 10000 exAtom)) with
  | error e => rw [hp] at hd; simp at hd
  | ok r =>
    rw [hp] at hd
    simp only [Option.some.injEq] at hd
    rw [hd.2.2]
    rfl

end C16
