import VermouthProofs.C01_Functional
import VermouthProofs.C01_ModProofs
import VermouthProofs.C01_Cover
import VermouthProofs.Iso
/-!
# C01 — resolution transformation conserves atoms, residues and connectivity

Model: `VermouthModel/C01.lean` (`assemble` = `do_mapping` for block mappings, given the matches in
the order the real matcher yields them; `C12.Mol.merge` = `merge_molecule`).  Everything below is
for all molecules, all lists of placements, all blocks: no bound on sizes, no hypothesis on key
numbering.  `order ps` is the processing order; `Off` are the offsets `merge_molecule` uses
(number of particles so far, resid and charge group of the last particle); `nodesSpec`,
`logSpec`, `intersSpec`, `edgesSpec`, `spawnedSpec` are the closed forms: concatenation, in
processing order, of what each placement contributes at its offsets.

The matcher is not part of these theorems (it is a reference, `refMatches` = `Iso.allIsosP`,
see `placements_exact`).  Modification mappings: last section of this file (step theorems) and
`VermouthProps/C01_Events.lean` (closed forms); attributes of the particles for any
keep / must / stash tuples: `VermouthProps/C01_Attr.lean`, `C01_ModAttr.lean`, `C01_AttrLink.lean`.
-/
namespace C01
open C12

def Result.hasEdge (r : Result) (x y : Int) : Bool := r.edges.contains (x, y) || r.edges.contains (y, x)

/-- the observable core of a particle: key, name, resid, charge group -/
abbrev Core := Int × Option String × Option Int × Option Int
def Bead.core (b : Bead) : Core := (b.key, b.name, b.resid, b.cg)
/-- the same projection of a node of the `merge_molecule` table (the chain attribute of C12's nodes is
not part of the particle model of C01) -/
def coreOf (n : Int × Attrs) : Core := (n.1, n.2.name, n.2.resid, n.2.cg)

/-! ## ordering of the matches (do_mapping.py:569-585) -/

/-- every match is placed exactly once -/
theorem order_perm (ps : List Placement) : (order ps).Perm ps := order_perm' ps

/-- placements are processed by increasing lowest atom key -/
theorem order_sorted (ps : List Placement) : (order ps).Pairwise (fun a b => minKey a ≤ minKey b) :=
  order_sorted' ps

/-- matches with the same lowest atom key are processed in reversed order of discovery -/
theorem order_ties (ps : List Placement) (k : Int) :
    (order ps).filter (fun p => minKey p == k) = (ps.filter (fun p => minKey p == k)).reverse :=
  order_ties' ps k

/-! ## one copy of the target block per placement, in order -/

theorem beadOf_key (m : MolIn) (st : St) (n : Int × Attrs) : (beadOf m st n).key = n.1 := by
  unfold beadOf
  split
  · rfl
  · split <;> rfl

/-- a particle that has a resid (every particle made by `merge_molecule` has) keeps key, name,
resid and charge group through the attribute loop -/
theorem beadOf_core (m : MolIn) (st : St) (n : Int × Attrs) (hr : n.2.resid.isSome = true) :
    (beadOf m st n).core = coreOf n := by
  obtain ⟨k, a⟩ := n
  obtain ⟨nm, rs, cg, ch⟩ := a
  cases rs with
  | none => cases hr
  | some r =>
    unfold beadOf Bead.core coreOf
    split
    · rfl
    · split <;> rfl

theorem mem_enumFrom (l : List (Int × Attrs)) (s : Int) (x : Int × Attrs) (hx : x ∈ enumFrom s l) :
    ∃ p ∈ l, x.2 = p.2 := by
  induction l generalizing s with
  | nil => cases hx
  | cons y r ih =>
    obtain ⟨k, a⟩ := y
    simp only [enumFrom, List.mem_cons] at hx
    rcases hx with rfl | hx
    · exact ⟨(k, a), List.mem_cons_self, rfl⟩
    · obtain ⟨p, hp, h⟩ := ih _ hx
      exact ⟨p, List.mem_cons_of_mem _ hp, h⟩

theorem nodesSpec_resid_some (o : Off) (ps : List Placement) :
    ∀ n ∈ nodesSpec o ps, n.2.resid.isSome = true := by
  induction ps generalizing o with
  | nil => intro n hn; cases hn
  | cons p ps ih =>
    intro n hn
    simp only [nodesSpec, List.mem_append] at hn
    rcases hn with hn | hn
    · unfold shiftNodes at hn
      obtain ⟨q, hq, hnq⟩ := mem_enumFrom _ _ _ hn
      obtain ⟨q0, _, rfl⟩ := List.mem_map.1 hq
      rw [hnq]; rfl
    · exact ih _ n hn

/-- The output particle table (key, name, resid, charge group) is the concatenation, in
processing order, of each placement's block nodes under the key shift and offsets of
`merge_molecule`: exactly one copy per placement, nothing else. -/
theorem assemble_nodes (m : MolIn) (ps : List Placement) (r : Result) (h : assemble m ps = .ok r) :
    r.beads.map Bead.core = (nodesSpec Off.zero (order ps)).map coreOf := by
  obtain ⟨hok, rfl⟩ := assemble_ok m ps r h
  unfold finish
  simp only [List.map_map]
  rw [(withInterEdges_spec m _ hok).1, (placeAll_spec _ hok).1]
  apply List.map_congr_left
  intro n hn
  exact beadOf_core m _ n (nodesSpec_resid_some _ _ n hn)

/-- reading of `shiftNodes`: the `j`-th node of the block gets key `n + 1 + j`, its resid is the
block-local resid (default 1) plus `roff`, its charge group the block-local one plus `coff` -/
theorem shiftNodes_getElem (o : Off) (b : Mol) (j : Nat) :
    (shiftNodes o b)[j]? =
      (b.nodes[j]?).map (fun n => ((o.n : Int) + 1 + (j : Int),
        { n.2 with resid := some (n.2.resid.getD 1 + o.roff), cg := some (n.2.cg.getD 1 + o.coff) })) := by
  unfold shiftNodes
  generalize ((o.n : Int) + 1) = s
  induction b.nodes generalizing s j with
  | nil => simp [enumFrom]
  | cons x l ih =>
    obtain ⟨k, a⟩ := x
    cases j with
    | zero => simp [enumFrom, Attrs.shift]
    | succ j =>
      simp only [List.map_cons, enumFrom, List.getElem?_cons_succ, ih j (s + 1)]
      cases l[j]? with
      | none => simp
      | some n =>
        simp only [Option.map_some, Int.natCast_add, Int.natCast_one, Option.some.injEq, Prod.mk.injEq, and_true]
        omega

/-- `assemble_resid`: the particles of the placement that follows the prefix `pre` are its block
nodes numbered from the number of particles so far, with resid = block-local resid + resid of
the last particle of the prefix (0 when there is none); same for the charge group. -/
theorem assemble_resid (m : MolIn) (ps : List Placement) (r : Result) (h : assemble m ps = .ok r)
    (pre post : List Placement) (p : Placement) (hsplit : order ps = pre ++ p :: post) :
    let o := Off.zero.after pre
    r.beads.map Bead.core =
      (nodesSpec Off.zero pre ++ shiftNodes o p.block ++ nodesSpec (o.next p.block) post).map coreOf
    ∧ o.n = (nodesSpec Off.zero pre).length
    ∧ o.roff = (match lastA (nodesSpec Off.zero pre) with | none => 0 | some a => a.resid.getD 1)
    ∧ o.coff = (match lastA (nodesSpec Off.zero pre) with | none => 0 | some a => a.cg.getD 1) := by
  refine ⟨?_, ?_, ?_, ?_⟩
  · rw [assemble_nodes m ps r h, hsplit, nodesSpec_append, nodesSpec, List.append_assoc]
  · simpa [Off.zero] using after_n Off.zero pre
  · exact (after_offsets Off.zero pre).1
  · exact (after_offsets Off.zero pre).2

theorem lastA_mem (l : List (Int × Attrs)) (a : Attrs) (h : lastA l = some a) : ∃ p ∈ l, p.2 = a := by
  induction l with
  | nil => cases h
  | cons x r ih =>
    cases r with
    | nil => simp only [lastA, Option.some.injEq] at h; exact ⟨x, List.mem_cons_self, h⟩
    | cons y r' =>
      obtain ⟨q, hq, hqa⟩ := ih h
      exact ⟨q, List.mem_cons_of_mem _ hq, hqa⟩

/-- every block is a single residue: non-empty, all block-local resids 1 (or absent) -/
def SingleResidue (p : Placement) : Prop :=
  p.block.nodes ≠ [] ∧ ∀ n ∈ p.block.nodes, n.2.resid.getD 1 = 1

theorem after_roff_single (o : Off) (pre : List Placement) (hs : ∀ q ∈ pre, SingleResidue q) :
    (o.after pre).roff = o.roff + (pre.length : Int) := by
  induction pre generalizing o with
  | nil => simp [Off.after]
  | cons q pre ih =>
    have hq := hs q List.mem_cons_self
    simp only [Off.after]
    rw [ih _ (fun x hx => hs x (List.mem_cons_of_mem _ hx))]
    unfold Off.next
    cases hl : lastA q.block.nodes with
    | none => exact absurd ((lastA_none_iff _).1 hl) hq.1
    | some a =>
      obtain ⟨n, hn, rfl⟩ := lastA_mem _ _ hl
      simp only [hq.2 n hn, List.length_cons, Int.natCast_add, Int.natCast_one]
      omega

/-- `resid_consecutive`: when every block is a single residue, the particles of the `i`-th
placement (counting from 1) all have resid `i`: residues are numbered 1, 2, …, n in placement order. -/
theorem resid_consecutive (m : MolIn) (ps : List Placement) (r : Result) (h : assemble m ps = .ok r)
    (hs : ∀ q ∈ order ps, SingleResidue q)
    (pre post : List Placement) (p : Placement) (hsplit : order ps = pre ++ p :: post) :
    r.beads.map Bead.core = (nodesSpec Off.zero pre ++ shiftNodes (Off.zero.after pre) p.block
        ++ nodesSpec ((Off.zero.after pre).next p.block) post).map coreOf
    ∧ ∀ n ∈ shiftNodes (Off.zero.after pre) p.block, n.2.resid = some ((pre.length : Int) + 1) := by
  refine ⟨(assemble_resid m ps r h pre post p hsplit).1, ?_⟩
  intro n hn
  have hpre : ∀ q ∈ pre, SingleResidue q := fun q hq => hs q (by rw [hsplit]; exact List.mem_append_left _ hq)
  have hp : SingleResidue p := hs p (by rw [hsplit]; simp)
  have hro := after_roff_single Off.zero pre hpre
  unfold shiftNodes at hn
  obtain ⟨q, hq, hnq⟩ := mem_enumFrom _ _ _ hn
  obtain ⟨q0, hq0, rfl⟩ := List.mem_map.1 hq
  rw [hnq]
  simp only [Attrs.shift, hp.2 q0 hq0]
  rw [hro]
  simp only [Off.zero, Option.some.injEq]
  omega

/-! ## intra-block interactions and bonds are copied -/

/-- The interaction table is the concatenation, in processing order, of every placement's block
interactions with their atoms renamed by the key shift (`renameInters`: the atom at position `i`
of the block becomes `n + 1 + i`): one copy per placement, nothing lost, nothing added. -/
theorem assemble_block_copy_interactions (m : MolIn) (ps : List Placement) (r : Result)
    (h : assemble m ps = .ok r) : r.inters = intersSpec Off.zero (order ps) := by
  obtain ⟨hok, rfl⟩ := assemble_ok m ps r h
  unfold finish
  simp only
  rw [(withInterEdges_spec m _ hok).2.1, (placeAll_spec _ hok).2.2.2.2.2.1]

theorem result_hasEdge (m : MolIn) (ps : List Placement) (r : Result) (h : assemble m ps = .ok r) (x y : Int) :
    r.hasEdge x y = true ↔
      ((x, y) ∈ edgesSpec Off.zero (order ps) ∨ (y, x) ∈ edgesSpec Off.zero (order ps))
      ∨ (x, y) ∈ interEdges m (placeAll (order ps)) ∨ (y, x) ∈ interEdges m (placeAll (order ps)) := by
  obtain ⟨hok, rfl⟩ := assemble_ok m ps r h
  have := (withInterEdges_spec m _ hok).2.2 x y
  rw [(placeAll_spec _ hok).2.2.2.2.2.2 x y] at this
  exact this

/-- `assemble_block_copy`: every bond of the block (self loops excepted) is present in the copy made
for a placement, between the particles its end points were renamed to. -/
theorem assemble_block_copy (m : MolIn) (ps : List Placement) (r : Result) (h : assemble m ps = .ok r)
    (pre post : List Placement) (p : Placement) (hsplit : order ps = pre ++ p :: post)
    (u v : Int) (huv : (u, v) ∈ p.block.edges) :
    ∃ u' v', corrOf p.block.keys ((Off.zero.after pre).n : Int) u = some u'
      ∧ corrOf p.block.keys ((Off.zero.after pre).n : Int) v = some v'
      ∧ (u' ≠ v' → r.hasEdge u' v' = true) := by
  obtain ⟨hok, _⟩ := assemble_ok m ps r h
  have hok' : ((pre ++ [p]).foldl applyBlock {}).err = none := by
    have : order ps = (pre ++ [p]) ++ post := by rw [hsplit]; simp
    unfold placeAll at hok
    rw [this] at hok
    exact foldl_append_err _ _ _ hok
  -- the renaming of the block edges succeeded when `p` was placed
  rw [List.foldl_append] at hok'
  have hpre : (pre.foldl applyBlock {}).err = none := by
    cases he : (pre.foldl applyBlock {}).err with
    | none => rfl
    | some e => rw [List.foldl_cons, List.foldl_nil, applyBlock_err _ _ e he, he] at hok'; cases hok'
  obtain ⟨_, hinv, _⟩ := fold_spec pre {} Off.zero inv_empty rfl hpre
  have hstep := applyBlock_spec _ p _ hinv hpre (by simpa using hok')
  have hsome := hstep.2.2.2.2.2.2.2.2.2.2.2
  cases hre : renameEdges p.block.keys ((Off.zero.after pre).n : Int) p.block.edges with
  | none => rw [hre] at hsome; cases hsome
  | some re =>
    obtain ⟨u', v', h1, h2, h3⟩ := renameEdges_complete _ _ _ _ hre (u, v) huv
    refine ⟨u', v', h1, h2, ?_⟩
    intro hne
    rw [result_hasEdge m ps r h]
    left; left
    rw [mem_edgesSpec]
    exact ⟨pre, p, post, hsplit, by simp [stepEdges, hre, h3 hne]⟩

/-! ## the stashed residue number -/

/-- `stash_old_resid`: `_old_resid` of a particle is the input resid of its reference atom when the
mapping names one, otherwise the input resid of its first constituent atom; the renumbered resid
is never touched by it. -/
theorem stash_old_resid (m : MolIn) (st : St) (n : Int × Attrs) (ws : List (Int × Rat))
    (hws : st.outToMol.lookup n.1 = some ws) :
    (n.2.resid.isSome = true → (beadOf m st n).resid = n.2.resid)
    ∧ (beadOf m st n).atoms = ws.map Prod.fst ∧ (beadOf m st n).weights = ws
    ∧ (∀ a, (st.refs.lookup n.1).bind m.atom? = some a → (beadOf m st n).oldResid = some a.resid)
    ∧ ((st.refs.lookup n.1).bind m.atom? = none →
        (beadOf m st n).oldResid = ((ws.map Prod.fst).filterMap m.atom?).head?.map (·.resid)) := by
  obtain ⟨k, nm, rs, cg⟩ := n
  cases hr : (st.refs.lookup k).bind m.atom? with
  | none =>
    cases rs with
    | none => simp [beadOf, hws, hr]
    | some r => simp [beadOf, hws, hr]
  | some a =>
    cases rs with
    | none => simp [beadOf, hws, hr]
    | some r => simp [beadOf, hws, hr]

/-! ## weights -/

/-- `weights_exact`: under `Functional` (no two placements assign different weights to the same
atom/particle pair — automatic when the matches are dictionaries and blocks have distinct keys),
the weight table of the particle with key `k` is exactly `{a ↦ w | (a, k, w) ∈ logSpec}`:
`mem_logSpec`/`mem_stepEntries` unfold membership into "some placement maps `a ↦ k` with `w`, or
`k` is a particle of that placement nothing maps to, `a` is one of its atoms and `w = 0`". -/
theorem weights_exact (m : MolIn) (ps : List Placement) (r : Result) (h : assemble m ps = .ok r)
    (hf : Functional (logSpec Off.zero (order ps))) (b : Bead) (hb : b ∈ r.beads) (a : Int) (w : Rat) :
    b.weights.lookup a = some w ↔ (a, b.key, w) ∈ logSpec Off.zero (order ps) := by
  obtain ⟨hok, rfl⟩ := assemble_ok m ps r h
  unfold finish at hb
  simp only [List.mem_map] at hb
  obtain ⟨n, _, rfl⟩ := hb
  have hkey : (beadOf m (placeAll (order ps)) n).key = n.1 := beadOf_key m _ n
  rw [hkey, ← get2_addEntriesRev_iff _ hf a n.1 w, ← (placeAll_spec _ hok).2.2.1]
  unfold get2
  cases hl : (placeAll (order ps)).outToMol.lookup n.1 with
  | none =>
    unfold beadOf; simp [hl]
  | some ws =>
    rw [(stash_old_resid m (placeAll (order ps)) n ws hl).2.2.1]; rfl

/-- `weights_exact` without the `Functional` hypothesis: it follows from the matches and weight
tables being dictionaries (`PlacementWF`: distinct atoms per match, distinct particles per
weight table). -/
theorem weights_exact_wf (m : MolIn) (ps : List Placement) (r : Result) (h : assemble m ps = .ok r)
    (hwf : ∀ p ∈ ps, PlacementWF p) (b : Bead) (hb : b ∈ r.beads) (a : Int) (w : Rat) :
    b.weights.lookup a = some w ↔ (a, b.key, w) ∈ logSpec Off.zero (order ps) :=
  weights_exact m ps r h (functional_of_wf ps (assemble_ok m ps r h).1 hwf) b hb a w

/-- … and which pairs are in `logSpec`: the contribution of one placement at its offsets. -/
theorem weights_source (ps : List Placement) (a k : Int) (w : Rat)
    (hok : (placeAll (order ps)).err = none) :
    (a, k, w) ∈ logSpec Off.zero (order ps) ↔
      ∃ pre p post, order ps = pre ++ p :: post ∧
        ((∃ ws blk, (a, ws) ∈ p.molToBlock ∧ (blk, w) ∈ ws
            ∧ corrOf p.block.keys ((Off.zero.after pre).n : Int) blk = some k)
         ∨ (k ∈ stepSpawned (Off.zero.after pre) p ∧ a ∈ p.atoms ∧ w = 0)) := by
  rw [mem_logSpec]
  constructor
  · rintro ⟨pre, p, post, hsplit, he⟩
    refine ⟨pre, p, post, hsplit, ?_⟩
    have hs := weightEntries_isSome ps pre p post hsplit hok
    exact (mem_stepEntries _ p a k w hs).1 he
  · rintro ⟨pre, p, post, hsplit, he⟩
    refine ⟨pre, p, post, hsplit, ?_⟩
    have hs := weightEntries_isSome ps pre p post hsplit hok
    exact (mem_stepEntries _ p a k w hs).2 he

/-! ## no atom vanishes silently; overlapping placements are reported -/

/-- `no_silent_loss`: every non-hydrogen atom of the input either has an entry in the
correspondence table (it contributes to a particle `k` with the weight `w` its placement assigns;
by `weights_exact` that entry is in the particle's weight table) or the unmapped-atom warning
is raised. -/
theorem no_silent_loss (m : MolIn) (ps : List Placement) (r : Result) (h : assemble m ps = .ok r)
    (a : Int) (ha : a ∈ m.keys) (hH : isHyd m a = false) :
    (∃ k w, (a, k, w) ∈ logSpec Off.zero (order ps)) ∨ r.warn.unmapped = true := by
  obtain ⟨hok, rfl⟩ := assemble_ok m ps r h
  by_cases hd : a ∈ dom (placeAll (order ps)).molToOut
  · left
    rw [(placeAll_spec _ hok).2.1, mem_dom_addEntries] at hd
    rcases hd with hd | ⟨e, he, rfl⟩
    · cases hd
    · exact ⟨e.2.1, e.2.2, he⟩
  · right
    unfold finish
    simp only [List.any_eq_true]
    refine ⟨a, ?_, by simp [hH]⟩
    unfold uncovered
    simp only [List.mem_filter]
    exact ⟨ha, by simpa using hd⟩

/-- … and a hydrogen that contributes to nothing is at least logged at debug level -/
theorem hydrogens_logged (m : MolIn) (ps : List Placement) (r : Result) (h : assemble m ps = .ok r)
    (a : Int) (ha : a ∈ m.keys) (hH : isHyd m a = true) :
    (∃ k w, (a, k, w) ∈ logSpec Off.zero (order ps)) ∨ r.warn.hydrogens = true := by
  obtain ⟨hok, rfl⟩ := assemble_ok m ps r h
  by_cases hd : a ∈ dom (placeAll (order ps)).molToOut
  · left
    rw [(placeAll_spec _ hok).2.1, mem_dom_addEntries] at hd
    rcases hd with hd | ⟨e, he, rfl⟩
    · cases hd
    · exact ⟨e.2.1, e.2.2, he⟩
  · right
    unfold finish
    simp only [List.any_eq_true]
    refine ⟨a, ?_, hH⟩
    unfold uncovered
    simp only [List.mem_filter]
    exact ⟨ha, by simpa using hd⟩

/-- `overlap_warned`: two placements that share an atom raise the inconsistent-data warning
(whether or not the shared atom contributes to a particle: the atoms of the placements applied
so far are tracked explicitly since the fix of F-C01-4). -/
theorem overlap_warned (m : MolIn) (ps : List Placement) (r : Result) (h : assemble m ps = .ok r)
    (pre mid post : List Placement) (p q : Placement)
    (hsplit : order ps = pre ++ p :: (mid ++ q :: post))
    (a : Int) (hp : a ∈ p.atoms) (hq : a ∈ q.atoms) :
    r.warn.overlap = true := by
  obtain ⟨hok, rfl⟩ := assemble_ok m ps r h
  have hsplit2 : order ps = (pre ++ p :: mid) ++ q :: post := by rw [hsplit]; simp
  obtain ⟨hpre, hinv, hstep⟩ := step_of_split _ _ post q hsplit2 hok
  have hplaced : ((pre ++ p :: mid).foldl applyBlock {}).placed = (pre ++ p :: mid).map (·.atoms) := by
    have := (fold_spec _ {} Off.zero inv_empty rfl hpre).2.2.2.2.2.1
    simpa using this
  have hov : a ∈ (applyBlock ((pre ++ p :: mid).foldl applyBlock {}) q).overlap := by
    rw [(applyBlock_spec _ q _ hinv hpre hstep).2.2.2.2.1, mem_unionInt]
    right
    simp only [List.mem_filter, Bool.or_eq_true, List.any_eq_true, List.contains_eq_mem, decide_eq_true_eq]
    refine ⟨hq, Or.inr ⟨p.atoms, ?_, hp⟩⟩
    rw [hplaced]
    simp
  have hfin : a ∈ (placeAll (order ps)).overlap := by
    unfold placeAll
    rw [hsplit2, List.foldl_append, List.foldl_cons]
    exact foldl_overlap_mono post _ a hov
  unfold finish
  simp only [Bool.not_eq_true', List.isEmpty_eq_false_iff]
  exact List.ne_nil_of_mem hfin

/-! ## edges between particles of different placements -/

/-- atom `a` is a constituent of particle `x`: some placement assigned `a ↦ x` (with any weight,
0 included); by `weights_exact` these are the keys of the particle's weight table / `graph` -/
def Constituent (qs : List Placement) (a x : Int) : Prop := ∃ w, (a, x, w) ∈ logSpec Off.zero qs

theorem stepEdges_range (o : Off) (p : Placement) (e : Int × Int) (he : e ∈ stepEdges o p) :
    e.1 ∈ (shiftNodes o p.block).map Prod.fst ∧ e.2 ∈ (shiftNodes o p.block).map Prod.fst := by
  unfold stepEdges at he
  cases hre : renameEdges p.block.keys (o.n : Int) p.block.edges with
  | none => rw [hre] at he; cases he
  | some re =>
    rw [hre] at he
    obtain ⟨e0, _, h1, h2, _⟩ := renameEdges_mem _ _ _ _ hre e he
    have hblen : p.block.keys.length = p.block.nodes.length := by simp [Mol.keys]
    obtain ⟨i, hi, hx, _⟩ := corrOf_range _ _ _ _ h1
    obtain ⟨j, hj, hy, _⟩ := corrOf_range _ _ _ _ h2
    rw [mem_shiftNodes_keys, mem_shiftNodes_keys]
    exact ⟨⟨i, by omega, hx⟩, ⟨j, by omega, hy⟩⟩

/-- a bond copied from a block joins two particles of one placement -/
theorem edgesSpec_same_placement (qs : List Placement) (x y : Int) (h : (x, y) ∈ edgesSpec Off.zero qs) :
    ∃ i, InPlacement qs i x ∧ InPlacement qs i y := by
  obtain ⟨pre, p, post, hsplit, he⟩ := (mem_edgesSpec _ _ _).1 h
  obtain ⟨h1, h2⟩ := stepEdges_range _ p _ he
  exact ⟨pre.length, ⟨pre, p, post, hsplit, rfl, h1⟩, ⟨pre, p, post, hsplit, rfl, h2⟩⟩

/-- `inter_edge_iff`: two particles of different placements, neither of them spawned, are bonded
exactly when some constituent atom of the one is bonded in the input to some constituent atom
of the other.  (No hypothesis on overlap is needed in this form: constituents are read from the
weight tables.) -/
theorem inter_edge_iff (m : MolIn) (ps : List Placement) (r : Result) (h : assemble m ps = .ok r)
    (i j : Nat) (hij : i ≠ j) (x y : Int)
    (hx : InPlacement (order ps) i x) (hy : InPlacement (order ps) j y)
    (hsx : x ∉ spawnedSpec Off.zero (order ps)) (hsy : y ∉ spawnedSpec Off.zero (order ps)) :
    r.hasEdge x y = true ↔
      ∃ a b, Constituent (order ps) a x ∧ Constituent (order ps) b y ∧ m.adj a b = true := by
  obtain ⟨hok, _⟩ := assemble_ok m ps r h
  have hplaced : (placeAll (order ps)).placed = (order ps).map (·.atoms) := (placeAll_spec _ hok).2.2.2.2.1
  rw [result_hasEdge m ps r h]
  constructor
  · rintro ((he | he) | he | he)
    · obtain ⟨k, h1, h2⟩ := edgesSpec_same_placement _ _ _ he
      exact absurd ((inPlacement_unique _ _ _ _ hx h1).trans (inPlacement_unique _ _ _ _ h2 hy)) hij
    · obtain ⟨k, h1, h2⟩ := edgesSpec_same_placement _ _ _ he
      exact absurd ((inPlacement_unique _ _ _ _ hx h2).trans (inPlacement_unique _ _ _ _ h1 hy)) hij
    · obtain ⟨ab, hab, hu, hv, _⟩ := (mem_interEdges m _ x y).1 he
      obtain ⟨kk, _, _, _, hadj⟩ := (mem_crossBonds m _ ab.1 ab.2).1 hab
      exact ⟨ab.1, ab.2, ((mem_beadsOf_placeAll _ hok _ _).1 hu).1, ((mem_beadsOf_placeAll _ hok _ _).1 hv).1, hadj⟩
    · obtain ⟨ab, hab, hu, hv, _⟩ := (mem_interEdges m _ y x).1 he
      obtain ⟨kk, _, _, _, hadj⟩ := (mem_crossBonds m _ ab.1 ab.2).1 hab
      refine ⟨ab.2, ab.1, ((mem_beadsOf_placeAll _ hok _ _).1 hv).1, ((mem_beadsOf_placeAll _ hok _ _).1 hu).1, ?_⟩
      rw [adj_comm]; exact hadj
  · rintro ⟨a, b, ⟨w1, hc1⟩, ⟨w2, hc2⟩, hadj⟩
    obtain ⟨pre1, p1, post1, hs1, he1⟩ := (mem_logSpec _ _ _).1 hc1
    obtain ⟨pre2, p2, post2, hs2, he2⟩ := (mem_logSpec _ _ _).1 hc2
    obtain ⟨hr1, ha1⟩ := stepEntries_bead_mem _ p1 _ he1
    obtain ⟨hr2, ha2⟩ := stepEntries_bead_mem _ p2 _ he2
    have hi : pre1.length = i := inPlacement_unique _ _ _ x ⟨pre1, p1, post1, hs1, rfl, hr1⟩ hx
    have hj : pre2.length = j := inPlacement_unique _ _ _ y ⟨pre2, p2, post2, hs2, rfl, hr2⟩ hy
    have hne : x ≠ y := by
      rintro rfl
      exact hij (inPlacement_unique _ _ _ x hx hy)
    have hbx : x ∈ beadsOf (placeAll (order ps)) a := (mem_beadsOf_placeAll _ hok _ _).2 ⟨⟨w1, hc1⟩, hsx⟩
    have hby : y ∈ beadsOf (placeAll (order ps)) b := (mem_beadsOf_placeAll _ hok _ _).2 ⟨⟨w2, hc2⟩, hsy⟩
    right
    rcases Nat.lt_or_gt_of_ne (show pre1.length ≠ pre2.length by omega) with hlt | hgt
    · obtain ⟨mid, rfl, rfl⟩ := split_lt _ pre1 post1 pre2 post2 p1 p2 hs1 hs2 hlt
      left
      rw [mem_interEdges]
      refine ⟨(a, b), ?_, hbx, hby, hne⟩
      rw [mem_crossBonds, hplaced, hs1]
      refine ⟨(p1.atoms, p2.atoms), ?_, ha1, ha2, hadj⟩
      simp only [List.map_append, List.map_cons]
      exact mem_pairsOf_split _ _ _ _ _
    · obtain ⟨mid, rfl, rfl⟩ := split_lt _ pre2 post2 pre1 post1 p2 p1 hs2 hs1 hgt
      right
      rw [mem_interEdges]
      refine ⟨(b, a), ?_, hby, hbx, hne.symm⟩
      rw [mem_crossBonds, hplaced, hs2]
      refine ⟨(p2.atoms, p1.atoms), ?_, ha2, ha1, by rw [adj_comm]; exact hadj⟩
      simp only [List.map_append, List.map_cons]
      exact mem_pairsOf_split _ _ _ _ _

/-- a particle built from no atom gets no bond beyond those of its own block -/
theorem spawned_only_block_bonds (m : MolIn) (ps : List Placement) (r : Result) (h : assemble m ps = .ok r)
    (x y : Int) (hsx : x ∈ spawnedSpec Off.zero (order ps)) (he : r.hasEdge x y = true) :
    (x, y) ∈ edgesSpec Off.zero (order ps) ∨ (y, x) ∈ edgesSpec Off.zero (order ps) := by
  obtain ⟨hok, _⟩ := assemble_ok m ps r h
  rcases (result_hasEdge m ps r h x y).1 he with he | he | he
  · exact he
  · obtain ⟨ab, _, hu, _, _⟩ := (mem_interEdges m _ x y).1 he
    exact absurd hsx ((mem_beadsOf_placeAll _ hok _ _).1 hu).2
  · obtain ⟨ab, _, _, hv, _⟩ := (mem_interEdges m _ y x).1 he
    exact absurd hsx ((mem_beadsOf_placeAll _ hok _ _).1 hv).2

/-- within one placement that shares no atom with another, the bonds are those of the block:
a bond between two particles is a copied block bond or comes from two placements that both
contain a constituent of each end -/
theorem intra_edge_source (m : MolIn) (ps : List Placement) (r : Result) (h : assemble m ps = .ok r)
    (x y : Int) (he : r.hasEdge x y = true) :
    ((x, y) ∈ edgesSpec Off.zero (order ps) ∨ (y, x) ∈ edgesSpec Off.zero (order ps))
    ∨ ∃ a b, Constituent (order ps) a x ∧ Constituent (order ps) b y ∧ m.adj a b = true
        ∧ ∃ kk ∈ pairsOf ((order ps).map (·.atoms)), (a ∈ kk.1 ∧ b ∈ kk.2) ∨ (b ∈ kk.1 ∧ a ∈ kk.2) := by
  obtain ⟨hok, _⟩ := assemble_ok m ps r h
  have hplaced : (placeAll (order ps)).placed = (order ps).map (·.atoms) := (placeAll_spec _ hok).2.2.2.2.1
  rcases (result_hasEdge m ps r h x y).1 he with he | he | he
  · exact Or.inl he
  · right
    obtain ⟨ab, hab, hu, hv, _⟩ := (mem_interEdges m _ x y).1 he
    obtain ⟨kk, hkk, h1, h2, hadj⟩ := (mem_crossBonds m _ ab.1 ab.2).1 hab
    rw [hplaced] at hkk
    exact ⟨ab.1, ab.2, ((mem_beadsOf_placeAll _ hok _ _).1 hu).1, ((mem_beadsOf_placeAll _ hok _ _).1 hv).1,
      hadj, kk, hkk, Or.inl ⟨h1, h2⟩⟩
  · right
    obtain ⟨ab, hab, hu, hv, _⟩ := (mem_interEdges m _ y x).1 he
    obtain ⟨kk, hkk, h1, h2, hadj⟩ := (mem_crossBonds m _ ab.1 ab.2).1 hab
    rw [hplaced] at hkk
    exact ⟨ab.2, ab.1, ((mem_beadsOf_placeAll _ hok _ _).1 hv).1, ((mem_beadsOf_placeAll _ hok _ _).1 hu).1,
      by rw [adj_comm]; exact hadj, kk, hkk, Or.inr ⟨h1, h2⟩⟩

/-! ## the matcher: reference answer -/

/-- `placements_exact`: the reference matcher returns exactly the maps of the nodes of `block_from`
into the molecule that are injective, satisfy `_old_atomname_match` on every node (and map a node
with a self-loop to a node with a self-loop and vice versa: `nodePred`), and map bonds to
bonds and non-bonds to non-bonds (induced) with agreeing "both ends in the same residue" flag
(`edge_matcher`); each once.  The code's matcher (networkx VF2) is compared with it as a set. -/
theorem placements_exact (mol : List MNode) (medges : List (Int × Int)) (pat : List MNode)
    (pedges : List (Int × Int)) (hp : (pat.map (·.key)).Nodup) (hm : (mol.map (·.key)).Nodup) :
    (∀ f, f ∈ refMatches mol medges pat pedges ↔
        f.map Prod.fst = pat.map (·.key)
        ∧ Iso.IsIndIsoP (toGraph mol medges) (toGraph pat pedges) (nodePred mol medges pat pedges) (Iso.Map.toFun f))
    ∧ (refMatches mol medges pat pedges).Nodup := by
  have hk : (toGraph pat pedges).keys = pat.map (·.key) := by simp [toGraph, Iso.Graph.keys]
  have hk2 : (toGraph mol medges).keys = mol.map (·.key) := by simp [toGraph, Iso.Graph.keys]
  refine ⟨?_, Iso.allIsosP_nodup _ _ _ (by rw [hk2]; exact hm)⟩
  intro f
  unfold refMatches
  rw [Iso.mem_allIsosP_iff _ _ _ (by rw [hk]; exact hp), hk]

/-- `edge_matcher` on a self-loop compares a resid with itself: it never objects (so the `return
False` under `if neighbor == G1_node` in `semantic_feasibility` is unreachable for resids that are
equal to themselves; a loop is matched by a loop, `nodePred`) -/
theorem self_loop_same_residue (ns : List MNode) (u : Int) (h : (ns.find? (fun n => n.key == u)).isSome = true) :
    sameRes ns u u = 1 := by
  unfold sameRes
  cases hf : ns.find? (fun n => n.key == u) with
  | none => rw [hf] at h; cases h
  | some a => simp

/-! ## non-vacuity: a concrete instance (sparse keys, a spawned particle, a half weight, an overlap) -/

def exBlock : Mol :=
  { nodes := [(0, { name := some "B1", resid := some 1 }), (1, { name := some "D" })],
    edges := [(0, 1)], inters := [("bonds", { atoms := [0, 1], params := "1 0.3", version := some 0 })] }

def exMol : MolIn :=
  { atoms := [⟨20, 6, "X", "A", false⟩, ⟨21, 6, "X", "A", false⟩, ⟨10, 5, "X", "A", false⟩,
              ⟨11, 5, "X", "A", false⟩, ⟨30, 7, "U", "A", false⟩, ⟨31, 7, "U", "A", true⟩],
    edges := [(10, 11), (11, 20), (20, 21), (21, 30), (30, 31)] }

def exP1 : Placement := { molToBlock := [(10, [(0, 1)]), (11, [(0, mkRat 1 2)])], block := exBlock, refs := [] }
def exP2 : Placement := { molToBlock := [(20, [(0, 1)]), (21, [(0, 1)])], block := exBlock, refs := [(1, 21)] }
/-- a third match that shares atom 21 with `exP2` -/
def exP3 : Placement := { molToBlock := [(21, [(0, 1)])], block := exBlock, refs := [] }

instance (p : Placement) : Decidable (SingleResidue p) := by unfold SingleResidue; infer_instance
instance (es : List (Int × Int × Rat)) : Decidable (Functional es) := by unfold Functional; infer_instance
instance (p : Placement) : Decidable (PlacementWF p) := by unfold PlacementWF; infer_instance

-- found in the order [exP2, exP1]; processed in the order [exP1, exP2] (lowest atom key 10 before 20)
example : order [exP2, exP1] = [exP1, exP2] := by decide
example : (match assemble exMol [exP2, exP1] with | .ok _ => true | .error _ => false) = true := by decide
example : Functional (logSpec Off.zero (order [exP2, exP1])) := by decide
example : ∀ p ∈ [exP2, exP1], PlacementWF p := by decide
example : ∀ q ∈ order [exP2, exP1], SingleResidue q := by decide
-- particles 1,2 belong to the first placement, 3,4 to the second; 2 and 4 are spawned
example : InPlacement (order [exP2, exP1]) 0 1 := ⟨[], exP1, [exP2], by decide, rfl, by decide⟩
example : InPlacement (order [exP2, exP1]) 1 3 := ⟨[exP1], exP2, [], by decide, rfl, by decide⟩
example : spawnedSpec Off.zero (order [exP2, exP1]) = [2, 4] := by decide
example : Constituent (order [exP2, exP1]) 11 1 := ⟨mkRat 1 2, by decide⟩
example : Constituent (order [exP2, exP1]) 20 3 := ⟨1, by decide⟩
example : exMol.adj 11 20 = true := by decide
-- the result: resid 1,1,2,2; the bond 1-3 comes from the input bond 11-20; atom 30 is lost (warning),
-- hydrogen 31 only logged; `_old_resid` of particle 4 comes from its reference atom 21
example : (match assemble exMol [exP2, exP1] with
    | .ok r => (r.beads.map (fun b => (b.key, b.resid, b.oldResid)), r.hasEdge 1 3, r.hasEdge 2 3,
                r.warn.unmapped, r.warn.hydrogens, r.warn.overlap)
    | .error _ => ([], false, false, false, false, false))
    = ([(1, some 1, some 5), (2, some 1, some 5), (3, some 2, some 6), (4, some 2, some 6)],
       true, false, true, true, false) := by decide
-- hypotheses of `overlap_warned` on the instance with the overlapping third match
example : order [exP3, exP2, exP1] = [exP1] ++ exP2 :: ([] ++ exP3 :: []) := by decide
example : (21 : Int) ∈ exP2.atoms ∧ (21 : Int) ∈ exP3.atoms := by decide
example : (match assemble exMol [exP3, exP2, exP1] with | .ok r => r.warn.overlap | .error _ => false) = true := by
  decide
-- the reference matcher on a two-residue chain: C1-C2 fits once per residue, never across the
-- residue boundary although the atoms 2-3 are bonded
def exMolNodes : List MNode :=
  [⟨1, [("atomname", "C1"), ("resname", "X")], some 5⟩, ⟨2, [("atomname", "C2"), ("resname", "X")], some 5⟩,
   ⟨3, [("atomname", "C1"), ("resname", "X")], some 6⟩, ⟨4, [("atomname", "C2"), ("resname", "X")], some 6⟩]
def exPat : List MNode :=
  [⟨0, [("atomname", "C1"), ("resname", "X"), ("resid", "1")], some 1⟩,
   ⟨1, [("atomname", "C2"), ("resname", "X"), ("resid", "1")], some 1⟩]
example : refMatches exMolNodes [(1, 2), (2, 3), (3, 4)] exPat [(0, 1)] = [[(0, 1), (1, 2)], [(0, 3), (1, 4)]] := by
  decide
example : (exPat.map (·.key)).Nodup ∧ (exMolNodes.map (·.key)).Nodup := by decide

/-! ## modification mappings (`modification_matches`, `apply_mod_mapping`) -/

/-- without modification matches the merged loop is the block loop: everything above applies to
`assembleAll m ps []` -/
theorem assembleAll_no_mods (m : MolIn) (ps : List Placement) : assembleAll m ps [] = assemble m ps := by
  unfold assembleAll assemble placeAll
  have : orderM ([] : List ModPlacement) = [] := rfl
  simp only [List.any_nil, Bool.or_false, this, List.length_nil, Nat.add_zero]
  rw [runAll_no_mods _ _ _ (Nat.le_refl _)]
  split <;> rfl

/-- `cover`: the modification mappings chosen for a group of modification names are known mappings,
each names only modifications of the group, and together they name every modification of it -/
theorem cover_sound (n : Nat) (group : List String) (known chosen : List (List String))
    (h : cover n group known = some chosen) :
    (∀ o ∈ chosen, o ∈ known ∧ ∀ x ∈ o, x ∈ group) ∧ (∀ x ∈ group, ∃ o ∈ chosen, x ∈ o) :=
  cover_covers n group known chosen h

/-- `mod_weights_recorded`: when a modification match is applied, every declared weight
`atom ↦ modification node ↦ w` is recorded in both tables for the particle the node was created
as / laid over (`Functional`: the match does not assign two weights to one pair) -/
theorem mod_weights_recorded (st : St) (p : ModPlacement) (he : st.err = none)
    (hok : (applyMod st p).err = none) (a b : Int) (ws : List (Int × Rat)) (w : Rat)
    (ha : (a, ws) ∈ p.molToMod) (hb : (b, w) ∈ ws) :
    ∃ out1 m2o es o, placeModNodes st p p.nodes st.out [] = some (out1, m2o)
      ∧ modEntries m2o p.molToMod = some es ∧ m2o.lookup b = some o ∧ (a, o, w) ∈ es
      ∧ (applyMod st p).molToOut = addEntries st.molToOut es
      ∧ (Functional es →
          get2 (applyMod st p).molToOut a o = some w ∧ get2 (applyMod st p).outToMol o a = some w) :=
  applyMod_records st p he hok a b ws w ha hb

/-- `overlay_keeps_identity`: applying a modification match never removes or renumbers an existing
particle: every existing particle keeps its key and position, the table only grows at its end (new
`PTM_atom` particles); when no node of the modification has a `replace` dictionary touching
atomname / resid / charge_group the existing particles keep name, resid and charge group as well
(otherwise exactly the overlaid particles change, see `placeModNodes`); overlap and spawned sets
are unchanged -/
theorem overlay_keeps_identity (st : St) (p : ModPlacement) (he : st.err = none)
    (hok : (applyMod st p).err = none) :
    (∃ (f : Int × Attrs → Int × Attrs) (extra : List (Int × Attrs)),
        (∀ q, (f q).1 = q.1) ∧ (applyMod st p).out.nodes = st.out.nodes.map f ++ extra
        ∧ ((∀ n ∈ p.nodes, n.repl = {}) → (applyMod st p).out.nodes = st.out.nodes ++ extra))
    ∧ (applyMod st p).overlap = st.overlap ∧ (applyMod st p).spawned = st.spawned := by
  obtain ⟨_, _, _, _, _, _, _, _, h6, h7, f, extra, hk, hn, hid⟩ := applyMod_spec st p he hok
  refine ⟨⟨f, extra, hk, hn, ?_⟩, h6, h7⟩
  intro hr
  rw [hn]
  congr 1
  have : f = id := funext (hid hr)
  rw [this, List.map_id]

theorem insertDescM_perm (x : ModPlacement) (l : List ModPlacement) : (insertDescM x l).Perm (x :: l) := by
  induction l with
  | nil => exact List.Perm.refl _
  | cons y ys ih =>
    unfold insertDescM
    split
    · exact List.Perm.refl _
    · exact (List.Perm.cons y ih).trans (List.Perm.swap x y ys)

/-- every modification match is applied exactly once -/
theorem orderM_perm (qs : List ModPlacement) : (orderM qs).Perm qs := by
  unfold orderM
  refine (List.reverse_perm _).trans ?_
  induction qs with
  | nil => exact List.Perm.refl _
  | cons x xs ih => unfold sortDescM; exact (insertDescM_perm x _).trans (List.Perm.cons x ih)

theorem assembleAll_ok (m : MolIn) (ps : List Placement) (qs : List ModPlacement) (r : Result)
    (h : assembleAll m ps qs = .ok r) :
    (runAll ((order ps).length + (orderM qs).length) (order ps) (orderM qs) {}).err = none
    ∧ r = finish m (runAll ((order ps).length + (orderM qs).length) (order ps) (orderM qs) {}) := by
  unfold assembleAll at h
  split at h
  · cases h
  · simp only at h
    split at h
    · cases h
    · rename_i he
      cases h
      exact ⟨he, rfl⟩

/-- `mod_atom_accounted`: with block and modification matches, every atom of a matched
modification that has a declared weight is in the correspondence table at the end, and every
non-hydrogen atom of the molecule is in the table or the unmapped-atom warning is raised -/
theorem mod_atom_accounted (m : MolIn) (ps : List Placement) (qs : List ModPlacement) (r : Result)
    (h : assembleAll m ps qs = .ok r) :
    (∀ q ∈ qs, ∀ a ws, (a, ws) ∈ q.molToMod → ws ≠ [] →
        a ∈ dom (runAll ((order ps).length + (orderM qs).length) (order ps) (orderM qs) {}).molToOut)
    ∧ (∀ a ∈ m.keys, isHyd m a = false →
        a ∈ dom (runAll ((order ps).length + (orderM qs).length) (order ps) (orderM qs) {}).molToOut
        ∨ r.warn.unmapped = true) := by
  obtain ⟨hok, rfl⟩ := assembleAll_ok m ps qs r h
  constructor
  · intro q hq a ws hws hne
    exact runAll_dom _ _ _ _ (Nat.le_refl _) hok a
      (Or.inr ⟨q, (orderM_perm qs).symm.subset hq, ws, hws, hne⟩)
  · intro a ha hH
    by_cases hd : a ∈ dom (runAll ((order ps).length + (orderM qs).length) (order ps) (orderM qs) {}).molToOut
    · exact Or.inl hd
    · right
      unfold finish
      simp only [List.any_eq_true]
      refine ⟨a, ?_, by simp [hH]⟩
      unfold uncovered
      simp only [List.mem_filter]
      exact ⟨ha, by simpa using hd⟩

/-! ### known finding F-C01-3 (do_mapping.py:336, upstream issue #154) as a witness -/

def exB1 : Mol := { nodes := [(0, { name := some "B1", resid := some 1 })] }
def exMol3 : MolIn :=
  { atoms := [⟨0, 1, "X", "A", false⟩, ⟨1, 1, "X", "A", false⟩, ⟨10, 2, "X", "A", false⟩, ⟨11, 2, "X", "A", false⟩,
              ⟨12, 2, "X", "A", false⟩, ⟨20, 3, "X", "A", false⟩, ⟨21, 3, "X", "A", false⟩],
    edges := [(0, 1), (1, 10), (10, 11), (11, 12), (11, 20), (20, 21)] }
def exRes (a b : Int) : Placement := { molToBlock := [(a, [(0, 1)]), (b, [(0, 1)])], block := exB1, refs := [] }
/-- a modification on the second residue: anchor atom 11 laid over `B1`, PTM atom 12 becomes a new particle `Q1` -/
def exMod : ModPlacement := ModPlacement.mk [(11, [(0, 1)]), (12, [(1, 1)])]
  [ModNode.mk 0 { name := some "B1" } false {}, ModNode.mk 1 { name := some "Q1" } true {}] [(0, 1)] [] []

/-- `residue_offset_restarts`: three residues, the second carries a modification whose mapping
creates a new particle.  The new particle is the last node when the third block is merged and has
no resid yet, so the third residue is numbered 2 again (and its charge group 2); the new particle
then receives the INPUT resid of its atom.  Expected by the property: 1, 2, 2, 3. -/
theorem residue_offset_restarts :
    (match assembleAll exMol3 [exRes 0 1, exRes 10 11, exRes 20 21] [exMod] with
     | .ok r => r.beads.map (fun (b : Bead) => (b.key, b.name, b.resid, b.cg))
     | .error _ => [])
    = [(1, some "B1", some 1, some 1), (2, some "B1", some 2, some 2), (3, some "Q1", some 2, none),
       (4, some "B1", some 2, some 2)] := by decide

-- hypotheses of the modification theorems on this instance
example : (applyMod (placeAll [exRes 0 1, exRes 10 11]) exMod).err = none := by decide
example : overlayTarget (placeAll [exRes 0 1, exRes 10 11]) exMod (ModNode.mk 0 { name := some "B1" } false {}) = some 2 := by
  decide
example : modKey exMod = 12 ∧ minKey (exRes 20 21) = 20 := by decide
example : cover 3 ["PHOS", "METH"] [["METH", "PHOS"], ["PHOS"], ["METH"]] = some [["METH", "PHOS"]] := by decide
example : cover 3 ["PHOS", "METH"] [["PHOS"], ["METH"]] = some [["PHOS"], ["METH"]] := by decide
example : cover 2 ["PHOS"] [["METH"]] = none := by decide

end C01
