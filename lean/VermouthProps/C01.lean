import VermouthModel.C01
namespace C01
theorem placeholder : order [] = [] := rfl
end C01
