import VermouthProofs.C15
/-!
# C15 — elastic-network bonds are exactly the pairs meeting every stated criterion

Property theorems about `C15.run`, the model of
`vermouth.processors.apply_rubber_band.apply_rubber_band`.

Vocabulary (all executable unless marked `Prop`):
* `selection names atoms` : node indices of the selected atoms (node order);
* `network atoms edges p` : the bonds emitted when every selected atom has coordinates;
* `Criteria atoms edges p i j` (`Prop`) : the five criteria of the property for node indices `i`, `j`
  (both selected, same domain, residues further apart than the separation, squared distance within
  the squared cut-off, capped decayed constant above the minimum force);
* `resConnected E c a b` : bounded BFS on the residue graph; `IsWalk E a l b` (`Prop`) a walk with `l.length` steps;
* `kOf p d2` : base constant × decay for squared distance `d2` (input table; the base constant by default);
* `len5Of d2` : `round(sqrt(d2)/256 nm, 5)` in units of 1e-5 nm (ties to even, as numpy).
-/
namespace C15

def network (atoms : List Atom) (edges : List (Int × Int)) (p : Params) : List Bond :=
  emit atoms p (mats atoms edges p)

def KeysNodup (atoms : List Atom) : Prop := (atoms.map (·.key)).Nodup

instance (atoms : List Atom) : Decidable (KeysNodup atoms) := by unfold KeysNodup; infer_instance

/-! ## what `run` returns -/

/-- Selected atoms without coordinates: the code raises (not part of the property, kept for completeness). -/
theorem run_error_iff (atoms : List Atom) (edges : List (Int × Int)) (p : Params) :
    (∃ ks, run atoms edges p = .error ks) ↔
      ∃ i ∈ selection p.names atoms, (atomAt atoms i).pos = Pos.missing := by
  unfold run
  simp only []
  split
  · next h =>
    simp only [Outcome.error.injEq, exists_eq', true_iff]
    have : ((selection p.names atoms).map (atomAt atoms)).filter (fun a => a.pos = Pos.missing) ≠ [] := by
      intro h'; apply h; rw [h']; rfl
    obtain ⟨a, ha⟩ := List.exists_mem_of_ne_nil _ this
    simp only [List.mem_filter, List.mem_map, decide_eq_true_eq] at ha
    obtain ⟨⟨i, hi, rfl⟩, hm⟩ := ha
    exact ⟨i, hi, hm⟩
  · next h =>
    have hnil : ((selection p.names atoms).map (atomAt atoms)).filter (fun a => a.pos = Pos.missing) = [] := by
      simpa using h
    constructor
    · rintro ⟨ks, hk⟩; split at hk <;> (try split at hk) <;> cases hk
    · rintro ⟨i, hi, hm⟩
      exfalso
      have : atomAt atoms i ∈ ((selection p.names atoms).map (atomAt atoms)).filter (fun a => a.pos = Pos.missing) := by
        simp only [List.mem_filter, List.mem_map, decide_eq_true_eq]
        exact ⟨⟨i, hi, rfl⟩, hm⟩
      rw [hnil] at this; cases this

theorem no_missing (atoms : List Atom) (p : Params)
    (h : ∀ i ∈ selection p.names atoms, (atomAt atoms i).pos ≠ Pos.missing) :
    ((((selection p.names atoms).map (atomAt atoms)).filter fun a => a.pos = Pos.missing).map (·.key)) = [] := by
  simp only [List.map_eq_nil_iff, List.filter_eq_nil_iff, List.mem_map, decide_eq_true_eq]
  rintro a ⟨i, hi, rfl⟩
  exact h i hi

/-- **NaN coordinates**: if no selected atom lacks coordinates and some selected atom has a NaN
coordinate, the result is "warning, no network" (never an error, never a bond), whatever the
other atoms, the edges and the parameters are. -/
theorem nan_no_network (atoms : List Atom) (edges : List (Int × Int)) (p : Params)
    (hm : ∀ i ∈ selection p.names atoms, (atomAt atoms i).pos ≠ Pos.missing)
    (hn : ∃ i ∈ selection p.names atoms, (atomAt atoms i).pos = Pos.nan) :
    run atoms edges p = .nanWarning := by
  obtain ⟨i, hi, hnan⟩ := hn
  unfold run
  simp only [no_missing atoms p hm, ne_eq, not_true_eq_false, if_false]
  have hne : (selection p.names atoms).map (atomAt atoms) ≠ [] := by
    intro h; rw [List.map_eq_nil_iff] at h; rw [h] at hi; cases hi
  rw [if_neg hne, if_pos]
  simp only [List.any_eq_true, List.mem_map, decide_eq_true_eq]
  exact ⟨atomAt atoms i, ⟨i, hi, rfl⟩, hnan⟩

/-- NaN or missing coordinates of UNSELECTED atoms are irrelevant; with coordinates on every selected
atom the result is the network. -/
theorem run_bonds (atoms : List Atom) (edges : List (Int × Int)) (p : Params)
    (hne : selection p.names atoms ≠ [])
    (hpos : ∀ i ∈ selection p.names atoms, ∃ x y z, (atomAt atoms i).pos = Pos.at x y z) :
    run atoms edges p = .bonds (network atoms edges p) := by
  unfold run network
  have hm : ∀ i ∈ selection p.names atoms, (atomAt atoms i).pos ≠ Pos.missing := by
    intro i hi h; obtain ⟨x, y, z, e⟩ := hpos i hi; rw [e] at h; cases h
  simp only [no_missing atoms p hm, ne_eq, not_true_eq_false, if_false]
  rw [if_neg (by simpa using hne), if_neg]
  simp only [List.any_eq_true, List.mem_map, decide_eq_true_eq, not_exists, not_and]
  rintro a ⟨i, hi, rfl⟩ h
  obtain ⟨x, y, z, e⟩ := hpos i hi; rw [e] at h; cases h

theorem run_nothing (atoms : List Atom) (edges : List (Int × Int)) (p : Params)
    (h : selection p.names atoms = []) : run atoms edges p = .nothing := by
  unfold run; simp [h]

/-! ## the bond set -/

/-- **emit_iff.** For `minForce ≥ 0` and distinct node keys: a bond with atoms (key i, key j) is
emitted iff `i` precedes `j` in node order and the pair meets all five criteria. -/
theorem emit_iff (atoms : List Atom) (edges : List (Int × Int)) (p : Params)
    (h0 : 0 ≤ p.minForce) (hk : KeysNodup atoms) (i j : Nat) (hi : i < atoms.length) (hj : j < atoms.length) :
    (∃ b ∈ network atoms edges p, b.a = keyAt atoms i ∧ b.b = keyAt atoms j) ↔
      i < j ∧ Criteria atoms edges p i j := by
  unfold network
  constructor
  · rintro ⟨b, hb, ha, hbb⟩
    obtain ⟨a, c, hac, hc, hgt, rfl⟩ := (mem_emit _ _ _ _).mp hb
    have hc' : c < (selection p.names atoms).length := hc
    have ha' : a < (selection p.names atoms).length := by omega
    have e1 : (selection p.names atoms).getD a 0 = i :=
      key_inj atoms hk _ _ (sel_getD_lt _ _ _ ha') hi ha
    have e2 : (selection p.names atoms).getD c 0 = j :=
      key_inj atoms hk _ _ (sel_getD_lt _ _ _ hc') hj hbb
    have := (constEntry_gt_iff atoms edges p h0 a c hac hc').mp hgt
    rw [e1, e2] at this
    refine ⟨?_, this.2⟩
    have := sorted_getD_lt (selection_sorted p.names atoms) this.1 hc'
    omega
  · rintro ⟨hij, hC⟩
    have hsi : i ∈ selection p.names atoms := (mem_selection _ _ _).mpr ⟨hi, hC.1⟩
    have hsj : j ∈ selection p.names atoms := (mem_selection _ _ _).mpr ⟨hj, hC.2.1⟩
    obtain ⟨a, ha, ea⟩ := exists_index_of_mem hsi
    obtain ⟨c, hc, ec⟩ := exists_index_of_mem hsj
    have hac : a < c := sorted_index_lt (selection_sorted p.names atoms) ha hc (by omega)
    have hgt := (constEntry_gt_iff atoms edges p h0 a c (by omega) hc).mpr ⟨hac, by rw [ea, ec]; exact hC⟩
    refine ⟨mkBond atoms p (mats atoms edges p) (a, c), (mem_emit _ _ _ _).mpr ⟨a, c, by omega, hc, hgt, rfl⟩, ?_, ?_⟩
    · show keyAt atoms ((selection p.names atoms).getD a 0) = _; rw [ea]
    · show keyAt atoms ((selection p.names atoms).getD c 0) = _; rw [ec]

/-- **emit_keys_correct.** Every emitted bond comes from one cell (a, c), a ≤ c, of the upper triangle
of the sub-selection matrices; its atoms are the node keys of `selection[a]` and `selection[c]`
(both selected nodes of the molecule), and the decision that emitted it was taken on the values of
the FULL matrices at (`selection[a]`, `selection[c]`) — not at (a, c). -/
theorem emit_keys_correct (atoms : List Atom) (edges : List (Int × Int)) (p : Params) (b : Bond)
    (hb : b ∈ network atoms edges p) :
    ∃ a c, a ≤ c ∧ c < (selection p.names atoms).length ∧
      let i := (selection p.names atoms).getD a 0
      let j := (selection p.names atoms).getD c 0
      i < atoms.length ∧ j < atoms.length ∧
      selected p.names (atomAt atoms i) = true ∧ selected p.names (atomAt atoms j) = true ∧
      b.a = keyAt atoms i ∧ b.b = keyAt atoms j ∧
      b.k = (if linkOK atoms edges p i j then forceConst p (a == c) (dist2 (posAt atoms i) (posAt atoms j)) else 0) ∧
      p.minForce < b.k := by
  obtain ⟨a, c, hac, hc, hgt, rfl⟩ := (mem_emit _ _ _ _).mp hb
  have hc' : c < (selection p.names atoms).length := hc
  have ha' : a < (selection p.names atoms).length := by omega
  refine ⟨a, c, hac, hc', sel_getD_lt _ _ _ ha', sel_getD_lt _ _ _ hc', sel_getD_selected _ _ _ ha',
    sel_getD_selected _ _ _ hc', rfl, rfl, ?_, hgt⟩
  exact constEntry_eq atoms edges p a c ha' hc'

/-- The sub-selection slicing itself: `M[:, sel][sel][a, c] = M[sel[a], sel[c]]`. -/
theorem subselection_index {α} (M : List (List α)) (sel : List Nat) (d : α) (a c : Nat)
    (ha : a < sel.length) (hc : c < sel.length) :
    mget (subMatrix M sel d) a c d = mget M (sel.getD a 0) (sel.getD c 0) d :=
  mget_subMatrix M sel d a c ha hc

/-- **emit_once.** For `minForce ≥ 0` and distinct node keys no ordered key pair is emitted twice, and
no pair is emitted in both orientations (in particular there is no self-bond). -/
theorem emit_once (atoms : List Atom) (edges : List (Int × Int)) (p : Params)
    (h0 : 0 ≤ p.minForce) (hk : KeysNodup atoms) :
    ((network atoms edges p).map fun b => (b.a, b.b)).Nodup ∧
    ∀ b ∈ network atoms edges p, ∀ b' ∈ network atoms edges p, ¬ (b.a = b'.b ∧ b.b = b'.a) := by
  have hinj : ∀ a c a' c', a ≤ c → c < (selection p.names atoms).length → a' ≤ c' →
      c' < (selection p.names atoms).length →
      keyAt atoms ((selection p.names atoms).getD a 0) = keyAt atoms ((selection p.names atoms).getD a' 0) →
      a = a' := by
    intro a c a' c' hac hc hac' hc' e
    have ha : a < (selection p.names atoms).length := by omega
    have ha' : a' < (selection p.names atoms).length := by omega
    exact nodup_getD_inj (selection_nodup _ _) ha ha'
      (key_inj atoms hk _ _ (sel_getD_lt _ _ _ ha) (sel_getD_lt _ _ _ ha') e)
  constructor
  · unfold network
    rw [emit_eq, List.map_map]
    refine List.Nodup.map_on ?_ (List.Nodup.filter _ (triu_nodup _))
    rintro ⟨a, c⟩ h1 ⟨a', c'⟩ h2 e
    simp only [List.mem_filter, mem_triu] at h1 h2
    simp only [Function.comp, mkBond, Prod.mk.injEq] at e
    have hc : c < (selection p.names atoms).length := h1.1.2
    have hc' : c' < (selection p.names atoms).length := h2.1.2
    have e1 := hinj a c a' c' h1.1.1 hc h2.1.1 hc' e.1
    have e2 := hinj c c c' c' (Nat.le_refl _) hc (Nat.le_refl _) hc' e.2
    rw [e1, e2]
  · intro b hb b' hb' ⟨e1, e2⟩
    unfold network at hb hb'
    obtain ⟨a, c, hac, hc, hgt, rfl⟩ := (mem_emit _ _ _ _).mp hb
    obtain ⟨a', c', hac', hc', hgt', rfl⟩ := (mem_emit _ _ _ _).mp hb'
    have hc1 : c < (selection p.names atoms).length := hc
    have hc1' : c' < (selection p.names atoms).length := hc'
    have l1 := ((constEntry_gt_iff atoms edges p h0 a c hac hc1).mp hgt).1
    have l2 := ((constEntry_gt_iff atoms edges p h0 a' c' hac' hc1').mp hgt').1
    have x1 := hinj a c c' c' hac hc1 (Nat.le_refl _) hc1' e1
    have x2 := hinj c c a' c' (Nat.le_refl _) hc1 hac' hc1' e2
    omega

/-- **length_is_distance.** The length of an emitted bond is the distance between the two nodes whose
keys it carries: `d2` is their squared lattice distance and `len5` its square root in nm rounded to
5 decimals (see `len5_spec`). -/
theorem length_is_distance (atoms : List Atom) (edges : List (Int × Int)) (p : Params) (b : Bond)
    (hb : b ∈ network atoms edges p) :
    ∃ i j, i < atoms.length ∧ j < atoms.length ∧ b.a = keyAt atoms i ∧ b.b = keyAt atoms j ∧
      b.d2 = dist2 (posAt atoms i) (posAt atoms j) ∧ b.len5 = len5Of b.d2 := by
  obtain ⟨a, c, hac, hc, hgt, rfl⟩ := (mem_emit _ _ _ _).mp hb
  have hc' : c < (selection p.names atoms).length := hc
  have ha' : a < (selection p.names atoms).length := by omega
  exact ⟨_, _, sel_getD_lt _ _ _ ha', sel_getD_lt _ _ _ hc', rfl, rfl, mget_dist atoms edges p a c ha' hc', rfl⟩

/-- **force constant.** For `minForce ≥ 0` the constant of an emitted bond is the decayed constant of its
distance capped at the base constant. -/
theorem force_is_capped_decay (atoms : List Atom) (edges : List (Int × Int)) (p : Params)
    (h0 : 0 ≤ p.minForce) (b : Bond) (hb : b ∈ network atoms edges p) :
    b.k = min (kOf p b.d2) p.base ∧ b.k ≤ p.base ∧ p.minForce < b.k := by
  obtain ⟨a, c, hac, hc, hgt, rfl⟩ := (mem_emit _ _ _ _).mp hb
  have hc' : c < (selection p.names atoms).length := hc
  have ha' : a < (selection p.names atoms).length := by omega
  have hlt := ((constEntry_gt_iff atoms edges p h0 a c hac hc').mp hgt).1
  have hne : (a == c) = false := by simp; omega
  have hv : constEntry p (mats atoms edges p) a c
      = min (kOf p (mget (mats atoms edges p).dist a c 0)) p.base := by
    have h1 := hgt
    rw [constEntry_eq _ _ _ _ _ ha' hc', hne] at h1 ⊢
    rw [mget_dist _ _ _ _ _ ha' hc']
    split at h1
    · next hl => rw [if_pos hl]; exact forceConst_value p _ h0 h1
    · exfalso; linarith
  refine ⟨hv, ?_, hgt⟩
  show constEntry p (mats atoms edges p) a c ≤ p.base
  rw [hv]; exact min_le_right _ _

/-! ## residue separation -/

/-- **bfs_correct.** The bounded BFS answers "is there a walk of at most `c` steps in the residue graph". -/
theorem bfs_correct (E : List (ResKey × ResKey)) (c : Nat) (a b : ResKey) :
    resConnected E c a b = true ↔ ∃ l : List ResKey, l.length ≤ c ∧ IsWalk E a l b := by
  unfold resConnected
  rw [List.contains_iff_mem]
  exact mem_ball E c a b

/-- Edges of the residue graph: one for every atom edge whose ends lie in residues with different keys. -/
theorem resEdges_spec (atoms : List Atom) (edges : List (Int × Int)) (ra rb : ResKey) :
    (ra, rb) ∈ resEdges atoms edges ↔
      ∃ e ∈ edges, ∃ a b, atomOfKey atoms e.1 = some a ∧ atomOfKey atoms e.2 = some b ∧
        a.res = ra ∧ b.res = rb ∧ ra ≠ rb := by
  unfold resEdges
  simp only [List.mem_filterMap]
  constructor
  · rintro ⟨e, he, h⟩
    split at h
    · next a b ha hb =>
      split at h
      · cases h
      · next hne => cases h; exact ⟨e, he, a, b, ha, hb, rfl, rfl, hne⟩
    · cases h
  · rintro ⟨e, he, a, b, ha, hb, rfl, rfl, hne⟩
    exact ⟨e, he, by rw [ha, hb]; simp [hne]⟩

end C15
