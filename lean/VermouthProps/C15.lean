import VermouthProofs.C15_Inv
import VermouthProofs.C15_Order
import Mathlib.Tactic.Ring
/-!
# C15 — elastic-network bonds are exactly the pairs meeting every stated criterion

Property theorems about `C15.run`, the model of
`vermouth.processors.apply_rubber_band.apply_rubber_band`.

Vocabulary (all executable unless marked `Prop`):
* `selection names atoms` : node indices of the selected atoms (node order);
* `network atoms edges p` : the bonds emitted when every selected atom has coordinates;
* `Criteria atoms edges p i j` (`Prop`) : the five criteria of the property for node indices `i`, `j`
  (both selected, same domain, residues further apart than the separation, squared distance within
  the squared cut-off, capped decayed constant above the minimum force);
* `resConnected E c a b` : bounded BFS on the residue graph; `IsWalk E a l b` (`Prop`) a walk with `l.length` steps;
* `kOf p d2` : base constant × decay for squared distance `d2` (input table; the base constant by default);
* `len5Of d2` : `round(sqrt(d2)/256 nm, 5)` in units of 1e-5 nm (ties to even, as numpy).
-/
namespace C15

def network (atoms : List Atom) (edges : List (Int × Int)) (p : Params) : List Bond :=
  emit atoms p (mats atoms edges p)

def KeysNodup (atoms : List Atom) : Prop := (atoms.map (·.key)).Nodup

instance (atoms : List Atom) : Decidable (KeysNodup atoms) := by unfold KeysNodup; infer_instance

/-! ## what `run` returns -/

/-- Selected atoms without coordinates: the code raises (not part of the property, kept for completeness). -/
theorem run_error_iff (atoms : List Atom) (edges : List (Int × Int)) (p : Params) :
    (∃ ks, run atoms edges p = .error ks) ↔
      ∃ i ∈ selection p.names atoms, (atomAt atoms i).pos = Pos.missing := by
  unfold run
  simp only []
  split
  · next h =>
    simp only [Outcome.error.injEq, exists_eq', true_iff]
    have : ((selection p.names atoms).map (atomAt atoms)).filter (fun a => a.pos = Pos.missing) ≠ [] := by
      intro h'; apply h; rw [h']; rfl
    obtain ⟨a, ha⟩ := List.exists_mem_of_ne_nil _ this
    simp only [List.mem_filter, List.mem_map, decide_eq_true_eq] at ha
    obtain ⟨⟨i, hi, rfl⟩, hm⟩ := ha
    exact ⟨i, hi, hm⟩
  · next h =>
    have hnil : ((selection p.names atoms).map (atomAt atoms)).filter (fun a => a.pos = Pos.missing) = [] := by
      simpa using h
    constructor
    · rintro ⟨ks, hk⟩; split at hk <;> (try split at hk) <;> cases hk
    · rintro ⟨i, hi, hm⟩
      exfalso
      have : atomAt atoms i ∈ ((selection p.names atoms).map (atomAt atoms)).filter (fun a => a.pos = Pos.missing) := by
        simp only [List.mem_filter, List.mem_map, decide_eq_true_eq]
        exact ⟨⟨i, hi, rfl⟩, hm⟩
      rw [hnil] at this; cases this

theorem no_missing (atoms : List Atom) (p : Params)
    (h : ∀ i ∈ selection p.names atoms, (atomAt atoms i).pos ≠ Pos.missing) :
    ((((selection p.names atoms).map (atomAt atoms)).filter fun a => a.pos = Pos.missing).map (·.key)) = [] := by
  simp only [List.map_eq_nil_iff, List.filter_eq_nil_iff, List.mem_map, decide_eq_true_eq]
  rintro a ⟨i, hi, rfl⟩
  exact h i hi

/-- **NaN coordinates**: if no selected atom lacks coordinates and some selected atom has a NaN
coordinate, the result is "warning, no network" (never an error, never a bond), whatever the
other atoms, the edges and the parameters are. -/
theorem nan_no_network (atoms : List Atom) (edges : List (Int × Int)) (p : Params)
    (hm : ∀ i ∈ selection p.names atoms, (atomAt atoms i).pos ≠ Pos.missing)
    (hn : ∃ i ∈ selection p.names atoms, (atomAt atoms i).pos = Pos.nan) :
    run atoms edges p = .nanWarning := by
  obtain ⟨i, hi, hnan⟩ := hn
  unfold run
  simp only [no_missing atoms p hm, ne_eq, not_true_eq_false, if_false]
  have hne : (selection p.names atoms).map (atomAt atoms) ≠ [] := by
    intro h; rw [List.map_eq_nil_iff] at h; rw [h] at hi; cases hi
  rw [if_neg hne, if_pos]
  simp only [List.any_eq_true, List.mem_map, decide_eq_true_eq]
  exact ⟨atomAt atoms i, ⟨i, hi, rfl⟩, hnan⟩

/-- NaN or missing coordinates of UNSELECTED atoms are irrelevant; with coordinates on every selected
atom the result is the network. -/
theorem run_bonds (atoms : List Atom) (edges : List (Int × Int)) (p : Params)
    (hne : selection p.names atoms ≠ [])
    (hpos : ∀ i ∈ selection p.names atoms, ∃ x y z, (atomAt atoms i).pos = Pos.at x y z) :
    run atoms edges p = .bonds (network atoms edges p) := by
  unfold run network
  have hm : ∀ i ∈ selection p.names atoms, (atomAt atoms i).pos ≠ Pos.missing := by
    intro i hi h; obtain ⟨x, y, z, e⟩ := hpos i hi; rw [e] at h; cases h
  simp only [no_missing atoms p hm, ne_eq, not_true_eq_false, if_false]
  rw [if_neg (by simpa using hne), if_neg]
  simp only [List.any_eq_true, List.mem_map, decide_eq_true_eq, not_exists, not_and]
  rintro a ⟨i, hi, rfl⟩ h
  obtain ⟨x, y, z, e⟩ := hpos i hi; rw [e] at h; cases h

theorem run_nothing (atoms : List Atom) (edges : List (Int × Int)) (p : Params)
    (h : selection p.names atoms = []) : run atoms edges p = .nothing := by
  unfold run; simp [h]

/-! ## the bond set -/

/-- **emit_iff.** For `minForce ≥ 0` and distinct node keys: a bond with atoms (key i, key j) is
emitted iff `i` precedes `j` in node order and the pair meets all five criteria. -/
theorem emit_iff (atoms : List Atom) (edges : List (Int × Int)) (p : Params)
    (h0 : 0 ≤ p.minForce) (hk : KeysNodup atoms) (i j : Nat) (hi : i < atoms.length) (hj : j < atoms.length) :
    (∃ b ∈ network atoms edges p, b.a = keyAt atoms i ∧ b.b = keyAt atoms j) ↔
      i < j ∧ Criteria atoms edges p i j := by
  unfold network
  constructor
  · rintro ⟨b, hb, ha, hbb⟩
    obtain ⟨a, c, hac, hc, hgt, rfl⟩ := (mem_emit _ _ _ _).mp hb
    have hc' : c < (selection p.names atoms).length := hc
    have ha' : a < (selection p.names atoms).length := by omega
    have e1 : (selection p.names atoms).getD a 0 = i :=
      key_inj atoms hk _ _ (sel_getD_lt _ _ _ ha') hi ha
    have e2 : (selection p.names atoms).getD c 0 = j :=
      key_inj atoms hk _ _ (sel_getD_lt _ _ _ hc') hj hbb
    have := (constEntry_gt_iff atoms edges p h0 a c hac hc').mp hgt
    rw [e1, e2] at this
    refine ⟨?_, this.2⟩
    have := sorted_getD_lt (selection_sorted p.names atoms) this.1 hc'
    omega
  · rintro ⟨hij, hC⟩
    have hsi : i ∈ selection p.names atoms := (mem_selection _ _ _).mpr ⟨hi, hC.1⟩
    have hsj : j ∈ selection p.names atoms := (mem_selection _ _ _).mpr ⟨hj, hC.2.1⟩
    obtain ⟨a, ha, ea⟩ := exists_index_of_mem hsi
    obtain ⟨c, hc, ec⟩ := exists_index_of_mem hsj
    have hac : a < c := sorted_index_lt (selection_sorted p.names atoms) ha hc (by omega)
    have hgt := (constEntry_gt_iff atoms edges p h0 a c (by omega) hc).mpr ⟨hac, by rw [ea, ec]; exact hC⟩
    refine ⟨mkBond atoms p (mats atoms edges p) (a, c), (mem_emit _ _ _ _).mpr ⟨a, c, by omega, hc, hgt, rfl⟩, ?_, ?_⟩
    · show keyAt atoms ((selection p.names atoms).getD a 0) = _; rw [ea]
    · show keyAt atoms ((selection p.names atoms).getD c 0) = _; rw [ec]

/-- **emit_keys_correct.** Every emitted bond comes from one cell (a, c), a ≤ c, of the upper triangle
of the sub-selection matrices; its atoms are the node keys of `selection[a]` and `selection[c]`
(both selected nodes of the molecule), and the decision that emitted it was taken on the values of
the FULL matrices at (`selection[a]`, `selection[c]`) — not at (a, c). -/
theorem emit_keys_correct (atoms : List Atom) (edges : List (Int × Int)) (p : Params) (b : Bond)
    (hb : b ∈ network atoms edges p) :
    ∃ a c, a ≤ c ∧ c < (selection p.names atoms).length ∧
      let i := (selection p.names atoms).getD a 0
      let j := (selection p.names atoms).getD c 0
      i < atoms.length ∧ j < atoms.length ∧
      selected p.names (atomAt atoms i) = true ∧ selected p.names (atomAt atoms j) = true ∧
      b.a = keyAt atoms i ∧ b.b = keyAt atoms j ∧
      b.k = (if linkOK atoms edges p i j then forceConst p (a == c) (dist2 (posAt atoms i) (posAt atoms j)) else 0) ∧
      p.minForce < b.k := by
  obtain ⟨a, c, hac, hc, hgt, rfl⟩ := (mem_emit _ _ _ _).mp hb
  have hc' : c < (selection p.names atoms).length := hc
  have ha' : a < (selection p.names atoms).length := by omega
  refine ⟨a, c, hac, hc', sel_getD_lt _ _ _ ha', sel_getD_lt _ _ _ hc', sel_getD_selected _ _ _ ha',
    sel_getD_selected _ _ _ hc', rfl, rfl, ?_, hgt⟩
  exact constEntry_eq atoms edges p a c ha' hc'

/-- **conn_loops_correct.** The three nested loops of `build_connectivity_matrix` (residue, residues within the
cut-off, product of their atoms) followed by `fill_diagonal(False)` leave in cell (i, j) of the full matrix
exactly "i ≠ j and the residue of j is within `sep` steps of the residue of i". -/
theorem conn_loops_correct (atoms : List Atom) (E : List (ResKey × ResKey)) (sep i j : Nat)
    (hi : i < atoms.length) (hj : j < atoms.length) :
    mget (connFull atoms E sep) i j false =
      (i != j && resConnected E sep (atomAt atoms i).res (atomAt atoms j).res) :=
  mget_connFull atoms E sep i j hi hj

/-- **domain_loop_correct.** The loop of `build_pair_matrix` over `combinations(selection, 2)` with its mirrored
assignment leaves in cell (i, j) of the full matrix: both selected, i ≠ j, and the criterion evaluated on
(earlier node, later node). -/
theorem domain_loop_correct (names : List String) (atoms : List Atom) (d : Domain) (i j : Nat) :
    mget (domFull (selection names atoms) atoms d) i j false =
      ((selection names atoms).contains i && (selection names atoms).contains j &&
        (if i < j then crit d (atomAt atoms i) (atomAt atoms j)
         else if j < i then crit d (atomAt atoms j) (atomAt atoms i) else false)) :=
  mget_domFull _ (selection_sorted _ _) _ (fun x hx => ((mem_selection _ _ _).mp hx).1) d i j

/-- The sub-selection slicing itself: `M[:, sel][sel][a, c] = M[sel[a], sel[c]]`. -/
theorem subselection_index {α} (M : List (List α)) (sel : List Nat) (d : α) (a c : Nat)
    (ha : a < sel.length) (hc : c < sel.length) :
    mget (subMatrix M sel d) a c d = mget M (sel.getD a 0) (sel.getD c 0) d :=
  mget_subMatrix M sel d a c ha hc

/-- **emit_once.** For `minForce ≥ 0` and distinct node keys no ordered key pair is emitted twice, and
no pair is emitted in both orientations (in particular there is no self-bond). -/
theorem emit_once (atoms : List Atom) (edges : List (Int × Int)) (p : Params)
    (h0 : 0 ≤ p.minForce) (hk : KeysNodup atoms) :
    ((network atoms edges p).map fun b => (b.a, b.b)).Nodup ∧
    ∀ b ∈ network atoms edges p, ∀ b' ∈ network atoms edges p, ¬ (b.a = b'.b ∧ b.b = b'.a) := by
  have hinj : ∀ a c a' c', a ≤ c → c < (selection p.names atoms).length → a' ≤ c' →
      c' < (selection p.names atoms).length →
      keyAt atoms ((selection p.names atoms).getD a 0) = keyAt atoms ((selection p.names atoms).getD a' 0) →
      a = a' := by
    intro a c a' c' hac hc hac' hc' e
    have ha : a < (selection p.names atoms).length := by omega
    have ha' : a' < (selection p.names atoms).length := by omega
    exact nodup_getD_inj (selection_nodup _ _) ha ha'
      (key_inj atoms hk _ _ (sel_getD_lt _ _ _ ha) (sel_getD_lt _ _ _ ha') e)
  constructor
  · unfold network
    rw [emit_eq, List.map_map]
    refine List.Nodup.map_on ?_ (List.Nodup.filter _ (triu_nodup _))
    rintro ⟨a, c⟩ h1 ⟨a', c'⟩ h2 e
    simp only [List.mem_filter, mem_triu] at h1 h2
    simp only [Function.comp, mkBond, Prod.mk.injEq] at e
    have hc : c < (selection p.names atoms).length := h1.1.2
    have hc' : c' < (selection p.names atoms).length := h2.1.2
    have e1 := hinj a c a' c' h1.1.1 hc h2.1.1 hc' e.1
    have e2 := hinj c c c' c' (Nat.le_refl _) hc (Nat.le_refl _) hc' e.2
    rw [e1, e2]
  · intro b hb b' hb' ⟨e1, e2⟩
    unfold network at hb hb'
    obtain ⟨a, c, hac, hc, hgt, rfl⟩ := (mem_emit _ _ _ _).mp hb
    obtain ⟨a', c', hac', hc', hgt', rfl⟩ := (mem_emit _ _ _ _).mp hb'
    have hc1 : c < (selection p.names atoms).length := hc
    have hc1' : c' < (selection p.names atoms).length := hc'
    have l1 := ((constEntry_gt_iff atoms edges p h0 a c hac hc1).mp hgt).1
    have l2 := ((constEntry_gt_iff atoms edges p h0 a' c' hac' hc1').mp hgt').1
    have x1 := hinj a c c' c' hac hc1 (Nat.le_refl _) hc1' e1
    have x2 := hinj c c a' c' (Nat.le_refl _) hc1 hac' hc1' e2
    omega

/-- **length_is_distance.** The length of an emitted bond is the distance between the two nodes whose
keys it carries: `d2` is their squared lattice distance and `len5` its square root in nm rounded to
5 decimals (see `len5_spec`). -/
theorem length_is_distance (atoms : List Atom) (edges : List (Int × Int)) (p : Params) (b : Bond)
    (hb : b ∈ network atoms edges p) :
    ∃ i j, i < atoms.length ∧ j < atoms.length ∧ b.a = keyAt atoms i ∧ b.b = keyAt atoms j ∧
      b.d2 = dist2 (posAt atoms i) (posAt atoms j) ∧ b.len5 = len5Of b.d2 := by
  obtain ⟨a, c, hac, hc, hgt, rfl⟩ := (mem_emit _ _ _ _).mp hb
  have hc' : c < (selection p.names atoms).length := hc
  have ha' : a < (selection p.names atoms).length := by omega
  exact ⟨_, _, sel_getD_lt _ _ _ ha', sel_getD_lt _ _ _ hc', rfl, rfl, mget_dist atoms edges p a c ha' hc', rfl⟩

/-- **force constant.** For `minForce ≥ 0` the constant of an emitted bond is the decayed constant of its
distance capped at the base constant. -/
theorem force_is_capped_decay (atoms : List Atom) (edges : List (Int × Int)) (p : Params)
    (h0 : 0 ≤ p.minForce) (b : Bond) (hb : b ∈ network atoms edges p) :
    b.k = min (kOf p b.d2) p.base ∧ b.k ≤ p.base ∧ p.minForce < b.k := by
  obtain ⟨a, c, hac, hc, hgt, rfl⟩ := (mem_emit _ _ _ _).mp hb
  have hc' : c < (selection p.names atoms).length := hc
  have ha' : a < (selection p.names atoms).length := by omega
  have hlt := ((constEntry_gt_iff atoms edges p h0 a c hac hc').mp hgt).1
  have hne : (a == c) = false := by simp; omega
  have hv : constEntry p (mats atoms edges p) a c
      = min (kOf p (mget (mats atoms edges p).dist a c 0)) p.base := by
    have h1 := hgt
    rw [constEntry_eq _ _ _ _ _ ha' hc', hne] at h1 ⊢
    rw [mget_dist _ _ _ _ _ ha' hc']
    split at h1
    · next hl => rw [if_pos hl]; exact forceConst_value p _ h0 h1
    · exfalso; linarith
  refine ⟨hv, ?_, hgt⟩
  show constEntry p (mats atoms edges p) a c ≤ p.base
  rw [hv]; exact min_le_right _ _

/-! ## residue separation -/

/-- **bfs_correct.** The bounded BFS answers "is there a walk of at most `c` steps in the residue graph". -/
theorem bfs_correct (E : List (ResKey × ResKey)) (c : Nat) (a b : ResKey) :
    resConnected E c a b = true ↔ ∃ l : List ResKey, l.length ≤ c ∧ IsWalk E a l b := by
  unfold resConnected
  rw [List.contains_iff_mem]
  exact mem_ball E c a b

/-- Edges of the residue graph: one for every atom edge whose ends lie in residues with different keys. -/
theorem resEdges_spec (atoms : List Atom) (edges : List (Int × Int)) (ra rb : ResKey) :
    (ra, rb) ∈ resEdges atoms edges ↔
      ∃ e ∈ edges, ∃ a b, atomOfKey atoms e.1 = some a ∧ atomOfKey atoms e.2 = some b ∧
        a.res = ra ∧ b.res = rb ∧ ra ≠ rb := by
  unfold resEdges
  simp only [List.mem_filterMap]
  constructor
  · rintro ⟨e, he, h⟩
    split at h
    · next a b ha hb =>
      split at h
      · cases h
      · next hne => cases h; exact ⟨e, he, a, b, ha, hb, rfl, rfl, hne⟩
    · cases h
  · rintro ⟨e, he, a, b, ha, hb, rfl, rfl, hne⟩
    exact ⟨e, he, by rw [ha, hb]; simp [hne]⟩

/-! ## length rounding -/

/-- **len5_spec.** `len5Of d2` is a nearest integer to `sqrt d2 / 256 * 1e5`:
`|len5 - sqrt(d2)·3125/8| ≤ 1/2`, stated without square roots. -/
theorem len5_spec (d2 : Nat) :
    (2 * len5Of d2 - 1) * (2 * len5Of d2 - 1) * 64 ≤ 4 * d2 * (3125 * 3125) ∧
    4 * d2 * (3125 * 3125) ≤ (2 * len5Of d2 + 1) * (2 * len5Of d2 + 1) * 64 :=
  roundSqrtScaled_spec 3125 8 d2 (by decide)

/-! ## rigid motion -/

/-- **isometry_invariant.** Applying to all coordinates a map `T` of the lattice that preserves squared
distances (any rotation, reflection, translation) leaves the complete result unchanged: same outcome,
same bonds in the same order with the same lengths and constants. -/
theorem isometry_invariant (T : V3 → V3) (hT : ∀ u v, dist2 (T u) (T v) = dist2 u v)
    (atoms : List Atom) (edges : List (Int × Int)) (p : Params) :
    run (moveAll T atoms) edges p = run atoms edges p := by
  unfold run
  simp only []
  rw [selAtoms_moveAll, miss_move, nan_move]
  by_cases h1 : (((selection p.names atoms).map (atomAt atoms)).filter fun a => a.pos = Pos.missing).map (·.key) ≠ []
  · rw [if_pos h1, if_pos h1]
  · rw [if_neg h1, if_neg h1]
    by_cases h2 : (selection p.names atoms).map (atomAt atoms) = []
    · rw [if_pos (by rw [h2]; rfl), if_pos h2]
    · rw [if_neg (by simpa using h2), if_neg h2]
      by_cases h3 : (((selection p.names atoms).map (atomAt atoms)).any fun a => a.pos = Pos.nan) = true
      · rw [if_pos h3, if_pos h3]
      · rw [if_neg h3, if_neg h3]
        have hpos : ∀ i ∈ selection p.names atoms, ∃ x y z, (atomAt atoms i).pos = Pos.at x y z := by
          intro i hi
          cases hq : (atomAt atoms i).pos with
          | missing =>
            exfalso; apply h1
            have : (atomAt atoms i).key ∈ (((selection p.names atoms).map (atomAt atoms)).filter
                fun a => a.pos = Pos.missing).map (·.key) := by
              simp only [List.mem_map, List.mem_filter, decide_eq_true_eq]
              exact ⟨atomAt atoms i, ⟨⟨i, hi, rfl⟩, hq⟩, rfl⟩
            intro e; rw [e] at this; cases this
          | nan =>
            exfalso; apply h3
            simp only [List.any_eq_true, List.mem_map, decide_eq_true_eq]
            exact ⟨atomAt atoms i, ⟨i, hi, rfl⟩, hq⟩
          | «at» x y z => exact ⟨x, y, z, rfl⟩
        rw [mats_moveAll T hT atoms edges p hpos, emit_moveAll]

/-! ## atom order -/

/-- **emit_iff, orientation-free form.** For `minForce ≥ 0` and distinct node keys: the network has a bond
joining keys `ka`, `kb` (in either orientation) with squared distance `d`, length `l`, constant `k`
iff the molecule has two atoms with these keys that meet the five criteria, `d` is their squared
distance, `l` its rounded root and `k` the capped decayed constant.  Nothing on the right-hand side
mentions node indices or node order. -/
theorem emit_iff_atoms (atoms : List Atom) (edges : List (Int × Int)) (p : Params) (h0 : 0 ≤ p.minForce)
    (hk : KeysNodup atoms) (ka kb : Int) (d l : Nat) (k : Rat) :
    (∃ b ∈ network atoms edges p, joins b ka kb ∧ b.d2 = d ∧ b.len5 = l ∧ b.k = k) ↔
      ∃ A ∈ atoms, ∃ B ∈ atoms, A.key = ka ∧ B.key = kb ∧ A.key ≠ B.key ∧ CritA (resEdges atoms edges) p A B ∧
        d = dist2 (vec A.pos) (vec B.pos) ∧ l = len5Of d ∧ k = min (kOf p d) p.base :=
  bond_iff_atoms atoms edges p h0 hk ka kb d l k

/-- The five criteria are symmetric in the two atoms. -/
theorem criteria_symmetric (E : List (ResKey × ResKey)) (p : Params) (A B : Atom) :
    CritA E p A B ↔ CritA E p B A :=
  ⟨critA_symm E p A B, critA_symm E p B A⟩

/-- **order_invariant.** Listing the atoms of the molecule in another order (any permutation; node keys
distinct, edges unchanged) gives the same set of bonds as unordered key pairs, with the same lengths
and force constants.  (Orientation and order of emission follow the node order and do change.) -/
theorem order_invariant (atoms atoms' : List Atom) (hp : atoms.Perm atoms') (hk : KeysNodup atoms)
    (edges : List (Int × Int)) (p : Params) (h0 : 0 ≤ p.minForce) (ka kb : Int) (d l : Nat) (k : Rat) :
    (∃ b ∈ network atoms edges p, joins b ka kb ∧ b.d2 = d ∧ b.len5 = l ∧ b.k = k) ↔
    (∃ b ∈ network atoms' edges p, joins b ka kb ∧ b.d2 = d ∧ b.len5 = l ∧ b.k = k) := by
  have hk' : KeysNodup atoms' := (hp.map _).nodup_iff.mp hk
  rw [emit_iff_atoms atoms edges p h0 hk, emit_iff_atoms atoms' edges p h0 hk',
    resEdges_perm atoms atoms' hp hk edges]
  simp only [hp.mem_iff]

/-- If `run` produces bonds at all, they are `network`. -/
theorem run_bonds_eq (atoms : List Atom) (edges : List (Int × Int)) (p : Params) (bs : List Bond)
    (h : run atoms edges p = .bonds bs) : bs = network atoms edges p := by
  unfold run at h
  simp only [] at h
  split at h
  · cases h
  · split at h
    · cases h
    · split at h
      · cases h
      · cases h; rfl

/-! ## the known finding F-C15-1 and non-vacuity -/

def rk (c : String) (i : Int) : ResKey := { chain := some c, resid := some i, resname := some "ALA", icode := none }

/-- four backbone beads 1 nm apart on a line, chain bonded -/
def at4 : List Atom := [
  { key := 0, name := some "BB", res := rk "A" 1, oldResid := none, pos := .at 0 0 0 },
  { key := 1, name := some "BB", res := rk "A" 2, oldResid := none, pos := .at 256 0 0 },
  { key := 2, name := some "BB", res := rk "A" 3, oldResid := none, pos := .at 512 0 0 },
  { key := 3, name := some "BB", res := rk "A" 4, oldResid := none, pos := .at 768 0 0 }]
def ed4 : List (Int × Int) := [(0, 1), (1, 2), (2, 3)]
def pNeg : Params :=
  { names := ["BB"], sep := 0, upper2 := 230 * 230, base := 700, minForce := -1, kTab := [], dom := .always }
def pPos : Params :=
  { names := ["BB"], sep := 1, upper2 := 600 * 600, base := 700, minForce := 0, kTab := [], dom := .chain }

/-- **F-C15-1.** `emit_iff`/`emit_once` need `0 ≤ minForce`: with `minForce = -1` the model (like the
code) emits self-bonds and bonds beyond the cut-off, with force constant 0. -/
theorem neg_minforce_witness :
    pNeg.minForce < 0 ∧ KeysNodup at4 ∧
    (∃ b ∈ network at4 ed4 pNeg, b.a = b.b) ∧
    (∃ b ∈ network at4 ed4 pNeg, pNeg.upper2 < b.d2 ∧ b.k = 0) ∧
    (network at4 ed4 pNeg).length = 10 := by decide

instance (atoms : List Atom) (edges : List (Int × Int)) (p : Params) (i j : Nat) :
    Decidable (Criteria atoms edges p i j) := by unfold Criteria; infer_instance

/-- non-vacuity of `emit_iff`/`emit_once`/`force_is_capped_decay`: hypotheses satisfiable, both sides true
for the pair (0, 2), both sides false for the bonded neighbours (0, 1) -/
example : 0 ≤ pPos.minForce ∧ KeysNodup at4 ∧ Criteria at4 ed4 pPos 0 2 ∧ ¬ Criteria at4 ed4 pPos 0 1 ∧
    (network at4 ed4 pPos).length = 2 := by decide

/-- non-vacuity of `run_bonds` / `run_bonds_eq` -/
example : selection pPos.names at4 ≠ [] ∧
    ∀ i ∈ selection pPos.names at4, ∃ x y z, (atomAt at4 i).pos = Pos.at x y z := by
  have h : selection pPos.names at4 = [0, 1, 2, 3] := by decide
  rw [h]
  refine ⟨by decide, ?_⟩
  intro i hi
  simp only [List.mem_cons, List.not_mem_nil, or_false] at hi
  rcases hi with rfl | rfl | rfl | rfl <;> exact ⟨_, _, _, rfl⟩

/-- non-vacuity of `nan_no_network` -/
example : run [{ key := 0, name := some "BB", res := rk "A" 1, oldResid := none, pos := .nan },
               { key := 1, name := some "SC1", res := rk "A" 1, oldResid := none, pos := .missing }] [] pPos
    = .nanWarning := by decide

/-- non-vacuity of `isometry_invariant`: a rotation by 90° about z followed by a translation -/
example : ∀ u v : V3, dist2 ((fun w : V3 => (w.2.1 + 5, -w.1, w.2.2 - 3)) u) ((fun w : V3 => (w.2.1 + 5, -w.1, w.2.2 - 3)) v)
    = dist2 u v := by
  intro u v
  unfold dist2
  congr 1
  ring

/-- non-vacuity of `order_invariant`: a reversed molecule is a permutation with distinct keys -/
example : at4.Perm at4.reverse ∧ KeysNodup at4 ∧
    (network at4.reverse ed4 pPos).map (fun b => (b.a, b.b)) = [(3, 1), (2, 0)] ∧
    (network at4 ed4 pPos).map (fun b => (b.a, b.b)) = [(0, 2), (1, 3)] :=
  ⟨(List.reverse_perm at4).symm, by decide, by decide, by decide⟩

/-- non-vacuity of `bfs_correct`: a walk of two steps -/
example : resConnected (resEdges at4 ed4) 2 (rk "A" 1) (rk "A" 3) = true ∧
    resConnected (resEdges at4 ed4) 1 (rk "A" 1) (rk "A" 3) = false := by decide

/-! ## the processor object: option resolution and reuse -/

/-- **explicit_option_kept.** A bond type / residue separation given to the constructor (anything but `None`,
0 included) is what `run_molecule` uses, whatever the force field says. -/
theorem explicit_option_kept (p : Proc) (vars : List (String × Int)) :
    (∀ v, p.bondType = some v → (resolveOptions p vars).bondType = v) ∧
    (∀ v, p.resMinDist = some v → (resolveOptions p vars).resMinDist = v) := by
  constructor <;> intro v h <;> simp [resolveOptions, orVariable, h]

/-- **fallback_is_variable_else_default.** An option left at `None` takes the value of the force-field variable
named by the processor if the force field of THIS molecule has it, else the documented default (6 / 2). -/
theorem fallback_is_variable_else_default (p : Proc) (vars : List (String × Int)) :
    (p.bondType = none → (resolveOptions p vars).bondType = (vars.lookup p.bondTypeVar).getD 6) ∧
    (p.resMinDist = none → (resolveOptions p vars).resMinDist = (vars.lookup p.resMinDistVar).getD 2) := by
  constructor <;> intro h <;> simp [resolveOptions, orVariable, h, DEFAULT_BOND_TYPE, DEFAULT_RMD]

/-- Everything else comes from the constructor, never from the force field. -/
theorem constructor_options_pass_through (p : Proc) (vars : List (String × Int)) :
    let o := resolveOptions p vars
    o.names = p.names ∧ o.lower = p.lower ∧ o.upper = p.upper ∧ o.decayFactor = p.decayFactor ∧
    o.decayPower = p.decayPower ∧ o.base = p.base ∧ o.minForce = p.minForce := by
  simp [resolveOptions]

/-- The squared cut-off handed to `run`: `d2 ≤ upper2Of u` iff `d2 ≤ (256 u)²`. -/
theorem upper2Of_spec (u : Rat) (d2 : Nat) :
    d2 ≤ upper2Of u ↔ (d2 : Rat) ≤ (u * 256) * (u * 256) := by
  unfold upper2Of
  have h0 : (0 : Int) ≤ ((u * 256) * (u * 256)).floor := by
    rw [Rat.le_floor_iff]; simpa using mul_self_nonneg (u * 256)
  rw [← Int.ofNat_le, Int.toNat_of_nonneg h0, Rat.le_floor_iff]
  simp

/-- **processor_stateless.** One `ApplyRubberBand` object applied to several molecules in a row (different
force fields, variables, atoms) gives on each of them what a freshly constructed processor with the same
constructor arguments gives on that molecule alone, and its configuration is unchanged afterwards. -/
theorem processor_stateless (p : Proc) (ms : List MolInput) :
    runHistory p ms = ms.map (runMolecule p) := by
  induction ms with
  | nil => rfl
  | cons m ms ih => simp only [runHistory, procStep, List.map_cons, ih]

theorem processor_config_unchanged (p : Proc) (m : MolInput) : (procStep p m).1 = p := rfl

/-- **shared_criteria_stateless.** Several processor objects — built with different arguments, possibly sharing one
domain-criterion object (a region criterion made once, `same_chain`) or one selector — applied in ANY interleaving to
any molecules: each application gives what a fresh processor with the arguments of that object gives on that
molecule alone.  Neither the processors nor the shared criterion carry anything from one application to the next. -/
theorem shared_criteria_stateless (ps : List Proc) (sched : List (Nat × MolInput)) (h : ∀ im ∈ sched, im.1 < ps.length) :
    runInterleaved ps sched = sched.map fun im => runMolecule (ps.getD im.1 default) im.2 := by
  induction sched with
  | nil => rfl
  | cons im rest ih =>
    have hi : im.1 < ps.length := h im (List.mem_cons_self ..)
    simp only [runInterleaved, procStep, List.map_cons]
    rw [set_getD_self ps im.1 default hi, ih (fun x hx => h x (List.mem_cons_of_mem _ hx))]

def procNone : Proc :=
  { names := ["BB"], lower := 0, upper := 230 / 256, decayFactor := 0, decayPower := 0, base := 700, minForce := 0,
    resMinDist := none, bondType := none, bondTypeVar := "elastic_network_bond_type",
    resMinDistVar := "elastic_network_res_min_dist", dom := .always }

/-- non-vacuity: explicit 0 is kept although the force field offers 3; `None` takes the variable of the second
force field and the default with the third; the same object sees a different value per molecule -/
example :
    (resolveOptions { procNone with resMinDist := some 0, bondType := some 0 }
        [("elastic_network_res_min_dist", 3), ("elastic_network_bond_type", 1)]).resMinDist = 0 ∧
    (resolveOptions { procNone with resMinDist := some 0, bondType := some 0 }
        [("elastic_network_res_min_dist", 3), ("elastic_network_bond_type", 1)]).bondType = 0 ∧
    (resolveOptions procNone [("elastic_network_res_min_dist", 3)]).resMinDist = 3 ∧
    (resolveOptions procNone [("elastic_network_res_min_dist", 0)]).resMinDist = 0 ∧
    (resolveOptions procNone [("other", 3)]).resMinDist = 2 ∧
    (resolveOptions procNone []).bondType = 6 := by decide

/-- non-vacuity of `upper2Of_spec`: a cut-off of 230 lattice units -/
example : upper2Of procNone.upper = 230 * 230 := by decide +kernel

/-! ## residue regions: overlapping, unordered -/

/-- **region_criterion_iff.** Two atoms share a region domain iff SOME region holds both residues
(bounds of a region in either order); the first region that holds the left residue does not settle it. -/
theorem region_criterion_iff (rs : List (Int × Int)) (a b : Atom) :
    crit (.regions rs) a b = true ↔
      ∃ r ∈ rs, (min r.1 r.2 ≤ effResid a ∧ effResid a ≤ max r.1 r.2) ∧
                (min r.1 r.2 ≤ effResid b ∧ effResid b ≤ max r.1 r.2) := by
  simp [crit, inRegion]

/-- the order in which the regions are listed is irrelevant -/
theorem region_order_irrelevant (rs rs' : List (Int × Int)) (h : rs.Perm rs') (a b : Atom) :
    crit (.regions rs) a b = crit (.regions rs') a b := by
  rw [Bool.eq_iff_iff, region_criterion_iff, region_criterion_iff]
  simp only [h.mem_iff]

/-- the order of the two bounds of a region is irrelevant -/
theorem region_bounds_unordered (x y : Int) (rs : List (Int × Int)) (a b : Atom) :
    crit (.regions ((x, y) :: rs)) a b = crit (.regions ((y, x) :: rs)) a b := by
  rw [Bool.eq_iff_iff, region_criterion_iff, region_criterion_iff]
  constructor <;> rintro ⟨r, hr, h⟩
  · rcases List.mem_cons.mp hr with rfl | hr'
    · exact ⟨(y, x), List.mem_cons_self .., by simpa [min_comm, max_comm] using h⟩
    · exact ⟨r, List.mem_cons_of_mem _ hr', h⟩
  · rcases List.mem_cons.mp hr with rfl | hr'
    · exact ⟨(x, y), List.mem_cons_self .., by simpa [min_comm, max_comm] using h⟩
    · exact ⟨r, List.mem_cons_of_mem _ hr', h⟩

/-- overlapping regions (1..5, 4..8): residues 4 and 7 share the second region although the first one holds
residue 4 as well; with disjoint regions they do not share one -/
example :
    crit (.regions [(1, 5), (4, 8)]) { (default : Atom) with oldResid := some 4 } { (default : Atom) with oldResid := some 7 } = true ∧
    crit (.regions [(5, 1), (8, 4)]) { (default : Atom) with oldResid := some 7 } { (default : Atom) with oldResid := some 4 } = true ∧
    crit (.regions [(1, 5), (6, 8)]) { (default : Atom) with oldResid := some 4 } { (default : Atom) with oldResid := some 7 } = false := by
  decide

end C15
