import VermouthModel.C15
namespace C15
theorem placeholder : True := trivial
end C15
