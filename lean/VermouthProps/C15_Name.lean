import VermouthProofs.C15_Name
import VermouthProofs.C15_Cli
/-!
# C15 — the molecule types are assigned again after the elastic network

`bin/martinize2`, end of the `if args.elastic:` block: `rubber_band_processor.run_system(system)` and then
`vermouth.NameMolType(deduplicate=not args.keep_duplicate_itp, molname=args.molname).run_system(system)`.
`cliEvents a` lists the `run_system` calls of the block in source order; `typesAfterNetwork dedup sys nets` are the
type ids `NameMolType` gives to the molecules `sys` after the networks `nets` were added to their `bonds`
(naming loop and `share_moltype_with` of the C03 model).
-/
namespace C15
open C03 (Mol Inter)

/-- **cli_renames_after_network.** Whenever the block builds a processor, its calls are: `MergeAllMolecules` (exactly for
`-eunit all`), then the network on every molecule, then — LAST — `NameMolType` with `deduplicate = not -sep` and the
`-name` prefix (default `molecule`).  There is exactly one network step and nothing follows the naming; when no
processor is built the block names nothing. -/
theorem cli_renames_after_network (a : CliArgs) :
    (∀ m d p, cliBuild a = .processor m d p →
      ∃ pre, cliEvents a = pre ++ [.network p, .nameTypes (!a.sep) (a.molname.getD "molecule".toList)] ∧
        (∀ e ∈ pre, e = .mergeAll) ∧ (pre ≠ [] ↔ m = true) ∧
        (cliEvents a).getLast? = some (.nameTypes (!a.sep) (a.molname.getD "molecule".toList))) ∧
    ((∀ m d p, cliBuild a ≠ .processor m d p) → cliEvents a = []) := by
  constructor
  · intro m d p h
    unfold cliEvents
    rw [h]
    refine ⟨if m then [.mergeAll] else [], rfl, ?_, ?_, ?_⟩
    · intro e he; cases m <;> simp_all
    · cases m <;> simp
    · cases m <;> rfl
  · intro h
    unfold cliEvents
    split
    · next m d p hp => exact absurd hp (h m d p)
    · rfl

/-- **same_type_same_network.** After the networks were added, two molecules of the system get the same molecule type
only if their categories `bonds` are equal as lists (what they had, followed by the network: atoms, parameters and
meta of every bond, in order) … -/
theorem same_type_same_network (dedup : Bool) (sys : List Mol) (nets : List (List Inter)) (i j : Nat)
    (mi mj : Mol) (ni nj : List Inter) (g : Nat)
    (hmi : sys[i]? = some mi) (hni : nets[i]? = some ni) (hmj : sys[j]? = some mj) (hnj : nets[j]? = some nj)
    (hgi : (typesAfterNetwork dedup sys nets)[i]? = some g) (hgj : (typesAfterNetwork dedup sys nets)[j]? = some g) :
    bondsOf mi ++ ni = bondsOf mj ++ nj := by
  unfold typesAfterNetwork at hgi hgj
  have hai := getElem?_zipWith_applyNet sys nets i mi ni hmi hni
  have haj := getElem?_zipWith_applyNet sys nets j mj nj hmj hnj
  have hhead : C03.HeadRefl (C03.shareMolType C03.npClose) (List.zipWith applyNet sys nets) := by
    intro m0 _
    exact C03.shareMolType_refl C03.npClose C03.npClose_refl m0
  obtain ⟨r, hr, h1⟩ := C03.shared_name_share _ dedup _ hhead i _ g hai hgi
  obtain ⟨r', hr', h2⟩ := C03.shared_name_share _ dedup _ hhead j _ g haj hgj
  rw [hr] at hr'
  cases hr'
  have e1 : C03.relevantInters (applyNet mi ni) = C03.relevantInters r := by
    rcases h1 with h | ⟨_, h⟩
    · rw [h]
    · exact shareMolType_relevant _ _ _ h
  have e2 : C03.relevantInters (applyNet mj nj) = C03.relevantInters r := by
    rcases h2 with h | ⟨_, h⟩
    · rw [h]
    · exact shareMolType_relevant _ _ _ h
  rw [← catOf_relevant_applyNet mi ni, ← catOf_relevant_applyNet mj nj, e1, e2]

/-- … in particular, for two molecules that carried equally many bonds before (two copies of one chain), only if
their elastic networks are equal bond for bond: the lists `apply_rubber_band` emitted (model: `network`), each bond
with its atoms, bond type, length and force constant. -/
theorem same_type_same_emitted_bonds (dedup : Bool) (sys : List Mol) (bt : Int) (emitted : List (List Bond))
    (i j : Nat) (mi mj : Mol) (bi bj : List Bond) (g : Nat)
    (hmi : sys[i]? = some mi) (hbi : emitted[i]? = some bi) (hmj : sys[j]? = some mj) (hbj : emitted[j]? = some bj)
    (hlen : (bondsOf mi).length = (bondsOf mj).length)
    (hgi : (typesAfterNetwork dedup sys (emitted.map fun bs => bs.map (interOfBond bt)))[i]? = some g)
    (hgj : (typesAfterNetwork dedup sys (emitted.map fun bs => bs.map (interOfBond bt)))[j]? = some g) :
    bi.map (interOfBond bt) = bj.map (interOfBond bt) ∧ bi.length = bj.length ∧
      bi.map (fun b => (b.a, b.b)) = bj.map (fun b => (b.a, b.b)) := by
  have h := same_type_same_network dedup sys _ i j mi mj (bi.map (interOfBond bt)) (bj.map (interOfBond bt)) g
    hmi (by simp [hbi]) hmj (by simp [hbj]) hgi hgj
  have he := (List.append_inj h hlen).2
  refine ⟨he, by simpa using congrArg List.length he, ?_⟩
  have := congrArg (List.map fun x : Inter => x.atoms) he
  simp only [List.map_map] at this
  have hp : ∀ l : List Bond, l.map (fun b => (b.a, b.b)) =
      (l.map ((fun x : Inter => x.atoms) ∘ interOfBond bt)).map fun a => (a.getD 0 0, a.getD 1 0) := by
    intro l; simp [interOfBond, Function.comp]
  rw [hp, hp, this]

/-! ## non-vacuity -/

def chainMol : Mol :=
  { nrexcl := some 1, ff := some 0, metadata := [], nodes := [{ key := 0, attrs := [] }, { key := 1, attrs := [] },
    { key := 2, attrs := [] }], edges := [(0, 1), (1, 2)], inters := [("bonds", [{ atoms := [0, 1], rest := "1 0.35 1250" }])] }

def netA : List Inter := [{ atoms := [0, 2], rest := "6 0.61000 500/1 Rubber band" }]
def netB : List Inter := [{ atoms := [0, 2], rest := "6 0.58000 500/1 Rubber band" }]

/-- a homodimer in two conformations: equal before the network, different networks → two types; equal networks → one
type; `-sep` → always two -/
example : typesAfterNetwork true [chainMol, chainMol] [netA, netB] = [0, 1] ∧
    typesAfterNetwork true [chainMol, chainMol] [netA, netA] = [0, 0] ∧
    typesAfterNetwork true [chainMol, chainMol] [[], []] = [0, 0] ∧
    typesAfterNetwork false [chainMol, chainMol] [netA, netA] = [0, 1] := by decide +kernel

def argsDefault' : CliArgs :=
  { elastic := true, go := false, toFF := "martini22".toList, ef := none, el := none, eu := none, ea := none,
    ep := none, em := none, ermd := none, eb := none, eunit := none }

def argsAll : CliArgs := { argsDefault' with eunit := some "all".toList, sep := true, molname := some "prot".toList }

example : cliEvents argsDefault' = [.network (cliProc argsDefault' none .always), .nameTypes true "molecule".toList] ∧
    cliEvents argsAll = [.mergeAll, .network (cliProc argsAll none .always), .nameTypes false "prot".toList] ∧
    cliEvents { argsDefault' with elastic := false } = [] := by decide +kernel

end C15
