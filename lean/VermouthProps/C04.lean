import VermouthProofs.C04_Final
import VermouthProps.C06
/-!
# C04 — atoms are identified by connectivity, not by the names in the input

Property theorems about `C04.repairResidue`, the model of `repair_residue` + the flagging part of
`repair_graph` (vermouth/processors/repair_graph.py) GIVEN the node of the reference graph made by
`make_reference`: block `R.block`, atoms of the residue `R.found`, match `R.mtch` (block atom ↦
molecule atom), residue attributes `R.common`.

The matcher (ISMAGS `largest_common_subgraph`) is not transcribed.  Its specification is
`R.mtch ∈ Iso.allMCIS (resGraph m R.found) (blockGraph R.block)`: a maximum common induced
subgraph on element colours (reference and theorems of C06).  Theorems that do not mention
`allMCIS` hold for every match satisfying the decidable `WF m R` (block keys distinct, molecule
keys distinct, match functional and injective, `dom ⊆ block`, `ran ⊆ found ⊆ molecule`), which
every member of `allMCIS` does (`wf_of_mcis`).

Vocabulary: `nameOf b r` / `elemOf b r` canonical name / element of block atom `r`;
`(repairResidue m R).mtch` the match after rebuilding, `.lost` block atoms that could not be
rebuilt, `.mol` the molecule afterwards; `hasEdge es u v` = bonded; `connectedB b` = every block
atom is reached from the first one by breadth-first expansion; `extraAtoms found M` = atoms of the
residue outside `ran M` (the ones `repair_graph` flags `PTM_atom`).
-/
namespace C04
open Iso

def NamesDistinct (b : Block) : Prop := (b.nodes.map (·.name)).Nodup
instance (b : Block) : Decidable (NamesDistinct b) := by unfold NamesDistinct; infer_instance

/-! ## the rebuild loop terminates -/

/-- One pass either changes nothing — then every missing atom it visited has only missing
neighbours — or it rebuilds something and `missing` gets strictly shorter. -/
theorem pass_progress (R : Residue) (cur : List Int) (st : RState) (hn : cur.Nodup) :
    (pass R cur cur st false = (cur, st, false) ∧ ∀ r ∈ cur, stuck R.block.edges cur r = true)
    ∨ ((pass R cur cur st false).2.2 = true ∧ (pass R cur cur st false).1.length < cur.length) :=
  pass_len R cur cur st false hn (fun _ h => h)

/-- **Termination** of `while missing and added`: `missing.length + 1` passes always suffice — any
larger bound on the number of passes gives the same result — and when the loop stops, every atom
still missing has only missing neighbours (the loop's own exit condition, nothing was cut off). -/
theorem rebuild_terminates (R : Residue) (cur : List Int) (st : RState) (hn : cur.Nodup)
    (fuel : Nat) (hf : cur.length < fuel) :
    rebuild R fuel cur st = rebuild R (cur.length + 1) cur st
    ∧ ∀ r ∈ (rebuild R fuel cur st).1, stuck R.block.edges (rebuild R fuel cur st).1 r = true :=
  ⟨rebuild_fuel R fuel (cur.length + 1) cur st hn hf (Nat.lt_succ_self _), rebuild_end R fuel cur st hn hf⟩

/-! ## canonical names -/

/-- The atom that plays block atom `r` after the repair (matched or rebuilt) exists in the
molecule and carries the name and the element of `r`. -/
theorem canonical_names (m : Mol) (R : Residue) (h : WF m R) :
    ∀ p ∈ (repairResidue m R).mtch, ∃ a ∈ (repairResidue m R).mol.nodes,
      a.key = p.2 ∧ a.name = nameOf R.block p.1 ∧ a.elem = elemOf R.block p.1 := by
  intro p hp
  have hinv := inv_final m R h
  have hp' : p ∈ (rebuilt m R).2.mtch := hp
  obtain ⟨a, ha, hk, hn⟩ := hinv.named p hp'
  refine ⟨a, ?_, hk, hn⟩
  rw [repairResidue_mol]
  apply flagExtra_keep _ ha
  unfold extraAtoms
  intro hc
  have := (List.mem_filter.1 hc).2
  simp only [Bool.not_eq_true', List.contains_eq_mem, decide_eq_false_iff_not] at this
  exact this (by rw [hk]; exact mem_ran_of_mem hp')

theorem out_keys_nodup (m : Mol) (R : Residue) (h : WF m R) :
    ((repairResidue m R).mol.nodes.map (·.key)).Nodup := by
  rw [repairResidue_mol]; exact flagExtra_keys_nodup _ (inv_final m R h).keysNd

/-- **Names are unique**: if the block's atom names are distinct (and the match is injective: part
of `WF`), two recognised atoms (atoms in the range of the final match) with the same name are the
same atom. -/
theorem names_unique (m : Mol) (R : Residue) (h : WF m R) (hB : NamesDistinct R.block) :
    ∀ a ∈ (repairResidue m R).mol.nodes, ∀ b ∈ (repairResidue m R).mol.nodes,
      a.key ∈ ran (repairResidue m R).mtch → b.key ∈ ran (repairResidue m R).mtch →
      a.name = b.name → a = b := by
  intro a ha b hb hka hkb hname
  have hinv := inv_final m R h
  have hnd := out_keys_nodup m R h
  rw [repairResidue_mtch] at hka hkb
  obtain ⟨p, hp, hpk⟩ := List.mem_map.1 hka
  obtain ⟨q, hq, hqk⟩ := List.mem_map.1 hkb
  obtain ⟨a', ha', hk1, hn1, _⟩ := canonical_names m R h p hp
  obtain ⟨b', hb', hk2, hn2, _⟩ := canonical_names m R h q hq
  have ea : a' = a := inj_of_nodup_map hnd ha' ha (by rw [hk1, hpk])
  have eb : b' = b := inj_of_nodup_map hnd hb' hb (by rw [hk2, hqk])
  subst ea; subst eb
  -- equal canonical names: the same block atom
  have hp' : p ∈ (rebuilt m R).2.mtch := hp
  have hq' : q ∈ (rebuilt m R).2.mtch := hq
  obtain ⟨r1, _, hr1k, hr1m⟩ := find_of_mem_keys (hinv.domSub p.1 (mem_dom_of_mem hp'))
  obtain ⟨r2, _, hr2k, hr2m⟩ := find_of_mem_keys (hinv.domSub q.1 (mem_dom_of_mem hq'))
  have e1 := (nameOf_of_mem h.1 hr1m).1
  have e2 := (nameOf_of_mem h.1 hr2m).1
  rw [hr1k] at e1; rw [hr2k] at e2
  have hr : r1 = r2 := inj_of_nodup_map hB hr1m hr2m (by rw [← e1, ← e2, ← hn1, ← hn2, hname])
  have hpq1 : p.1 = q.1 := by rw [← hr1k, ← hr2k, hr]
  have hl1 := Iso.lookup_of_mem hinv.domNd (u := p.1) (t := p.2) hp'
  have hl2 := Iso.lookup_of_mem hinv.domNd (u := q.1) (t := q.2) hq'
  rw [hpq1, hl2] at hl1
  have hkk : a'.key = b'.key := by rw [hk1, hk2]; exact (Option.some.inj hl1).symm
  exact inj_of_nodup_map hnd ha hb hkk

/-! ## rebuilding -/

/-- **The rebuild is complete**: if the block is connected and at least one block atom was
matched, then nothing is lost, every block atom is played by an atom of the molecule afterwards,
and every block bond with a rebuilt end (an end outside `dom` of the original match) exists
between the atoms that play its ends. -/
theorem rebuild_complete (m : Mol) (R : Residue) (h : WF m R) (hc : connectedB R.block = true)
    (hne : R.mtch ≠ []) :
    (repairResidue m R).lost = []
    ∧ (∀ r ∈ R.block.keys, ∃ k, (r, k) ∈ (repairResidue m R).mtch ∧ k ∈ (repairResidue m R).mol.keys)
    ∧ (∀ e ∈ R.block.edges, ∀ k1 k2, (e.1, k1) ∈ (repairResidue m R).mtch → (e.2, k2) ∈ (repairResidue m R).mtch →
        ((e.1, k1) ∉ R.mtch ∨ (e.2, k2) ∉ R.mtch) → hasEdge (repairResidue m R).mol.edges k1 k2 = true) := by
  have hinv := inv_final m R h
  have hnil := rebuilt_nil m R h hc hne
  have hnotextra : ∀ k ∈ ran (rebuilt m R).2.mtch, k ∉ extraAtoms R.found (rebuilt m R).2.mtch := by
    intro k hk hc
    have := (List.mem_filter.1 hc).2
    simp only [Bool.not_eq_true', List.contains_eq_mem, decide_eq_false_iff_not] at this
    exact this hk
  refine ⟨hnil, ?_, ?_⟩
  · intro r hr
    rcases hinv.cover r hr with hcur | hdom
    · rw [hnil] at hcur; cases hcur
    · obtain ⟨p, hp, hp1⟩ := List.mem_map.1 hdom
      refine ⟨p.2, by rw [← hp1]; exact hp, ?_⟩
      obtain ⟨a, ha, hk, _⟩ := canonical_names m R h p hp
      exact List.mem_map.2 ⟨a, ha, hk⟩
  · intro e he k1 k2 h1 h2 hnot
    rw [repairResidue_mol, flagExtra_hasEdge (hnotextra k1 (mem_ran_of_mem h1)) (hnotextra k2 (mem_ran_of_mem h2))]
    exact hinv.edgesNew e he k1 k2 h1 h2 hnot

/-- The atoms and bonds the residue had before stay: the rebuild only appends atoms with fresh keys
and bonds with a fresh end, and the original match is a prefix of the final one. -/
theorem rebuild_conservative (m : Mol) (R : Residue) (h : WF m R) :
    (∃ ext, (repairResidue m R).mtch = R.mtch ++ ext ∧ ∀ p ∈ ext, p.2 ∉ m.keys)
    ∧ (∀ u ∈ m.keys, ∀ v ∈ m.keys, u ∉ extraAtoms R.found (repairResidue m R).mtch →
        v ∉ extraAtoms R.found (repairResidue m R).mtch →
        hasEdge (repairResidue m R).mol.edges u v = hasEdge m.edges u v) := by
  have hinv := inv_final m R h
  have hkeys : (canonicalise R.block R.mtch m.nodes).map (·.key) = m.keys := canonicalise_keys _ _ _
  constructor
  · obtain ⟨ext, he, hf⟩ := hinv.mext
    exact ⟨ext, he, fun p hp => by rw [← hkeys]; exact hf p hp⟩
  · intro u hu v hv hue hve
    rw [repairResidue_mtch] at hue hve
    rw [repairResidue_mol, flagExtra_hasEdge hue hve]
    apply Bool.eq_iff_iff.2
    rw [hasEdge_iff, hasEdge_iff]
    constructor
    · rintro ⟨e, he, hh⟩
      rcases hinv.edgesOld e he with h0 | h0 | h0
      · exact ⟨e, h0, hh⟩
      · exfalso; rw [hkeys] at h0; rcases hh with ⟨h1, _⟩ | ⟨h1, _⟩
        · exact h0 (h1 ▸ hu)
        · exact h0 (h1 ▸ hv)
      · exfalso; rw [hkeys] at h0; rcases hh with ⟨_, h2⟩ | ⟨_, h2⟩
        · exact h0 (h2 ▸ hv)
        · exact h0 (h2 ▸ hu)
    · rintro ⟨e, he, hh⟩; exact ⟨e, hinv.edgesMono e he, hh⟩

/-! ## the matcher's specification -/

theorem blockGraph_keys (b : Block) : (blockGraph b).keys = b.keys := by
  simp [blockGraph, Graph.keys, Block.keys, List.map_map, Function.comp_def]

theorem mem_resGraph_keys (m : Mol) (found : List Int) (k : Int) :
    k ∈ (resGraph m found).keys ↔ k ∈ found ∧ k ∈ m.keys := by
  simp only [resGraph, Graph.keys, Mol.keys, List.map_map, List.mem_map, List.mem_filter, Function.comp_def,
    List.contains_eq_mem, decide_eq_true_eq]
  constructor
  · rintro ⟨a, ⟨ha, hf⟩, hk⟩; exact ⟨hk ▸ hf, a, ha, hk⟩
  · rintro ⟨hf, a, ha, hk⟩; exact ⟨a, ⟨ha, hk ▸ hf⟩, hk⟩

theorem nodup_map_of_inj_on {f : Int → Int} {l : List Int} (hl : l.Nodup)
    (h : ∀ u ∈ l, ∀ v ∈ l, u ≠ v → f u ≠ f v) : (l.map f).Nodup := by
  induction l with
  | nil => simp
  | cons a l ih =>
    have hn : a ∉ l ∧ l.Nodup := List.nodup_cons.1 hl
    simp only [List.map_cons]
    refine List.nodup_cons.2 ⟨?_, ih hn.2 (fun u hu v hv => h u (List.mem_cons_of_mem _ hu) v (List.mem_cons_of_mem _ hv))⟩
    intro hc
    obtain ⟨b, hb, e⟩ := List.mem_map.1 hc
    exact h b (List.mem_cons_of_mem _ hb) a (by simp) (fun e' => hn.1 (e' ▸ hb)) e

theorem ran_eq_map_toFun {M : Map} (hn : (dom M).Nodup) : ran M = (dom M).map (Map.toFun M) := by
  have := congrArg (List.map Prod.snd) (Iso.map_toFun_eq hn)
  simp only [List.map_map, Function.comp_def] at this
  unfold ran dom
  rw [← this, List.map_map]; rfl

/-- what the specification of the matcher says about a match, in the vocabulary of this file -/
theorem mcis_facts (m : Mol) (R : Residue) (hB : R.block.keys.Nodup)
    (hM : R.mtch ∈ allMCIS (resGraph m R.found) (blockGraph R.block)) :
    (dom R.mtch).Sublist R.block.keys ∧ (dom R.mtch).Nodup ∧ (ran R.mtch).Nodup
    ∧ (∀ k ∈ ran R.mtch, k ∈ R.found ∧ k ∈ m.keys)
    ∧ R.mtch.length = mcisSize (resGraph m R.found) (blockGraph R.block) := by
  have hs : (blockGraph R.block).keys.Nodup := by rw [blockGraph_keys]; exact hB
  obtain ⟨h1, h2, h3⟩ := C06.allMCIS_sound _ _ hs _ hM
  rw [blockGraph_keys] at h1
  have hdn : (dom R.mtch).Nodup := h1.nodup hB
  refine ⟨h1, hdn, ?_, ?_, h3⟩
  · rw [ran_eq_map_toFun hdn]; exact nodup_map_of_inj_on hdn h2.inj
  · intro k hk
    rw [ran_eq_map_toFun hdn] at hk
    obtain ⟨u, hu, e⟩ := List.mem_map.1 hk
    have := (h2.node u hu).1
    rw [e] at this
    exact (mem_resGraph_keys _ _ _).1 this

/-- every answer of the specified matcher is well-formed -/
theorem wf_of_mcis (m : Mol) (R : Residue) (hB : R.block.keys.Nodup) (hm : m.keys.Nodup)
    (hf : ∀ k ∈ R.found, k ∈ m.keys)
    (hM : R.mtch ∈ allMCIS (resGraph m R.found) (blockGraph R.block)) : WF m R := by
  obtain ⟨h1, h2, h3, h4, _⟩ := mcis_facts m R hB hM
  exact ⟨hB, hm, h2, h3, fun r hr => h1.subset hr, fun k hk => (h4 k hk).1, hf⟩

/-- **The name assignment is an embedding**: a match allowed by the specification maps distinct
block atoms to distinct atoms of the residue, preserves the element, and two matched block atoms are
bonded exactly if their images are (induced, both directions; `ecol` is `some _` for a bond and
`none` for no bond, see `C06.graph_reading`).  Together with `canonical_names` (the image of `r`
carries the name of `r`) and `rebuild_conservative` (the bonds among input atoms are untouched)
this is the statement about the repaired molecule. -/
theorem assignment_embedding (m : Mol) (R : Residue) (hB : R.block.keys.Nodup)
    (hM : R.mtch ∈ allMCIS (resGraph m R.found) (blockGraph R.block)) :
    (∀ p ∈ R.mtch, ∀ q ∈ R.mtch, p.1 ≠ q.1 → p.2 ≠ q.2)
    ∧ (∀ p ∈ R.mtch, (resGraph m R.found).ncol p.2 = (blockGraph R.block).ncol p.1)
    ∧ (∀ p ∈ R.mtch, ∀ q ∈ R.mtch, p.1 ≠ q.1 →
        (resGraph m R.found).ecol p.2 q.2 = (blockGraph R.block).ecol p.1 q.1) := by
  have hs : (blockGraph R.block).keys.Nodup := by rw [blockGraph_keys]; exact hB
  obtain ⟨h1, h2, _⟩ := C06.allMCIS_sound _ _ hs _ hM
  have hdn : ((R.mtch).map Prod.fst).Nodup := h1.nodup hs
  have htf : ∀ p ∈ R.mtch, Map.toFun R.mtch p.1 = p.2 := fun p hp => Iso.toFun_of_mem hdn (u := p.1) (t := p.2) hp
  have hd : ∀ p ∈ R.mtch, p.1 ∈ R.mtch.map Prod.fst := fun p hp => List.mem_map.2 ⟨p, hp, rfl⟩
  refine ⟨?_, ?_, ?_⟩
  · intro p hp q hq hne
    have := h2.inj p.1 (hd p hp) q.1 (hd q hq) hne
    rwa [htf p hp, htf q hq] at this
  · intro p hp
    have := (h2.node p.1 (hd p hp)).2
    unfold colourPred at this
    rw [htf p hp] at this
    simpa using this
  · intro p hp q hq hne
    have := h2.edge p.1 (hd p hp) q.1 (hd q hq) hne
    rwa [htf p hp, htf q hq] at this

/-! ## what gets flagged -/

/-- an atom of the residue is extra w.r.t. the final match iff it is outside the ORIGINAL match:
rebuilt atoms have fresh keys -/
theorem extra_final_iff (m : Mol) (R : Residue) (h : WF m R) (k : Int) :
    k ∈ extraAtoms R.found (repairResidue m R).mtch ↔ k ∈ R.found ∧ k ∉ ran R.mtch := by
  obtain ⟨⟨ext, he, hfresh⟩, _⟩ := rebuild_conservative m R h
  unfold extraAtoms
  simp only [List.mem_filter, Bool.not_eq_true', List.contains_eq_mem, decide_eq_false_iff_not]
  rw [he, ran_append]
  constructor
  · rintro ⟨hf, hn⟩; exact ⟨hf, fun hc => hn (List.mem_append_left _ hc)⟩
  · rintro ⟨hf, hn⟩
    refine ⟨hf, fun hc => ?_⟩
    rcases List.mem_append.1 hc with hc | hc
    · exact hn hc
    · obtain ⟨p, hp, e⟩ := List.mem_map.1 hc
      exact hfresh p hp (e ▸ h.2.2.2.2.2.2 k hf)

/-- **Flagged ⟺ beyond the match, and the match is a largest possible one.**
For a block without `PTM_atom` marks of its own (no modification patched in) and an input without
flags: an atom of the residue is flagged (every atom with its key in the output has `PTM_atom =
True`; it may have been removed because it carries a mutation/modification request) iff it is
outside the range of the match; if it is inside, it is present and not flagged.  And the number of
matched atoms is the size of a maximum common induced subgraph of residue and block. -/
theorem ptm_only_beyond_max (m : Mol) (R : Residue) (hB : R.block.keys.Nodup) (hm : m.keys.Nodup)
    (hf : ∀ k ∈ R.found, k ∈ m.keys)
    (hbp : ∀ r ∈ R.block.nodes, r.ptm = none) (hmp : ∀ a ∈ m.nodes, a.ptm ≠ some true)
    (hM : R.mtch ∈ allMCIS (resGraph m R.found) (blockGraph R.block)) :
    (∀ k ∈ R.found, k ∉ ran R.mtch → ∀ b ∈ (repairResidue m R).mol.nodes, b.key = k → b.ptm = some true)
    ∧ (∀ k ∈ R.found, k ∈ ran R.mtch → ∃ b ∈ (repairResidue m R).mol.nodes, b.key = k ∧ b.ptm ≠ some true)
    ∧ R.mtch.length = mcisSize (resGraph m R.found) (blockGraph R.block) := by
  have h := wf_of_mcis m R hB hm hf hM
  have hinv := inv_final m R h
  refine ⟨?_, ?_, (mcis_facts m R hB hM).2.2.2.2⟩
  · intro k hk hnr b hb hbk
    rw [repairResidue_mol] at hb
    obtain ⟨a, _, e⟩ := mem_flagExtra hb
    have hex : k ∈ extraAtoms R.found (repairResidue m R).mtch := (extra_final_iff m R h k).2 ⟨hk, hnr⟩
    rw [repairResidue_mtch] at hex
    have hak : a.key = k := by rw [← hbk, e, flagAtom_key]
    rw [e]; unfold flagAtom
    rw [if_pos (by rw [hak]; simpa using hex)]
  · intro k hk hr
    obtain ⟨p, hp, hpk⟩ := List.mem_map.1 hr
    obtain ⟨ref, _, hkey, hmem⟩ := find_of_mem_keys (h.2.2.2.2.1 p.1 (mem_dom_of_mem hp))
    obtain ⟨a0, ha0, hka0⟩ := List.mem_map.1 (hf k hk)
    have hl0 : R.mtch.lookup ref.key = some a0.key := by
      rw [hkey, hka0, ← hpk]; exact Iso.lookup_of_mem h.2.2.1 hp
    have hnamed := canonFn_named R.mtch R.block.nodes a0 ref hmem hB hl0 (by
      intro r' _ hl'
      exact fst_eq_of_snd_nodup h.2.2.2.1 (mem_of_lookup hl') (mem_of_lookup hl0))
    obtain ⟨new, hnew⟩ := hinv.next
    have hin : canonFn R.mtch R.block.nodes a0 ∈ (rebuilt m R).2.nodes := by
      rw [hnew]; apply List.mem_append_left
      rw [canonicalise_eq_map]; exact List.mem_map.2 ⟨a0, ha0, rfl⟩
    refine ⟨canonFn R.mtch R.block.nodes a0, ?_, by rw [canonFn_key]; exact hka0, ?_⟩
    · rw [repairResidue_mol]
      apply flagExtra_keep _ hin
      rw [canonFn_key, hka0, ← repairResidue_mtch]
      intro hc
      exact ((extra_final_iff m R h k).1 hc).2 hr
    · rw [hnamed.2.2, hbp ref hmem]
      exact hmp a0 ha0

theorem blockGraph_ecol (b : Block) (u v : Int) : ((blockGraph b).ecol u v).isSome = hasEdge b.edges u v := by
  apply Bool.eq_iff_iff.2
  rw [Iso.ecol_isSome_iff, hasEdge_iff]
  simp only [blockGraph, List.mem_map]
  constructor
  · rintro ⟨e, ⟨x, hx, rfl⟩, h⟩; exact ⟨x, hx, h⟩
  · rintro ⟨x, hx, h⟩; exact ⟨(x.1, x.2, 0), ⟨x, hx, rfl⟩, h⟩

theorem resGraph_ecol (m : Mol) (found : List Int) (u v : Int) (hu : u ∈ found) (hv : v ∈ found) :
    ((resGraph m found).ecol u v).isSome = hasEdge m.edges u v := by
  apply Bool.eq_iff_iff.2
  rw [Iso.ecol_isSome_iff, hasEdge_iff]
  simp only [resGraph, List.mem_map, List.mem_filter, Bool.and_eq_true, List.contains_eq_mem, decide_eq_true_eq]
  constructor
  · rintro ⟨e, ⟨x, ⟨hx, _⟩, rfl⟩, h⟩; exact ⟨x, hx, h⟩
  · rintro ⟨x, hx, h⟩
    refine ⟨(x.1, x.2, 0), ⟨x, ⟨hx, ?_⟩, rfl⟩, h⟩
    rcases h with ⟨h1, h2⟩ | ⟨h1, h2⟩
    · rw [h1, h2]; exact ⟨hu, hv⟩
    · rw [h1, h2]; exact ⟨hv, hu⟩

/-- **The repaired residue embeds into the block** (the three facts combined): for two block atoms
matched by the matcher, the atoms that play them after the repair are different, carry the block
atoms' names and elements — the element being the one the input atom had —, and they are bonded
in the repaired molecule exactly if the block atoms are bonded in the block. -/
theorem embedding_after_repair (m : Mol) (R : Residue) (hB : R.block.keys.Nodup) (hm : m.keys.Nodup)
    (hf : ∀ k ∈ R.found, k ∈ m.keys)
    (hM : R.mtch ∈ allMCIS (resGraph m R.found) (blockGraph R.block)) :
    ∀ p ∈ R.mtch, ∀ q ∈ R.mtch, p.1 ≠ q.1 →
      p.2 ≠ q.2
      ∧ (∃ a ∈ (repairResidue m R).mol.nodes, a.key = p.2 ∧ a.name = nameOf R.block p.1
            ∧ a.elem = elemOf R.block p.1 ∧ (resGraph m R.found).ncol p.2 = (blockGraph R.block).ncol p.1)
      ∧ hasEdge (repairResidue m R).mol.edges p.2 q.2 = hasEdge R.block.edges p.1 q.1 := by
  intro p hp q hq hne
  have h := wf_of_mcis m R hB hm hf hM
  obtain ⟨e1, e2, e3⟩ := assignment_embedding m R hB hM
  obtain ⟨⟨ext, hext, _⟩, hcons⟩ := rebuild_conservative m R h
  have hpf : p ∈ (repairResidue m R).mtch := by rw [hext]; exact List.mem_append_left _ hp
  obtain ⟨a, ha, hk, hn, he⟩ := canonical_names m R h p hpf
  refine ⟨e1 p hp q hq hne, ⟨a, ha, hk, hn, he, e2 p hp⟩, ?_⟩
  have hpk := h.2.2.2.2.2.1 p.2 (mem_ran_of_mem hp)
  have hqk := h.2.2.2.2.2.1 q.2 (mem_ran_of_mem hq)
  have hne1 : p.2 ∉ extraAtoms R.found (repairResidue m R).mtch :=
    fun hc => ((extra_final_iff m R h _).1 hc).2 (mem_ran_of_mem hp)
  have hne2 : q.2 ∉ extraAtoms R.found (repairResidue m R).mtch :=
    fun hc => ((extra_final_iff m R h _).1 hc).2 (mem_ran_of_mem hq)
  rw [hcons p.2 (hf _ hpk) q.2 (hf _ hqk) hne1 hne2, ← resGraph_ecol m R.found p.2 q.2 hpk hqk,
    ← blockGraph_ecol, e3 p hp q hq hne]

/-! ## independence of names and atom order -/

/-- If some common induced subgraph covers the whole residue, every maximum one does. -/
theorem ran_covers (m : Mol) (R : Residue) (hB : R.block.keys.Nodup)
    (S : List Int) (f : Int → Int) (hS : S.Sublist R.block.keys)
    (hf : IsIndIsoOn (resGraph m R.found) (blockGraph R.block) (colourPred (resGraph m R.found) (blockGraph R.block)) S f)
    (hlen : S.length = (resGraph m R.found).keys.length)
    (hM : R.mtch ∈ allMCIS (resGraph m R.found) (blockGraph R.block)) :
    (∀ k ∈ (resGraph m R.found).keys, k ∈ ran R.mtch) ∧ S.length ≤ R.mtch.length := by
  have hs : (blockGraph R.block).keys.Nodup := by rw [blockGraph_keys]; exact hB
  obtain ⟨_, _, h3, h4, h5⟩ := mcis_facts m R hB hM
  have hmax := C06.allMCIS_max _ _ hs S f (by rw [blockGraph_keys]; exact hS) hf
  rw [← h5] at hmax
  refine ⟨?_, hmax⟩
  have hsub : ran R.mtch ⊆ (resGraph m R.found).keys := fun k hk => (mem_resGraph_keys _ _ _).2 (h4 k hk)
  have hl : (resGraph m R.found).keys.length ≤ (ran R.mtch).length := by
    rw [← hlen]; simpa [ran] using hmax
  exact fun k hk => Iso.subset_of_nodup_of_length_le h3 hsub hl hk

/-- **Missing atoms only**: if the residue is isomorphic (elements and bonds) to an induced
subgraph `S` of the block, then whatever maximum match the matcher returns, no atom of the residue
is flagged and none is removed: the output atoms are exactly the atoms after rebuilding. -/
theorem subset_missing (m : Mol) (R : Residue) (hB : R.block.keys.Nodup) (hm : m.keys.Nodup)
    (hfound : ∀ k ∈ R.found, k ∈ m.keys)
    (S : List Int) (f : Int → Int) (hS : S.Sublist R.block.keys)
    (hf : IsIndIsoOn (resGraph m R.found) (blockGraph R.block) (colourPred (resGraph m R.found) (blockGraph R.block)) S f)
    (hlen : S.length = (resGraph m R.found).keys.length)
    (hM : R.mtch ∈ allMCIS (resGraph m R.found) (blockGraph R.block)) :
    extraAtoms R.found (repairResidue m R).mtch = []
    ∧ (repairResidue m R).mol = { nodes := (rebuilt m R).2.nodes, edges := (rebuilt m R).2.edges } := by
  have h := wf_of_mcis m R hB hm hfound hM
  have hcov := (ran_covers m R hB S f hS hf hlen hM).1
  have hnil : extraAtoms R.found (repairResidue m R).mtch = [] := by
    apply List.eq_nil_iff_forall_not_mem.2
    intro k hk
    obtain ⟨hkf, hkn⟩ := (extra_final_iff m R h k).1 hk
    exact hkn (hcov k ((mem_resGraph_keys _ _ _).2 ⟨hkf, hfound k hkf⟩))
  refine ⟨hnil, ?_⟩
  rw [repairResidue_mtch] at hnil
  rw [repairResidue_mol, hnil, flagExtra_nil]

theorem missing0_nil_of_total {b : Block} {M : Map} (h : ∀ r ∈ b.keys, r ∈ dom M) : missing0 b M = [] := by
  apply List.eq_nil_iff_forall_not_mem.2
  intro r hr
  obtain ⟨a, ha, hk, hl⟩ := (mem_missing0 _ _ _).1 hr
  exact (lookup_none_iff _ _).1 hl (h _ (List.mem_map.2 ⟨a, ha, rfl⟩))

/-- **Scramble invariance**: if the residue is the block under ANY renaming of its atoms and ANY
atom order / key numbering — i.e. there is an element- and bond-preserving bijection `f` from the
block onto the residue — then every maximum match is total in both directions, so the repair adds
nothing, loses nothing, logs nothing, flags nothing, leaves the bonds alone, and every atom gets
the canonical name of the block atom it plays (names are then unique by `names_unique`). -/
theorem scramble_invariant (m : Mol) (R : Residue) (hB : R.block.keys.Nodup) (hm : m.keys.Nodup)
    (hfound : ∀ k ∈ R.found, k ∈ m.keys)
    (f : Int → Int) (hf : IsIndIso (resGraph m R.found) (blockGraph R.block) f)
    (hlen : R.block.keys.length = (resGraph m R.found).keys.length)
    (hM : R.mtch ∈ allMCIS (resGraph m R.found) (blockGraph R.block)) :
    dom R.mtch = R.block.keys
    ∧ (∀ k ∈ R.found, k ∈ ran R.mtch)
    ∧ (repairResidue m R).lost = []
    ∧ (repairResidue m R).log = []
    ∧ (repairResidue m R).mtch = R.mtch
    ∧ extraAtoms R.found (repairResidue m R).mtch = []
    ∧ (repairResidue m R).mol = { nodes := canonicalise R.block R.mtch m.nodes, edges := m.edges }
    ∧ (repairResidue m R).mol.keys = m.keys
    ∧ (∀ p ∈ R.mtch, ∃ a ∈ (repairResidue m R).mol.nodes,
        a.key = p.2 ∧ a.name = nameOf R.block p.1 ∧ a.elem = elemOf R.block p.1) := by
  have h := wf_of_mcis m R hB hm hfound hM
  have hf' : IsIndIsoOn (resGraph m R.found) (blockGraph R.block)
      (colourPred (resGraph m R.found) (blockGraph R.block)) R.block.keys f := by
    have := hf; unfold IsIndIso IsIndIsoP at this; rwa [blockGraph_keys] at this
  obtain ⟨hcov, hle⟩ := ran_covers m R hB R.block.keys f (List.Sublist.refl _) hf' hlen hM
  obtain ⟨hsub, _, _, _, _⟩ := mcis_facts m R hB hM
  have hdom : dom R.mtch = R.block.keys :=
    hsub.eq_of_length_le (by simpa [dom] using hle)
  have hmiss : missing0 R.block R.mtch = [] := missing0_nil_of_total (fun r hr => hdom ▸ hr)
  have hma : missingAtoms R.block R.mtch = [] := by
    have := hmiss; unfold missing0 at this; exact List.map_eq_nil_iff.1 this
  have hreb : rebuilt m R = ([], startState m R) := by
    unfold rebuilt; rw [hmiss]; rfl
  have hcovf : ∀ k ∈ R.found, k ∈ ran R.mtch :=
    fun k hk => hcov k ((mem_resGraph_keys _ _ _).2 ⟨hk, hfound k hk⟩)
  have hex : extraAtoms R.found R.mtch = [] := by
    apply List.eq_nil_iff_forall_not_mem.2
    intro k hk
    have := List.mem_filter.1 hk
    simp only [Bool.not_eq_true', List.contains_eq_mem, decide_eq_false_iff_not] at this
    exact this.2 (hcovf k this.1)
  have hmol : (repairResidue m R).mol = { nodes := canonicalise R.block R.mtch m.nodes, edges := m.edges } := by
    rw [repairResidue_mol, hreb]
    show flagExtra (extraAtoms R.found R.mtch) _ _ = _
    rw [hex, flagExtra_nil]; rfl
  have hmt : (repairResidue m R).mtch = R.mtch := by rw [repairResidue_mtch, hreb]; rfl
  refine ⟨hdom, hcovf, ?_, ?_, hmt, by rw [hmt]; exact hex, hmol, ?_, ?_⟩
  · rw [repairResidue_lost, hreb]
  · rw [repairResidue_log, hreb]; simp [startState, hma]
  · rw [hmol]; exact canonicalise_keys _ _ _
  · intro p hp
    exact canonical_names m R h p (by rw [hmt]; exact hp)

/-! ## non-vacuity: concrete instances -/

private def at' (k : Int) (n : String) (e : Int) : Atom := { key := k, name := n, elem := e, attrs := [], ptm := none }

/-- block: N(7)–CA(6)(–HA(1))–C(6)=O(8) with reference indices 0..4 -/
def blkEx : Block :=
  { nodes := [at' 0 "N" 7, at' 1 "CA" 6, at' 2 "HA" 1, at' 3 "C" 6, at' 4 "O" 8],
    edges := [(0, 1), (1, 2), (1, 3), (3, 4)] }

/-- the same residue with scrambled names, permuted atoms, sparse keys -/
def molScr : Mol :=
  { nodes := [at' 40 "X1" 8, at' 12 "X2" 6, at' 31 "X3" 7, at' 5 "X4" 1, at' 22 "X5" 6],
    edges := [(22, 40), (12, 22), (5, 12), (31, 12)] }

/-- HA and O missing, one extra atom (a carbon on N) -/
def molDamaged : Mol :=
  { nodes := [at' 3 "CA" 6, at' 9 "foo" 7, at' 4 "C" 6, at' 20 "CX" 6],
    edges := [(9, 3), (3, 4), (20, 9)] }

def resScr : Residue := { block := blkEx, found := [40, 12, 31, 5, 22], mtch := [(0, 31), (1, 12), (2, 5), (3, 22), (4, 40)], common := [] }
def resDam : Residue := { block := blkEx, found := [3, 9, 4, 20], mtch := [(0, 9), (1, 3), (3, 4)], common := [("resid", "1")] }

example : WF molScr resScr ∧ WF molDamaged resDam := by decide
example : NamesDistinct blkEx ∧ connectedB blkEx = true := by decide
example : resScr.mtch ∈ allMCIS (resGraph molScr resScr.found) (blockGraph blkEx) := by decide
example : resDam.mtch ∈ allMCIS (resGraph molDamaged resDam.found) (blockGraph blkEx) := by decide
example : mcisSize (resGraph molDamaged resDam.found) (blockGraph blkEx) = 3 := by decide
-- the scrambled residue is isomorphic to the block
example : IsIndIso (resGraph molScr resScr.found) (blockGraph blkEx) (Map.toFun resScr.mtch) :=
  (C06.allIsos_sound _ _ (by decide) _ (by decide)).2
-- the damaged one comes back complete: two atoms rebuilt next to their neighbours, the extra atom flagged
example : ((repairResidue molDamaged resDam).mol.nodes.map fun a => (a.key, a.name, a.ptm))
    = [(3, "CA", none), (9, "N", none), (4, "C", none), (20, "CX", some true), (21, "HA", none), (22, "O", none)] := by decide
example : (repairResidue molDamaged resDam).mol.edges = [(9, 3), (3, 4), (20, 9), (3, 21), (4, 22)] := by decide
example : (repairResidue molDamaged resDam).lost = [] := by decide
-- the list iterator skips the element after a rebuilt one: two passes are needed here
example : (pass resDam [2, 4] [2, 4] (startState molDamaged resDam) false).1 = [4] := by decide

end C04
