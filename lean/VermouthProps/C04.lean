import VermouthModel.C04
import VermouthProofs.Iso
namespace C04
end C04
