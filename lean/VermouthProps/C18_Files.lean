import VermouthProofs.C18_Files
import VermouthProps.C18
/-!
# C18 (extension) — the files written for the Go model

`write_nonbond_params` / `write_atomtypes` / the parameter-file part of `write_gmx_topology`
(vermouth/gmx/topology.py) are modelled in `VermouthModel/C18_Write.lean` as they are, including
`sigma_epsilon_to_C6_C12` with sigma and epsilon exchanged (F-C18-4) and conditional blocks that are
never closed (F-C18-5).

Vocabulary:
* `readParamFile lines` : a small reader independent of the writers: the blank-separated columns
  before the first `;` of every line that does not start with `[`, `#` or `;`;
* `nbRowOf c6 p`        : the five columns a potential `p` stands for: its two type names, `1`, and
  the two numbers rendered with `{:3.8F}` (sigma, epsilon; or what the code computes for C6C12=True);
* `ColName t`           : `t` can be the first column of a data line: non-empty, no blank, no `;`,
  not starting with `[` or `#`.
-/
namespace C18

/-- the columns of the data line of a potential (`[]` for an entry the writer cannot render) -/
def nbRowOf (c6 : Bool) (p : NbParam) : List (List Char) :=
  match nbPair p, nbNumbers c6 p.sigma p.eps with
  | some (a1, a2), .ok (n1, n2) => nbRow a1 a2 n1 n2
  | _, _ => []

/-- the columns of the data line of an atom type -/
def atRowOf (c6 : Bool) (t : AtType) : List (List Char) :=
  match t.atype, t.mass, t.charge, nbNumbers c6 t.sigma t.eps with
  | some ty, some m, some q, .ok (n1, n2) => atRow ty m q n1 n2
  | _, _, _, _ => []

theorem texts_entry_ok {α : Type} {data : α → Except WErr (List Char)} {items : List (Item α)}
    {lines : List (List Char)} (h : Texts data items lines) (a : α) (ha : Item.entry a ∈ items) :
    ∃ l, data a = .ok l := by
  induction h with
  | nil => cases ha
  | @cons it l items' lines' hl _ ih =>
    rcases List.mem_cons.mp ha with e | e
    · subst e; exact ⟨l, hl⟩
    · exact ih e

theorem mem_entries {α : Type} {items : List (Item α)} {a : α} :
    a ∈ items.filterMap Item.entry? ↔ Item.entry a ∈ items := by
  simp only [List.mem_filterMap]
  constructor
  · rintro ⟨it, hit, he⟩
    cases it <;> simp [Item.entry?] at he
    subst he; exact hit
  · intro h; exact ⟨_, h, rfl⟩

/-- the successful write of a table: items, their texts -/
theorem writeFile_ok {α : Type} (d : String) (mt : α → Meta) (data : α → Except WErr (List Char)) (es : List α)
    (lines : List (List Char)) (h : writeFile d mt data es = ⟨lines, none⟩) :
    ∃ items, layout d mt es = .ok items ∧ Texts data items lines := by
  unfold writeFile at h
  cases hl : layout d mt es with
  | error e => rw [hl] at h; cases h
  | ok items =>
    rw [hl] at h
    simp only at h
    refine ⟨items, rfl, ?_⟩
    have he : (renderItems data items).err = none := by rw [h]
    have := renderItems_lines data items he
    rw [h] at this
    exact this

/-! ## `[ nonbond_params ]` -/

section nonbond
variable (c6 : Bool) (ps : List NbParam) (lines : List (List Char))

theorem nonbond_rows (hw : writeNonbond c6 ps = ⟨lines, none⟩)
    (hn : ∀ p ∈ ps, ∀ a ∈ p.atoms, ColName a.toList) :
    ∃ items, layout "nonbond_params" (·.mt) ps = .ok items ∧ Texts (nbLine c6) items lines ∧
      readParamFile lines = (items.filterMap Item.entry?).map (nbRowOf c6) := by
  obtain ⟨items, hl, ht⟩ := writeFile_ok _ _ _ _ _ hw
  refine ⟨items, hl, ht, ?_⟩
  apply readParamFile_items (nbLine c6) (nbRowOf c6) items lines ht
  intro p hp l hl'
  have hps : p ∈ ps := (layout_perm _ _ _ _ hl).mem_iff.mp (mem_entries.mpr hp)
  obtain ⟨a1, a2, n1, n2, hpair, hnum, e⟩ := nbLine_ok hl'
  have hrow : nbRowOf c6 p = nbRow a1 a2 n1 n2 := by simp [nbRowOf, hpair, hnum]
  obtain ⟨m1, m2⟩ := nbPair_mem hpair
  refine ⟨nbComment p.mt, a1.toList, [a2.toList, ['1'], F8 n1, F8 n2], by rw [hrow]; exact e, ?_, by rw [hrow]; rfl,
    hn p hps a1 m1, nbComment_shape _⟩
  rw [hrow]
  exact nbRow_tok a1 a2 n1 n2 (hn p hps a1 m1).1 (hn p hps a2 m2).1

/-- **Every potential of the table is written exactly once, and nothing else is.**  When
`write_nonbond_params` succeeds, the data lines of the file, read back column by column, are a
rearrangement of the rows of the table's entries (so each entry's row occurs in the file as often as
in the table); in particular a line for the type pair `(a, b)` is present iff the table holds a
potential for `(a, b)`. -/
theorem nonbond_file_lines_iff (hw : writeNonbond c6 ps = ⟨lines, none⟩)
    (hn : ∀ p ∈ ps, ∀ a ∈ p.atoms, ColName a.toList) :
    (readParamFile lines).Perm (ps.map (nbRowOf c6))
    ∧ (∀ row, (readParamFile lines).count row = (ps.map (nbRowOf c6)).count row)
    ∧ ∀ a b : String, (∃ r ∈ readParamFile lines, r.take 2 = [a.toList, b.toList]) ↔ ∃ p ∈ ps, nbPair p = some (a, b) := by
  obtain ⟨items, hl, ht, hr⟩ := nonbond_rows c6 ps lines hw hn
  have hperm : (readParamFile lines).Perm (ps.map (nbRowOf c6)) := by
    rw [hr]; exact (layout_perm _ _ _ _ hl).map _
  refine ⟨hperm, fun row => hperm.count_eq row, ?_⟩
  have hrowp : ∀ p ∈ ps, ∃ a1 a2 n1 n2, nbPair p = some (a1, a2) ∧ nbRowOf c6 p = nbRow a1 a2 n1 n2 := by
    intro p hp
    have hi : Item.entry p ∈ items := mem_entries.mp ((layout_perm _ _ _ _ hl).mem_iff.mpr hp)
    obtain ⟨l, hl'⟩ := texts_entry_ok ht p hi
    obtain ⟨a1, a2, n1, n2, hpair, hnum, _⟩ := nbLine_ok hl'
    exact ⟨a1, a2, n1, n2, hpair, by simp [nbRowOf, hpair, hnum]⟩
  intro a b
  constructor
  · rintro ⟨r, hr', htake⟩
    obtain ⟨p, hp, rfl⟩ := List.mem_map.mp (hperm.mem_iff.mp hr')
    obtain ⟨a1, a2, n1, n2, hpair, hrow⟩ := hrowp p hp
    rw [hrow] at htake
    simp only [nbRow, List.take_succ_cons, List.take_zero, List.cons.injEq, and_true] at htake
    rw [String.toList_inj.mp htake.1, String.toList_inj.mp htake.2] at hpair
    exact ⟨p, hp, hpair⟩
  · rintro ⟨p, hp, hpair⟩
    obtain ⟨a1, a2, n1, n2, hpair', hrow⟩ := hrowp p hp
    rw [hpair] at hpair'
    cases hpair'
    exact ⟨nbRowOf c6 p, hperm.mem_iff.mpr (List.mem_map.mpr ⟨p, hp, rfl⟩), by rw [hrow]; rfl⟩

/-- the order of the data lines: the stable sort of the table by `(conditional, group)` -/
theorem nonbond_file_order (hw : writeNonbond c6 ps = ⟨lines, none⟩)
    (hn : ∀ p ∈ ps, ∀ a ∈ p.atoms, ColName a.toList) :
    ∃ r, keyed (·.mt) ps = .ok r ∧ readParamFile lines = (sortByKey r).map (fun e => nbRowOf c6 e.2) := by
  obtain ⟨items, hl, _, hr⟩ := nonbond_rows c6 ps lines hw hn
  obtain ⟨r, hk, he⟩ := layout_entries _ _ _ _ hl
  exact ⟨r, hk, by rw [hr, he, List.map_map]; rfl⟩

end nonbond

theorem renderItems_entries {α : Type} (data : α → Except WErr (List Char)) (f : α → List Char) (as : List α)
    (h : ∀ a ∈ as, data a = .ok (f a)) : renderItems data (as.map Item.entry) = ⟨as.map f, none⟩ := by
  induction as with
  | nil => rfl
  | cons a as ih =>
    simp only [List.map_cons, renderItems, Item.text, h a (by simp)]
    rw [ih (fun x hx => h x (List.mem_cons_of_mem _ hx))]

/-- **What the Go pipeline emits is written in emission order**: a table without conditionals and
groups (the Go potentials carry only a comment) gives the directive followed by one line per potential,
in table order, and nothing else (no `#ifdef`, no group line). -/
theorem nonbond_file_go_order (c6 : Bool) (ps : List NbParam) (f : NbParam → List Char)
    (hp : ∀ p ∈ ps, p.mt.plain) (hf : ∀ p ∈ ps, nbLine c6 p = .ok (f p)) :
    writeNonbond c6 ps = ⟨"[ nonbond_params ]".toList :: ps.map f, none⟩ := by
  unfold writeNonbond writeFile
  rw [layout_plain _ _ _ hp]
  simp only [renderItems, Item.text]
  rw [renderItems_entries _ f ps hf]
  rfl

/-! ## the column convention -/

/-- C6C12 = False: the two numbers are sigma and epsilon as stored; C6C12 = True: the code writes
`4*sigma*epsilon^6` and `4*sigma*epsilon^12` (transcribed as it is: known finding F-C18-4) -/
theorem nonbond_numbers (c6 : Bool) (s e : Q) :
    nbNumbers c6 (.q s) (.q e) = .ok (if c6 then (⟨4 * (s.num * e.num ^ 6), 1 * (s.den * e.den ^ 6)⟩,
                                                 ⟨4 * (s.num * e.num ^ 12), 1 * (s.den * e.den ^ 12)⟩) else (s, e)) := by
  cases c6 <;> rfl

/-- ... which is not the Lennard-Jones `C6 = 4 eps sigma^6`: sigma = 1/2, eps = 2 is written as
C6 = 128, C12 = 8192 instead of 1/8 and 1/512 -/
theorem c6c12_exchanged_witness :
    (nbNumbers true (.q ⟨1, 2⟩) (.q ⟨2, 1⟩)).toOption.map (fun n => (F8 n.1, F8 n.2))
      = some ("128.00000000".toList, "8192.00000000".toList)
    ∧ F8 ((Q.ofInt 4).mul ((Q.ofInt 2).mul (Q.pow ⟨1, 2⟩ 6))) = "0.12500000".toList := by decide

/-! ## conditional blocks are never closed (F-C18-5) -/

theorem renderItems_mem {α : Type} (data : α → Except WErr (List Char)) (items : List (Item α)) :
    ∀ l ∈ (renderItems data items).lines, ∃ it ∈ items, it.text data = .ok l := by
  induction items with
  | nil => intro l hl; cases hl
  | cons it rest ih =>
    intro l hl
    unfold renderItems at hl
    cases ht : it.text data with
    | error e => rw [ht] at hl; cases hl
    | ok l' =>
      rw [ht] at hl
      rcases List.mem_cons.mp hl with e | e
      · subst e; exact ⟨it, by simp, ht⟩
      · obtain ⟨it', h1, h2⟩ := ih l e
        exact ⟨it', List.mem_cons_of_mem _ h1, h2⟩

theorem item_text_blank {α : Type} (data : α → Except WErr (List Char)) (hd : ∀ a l, data a = .ok l → ' ' ∈ l)
    (it : Item α) (l : List Char) (h : it.text data = .ok l) : ' ' ∈ l := by
  cases it with
  | directive n => simp only [Item.text, Except.ok.injEq] at h; subst h; simp
  | cond f n => cases f <;> (simp only [Item.text, Except.ok.injEq] at h; subst h; simp)
  | group g => simp only [Item.text, Except.ok.injEq] at h; subst h; simp
  | entry a => exact hd a l h

theorem writeFile_blank {α : Type} (d : String) (mt : α → Meta) (data : α → Except WErr (List Char))
    (hd : ∀ a l, data a = .ok l → ' ' ∈ l) (es : List α) : ∀ l ∈ (writeFile d mt data es).lines, ' ' ∈ l := by
  intro l hl
  unfold writeFile at hl
  split at hl
  · simp only [List.mem_singleton] at hl; subst hl; simp
  · obtain ⟨it, _, h⟩ := renderItems_mem data _ l hl
    exact item_text_blank data hd it l h

/-- **No `#endif` is ever written**, whatever the table (also on the error paths): every written line
contains a blank.  The blocks opened by `#ifdef X` / `#ifndef X` stay open. -/
theorem writers_never_endif (c6 : Bool) (ps : List NbParam) (ts : List AtType) :
    "#endif".toList ∉ (writeNonbond c6 ps).lines ∧ "#endif".toList ∉ (writeAtomtypes c6 ts).lines := by
  have h1 : ∀ p l, nbLine c6 p = .ok l → ' ' ∈ l := by
    intro p l h
    obtain ⟨a1, a2, n1, n2, _, _, e⟩ := nbLine_ok h
    rw [e]; simp
  have h2 : ∀ t l, atLine c6 t = .ok l → ' ' ∈ l := by
    intro t l h
    obtain ⟨ty, m, q, n1, n2, _, _, _, _, e⟩ := atLine_ok h
    rw [e]; simp
  constructor
  · intro hm
    have := writeFile_blank "nonbond_params" (·.mt) (nbLine c6) h1 ps _ hm
    revert this; decide
  · intro hm
    have := writeFile_blank "atomtypes" (·.mt) (atLine c6) h2 ts _ hm
    revert this; decide

/-! ## `[ atomtypes ]` for the sites the pipeline creates -/

theorem atomtypes_plain (vs : List VSite) : ∀ t ∈ atomtypesOf vs, t.mt.plain := by
  intro t ht
  obtain ⟨v, _, rfl⟩ := List.mem_map.mp ht
  exact ⟨rfl, rfl, rfl⟩

/-- the line of a virtual-site type: zero mass (the float `0.0`), zero charge (the int `0`), particle
type `A`, zero sigma and epsilon, no comment -/
def vsTypeLine (v : VSite) : List Char := v.atype.toList ++ " 0.0 0 A 0.00000000 0.00000000 ".toList

/-- **Exactly one `[ atomtypes ]` line per virtual site**, in creation order: the file is the directive
followed by `<type> 0.0 0 A 0.00000000 0.00000000 ` for each site. -/
theorem atomtypes_file_lines (c6 : Bool) (vs : List VSite) :
    writeAtomtypes c6 (atomtypesOf vs) = ⟨"[ atomtypes ]".toList :: vs.map vsTypeLine, none⟩ := by
  unfold writeAtomtypes writeFile
  rw [layout_plain _ _ _ (atomtypes_plain vs)]
  simp only [renderItems, Item.text]
  have : renderItems (atLine c6) ((atomtypesOf vs).map Item.entry)
      = ⟨(atomtypesOf vs).map (fun t => (t.atype.getD "").toList ++ " 0.0 0 A 0.00000000 0.00000000 ".toList), none⟩ := by
    apply renderItems_entries
    intro t ht
    obtain ⟨v, _, rfl⟩ := List.mem_map.mp ht
    cases c6
    · have e : F8 ⟨0, 1⟩ = "0.00000000".toList := by decide
      simp [atLine, nbNumbers, atComment, e]
    · have e1 : F8 (c6c12 ⟨0, 1⟩ ⟨0, 1⟩).1 = "0.00000000".toList := by decide
      have e2 : F8 (c6c12 ⟨0, 1⟩ ⟨0, 1⟩).2 = "0.00000000".toList := by decide
      simp [atLine, nbNumbers, atComment, e1, e2]
  rw [this]
  simp [atomtypesOf, vsTypeLine, List.map_map, Function.comp_def]

/-- **`atomtypes_file_one_per_vs_type`**: for the sites `add_virtual_sites` creates, the file declares
the type of each site on one line (as many lines as backbone particles, in their order), and when the
backbone particles carry distinct residue numbers no type is declared twice. -/
theorem atomtypes_file_one_per_vs_type (pre bb vsn : String) (atoms : List Atom) :
    let vs := addVirtualSites pre bb vsn atoms
    (writeAtomtypes false (atomtypesOf vs)).err = none
    ∧ (writeAtomtypes false (atomtypesOf vs)).lines = "[ atomtypes ]".toList :: vs.map vsTypeLine
    ∧ ((writeAtomtypes false (atomtypesOf vs)).lines.length = 1 + (backboneAtoms bb atoms).length)
    ∧ (((backboneAtoms bb atoms).map (·.resid)).Nodup → (vs.map (·.atype)).Nodup)
    ∧ ((∀ v ∈ vs, ColName v.atype.toList) →
        (readParamFile (writeAtomtypes false (atomtypesOf vs)).lines).map (·.head?) = vs.map (fun v => some v.atype.toList)) := by
  intro vs
  rw [atomtypes_file_lines]
  refine ⟨rfl, rfl, by simp [vs, vs_count]; omega, vs_type_unique pre bb vsn atoms, ?_⟩
  intro hcol
  simp only
  have hd : isDataLine "[ atomtypes ]".toList = false := by decide
  unfold readParamFile
  rw [List.filter_cons, hd]
  simp only [Bool.false_eq_true, if_false, List.map_map]
  have hall : ∀ v ∈ vs, isDataLine (vsTypeLine v) = true ∧ (lineTokens (vsTypeLine v)).head? = some v.atype.toList := by
    intro v hv
    have e : vsTypeLine v = render [v.atype.toList, "0.0".toList, "0".toList, "A".toList, "0.00000000".toList,
        "0.00000000".toList] ++ ' ' :: [] := by
      simp [vsTypeLine, render]
    have htok : ∀ t ∈ [v.atype.toList, "0.0".toList, "0".toList, "A".toList, "0.00000000".toList, "0.00000000".toList],
        TokStr t := by
      intro t ht
      simp only [List.mem_cons, List.not_mem_nil, or_false] at ht
      rcases ht with e | e | e | e | e | e <;> subst e
      · exact (hcol v hv).1
      all_goals decide
    constructor
    · rw [e]; exact isDataLine_render _ _ _ _ rfl (hcol v hv)
    · rw [e, lineTokens_render _ _ htok (by simp) (Or.inl rfl)]; rfl
  have hf : (vs.map vsTypeLine).filter isDataLine = vs.map vsTypeLine := by
    rw [List.filter_eq_self]
    intro l hl
    obtain ⟨v, hv, rfl⟩ := List.mem_map.mp hl
    exact (hall v hv).1
  rw [hf, List.map_map]
  apply List.map_congr_left
  intro v hv
  exact (hall v hv).2

/-! ## the two files agree -/

/-- **`files_consistent`**: every type named by a Go potential the pipeline emits is the type of a
created virtual site, hence declared in the `[ atomtypes ]` file (`atomtypes_file_one_per_vs_type`),
provided no ordinary bead type starts with the molecule name (otherwise finding F-C18-2 applies). -/
theorem files_consistent (P : Params) (vsn : String) (atoms : List Atom) (edges : List (Int × Int))
    (contacts : List Contact) (out : List Cand)
    (hok : (goPipeline P vsn atoms edges contacts).2 = .ok out)
    (h2 : ∀ a ∈ atoms, startsWith a.atype P.pre = false) :
    ∀ y ∈ out, y.ta ∈ ((goPipeline P vsn atoms edges contacts).1).map (·.atype)
             ∧ y.tb ∈ ((goPipeline P vsn atoms edges contacts).1).map (·.atype) := by
  intro y hy
  have hsound := (go_pair_sound P (pipelineResidues P vsn atoms) (pipelineEdges P vsn atoms edges) contacts out hok y hy).1
  obtain ⟨c, _, ia, ib, ra, rb, a, b, _, _, _, hra, hrb, _, _, _, _, hta, htb, _⟩ := hsound
  have key : ∀ (i : Nat) (r : Residue) (ch : String) (x : Int) (t : String),
      (pipelineResidues P vsn atoms)[i]? = some r → firstType r P.pre ch x = some t →
      t ∈ (addVirtualSites P.pre P.backbone vsn atoms).map (·.atype) := by
    intro i r ch x t hr ht
    obtain ⟨m, hm, hmt, hpre, _, _⟩ := firstType_some ht
    have hmem : m ∈ withSites atoms (addVirtualSites P.pre P.backbone vsn atoms) :=
      (mem_residuesOf _ m).mp ⟨r, List.mem_of_getElem? hr, hm⟩
    simp only [withSites, List.mem_append, List.mem_map] at hmem
    rcases hmem with h | ⟨v, hv, rfl⟩
    · rw [h2 m h] at hpre; cases hpre
    · exact List.mem_map.mpr ⟨v, hv, hmt⟩
  exact ⟨key ia ra _ _ _ hra hta, key ib rb _ _ _ hrb htb⟩

/-! ## `write_gmx_topology`: which parameter files -/

/-- With both tables present and `itp_paths` naming both directives (what martinize2 passes with `-go`),
the atom types are written first, to `itp_paths['atomtypes']`, then the potentials to
`itp_paths['nonbond_params']`; nothing else is written for the tables. -/
theorem topology_go_files (c6 : Bool) (n : Nat) (ts : List AtType) (ps : List NbParam) (pa pn : String)
    (hn : n ≠ 0) (hok : (writeAtomtypes c6 ts).err = none) :
    goParamFiles c6 n (some ts) (some ps) (.dict [("atomtypes", pa), ("nonbond_params", pn)])
      = ([(pa, writeAtomtypes c6 ts), (pn, writeNonbond c6 ps)], (writeNonbond c6 ps).err) := by
  simp [goParamFiles, hn, ItpPaths.get, hok]

/-- a table that is absent from `system.gmx_topology_params` produces no file, an empty system nothing at
all, and `itp_paths = []` (martinize2 without Go model) fails as soon as a table is present -/
theorem topology_go_files_absent (c6 : Bool) (n : Nat) (paths : ItpPaths) (ts : List AtType) :
    goParamFiles c6 0 (some ts) none paths = ([], some .valueError)
    ∧ goParamFiles c6 (n + 1) none none paths = ([], none)
    ∧ goParamFiles c6 (n + 1) (some ts) none .notDict = ([], some .typeError) := by
  refine ⟨rfl, rfl, rfl⟩

/-! ## non-vacuity -/
namespace FilesExample

def go (a b : String) (s : Q) (d : String) : NbParam :=
  { atoms := [a, b], sigma := .q s, eps := .q ⟨9414, 1000⟩, mt := { comment := some ["go bond " ++ d] } }
def table : List NbParam :=
  [go "mol_0_4" "mol_0_1" ⟨4454493590701697, 1125899906842624⟩ "4.440892098500626",
   { atoms := ["W"], sigma := .q ⟨1, 2⟩, eps := .q ⟨2, 1⟩, mt := { ifdef := some "GO_VIRT", group := some "water bias" } },
   go "mol_0_2" "mol_0_3" ⟨1, 2⟩ "0.5612310241546865"]

example : ∀ p ∈ table, ∀ a ∈ p.atoms, ColName a.toList := by decide
/-- unconditional entries first (in table order), then the conditional block, which stays open -/
example : (writeNonbond false table) =
    ⟨["[ nonbond_params ]", "mol_0_4 mol_0_1 1 3.95638508 9.41400000 ;go bond 4.440892098500626",
      "mol_0_2 mol_0_3 1 0.50000000 9.41400000 ;go bond 0.5612310241546865", "#ifdef GO_VIRT", "; water bias",
      "W W 1 0.50000000 2.00000000 "].map String.toList, none⟩ := by decide
example : readParamFile (writeNonbond false table).lines =
    [["mol_0_4", "mol_0_1", "1", "3.95638508", "9.41400000"], ["mol_0_2", "mol_0_3", "1", "0.50000000", "9.41400000"],
     ["W", "W", "1", "0.50000000", "2.00000000"]].map (·.map String.toList) := by decide
/-- the hypotheses of `files_consistent` and `atomtypes_file_one_per_vs_type` on the molecule of `Example` -/
example : ∀ v ∈ addVirtualSites Example.P.pre "BB" "CA" Example.atoms, ColName v.atype.toList := by decide
example : (writeAtomtypes false (atomtypesOf (addVirtualSites Example.P.pre "BB" "CA" Example.atoms))).lines
    = ["[ atomtypes ]", "mol_0_1 0.0 0 A 0.00000000 0.00000000 ", "mol_0_2 0.0 0 A 0.00000000 0.00000000 ",
       "mol_0_3 0.0 0 A 0.00000000 0.00000000 ", "mol_0_4 0.0 0 A 0.00000000 0.00000000 "].map String.toList := by decide
/-- a malformed table: the second entry has both conditionals; only the directive reaches the file -/
def both : NbParam :=
  { atoms := ["c"], sigma := .q ⟨1, 1⟩, eps := .q ⟨1, 1⟩, mt := { ifdef := some "A", ifndef := some "B" } }
example : writeNonbond false [go "a" "b" ⟨1, 2⟩ "x", both] = ⟨["[ nonbond_params ]".toList], some .valueError⟩ := by
  decide

end FilesExample

end C18
