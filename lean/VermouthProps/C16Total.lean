import VermouthProps.C16Gro
import VermouthProofs.C16_Total
/-!
# C16 — totality: every record the writers produce is readable, overflow or not

`pdb_file_overflow_local` used to ASSUME that the line of every atom is readable.  Here that is
PROVED from the layout: the numeric fields of the extracted ATOM / GRO format strings are
right-aligned `t` fields with a blank fill, and such a field always parses (`int_field_total`,
`fix_field_total` in `VermouthProofs/C16_Total.lean`: the characters that survive the cut are the
LAST ones, all digits — the sign is the first character to go).  What is left as a condition is
exactly what makes the real reader stop or drop an atom by design: no element can be found
(F-C16-2), an alternate location other than blank/'A', an excluded residue name, a '#' in a name.

A LEFT-aligned numeric `t` field would not be total (`'{:<1dt}'` of −5 is `-`): see
`left_aligned_number_unreadable`; no layout of the writers has one (`*_slices_total`).
-/
namespace C16
open Layout

/-- what ANY reader column returns for value `v` written through the spec `sp` -/
def readBack (sp : Spec) (v : Val) : RVal :=
  match v with
  | .int i => .int (truncInt sp.width i)
  | .str s => .str (strip (renderField sp (.str s)))
  | .fix k => .dec (truncFix sp.width sp.prec k) sp.prec
  | .nan => .nan

/-- the layout conditions under which a reader column is total -/
def totalOk (sp : Spec) (rty : RTy) (v : Val) : Prop :=
  sp.trunc = true ∧ sp.width ≠ 0 ∧ sp.fill = ' ' ∧
  match sp.ty, rty, v with
  | .d, .int, .int _ => sp.leftAligned = false
  | .s, .str, .str _ => True
  | .f, .float, .fix _ => sp.leftAligned = false ∧ 1 ≤ sp.prec ∧ sp.prec + 2 ≤ sp.width
  | _, _, _ => False

/-- **field_read_total.**  A reader column that covers a `t` field with blank fill — right-aligned if
numeric, with room for one integer digit if fixed-point — can be read WHATEVER the value is
(over-long, negative, anything), in both reader flavours, and returns `readBack`: the value
itself when it fits, else what its last (strings, left-aligned: first) characters show. -/
theorem field_read_total (fmt : List Seg) (env : Env) (n : FName) (rty : RTy) (a b : Nat) (sp : Spec)
    (h : allTrunc fmt = true) (hc : covers fmt n a b = some sp) (hok : totalOk sp rty (env n)) :
    readFieldPdb (render fmt env) ⟨n, rty, a, b⟩ = .ok (readBack sp (env n)) ∧
    readFieldGro (render fmt env) ⟨n, rty, a, b⟩ = .ok (readBack sp (env n)) := by
  have hs := read_slice fmt env n a b sp h hc
  unfold readFieldPdb readFieldGro
  simp only []
  rw [hs]
  obtain ⟨htr, hw, hf, hk⟩ := hok
  cases hv : env n with
  | int i =>
    rw [hv] at hk
    cases hty : sp.ty <;> cases rty <;> simp only [hty] at hk
    have hr := int_field_total sp i hty hf hk htr hw
    have hne : strip (renderField sp (.int i)) ≠ [] := by
      intro h0; rw [h0] at hr; simp [parseInt] at hr
    simp [hne, convert, hr, readBack]
  | str s =>
    rw [hv] at hk
    cases hty : sp.ty <;> cases rty <;> simp only [hty] at hk
    constructor
    · split
      · rename_i h0; simp [readBack, h0, defaultOf]
      · rfl
    · rfl
  | fix k =>
    rw [hv] at hk
    cases hty : sp.ty <;> cases rty <;> simp only [hty] at hk
    have hr := fix_field_total sp k hty hf hk.1 htr hk.2.1 hk.2.2
    have hne : strip (renderField sp (.fix k)) ≠ [] := by
      intro h0; rw [h0] at hr; simp [parseDec, parseDecBody] at hr
    simp [hne, convert, hr, readBack]
  | nan =>
    rw [hv] at hk
    cases hty : sp.ty <;> cases rty <;> simp only [hty] at hk

/-- all columns of a record at once: reading NEVER fails -/
theorem fields_read_total (fmt : List Seg) (env : Env) (h : allTrunc fmt = true) (slices : List RSlice)
    (spec : RSlice → Spec)
    (hall : ∀ sl ∈ slices, covers fmt sl.name sl.start sl.stop = some (spec sl) ∧
      totalOk (spec sl) sl.ty (env sl.name)) :
    readFields readFieldPdb (render fmt env) slices
      = .ok (slices.map fun sl => (sl.name, readBack (spec sl) (env sl.name))) ∧
    readFields readFieldGro (render fmt env) slices
      = .ok (slices.map fun sl => (sl.name, readBack (spec sl) (env sl.name))) := by
  induction slices with
  | nil => exact ⟨rfl, rfl⟩
  | cons sl rest ih =>
    have hsl := hall sl (by simp)
    have ih' := ih (fun s hs => hall s (by simp [hs]))
    have hr := field_read_total fmt env sl.name sl.ty sl.start sl.stop (spec sl) h hsl.1 hsl.2
    constructor
    · simp only [readFields, hr.1, ih'.1, List.map_cons]; rfl
    · simp only [readFields, hr.2, ih'.2, List.map_cons]; rfl

/-- the condition `right-aligned` is needed: a left-aligned integer field of width 1 shows only the
sign of −5, and no reader parses that -/
theorem left_aligned_number_unreadable :
    parseInt (strip (renderField ⟨' ', .left, 1, 0, .d, true⟩ (.int (-5)))) = none := by decide +kernel

/-! ## the extracted layouts -/

def totalOkB (sp : Spec) (rty : RTy) (kind : Nat) : Bool :=
  sp.trunc && sp.width != 0 && decide (sp.fill = ' ') &&
  match sp.ty, rty, kind with
  | .d, .int, 0 => !sp.leftAligned
  | .s, .str, 1 => true
  | .f, .float, 2 => !sp.leftAligned && decide (1 ≤ sp.prec) && decide (sp.prec + 2 ≤ sp.width)
  | _, _, _ => false

theorem totalOk_atomEnv (sp : Spec) (rty : RTy) (serial : Nat) (a : Atom) (n : FName)
    (h : totalOkB sp rty (atomKind n) = true) : totalOk sp rty (atomEnv serial a n) := by
  unfold totalOkB at h
  unfold totalOk
  simp only [Bool.and_eq_true, bne_iff_ne, ne_eq, decide_eq_true_eq] at h
  obtain ⟨⟨⟨h1, h2⟩, h3⟩, h4⟩ := h
  refine ⟨h1, h2, h3, ?_⟩
  cases n <;> cases hty : sp.ty <;> cases rty <;> simp_all [atomKind, atomEnv]

/-- every column of `PDBParser._atom` sits on a field that is always readable -/
theorem atom_slices_total : (mkSlices 0 pdbReaderFields).all (fun sl =>
    decide (covers atomFmt sl.name sl.start sl.stop = some (specAt sl)) &&
    totalOkB (specAt sl) sl.ty (atomKind sl.name)) = true := by
  decide

/-- … and so does every column of `read_gro`, for the default and every tabulated `precision` -/
theorem gro_slices_total : (groSlices 8).all (fun sl =>
    decide (covers groFmt sl.name sl.start sl.stop = some (specAtGro sl)) &&
    totalOkB (specAtGro sl) sl.ty (atomKind sl.name)) = true ∧
    groFmts.all (fun e => (groSlices (e.1 + 1)).all fun sl =>
      match covers e.2 sl.name sl.start sl.stop with
      | some sp => totalOkB sp sl.ty (atomKind sl.name)
      | none => false) = true := by
  decide

/-- **the column slicing of `PDBParser._atom` never fails on an ATOM line of `write_pdb_string`** and
returns, name by name, `readBack` of the value written -/
theorem atom_record_total (serial : Nat) (a : Atom) :
    readFields readFieldPdb (atomLine pdb serial a) (mkSlices 0 pdbReaderFields) =
      .ok ((mkSlices 0 pdbReaderFields).map fun sl => (sl.name, readBack (specAt sl) (atomEnv serial a sl.name))) :=
  (fields_read_total atomFmt (atomEnv serial a) atom_fmt_allTrunc.1 (mkSlices 0 pdbReaderFields) specAt
    (by
      intro sl hsl
      have hok := List.all_eq_true.mp atom_slices_total sl hsl
      simp only [Bool.and_eq_true, decide_eq_true_eq] at hok
      exact ⟨hok.1, totalOk_atomEnv _ _ _ _ _ hok.2⟩)).1

/-! ## what the reader makes of ANY atom -/

/-- a string through a left-aligned `t` column of width `w` and back: cut on the right, blanks at the ends gone -/
def cutL (w : Nat) (s : List Char) : List Char := strip (s.take w)
/-- … through a right-aligned one: cut on the left -/
def cutR (w : Nat) (s : List Char) : List Char := strip (s.drop (s.length - w))

theorem strip_render_left (sp : Spec) (s : List Char) (hty : sp.ty = .s) (hf : sp.fill = ' ')
    (htr : sp.trunc = true) (hw : sp.width ≠ 0) (hl : sp.leftAligned = true) :
    strip (renderField sp (.str s)) = cutL sp.width s := by
  rw [str_field_total sp s hty hf]
  have hw' : (sp.width != 0) = true := by simpa using hw
  unfold cutL
  by_cases h : sp.width < s.length
  · simp [htr, hw', h, hl]
  · simp only [h, decide_false, Bool.and_false, Bool.false_eq_true, if_false]
    rw [List.take_of_length_le (by omega)]

theorem strip_render_right (sp : Spec) (s : List Char) (hty : sp.ty = .s) (hf : sp.fill = ' ')
    (htr : sp.trunc = true) (hw : sp.width ≠ 0) (hl : sp.leftAligned = false) :
    strip (renderField sp (.str s)) = cutR sp.width s := by
  rw [str_field_total sp s hty hf]
  have hw' : (sp.width != 0) = true := by simpa using hw
  unfold cutR
  by_cases h : sp.width < s.length
  · simp [htr, hw', h, hl]
  · simp only [h, decide_false, Bool.and_false, Bool.false_eq_true, if_false]
    have : s.length - sp.width = 0 := by omega
    rw [this]; rfl

/-- the element the PDB reader ends up with for ANY atom: the element column (2 characters), else the
first ASCII letter of the name column (4 characters); `none` = `first_alpha` raises (F-C16-2) -/
def truncElement (a : Atom) : Option (List Char) :=
  if cutL 2 (a.element.getD []) ≠ [] then some (cutL 2 (a.element.getD []))
  else ((cutL 4 (a.atomname.getD [])).find? isAsciiLetter).map fun c => [c]

/-- **the atom `read_pdb` returns for ANY atom `a` written with serial `serial`**: strings cut to
their columns, numbers reduced to their last digits when they overflow, everything else exact -/
def truncAtomOf (serial : Nat) (a : Atom) : PAtom :=
  { atomid := truncInt 5 serial, atomname := cutL 4 (a.atomname.getD []), altloc := cutL 1 (a.altloc.getD []),
    resname := cutL 3 (a.resname.getD []), chain := cutL 1 (a.chain.getD []), resid := truncInt 4 (a.resid.getD 1),
    icode := cutL 1 (a.icode.getD []), x := (truncFix 8 3 a.x, 3), y := (truncFix 8 3 a.y, 3), z := (truncFix 8 3 a.z, 3),
    occ := (truncFix 6 2 (a.occ.getD 100), 2), temp := (truncFix 6 2 (a.temp.getD 0), 2),
    element := (truncElement a).getD [] }

theorem atom_props_total (serial : Nat) (a : Atom) :
    readFields readFieldPdb (atomLine pdb serial a) (mkSlices 0 pdbReaderFields) =
      .ok [(.atomid, .int (truncInt 5 serial)), (.atomname, .str (cutL 4 (a.atomname.getD []))),
           (.altloc, .str (cutL 1 (a.altloc.getD []))), (.resname, .str (cutL 3 (a.resname.getD []))),
           (.chain, .str (cutL 1 (a.chain.getD []))), (.resid, .int (truncInt 4 (a.resid.getD 1))),
           (.insertion_code, .str (cutL 1 (a.icode.getD []))), (.x, .dec (truncFix 8 3 a.x) 3),
           (.y, .dec (truncFix 8 3 a.y) 3), (.z, .dec (truncFix 8 3 a.z) 3),
           (.occupancy, .dec (truncFix 6 2 (a.occ.getD 100)) 2), (.temp_factor, .dec (truncFix 6 2 (a.temp.getD 0)) 2),
           (.element, .str (cutL 2 (a.element.getD []))), (.charge, .str [])] := by
  rw [atom_record_total]
  have e : ∀ (w : Nat) (s : List Char), w ≠ 0 → strip (renderField ⟨' ', .dflt, w, 0, .s, true⟩ (.str s)) = cutL w s :=
    fun w s hw => strip_render_left ⟨' ', .dflt, w, 0, .s, true⟩ s rfl rfl rfl hw rfl
  rw [← e 4 _ (by decide), ← e 1 (a.altloc.getD []) (by decide), ← e 3 _ (by decide), ← e 1 (a.chain.getD []) (by decide),
    ← e 1 (a.icode.getD []) (by decide), ← e 2 _ (by decide)]
  rfl

/-- **pdb_atom_total.**  `PDBParser._atom` on the ATOM line of ANY atom — any strings, any numbers,
overflowing or not: it raises only when no element can be found (blank element column and no
ASCII letter in the four name columns: F-C16-2), drops the atom only for an alternate location
other than blank/'A' or an excluded residue name, and otherwise returns `truncAtomOf`. -/
theorem pdb_atom_total (excl : List (List Char)) (serial : Nat) (a : Atom) :
    parseAtomLine pdb excl false (atomLine pdb serial a) =
      if (truncElement a).isNone then .error .valueerror
      else if cutL 1 (a.altloc.getD []) ≠ [] ∧ cutL 1 (a.altloc.getD []) ≠ ['A'] then .ok .skip
      else if excl.contains (cutL 3 (a.resname.getD [])) then .ok .skip
      else .ok (.keep (truncAtomOf serial a)) := by
  unfold parseAtomLine
  have hp : pdb.readerFields = pdbReaderFields := rfl
  rw [hp, atom_props_total]
  unfold truncAtomOf truncElement
  by_cases he : cutL 2 (a.element.getD []) = []
  · cases hf : (cutL 4 (a.atomname.getD [])).find? isAsciiLetter with
    | none =>
      simp [pdbAtomOfProps, Props.isNan, Props.str, Props.int, Props.dec, Props.get, List.find?, he, hf, firstAlpha, bind,
        Except.bind, pure, Except.pure]
    | some c =>
      by_cases halt : cutL 1 (a.altloc.getD []) ≠ [] ∧ cutL 1 (a.altloc.getD []) ≠ ['A']
      · simp [pdbAtomOfProps, Props.isNan, Props.str, Props.int, Props.dec, Props.get, List.find?, he, hf, firstAlpha, bind,
          Except.bind, pure, Except.pure, halt]
      · by_cases hex : cutL 3 (a.resname.getD []) ∈ excl <;>
          simp [pdbAtomOfProps, Props.isNan, Props.str, Props.int, Props.dec, Props.get, List.find?, he, hf, firstAlpha, bind,
            Except.bind, pure, Except.pure, halt, hex]
  · by_cases halt : cutL 1 (a.altloc.getD []) ≠ [] ∧ cutL 1 (a.altloc.getD []) ≠ ['A']
    · simp [pdbAtomOfProps, Props.isNan, Props.str, Props.int, Props.dec, Props.get, List.find?, he, bind,
        Except.bind, pure, Except.pure, halt]
    · by_cases hex : cutL 3 (a.resname.getD []) ∈ excl <;>
        simp [pdbAtomOfProps, Props.isNan, Props.str, Props.int, Props.dec, Props.get, List.find?, he, bind,
          Except.bind, pure, Except.pure, halt, hex]

/-- the explicit condition under which the line of an atom is read as an atom: an element can be
found, alternate location blank or 'A', residue name (as it fits the column) not excluded, and no
'#' in the line (the parser would take the rest as a comment).  NO requirement that values fit. -/
def atomKeepB (excl : List (List Char)) (serial : Nat) (a : Atom) : Bool :=
  (truncElement a).isSome &&
  (cutL 1 (a.altloc.getD []) == [] || cutL 1 (a.altloc.getD []) == ['A']) &&
  !(excl.contains (cutL 3 (a.resname.getD []))) &&
  (atomLine pdb serial a).all (· ≠ '#')

theorem atomKeepB_parse (excl : List (List Char)) (serial : Nat) (a : Atom) (h : atomKeepB excl serial a = true) :
    parseAtomLine pdb excl false (atomLine pdb serial a) = .ok (.keep (truncAtomOf serial a)) := by
  unfold atomKeepB at h
  simp only [Bool.and_eq_true, Bool.or_eq_true, beq_iff_eq, Bool.not_eq_true'] at h
  obtain ⟨⟨⟨hel, halt⟩, hex⟩, _⟩ := h
  rw [pdb_atom_total]
  have h1 : ¬ (truncElement a).isNone = true := by
    cases h : truncElement a <;> simp_all
  have h2 : ¬ (cutL 1 (a.altloc.getD []) ≠ [] ∧ cutL 1 (a.altloc.getD []) ≠ ['A']) := by
    rcases halt with h | h <;> simp [h]
  have h3 : cutL 3 (a.resname.getD []) ∉ excl := by
    intro hmem
    have : excl.contains (cutL 3 (a.resname.getD [])) = true := by simpa using hmem
    rw [this] at hex; cases hex
  simp [h1, h2, h3]

/-- **overflow never corrupts another atom or the molecule division (file level), with the
readability PROVED.**  For a system whose atoms merely satisfy `atomKeepB` — fields may overflow in
any way — the text of `write_pdb_string` is read back with the same number of molecules, the same
number of atoms in each, in the same order, and the k-th atom read is `truncAtomOf` of the k-th
atom written: every field that fits exact (`truncInt`, `truncFix`, `cutL` are the identity there),
every overflowing field reduced to what its own column shows, nothing else touched. -/
theorem pdb_file_overflow_local (excl : List (List Char)) (sys : List Mol)
    (h : allSysB (atomKeepB excl) 1 sys = true) :
    ∃ lines r, writePdb pdb false sys = .ok lines ∧ readPdb pdb excl false lines = .ok r ∧
      r.mols = expectedMols truncAtomOf 1 sys ∧ r.bonds = [] := by
  have hreads : ∀ s a, atomKeepB excl s a = true →
      ReadsAsAtom pdb excl false (atomLine pdb s a) (truncAtomOf s a) := by
    intro s a hb
    have hp := atomKeepB_parse excl s a hb
    unfold atomKeepB at hb
    simp only [Bool.and_eq_true] at hb
    exact atom_lines_read excl false s a _ hb.2 hp
  have hall := AllSys_mono hreads sys 1 (allSysB_iff _ sys 1 h)
  have hne := AllSys_nonempty sys 1 hall
  have hgroups := groupsOf_ok pdb excl false truncAtomOf
    (fun s a => (ter_end_lines_finish excl false s a).1) sys 1 hall
  have hend := (ter_end_lines_finish excl false 0 exAtom).2
  have hw := writeMols_eq_groups pdb truncAtomOf sys 1 none hne
  have hr := readPdb_groups_conects pdb excl false (groupsOf pdb truncAtomOf 1 sys) [] pdb.endLine hgroups
    (by intro l hl; cases hl) hend
  refine ⟨groupLines (groupsOf pdb truncAtomOf 1 sys) ++ [] ++ [pdb.endLine],
    ⟨(groupsOf pdb truncAtomOf 1 sys).map (fun g => g.1.map Prod.snd), []⟩, ?_, ?_, ?_, rfl⟩
  · simp only [writePdb, hw, bind, Except.bind, pure, Except.pure]
    rfl
  · rw [hr]; rfl
  · exact groupsOf_mols pdb truncAtomOf sys 1 hne

/-- fields that fit come back exactly: `truncInt`, `truncFix`, `cutL` are the identity on values
that fit their column -/
theorem trunc_id_of_fits (w p : Nat) (i k : Int) (s : List Char) :
    ((intRepr i).length ≤ w → truncInt w i = i) ∧ ((fixRepr p k).length ≤ w → truncFix w p k = k) ∧
    (s.length ≤ w → strip s = s → cutL w s = s) := by
  refine ⟨fun h => by simp [truncInt, h], fun h => by simp [truncFix, h], fun h hs => ?_⟩
  unfold cutL; rw [List.take_of_length_le h, hs]

/-- `exAtom` (residue number 10000 and y = 99999.999 Å overflow): the system satisfies the condition,
and the atom read back is `exPAtom` of `C16Tables` — residue number 0, y = 9999.999, the rest exact -/
example : allSysB (atomKeepB []) 1 [ { atoms := [exAtom], edges := [] } ] = true ∧
    truncAtomOf 10000 exAtom = exPAtom := by
  have h : sortedNodes { atoms := [exAtom], edges := [] } = [exAtom] := by simp [sortedNodes]
  simp only [allSysB, h]
  decide +kernel

/-! ## GRO: the same for `write_gro` / `read_gro` -/

/-- the column slicing of `read_gro` never fails on an atom line of `write_gro` -/
theorem gro_props_total (serial : Nat) (a : Atom) :
    readFields readFieldGro (groLine gro serial a) (groSlices 8) =
      .ok [(.resid, .int (truncInt 5 (a.resid.getD 1))), (.resname, .str (cutL 5 (a.resname.getD []))),
           (.atomname, .str (cutR 5 (a.atomname.getD []))), (.atomid, .int (truncInt 5 serial)),
           (.x, .dec (truncFix 8 3 a.x) 3), (.y, .dec (truncFix 8 3 a.y) 3), (.z, .dec (truncFix 8 3 a.z) 3)] := by
  have h := (fields_read_total groFmt (atomEnv serial a) atom_fmt_allTrunc.2.2 (groSlices 8) specAtGro
    (by
      intro sl hsl
      have hok := List.all_eq_true.mp gro_slices_total.1 sl hsl
      simp only [Bool.and_eq_true, decide_eq_true_eq] at hok
      exact ⟨hok.1, totalOk_atomEnv _ _ _ _ _ hok.2⟩)).2
  have hg : groLine gro serial a = render groFmt (atomEnv serial a) := rfl
  rw [hg, h]
  rw [← strip_render_left ⟨' ', .left, 5, 0, .s, true⟩ (a.resname.getD []) rfl rfl rfl (by decide) rfl,
    ← strip_render_right ⟨' ', .right, 5, 0, .s, true⟩ (a.atomname.getD []) rfl rfl rfl (by decide) rfl]
  rfl

/-- the atom `read_gro` returns for ANY atom -/
def truncGAtomOf (serial : Nat) (a : Atom) : GAtom :=
  { resid := truncInt 5 (a.resid.getD 1), resname := cutL 5 (a.resname.getD []), atomname := cutR 5 (a.atomname.getD []),
    atomid := truncInt 5 serial, x := (truncFix 8 3 a.x, 3), y := (truncFix 8 3 a.y, 3), z := (truncFix 8 3 a.z, 3),
    element := ((cutR 5 (a.atomname.getD [])).find? isAsciiLetter).getD ' ' }

/-- an ASCII letter in the five name columns (else `first_alpha` raises: F-C16-2), residue name as it
fits its column not excluded -/
def groKeepB (excl : List (List Char)) (a : Atom) : Bool :=
  ((cutR 5 (a.atomname.getD [])).find? isAsciiLetter).isSome &&
  !(excl.contains (cutL 5 (a.resname.getD [])))

/-- **gro_line_total**: the atom line of ANY atom with `groKeepB` is read as `truncGAtomOf` -/
theorem gro_line_total (excl : List (List Char)) (serial : Nat) (a : Atom) (n idx : Nat)
    (h : groKeepB excl a = true) :
    groParseLine excl false ⟨groSlices 8, false⟩ n idx (groLine gro serial a) = .ok (.keep (truncGAtomOf serial a)) := by
  unfold groKeepB at h
  simp only [Bool.and_eq_true, Bool.not_eq_true'] at h
  obtain ⟨hlet, hex⟩ := h
  unfold groParseLine
  simp only [gro_props_total]
  cases hf : (cutR 5 (a.atomname.getD [])).find? isAsciiLetter with
  | none => rw [hf] at hlet; simp at hlet
  | some c =>
    have hex' : cutL 5 (a.resname.getD []) ∉ excl := by
      intro hmem
      have : excl.contains (cutL 5 (a.resname.getD [])) = true := by simpa using hmem
      rw [this] at hex; cases hex
    simp [Props.str, Props.int, Props.dec, Props.get, List.find?, firstAlpha, hf, hex', truncGAtomOf, bind,
      Except.bind, pure, Except.pure]

theorem groLoop_pairs_total (excl : List (List Char)) (n : Nat) (tail : List (List Char))
    (htail : tail = [] ∨ ∃ b t, tail = b :: t ∧ (readFields readFieldGro b (groSlices 8)).toOption = none) :
    ∀ (ps : List (Nat × Atom)) (idx : Nat), (∀ p ∈ ps, groKeepB excl p.2 = true) → idx + ps.length = n →
      groLoop excl false ⟨groSlices 8, false⟩ n idx (ps.map (fun p => groLine gro p.1 p.2) ++ tail) =
        .ok (ps.map fun p => truncGAtomOf p.1 p.2)
  | [], idx, _, hn => by
      rcases htail with h | ⟨b, t, h, hnone⟩
      · subst h; rfl
      · subst h
        obtain ⟨e, herr⟩ : ∃ e, readFields readFieldGro b (groSlices 8) = .error e := by
          cases hr : readFields readFieldGro b (groSlices 8) with
          | error e => exact ⟨e, rfl⟩
          | ok v => rw [hr] at hnone; cases hnone
        simp only [List.map_nil, List.nil_append, groLoop, groParseLine, herr]
        have : idx = n := by simpa using hn
        simp [this, bind, Except.bind, pure, Except.pure]
  | p :: ps, idx, h, hn => by
      simp only [List.map_cons, List.cons_append, groLoop]
      rw [gro_line_total excl p.1 p.2 n idx (h p (by simp))]
      have ih := groLoop_pairs_total excl n tail htail ps (idx + 1) (fun q hq => h q (by simp [hq]))
        (by simp only [List.length_cons] at hn; omega)
      simp only [bind, Except.bind, pure, Except.pure, ih]

/-- **overflow in a GRO file stays where it is.**  For ANY system with at least one atom whose atoms
satisfy `groKeepB` — residue numbers beyond 99999, names of any length, coordinates beyond the
eight columns — the file `write_gro` produces is read back by `read_gro` (which first detects the
column width on the first atom line) with the same number of atoms in the same order, the k-th
being `truncGAtomOf` of the k-th written: fields that fit exact (`trunc_id_of_fits`), overflowing
fields reduced to what their own columns show. -/
theorem gro_file_overflow_local (excl : List (List Char)) (sys : List Mol) (title : List Char)
    (tail : List (List Char))
    (hne : groPairs 1 sys ≠ []) (hall : ∀ p ∈ groPairs 1 sys, groKeepB excl p.2 = true)
    (htail : tail = [] ∨ ∃ b t, tail = b :: t ∧ (readFields readFieldGro b (groSlices 8)).toOption = none) :
    readGro gro excl false (title :: natDigits (writeGro gro sys).length :: (writeGro gro sys ++ tail)) =
      .ok ((groPairs 1 sys).map fun p => truncGAtomOf p.1 p.2) := by
  have hw : writeGro gro sys = (groPairs 1 sys).map fun p => groLine gro p.1 p.2 := writeGro_eq gro sys 1
  rw [hw]
  cases hps : groPairs 1 sys with
  | nil => exact absurd hps hne
  | cons p ps =>
    rw [hps] at hall
    obtain ⟨d1, d2⟩ := gro_detect p.1 p.2
    have hdet : groDetect gro (groLine gro p.1 p.2) = ⟨groSlices 8, false⟩ := by
      cases hd : groDetect gro (groLine gro p.1 p.2) with
      | mk sl hv => rw [hd] at d1 d2; simp only at d1 d2; rw [d1, d2]
    simp only [List.map_cons, List.cons_append, readGro]
    rw [strip_of_no_ws _ (natDigits_no_ws _), parseInt_natDigits]
    have hneg : ¬ (((List.length (groLine gro p.1 p.2 :: List.map (fun p => groLine gro p.1 p.2) ps) : Nat) : Int) < 0) := by
      omega
    simp only [hneg, if_false, hdet, Int.toNat_natCast]
    have := groLoop_pairs_total excl (List.length (groLine gro p.1 p.2 :: List.map (fun p => groLine gro p.1 p.2) ps))
      tail htail (p :: ps) 0 hall (by simp)
    simpa using this

/-- a residue number of six digits, a seven-character residue name, x = −123456.789 nm: all readable;
residue number, residue name and x come back cut, the rest exact -/
example : groKeepB [] { exAtom with resid := some 123456, resname := some "LONGRES".toList, x := -123456789 } = true ∧
    truncGAtomOf 7 { exAtom with resid := some 123456, resname := some "LONGRES".toList, x := -123456789 } =
      { resid := 23456, resname := "LONGR".toList, atomname := ['C', 'A'], atomid := 7, x := (3456789, 3),
        y := (9999999, 3), z := (0, 3), element := 'C' } := by
  decide +kernel

end C16
