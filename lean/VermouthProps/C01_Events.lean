import VermouthProofs.C01_Events
import VermouthProps.C01
/-!
# C01 — the closed-form theorems for runs WITH modification matches

`eventsOf ps qs` is the order in which `do_mapping` applies the block matches `ps` and the
modification matches `qs` (`schedule`, the `while block_matches or mod_matches` loop);
`nodesSpecE` is the particle table in closed form: in that order one copy of the block per block
match (`shiftNodes`, as in `assemble_nodes`) and, per modification match, its new `PTM_atom`
particles (`newNodesL`) under the next free keys.

Hypotheses: `NoCoreRepl` (no `replace` dictionary of a modification node touches atomname / resid /
charge_group: such a replace changes existing rows of the table, see `placeModNodes`),
`startsWithBlock` (the first match applied is a block match with at least one particle; a
modification match applied to the empty graph numbers its first new particle 0).

Known finding F-C01-3 is NOT hidden by the closed form: after a new particle the offsets are
`Off.afterNew` = the new particle's own resid / charge group (default 1), not the running ones;
`residue_offset_restarts` (VermouthProps/C01.lean) and `residue_offset_restarts_closed_form` below
are the witnesses.
-/
namespace C01
open C12

def NoCoreRepl (qs : List ModPlacement) : Prop := ∀ q ∈ qs, ∀ n ∈ q.nodes, n.repl = {}
def NoNew (qs : List ModPlacement) : Prop := ∀ q ∈ qs, ∀ n ∈ q.nodes, n.isNew = false

instance (qs : List ModPlacement) : Decidable (NoCoreRepl qs) := by unfold NoCoreRepl; infer_instance
instance (qs : List ModPlacement) : Decidable (NoNew qs) := by unfold NoNew; infer_instance

/-- the matches in the order `do_mapping` applies them -/
def eventsOf (ps : List Placement) (qs : List ModPlacement) : List Ev :=
  schedule ((order ps).length + (orderM qs).length) (order ps) (orderM qs)

theorem eventsOf_split (ps : List Placement) (qs : List ModPlacement) :
    blocksOf (eventsOf ps qs) = order ps ∧ modsOf (eventsOf ps qs) = orderM qs :=
  schedule_split _ _ _ (Nat.le_refl _)

theorem mods_of_events (ps : List Placement) (qs : List ModPlacement) (P : ModPlacement → Prop)
    (h : ∀ q ∈ qs, P q) : ∀ q ∈ modsOf (eventsOf ps qs), P q := by
  intro q hq
  rw [(eventsOf_split ps qs).2] at hq
  exact h q ((orderM_perm qs).subset hq)

/-- `assemble_nodes_with_mods`: the particle table of a run with block AND modification matches is
the concatenation, in the order the matches are applied, of one copy of the block per block match
(keys, resid and charge-group offsets as `merge_molecule` gives them) and, per modification match,
its new particles where the code puts them: at the end of the table as it is then, under the next
keys.  Every particle of the result is `beadOf` of its row: key, name and charge group are the
row's, and so is the resid whenever the row has one (a new particle without resid receives an
input resid from the attribute loop). -/
theorem assemble_nodes_with_mods (m : MolIn) (ps : List Placement) (qs : List ModPlacement) (r : Result)
    (h : assembleAll m ps qs = .ok r) (hrepl : NoCoreRepl qs) (hstart : startsWithBlock (eventsOf ps qs) = true) :
    r.beads.map (fun b => (b.key, b.name, b.cg))
        = (nodesSpecE Off.zero (eventsOf ps qs)).map (fun n => (n.1, n.2.name, n.2.cg))
    ∧ ∃ st, r.beads = (nodesSpecE Off.zero (eventsOf ps qs)).map (beadOf m st)
        ∧ ∀ n, n.2.resid.isSome = true → (beadOf m st n).resid = n.2.resid := by
  obtain ⟨hok, rfl⟩ := assembleAll_ok m ps qs r h
  rw [runAll_eq_fold] at hok ⊢
  have hr : ∀ q ∈ modsOf (eventsOf ps qs), ∀ n ∈ q.nodes, n.repl = {} := mods_of_events ps qs _ hrepl
  obtain ⟨htab, hrange⟩ := run_table (eventsOf ps qs) hstart hr hok
  have hnodes := (withInterEdges_range m _ hrange).1
  have hbeads : (finish m ((eventsOf ps qs).foldl applyEv {})).beads
      = (nodesSpecE Off.zero (eventsOf ps qs)).map (beadOf m ((eventsOf ps qs).foldl applyEv {})) := by
    unfold finish
    simp only
    rw [hnodes, htab]
  refine ⟨?_, _, hbeads, ?_⟩
  · show List.map _ (finish m (List.foldl applyEv {} (eventsOf ps qs))).beads = _
    rw [hbeads, List.map_map]
    apply List.map_congr_left
    intro n _
    obtain ⟨k, nm, rs, cg, ch⟩ := n
    simp only [Function.comp, beadOf]
    split
    · rfl
    · split <;> rfl
  · intro n hn
    obtain ⟨k, nm, rs, cg, ch⟩ := n
    cases rs with
    | none => cases hn
    | some x =>
      simp only [beadOf]
      split
      · rfl
      · split <;> rfl

/-- `block_part_unchanged_by_mods`: when the modification matches only lay nodes over existing
particles (no new particle) and no `replace` dictionary touches atomname / resid / charge_group, the
particle table is EXACTLY the closed form of the run without modification matches
(`assemble_nodes`: same keys, names, resids, charge groups), every bond of every block copy is
present, and every interaction of every block copy is present with the same type, atoms and
version — the only possible differences being the ones a modification declares: parameters
replaced by a modification interaction of that type / atoms / version (`add_or_replace_interaction`),
bonds and interactions added by the modification, non-core attributes (`replace_applied`). -/
theorem block_part_unchanged_by_mods (m : MolIn) (ps : List Placement) (qs : List ModPlacement) (r : Result)
    (h : assembleAll m ps qs = .ok r) (hrepl : NoCoreRepl qs) (hnew : NoNew qs)
    (hstart : startsWithBlock (eventsOf ps qs) = true) :
    r.beads.map Bead.core = (nodesSpec Off.zero (order ps)).map coreOf
    ∧ (∀ x y, ((x, y) ∈ edgesSpec Off.zero (order ps) ∨ (y, x) ∈ edgesSpec Off.zero (order ps)) → r.hasEdge x y = true)
    ∧ (∀ ti ∈ intersSpec Off.zero (order ps), ∃ ti' ∈ r.inters, sameKey ti' ti) := by
  obtain ⟨hok, rfl⟩ := assembleAll_ok m ps qs r h
  rw [runAll_eq_fold, show schedule ((order ps).length + (orderM qs).length) (order ps) (orderM qs) = eventsOf ps qs from rfl] at hok ⊢
  have hr : ∀ q ∈ modsOf (eventsOf ps qs), ∀ n ∈ q.nodes, n.repl = {} := mods_of_events ps qs _ hrepl
  have hn : ∀ q ∈ modsOf (eventsOf ps qs), ∀ n ∈ q.nodes, n.isNew = false := mods_of_events ps qs _ hnew
  obtain ⟨htab, hrange⟩ := run_table (eventsOf ps qs) hstart hr hok
  obtain ⟨w1, w2, w3⟩ := withInterEdges_range m _ hrange
  rw [nodesSpecE_noNew _ _ hn, (eventsOf_split ps qs).1] at htab
  -- edges and interactions: split off the first block match as in `run_table`
  have hei : (∀ x y, ((x, y) ∈ edgesSpecE Off.zero (eventsOf ps qs) ∨ (y, x) ∈ edgesSpecE Off.zero (eventsOf ps qs)) →
        ((eventsOf ps qs).foldl applyEv {}).out.hasEdge x y = true)
      ∧ (∀ ti ∈ intersSpecE Off.zero (eventsOf ps qs),
          ∃ ti' ∈ ((eventsOf ps qs).foldl applyEv {}).out.inters, sameKey ti' ti) := by
    generalize eventsOf ps qs = es at hstart hr hok
    cases es with
    | nil => cases hstart
    | cons e es =>
      cases e with
      | mod q => cases hstart
      | blk p =>
        simp only [startsWithBlock, Bool.not_eq_true', List.isEmpty_eq_false_iff] at hstart
        simp only [List.foldl_cons] at hok ⊢
        have hok1 : (applyEv {} (.blk p)).err = none := by
          cases hx : (applyEv {} (.blk p)).err with
          | none => rfl
          | some x => rw [foldl_applyEv_err es _ x hx, hx] at hok; cases hok
        obtain ⟨s1, s2, _, _, _, _, _, s8, s9, _⟩ := applyBlock_spec {} p Off.zero inv_empty rfl hok1
        have hne1 : (applyBlock {} p).out.nodes ≠ [] := by
          rw [s1]
          intro hnil
          have := congrArg List.length hnil
          simp [shiftNodes, enumFrom_length] at this
          exact hstart this
        obtain ⟨t1, t2⟩ := foldEv_edges_inters es (applyBlock {} p) _ s2 hne1 (by simpa [modsOf] using hr) hok1 hok
        refine ⟨?_, ?_⟩
        · intro x y hxy
          apply t1
          simp only [edgesSpecE, List.mem_append] at hxy
          rcases hxy with (h1 | h1) | (h1 | h1)
          · exact Or.inl ((s9 x y).2 (Or.inr (Or.inl h1)))
          · exact Or.inr (Or.inl h1)
          · exact Or.inl ((s9 x y).2 (Or.inr (Or.inr h1)))
          · exact Or.inr (Or.inr h1)
        · intro ti hti
          apply t2
          simp only [intersSpecE, List.mem_append] at hti
          rcases hti with h1 | h1
          · exact Or.inl (by rw [s8]; exact List.mem_append_right _ h1)
          · exact Or.inr h1
  rw [(specE_noNew _ _ hn).1, (specE_noNew _ _ hn).2, (eventsOf_split ps qs).1] at hei
  refine ⟨?_, ?_, ?_⟩
  · unfold finish
    simp only [List.map_map]
    rw [w1, htab]
    apply List.map_congr_left
    intro n hn'
    exact beadOf_core m _ n (nodesSpec_resid_some _ _ n hn')
  · intro x y hxy
    have := (w3 x y).2 (Or.inl (hei.1 x y hxy))
    unfold Result.hasEdge finish
    simpa [Mol.hasEdge] using this
  · intro ti hti
    obtain ⟨ti', h1, h2⟩ := hei.2 ti hti
    refine ⟨ti', ?_, h2⟩
    unfold finish
    simp only
    rw [w2]; exact h1

/-! ## non-vacuity and the known finding in the closed form -/

-- the instance of `residue_offset_restarts`: blocks on residues 1, 2, 3 and a modification on residue 2
-- whose mapping creates the new particle Q1
example : NoCoreRepl [exMod] := by decide
example : startsWithBlock (eventsOf [exRes 0 1, exRes 10 11, exRes 20 21] [exMod]) = true := by decide

/-- `residue_offset_restarts_closed_form` (known finding F-C01-3, kept visible): the closed form
itself says that the third residue is numbered 2 again after the new particle: the row of Q1 has
no resid, and `Off.afterNew` restarts the offsets from it. -/
theorem residue_offset_restarts_closed_form :
    (nodesSpecE Off.zero (eventsOf [exRes 0 1, exRes 10 11, exRes 20 21] [exMod])).map
        (fun n => (n.1, n.2.name, n.2.resid, n.2.cg))
      = [(1, some "B1", some 1, some 1), (2, some "B1", some 2, some 2), (3, some "Q1", none, none),
         (4, some "B1", some 2, some 2)] := by decide

/-- an overlay-only modification (the shipped mappings are of this kind) -/
def exModOverlay : ModPlacement := ModPlacement.mk [(11, [(0, 1)]), (12, [(0, 1)])]
  [ModNode.mk 0 { name := some "B1" } false {}] [] [("position_restraints", { atoms := [0], params := "1 1000", version := some 0 })] []

example : NoCoreRepl [exModOverlay] ∧ NoNew [exModOverlay] := by decide
example : startsWithBlock (eventsOf [exRes 0 1, exRes 10 11, exRes 20 21] [exModOverlay]) = true := by decide
example : (match assembleAll exMol3 [exRes 0 1, exRes 10 11, exRes 20 21] [exModOverlay] with
    | .ok r => r.beads.map (fun (b : Bead) => (b.key, b.name, b.resid, b.cg))
    | .error _ => [])
    = [(1, some "B1", some 1, some 1), (2, some "B1", some 2, some 2), (3, some "B1", some 3, some 3)] := by decide

end C01
