import VermouthProofs.C18_Order
import VermouthProps.C18
/-!
# C18 (extension) — residues with several backbone beads, and the iteration order of a residue

`contact_selector` takes the first backbone bead and the first prefix-matching type of a residue in the
order networkx iterates the residue's sub-graph view: node order for a large residue, the iteration
order of a CPython set for a small one.  `selectContactsOrd` takes that order as an input.

* `order_irrelevant`: when every residue has at most one backbone bead and at most one bead whose type
  starts with the molecule name (`Single`), the result does not depend on the orders at all, so every
  theorem about `selectContacts` / `goPipeline` (node order) applies to the real run whatever CPython does;
* otherwise the real result is "first in the observed order" (`order_matters`: a two-backbone residue
  whose two orders give different Go distances); the harness hands the observed order to the model and
  compares (counter `compared_with_model_given_observed_subgraph_order`).
-/
namespace C18

/-- no order given: the node-order model -/
theorem selectContactsOrd_nil (P : Params) (atoms : List Atom) (edges : List (Int × Int)) (contacts : List Contact) :
    selectContactsOrd P atoms edges contacts [] = selectContacts P atoms edges contacts := by
  unfold selectContactsOrd selectContacts applyOrders
  have : ∀ l : List Residue, l.map (Residue.ordered []) = l := by
    intro l
    induction l with
    | nil => rfl
    | cons r t ih => rw [List.map_cons, ih]; rfl
  simp only [this]

/-- **`order_irrelevant`**: with at most one backbone bead and one prefix-matching type per residue the
contacts selected do not depend on the order in which residue members are iterated. -/
theorem order_irrelevant (P : Params) (atoms : List Atom) (edges : List (Int × Int)) (contacts : List Contact)
    (orders : List (List Int))
    (hperm : OrdersArePerms orders (residuesOf atoms))
    (hs : ∀ r ∈ residuesOf atoms, Single P r) :
    selectContactsOrd P atoms edges contacts orders = selectContacts P atoms edges contacts := by
  unfold selectContactsOrd selectContacts
  simp only
  congr 1
  apply List.map_congr_left
  intro c _
  exact classify_orders P _ _ orders hperm hs c

/-- the same for the composed pipeline -/
theorem pipeline_order_irrelevant (P : Params) (vsn : String) (atoms : List Atom) (edges : List (Int × Int))
    (contacts : List Contact) (orders : List (List Int))
    (hperm : OrdersArePerms orders (pipelineResidues P vsn atoms))
    (hs : ∀ r ∈ pipelineResidues P vsn atoms, Single P r) :
    goPipelineOrd P vsn atoms edges contacts orders = goPipeline P vsn atoms edges contacts := by
  unfold goPipelineOrd goPipeline
  simp only
  rw [order_irrelevant P _ edges contacts orders hperm hs]

namespace OrderExample
open Example in
/-- residue 1 of chain A with TWO backbone beads (keys 2 and 4), residue 2 with one -/
def atoms : List Atom :=
  [mk 2 "BB" 1 1 "A" "P2" (0, 0, 0), mk 4 "BB" 1 1 "A" "P2" (0, 3, 0), mk 6 "BB" 2 2 "A" "P2" (4, 0, 0)]
def contacts : List Contact := [⟨1, "A", 2, "A"⟩, ⟨2, "A", 1, "A"⟩]
def P : Params := { pre := "mol_0", backbone := "BB", low := ⟨1, 2⟩, up := ⟨9, 2⟩, sep := 0 }

/-- node order: the bead with key 2 stands for the residue: distance 4, inside (1/2, 9/2) -/
example : (goPipelineOrd P "CA" atoms [] contacts []).2
    = .ok [{ ta := "mol_0_2", tb := "mol_0_1", d2 := 16, bbA := 6, bbB := 2 }] := by decide
/-- the order 4, 2 (sites 8, 7): the bead with key 4 stands for it: distance 5, outside the window -/
example : (goPipelineOrd P "CA" atoms [] contacts [[4, 2, 8, 7]]).2 = .ok [] := by decide
example : ¬ ∀ r ∈ pipelineResidues P "CA" atoms, Single P r := by decide
/-- the hypotheses of `order_irrelevant` on the two-chain molecule of `Example`, for a reversed order -/
example : ∀ r ∈ pipelineResidues Example.P "CA" Example.atoms, Single Example.P r := by decide
end OrderExample

/-- **with two backbone beads in a residue the order matters** (which is why such residues are not part
of the unconditional theorems) -/
theorem order_matters :
    ∃ (P : Params) (atoms : List Atom) (contacts : List Contact) (o : List (List Int)),
      OrdersArePerms o (pipelineResidues P "CA" atoms) ∧
      (goPipelineOrd P "CA" atoms [] contacts o).2 ≠ (goPipeline P "CA" atoms [] contacts).2 := by
  refine ⟨OrderExample.P, OrderExample.atoms, OrderExample.contacts, [[4, 2, 8, 7]], ?_, by decide⟩
  intro r hr o ho
  have hfind := List.find?_some ho
  have hmem := List.mem_of_find?_eq_some ho
  have hdec : ∀ r ∈ pipelineResidues OrderExample.P "CA" OrderExample.atoms, ∀ o ∈ [[(4 : Int), 2, 8, 7]],
      r.named o = true → (r.reorder o).members.isPerm r.members = true := by decide
  exact List.isPerm_iff.mp (hdec r hr o hmem hfind)

end C18
