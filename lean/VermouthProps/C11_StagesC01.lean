import VermouthProofs.C11_StagesC01
/-!
# C11 — stage-level presentation invariance, part 2: do_mapping (C01)

Kept in a module of its own so that the statements about the other stage models (`VermouthProps/C11_Stages.lean`)
do not depend on the C01/C12 model files.  Helper lemmas: `VermouthProofs/C11_StagesC01.lean`.
-/
namespace C11

/-! ## 5. numbering of the input atoms: do_mapping (C01)

The keys of the input atoms are assigned by the PDB reader in file order; they are presentation.  `C01.assemble`
reads them through (i) equality (dictionaries, overlap test, references, edges) and (ii) the ORDER of the lowest
atom keys of the matches (`sorted(block_matches, key=min key)`, which fixes the order of the blocks, hence
particle numbers, resids and charge groups).  `S01.support m ps` = every key the input mentions (atom keys, both
ends of the edges, atoms and reference targets of the matches). -/

/-- **mapping_rekey_equivariant.**  For every renumbering `ρ` that is injective on the keys the input mentions and
keeps the order of the lowest atom keys of the matches, `do_mapping` on the renumbered input gives the
renumbered result: same particles, names, resids, charge groups, `_old_resid`, weights, bonds, interactions,
warnings, same error outcome; the constituent atoms of every particle are the renumbered ones. -/
theorem mapping_rekey_equivariant (ρ : Int → Int) (m : C01.MolIn) (ps : List C01.Placement)
    (hinj : ∀ x ∈ S01.support m ps, ∀ y ∈ S01.support m ps, ρ x = ρ y → x = y)
    (hord : ∀ p ∈ ps, ∀ q ∈ ps,
      (C01.minKey (Placement.rekey ρ p) ≤ C01.minKey (Placement.rekey ρ q) ↔ C01.minKey p ≤ C01.minKey q)) :
    C01.assemble (MolIn.rekey ρ m) (ps.map (Placement.rekey ρ)) = (C01.assemble m ps).map (Result.rekey ρ) :=
  c01_assemble_rekey_equivariant ρ m ps hinj hord

/-- **mapping_table_rekey_invariant** (the clause of C11).  Under the same hypotheses the particle table (key,
name, resid, charge group, `_old_resid`, weights in order), the bonds, the interactions and the warnings - or
the error - are THE SAME. -/
theorem mapping_table_rekey_invariant (ρ : Int → Int) (m : C01.MolIn) (ps : List C01.Placement)
    (hinj : ∀ x ∈ S01.support m ps, ∀ y ∈ S01.support m ps, ρ x = ρ y → x = y)
    (hord : ∀ p ∈ ps, ∀ q ∈ ps,
      (C01.minKey (Placement.rekey ρ p) ≤ C01.minKey (Placement.rekey ρ q) ↔ C01.minKey p ≤ C01.minKey q)) :
    (C01.assemble (MolIn.rekey ρ m) (ps.map (Placement.rekey ρ))).map Result.table
      = (C01.assemble m ps).map Result.table :=
  c01_table_rekey_invariant ρ m ps hinj hord

/-- **mapping_table_monotone_renumbering.**  In particular for every renumbering that is strictly increasing on the
keys the input mentions (what the reader does when atoms are added or removed elsewhere in the file, or numbering
starts elsewhere); nothing is required outside those keys. -/
theorem mapping_table_monotone_renumbering (ρ : Int → Int) (m : C01.MolIn) (ps : List C01.Placement)
    (hmono : ∀ x ∈ S01.support m ps, ∀ y ∈ S01.support m ps, x < y → ρ x < ρ y) :
    C01.assemble (MolIn.rekey ρ m) (ps.map (Placement.rekey ρ)) = (C01.assemble m ps).map (Result.rekey ρ)
    ∧ (C01.assemble (MolIn.rekey ρ m) (ps.map (Placement.rekey ρ))).map Result.table
        = (C01.assemble m ps).map Result.table :=
  ⟨c01_assemble_rekey_equivariant_increasing ρ m ps hmono, c01_table_rekey_invariant_increasing ρ m ps hmono⟩

/-- a renumbering that is strictly increasing inside the atoms of a match moves the lowest key with it -/
theorem mapping_lowest_key_rekey (ρ : Int → Int) (p : C01.Placement) (hne : p.atoms ≠ [])
    (hmono : ∀ x ∈ p.atoms, ∀ y ∈ p.atoms, x < y → ρ x < ρ y) :
    C01.minKey (Placement.rekey ρ p) = ρ (C01.minKey p) :=
  c01_minKey_rekey ρ p hne hmono

/-- **mapping_nonmonotone_changes_block_order.**  The order hypothesis cannot be dropped: exchanging the keys of two
residues (an injective renumbering of the same molecule with the same matches) exchanges the two blocks in the
particle table.  This is why the numbering of the PDB reader (file order of the RESIDUES) is not presentation,
while the order of the atoms inside a residue is. -/
theorem mapping_nonmonotone_changes_block_order :
    (∀ x y, Ex01.swap x = Ex01.swap y → x = y)
    ∧ (C01.assemble Ex01.mol [Ex01.pA, Ex01.pB]).map (fun r => (Result.table r).beads)
        = .ok [⟨1, some "A", some 1, some 1, some 1, [1, 1]⟩, ⟨2, some "B", some 2, some 2, some 2, [1, 1]⟩]
    ∧ (C01.assemble (MolIn.rekey Ex01.swap Ex01.mol) ([Ex01.pA, Ex01.pB].map (Placement.rekey Ex01.swap))).map
          (fun r => (Result.table r).beads)
        = .ok [⟨1, some "B", some 1, some 1, some 2, [1, 1]⟩, ⟨2, some "A", some 2, some 2, some 1, [1, 1]⟩] := by
  obtain ⟨h1, _, h3, h4, _⟩ := c01_nonmonotone_changes_block_order
  exact ⟨h1, h3, h4⟩

example : ∀ x ∈ S01.support C01.exMol [C01.exP2, C01.exP1], ∀ y ∈ S01.support C01.exMol [C01.exP2, C01.exP1],
    x < y → Ex01.ρK x < Ex01.ρK y := by decide
example : ¬ (∀ x y, Ex01.ρK x = Ex01.ρK y → x = y) := fun h => absurd (h 0 1 (by decide)) (by decide)

end C11
