import VermouthProofs.C06_Cosets
import VermouthProps.C06_IsmagsSym
import VermouthProps.C06_IsmagsLcsSym
/-!
# C06 — what the cosets of `analyze_symmetry` must be, and what follows when they are

`analyze_symmetry` (with `_refine_node_partitions`, `_process_ordered_pair_partitions`, `_couple_nodes`,
`_update_orbits`, ...) is NOT transcribed.  Its output `cosets` (dict node -> set of nodes) is checked on
every real symmetry=True call by the decidable checker `cosetsExactB` (driver op `tcosets`):

* every entry `cosets[k]` is EXACTLY the orbit of `k` under the automorphisms of the pattern that fix every
  node with a smaller key, every node without an entry has the trivial orbit (`cosetsExact_spec`, stated
  against the declarative notion of an automorphism; `cosetsExact_auts` against the verified enumerator `auts`);
* then `_make_constraints(cosets)` meets the hypothesis `constraintsValidB` of the symmetry theorems
  (`cosetsExact_constraintsValid`), so the transcribed search yields exactly one representative per class
  (`ismags_find_one_per_class_cosets`) and the symmetry-reduced common-subgraph search loses nothing
  (`ismags_lcs_sym_cover_cosets`);
* and the product of the coset sizes is the number of automorphisms of the pattern (`cosetsExact_product`:
  orbit-stabiliser along the chain) - the driver compares `prod(len(v) for v in cosets.values())` of the real
  dict with `(auts sg).length` on every call, so a coset that is too large or too small is refused even when
  it leaves the yielded set unchanged on the target at hand.
-/
namespace C06
open Iso C06I

/-- the checker decides the declarative statement: every entry is the orbit of its key under the
automorphisms fixing all smaller pattern nodes, and a node without an entry is fixed by all of them -/
theorem cosetsExact_spec (sg : Graph) (hs : sg.keys.Nodup) (cosets : List (Int × List Int)) :
    cosetsExactB sg cosets = true ↔
      (∀ k ts, (k, ts) ∈ cosets → k ∈ sg.keys ∧
        ∀ t, t ∈ ts ↔ ∃ f, IsIndIso sg sg f ∧ (∀ j ∈ sg.keys, j < k → f j = j) ∧ f k = t)
      ∧ ∀ i ∈ sg.keys, (∃ ts, (i, ts) ∈ cosets)
          ∨ ∀ t, (∃ f, IsIndIso sg sg f ∧ (∀ j ∈ sg.keys, j < i → f j = j) ∧ f i = t) → t = i :=
  cosetsExactB_iff sg hs cosets

/-- soundness against the verified enumerator `auts` (`allIsos sg sg`: sound, complete, duplicate-free):
an accepted entry lists exactly the images of its key under the enumerated automorphisms that fix all smaller
nodes, and for a node without an entry all those images are the node itself -/
theorem cosetsExact_auts (sg : Graph) (cosets : List (Int × List Int)) (h : cosetsExactB sg cosets = true) :
    (∀ k ts, (k, ts) ∈ cosets → k ∈ sg.keys ∧
      ∀ t, t ∈ ts ↔ ∃ a ∈ auts sg, fixesBelow sg a k = true ∧ Map.toFun a k = t)
    ∧ ∀ i ∈ sg.keys, (∃ ts, (i, ts) ∈ cosets)
        ∨ ∀ a ∈ auts sg, fixesBelow sg a i = true → Map.toFun a i = i := by
  unfold cosetsExactB at h
  simp only [Bool.and_eq_true, List.all_eq_true, List.any_eq_true, List.contains_iff_mem, Bool.or_eq_true,
    beq_iff_eq, sameSet_iff] at h
  obtain ⟨h1, h2⟩ := h
  refine ⟨?_, ?_⟩
  · intro k ts he
    obtain ⟨hk, hsame⟩ := h1 (k, ts) he
    exact ⟨hk, fun t => (hsame t).trans (mem_stabOrbit sg _ k t)⟩
  · intro i hi
    rcases h2 i hi with ⟨e, he, rfl⟩ | h
    · exact Or.inl ⟨e.2, he⟩
    · exact Or.inr fun a ha hf => h _ ((mem_stabOrbit sg _ i _).2 ⟨a, ha, hf, rfl⟩)

/-- exact cosets make `_make_constraints` deliver valid constraints: the hypothesis of
`ismags_find_one_per_class` / `ismags_lcs_sym_cover` -/
theorem cosetsExact_constraintsValid (sg : Graph) (hs : sg.keys.Nodup) (cosets : List (Int × List Int))
    (h : cosetsExactB sg cosets = true) : constraintsValidB sg (makeConstraints cosets) = true := by
  obtain ⟨h1, h2⟩ := (cosetsExactB_iff sg hs cosets).1 h
  rw [constraintsValidB_iff sg hs]
  intro lo hi
  rw [mem_makeConstraints]
  constructor
  · rintro ⟨ts, he, hhi, hne⟩
    obtain ⟨hk, hmem⟩ := h1 lo ts he
    exact ⟨hk, hne, (hmem hi).1 hhi⟩
  · rintro ⟨hlo, hne, horb⟩
    rcases h2 lo hlo with ⟨ts, he⟩ | htriv
    · exact ⟨ts, he, ((h1 lo ts he).2 hi).2 horb, hne⟩
    · exact absurd (htriv hi horb).symm hne

/-- **orbit-stabiliser**: for exact cosets (a dict of sets) `prod(len(v) for v in cosets.values())` is the
number of automorphisms of the pattern, as the verified enumerator counts them -/
theorem cosetsExact_product (sg : Graph) (hs : sg.keys.Nodup) (cosets : List (Int × List Int))
    (h : cosetsExactB sg cosets = true) (hd : cosetsDictB cosets = true) :
    cosetProduct cosets = (auts sg).length :=
  cosetProduct_eq sg hs cosets ((cosetsExactB_iff sg hs cosets).1 h) hd

/-- the same count without a dict: `|Aut|` is the product over the pattern nodes of the sizes of their orbits
in the stabiliser of the smaller nodes (any duplicate-free listing `O k` of each orbit) -/
theorem auts_length_orbit_product (sg : Graph) (hs : sg.keys.Nodup) (O : Int → List Int)
    (hO : ∀ k ∈ sg.keys, (O k).Nodup ∧
      ∀ t, t ∈ O k ↔ ∃ a ∈ auts sg, fixesBelow sg a k = true ∧ Map.toFun a k = t) :
    (auts sg).length = (sg.keys.map fun k => (O k).length).foldr (· * ·) 1 :=
  auts_length_eq_prod sg hs (fun k => (O k).length)
    (fun k hk => ⟨O k, (hO k hk).1, fun t => ((hO k hk).2 t).trans (mem_stabOrbit sg _ k t).symm, rfl⟩)

/-- **Symmetry on, from the cosets.**  With the cosets `analyze_symmetry` is meant to return (accepted by
`cosetsExactB`), the transcribed `_make_constraints` + `find_isomorphisms` yield exactly one representative
of every class of isomorphisms that differ only by a symmetry of the pattern. -/
theorem ismags_find_one_per_class_cosets {pick : Map → Cands → List Int → Int} (hpick : PickOK pick)
    (edgeNone : Bool) (g sg : Graph) (cosets : List (Int × List Int)) (hs : sg.keys.Nodup) (hg : g.keys.Nodup)
    (hloop : noSelfLoops sg = true) (hexact : cosetsExactB sg cosets = true) :
    oneRepPerClass sg ((findIsomorphismsWith pick edgeNone g sg (makeConstraints cosets)).map
      (fun m => mapOf sg.keys (Map.toFun m))) (allIsos g sg) = true :=
  ismags_find_one_per_class hpick edgeNone g sg _ hs hg hloop (cosetsExact_constraintsValid sg hs cosets hexact)

/-- ... and the symmetry-reduced `largest_common_subgraph` returns only maximum common induced subgraphs and
every maximum one up to a symmetry of the pattern. -/
theorem ismags_lcs_sym_cover_cosets {pick : Map → Cands → List Int → Int} (hpick : PickOK pick) (g sg : Graph)
    (cosets : List (Int × List Int)) (hs : sg.keys.Nodup) (hexact : cosetsExactB sg cosets = true) :
    (1 ≤ mcisSize g sg →
        coversUpToAut sg ((largestCommonSubgraphWith pick g sg (makeConstraints cosets)).map (canonP sg))
          (allMCIS g sg) = true)
    ∧ (mcisSize g sg = 0 → sg.keys ≠ [] → largestCommonSubgraphWith pick g sg (makeConstraints cosets) = []) :=
  ismags_lcs_sym_cover hpick g sg _ hs (cosetsExact_constraintsValid sg hs cosets hexact)

/-! non-vacuity.  The path 7 - 2 - 9 (`p3`): node 2 is the centre; in key order 2 < 7 < 9 the chain is
orbit(2) = {2}, orbit(7) = {7, 9} (2 fixed), orbit(9) = {9}; `|Aut| = 2`. -/
example : cosetsExactB p3 [(2, [2]), (7, [7, 9])] = true ∧ cosetsExactB p3 [(7, [9, 7])] = true
    ∧ cosetsExactB p3 [(7, [7])] = false ∧ cosetsExactB p3 [(2, [2, 7]), (7, [7, 9])] = false
    ∧ cosetsExactB p3 [(2, [2])] = false ∧ cosetsExactB p3 [(7, [7, 9]), (9, [9, 7])] = false := by decide
example : cosetsDictB [(2, [2]), (7, [7, 9])] = true ∧ cosetsDictB [(7, [7, 7, 9])] = false
    ∧ cosetsDictB [(7, [7, 9]), (7, [7, 9])] = false := by decide
example : cosetProduct [(2, [2]), (7, [7, 9])] = 2 ∧ (auts p3).length = 2 := by decide
/-- the seeded defect C06k in miniature: a coset that has grown past the stabiliser orbit (9 <-> 7 needs no
fixed node, but 2 -> 7 is no symmetry) is refused, and so is the product -/
example : cosetsExactB p3 [(2, [2, 7, 9]), (7, [7, 9])] = false ∧ cosetProduct [(2, [2, 7, 9]), (7, [7, 9])] = 6 := by
  decide

end C06
