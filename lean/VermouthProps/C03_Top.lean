import VermouthProofs.C03_Top
import VermouthProofs.C03_Text
import VermouthProofs.C03_Sort
import VermouthProps.C03
/-!
# C03 — the `.top` text: round trip through an independent reader, and which ITP files exist

`topText defines names` (model of the text `write_gmx_topology` writes, `VermouthModel/C03_Top.lean`)
is read back by `parseTop`, a reader that shares nothing with the writer.
-/
namespace C03

def martiniItp : List Char := ['m', 'a', 'r', 't', 'i', 'n', 'i', '.', 'i', 't', 'p']
def itpSuffix : List Char := ['.', 'i', 't', 'p']
def titleTokens : List (List Char) := [['T', 'i', 't', 'l', 'e'], ['o', 'f'], ['t', 'h', 'e'], ['s', 'y', 's', 't', 'e', 'm']]

/-- what a reader must find in the `.top` of a system with these defines and molecule-type names -/
def topExpected (defines names : List (List Char)) : TopParsed :=
  { defines := defines.map splitWs,
    includes := martiniItp :: (includes names).map (· ++ itpSuffix),
    title := [titleTokens],
    molecules := groups names }

theorem mem_groups_name {α} [DecidableEq α] (names : List α) (g : α × Nat) (h : g ∈ groups names) : g.1 ∈ names := by
  have hx := groups_expand names
  have hpos := groups_counts_pos names g h
  have : g.1 ∈ (groups names).flatMap (fun g => List.replicate g.2 g.1) := by
    rw [List.mem_flatMap]
    exact ⟨g, h, by simp [List.mem_replicate]; omega⟩
  rwa [hx] at this

theorem topLines_fine (defines names : List (List Char))
    (hd : ∀ d ∈ defines, defineOk d = true) (hn : ∀ n ∈ names, nameOk n = true) :
    ∀ l ∈ topLines defines names, LineFine l := by
  intro l hl
  simp only [topLines, List.mem_append] at hl
  rcases hl with hl | hl | hl | hl | hl | hl
  · refine lineFine_orEmpty _ ?_ l hl
    intro x hx
    obtain ⟨d, hdm, rfl⟩ := List.mem_map.mp hx
    exact lineFine_define d (hd d hdm)
  · simp only [List.mem_singleton] at hl
    rw [hl]; exact ⟨by decide, by decide⟩
  · refine lineFine_orEmpty _ ?_ l hl
    intro x hx
    obtain ⟨n, hnm, rfl⟩ := List.mem_map.mp hx
    exact lineFine_include n (hn n ((includes_complete names n).mp hnm))
  · simp only [List.mem_cons, List.not_mem_nil, or_false] at hl
    rcases hl with rfl | rfl | rfl | rfl | rfl <;> exact ⟨by decide, by decide⟩
  · refine lineFine_orEmpty _ ?_ l hl
    intro x hx
    obtain ⟨g, hgm, rfl⟩ := List.mem_map.mp hx
    exact lineFine_molecule _ g (hn g.1 (mem_groups_name names g hgm))
  · simp only [List.mem_singleton] at hl
    rw [hl]; exact lineFine_nil

theorem topLines_ne (defines names : List (List Char)) : topLines defines names ≠ [] := by
  unfold topLines
  intro h
  have := congrArg List.length h
  simp at this

/-- `textwrap.dedent` is the identity on the `.top` text, and the text is its lines joined -/
theorem topText_eq (defines names : List (List Char))
    (hd : ∀ d ∈ defines, defineOk d = true) (hn : ∀ n ∈ names, nameOk n = true) :
    topText defines names = joinNl (topLines defines names) := by
  have hf := topLines_fine defines names hd hn
  unfold topText dedent0
  rw [topRaw_eq, splitNl_joinNl _ (topLines_ne _ _) (fun l hl => (hf l hl).1)]
  congr 1
  have : ∀ L : List (List Char), (∀ l ∈ L, LineFine l) → L.map blankWs = L := by
    intro L hL
    induction L with
    | nil => rfl
    | cons a r ih => simp [(hL a (by simp)).2, ih (fun x hx => hL x (by simp [hx]))]
  exact this _ hf

/-- **`.top` round trip.**  For defines without newline / `;` and molecule-type names that are
non-empty, free of white space and `;`, and not a keyword: the independent reader finds in the
written text exactly the defines (as token lists), the include of `martini.itp` followed by one
include `<name>.itp` per molecule type in first-appearance order, the title, and the
`[ molecules ]` lines = the groups of successive equal names with their counts, in system order. -/
theorem top_roundtrip (defines names : List (List Char))
    (hd : ∀ d ∈ defines, defineOk d = true) (hn : ∀ n ∈ names, nameOk n = true) :
    parseTop (topText defines names) = .ok (topExpected defines names) := by
  have hf := topLines_fine defines names hd hn
  unfold parseTop
  rw [topText_eq defines names hd hn, splitNl_joinNl _ (topLines_ne _ _) (fun l hl => (hf l hl).1)]
  have htok0 : splitWs (uncomment []) = [] := by simp [uncomment, splitWs_nil]
  unfold topLines
  simp only [List.map_append]
  rw [topFold_append, tok_orEmpty (defines.map defineLine) (fun l => splitWs (uncomment l)) htok0, List.map_map]
  rw [show ((fun l => splitWs (uncomment l)) ∘ defineLine) = fun d => splitWs (uncomment (defineLine d)) from rfl]
  rw [topFold_defines _ _ hd]
  simp only []
  rw [topFold_append]
  have hmart : topFold
      { TopPState.init with out := { TopPState.init.out with defines := TopPState.init.out.defines ++ defines.map splitWs } }
      (List.map (fun l => splitWs (uncomment l)) [['#', 'i', 'n', 'c', 'l', 'u', 'd', 'e', ' ', '\"', 'm', 'a', 'r', 't', 'i', 'n', 'i', '.', 'i', 't', 'p', '\"']])
      = .ok ⟨none, ⟨defines.map splitWs, [martiniItp], [], []⟩⟩ := by
    have : splitWs (uncomment ['#', 'i', 'n', 'c', 'l', 'u', 'd', 'e', ' ', '\"', 'm', 'a', 'r', 't', 'i', 'n', 'i', '.', 'i', 't', 'p', '\"'])
        = [['#', 'i', 'n', 'c', 'l', 'u', 'd', 'e'], ['\"', 'm', 'a', 'r', 't', 'i', 'n', 'i', '.', 'i', 't', 'p', '\"']] := by decide
    simp only [List.map_cons, List.map_nil, topFold, this]
    simp [topStep, unquote, TopPState.init, martiniItp]
  rw [hmart]
  simp only []
  rw [topFold_append, tok_orEmpty ((includes names).map includeLine) (fun l => splitWs (uncomment l)) htok0, List.map_map]
  rw [show ((fun l => splitWs (uncomment l)) ∘ includeLine) = fun n => splitWs (uncomment (includeLine n)) from rfl]
  rw [topFold_includes _ _ (fun n hnm => hn n ((includes_complete names n).mp hnm))]
  simp only []
  rw [topFold_append]
  have hmid : ∀ st : TopPState, st.sect = none → st.out.title = [] →
      topFold st (List.map (fun l => splitWs (uncomment l))
        [[], ['[', ' ', 's', 'y', 's', 't', 'e', 'm', ' ', ']'], ['T', 'i', 't', 'l', 'e', ' ', 'o', 'f', ' ', 't', 'h', 'e', ' ', 's', 'y', 's', 't', 'e', 'm'], [],
         ['[', ' ', 'm', 'o', 'l', 'e', 'c', 'u', 'l', 'e', 's', ' ', ']']])
      = .ok { sect := some ['m', 'o', 'l', 'e', 'c', 'u', 'l', 'e', 's'], out := { st.out with title := [titleTokens] } } := by
    intro st hs ht
    have t1 : splitWs (uncomment ['[', ' ', 's', 'y', 's', 't', 'e', 'm', ' ', ']']) = [['['], ['s', 'y', 's', 't', 'e', 'm'], [']']] := by decide
    have t2 : splitWs (uncomment ['T', 'i', 't', 'l', 'e', ' ', 'o', 'f', ' ', 't', 'h', 'e', ' ', 's', 'y', 's', 't', 'e', 'm']) = titleTokens := by decide
    have t3 : splitWs (uncomment ['[', ' ', 'm', 'o', 'l', 'e', 'c', 'u', 'l', 'e', 's', ' ', ']']) = [['['], ['m', 'o', 'l', 'e', 'c', 'u', 'l', 'e', 's'], [']']] := by decide
    simp only [List.map_cons, List.map_nil, htok0, t1, t2, t3, topFold]
    simp [topStep, titleTokens, ht]
  rw [hmid _ rfl rfl]
  simp only []
  rw [topFold_append, tok_orEmpty ((groups names).map (moleculeLine (maxNameLen names))) (fun l => splitWs (uncomment l)) htok0, List.map_map]
  rw [show ((fun l => splitWs (uncomment l)) ∘ moleculeLine (maxNameLen names))
    = fun g => splitWs (uncomment (moleculeLine (maxNameLen names) g)) from rfl]
  rw [topFold_molecules _ rfl _ _ (fun g hg => hn g.1 (mem_groups_name names g hg))]
  simp only [List.map_cons, List.map_nil, htok0, topFold, topStep]
  simp [topExpected, TopPState.init, itpSuffix]

/-- the hypotheses are satisfiable: names interleaved A B A, a define with a value, a long name -/
example : (∀ d ∈ [['G', 'O', '_', 'V', 'I', 'R', 'T'], ['P', 'O', 'S', 'R', 'E', 'S', '_', 'F', 'C', ' ', '1', '0', '0', '0']], defineOk d = true)
    ∧ (∀ n ∈ [['m', '_', '0'], ['m', 'o', 'l', '_', '1', '0'], ['m', '_', '0']], nameOk n = true) := by decide

/-- the empty molecule-type name (`molecule.meta['moltype'] = ''`, a legal falsy value) is outside the
round trip: its `[ molecules ]` line consists of the count alone and cannot be read -/
example : nameOk [] = false ∧ splitWs (uncomment (moleculeLine 0 ([], 3))) = [['3']] := by decide +kernel

/-! ## which ITP files exist -/

/-- **every name in `[ molecules ]` has exactly one ITP written and included.**
Whenever `write_gmx_topology` succeeds (model `writeTopology`) on names that the `.top` can carry
and none of which is `martini` (that file is the force field's), the `.top` text read back by the
independent reader lists in `[ molecules ]` only names `g` for which
* exactly one ITP file `g.itp` has been written, and it was written from the FIRST molecule of the
  system that carries the name `g`;
* exactly one `#include "g.itp"` line is present. -/
theorem written_itps_cover_all_names (inp : TopIn) (out : TopOutText) (h : writeTopology inp = .ok out)
    (hd : ∀ d ∈ inp.defines, defineOk d = true) (hn : ∀ n ∈ inp.names, nameOk n = true)
    (hm : ['m', 'a', 'r', 't', 'i', 'n', 'i'] ∉ inp.names) :
    parseTop out.top = .ok (topExpected inp.defines inp.names) ∧
    ∀ g ∈ (topExpected inp.defines inp.names).molecules,
      (out.itps.map (·.1)).count g.1 = 1 ∧
      (∃ i, (g.1, i) ∈ out.itps.map (fun w => (w.1, w.2.1)) ∧ inp.names[i]? = some g.1 ∧
        ∀ j, j < i → inp.names[j]? ≠ some g.1) ∧
      (topExpected inp.defines inp.names).includes.count (g.1 ++ itpSuffix) = 1 := by
  unfold writeTopology at h
  split at h
  · cases h
  · split at h
    · cases h
    · split at h
      · cases h
      · simp only [] at h
        split at h
        · cases h
        · split at h
          · cases h
          · rename_i itps hitps
            cases h
            refine ⟨top_roundtrip _ _ hd hn, ?_⟩
            intro g hg
            have hgn : g.1 ∈ inp.names := mem_groups_name _ g hg
            have hst := writeItps_stems inp _ _ itps hitps
            have hst1 : itps.map (·.1) = includes inp.names := by
              rw [← itp_written_once_per_include, ← hst, List.map_map]; rfl
            refine ⟨?_, ?_, ?_⟩
            · show (itps.map (·.1)).count g.1 = 1
              rw [hst1]
              exact count_eq_one_of_nodup _ _ (includes_nodup _) ((includes_complete _ _).mpr hgn)
            · obtain ⟨h1, h2⟩ := idxOf_spec inp.names g.1 hgn
              refine ⟨_, ?_, h1, h2⟩
              show (g.1, _) ∈ itps.map (fun w => (w.1, w.2.1))
              rw [hst]
              exact (itpSource_first _ _ _).mpr ⟨hgn, rfl⟩
            · show (martiniItp :: (includes inp.names).map (· ++ itpSuffix)).count (g.1 ++ itpSuffix) = 1
              have hne : ¬ (martiniItp = g.1 ++ itpSuffix) := by
                intro e
                have : ['m', 'a', 'r', 't', 'i', 'n', 'i'] ++ itpSuffix = g.1 ++ itpSuffix := e
                have := List.append_cancel_right this
                exact hm (this ▸ hgn)
              rw [List.count_cons_of_ne hne, count_map_suffix]
              exact count_eq_one_of_nodup _ _ (includes_nodup _) ((includes_complete _ _).mpr hgn)

/-- the files of `atomtypes` / `nonbond_params` are written but never included: the include list of
the `.top` does not depend on them -/
theorem param_files_not_included (inp : TopIn) (out : TopOutText) (h : writeTopology inp = .ok out) :
    out.top = topText inp.defines inp.names := by
  unfold writeTopology at h
  split at h
  · cases h
  · split at h
    · cases h
    · split at h
      · cases h
      · simp only [] at h
        split at h
        · cases h
        · split at h
          · cases h
          · cases h; rfl

/-- an empty system is refused before anything is written -/
theorem empty_system_refused (inp : TopIn) (h : inp.sys = []) : writeTopology inp = .error .valueerror := by
  simp [writeTopology, h]

/-- a system without header lines cannot be written: `header[-1]` of the empty list (IndexError) -/
theorem empty_header_indexerror (inp : TopIn) (hs : inp.sys ≠ []) (hp : inp.params = []) (hh : inp.header = [])
    (hn : inp.names ≠ []) : writeTopology inp = .error .indexerror := by
  have hw : itpWrites inp.names ≠ [] := by
    intro e
    cases hnn : inp.names with
    | nil => exact hn hnn
    | cons n r =>
      have : n ∈ (itpWrites inp.names).map (·.1) := by
        rw [itp_written_once_per_include]
        exact (includes_complete _ _).mpr (by rw [hnn]; simp)
      rw [e] at this
      cases this
  have hse : inp.sys.isEmpty = false := by cases h : inp.sys <;> simp_all
  cases hws : itpWrites inp.names with
  | nil => exact absurd hws hw
  | cons w ws =>
    simp [writeTopology, hse, paramFile, hp, hh, hws, itpHeaders, headerStep]

/-- the text-level sort (nodes with their decorations) is `SortMoleculeAtoms` on the nodes -/
theorem sortTMol_nodes (t : TMol) :
    (sortTMol t).mol.nodes = sortMoleculeAtoms sortbyDefault none t.mol.nodes := by
  simp only [sortTMol, sortMoleculeAtoms]
  rw [insSortBy_map (fun p q : Atom × Deco => sortLe sortbyDefault p.1 q.1) (sortLe sortbyDefault) Prod.fst
    t.atoms (fun _ _ _ _ => rfl)]
  unfold TMol.atoms
  rw [zipDeco_fst]

end C03
