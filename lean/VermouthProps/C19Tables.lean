import VermouthModel.C19
import Generated.C19Table
/-!
# C19 — theorems about the table re-extracted from `vermouth.selectors.PROTEIN_RESIDUES`
(`lean/Generated/C19Table.lean`, rewritten by `harness/c19.py` on every run).
-/
namespace C19

/-- no name is listed twice -/
theorem table_nodup : C19Table.proteinResidues.Nodup := by decide

/-- the pseudo residue names of the terminal rule are not protein residue names, so a residue
that is literally called `nter` is never a terminus -/
theorem table_no_terminal_names :
    C19Table.proteinResidues.contains nter = false ∧ C19Table.proteinResidues.contains cter = false := by
  decide

/-- the twenty standard amino acids count as protein residues -/
theorem table_standard_twenty :
    (["ALA", "ARG", "ASN", "ASP", "CYS", "GLN", "GLU", "GLY", "HIS", "ILE", "LEU", "LYS", "MET", "PHE", "PRO",
      "SER", "THR", "TRP", "TYR", "VAL"].all fun n => C19Table.proteinResidues.contains n.toList) = true := by
  decide

end C19
