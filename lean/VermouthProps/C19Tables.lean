import VermouthModel.C19
import Generated.C19Table
namespace C19
theorem table_nodup : C19Table.proteinResidues.Nodup := by decide
end C19
