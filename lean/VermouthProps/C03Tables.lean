import VermouthProofs.C03
import Generated.C03Table
/-!
# C03 — facts about tables re-extracted from the repository on every run

`Generated/C03Table.lean` is rewritten by `harness/c03.py` from the source text of
`Molecule.share_moltype_with` (the `ignore_attrs` tuple) and of `write_molecule_itp` (the fields
of an `[ atoms ]` line).  The theorems below tie the constants used by the model and its proofs to
what the code says now.
-/
namespace C03

/-- the model ignores exactly the attributes the code ignores -/
theorem ignoreAttrs_extracted : ignoreAttrs = Generated.C03.ignoreAttrsRepo := by decide

/-- no attribute shown on an `[ atoms ]` line of an ITP (nor the sort key `atomid`) is ignored by
the molecule-type comparison: molecules sharing a type cannot differ in anything an ITP atom
line shows -/
theorem itp_fields_compared :
    ∀ k ∈ "atomid" :: Generated.C03.itpAtomFieldsRepo, Generated.C03.ignoreAttrsRepo.contains k = false := by decide

/-- the three fields of a coordinate record that the property speaks about are ITP atom fields -/
theorem rec_fields_in_itp :
    ∀ k ∈ ["atomname", "resname", "resid"], k ∈ Generated.C03.itpAtomFieldsRepo := by decide

end C03
