import VermouthProofs.C03
import Generated.C03Table
/-!
# C03 — facts about tables re-extracted from the repository on every run

`Generated/C03Table.lean` is rewritten by `harness/c03.py` from the source text of
`Molecule.share_moltype_with` (the `ignore_attrs` and `written_meta` tuples) and of
`write_molecule_itp` (the fields of an `[ atoms ]` line, the `molecule.meta` keys it reads).  The theorems below tie the constants used by the model and its proofs to
what the code says now.
-/
namespace C03

/-- the model ignores exactly the attributes the code ignores -/
theorem ignoreAttrs_extracted : ignoreAttrs = Generated.C03.ignoreAttrsRepo := by decide

/-- no attribute shown on an `[ atoms ]` line of an ITP (nor the sort key `atomid`) is ignored by
the molecule-type comparison: molecules sharing a type cannot differ in anything an ITP atom
line shows -/
theorem itp_fields_compared :
    ∀ k ∈ "atomid" :: Generated.C03.itpAtomFieldsRepo, Generated.C03.ignoreAttrsRepo.contains k = false := by decide

/-- the model compares exactly the meta entries the code compares -/
theorem writtenMeta_extracted : writtenMeta = Generated.C03.writtenMetaRepo := by decide

/-- the model's ITP view shows exactly the meta entries `write_molecule_itp` reads (besides the
moltype, which is the name itself) -/
theorem itpMetaKeys_extracted :
    (∀ k ∈ Generated.C03.itpMetaKeysRepo, k = "moltype" ∨ k ∈ itpMetaKeys)
    ∧ (∀ k ∈ itpMetaKeys, k ∈ Generated.C03.itpMetaKeysRepo) := by decide

/-- **every meta entry the ITP writer reads is compared by `share_moltype_with`** (the moltype
excepted): molecules sharing a type cannot differ in metadata the ITP shows -/
theorem itp_meta_compared :
    ∀ k ∈ Generated.C03.itpMetaKeysRepo, k = "moltype" ∨ k ∈ Generated.C03.writtenMetaRepo := by decide

/-- the three fields of a coordinate record that the property speaks about are ITP atom fields -/
theorem rec_fields_in_itp :
    ∀ k ∈ ["atomname", "resname", "resid"], k ∈ Generated.C03.itpAtomFieldsRepo := by decide

end C03
