import VermouthProofs.C17_Cli
import VermouthModel.C17_Dssp
import VermouthProps.C17
/-!
# C17, extension round — the residue partition as computed, `sequence_from_residues`, the composed
assignment + conversion, `annotate_dssp`, the `-ss` / `-collagen` branches, `read_dssp2`

Models: `VermouthModel/C17_Residues.lean`, `VermouthModel/C17_Dssp.lean`.
-/
namespace C17
open C17Tables

/-!
## Part 3 — `iter_residues` as the code computes it
-/

/-- `collect_residues`: a dict whose keys are the residue identities in order of first appearance
and whose values are the node keys with that identity (connectivity plays no role: two pieces of
the molecule with the same identity are ONE residue) -/
theorem collect_residues_spec (m : Mol) :
    collectResidues m = (resIds m).map fun r => (r, keysOf m r) := collectResidues_eq m

/-- **`iter_residues` as computed equals the specification** used by `annot_alignment`: the
residues come grouped by identity and ordered by lowest node key (`residues`), and the tuple of a
residue is a permutation of the node keys with that identity. -/
theorem residues_eq_spec (m : Mol) :
    (iterResidues m).map (·.1) = residues m ∧
      ∀ p ∈ iterResidues m, p.2.Perm (keysOf m p.1) := by
  rw [iterResidues_eq]
  refine ⟨by simp [List.map_map, Function.comp_def], ?_⟩
  intro p hp
  obtain ⟨r, _, rfl⟩ := List.mem_map.mp hp
  exact setOrder_perm _

/-- ... and the order inside a tuple is the set order of those keys -/
theorem iter_residues_exact (m : Mol) :
    iterResidues m = (residues m).map fun r => (r, setOrder (keysOf m r)) := iterResidues_eq m

/-- the set order is a permutation (by the guard of the model; the driver reports for every
molecule that the guard was not needed) -/
theorem set_order_perm (ks : List Int) : (setOrder ks).Perm ks := setOrder_perm ks

/-- the tuples are NOT ordered by key nor by node order: CPython iterates the set {6,7,8,9} of a
table with 8 slots as 8, 9, 6, 7 -/
theorem residue_tuple_is_hash_order :
    iterResidues [⟨6, 0, none⟩, ⟨7, 0, none⟩, ⟨8, 0, none⟩, ⟨9, 0, none⟩, ⟨10, 1, none⟩]
      = [(0, [8, 9, 6, 7]), (1, [10])] := by decide +kernel

/-- two lists strictly increasing in an integer key with the same members are equal -/
private theorem eq_of_sorted_lt (f : Nat → Int) (l1 l2 : List Nat)
    (h1 : l1.Pairwise fun a b => f a < f b) (h2 : l2.Pairwise fun a b => f a < f b)
    (hm : ∀ x, x ∈ l1 ↔ x ∈ l2) : l1 = l2 := by
  induction l1 generalizing l2 with
  | nil =>
    cases l2 with
    | nil => rfl
    | cons y ys => exact absurd ((hm y).mpr (by simp)) (by simp)
  | cons x xs ih =>
    cases l2 with
    | nil => exact absurd ((hm x).mp (by simp)) (by simp)
    | cons y ys =>
      have p1 := List.pairwise_cons.mp h1
      have p2 := List.pairwise_cons.mp h2
      have hxy : x = y := by
        rcases List.mem_cons.mp ((hm x).mp (by simp)) with e | hx
        · exact e
        · rcases List.mem_cons.mp ((hm y).mpr (by simp)) with e | hy
          · exact e.symm
          · have a := p2.1 x hx
            have b := p1.1 y hy
            omega
      subst hxy
      congr 1
      apply ih ys p1.2 p2.2
      intro z
      constructor
      · intro hz
        rcases List.mem_cons.mp ((hm z).mp (List.mem_cons_of_mem _ hz)) with e | h
        · subst e; have := p1.1 z hz; omega
        · exact h
      · intro hz
        rcases List.mem_cons.mp ((hm z).mpr (List.mem_cons_of_mem _ hz)) with e | h
        · subst e; have := p2.1 z hz; omega
        · exact h

/-- **The specification pins the order down**: for a molecule with distinct node keys, ANY duplicate
free list of the residue identities that is ordered by lowest node key is `residues m` (hence what
`iter_residues` yields). -/
theorem residues_spec_unique (m : Mol) (hk : keysNodup m) (l : List Nat) (hn : l.Nodup)
    (hm : ∀ r, r ∈ l ↔ ∃ a ∈ m, a.res = r)
    (hs : l.Pairwise fun r s => minKey m r ≤ minKey m s) : l = residues m := by
  have inj : ∀ r s, (∃ a ∈ m, a.res = r) → (∃ a ∈ m, a.res = s) → minKey m r = minKey m s → r = s := by
    intro r s hr hs' e
    obtain ⟨a, ha, har, hak⟩ := minKey_attained' m r hr
    obtain ⟨b, hb, hbs, hbk⟩ := minKey_attained' m s hs'
    have : a = b := key_inj m hk a b ha hb (by rw [hak, hbk, e])
    rw [← har, ← hbs, this]
  have strict : ∀ (l : List Nat), l.Nodup → (∀ r ∈ l, ∃ a ∈ m, a.res = r) →
      l.Pairwise (fun r s => minKey m r ≤ minKey m s) →
      l.Pairwise (fun r s => minKey m r < minKey m s) := by
    intro l hn hmem hs
    induction l with
    | nil => exact List.Pairwise.nil
    | cons x xs ih =>
      have pn := List.nodup_cons.mp hn
      have ps := List.pairwise_cons.mp hs
      refine List.pairwise_cons.mpr ⟨?_, ih pn.2 (fun r hr => hmem r (List.mem_cons_of_mem _ hr)) ps.2⟩
      intro y hy
      have hle := ps.1 y hy
      have hne : minKey m x ≠ minKey m y := by
        intro e
        have := inj x y (hmem x (by simp)) (hmem y (List.mem_cons_of_mem _ hy)) e
        subst this
        exact pn.1 hy
      omega
  apply eq_of_sorted_lt (minKey m)
  · exact strict l hn (fun r hr => (hm r).mp hr) hs
  · exact strict _ (nodup_residues m) (fun r hr => (mem_residues m r).mp hr) (sorted_residues m)
  · intro x
    rw [hm x, mem_residues]

/-!
## Part 4 — `sequence_from_residues`, `annotate_residues_from_sequence` over the tuples,
`convert_dssp_annotation_to_martini`
-/

/-- **`sequence_from_residues`, exactly**: one element per residue, in residue order; the element is
the attribute of the node that comes first in the SET order of the residue's node keys (not the
lowest key, not the first node of the molecule) -/
theorem seq_from_residues_exact (m : Mol) :
    seqFromResiduesCode m = (residues m).map fun r => (setOrder (keysOf m r)).head?.bind (valAt m) :=
  seqFromResiduesCode_eq m

/-- the element of a residue is the value carried by one of the atoms of that residue -/
theorem seq_from_residues_member (m : Mol) (hk : keysNodup m) (i : Nat) (r : Nat)
    (hr : (residues m)[i]? = some r) :
    ∃ a ∈ m, a.res = r ∧ (seqFromResiduesCode m)[i]? = some a.val := by
  obtain ⟨k, hk1, hk2⟩ := setOrder_head m r (List.mem_of_getElem? hr)
  obtain ⟨a, ha, har, hak⟩ := (mem_keysOf m r k).mp hk2
  refine ⟨a, ha, har, ?_⟩
  rw [seqFromResiduesCode_eq, List.getElem?_map, hr, Option.map_some, hk1, Option.bind_some, ← hak,
    valAt_of_mem m hk a ha]

/-- **for a residue-uniform annotation the sequence is the per-residue value in residue order** -/
theorem seq_from_residues_uniform (m : Mol) (hk : keysNodup m) (hu : uniform m) :
    seqFromResiduesCode m = seqFromResidues m := seqFromResidues_uniform m hk hu

/-- ... in particular what `annotate_residues_from_sequence` wrote is read back unchanged -/
theorem seq_from_residues_roundtrip (m : Mol) (hk : keysNodup m) (s : List Nat)
    (hl : s.length = (residues m).length) :
    seqFromResiduesCode (annotated m s 0) = s.map some := by
  rw [seqFromResidues_uniform _ (keysNodup_congr _ _ (shape_annotated m s 0).symm hk)
    (uniform_annotated m s 0), seqFromResidues_annotated m s hl]

/-- a NON-uniform residue: atoms 6, 7, 8, 9 of one residue carry 1, 2, 3, 4; the residue's element is
the value of atom 8.  (Replayed on the real code by the harness, corpus case `hash-order`.) -/
theorem seq_from_residues_nonuniform_witness :
    seqFromResiduesCode [⟨6, 0, some 1⟩, ⟨7, 0, some 2⟩, ⟨8, 0, some 3⟩, ⟨9, 0, some 4⟩, ⟨10, 1, none⟩]
      = [some 3, none] := by decide +kernel

/-- `annotate_residues_from_sequence` written over the tuples of `iter_residues` is the model
`annotateMol` the earlier theorems are about -/
theorem annotateMolCode_eq (m : Mol) (hk : keysNodup m) (seq : List Nat) :
    annotateMolCode m seq = annotateMol m seq := annotateMolCode_eq' m hk seq

/-- **assignment followed by conversion**: after a sequence with one element per residue has been
assigned (`aasecstruct`), `convert_dssp_annotation_to_martini` gives every atom of the k-th residue
the k-th class of `convert_dssp_to_martini(sequence)` (`cgsecstruct`), or raises KeyError when a
class is not in `SS_CG`; nothing else happens. -/
theorem cgsecstruct_alignment (m : Mol2) (seq : List Nat) (hk : keysNodup (srcMol m))
    (hl : seq.length = (residues (srcMol m)).length) :
    convertAnnotationCode ssCg patterns (withSrc m (annotated (srcMol m) seq 0)) =
      match convertVals ssCg patterns seq with
      | none => .error .keyerror
      | some cg => .ok (withDst (withSrc m (annotated (srcMol m) seq 0))
                          (annotated (dstMol m) (cg.map Char.toNat) 0)) := by
  have hS : srcMol (withSrc m (annotated (srcMol m) seq 0)) = annotated (srcMol m) seq 0 :=
    srcMol_withSrc m _ (shape_annotated _ _ _)
  have hD : dstMol (withSrc m (annotated (srcMol m) seq 0)) = dstMol m :=
    dstMol_withSrc m _ (by rw [length_annotated, length_srcMol])
  have hds : seqFromResiduesCode (annotated (srcMol m) seq 0) = seq.map some :=
    seq_from_residues_roundtrip (srcMol m) hk seq hl
  unfold convertAnnotationCode
  simp only [hS, hD, hds]
  have h1 : (seq.map some).all Option.isSome = true := by simp
  have h2 : (seq.map some).map (fun o => o.getD 0) = seq := by simp [List.map_map, Function.comp_def]
  rw [if_pos h1, h2]
  cases hc : convertVals ssCg patterns seq with
  | none => rfl
  | some cg =>
    simp only
    have hkd : keysNodup (dstMol m) := keysNodup_congr _ _ (shape_srcMol_dstMol m) hk
    have hlen : (cg.map Char.toNat).length = (residues (dstMol m)).length := by
      rw [← residues_congr _ _ (shape_srcMol_dstMol m), ← hl, List.length_map]
      unfold convertVals at hc
      cases hm : seq.mapM symOf with
      | none => rw [hm] at hc; cases hc
      | some cs =>
        rw [hm] at hc
        rw [convert_length cs cg hc, mapM_some_length symOf seq cs hm]
    rw [annotateMolCode_eq' _ hkd, annotmol_assigns _ _ hlen]

/-- a molecule none of whose residues has a class (first atoms) is left alone, one with some but
not all raises ValueError -/
theorem convert_annotation_none_or_incomplete (m : Mol2) :
    ((seqFromResiduesCode (srcMol m)).all Option.isNone = true →
        (seqFromResiduesCode (srcMol m)).all Option.isSome = false →
        convertAnnotationCode ssCg patterns m = .ok m) ∧
    ((seqFromResiduesCode (srcMol m)).all Option.isNone = false →
        (seqFromResiduesCode (srcMol m)).all Option.isSome = false →
        convertAnnotationCode ssCg patterns m = .error .valueerror) := by
  constructor <;> intro h1 h2 <;> simp [convertAnnotationCode, h1, h2]

/-!
## Part 5 — `annotate_dssp`
-/

/-- non-protein molecules and molecules without any position are not annotated (the callable is
not even called) -/
theorem annotate_dssp_skips (prot : Bool) (m : Mol) (hasPos : List Bool) (ss : List Nat)
    (h : prot = false ∨ ∀ p ∈ m.zip hasPos, p.2 = false) :
    annotateDssp prot m hasPos ss = .ok m ∧ dsspInput prot m hasPos = none := by
  rcases h with h | h
  · subst h; simp [annotateDssp, dsspInput]
  · have : (m.zip hasPos).filter (·.2) = [] := by
      rw [List.filter_eq_nil_iff]; intro p hp; simp [h p hp]
    cases prot <;> simp [annotateDssp, dsspInput, this]

/-- a protein with a position: the callable's answer, one element per residue of the WHOLE molecule,
lands on the residues in order; any other length except 1 is the ValueError -/
theorem annotate_dssp_alignment (m : Mol) (hasPos : List Bool) (ss : List Nat) (hk : keysNodup m)
    (hp : ∃ p ∈ m.zip hasPos, p.2 = true) :
    (ss.length = (residues m).length → annotateDssp true m hasPos ss = .ok (annotated m ss 0)) ∧
    (ss.length ≠ 1 → ss.length ≠ (residues m).length →
      annotateDssp true m hasPos ss = .error .valueerror) := by
  have hne : (((m.zip hasPos).filter (·.2)).map (·.1)).isEmpty = false := by
    obtain ⟨p, hp1, hp2⟩ := hp
    have : p ∈ (m.zip hasPos).filter (·.2) := List.mem_filter.mpr ⟨hp1, hp2⟩
    cases hf : (m.zip hasPos).filter (·.2) with
    | nil => rw [hf] at this; cases this
    | cons _ _ => rfl
  constructor
  · intro hl
    simp only [annotateDssp, Bool.not_true, Bool.false_eq_true, if_false, hne]
    rw [annotateMolCode_eq' m hk, annotmol_assigns m ss hl]
  · intro h1 h2
    simp only [annotateDssp, Bool.not_true, Bool.false_eq_true, if_false, hne]
    rw [annotateMolCode_eq' m hk, annotmol_mismatch_error m ss h1 h2]

/-- QUIRK (recorded, see the manifest): `annotate_dssp` passes only the atoms WITH a position to the
callable but applies the answer to the residues of the whole molecule through
`annotate_residues_from_sequence`, whose one-element rule repeats a single class over every residue:
if the callable answers with one class (e.g. only one residue has coordinates) every atom of the
molecule gets it, whatever the number of residues - no length error. -/
theorem annotate_dssp_single_class_broadcast (m : Mol) (hasPos : List Bool) (v : Nat) (hk : keysNodup m)
    (hp : ∃ p ∈ m.zip hasPos, p.2 = true) :
    annotateDssp true m hasPos [v] = .ok (m.map fun a => { a with val := some v }) := by
  have hne : (((m.zip hasPos).filter (·.2)).map (·.1)).isEmpty = false := by
    obtain ⟨p, hp1, hp2⟩ := hp
    have : p ∈ (m.zip hasPos).filter (·.2) := List.mem_filter.mpr ⟨hp1, hp2⟩
    cases hf : (m.zip hasPos).filter (·.2) with
    | nil => rw [hf] at this; cases this
    | cons _ _ => rfl
  simp only [annotateDssp, Bool.not_true, Bool.false_eq_true, if_false, hne]
  rw [annotateMolCode_eq' m hk, annotmol_one]

example : annotateDssp true [⟨0, 0, none⟩, ⟨1, 1, none⟩, ⟨2, 2, none⟩] [true, false, false] [72]
    = .ok [⟨0, 0, some 72⟩, ⟨1, 1, some 72⟩, ⟨2, 2, some 72⟩] := by decide +kernel

/-!
## Part 6 — the `-ss` and `-collagen` branches of `bin/martinize2`
-/

/-- **`-ss SEQUENCE`**: if the run succeeds, the upper-cased sequence was reconciled with the residue
counts of the protein molecules (`annot_alignment`), and every protein molecule `i` carries, on the
atoms of its k-th residue, element `offset + k` of the reconciled sequence as `aasecstruct` and the
k-th class of `convert_dssp_to_martini` OF ITS OWN SLICE (helix runs never continue across
molecules) as `cgsecstruct`. -/
theorem cli_ss_alignment (sys : Sys2) (ss : List Char) (out : List Mol2)
    (h : cliSs ssCg patterns sys ss = .ok out) :
    ∃ sequence,
      reconcile (selLengths (sys.map fun p => (p.1, srcMol p.2)))
        ((ss.map upperAscii).map Char.toNat) = .ok sequence ∧
      out.length = sys.length ∧
      ∀ (i : Nat) (m : Mol2), sys[i]? = some (true, m) → keysNodup (srcMol m) →
        ∃ cg,
          convertVals ssCg patterns
            (slice sequence (offset (sys.map fun p => (p.1, srcMol p.2)) i)
              (offset (sys.map fun p => (p.1, srcMol p.2)) i + (residues (srcMol m)).length)) = some cg ∧
          out[i]? = some (withDst
            (withSrc m (annotated (srcMol m) sequence (offset (sys.map fun p => (p.1, srcMol p.2)) i)))
            (annotated (dstMol m) (cg.map Char.toNat) 0)) := by
  unfold cliSs at h
  simp only at h
  generalize hsys1 : (sys.map fun p => (p.1, srcMol p.2)) = sys1 at h ⊢
  generalize hseq : (ss.map upperAscii).map Char.toNat = seq at h ⊢
  cases ha : annotateSystem sys1 seq with
  | error e => rw [ha] at h; cases h
  | ok s =>
    rw [ha] at h
    simp only at h
    obtain ⟨sequence, hr, hal⟩ := annot_alignment sys1 s seq ha
    obtain ⟨hlen, _⟩ := unselected_untouched sys1 s seq ha
    obtain ⟨holen, hoi⟩ := martiniSystem_ok _ _ _ _ h
    have hsl : sys1.length = sys.length := by rw [← hsys1, List.length_map]
    refine ⟨sequence, hr, ?_, ?_⟩
    · rw [holen]; simp [sysWithSrc, hlen, hsl]
    · intro i m hi hk
      have hi1 : sys1[i]? = some (true, srcMol m) := by
        rw [← hsys1, List.getElem?_map, hi]; rfl
      obtain ⟨hs, _⟩ := hal i (srcMol m) hi1
      have hx : (sysWithSrc sys s)[i]? =
          some (withSrc m (annotated (srcMol m) sequence (offset sys1 i))) := by
        unfold sysWithSrc
        rw [List.getElem?_zipWith, hi, hs]
      obtain ⟨y, hy1, hy2⟩ := hoi i _ hx
      have hb : offset sys1 i + (residues (srcMol m)).length ≤ sequence.length := by
        have := offset_bound sys1 i (srcMol m) hi1
        have := reconcile_length' _ _ _ hr
        omega
      rw [annotated_slice _ _ _ hb] at hy1
      rw [annotated_slice (srcMol m) sequence (offset sys1 i) hb]
      rw [cgsecstruct_alignment m _ hk (slice_length _ _ _ hb)] at hy1
      cases hc : convertVals ssCg patterns
          (slice sequence (offset sys1 i) (offset sys1 i + (residues (srcMol m)).length)) with
      | none => rw [hc] at hy1; cases hy1
      | some cg =>
        rw [hc] at hy1
        injection hy1 with hy1
        exact ⟨cg, rfl, by rw [hy2, hy1]⟩

/-- **`-dssp`** (`AnnotateDSSP.run_system` then `AnnotateMartiniSecondaryStructures.run_system`): if
the run succeeds, every protein molecule with a position for which DSSP answered one class per residue
carries that answer as `aasecstruct` and its conversion as `cgsecstruct`, residue by residue. -/
theorem cli_dssp_alignment (sys : List (Bool × Mol2 × List Bool × List Nat)) (out : List Mol2)
    (h : cliDssp ssCg patterns sys = .ok out) :
    out.length = sys.length ∧
      ∀ (i : Nat) (m : Mol2) (pos : List Bool) (ss : List Nat), sys[i]? = some (true, m, pos, ss) →
        keysNodup (srcMol m) → (∃ p ∈ (srcMol m).zip pos, p.2 = true) →
        ss.length = (residues (srcMol m)).length →
        ∃ cg, convertVals ssCg patterns ss = some cg ∧
          out[i]? = some (withDst (withSrc m (annotated (srcMol m) ss 0))
            (annotated (dstMol m) (cg.map Char.toNat) 0)) := by
  unfold cliDssp at h
  cases hd : dsspAll sys with
  | error e => rw [hd] at h; cases h
  | ok ms =>
    rw [hd] at h
    simp only at h
    obtain ⟨hl1, hi1⟩ := dsspAll_ok sys ms hd
    obtain ⟨hl2, hi2⟩ := martiniSystem_ok _ _ _ _ h
    refine ⟨by rw [hl2, hl1], ?_⟩
    intro i m pos ss hi hk hp hlen
    obtain ⟨s, hs1, hs2⟩ := hi1 i true m pos ss hi
    rw [(annotate_dssp_alignment (srcMol m) pos ss hk hp).1 hlen] at hs1
    injection hs1 with hs1
    subst hs1
    obtain ⟨y, hy1, hy2⟩ := hi2 i _ hs2
    rw [cgsecstruct_alignment m ss hk hlen] at hy1
    cases hc : convertVals ssCg patterns ss with
    | none => rw [hc] at hy1; cases hy1
    | some cg =>
      rw [hc] at hy1
      injection hy1 with hy1
      exact ⟨cg, rfl, by rw [hy2, hy1]⟩

/-- `-ss` with a length that cannot be reconciled is the ValueError (no shifted assignment) -/
theorem cli_ss_mismatch_error (sys : Sys2) (ss : List Char)
    (h : reconcile (selLengths (sys.map fun p => (p.1, srcMol p.2)))
      ((ss.map upperAscii).map Char.toNat) = .error .valueerror) :
    cliSs ssCg patterns sys ss = .error .valueerror := by
  unfold cliSs
  simp only
  rw [length_mismatch_error _ _ h]

/-- **`-collagen`**: every atom of every protein molecule gets `cgsecstruct = 'F'`, the other
molecules are returned as they are; without any protein molecule the option is the ValueError of
`AnnotateResidues` ("There is no molecule to which to apply the sequence"). -/
theorem cli_collagen (sys : Sys2) :
    ((∀ p ∈ sys, p.1 = false) → cliCollagen sys = .error .valueerror) ∧
    (∀ out, cliCollagen sys = .ok out →
      out.length = sys.length ∧
      (∀ (i : Nat) (m : Mol2), sys[i]? = some (false, m) → out[i]? = some m) ∧
      (∀ (i : Nat) (m : Mol2), sys[i]? = some (true, m) →
        ∀ a ∈ (out[i]?).getD [], a.dst = some 'F'.toNat)) := by
  constructor
  · intro hall
    have : selLengths (sys.map fun p => (p.1, dstMol p.2)) = [] := by
      unfold selLengths
      rw [List.map_eq_nil_iff, List.filter_eq_nil_iff]
      intro p hp
      obtain ⟨q, hq, rfl⟩ := List.mem_map.mp hp
      simp [hall q hq]
    unfold cliCollagen
    rw [length_mismatch_error _ _ (by rw [this]; exact reconcile_nothing_selected _ (by simp))]
  · intro out h
    unfold cliCollagen at h
    generalize hsys1 : (sys.map fun p => (p.1, dstMol p.2)) = sys1 at h
    cases ha : annotateSystem sys1 ['F'.toNat] with
    | error e => rw [ha] at h; cases h
    | ok s =>
      rw [ha] at h
      injection h with h
      subst h
      obtain ⟨sequence, hr, hal⟩ := annot_alignment sys1 s _ ha
      obtain ⟨hlen, hun⟩ := unselected_untouched sys1 s _ ha
      have hsl : sys1.length = sys.length := by rw [← hsys1, List.length_map]
      have hseq : ∀ x ∈ sequence, x = 'F'.toNat := by
        unfold reconcile at hr
        simp only [List.length_singleton] at hr
        split at hr
        · cases hr
        · split at hr
          · injection hr with hr
            subst hr
            intro x hx
            simp [repeatSeq] at hx
            obtain ⟨_, hx⟩ := hx
            exact hx
          · simp only [beq_self_eq_true, if_true] at hr
            injection hr with hr
            subst hr
            intro x hx
            simp [repeatSeq] at hx
            obtain ⟨_, hx⟩ := hx
            exact hx
      refine ⟨by simp [sysWithDst, hlen, hsl], ?_, ?_⟩
      · intro i m hi
        have hi1 : sys1[i]? = some (false, dstMol m) := by
          rw [← hsys1, List.getElem?_map, hi]; rfl
        unfold sysWithDst
        rw [List.getElem?_zipWith, hi, hun i _ hi1]
        simp [withDst_dstMol]
      · intro i m hi a ha'
        have hi1 : sys1[i]? = some (true, dstMol m) := by
          rw [← hsys1, List.getElem?_map, hi]; rfl
        obtain ⟨hs, hbound⟩ := hal i (dstMol m) hi1
        have hx : (sysWithDst sys s)[i]? =
            some (withDst m (annotated (dstMol m) sequence (offset sys1 i))) := by
          unfold sysWithDst
          rw [List.getElem?_zipWith, hi, hs]
        rw [hx, Option.getD_some] at ha'
        obtain ⟨a1, b1, hmem, rfl⟩ := mem_zipWith_zip _ _ _ _ ha'
        have hb1 : b1 ∈ annotated (dstMol m) sequence (offset sys1 i) := (List.of_mem_zip hmem).2
        exact annotated_val_const (dstMol m) sequence _ _ hseq hbound b1 hb1

/-!
## Part 7 — `read_dssp2`
-/

/-- the class of one residue line: character 16 (0-based) must be one of `HBEGITS` or a blank, a
blank is the coil `C`; a line shorter than 17 characters is an error -/
theorem classOf_spec (l : List Char) (c : Char) :
    classOf l = some c ↔
      ∃ d, l[16]? = some d ∧ d ∈ dsspClasses ∧ c = if d = ' ' then 'C' else d := by
  unfold classOf
  constructor
  · intro h
    split at h
    · cases hd : l[16]? with
      | none => rw [hd] at h; cases h
      | some d =>
        rw [hd] at h
        simp only at h
        split at h
        · rename_i hc
          injection h with h
          exact ⟨d, rfl, by simpa using hc, h.symm⟩
        · cases h
    · cases h
  · rintro ⟨d, hd, hc, rfl⟩
    have hlen : l.length ≥ 17 := by
      have := (List.getElem?_eq_some_iff.mp hd).1
      omega
    rw [if_pos hlen, hd]
    simp only
    rw [if_pos (by simpa using hc)]

/-- **one class per residue line, in order**: the table part is read successfully exactly when every
line that is neither empty nor a break line (`!`) yields a class, and then the result lists those
classes in the order of the lines - so its length is the number of residue lines and its k-th
element comes from the k-th residue line. -/
theorem read_dssp2_one_per_residue_line (body : List (List Char)) (out : List Char) :
    readBody body = .ok out ↔
      (body.filter fun l => !skippedLine l).map classOf = out.map some := by
  induction body generalizing out with
  | nil =>
    simp only [readBody, List.filter_nil, List.map_nil]
    constructor
    · intro h; injection h with h; subst h; rfl
    · intro h
      cases out with
      | nil => rfl
      | cons _ _ => simp at h
  | cons l ls ih =>
    unfold readBody
    by_cases hs : skippedLine l = true
    · rw [if_pos hs, List.filter_cons_of_neg (by simp [hs])]
      exact ih out
    · rw [if_neg hs, List.filter_cons_of_pos (by simpa using hs), List.map_cons]
      cases hc : classOf l with
      | none =>
        simp only
        constructor
        · intro h; cases h
        · intro h
          cases out with
          | nil => simp at h
          | cons _ _ => simp at h
      | some c =>
        simp only
        cases hr : readBody ls with
        | error e =>
          simp only
          constructor
          · intro h; cases h
          · intro h
            cases out with
            | nil => simp at h
            | cons o os =>
              simp only [List.map_cons, List.cons.injEq] at h
              have := (ih os).mpr h.2
              rw [hr] at this; cases this
        | ok cs =>
          simp only
          constructor
          · intro h
            injection h with h
            subst h
            rw [List.map_cons, (ih cs).mp hr]
          · intro h
            cases out with
            | nil => simp at h
            | cons o os =>
              simp only [List.map_cons, List.cons.injEq, Option.some.injEq] at h
              have := (ih os).mpr h.2
              rw [hr] at this
              injection this with this
              rw [h.1, this]

theorem read_dssp2_length (body : List (List Char)) (out : List Char) (h : readBody body = .ok out) :
    out.length = (body.filter fun l => !skippedLine l).length := by
  have := congrArg List.length ((read_dssp2_one_per_residue_line body out).mp h)
  simpa using this.symm

/-- where the table starts: after the first line, other than line 1, that starts with
`  #  RESIDUE AA`; line 1 is only looked at for the `****` mark of DSSP version 1 -/
theorem read_dssp2_table_start (first hdr : List Char) (pre body : List (List Char))
    (h1 : (!first.isEmpty && v1Mark.isPrefixOf first) = false)
    (hpre : ∀ l ∈ pre, headerMark.isPrefixOf l = false)
    (hh : headerMark.isPrefixOf hdr = true) :
    readDssp2 (first :: (pre ++ hdr :: body)) = readBody body := by
  have hs : skipHeader (pre ++ hdr :: body) = some body := by
    induction pre with
    | nil => simp [skipHeader, hh]
    | cons p ps ih =>
      have hp := hpre p (by simp)
      simp only [List.cons_append, skipHeader, hp, Bool.false_eq_true, if_false]
      exact ih (fun l hl => hpre l (List.mem_cons_of_mem _ hl))
  unfold readDssp2
  simp only [h1, Bool.false_eq_true, if_false, hs]

/-- the errors before the table: no line at all is a `StopIteration` (NOT the documented IOError), a
first line starting with `****` and a text without a header line after line 1 are IOErrors - in
particular a text whose FIRST line is the header line -/
theorem read_dssp2_errors :
    readDssp2 [] = .error .stopIteration ∧
    (∀ first rest, first ≠ [] → v1Mark.isPrefixOf first = true →
      readDssp2 (first :: rest) = .error .ioError) ∧
    (∀ first rest, (!first.isEmpty && v1Mark.isPrefixOf first) = false →
      (∀ l ∈ rest, headerMark.isPrefixOf l = false) → readDssp2 (first :: rest) = .error .ioError) := by
  refine ⟨rfl, ?_, ?_⟩
  · intro first rest hne hv
    have : first.isEmpty = false := by cases first <;> simp_all
    simp [readDssp2, this, hv]
  · intro first rest h1 hrest
    have hs : skipHeader rest = none := by
      induction rest with
      | nil => rfl
      | cons p ps ih =>
        simp only [skipHeader, hrest p (by simp), Bool.false_eq_true, if_false]
        exact ih (fun l hl => hrest l (List.mem_cons_of_mem _ hl))
    unfold readDssp2
    simp only [h1, Bool.false_eq_true, if_false, hs]

/-! non-vacuity -/

def exDsspLine (c : Char) : List Char := "    1    1 A M  ".toList ++ [c] ++ "  extra".toList

example : readDssp2 ["==== header".toList, "junk".toList, "  #  RESIDUE AA STRUCTURE".toList,
      exDsspLine 'H', exDsspLine ' ', "    3        !*".toList, [], exDsspLine 'E']
    = .ok ['H', 'C', 'E'] := by decide +kernel
example : readDssp2 ["  #  RESIDUE AA STRUCTURE".toList, exDsspLine 'H'] = .error .ioError := by decide +kernel
example : readDssp2 ["x".toList, "  #  RESIDUE AA".toList, "short".toList] = .error .ioError := by decide +kernel
example : readDssp2 ["x".toList, "  #  RESIDUE AA".toList, exDsspLine 'P'] = .error .ioError := by decide +kernel
example : (!"==== x".toList.isEmpty && v1Mark.isPrefixOf "==== x".toList) = false := by decide
example : keysNodup [⟨6, 0, some 1⟩, ⟨7, 0, some 2⟩] := by decide

/-- the composed statement on a concrete molecule: two residues with interleaved atoms, `HE` -/
example : convertAnnotationCode ssCg patterns
      (withSrc [⟨5, 1, none, none⟩, ⟨3, 0, none, some 9⟩, ⟨4, 1, none, none⟩]
        (annotated (srcMol [⟨5, 1, none, none⟩, ⟨3, 0, none, some 9⟩, ⟨4, 1, none, none⟩]) [72, 69] 0))
    = .ok [⟨5, 1, some 69, some 69⟩, ⟨3, 0, some 72, some 51⟩, ⟨4, 1, some 69, some 69⟩] := by
  decide +kernel

example : cliSs ssCg patterns
      [(false, [⟨0, 0, none, none⟩]), (true, [⟨0, 0, none, none⟩, ⟨1, 1, none, none⟩])] ['h', 'c']
    = .ok [[⟨0, 0, none, none⟩], [⟨0, 0, some 72, some 51⟩, ⟨1, 1, some 67, some 67⟩]] := by
  decide +kernel

example : cliCollagen [(false, [⟨0, 0, none, none⟩]), (true, [⟨0, 0, none, none⟩])]
    = .ok [[⟨0, 0, none, none⟩], [⟨0, 0, none, some 70⟩]] := by decide +kernel

end C17
