import VermouthProofs.C08
/-!
# C08 — warning allowances are accounted exactly; errors are never waived

Property theorems about `C08.leftover`, the model of
`vermouth.log_helpers.ignore_warnings_and_count`.  Only top-level statements
live here; helper lemmas are in `VermouthProofs/C08.lean`.

Vocabulary of the statements (all definitions are executable):
* `nAbove counter level`  : number of records strictly above `level` (errors);
* `limitOf specs t`       : numeric limit in force for type `t` (`none` = no numeric spec);
* `namedBy specs t`       : `t` was waived by name;
* `blanketOf specs`       : the blanket allowance (numeric spec without type), 0 if absent;
* `warnAt counter level`  : the entries at exactly `level` (the deductible ones).
-/
namespace C08

def warnAt (counter : List Entry) (level : Nat) : List Entry := counter.filter (fun e => e.level = level)
def nAbove (counter : List Entry) (level : Nat) : Int := sumCounts (counter.filter (fun e => level < e.level))
def limitOf (specs : List (List Spec)) (t : Option String) : Option Int := getLimit (buildTables specs).1 t
def namedBy (specs : List (List Spec)) (t : Option String) : Bool := (buildTables specs).2.contains t
def blanketOf (specs : List (List Spec)) : Int := (limitOf specs none).getD 0

/-- excess of an entry over its numeric limit (0 when it has none) -/
def excess (specs : List (List Spec)) (e : Entry) : Int :=
  match limitOf specs (some e.type) with
  | some l => max 0 (cnt e - l)
  | none => 0

/-- count of an entry that is neither limited numerically nor waived by name -/
def unspecified (specs : List (List Spec)) (e : Entry) : Int :=
  if (limitOf specs (some e.type)).isNone && !(namedBy specs (some e.type)) then cnt e else 0

def unspecTotal (specs : List (List Spec)) (counter : List Entry) (level : Nat) : Int :=
  ((warnAt counter level).map (unspecified specs)).sum

def excessTotal (specs : List (List Spec)) (counter : List Entry) (level : Nat) : Int :=
  ((warnAt counter level).map (excess specs)).sum

/-- The numeric limit in force for a type is the largest count given for it, and never below 0. -/
theorem largest_limit_wins (specs : List (List Spec)) (t : Option String) :
    limitOf specs t =
      if numericCounts specs.flatten t = [] then none
      else some ((numericCounts specs.flatten t).foldl max 0) := by
  unfold limitOf
  rw [buildTables_eq, getLimit_foldTables]
  exact foldl_stepOpt_none _

theorem limit_nonneg (specs : List (List Spec)) (t : Option String) (l : Int)
    (h : limitOf specs t = some l) : 0 ≤ l := by
  rw [largest_limit_wins] at h
  split at h
  · cases h
  · cases h; exact foldl_max_ge _ 0

theorem named_iff (specs : List (List Spec)) (t : Option String) :
    namedBy specs t = true ↔ (t, none) ∈ specs.flatten := by
  unfold namedBy
  rw [buildTables_eq, List.contains_iff_mem, mem_named_foldTables]
  simp

theorem blanket_nonneg (specs : List (List Spec)) : 0 ≤ blanketOf specs := by
  unfold blanketOf
  cases h : limitOf specs none with
  | none => simp
  | some l => simpa using limit_nonneg specs none l h

/-- **Closed form** of the leftover count. -/
theorem leftover_closed (counter : List Entry) (specs : List (List Spec)) (level : Nat) :
    leftover counter specs level =
      nAbove counter level + excessTotal specs counter level
        + max 0 (unspecTotal specs counter level - blanketOf specs) := by
  have hB := blanket_nonneg specs
  unfold leftover
  simp only []
  rw [fold_deduct _ _ _ _ _ (by simpa [blanketOf, limitOf] using hB)]
  simp only []
  have hsplit := sum_filter_split counter level
  unfold totalAtOrAbove
  have htot : ((counter.filter (fun e => level ≤ e.level)).map (fun e => (e.count : Int))).sum
      = nAbove counter level + sumCounts (warnAt counter level) := by
    have := hsplit
    unfold sumCounts at this
    exact this
  rw [htot]
  -- per-entry accounting
  have key : ∀ l : List Entry,
      sumCounts l - (l.map (numericDeduct (buildTables specs).1)).sum
        - (l.map (namedDeduct (buildTables specs).1 (buildTables specs).2)).sum
        = (l.map (excess specs)).sum + (l.map (unspecified specs)).sum
      ∧ (l.map (unspecCount (buildTables specs).1 (buildTables specs).2)).sum
        = (l.map (unspecified specs)).sum := by
    intro l
    induction l with
    | nil => simp [sumCounts]
    | cons e t ih =>
      simp only [sumCounts, List.map_cons, List.sum_cons] at *
      have hc := cnt_nonneg e
      cases hlim : getLimit (buildTables specs).1 (some e.type) with
      | some lim =>
        have hl : 0 ≤ lim := limit_nonneg specs (some e.type) lim hlim
        have h1 : numericDeduct (buildTables specs).1 e = max 0 (min (cnt e) lim) := by
          unfold numericDeduct; rw [hlim]
        have h2 : namedDeduct (buildTables specs).1 (buildTables specs).2 e = 0 := by
          unfold namedDeduct isNamed isNumeric; rw [hlim]; simp
        have h3 : unspecCount (buildTables specs).1 (buildTables specs).2 e = 0 := by
          unfold unspecCount isUnspec isNumeric; rw [hlim]; simp
        have h4 : excess specs e = max 0 (cnt e - lim) := by
          unfold excess limitOf; rw [hlim]
        have h5 : unspecified specs e = 0 := by
          unfold unspecified limitOf; rw [hlim]; simp
        rw [h1, h2, h3, h4, h5]
        omega
      | none =>
        have h1 : numericDeduct (buildTables specs).1 e = 0 := by
          unfold numericDeduct; rw [hlim]
        have h4 : excess specs e = 0 := by
          unfold excess limitOf; rw [hlim]
        by_cases hn : some e.type ∈ (buildTables specs).2
        · have h2 : namedDeduct (buildTables specs).1 (buildTables specs).2 e = cnt e := by
            unfold namedDeduct isNamed isNumeric; rw [hlim]; simp [hn]
          have h3 : unspecCount (buildTables specs).1 (buildTables specs).2 e = 0 := by
            unfold unspecCount isUnspec isNumeric; rw [hlim]; simp [hn]
          have h5 : unspecified specs e = 0 := by
            unfold unspecified limitOf namedBy; rw [hlim]; simp [hn]
          rw [h1, h2, h3, h4, h5]
          omega
        · have h2 : namedDeduct (buildTables specs).1 (buildTables specs).2 e = 0 := by
            unfold namedDeduct isNamed isNumeric; rw [hlim]; simp [hn]
          have h3 : unspecCount (buildTables specs).1 (buildTables specs).2 e = cnt e := by
            unfold unspecCount isUnspec isNumeric; rw [hlim]; simp [hn]
          have h5 : unspecified specs e = cnt e := by
            unfold unspecified limitOf namedBy; rw [hlim]; simp [hn]
          rw [h1, h2, h3, h4, h5]
          omega
  obtain ⟨k1, k2⟩ := key (warnAt counter level)
  have hU : 0 ≤ ((warnAt counter level).map (unspecified specs)).sum := by
    apply sum_map_nonneg
    intro e; unfold unspecified; split
    · exact cnt_nonneg e
    · omega
  unfold excessTotal unspecTotal
  change nAbove counter level + sumCounts (warnAt counter level)
      - ((warnAt counter level).map (numericDeduct (buildTables specs).1)).sum
      - ((warnAt counter level).map (namedDeduct (buildTables specs).1 (buildTables specs).2)).sum
      - min (((warnAt counter level).map (unspecCount (buildTables specs).1 (buildTables specs).2)).sum)
          ((getLimit (buildTables specs).1 none).getD 0) = _
  rw [k2]
  unfold blanketOf limitOf at *
  omega

/-- The leftover count does not depend on the order in which records were counted. -/
theorem leftover_order_indep (c c' : List Entry) (h : c.Perm c') (specs : List (List Spec)) (level : Nat) :
    leftover c specs level = leftover c' specs level := by
  rw [leftover_closed, leftover_closed]
  have e1 : nAbove c level = nAbove c' level := sum_perm ((h.filter _).map _)
  have e2 : excessTotal specs c level = excessTotal specs c' level := sum_perm ((h.filter _).map _)
  have e3 : unspecTotal specs c level = unspecTotal specs c' level := sum_perm ((h.filter _).map _)
  rw [e1, e2, e3]

theorem nAbove_nonneg (c : List Entry) (level : Nat) : 0 ≤ nAbove c level :=
  sum_map_nonneg _ _ cnt_nonneg

theorem excessTotal_nonneg (specs) (c : List Entry) (level : Nat) : 0 ≤ excessTotal specs c level := by
  apply sum_map_nonneg
  intro e; unfold excess; split <;> omega

/-- Errors (records above warning level) are never waived, whatever the allowances. -/
theorem leftover_ge_errors (c : List Entry) (specs : List (List Spec)) (level : Nat) :
    nAbove c level ≤ leftover c specs level := by
  rw [leftover_closed]
  have := excessTotal_nonneg specs c level
  omega

theorem leftover_nonneg (c : List Entry) (specs : List (List Spec)) (level : Nat) :
    0 ≤ leftover c specs level := by
  have := leftover_ge_errors c specs level
  have := nAbove_nonneg c level
  omega

/-- Zero exactly when every warning is covered. -/
theorem leftover_zero_iff (c : List Entry) (specs : List (List Spec)) (level : Nat) :
    leftover c specs level = 0 ↔
      nAbove c level = 0 ∧
      (∀ e ∈ warnAt c level, ∀ l, limitOf specs (some e.type) = some l → (e.count : Int) ≤ l) ∧
      unspecTotal specs c level ≤ blanketOf specs := by
  rw [leftover_closed]
  have h1 := nAbove_nonneg c level
  have h2 := excessTotal_nonneg specs c level
  have hex : excessTotal specs c level = 0 ↔
      ∀ e ∈ warnAt c level, ∀ l, limitOf specs (some e.type) = some l → (e.count : Int) ≤ l := by
    unfold excessTotal
    generalize warnAt c level = w
    induction w with
    | nil => simp
    | cons e t ih =>
      simp only [List.map_cons, List.sum_cons, List.mem_cons, forall_eq_or_imp]
      have ht : 0 ≤ (t.map (excess specs)).sum := by
        apply sum_map_nonneg; intro e; unfold excess; split <;> omega
      have he : 0 ≤ excess specs e := by unfold excess; split <;> omega
      constructor
      · intro h
        have h0 : excess specs e = 0 := by omega
        have ht0 : (t.map (excess specs)).sum = 0 := by omega
        refine ⟨?_, ih.mp ht0⟩
        intro l hl
        unfold excess at h0; rw [hl] at h0; simp only [cnt] at h0; omega
      · rintro ⟨hh, htl⟩
        have ht0 := ih.mpr htl
        have h0 : excess specs e = 0 := by
          unfold excess
          cases hl : limitOf specs (some e.type) with
          | none => rfl
          | some l => have := hh l hl; simp only [cnt]; omega
        omega
  constructor
  · intro h
    refine ⟨by omega, hex.mp (by omega), by omega⟩
  · rintro ⟨ha, hb, hc⟩
    have := hex.mpr hb
    omega

/-- An allowance for a type that did not occur (at warning level) changes nothing. -/
theorem absent_type_no_effect (c : List Entry) (s1 s2 : List (List Spec)) (t : String) (x : Option Int)
    (level : Nat) (habs : ∀ e ∈ warnAt c level, e.type ≠ t) :
    leftover c (s1 ++ [[(some t, x)]] ++ s2) level = leftover c (s1 ++ s2) level := by
  rw [leftover_closed, leftover_closed]
  have hlim : ∀ t' : Option String, t' ≠ some t →
      limitOf (s1 ++ [[(some t, x)]] ++ s2) t' = limitOf (s1 ++ s2) t' := by
    intro t' ht'
    rw [largest_limit_wins, largest_limit_wins]
    have : numericCounts (s1 ++ [[(some t, x)]] ++ s2).flatten t' = numericCounts (s1 ++ s2).flatten t' := by
      simp only [numericCounts, List.flatten_append, List.filterMap_append, List.flatten_cons,
        List.flatten_nil, List.append_nil, List.filterMap_cons, List.filterMap_nil]
      have : ¬ some t = t' := fun e => ht' e.symm
      simp [this]
    rw [this]
  have hnamed : ∀ t' : Option String, t' ≠ some t →
      namedBy (s1 ++ [[(some t, x)]] ++ s2) t' = namedBy (s1 ++ s2) t' := by
    intro t' ht'
    rw [Bool.eq_iff_iff, named_iff, named_iff]
    simp only [List.flatten_append, List.mem_append, List.flatten_cons, List.flatten_nil,
      List.append_nil, List.mem_cons, Prod.mk.injEq, List.not_mem_nil, or_false]
    constructor
    · rintro ((h | h) | h)
      · exact Or.inl h
      · exact absurd h.1 ht'
      · exact Or.inr h
    · rintro (h | h)
      · exact Or.inl (Or.inl h)
      · exact Or.inr h
  have hb : blanketOf (s1 ++ [[(some t, x)]] ++ s2) = blanketOf (s1 ++ s2) := by
    unfold blanketOf; rw [hlim none (by simp)]
  have he : excessTotal (s1 ++ [[(some t, x)]] ++ s2) c level = excessTotal (s1 ++ s2) c level := by
    unfold excessTotal
    congr 1
    apply List.map_congr_left
    intro e he
    have : (some e.type : Option String) ≠ some t := by
      intro h; exact habs e he (Option.some.inj h)
    unfold excess; rw [hlim _ this]
  have hu : unspecTotal (s1 ++ [[(some t, x)]] ++ s2) c level = unspecTotal (s1 ++ s2) c level := by
    unfold unspecTotal
    congr 1
    apply List.map_congr_left
    intro e he
    have : (some e.type : Option String) ≠ some t := by
      intro h; exact habs e he (Option.some.inj h)
    unfold unspecified; rw [hlim _ this, hnamed _ this]
  rw [hb, he, hu]

/-- The leftover count depends on the specifications only through the limit table and the
set of types waived by name. -/
theorem leftover_congr (c : List Entry) (sa sb : List (List Spec)) (level : Nat)
    (hl : ∀ t, limitOf sa t = limitOf sb t) (hn : ∀ t, namedBy sa t = namedBy sb t) :
    leftover c sa level = leftover c sb level := by
  rw [leftover_closed, leftover_closed]
  have hb : blanketOf sa = blanketOf sb := by unfold blanketOf; rw [hl]
  have he : excessTotal sa c level = excessTotal sb c level := by
    unfold excessTotal; congr 1; apply List.map_congr_left; intro e _; unfold excess; rw [hl]
  have hu : unspecTotal sa c level = unspecTotal sb c level := by
    unfold unspecTotal; congr 1; apply List.map_congr_left; intro e _; unfold unspecified; rw [hl, hn]
  rw [hb, he, hu]

/-- A negative numeric allowance is the same as an allowance of zero. -/
theorem negative_limit_is_zero (c : List Entry) (s1 s2 : List (List Spec)) (t : Option String) (n : Int)
    (hn : n ≤ 0) (level : Nat) :
    leftover c (s1 ++ [[(t, some n)]] ++ s2) level = leftover c (s1 ++ [[(t, some 0)]] ++ s2) level := by
  apply leftover_congr
  · intro t'
    rw [largest_limit_wins, largest_limit_wins]
    by_cases h : t = t'
    · subst h
      simp only [numericCounts, List.flatten_append, List.filterMap_append, List.flatten_cons,
        List.flatten_nil, List.append_nil, List.filterMap_cons, List.filterMap_nil, List.foldl_append,
        if_true, List.foldl_cons, List.foldl_nil]
      have hge := foldl_max_ge (List.filterMap (fun sp : Spec => if sp.fst = t then sp.snd else none) s1.flatten) 0
      have : max (List.foldl max 0 (List.filterMap (fun sp : Spec => if sp.fst = t then sp.snd else none) s1.flatten)) n
           = max (List.foldl max 0 (List.filterMap (fun sp : Spec => if sp.fst = t then sp.snd else none) s1.flatten)) 0 := by
        omega
      rw [this]
      simp
    · have e : numericCounts (s1 ++ [[(t, some n)]] ++ s2).flatten t'
          = numericCounts (s1 ++ [[(t, some 0)]] ++ s2).flatten t' := by
        simp [numericCounts, h]
      rw [e]
  · intro t'
    rw [Bool.eq_iff_iff, named_iff, named_iff]
    simp

/-! ### The `-maxwarn` argument parser -/

/-- A plain number is a blanket allowance. -/
theorem parse_number (v : List Char) (n : Int) (hc : ':' ∉ v) (hn : pyInt v = some n) :
    parseMaxwarn v = .ok (none, some n) := by
  unfold parseMaxwarn
  rw [splitColon_no_colon v hc]
  simp [hn]

/-- Anything else without a colon is a type name waived completely. -/
theorem parse_name (v : List Char) (hc : ':' ∉ v) (hn : pyInt v = none) :
    parseMaxwarn v = .ok (some (String.ofList v), none) := by
  unfold parseMaxwarn
  rw [splitColon_no_colon v hc]
  simp [hn]

/-- `type:count` -/
theorem parse_type_count (t c : List Char) (n : Int) (ht : ':' ∉ t) (hc : ':' ∉ c) (hn : pyInt c = some n) :
    parseMaxwarn (t ++ ':' :: c) = .ok (some (String.ofList t), some n) := by
  unfold parseMaxwarn
  rw [splitColon_append t c ht, splitColon_no_colon c hc]
  simp [hn]

/-- `type:` followed by something that is not an integer is rejected. -/
theorem parse_type_badcount_rejected (t c : List Char) (ht : ':' ∉ t) (hc : ':' ∉ c) (hn : pyInt c = none) :
    parseMaxwarn (t ++ ':' :: c) = .reject := by
  unfold parseMaxwarn
  rw [splitColon_append t c ht, splitColon_no_colon c hc]
  simp [hn]

/-- Three or more parts are rejected, whatever they are. -/
theorem parse_three_parts_rejected (a b rest : List Char) (ha : ':' ∉ a) (hb : ':' ∉ b) :
    parseMaxwarn (a ++ ':' :: (b ++ ':' :: rest)) = .reject := by
  unfold parseMaxwarn
  rw [splitColon_append a _ ha, splitColon_append b rest hb]
  cases h : splitColon rest with
  | nil => exact absurd h (splitColon_ne_nil rest)
  | cons x xs => rfl

/-- The canonical rendering of a count (non-empty ASCII digits, optional minus sign) is read back. -/
theorem parse_format_number (ds : List Char) (hne : ds ≠ []) (hd : allDigits ds = true) :
    parseMaxwarn ds = .ok (none, some (digitsVal ds : Int)) := by
  apply parse_number
  · intro hm
    simp only [allDigits, List.all_eq_true] at hd
    have := hd ':' hm
    revert this; decide
  · exact pyInt_digits ds hne hd

theorem parse_format_type_count (t ds : List Char) (ht : ':' ∉ t) (hne : ds ≠ []) (hd : allDigits ds = true) :
    parseMaxwarn (t ++ ':' :: ds) = .ok (some (String.ofList t), some (digitsVal ds : Int)) := by
  apply parse_type_count _ _ _ ht
  · intro hm
    simp only [allDigits, List.all_eq_true] at hd
    have := hd ':' hm
    revert this; decide
  · exact pyInt_digits ds hne hd

/-! ### Non-vacuity: concrete instances of the hypotheses and of the closed form -/

example : leftover [⟨30, "a", 3⟩, ⟨40, "b", 1⟩, ⟨30, "c", 2⟩] [[(some "a", some 2), (none, some 1)]] 30 = 3 := by decide
example : nAbove [⟨30, "a", 3⟩, ⟨40, "b", 1⟩, ⟨30, "c", 2⟩] 30 = 1 := by decide
example : parseMaxwarn "general:15".toList = .ok (some "general", some 15) := by decide
example : parseMaxwarn "a:b:c".toList = .reject := by decide
example : ∀ e ∈ warnAt [⟨30, "a", 3⟩, ⟨40, "b", 1⟩] 30, e.type ≠ "never" := by decide

end C08
