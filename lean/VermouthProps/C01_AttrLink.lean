import VermouthProps.C01_Attr
/-!
# C01 — the special-case model of the attribute loop (`beadOf`, VermouthModel/C01.lean) is an
instance of the general one (`attrLoopOne`, VermouthModel/C01_Attr.lean)

For martinize2's tuples keep = (chain,), must = (resname,), stash = (resid,) and input atoms that
all carry an integer resid and no `replace`, the general loop writes the same `resid` and
`_old_resid` as `beadOf`, so `stash_old_resid` and the block theorems of VermouthProps/C01.lean speak
about the same values as the attribute theorems.
-/
namespace C01
open C12

def m2Cfg : Cfg := { keep := ["chain"], must := ["resname"], stash := ["resid"] }

/-- every atom carries an integer resid, has no `replace`, and its dictionary has distinct keys -/
def PlainResid (m : MolX) : Prop :=
  ∀ a ∈ m.atoms, a.replace = none ∧ AtomWF a ∧ ∃ i, dget a.attrs "resid" = some (.int i)

instance (m : MolX) : Decidable (PlainResid m) := by
  unfold PlainResid
  have : ∀ a : AtomX, Decidable (∃ i, dget a.attrs "resid" = some (Val.int i)) := by
    intro a
    cases h : dget a.attrs "resid" with
    | none => exact isFalse (by simp)
    | some v =>
      cases v with
      | none => exact isFalse (by simp)
      | int i => exact isTrue ⟨i, rfl⟩
      | str s => exact isFalse (by simp)
  infer_instance

def toBaseAtom (a : AtomX) : Atom :=
  { key := a.key, resid := intOf a.attrs "resid" 0, resname := "", chain := "", isH := a.isH }

theorem base_atom? (m : MolX) (k : Int) :
    m.base.atom? k = (m.atom? k).map toBaseAtom := by
  unfold MolX.base MolIn.atom? MolX.atom?
  simp only
  induction m.atoms with
  | nil => rfl
  | cons a r ih =>
    simp only [List.map_cons, List.find?_cons]
    split
    · rfl
    · exact ih

theorem atom?_mem (m : MolX) (k : Int) (a : AtomX) (h : m.atom? k = some a) : a ∈ m.atoms := by
  unfold MolX.atom? at h
  exact List.mem_of_find?_eq_some h

theorem dget_filter (d : AttrD) (p : String → Bool) (A : String) (h : p A = true) :
    dget (d.filter (fun kv => p kv.1)) A = dget d A := by
  induction d with
  | nil => rfl
  | cons x r ih =>
    obtain ⟨k, v⟩ := x
    simp only [List.filter_cons]
    by_cases hk : k = A
    · subst hk; simp [h, dget]
    · split
      · simp [dget, hk, ih]
      · simp [dget, hk, ih]

theorem resid_of_plain (m : MolX) (a : AtomX) (hp : PlainResid m) (ha : a ∈ m.atoms) :
    dget (attrsFromNode m2Cfg a) "resid" = some (.int (intOf a.attrs "resid" 0)) := by
  obtain ⟨h1, _, i, h3⟩ := hp a ha
  unfold attrsFromNode
  rw [h1]
  simp only
  rw [dget_filter a.attrs (fun k => m2Cfg.all.contains k) "resid" (by decide), h3]
  simp [intOf, h3]

theorem srcVals_resid (m : MolX) (hp : PlainResid m) (srcs : List AtomX) (hs : ∀ a ∈ srcs, a ∈ m.atoms) :
    srcVals m2Cfg srcs "resid" = srcs.map (fun a => Val.int (intOf a.attrs "resid" 0)) := by
  unfold srcVals
  induction srcs with
  | nil => rfl
  | cons a r ih =>
    simp only [List.flatMap_cons, List.map_cons, resid_of_plain m a hp (hs a List.mem_cons_self), Option.toList_some,
      List.singleton_append]
    rw [ih (fun x hx => hs x (List.mem_cons_of_mem _ hx))]

theorem sources_mem (m : MolX) (refs : List (Int × Int)) (k : Int) (ws : List (Int × Rat)) :
    ∀ a ∈ sources m refs k ws, a ∈ m.atoms := by
  intro a ha
  unfold sources at ha
  split at ha
  · rename_i r hr
    simp only [List.mem_singleton] at ha
    subst ha
    cases hl : refs.lookup k with
    | none => simp [hl] at hr
    | some x => simp only [hl, Option.bind_some] at hr; exact atom?_mem m x _ hr
  · simp only [List.mem_filterMap, List.mem_map] at ha
    obtain ⟨x, _, hx⟩ := ha
    exact atom?_mem m x a hx

/-- `attr_loop_specialises`: under martinize2's tuples, for a particle whose dictionary agrees with
its table row on `resid` and carries no `_old_resid` yet, the general attribute loop gives the
`_old_resid` and the `resid` that `beadOf` gives -/
theorem attr_loop_specialises (m : MolX) (st : St) (n : Int × Attrs) (ws : List (Int × Rat)) (node : AttrD)
    (hws : st.outToMol.lookup n.1 = some ws) (hp : PlainResid m)
    (hres : dget node "resid" = n.2.resid.map Val.int) (hold : dget node "_old_resid" = none) :
    dget (attrLoopOne m2Cfg m st.refs n.1 ws node).1 "_old_resid" = (beadOf m.base st n).oldResid.map Val.int
    ∧ dget (attrLoopOne m2Cfg m st.refs n.1 ws node).1 "resid" = (beadOf m.base st n).resid.map Val.int := by
  have hmem := sources_mem m st.refs n.1 ws
  have hwf : ∀ a ∈ sources m st.refs n.1 ws, AtomWF a := fun a ha => (hp a (hmem a ha)).2.1
  have hvals := srcVals_resid m hp _ hmem
  obtain ⟨s1, s2⟩ := stash_value_exact m2Cfg m st.refs n.1 ws node "resid" (by decide) (by decide) hwf
  have hget := attrLoopOne_get m2Cfg m st.refs n.1 ws node "resid" hwf (by decide)
  rw [hvals] at hget
  have hsk : stashKey "resid" = "_old_resid" := by decide
  rw [hsk] at s1 s2
  -- what `beadOf` reads
  obtain ⟨k, nm, rs, cg, ch⟩ := n
  simp only at hws hres hget s1 s2 hvals ⊢
  unfold beadOf
  simp only [hws]
  unfold sources at hvals hget s1 s2
  cases hr : (st.refs.lookup k).bind m.atom? with
  | some r =>
    have hrb : (st.refs.lookup k).bind (fun x => (m.atom? x).map toBaseAtom) = some (toBaseAtom r) := by
      cases hl : st.refs.lookup k with
      | none => simp [hl] at hr
      | some x => simp only [hl, Option.bind_some] at hr ⊢; rw [hr]; rfl
    simp only [hr] at hvals hget s1 s2
    have hb : (st.refs.lookup k).bind m.base.atom? = some (toBaseAtom r) := by
      have : m.base.atom? = fun x => (m.atom? x).map toBaseAtom := funext (base_atom? m)
      rw [this]; exact hrb
    simp only [hb]
    refine ⟨s1 _ _ (by rw [hvals]; rfl), ?_⟩
    simp only [List.map_cons, List.map_nil] at hget
    rw [hget]
    cases rs with
    | none => simp [hasKey, hres]; rfl
    | some x => simp [hasKey, hres]; intro h; exact absurd h (by decide)
  | none =>
    have hb : (st.refs.lookup k).bind m.base.atom? = none := by
      have : m.base.atom? = fun x => (m.atom? x).map toBaseAtom := funext (base_atom? m)
      rw [this]
      cases hl : st.refs.lookup k with
      | none => rfl
      | some x => simp only [hl, Option.bind_some] at hr ⊢; rw [hr]; rfl
    simp only [hr] at hvals hget s1 s2
    simp only [hb]
    have hfm : (ws.map Prod.fst).filterMap m.base.atom?
        = ((ws.map Prod.fst).filterMap m.atom?).map toBaseAtom := by
      generalize ws.map Prod.fst = ks
      induction ks with
      | nil => rfl
      | cons x r ih =>
        simp only [List.filterMap_cons, base_atom?]
        cases m.atom? x with
        | none => simpa using ih
        | some a => simpa using ih
    rw [hfm]
    cases hsrc : (ws.map Prod.fst).filterMap m.atom? with
    | nil =>
      rw [hsrc] at hvals hget s2
      simp only [List.map_nil, List.head?_nil, Option.map_none] at hget ⊢
      refine ⟨by rw [s2 hvals, hold], ?_⟩
      rw [hget, hres]
      cases rs <;> rfl
    | cons a rest =>
      rw [hsrc] at hvals hget s1
      simp only [List.map_cons, List.head?_cons, Option.map_some] at hget ⊢
      refine ⟨s1 _ _ hvals, ?_⟩
      rw [hget]
      cases rs with
      | none => simp [hasKey, hres]; rfl
      | some x => simp [hasKey, hres]; intro h; exact absurd h (by decide)

-- non-vacuity
example : PlainResid { atoms := [{ key := 1, attrs := [("resid", .int 5), ("chain", .str "A")] }], edges := [] } := by decide

end C01
