import VermouthProofs.C05_Run
/-!
# C05 — the whole run of `DoLinks.run_molecule`, step by step

Model: `VermouthModel/C05_Run.lean`, section A.  `runLog` records, link by link, the molecule as it
is when the link starts and the placements consumed; `runEvents` is the sequence of elementary
operations the code performs (`dict.update` of a node, `_nodes_to_remove.append`,
`remove_matching_interaction`, `add_or_replace_interaction`, `remove_nodes_from`); `run` replays such
a sequence; `trace` pairs every operation with the state it is executed on.

All theorems hold for every molecule, every list of links and every enumeration order of the
placements (`given`); the only hypotheses are distinct node keys (true of every networkx graph) where
node attributes are read, and distinct identities of the input table for the uniqueness statement.

Example data (`VermouthProofs/C05_Run.lean`): `exMol` is a path of three atoms 10-11-12 in the
residues 1, 2, 3; `exRunLink` fits twice (on 10-11 and on 11-12), renames its first atom and writes
one bond; `exDropLink` deletes the atom of residue 3.
-/
namespace C05.Top
open Iso C05

/-! ### the run is the replay of its operations -/

/-- The fold `run_molecule` performs over links and placements is the replay of the elementary
operations of the run log, in processing order. -/
theorem applyLinks_eq_run (m : Mol) (links : List Link) (given : List (List Map)) :
    applyLinks m links given = (run (m, []) (runEvents m links given)).1 :=
  C05.applyLinks_eq_run m links given

/-- the operations of the example run: rename 10, write the bond 10-11, rename 11, write the bond
11-12, delete the marked nodes (none) -/
example : runEvents exMol [exRunLink] [] =
    [Ev.setAttrs 10 [("atomname", .str "A")], Ev.add exBond1 ["ref"],
     Ev.setAttrs 11 [("atomname", .str "A")], Ev.add exBond2 ["ref"], Ev.drop] := rfl

/-- An entry of the run log is one of the links, and the placements consumed for it are exactly the
placements `match_link` yields on the molecule as it is when that link starts. -/
theorem runLog_spec (s : Mol × List Int) (links : List Link) (gs : List (List Map)) (st : LinkStep)
    (h : st ∈ runLog s links gs) :
    st.link ∈ links ∧ ∀ mp, mp ∈ st.ps ↔ mp ∈ matchLink st.before st.link :=
  C05.runLog_spec s links gs st h

/-- … that is, exactly the placements on which the link fits (declarative conditions `LinkFits`). -/
theorem runLog_fits (s : Mol × List Int) (links : List Link) (gs : List (List Map)) (st : LinkStep)
    (h : st ∈ runLog s links gs) (hk : st.link.keys.Nodup) (hp : PatternsClosed st.link) (mp : Map) :
    mp ∈ st.ps ↔ LinkFits st.before st.link mp :=
  C05.runLog_fits s links gs st h hk hp mp

example : ∃ st ∈ runLog (exMol, []) [exRunLink] [], st.link.keys.Nodup ∧ PatternsClosed st.link
    ∧ st.ps = [[(0, 10), (1, 11)], [(0, 11), (1, 12)]] :=
  ⟨_, List.mem_cons_self, by decide, (by intro p hp; cases hp), by decide⟩

/-! ### nothing unjustified, for the whole run -/

/-- Every interaction of the molecule after `DoLinks` either was in the input, or is the image of an
interaction of one of the links under a placement that was consumed for that link and that
`match_link` yields on the molecule as it was when that link started; and none of its atoms is on
the list of removed nodes. -/
theorem final_interaction_justified (m : Mol) (links : List Link) (given : List (List Map))
    (e : String × Inter) (h : e ∈ (applyLinks m links given).inters) :
    (e ∈ m.inters ∨ ∃ st ∈ runLog (m, []) links given, ∃ mp ∈ st.ps, ∃ a ∈ st.link.inters,
        mp ∈ matchLink st.before st.link ∧ e = (a.1, buildInter mp a.2))
    ∧ (∀ a ∈ e.2.atoms, a ∉ (applyLinksFrom (m, []) links given).2) :=
  C05.final_interaction_justified m links given e h

example : exBond1 ∈ (applyLinks exMol [exRunLink, exDropLink] []).inters := by decide
/-- the bond 11-12 is NOT in the result: atom 12 was removed by the second link -/
example : exBond2 ∉ (applyLinks exMol [exRunLink, exDropLink] []).inters
    ∧ (applyLinksFrom (exMol, []) [exRunLink, exDropLink] []).2 = [12] := by decide

/-! ### the last writer wins -/

/-- Event-level statement: the value stored under an identity (type, atoms, version) stays the value
of that identity as long as no later operation writes that identity, removes an entry of its type
that matches a removal template, or deletes one of its atoms. -/
theorem holds_run (s : Mol × List Int) (evs : List Ev) (k : IKey) (v : Inter)
    (h : tableGet s.1.inters k = some v)
    (hc : (trace s evs).all (fun e => !interferes k v e) = true) :
    tableGet (run s evs).1.inters k = some v :=
  C05.holds_run s evs k v h hc

/-- The last writer wins: if the run writes the interaction `x` at some point and no later operation
of the run interferes with it (same identity written again, matching removal, deletion of one of its
atoms), then the final table holds `x` under its identity. -/
theorem last_writer_wins (m : Mol) (links : List Link) (given : List (List Map)) (pre post : List Ev)
    (x : String × Inter) (c : List String)
    (hsplit : runEvents m links given = pre ++ Ev.add x c :: post)
    (hclean : (trace (run (m, []) (pre ++ [Ev.add x c])) post).all
        (fun e => !interferes (keyOf x) x.2 e) = true) :
    tableGet (applyLinks m links given).inters (keyOf x) = some x.2 :=
  C05.last_writer_wins m links given pre post x c hsplit hclean

/-- … and, when the identities of the input table are distinct, `x` is the ONLY entry of the final
table with that identity. -/
theorem last_writer_unique (m : Mol) (links : List Link) (given : List (List Map)) (pre post : List Ev)
    (x : String × Inter) (c : List String)
    (hsplit : runEvents m links given = pre ++ Ev.add x c :: post)
    (hclean : (trace (run (m, []) (pre ++ [Ev.add x c])) post).all
        (fun e => !interferes (keyOf x) x.2 e) = true)
    (hn : (tableKeys m.inters).Nodup) :
    (applyLinks m links given).inters.filter (fun e => keyOf e == keyOf x) = [x] :=
  C05.last_writer_unique m links given pre post x c hsplit hclean hn

/-- the identities of the final table are distinct when those of the input are -/
theorem applyLinks_nodup (m : Mol) (links : List Link) (given : List (List Map))
    (h : (tableKeys m.inters).Nodup) : (tableKeys (applyLinks m links given).inters).Nodup :=
  C05.applyLinks_nodup m links given h

/-- the hypotheses hold for the bond 10-11 in the two-link example: nothing after it interferes
(the second placement writes another identity, the removal of atom 12 does not touch it) -/
example :
    runEvents exMol [exRunLink, exDropLink] [] =
      [Ev.setAttrs 10 [("atomname", .str "A")]] ++ Ev.add exBond1 ["ref"] ::
        [Ev.setAttrs 11 [("atomname", .str "A")], Ev.add exBond2 ["ref"], Ev.drop, Ev.mark 12, Ev.drop]
    ∧ (trace (run (exMol, []) ([Ev.setAttrs 10 [("atomname", .str "A")]] ++ [Ev.add exBond1 ["ref"]]))
        [Ev.setAttrs 11 [("atomname", .str "A")], Ev.add exBond2 ["ref"], Ev.drop, Ev.mark 12, Ev.drop]).all
          (fun e => !interferes (keyOf exBond1) exBond1.2 e) = true
    ∧ (tableKeys exMol.inters).Nodup :=
  ⟨rfl, by decide, by decide⟩

/-- they fail for the bond 11-12: the last `remove_nodes_from` deletes atom 12 -/
example :
    (trace (run (exMol, []) [Ev.setAttrs 10 [("atomname", .str "A")], Ev.add exBond1 ["ref"],
        Ev.setAttrs 11 [("atomname", .str "A")], Ev.add exBond2 ["ref"]])
      [Ev.drop, Ev.mark 12, Ev.drop]).map (fun e => deletesAt exBond2.2 e) = [false, false, true] := by
  decide

/-! ### present unless removed -/

/-- Every interaction of every link of the run, under every placement consumed for that link, is
written by the run (`add_or_replace_interaction` with the link's citations); at the end it is the
value of its identity UNLESS a later operation of the run wrote the same identity, removed a
matching entry of its type, or deleted one of its atoms (the operation is exhibited, together with
the state it ran on). -/
theorem present_unless_removed (m : Mol) (links : List Link) (given : List (List Map)) (st : LinkStep)
    (hst : st ∈ runLog (m, []) links given) (mp : Map) (hmp : mp ∈ st.ps)
    (a : String × Inter) (ha : a ∈ st.link.inters) :
    ∃ pre post, runEvents m links given =
        pre ++ Ev.add (a.1, buildInter mp a.2) st.link.cites :: post ∧
      (tableGet (applyLinks m links given).inters (keyOf (a.1, buildInter mp a.2)) =
          some (buildInter mp a.2)
       ∨ ∃ e ∈ trace (run (m, []) (pre ++ [Ev.add (a.1, buildInter mp a.2) st.link.cites])) post,
           (e.2.writes (keyOf (a.1, buildInter mp a.2)) = true
            ∨ removesAt (keyOf (a.1, buildInter mp a.2)) (buildInter mp a.2) e = true
            ∨ deletesAt (buildInter mp a.2) e = true)) :=
  C05.present_unless_removed m links given st hst mp hmp a ha

/-- the hypotheses are satisfiable: the first entry of the example log, its second placement, its bond
(which is `exBond2`, the one that gets deleted later) -/
example : ∃ st ∈ runLog (exMol, []) [exRunLink, exDropLink] [], ∃ mp ∈ st.ps, ∃ a ∈ st.link.inters,
    (a.1, buildInter mp a.2) = exBond2 :=
  ⟨_, List.mem_cons_self, [(0, 11), (1, 12)], by decide, _, List.mem_cons_self, by decide⟩

/-- an operation of the run that writes an interaction is the image of an interaction of a link of
the log under one of the placements consumed for it, with that link's citations -/
theorem add_event_origin (log : List LinkStep) (x : String × Inter) (c : List String) :
    Ev.add x c ∈ logEvents log ↔
      ∃ st ∈ log, ∃ mp ∈ st.ps, ∃ a ∈ st.link.inters,
        x = (a.1, buildInter mp a.2) ∧ c = st.link.cites :=
  C05.add_event_origin log x c

/-! ### the final attributes of a node -/

/-- The attributes of a node that survives a sequence of operations are its attributes before,
updated (`dict.update`) by all the `replace` dictionaries applied to it, in processing order. -/
theorem run_attrsOf (s : Mol × List Int) (evs : List Ev) (k : Int) (hn : s.1.keys.Nodup)
    (hk : k ∈ (run s evs).1.keys) :
    (run s evs).1.attrsOf k = aupdate (s.1.attrsOf k) (attrWrites k evs) :=
  C05.run_attrsOf s evs k hn hk

/-- For every node that is still in the molecule after `DoLinks` and every attribute name: the final
value is the one given by the LAST `replace` dictionary (in processing order, over all links and all
placements) that mentions the attribute and was applied to that node; if there is none, the input
value. -/
theorem replace_attrs_final (m : Mol) (hk : m.keys.Nodup) (links : List Link) (given : List (List Map))
    (k : Int) (hkeep : k ∈ (applyLinks m links given).keys) (key : String) :
    ((applyLinks m links given).attrsOf k).lookup key =
      match (attrWrites k (runEvents m links given)).reverse.lookup key with
      | some v => some v
      | none => (m.attrsOf k).lookup key :=
  C05.replace_attrs_final m hk links given k hkeep key

example : exMol.keys.Nodup ∧ 11 ∈ (applyLinks exMol [exRunLink, exDropLink] []).keys := by decide
example : attrWrites 11 (runEvents exMol [exRunLink, exDropLink] []) = [("atomname", .str "A")] := by
  decide
example : ((applyLinks exMol [exRunLink, exDropLink] []).attrsOf 11).lookup "atomname" = some (.str "A")
    ∧ ((applyLinks exMol [exRunLink, exDropLink] []).attrsOf 11).lookup "resid" = some (.int 2) := by
  decide

/-- a `dict.update` operation of the run is the `replace` dictionary (one that does not ask for the
removal of the node) of a node of some link of the log, applied to the image of that node under one of
the placements consumed for that link -/
theorem setAttrs_event_origin (log : List LinkStep) (k : Int) (new : Attrs) :
    Ev.setAttrs k new ∈ logEvents log ↔
      ∃ st ∈ log, ∃ mp ∈ st.ps, ∃ n ∈ st.link.nodes,
        n.replace = some new ∧ removesNode new = false ∧ k = Map.toFun mp n.key :=
  C05.setAttrs_event_origin log k new

/-- every attribute the run writes on a node is an entry of the `replace` dictionary (one that does
not ask for the removal of the node) of a node of a link of the run log, placed on that node by a
placement consumed for that link -/
theorem attrWrites_run_origin (m : Mol) (links : List Link) (given : List (List Map)) (k : Int)
    (kv : String × Val) (h : kv ∈ attrWrites k (runEvents m links given)) :
    ∃ st ∈ runLog (m, []) links given, ∃ mp ∈ st.ps, ∃ n ∈ st.link.nodes, ∃ new,
      n.replace = some new ∧ removesNode new = false ∧ k = Map.toFun mp n.key ∧ kv ∈ new :=
  C05.attrWrites_run_origin m links given k kv h

end C05.Top
