import VermouthProofs.C13_BackmapProofs
import VermouthProofs.C13_MappingProofs
/-!
# C13 — backward-style `.map` files and ITP pragmas: top-level property theorems

Models: `VermouthModel/C13_Backmap.lean` (`read_backmapping_file`, `_read_mapping_partial`,
`make_mapping_object`; weights through `computeWeights`) and the pragma pre-pass of
`VermouthModel/C13_Reader.lean` (`ITPDirector.parse_pragma`).  Proofs and the declarative vocabulary
(`cleanedLines`, `isMolHeader`, `molSegmentsE` = the runs of lines between `[ molecule ]` headers with
the flag "ended by a header", `molOfSegment`, `atomsOf` = the `[ atoms ]` lines of a segment as
(source atom, targets), `pragmaLines`, `keptLine`) are in `VermouthProofs/C13_BackmapProofs.lean`.
-/
namespace C13.Props
open C13 C13.Backmap

/-- **Every declared molecule is read exactly once, in file order**: the molecules read are the images
of an initial run of the `[ molecule ]` segments of the file, every one has a name, and the run is the
whole file unless a segment has no name (the reader stops there: `if name is None: break`). -/
theorem map_molecules_once_in_order (lines : List String) (ms : List Mol) (h : parseMols lines = some ms) :
    ∃ run rest, molSegmentsE (cleanedLines lines) = run ++ rest ∧
      run.map molOfSegment = ms.map some ∧
      (∀ m ∈ ms, m.name.isSome = true) ∧
      (rest = [] ∨ ∃ x r m, rest = x :: r ∧ molOfSegment x = some m ∧ m.name = none) :=
  mols_once_in_order lines ms h

/-- when every segment is named: one molecule per `[ molecule ]` header -/
theorem map_one_molecule_per_header (lines : List String) (ms : List Mol) (h : parseMols lines = some ms)
    (hnamed : ∀ x ∈ molSegmentsE (cleanedLines lines), ∀ m, molOfSegment x = some m → m.name.isSome = true) :
    ms.length = (cleanedLines lines).countP isMolHeader ∧
    (molSegmentsE (cleanedLines lines)).map molOfSegment = ms.map some :=
  mols_length_eq lines ms h hnamed

/-- **with exactly the declared atoms**: the mapping of a molecule is the list of its `[ atoms ]` lines,
in order, with distinct source atoms -/
theorem map_atoms_are_declared (x : List String × Bool) (m : Mol) (h : molOfSegment x = some m) :
    m.mapping = atomsOf x.1 ∧ (m.mapping.map (·.1)).Nodup :=
  ⟨mol_atoms_are_declared h, mol_keys_nodup h⟩

/-- **and exactly the declared weights**: in the mapping object built for a pair of blocks, the entry
(source node, target node) of a target written without `!` is multiplicity / number of non-`!` targets
of the line, and 0 for a target written with `!` (node lookups injective, i.e. distinct atom names). -/
theorem map_entry_weight (fromB toB : Block) (m : Mol) (w : List (String × String × Frac))
    (es : List ((String × String) × Frac))
    (hw : computeWeights m.mapping = some w) (hnd : (m.mapping.map (·.1)).Nodup)
    (h : molEntries fromB toB m w = some es)
    (a t i j : String) (tos : List String) (hm : (a, tos) ∈ m.mapping) (ht : t ∈ tos)
    (hi : nameToIdx fromB a = some i) (hj : nameToIdx toB (stripNull t) = some j)
    (hinjF : ∀ x y k, nameToIdx fromB x = some k → nameToIdx fromB y = some k → x = y)
    (hinjT : ∀ x y k, nameToIdx toB x = some k → nameToIdx toB y = some k → x = y) :
    (isNullTarget t = false →
      (es.find? (fun e => e.1 = (i, j))).map (·.2)
        = some ⟨(nonNull tos).count t, (nonNull tos).length⟩) ∧
    (isNullTarget t = true →
      (es.find? (fun e => e.1 = (i, j))).map (·.2) = some ⟨0, 1⟩) :=
  backmap_weight_formula fromB toB m w es hw hnd h hm ht hi hj hinjF hinjT

/-- every entry of a mapping object comes from a declared (source, target) pair -/
theorem map_entries_sound (fromB toB : Block) (m : Mol) (w : List (String × String × Frac))
    (es : List ((String × String) × Frac)) (h : molEntries fromB toB m w = some es) :
    ∀ x ∈ es, EntrySrc fromB toB m w x := molEntries_sound _ _ _ _ _ h

/-- a line with the same target with and without `!` rejects the whole file (when it is reached) -/
theorem map_conflict_rejected (lib : Library) (lines : List String)
    (run rest : List (List String × Bool)) (x : List String × Bool)
    (hsegs : molSegmentsE (cleanedLines lines) = run ++ x :: rest)
    (hrun : ∀ y ∈ run, ∀ m, molOfSegment y = some m → m.name.isSome = true)
    (a t : String) (tos : List String)
    (hm : (a, tos) ∈ atomsOf x.1) (h1 : t ∈ nonNull tos) (h2 : t ∈ nullTargets tos) :
    parseMols lines = none ∧ readBackmap lib lines = none :=
  readBackmap_none_on_conflict lib lines run rest x hsegs hrun hm h1 h2

/-- a file without a `[ molecule ]` header is rejected -/
example : parseMols ["[ atoms ]", "1 A B"] = none := by decide +kernel

/-! ## ITP pragmas -/

/-- the pragma pre-pass loses and invents no line: what the sections see is the file without its
pragma lines, and it succeeds only if the `#ifdef/#ifndef/#else/#endif` lines are well nested and closed -/
theorem itp_pragmas_consumed_and_balanced (lines : List Line) (out : List (Line × PMeta))
    (h : pragmaPass none lines = some out) :
    out.map (·.1) = lines.filter (fun l => match l with | .content t => !startsWithS t "#" | _ => true) ∧
    (pragmaLines lines).foldlM pragmaStep none = some none :=
  ⟨pragmaPass_lines lines out h, pragmaPass_balanced lines out h⟩

/-- the condition attached to a line is the one left open by the pragma lines above it -/
theorem itp_line_meta (pre : List Line) (l : Line) (post : List Line) (out : List (Line × PMeta))
    (h : pragmaPass none (pre ++ l :: post) = some out) (hk : keptLine l = true) :
    ∃ mk, (pragmaLines pre).foldlM pragmaStep none = some mk ∧
      out[(pre.filter keptLine).length]? = some (l, mk) :=
  pragmaPass_meta pre l post out h hk

/-- `#endif` / `#else` without an open condition and a nested `#ifdef` are errors -/
theorem itp_pragma_errors (m : String × String) :
    pragmaStep none "#endif" = none ∧ pragmaStep none "#else" = none ∧ pragmaStep (some m) "#ifdef X" = none :=
  ⟨pragmaStep_endif_needs_open, pragmaStep_else_needs_open, pragmaStep_nested_rejected m⟩

end C13.Props

/-! ## New-style `.mapping` files (`MappingDirector` + `MappingBuilder`, `read_mapping_file`)
Model: `VermouthModel/C13_Mapping.lean`; proofs: `VermouthProofs/C13_MappingProofs.lean`. -/
namespace C13.Props
open C13 C13.Mapping

/-- **Every declared mapping is emitted exactly once, in file order**: the mappings `readMapping` returns
are the `mapSpec` of the (comment-stripped, macro-expanded) file - one per ended `[ block ]` /
`[ modification ]` section - and their number is the number of such headers. -/
theorem mapping_file_once_in_order (lib : Lib) (raw : List String) (es : List Emitted)
    (h : readMapping lib raw = some es) :
    (∃ lines lines' s, classify raw = some lines ∧ expandMacros mapT [] [] lines = some lines' ∧
      mapRun (mparams lib) lines' = some s ∧
      s.out = mapSpec (mparams lib) [] (0, {}) 0 lines' ∧
      es = emitAll lines' s ∧ es.length = (mapSpec (mparams lib) [] (0, {}) 0 lines').length) ∧
    (∃ lines lines', classify raw = some lines ∧ expandMacros mapT [] [] lines = some lines' ∧
      es.length = kindHeaders lines') :=
  ⟨mapping_emitted_once_in_order lib raw es h, mapping_count_eq_kind_headers lib raw es h⟩

/-- **with exactly the declared atoms and weights**: a `[ mapping ]` line `from to [w]` whose atoms
resolve to the unique nodes `i`, `j` sets entry (i, j) to `w` (1 when absent) and changes nothing else -/
theorem mapping_file_line_spec (c : MCtx) (line f t : String) (rest : List String) (w : Int)
    (af ato : Attrs) (cf ct : Option Attrs) (i j : Nat)
    (hs : splitWs line = f :: t :: rest) (hw : weightOf rest = some w)
    (hf : resolve c.ids c.curFrom .frm f = some (af, cf))
    (ht : resolve c.ids c.curTo .to t = some (ato, ct))
    (hi : findAtoms c.molFrom af = [i]) (hj : findAtoms c.molTo ato = [j]) :
    ∃ c', mappingLine line c = some c' ∧ getW c'.mapping i j = some w ∧
      (∀ i' j', (i', j') ≠ (i, j) → getW c'.mapping i' j' = getW c.mapping i' j') ∧
      c'.molFrom = c.molFrom ∧ c'.molTo = c.molTo ∧ c'.ids = c.ids ∧ c'.names = c.names ∧
      c'.refs = c.refs ∧ c'.ffFrom = c.ffFrom ∧ c'.ffTo = c.ffTo :=
  mapping_line_spec c line f t rest w af ato cf ct i j hs hw hf ht hi hj

/-- an atom that resolves to no node or to several nodes is an error -/
theorem mapping_file_ambiguous_atom_rejected (c : MCtx) (line f t : String) (rest : List String)
    (af ato : Attrs) (cf ct : Option Attrs)
    (hs : splitWs line = f :: t :: rest)
    (hf : resolve c.ids c.curFrom .frm f = some (af, cf))
    (ht : resolve c.ids c.curTo .to t = some (ato, ct))
    (h : (findAtoms c.molFrom af).length ≠ 1 ∨ (findAtoms c.molTo ato).length ≠ 1) :
    mappingLine line c = none :=
  mapping_line_error c line f t rest af ato cf ct hs hf ht h

/-- the entries of each emitted mapping are the in-order fold (last wins) of its own `[ mapping ]` lines -/
theorem mapping_file_entries_are_declared (lib : Lib) (raw : List String) (es : List Emitted)
    (h : readMapping lib raw = some es) :
    ∃ lines lines', classify raw = some lines ∧ expandMacros mapT [] [] lines = some lines' ∧
      es.map (·.mapping) =
        (mapSpec (bodyP mapT) [] (0, []) 0 lines').map
          (fun b => (triplesFrom lib {} b.2).foldl applyT []) :=
  mapping_entries_fold lib raw es h

end C13.Props
