import VermouthProofs.C03_Hist
import VermouthProps.C03
/-!
# C03 — histories over molecule OBJECTS

The name of a molecule type is stored on the molecule object.  `VermouthModel/C03_Hist.lean` models
the objects as a heap; a system is a list of object indices (an object may occur twice, and in
several systems).  Results:

* `kth_record_agree_of_sound`: the k-th record property needs of the names only that they are SOUND
  (two molecules of the system carrying the same name are written identically) - whoever assigned
  them (NameMolType, SetMoleculeMeta, by hand);
* `fresh_naming_sound`: `NameMolType` on a list of molecules is sound;
* `name_then_write_sound`: in ANY heap state (whatever was named or written before, with whatever
  processor), naming a system and then writing it reads sound names - also when the system lists
  the same object several times, also with `deduplicate=False` (where the second listing of an
  object overwrites the name given at the first);
* the boundary: naming ANOTHER system that shares an object in between invalidates the names of
  the first (witness by evaluation; observed on the real code, see the manifest).
-/
namespace C03

/-- names are sound for `W`: equal names ⇒ equal written atoms -/
def Sound {α β} (W : Mol → List β) (names : List α) (sys : List Mol) : Prop :=
  ∀ (p q : Nat) (n : α) (mp mq : Mol), names[p]? = some n → names[q]? = some n →
    sys[p]? = some mp → sys[q]? = some mq → W mp = W mq

/-- **k-th record agreement from sound names alone.**  `names` = whatever the molecules carry when
`write_gmx_topology` is called.  The ITP of name `g` is written from the first molecule carrying `g`
(`itpWrites`); every molecule carrying `g` is written like that one. -/
theorem kth_record_agree_of_sound {α β} [DecidableEq α] (W : Mol → List β) (names : List α) (sys : List Mol)
    (hlen : names.length = sys.length) (hs : Sound W names sys)
    (i : Nat) (m : Mol) (g : α) (src : Nat)
    (hm : sys[i]? = some m) (hg : names[i]? = some g) (hsrc : (g, src) ∈ itpWrites names) :
    ∃ r, sys[src]? = some r ∧ ∀ k : Nat, (W m)[k]? = (W r)[k]? := by
  obtain ⟨hgn, hidx⟩ := (itpSource_first names g src).mp hsrc
  obtain ⟨h1, _⟩ := idxOf_spec names g hgn
  rw [← hidx] at h1
  have hlt : src < sys.length := by
    rw [← hlen]; exact (List.getElem?_eq_some_iff.mp h1).1
  refine ⟨sys[src], List.getElem?_eq_getElem hlt, fun k => ?_⟩
  rw [hs i src g m sys[src] hg h1 hm (List.getElem?_eq_getElem hlt)]

/-- **`NameMolType` assigns sound names** (for every writer `W` that does not distinguish molecules
that `share_moltype_with` identifies) -/
theorem fresh_naming_sound {β} (shares : Mol → Mol → Bool) (W : Mol → List β) (dedup : Bool) (sys : List Mol)
    (hw : ∀ a ∈ sys, ∀ b ∈ sys, shares a b = true → W a = W b) (hhead : HeadRefl shares sys) :
    Sound W (nameMolTypes shares dedup sys) sys := by
  intro p q n mp mq hp hq hmp hmq
  obtain ⟨r, hr, h1⟩ := shared_name_share shares dedup sys hhead p mp n hmp hp
  obtain ⟨r', hr', h2⟩ := shared_name_share shares dedup sys hhead q mq n hmq hq
  rw [hr] at hr'
  cases hr'
  have hrm := List.mem_of_getElem? hr
  have e1 : W mp = W r := by
    rcases h1 with rfl | ⟨_, hs⟩
    · rfl
    · exact hw mp (List.mem_of_getElem? hmp) r hrm hs
  have e2 : W mq = W r := by
    rcases h2 with rfl | ⟨_, hs⟩
    · rfl
    · exact hw mq (List.mem_of_getElem? hmq) r hrm hs
  rw [e1, e2]

theorem molsOf_get (h : Heap) (sys : List Nat) (p o : Nat) (hp : sys[p]? = some o) :
    (molsOf h sys)[p]? = some (h.mols.getD o default) := by
  simp [molsOf, List.getElem?_map, hp]

/-- **name, then write: sound in every heap state.**  `h` is arbitrary (any earlier naming, by any
processor, of any systems); `sys` may list an object several times. -/
theorem name_then_write_sound {β} (shares : Mol → Mol → Bool) (W : Mol → List β) (dedup : Bool) (mn : Nat)
    (h : Heap) (sys : List Nat) (hvalid : ∀ o ∈ sys, o < h.names.length)
    (hw : ∀ a ∈ molsOf h sys, ∀ b ∈ molsOf h sys, shares a b = true → W a = W b)
    (hhead : HeadRefl shares (molsOf h sys)) :
    ∃ ns, readNames (nameEv shares h dedup mn sys) sys = some ns ∧ ns.length = (molsOf h sys).length ∧
      Sound W ns (molsOf (nameEv shares h dedup mn sys) sys) := by
  have hlenIds : (nameMolTypes shares dedup (molsOf h sys)).length = sys.length := by
    rw [names_length]; simp [molsOf]
  -- every object of the system carries a value assigned at some position that holds this object
  have hstored : ∀ o ∈ sys, ∃ (q : Nat) (g : Nat), sys[q]? = some o ∧ (nameMolTypes shares dedup (molsOf h sys))[q]? = some g ∧
      (nameEv shares h dedup mn sys).names.getD o none = some (mn, g) := by
    intro o ho
    have hin : o ∈ (sys.zip ((nameMolTypes shares dedup (molsOf h sys)).map fun i => (mn, i))).map (·.1) := by
      rw [List.map_fst_zip (by simp [hlenIds])]
      exact ho
    obtain ⟨v, hv, he⟩ := assign_some h.names _ o hin (hvalid o ho)
    obtain ⟨q, hq1, hq2⟩ := mem_zip_get _ _ _ _ hv
    rw [List.getElem?_map] at hq2
    cases hg : (nameMolTypes shares dedup (molsOf h sys))[q]? with
    | none => rw [hg] at hq2; cases hq2
    | some g =>
      rw [hg] at hq2
      simp only [Option.map_some, Option.some.injEq] at hq2
      refine ⟨q, g, hq1, hg, ?_⟩
      simp only [nameEv, List.getD_eq_getElem?_getD, he, Option.getD_some, hq2]
  obtain ⟨ns, h1, h2, h3⟩ := mapM_option_some (fun o => (nameEv shares h dedup mn sys).names.getD o none) sys
    (fun o ho => by obtain ⟨q, g, _, _, e⟩ := hstored o ho; exact ⟨_, e⟩)
  refine ⟨ns, h1, by simp [h2, molsOf], ?_⟩
  have hfresh := fresh_naming_sound shares W dedup (molsOf h sys) hw hhead
  intro p q n mp mq hp hq hmp hmq
  have hmols : molsOf (nameEv shares h dedup mn sys) sys = molsOf h sys := rfl
  rw [hmols] at hmp hmq
  -- the objects at the two positions
  have hpo : ∃ o, sys[p]? = some o := by
    have : p < sys.length := by rw [← h2]; exact (List.getElem?_eq_some_iff.mp hp).1
    exact ⟨_, List.getElem?_eq_getElem this⟩
  have hqo : ∃ o, sys[q]? = some o := by
    have : q < sys.length := by rw [← h2]; exact (List.getElem?_eq_some_iff.mp hq).1
    exact ⟨_, List.getElem?_eq_getElem this⟩
  obtain ⟨op, hop⟩ := hpo
  obtain ⟨oq, hoq⟩ := hqo
  obtain ⟨y1, hy1, hf1⟩ := h3 p op hop
  obtain ⟨y2, hy2, hf2⟩ := h3 q oq hoq
  obtain ⟨p', g1, hp'1, hp'2, hp'3⟩ := hstored op (List.mem_of_getElem? hop)
  obtain ⟨q', g2, hq'1, hq'2, hq'3⟩ := hstored oq (List.mem_of_getElem? hoq)
  rw [hp] at hy1; cases hy1
  rw [hq] at hy2; cases hy2
  rw [hp'3] at hf1
  rw [hq'3] at hf2
  have hg : g1 = g2 := by
    have e1 : n = (mn, g1) := (Option.some.inj hf1).symm
    have e2 : n = (mn, g2) := (Option.some.inj hf2).symm
    have := e1.symm.trans e2
    exact (Prod.mk.inj this).2
  subst hg
  -- the molecules at p and p' (q and q') are the same object
  have e1 : mp = h.mols.getD op default := by
    rw [molsOf_get h sys p op hop] at hmp; exact (Option.some.inj hmp).symm
  have e2 : mq = h.mols.getD oq default := by
    rw [molsOf_get h sys q oq hoq] at hmq; exact (Option.some.inj hmq).symm
  rw [e1, e2]
  exact hfresh p' q' g1 _ _ hp'2 hq'2 (molsOf_get h sys p' op hp'1) (molsOf_get h sys q' oq hq'1)

/-- hence: in any heap state, after `NameMolType(...).run_system(sys)` the files written for `sys`
satisfy the k-th record property (objects listed twice and `deduplicate=False` included) -/
theorem name_then_write_kth_record {β} (shares : Mol → Mol → Bool) (W : Mol → List β) (dedup : Bool) (mn : Nat)
    (h : Heap) (sys : List Nat) (hvalid : ∀ o ∈ sys, o < h.names.length)
    (hw : ∀ a ∈ molsOf h sys, ∀ b ∈ molsOf h sys, shares a b = true → W a = W b)
    (hhead : HeadRefl shares (molsOf h sys)) :
    ∃ ns, readNames (nameEv shares h dedup mn sys) sys = some ns ∧
      ∀ (i : Nat) (m : Mol) (g : MName) (src : Nat), (molsOf h sys)[i]? = some m → ns[i]? = some g →
        (g, src) ∈ itpWrites ns → ∃ r, (molsOf h sys)[src]? = some r ∧ ∀ k : Nat, (W m)[k]? = (W r)[k]? := by
  obtain ⟨ns, h1, h2, h3⟩ := name_then_write_sound shares W dedup mn h sys hvalid hw hhead
  exact ⟨ns, h1, fun i m g src hm hg hsrc =>
    kth_record_agree_of_sound W ns (molsOf h sys) h2 h3 i m g src hm hg hsrc⟩

/-! ## non-vacuity and the boundary -/

section examples

private def hAtom (name : String) : Atom :=
  { key := 0, attrs := [("atomname", Val.str name), ("resid", Val.int 1), ("resname", Val.str "ALA")] }
private def hMol (name : String) : Mol :=
  { nrexcl := some 1, ff := none, metadata := [], edges := [], inters := [], nodes := [hAtom name] }

/-- objects 0 (type A), 1 (type B), 2 (type C), nothing named yet -/
private def heap0 : Heap := { mols := [hMol "A", hMol "B", hMol "C"], names := [none, none, none] }

/-- the same object listed twice, `deduplicate=False`: the ids handed out are 0, 1, 2 but object 0
keeps the last one; the system reads 2, 1, 2 - sound -/
example : readNames (nameEv (shareMolType npClose) heap0 false 0 [0, 1, 0]) [0, 1, 0] = some [(0, 2), (0, 1), (0, 2)] := by
  decide

/-- a system written twice with a rename in between: each write reads the names of the naming
that precedes it -/
example :
    let h1 := nameEv (shareMolType npClose) heap0 true 0 [0, 1, 0]
    let h2 := nameEv (shareMolType npClose) h1 false 1 [0, 1, 0]
    readNames h1 [0, 1, 0] = some [(0, 0), (0, 1), (0, 0)] ∧ readNames h2 [0, 1, 0] = some [(1, 2), (1, 1), (1, 2)] := by
  decide

/-- **the boundary** (systems sharing a molecule object): system S = [0, 1] is named, then system
T = [2, 0] is named (object 0 is renamed `_1`), then S is written: both molecules of S now read
`_1`, ONE molecule type with count 2 and the ITP of object 0 - but object 1 is another molecule.
A molecule never named at all is a KeyError. -/
example :
    readNames (nameEv (shareMolType npClose) (nameEv (shareMolType npClose) heap0 true 0 [0, 1]) true 0 [2, 0]) [0, 1]
      = some [(0, 1), (0, 1)]
    ∧ ¬ Sound writeAtoms [(0, 1), (0, 1)] (molsOf heap0 [0, 1])
    ∧ readNames heap0 [0] = none := by
  refine ⟨by decide, ?_, by decide⟩
  intro hs
  have := hs 0 1 (0, 1) (hMol "A") (hMol "B") rfl rfl rfl rfl
  revert this
  decide

end examples

end C03
