import VermouthProofs.C18
namespace C18
theorem placeholder : True := trivial
end C18
