import VermouthProofs.C18
import VermouthProofs.C18_Select
import VermouthProofs.C18_Pipeline
import VermouthProofs.C18_NoAbort
/-!
# C18 — Go-model sites and contacts mirror the backbone and the contact map

Property theorems about `C18.addVirtualSites` (model of
`VirtualSiteCreator.add_virtual_sites`) and `C18.selectContacts` (model of
`ComputeStructuralGoBias.contact_selector` / `compute_go_interaction`).
Helper lemmas live in `VermouthProofs/C18*.lean`.

Vocabulary:
* `backboneAtoms bb atoms` : the backbone particles, in node order;
* `Eligible P rs E c x`    : line `c` of the contact map names two residues that are present,
  further apart than the separation (`¬ Within E sep ia ib`), whose backbone distance lies strictly
  inside the window, and `x` records their Go types, squared distance and backbone keys;
* `Within E k a b`         : `b` is reachable from `a` in at most `k` edges of the residue graph;
* `TypeDeterminesKey`      : different (chain, input resid) never resolve to the same Go type name.
-/
namespace C18

def backboneAtoms (bb : String) (atoms : List Atom) : List Atom := atoms.filter (fun a => a.atomname = bb)

/-! ## virtual sites -/

/-- the i-th site is built from the i-th backbone particle, with key `max + 1 + i`
and charge group `max charge group + 1 + i` -/
theorem vs_closed_form (pre bb vsn : String) (atoms : List Atom) (i : Nat) :
    (addVirtualSites pre bb vsn atoms)[i]? =
      (backboneAtoms bb atoms)[i]?.map
        (fun a => mkVS pre vsn a (maxInts (atoms.map (·.key)) + 1 + i) (startCg atoms + 1 + i)) := by
  unfold addVirtualSites backboneAtoms
  rw [vsLoop_eq_sites, sites_getElem?]

/-- exactly one virtual site per backbone particle -/
theorem vs_count (pre bb vsn : String) (atoms : List Atom) :
    (addVirtualSites pre bb vsn atoms).length = (backboneAtoms bb atoms).length := by
  unfold addVirtualSites backboneAtoms
  rw [vsLoop_eq_sites, sites_length]

/-- ... constructed from that particle, in the same order: the constructing atoms of the sites are
exactly the backbone particles (so with distinct node keys each backbone particle has exactly one site) -/
theorem vs_one_per_backbone (pre bb vsn : String) (atoms : List Atom) :
    (addVirtualSites pre bb vsn atoms).map (·.bb) = (backboneAtoms bb atoms).map (·.key) := by
  unfold addVirtualSites backboneAtoms
  rw [vsLoop_eq_sites, sites_map_bb]

/-- the `virtual_sitesn` interactions are `[site, backbone]`, one per site -/
theorem vs_interactions (pre bb vsn : String) (atoms : List Atom) :
    (vsInteractions (addVirtualSites pre bb vsn atoms)).map (·.2) = (backboneAtoms bb atoms).map (·.key)
    ∧ (vsInteractions (addVirtualSites pre bb vsn atoms)).map (·.1)
        = (addVirtualSites pre bb vsn atoms).map (·.key) := by
  constructor
  · rw [← vs_one_per_backbone pre bb vsn atoms]; simp [vsInteractions]
  · simp [vsInteractions]

/-- every site key is larger than every existing key, and the sites are appended to the node table -/
theorem vs_after_all (pre bb vsn : String) (atoms : List Atom) :
    (∀ v ∈ addVirtualSites pre bb vsn atoms, ∀ a ∈ atoms, a.key < v.key)
    ∧ (withSites atoms (addVirtualSites pre bb vsn atoms)).take atoms.length = atoms
    ∧ (withSites atoms (addVirtualSites pre bb vsn atoms)).drop atoms.length
        = (addVirtualSites pre bb vsn atoms).map VSite.toAtom := by
  refine ⟨?_, by simp [withSites], by simp [withSites]⟩
  intro v hv a ha
  unfold addVirtualSites at hv
  rw [vsLoop_eq_sites] at hv
  obtain ⟨i, b, _, rfl⟩ := mem_sites _ _ _ _ _ _ hv
  have := le_maxInts (atoms.map (·.key)) a.key (List.mem_map.mpr ⟨a, ha, rfl⟩)
  simp only [mkVS]
  omega

/-- site keys are consecutive, hence pairwise distinct -/
theorem vs_keys_consecutive (pre bb vsn : String) (atoms : List Atom) :
    (addVirtualSites pre bb vsn atoms).map (·.key)
      = (List.range (backboneAtoms bb atoms).length).map (fun (i : Nat) => maxInts (atoms.map (·.key)) + 1 + (i : Int)) := by
  apply List.ext_getElem?
  intro i
  rw [List.getElem?_map, vs_closed_form, List.getElem?_map]
  by_cases h : i < (backboneAtoms bb atoms).length
  · simp [List.getElem?_range h, List.getElem?_eq_getElem h, mkVS]
  · have h' : (backboneAtoms bb atoms).length ≤ i := Nat.le_of_not_lt h
    simp [List.getElem?_eq_none h', List.getElem?_eq_none (show (List.range _).length ≤ i by simpa using h')]

/-- each site copies residue identity, position and secondary structure of its backbone particle,
has zero mass and charge, the requested atom name and the type `<prefix>_<resid>` -/
theorem vs_attributes (pre bb vsn : String) (atoms : List Atom) (v : VSite)
    (hv : v ∈ addVirtualSites pre bb vsn atoms) :
    ∃ a ∈ atoms, a.atomname = bb ∧ v.bb = a.key ∧ v.resid = a.resid ∧ v.oldResid = a.oldResid
      ∧ v.resname = a.resname ∧ v.chain = a.chain ∧ v.pos = a.pos ∧ v.ss = a.ss
      ∧ v.mass = 0 ∧ v.charge = 0 ∧ v.atomname = vsn ∧ v.atype = pre ++ "_" ++ Int.repr a.resid := by
  unfold addVirtualSites at hv
  rw [vsLoop_eq_sites] at hv
  obtain ⟨i, a, hi, rfl⟩ := mem_sites _ _ _ _ _ _ hv
  have hm : a ∈ atoms.filter (fun a => a.atomname = bb) := List.mem_of_getElem? hi
  rw [List.mem_filter] at hm
  exact ⟨a, hm.1, by simpa using hm.2, rfl, rfl, rfl, rfl, rfl, rfl, rfl, rfl, rfl, rfl, rfl⟩

/-- charge groups continue after the largest existing one -/
theorem vs_charge_groups (pre bb vsn : String) (atoms : List Atom) :
    (addVirtualSites pre bb vsn atoms).map (·.cg)
      = (List.range (backboneAtoms bb atoms).length).map (fun (i : Nat) => startCg atoms + 1 + (i : Int))
    ∧ ∀ v ∈ addVirtualSites pre bb vsn atoms, ∀ a ∈ atoms, ∀ g, a.cg = some g → g < v.cg := by
  constructor
  · apply List.ext_getElem?
    intro i
    rw [List.getElem?_map, vs_closed_form, List.getElem?_map]
    by_cases h : i < (backboneAtoms bb atoms).length
    · simp [List.getElem?_range h, List.getElem?_eq_getElem h, mkVS]
    · have h' : (backboneAtoms bb atoms).length ≤ i := Nat.le_of_not_lt h
      simp [List.getElem?_eq_none h', List.getElem?_eq_none (show (List.range _).length ≤ i by simpa using h')]
  · intro v hv a ha g hg
    unfold addVirtualSites at hv
    rw [vsLoop_eq_sites] at hv
    obtain ⟨i, b, _, rfl⟩ := mem_sites _ _ _ _ _ _ hv
    have hmem : g ∈ atoms.filterMap (·.cg) := List.mem_filterMap.mpr ⟨a, ha, hg⟩
    have hne : (atoms.filterMap (·.cg)).isEmpty = false := by
      cases hl : atoms.filterMap (·.cg) with
      | nil => rw [hl] at hmem; cases hmem
      | cons _ _ => rfl
    have := le_maxInts _ g hmem
    simp only [mkVS, startCg, hne]
    simp only [Bool.false_eq_true, if_false]
    omega

/-- two sites have the same type name exactly when their residues have the same number -/
theorem vs_type_eq_iff (pre bb vsn : String) (atoms : List Atom) (v w : VSite)
    (hv : v ∈ addVirtualSites pre bb vsn atoms) (hw : w ∈ addVirtualSites pre bb vsn atoms) :
    v.atype = w.atype ↔ v.resid = w.resid := by
  unfold addVirtualSites at hv hw
  rw [vsLoop_eq_sites] at hv hw
  obtain ⟨i, a, _, rfl⟩ := mem_sites _ _ _ _ _ _ hv
  obtain ⟨j, b, _, rfl⟩ := mem_sites _ _ _ _ _ _ hw
  simp only [mkVS]
  exact ⟨goType_inj pre _ _, fun h => by rw [h]⟩

/-- the type names are unique when the backbone particles have distinct residue numbers -/
theorem vs_type_unique (pre bb vsn : String) (atoms : List Atom)
    (h : ((backboneAtoms bb atoms).map (·.resid)).Nodup) :
    ((addVirtualSites pre bb vsn atoms).map (·.atype)).Nodup := by
  unfold addVirtualSites
  rw [vsLoop_eq_sites, sites_map_atype]
  have := nodup_map_goType pre _ h
  simpa [backboneAtoms, List.map_map, Function.comp_def] using this

/-! ## Go pairs

`rs`, `E` are the residues and residue-graph edges of the molecule; in `selectContacts` they are
`residuesOf atoms` and `resEdges rs edges` (see `selectContacts_eq`). -/

theorem selectContacts_eq (P : Params) (atoms : List Atom) (edges : List (Int × Int)) (contacts : List Contact) :
    selectContacts P atoms edges contacts =
      runLoop (contacts.map (classify P (residuesOf atoms) (resEdges (residuesOf atoms) edges)))
        { cm := [], out := [] } := rfl

/-- **Eligibility** is what `classify` decides for one line, and it reads: both residues found by
(chain, input resid), not within `sep` edges of each other, both with a backbone particle, squared
distance strictly inside the window, Go types found.  (By definition of `Eligible`.) -/
theorem go_eligible_iff (P : Params) (rs : List Residue) (E : List (Nat × Nat)) (c : Contact) (x : Cand) :
    classify P rs E c = .cand x ↔
    ∃ (ia ib : Nat) (ra rb : Residue) (a b : Atom),
      findRes rs c.chainA c.residA = some ia ∧ findRes rs c.chainB c.residB = some ib ∧
      ¬ Within E P.sep.toNat ia ib ∧
      rs[ia]? = some ra ∧ rs[ib]? = some rb ∧
      firstBB ra P.backbone = some a ∧ firstBB rb P.backbone = some b ∧
      P.low.below (dist2 a.pos b.pos) = true ∧ P.up.above (dist2 a.pos b.pos) = true ∧
      firstType ra P.pre c.chainA c.residA = some x.ta ∧ firstType rb P.pre c.chainB c.residB = some x.tb ∧
      x.d2 = dist2 a.pos b.pos ∧ x.bbA = a.key ∧ x.bbB = b.key :=
  classify_cand_iff P rs E c x

/-- eligibility does not depend on the direction in which the contact is listed -/
theorem go_eligible_symm (P : Params) (rs : List Residue) (E : List (Nat × Nat)) (c : Contact) (x : Cand) :
    Eligible P rs E c.swap x.swap ↔ Eligible P rs E c x := eligible_swap_iff

/-- residue lookup: with unambiguous (chain, input resid) keys, the residue found is the one carrying the key -/
theorem go_lookup_iff (rs : List Residue) (hk : KeysDistinct rs) (chain : String) (resid : Int) (i : Nat) :
    findRes rs chain resid = some i ↔ ∃ r, rs[i]? = some r ∧ r.chain = chain ∧ r.old = some resid :=
  findRes_iff rs hk chain resid i

/-- bounded BFS = "reachable along at most `k` edges of the residue graph" -/
theorem go_graph_distance (E : List (Nat × Nat)) (s k x : Nat) :
    (ball E s k).contains x = true ↔ Within E k s x := by
  simp [mem_ball]

/-- the window test on squares is the strict comparison of the distance with the rational cut-offs:
`p/q < sqrt d2` iff `p < 0 ∨ p² < d2·q²`, and `sqrt d2 < p/q` iff `0 < p ∧ d2·q² < p²` -/
theorem go_window (c : Cut) (d2 : Nat) :
    (c.below d2 = true ↔ (c.p < 0 ∨ c.p * c.p < (d2 : Int) * c.q * c.q))
    ∧ (c.above d2 = true ↔ (0 < c.p ∧ (d2 : Int) * c.q * c.q < c.p * c.p)) := by
  simp [Cut.below, Cut.above]

section loop
variable (P : Params) (rs : List Residue) (E : List (Nat × Nat)) (contacts : List Contact) (out : List Cand)

/-- **A Go pair is emitted for a pair of residues iff the contact is listed in both directions and is
eligible** (no repeated lines; type names determine residue keys). `y ∈ out ∨ y.swap ∈ out`: the
pair is emitted in one of the two orientations. -/
theorem go_pair_iff
    (hok : runLoop (contacts.map (classify P rs E)) { cm := [], out := [] } = .ok out)
    (hnd : contacts.Nodup) (htk : TypeDeterminesKey P rs) (y : Cand) :
    (y ∈ out ∨ y.swap ∈ out) ↔ ∃ c ∈ contacts, c.swap ∈ contacts ∧ Eligible P rs E c y := by
  have hna := runLoop_ok_noAbort _ _ _ hok
  rw [runLoop_ok _ _ hna] at hok
  have hout : out = ((candsOf (contacts.map (classify P rs E))).foldl step { cm := [], out := [] }).out :=
    (Outcome.ok.inj hok).symm
  have I := inv_emitted _ (cands_nodup (E := E) htk contacts hnd)
  generalize hS : (candsOf (contacts.map (classify P rs E))).foldl step { cm := [], out := [] } = S at hout I
  clear hok hS
  subst hout
  have fwd : ∀ z, z ∈ S.out → ∃ c ∈ contacts, c.swap ∈ contacts ∧ Eligible P rs E c z := by
    intro z hz
    obtain ⟨hzc, hzs⟩ := I.out_sub z hz
    obtain ⟨c, hc, hel⟩ := (mem_candsOf_classify P rs E contacts z).mp hzc
    obtain ⟨z', hz', hzt⟩ := List.mem_map.mp (I.cm_sub _ hzs)
    obtain ⟨c', hc', hel'⟩ := (mem_candsOf_classify P rs E contacts z').mp hz'
    have h1 : z'.ta = z.swap.ta := congrArg Prod.fst hzt
    have h2 : z'.tb = z.swap.tb := congrArg (fun t => t.2.1) hzt
    have := same_triple_same_contact htk hel' (eligible_swap hel) h1 h2
    subst this
    exact ⟨c, hc, hc', hel⟩
  constructor
  · rintro (h | h)
    · exact fwd y h
    · obtain ⟨c, hc, hcs, hel⟩ := fwd _ h
      exact ⟨c.swap, hcs, by simpa [Contact.swap_swap] using hc, by simpa [Cand.swap_swap] using eligible_swap hel⟩
  · rintro ⟨c, hc, hcs, hel⟩
    have hy : y ∈ candsOf (contacts.map (classify P rs E)) :=
      (mem_candsOf_classify P rs E contacts y).mpr ⟨c, hc, hel⟩
    have hys : y.swap ∈ candsOf (contacts.map (classify P rs E)) :=
      (mem_candsOf_classify P rs E contacts y.swap).mpr ⟨c.swap, hcs, eligible_swap hel⟩
    rcases I.cover y hy with h1 | h1
    · rcases I.cover y.swap hys with h2 | h2
      · exfalso
        have hne : y.triple ≠ swapT y.triple := by
          intro he
          exact eligible_types_ne htk hel (congrArg Prod.fst he)
        exact I.asym _ h1 hne (by simpa [Cand.swap_triple] using h2)
      · exact Or.inr h2
    · exact Or.inl h1

/-- **... and exactly once**: no type triple is emitted twice, and never in both orientations -/
theorem go_pair_once
    (hok : runLoop (contacts.map (classify P rs E)) { cm := [], out := [] } = .ok out)
    (hnd : contacts.Nodup) (htk : TypeDeterminesKey P rs) :
    (out.map Cand.triple).Nodup ∧ ∀ y ∈ out, y.swap ∉ out := by
  have hna := runLoop_ok_noAbort _ _ _ hok
  rw [runLoop_ok _ _ hna] at hok
  have hout : out = ((candsOf (contacts.map (classify P rs E))).foldl step { cm := [], out := [] }).out :=
    (Outcome.ok.inj hok).symm
  have hcn := cands_nodup (E := E) htk contacts hnd
  have I := inv_emitted _ hcn
  generalize hS : (candsOf (contacts.map (classify P rs E))).foldl step { cm := [], out := [] } = S at hout I
  clear hok hS
  subst hout
  constructor
  · exact List.Nodup.sublist (List.Sublist.map _ I.out_sublist) hcn
  · intro y hy hys
    have h1 := (I.out_sub y hy).2
    have h2 := I.out_not_cm _ hys
    exact h2 (by simpa [Cand.swap_triple, Cand.swapped_eq] using h1)

/-- every emitted pair comes from an eligible line (no hypothesis on repetitions or names) -/
theorem go_pair_sound
    (hok : runLoop (contacts.map (classify P rs E)) { cm := [], out := [] } = .ok out) (y : Cand) (hy : y ∈ out) :
    (∃ c ∈ contacts, Eligible P rs E c y) ∧
    (∃ c' ∈ contacts, ∃ y', Eligible P rs E c' y' ∧ y'.triple = swapT y.triple) := by
  have hna := runLoop_ok_noAbort _ _ _ hok
  rw [runLoop_ok _ _ hna] at hok
  have hout : out = ((candsOf (contacts.map (classify P rs E))).foldl step { cm := [], out := [] }).out :=
    (Outcome.ok.inj hok).symm
  -- the first four invariants do not need the absence of repetitions
  have key : ∀ (l' l : List Cand) (s : LoopState),
      (∀ t ∈ s.cm, t ∈ l.map Cand.triple) → (∀ c ∈ s.out, c ∈ l ∧ c.swapped ∈ l.map Cand.triple) →
      (∀ t ∈ (l'.foldl step s).cm, t ∈ (l ++ l').map Cand.triple) ∧
      (∀ c ∈ (l'.foldl step s).out, c ∈ l ++ l' ∧ c.swapped ∈ (l ++ l').map Cand.triple) := by
    intro l'
    induction l' with
    | nil => intro l s h1 h2; simp only [List.foldl_nil, List.append_nil]; exact ⟨h1, h2⟩
    | cons c r ih =>
      intro l s h1 h2
      have e : l ++ c :: r = (l ++ [c]) ++ r := by simp
      rw [e]
      simp only [List.foldl_cons]
      apply ih
      · intro t ht
        unfold step at ht
        split at ht
        · have := h1 t ht
          simp only [List.map_append, List.mem_append]; exact Or.inl this
        · simp only [List.mem_append, List.mem_singleton] at ht
          simp only [List.map_append, List.mem_append]
          rcases ht with ht | ht
          · exact Or.inl (h1 t ht)
          · subst ht; exact Or.inr (by simp)
      · intro x hx
        unfold step at hx
        split at hx
        · rename_i hcm
          simp only [List.mem_append, List.mem_singleton] at hx
          simp only [List.map_append, List.mem_append]
          rcases hx with hx | hx
          · exact ⟨Or.inl (h2 x hx).1, Or.inl (h2 x hx).2⟩
          · subst hx
            have : x.swapped ∈ s.cm := by simpa using hcm
            exact ⟨Or.inr (by simp), Or.inl (h1 _ this)⟩
        · simp only [List.map_append, List.mem_append]
          exact ⟨Or.inl (h2 x hx).1, Or.inl (h2 x hx).2⟩
  have := key (candsOf (contacts.map (classify P rs E))) [] { cm := [], out := [] } (by simp) (by simp)
  simp only [List.nil_append] at this
  rw [hout] at hy
  obtain ⟨hm, hs⟩ := this.2 y hy
  constructor
  · exact (mem_candsOf_classify P rs E contacts y).mp hm
  · obtain ⟨y', hy', ht⟩ := List.mem_map.mp hs
    obtain ⟨c', hc', hel'⟩ := (mem_candsOf_classify P rs E contacts y').mp hy'
    exact ⟨c', hc', y', hel', ht⟩

/-- **exclusions**: the two backbone particles `a`, `b` are excluded from each other iff a Go pair is
emitted for their residues; exclusions and Go pairs are emitted together, in the same order -/
theorem exclusion_iff
    (hok : runLoop (contacts.map (classify P rs E)) { cm := [], out := [] } = .ok out)
    (hnd : contacts.Nodup) (htk : TypeDeterminesKey P rs) (a b : Int) :
    ((a, b) ∈ exclusionsOf out ∨ (b, a) ∈ exclusionsOf out) ↔
      ∃ c ∈ contacts, c.swap ∈ contacts ∧ ∃ y, Eligible P rs E c y ∧ y.bbA = a ∧ y.bbB = b := by
  have G := go_pair_iff P rs E contacts out hok hnd htk
  constructor
  · rintro (h | h)
    · obtain ⟨y, hy, he⟩ := List.mem_map.mp h
      obtain ⟨c, hc, hcs, hel⟩ := (G y).mp (Or.inl hy)
      have e1 : y.bbA = a := congrArg Prod.fst he
      have e2 : y.bbB = b := congrArg Prod.snd he
      exact ⟨c, hc, hcs, y, hel, e1, e2⟩
    · obtain ⟨y, hy, he⟩ := List.mem_map.mp h
      obtain ⟨c, hc, hcs, hel⟩ := (G y.swap).mp (Or.inr (by simpa [Cand.swap_swap] using hy))
      have e1 : y.bbA = b := congrArg Prod.fst he
      have e2 : y.bbB = a := congrArg Prod.snd he
      exact ⟨c, hc, hcs, y.swap, hel, e2, e1⟩
  · rintro ⟨c, hc, hcs, y, hel, rfl, rfl⟩
    rcases (G y).mpr ⟨c, hc, hcs, hel⟩ with h | h
    · exact Or.inl (List.mem_map.mpr ⟨y, h, rfl⟩)
    · exact Or.inr (List.mem_map.mpr ⟨y.swap, h, rfl⟩)

theorem exclusions_aligned :
    (exclusionsOf out).length = (nonbondOf out).length ∧
    ∀ i : Nat, (exclusionsOf out)[i]? = out[i]?.map (fun (c : Cand) => (c.bbA, c.bbB)) ∧
         (nonbondOf out)[i]? = out[i]?.map Cand.triple := by
  simp [exclusionsOf, nonbondOf]

end loop

/-- a decidable sufficient condition for `TypeDeterminesKey` -/
theorem go_types_separate (P : Params) (rs : List Residue) (h : TypesSeparate P.pre rs) :
    TypeDeterminesKey P rs := typesSeparate_determines h

/-- a decidable sufficient condition for `KeysDistinct` -/
theorem go_keys_distinct (rs : List Residue) (h : (rs.map (fun r => (r.chain, r.old))).Nodup) :
    KeysDistinct rs := by
  intro i j ri rj hi hj hc ho _
  have hlt : i < (rs.map (fun r => (r.chain, r.old))).length := by
    have := (List.getElem?_eq_some_iff.mp hi).1
    simpa using this
  apply (List.getElem?_inj hlt h).mp
  simp only [List.getElem?_map, hi, hj, Option.map_some, hc, ho]

/-! ## the residue graph and the composed pipeline -/

/-- the residues partition the node table: every atom lies in a residue, all members of a residue
share (chain, resid, resname), and no two residues share that triple -/
theorem residues_partition (atoms : List Atom) :
    (∀ b, (∃ r ∈ residuesOf atoms, b ∈ r.members) ↔ b ∈ atoms)
    ∧ (∀ r ∈ residuesOf atoms, ∀ a ∈ r.members, (r.chain, r.resid, r.resname) = (a.chain, a.resid, a.resname))
    ∧ ((residuesOf atoms).map (fun r => (r.chain, r.resid, r.resname))).Nodup :=
  ⟨mem_residuesOf atoms, (residuesOf_inv atoms).members_has, (residuesOf_inv atoms).keys_nodup⟩

section pipeline
variable (P : Params) (vsn : String) (atoms : List Atom) (edges : List (Int × Int)) (contacts : List Contact)

/-- residues and residue-graph edges of the molecule after virtual-site creation -/
def pipelineResidues : List Residue :=
  residuesOf (withSites atoms (addVirtualSites P.pre P.backbone vsn atoms))
def pipelineEdges : List (Nat × Nat) := resEdges (pipelineResidues P vsn atoms) edges

/-- In the molecule produced by the pipeline, Go type names determine residue keys as soon as the
backbone particles carry distinct residue numbers and no ordinary bead type starts with the prefix. -/
theorem pipeline_type_determines_key
    (h1 : ((backboneAtoms P.backbone atoms).map (·.resid)).Nodup)
    (h2 : ∀ a ∈ atoms, startsWith a.atype P.pre = false) :
    TypeDeterminesKey P (pipelineResidues P vsn atoms) :=
  typesSeparate_determines (pipeline_types_separate P.pre P.backbone vsn atoms h1 h2)

/-- **`go_pair_iff` for `GoPipeline`**: all hypotheses are decidable statements about the input. -/
theorem pipeline_go_pair_iff (out : List Cand)
    (hok : (goPipeline P vsn atoms edges contacts).2 = .ok out)
    (hnd : contacts.Nodup)
    (h1 : ((backboneAtoms P.backbone atoms).map (·.resid)).Nodup)
    (h2 : ∀ a ∈ atoms, startsWith a.atype P.pre = false) (y : Cand) :
    (y ∈ out ∨ y.swap ∈ out) ↔
      ∃ c ∈ contacts, c.swap ∈ contacts ∧
        Eligible P (pipelineResidues P vsn atoms) (pipelineEdges P vsn atoms edges) c y :=
  go_pair_iff P _ _ contacts out hok hnd (pipeline_type_determines_key P vsn atoms h1 h2) y

theorem pipeline_go_pair_once (out : List Cand)
    (hok : (goPipeline P vsn atoms edges contacts).2 = .ok out)
    (hnd : contacts.Nodup)
    (h1 : ((backboneAtoms P.backbone atoms).map (·.resid)).Nodup)
    (h2 : ∀ a ∈ atoms, startsWith a.atype P.pre = false) :
    (out.map Cand.triple).Nodup ∧ ∀ y ∈ out, y.swap ∉ out :=
  go_pair_once P (pipelineResidues P vsn atoms) (pipelineEdges P vsn atoms edges) contacts out hok hnd
    (pipeline_type_determines_key P vsn atoms h1 h2)

theorem pipeline_exclusion_iff (out : List Cand)
    (hok : (goPipeline P vsn atoms edges contacts).2 = .ok out)
    (hnd : contacts.Nodup)
    (h1 : ((backboneAtoms P.backbone atoms).map (·.resid)).Nodup)
    (h2 : ∀ a ∈ atoms, startsWith a.atype P.pre = false) (a b : Int) :
    ((a, b) ∈ exclusionsOf out ∨ (b, a) ∈ exclusionsOf out) ↔
      ∃ c ∈ contacts, c.swap ∈ contacts ∧ ∃ y,
        Eligible P (pipelineResidues P vsn atoms) (pipelineEdges P vsn atoms edges) c y ∧ y.bbA = a ∧ y.bbB = b :=
  exclusion_iff P (pipelineResidues P vsn atoms) (pipelineEdges P vsn atoms edges) contacts out hok hnd
    (pipeline_type_determines_key P vsn atoms h1 h2) a b

end pipeline

/-- **The composed pipeline never raises the KeyError of `get_go_type_from_attributes`**: every
residue that has a backbone particle received a site of matching chain, input resid and prefix. -/
theorem pipeline_no_keyerror (P : Params) (vsn : String) (atoms : List Atom) (edges : List (Int × Int))
    (contacts : List Contact) : (goPipeline P vsn atoms edges contacts).2 ≠ .keyerror := by
  intro h
  have hm := runLoop_keyerror _ _ h
  obtain ⟨c, _, hc⟩ := List.mem_map.mp hm
  obtain ⟨ia, ib, ra, rb, a, b, hia, hib, hra, hrb, ha, hb, hnone⟩ := classify_keyerror hc
  rcases hnone with hn | hn
  · obtain ⟨t, ht⟩ := pipeline_firstType_some P.pre P.backbone vsn atoms _ _ ia ra a hia hra ha
    rw [ht] at hn; cases hn
  · obtain ⟨t, ht⟩ := pipeline_firstType_some P.pre P.backbone vsn atoms _ _ ib rb b hib hrb hb
    rw [ht] at hn; cases hn

/-- The pipeline stops with `sys.exit(1)` only if a line of the contact map names a residue without a
backbone particle. -/
theorem pipeline_exit_only_without_backbone (P : Params) (vsn : String) (atoms : List Atom)
    (edges : List (Int × Int)) (contacts : List Contact)
    (h : (goPipeline P vsn atoms edges contacts).2 = .exit) :
    ∃ c ∈ contacts, ∃ (i : Nat) (r : Residue), (pipelineResidues P vsn atoms)[i]? = some r ∧
      (findRes (pipelineResidues P vsn atoms) c.chainA c.residA = some i
        ∨ findRes (pipelineResidues P vsn atoms) c.chainB c.residB = some i) ∧
      firstBB r P.backbone = none := by
  have hm := runLoop_exit _ _ h
  obtain ⟨c, hcm, hc⟩ := List.mem_map.mp hm
  obtain ⟨ia, ib, ra, rb, hia, hib, hra, hrb, hnone⟩ := classify_exit hc
  rcases hnone with hn | hn
  · exact ⟨c, hcm, ia, ra, hra, Or.inl hia, hn⟩
  · exact ⟨c, hcm, ib, rb, hrb, Or.inr hib, hn⟩

/-! ## non-vacuity: a concrete two-chain molecule satisfying every hypothesis

Chains A and B share the input resids 1, 2 (merged resids 1..4); keys are sparse; residues A1–A2 and
B1–B2 are bonded, A2–B1 are cross-linked through their side chains.  Contact map: A1–B2 listed in both
directions (graph distance 3 > 1, distance 5 inside (1/2, 6)), A1–A2 in both directions (too close in
the graph), A1–B1 in one direction only, and a line naming an absent residue. -/
namespace Example

def mk (key : Int) (name : String) (resid old : Int) (chain ty : String) (p : Pos) : Atom :=
  { key := key, atomname := name, resid := resid, oldResid := old, resname := "ALA", chain := chain,
    atype := ty, cg := some key, pos := p, ss := none }

def atoms : List Atom :=
  [mk 2 "BB" 1 1 "A" "P2" (0, 0, 0), mk 3 "BB" 2 2 "A" "SP2" (1, 0, 0), mk 5 "SC1" 2 2 "A" "TC5" (1, 1, 0),
   mk 6 "BB" 3 1 "B" "P2" (0, 4, 0), mk 7 "SC1" 3 1 "B" "SC3" (0, 4, 1), mk 9 "BB" 4 2 "B" "P2" (3, 4, 0)]
def edges : List (Int × Int) := [(2, 3), (3, 5), (6, 7), (6, 9), (5, 7)]
def contacts : List Contact :=
  [⟨1, "A", 2, "B"⟩, ⟨1, "A", 2, "A"⟩, ⟨1, "A", 1, "B"⟩, ⟨2, "A", 1, "A"⟩, ⟨7, "A", 1, "A"⟩, ⟨2, "B", 1, "A"⟩]
def P : Params := { pre := "mol_0", backbone := "BB", low := ⟨1, 2⟩, up := ⟨6, 1⟩, sep := 1 }

example : contacts.Nodup := by decide
example : ((backboneAtoms P.backbone atoms).map (·.resid)).Nodup := by decide
example : ∀ a ∈ atoms, startsWith a.atype P.pre = false := by decide
example : ((pipelineResidues P "CA" atoms).map (fun r => (r.chain, r.old))).Nodup := by decide
/-- four sites, keys 10..13 after the largest key 9 -/
example : (addVirtualSites P.pre P.backbone "CA" atoms).map (fun v => (v.key, v.bb, v.atype, v.cg))
    = [(10, 2, "mol_0_1", 10), (11, 3, "mol_0_2", 11), (12, 6, "mol_0_3", 12), (13, 9, "mol_0_4", 13)] := by decide
/-- exactly the symmetric, separated, in-window contact is emitted, at its second occurrence -/
example : (goPipeline P "CA" atoms edges contacts).2
    = .ok [{ ta := "mol_0_4", tb := "mol_0_1", d2 := 25, bbA := 9, bbB := 2 }] := by decide
/-- on the cut-off itself (d = 5 = up) nothing is emitted: the window is strict -/
example : (goPipeline { P with up := ⟨5, 1⟩ } "CA" atoms edges contacts).2 = .ok [] := by decide
/-- two backbone particles with the same residue number (here: in different chains) get the same type -/
example : ((addVirtualSites "m" "BB" "CA"
    [mk 1 "BB" 5 5 "A" "P2" (0, 0, 0), mk 2 "BB" 5 5 "B" "P2" (1, 0, 0)]).map (·.atype)) = ["m_5", "m_5"] := by decide

end Example

end C18
