import VermouthProps.C16Conect
import VermouthModel.C16_Full
/-!
# C16 — CONECT records and the division into molecules

* `conect_within_molecule` — whatever the system (any keys, any edges, any size): every CONECT
  record `write_pdb_string` writes names serials of ONE molecule only.  So on a written file whose
  serials fit their five columns the reader never meets a record that joins two molecules.
* `cross_conect_merges` — what `_do_single_conect` (model `conectPartner` of
  `VermouthModel/C16_Full.lean`) does when it does meet one: both molecules leave the list, their
  union (atoms of the record owner's molecule first) is appended, the box is lost;
  `cross_conect_bond_endpoint` — and the bond is put between `atomidx0` and node `atomidx` of the
  merged molecule, i.e. NOT on the atom the record names (that one sits at `len(first) + atomidx`)
  but, when `atomidx < len(first)`, on an atom of the first molecule (F-C16-3).
-/
namespace C16
open Std

theorem insertAll_range : ∀ (keys : List Int) (m0 : HashMap Int Nat) (s0 : Nat) (k : Int) (v : Nat),
    (insertAll keys m0 s0).get? k = some v → (s0 ≤ v ∧ v < s0 + keys.length) ∨ m0.get? k = some v
  | [], _, _, _, _, h => Or.inr h
  | x :: r, m0, s0, k, v, h => by
      unfold insertAll at h
      rw [List.foldl_cons] at h
      have ih := insertAll_range r (m0.insert x s0) (s0 + 1) k v h
      rcases ih with ih | ih
      · left; simp only [List.length_cons]; omega
      · simp only [HashMap.get?_eq_getElem?, HashMap.getElem?_insert] at ih
        split at ih
        · left
          simp only [Option.some.injEq] at ih
          simp only [List.length_cons]; omega
        · right; simpa using ih

/-- the serials in the writer's dictionary of one molecule are the serials of that molecule -/
theorem serialTable_range (start : Nat) (sn : List Atom) (k : Int) (s : Nat)
    (h : (serialTable start sn).get? k = some s) : start ≤ s ∧ s < start + sn.length := by
  rw [serialTable_eq] at h
  rcases insertAll_range _ _ _ _ _ h with h | h
  · simpa using h
  · simp at h

/-- **conect_within_molecule.**  For EVERY system for which `write_pdb_string` produces CONECT
records at all (no hypothesis on keys, edges or size), every record consists of serials of one and
the same molecule: the `k`-th molecule's serials are `startOf 1 sys k, …` (one per atom). -/
theorem conect_within_molecule (L : PdbLayout) : ∀ (sys : List Mol) (start : Nat) (recs : List (List Nat)),
    conectRecords L start sys = .ok recs →
    ∀ r ∈ recs, ∃ k m, sys[k]? = some m ∧
      ∀ s ∈ r, startOf start sys k ≤ s ∧ s < startOf start sys k + (sortedNodes m).length
  | [], _, recs, h, r, hr => by
      simp only [conectRecords, Except.ok.injEq] at h; subst h; cases hr
  | m :: ms, start, recs, h, r, hr => by
      simp only [conectRecords] at h
      cases ha : molConectRecords L start m with
      | error e => rw [ha] at h; cases h
      | ok a =>
        rw [ha] at h
        simp only [] at h
        cases hb : conectRecords L (start + (sortedNodes m).length + 1) ms with
        | error e => rw [hb] at h; cases h
        | ok b =>
          rw [hb] at h
          simp only [Except.ok.injEq] at h
          subst h
          rcases List.mem_append.mp hr with hr | hr
          · refine ⟨0, m, rfl, ?_⟩
            have := atomsConectRecords_in L.conectChunk (serialTable start (sortedNodes m)) (adjacency m.edges)
              start (start + (sortedNodes m).length) (serialTable_range start (sortedNodes m)) m.atoms a ha r hr
            simpa [startOf] using this
          · obtain ⟨k, m', hk, hin⟩ := conect_within_molecule L ms _ b hb r hr
            exact ⟨k + 1, m', by simpa using hk, by simpa [startOf] using hin⟩

/-- the molecules of a system occupy disjoint serial ranges (a TER serial lies between two of them),
so "serials of one molecule" in `conect_within_molecule` determines the molecule -/
theorem startOf_succ (sys : List Mol) (start k : Nat) (m : Mol) (h : sys[k]? = some m) :
    startOf start sys (k + 1) = startOf start sys k + (sortedNodes m).length + 1 ∨ sys.length ≤ k + 1 := by
  induction sys generalizing start k with
  | nil => simp at h
  | cons m0 ms ih =>
    cases k with
    | zero =>
      simp only [List.getElem?_cons_zero, Option.some.injEq] at h
      subst h
      cases ms with
      | nil => right; simp
      | cons m1 r => left; simp [startOf]
    | succ k =>
      simp only [List.getElem?_cons_succ] at h
      rcases ih (start + (sortedNodes m0).length + 1) k h with h' | h'
      · left; simpa [startOf] using h'
      · right; simp only [List.length_cons]; omega

/-! ## the reader on a record that joins two molecules -/

/-- **cross_conect_merges.**  `mol` = molecule number `cur` (it holds `atomidx0 = i0`), the partner
serial is found in ANOTHER molecule `m1` at node `i1`: both molecules are removed from the list,
their union is appended at the end — atoms of `mol` first, the bonds of the second molecule shifted
by the size of the first, the box gone — together with its serial dictionary; `mol` is now the last
molecule; and the new bond is `(i0, i1)`, with `i1` NOT shifted. -/
theorem cross_conect_merges (s : CState) (cur m1 i0 i1 : Nat) (id : Int) (A B : MolR)
    (hf : findMol s.tables id = some (m1, i1)) (hne : m1 ≠ cur)
    (hA : s.mols[cur]? = some A) (hB : s.mols[m1]? = some B)
    (hd : distanceOk (A.atoms ++ B.atoms) i0 i1 = true) :
    conectPartner (s, cur) i0 id =
      .ok (⟨eraseTwo s.mols cur m1 ++
              [{ atoms := A.atoms ++ B.atoms,
                 edges := A.edges ++ B.edges.map (fun e => (e.1 + A.atoms.length, e.2 + A.atoms.length)) ++ [(i0, i1)],
                 box := none }],
            eraseTwo s.tables cur m1 ++ [idTableX (A.atoms ++ B.atoms)]⟩,
           (eraseTwo s.mols cur m1).length) := by
  unfold conectPartner
  simp only [hf, hne, if_false, hA, hB, hd, if_true]
  simp

/-- one molecule fewer after the merge -/
theorem eraseTwo_length {α : Type} (l : List α) (i j : Nat) (hi : i < l.length) (hj : j < l.length) (hne : i ≠ j) :
    (eraseTwo l i j).length + 2 = l.length := by
  unfold eraseTwo
  rw [List.length_eraseIdx, List.length_eraseIdx]
  have h1 : max i j < l.length := by omega
  have h2 : min i j < l.length - 1 := by omega
  simp only [h1, if_true, h2]
  omega

/-- **cross_conect_bond_endpoint** (F-C16-3).  In the merged molecule the atom the record names —
node `i1` of the second molecule — sits at index `len(first) + i1`; the bond goes to index `i1`,
which for `i1 < len(first)` is an atom of the FIRST molecule (for `i1 = i0` a bond of an atom with
itself). -/
theorem cross_conect_bond_endpoint (A B : List PAtomX) (i1 : Nat) (b : PAtomX) (hb : B[i1]? = some b) :
    (A ++ B)[A.length + i1]? = some b ∧ (i1 < A.length → (A ++ B)[i1]? = A[i1]?) := by
  constructor
  · rw [List.getElem?_append_right (by omega)]
    simpa using hb
  · intro h
    rw [List.getElem?_append_left h]

end C16
