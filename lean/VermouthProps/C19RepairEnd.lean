import VermouthProofs.C19_Repair2
import VermouthProps.C19Repair
import VermouthProps.C19
/-!
# C19, last clause, end to end: `AnnotateMutMod` then `RepairGraph`

Composition of the marking theorems (`C19.marks_exact`), the reference theorems
(`C19.Repair.reference_atoms`) and the C04 theorems about `repair_residue` given a match.  The
matcher is not transcribed: statements hold for every well-formed match (`C04.WF`), in particular
for every member of `Iso.allMCIS` — the specification of `largest_common_subgraph` used by C04 —
(`…_mcis`).  "For any input presentation": the hypotheses speak about the residue through its
element-coloured graph and the match only; names, order and keys of the input atoms are arbitrary.

Vocabulary: `residueAtoms R o` = the atoms of the molecule after the repair that belong to the
residue (found and surviving, or rebuilt); `addedNames ff ms` = the atoms the modifications `ms`
other than `none` add; `Pipeline.optRequests l` = the attribute `AnnotateMutMod` leaves (absent for
the empty list); `requested a` = what `repair_graph` tests before removing a surplus atom.
-/
namespace C19.Repair
open C04

/-! ## `none` -/

/-- **`none` adds nothing**: a requested modification `none` (the placeholder `-cter none`) is
skipped when the reference is built; the residue is still "marked", so its surplus atoms go. -/
theorem none_adds_nothing (ff : FF) (ms : List String) (b : Block) :
    applyMods ff ("none" :: ms) b = applyMods ff ms b ∧ addedNames ff ("none" :: ms) = addedNames ff ms ∧
    addedNames ff ["none"] = [] := by
  refine ⟨by simp [applyMods], by simp [addedNames, List.filter_cons], by simp [addedNames, List.filter_cons]⟩

/-! ## the marked residue has exactly the atoms of the reference -/

/-- every atom of the residue after the repair plays a reference atom -/
theorem residueAtoms_in_ran (m : C04.Mol) (R : Residue) (h : WF m R) (hc : connectedB R.block = true)
    (hne : R.mtch ≠ []) (hmark : ∀ a ∈ m.nodes, a.key ∈ R.found → requested a = true) :
    ∀ a ∈ residueAtoms R (repairResidue m R), a ∈ (repairResidue m R).mol.nodes ∧ a.key ∈ ran (repairResidue m R).mtch := by
  intro a ha
  obtain ⟨ha1, ha2⟩ := List.mem_filter.1 ha
  refine ⟨ha1, ?_⟩
  simp only [Bool.or_eq_true, List.contains_eq_mem, decide_eq_true_eq] at ha2
  rcases ha2 with hf | hr
  · obtain ⟨_, h2, _⟩ := surplus_removed m R h hc hne hmark
    obtain ⟨r, _, hp, _⟩ := h2 a ha1 hf
    exact mem_ran_of_mem hp
  · exact hr

/-- **The marked residue has exactly the atoms of its reference, each once.**  For a residue whose
atoms carry a request, a connected reference with distinct atom names and a non-empty well-formed
match: the names of the residue's atoms after the repair are a permutation of the names of the
reference atoms (nothing missing, nothing surplus, nothing twice). -/
theorem marked_residue_names (m : C04.Mol) (R : Residue) (h : WF m R) (hc : connectedB R.block = true)
    (hne : R.mtch ≠ []) (hB : NamesDistinct R.block)
    (hmark : ∀ a ∈ m.nodes, a.key ∈ R.found → requested a = true) :
    ((residueAtoms R (repairResidue m R)).map (·.name)).Perm (R.block.nodes.map (·.name)) := by
  have hin := residueAtoms_in_ran m R h hc hne hmark
  obtain ⟨s1, _, _⟩ := surplus_removed m R h hc hne hmark
  have hkn := out_keys_nodup m R h
  have hLnd : (residueAtoms R (repairResidue m R)).Nodup :=
    (nodup_of_nodup_map (·.key) hkn).sublist List.filter_sublist
  have hnd : ((residueAtoms R (repairResidue m R)).map (·.name)).Nodup := by
    apply nodup_map_of_inj_on_list hLnd
    intro a ha b hb e
    exact names_unique m R h hB a (hin a ha).1 b (hin b hb).1 (hin a ha).2 (hin b hb).2 e
  rw [List.perm_ext_iff_of_nodup hnd hB]
  intro n
  constructor
  · intro hn
    obtain ⟨a, ha, rfl⟩ := List.mem_map.1 hn
    obtain ⟨ha1, ha2⟩ := hin a ha
    obtain ⟨p, hp, hpk⟩ := List.mem_map.1 ha2
    obtain ⟨a', ha', hk', hn', _⟩ := canonical_names m R h p hp
    have : a' = a := inj_of_nodup_map hkn ha' ha1 (by rw [hk', hpk])
    subst this
    rw [hn']
    have hdom : p.1 ∈ R.block.keys := (inv_final m R h).domSub p.1 (mem_dom_of_mem hp)
    obtain ⟨r0, _, hr0k, hr0m⟩ := find_of_mem_keys hdom
    rw [← hr0k, (nameOf_of_mem h.1 hr0m).1]
    exact List.mem_map.2 ⟨r0, hr0m, rfl⟩
  · intro hn
    obtain ⟨r0, hr0, rfl⟩ := List.mem_map.1 hn
    obtain ⟨a, ha, hp, hname⟩ := s1 r0.key (List.mem_map.2 ⟨r0, hr0, rfl⟩)
    rw [(nameOf_of_mem h.1 hr0).1] at hname
    refine List.mem_map.2 ⟨a, List.mem_filter.2 ⟨ha, ?_⟩, hname⟩
    simp only [Bool.or_eq_true, List.contains_eq_mem, decide_eq_true_eq]
    exact Or.inr (mem_ran_of_mem hp)

/-- **After repair the marked residue has the atoms of the requested block and modifications.**
Residue named `rn`, requests `mu` (mutation targets) and `mods` (modification names) as left by
`AnnotateMutMod`, `ref` the reference built from them: the atom names of the residue after the
repair are, each exactly once, the atom names of the block that is asked for (`targetName`: the
mutation target, else `rn`) together with the atoms the modifications add; every atom of the
residue that the match left out — the surplus of the old residue — is gone; and after a mutation
every atom of the residue carries the new residue name. -/
theorem mutated_residue_has_target_atoms (ff : FF) (rn : String) (mu mods : Option (List String)) (ref : Block)
    (href : getReference ff rn mu mods = .ok ref)
    (m : C04.Mol) (found : List Int) (M : Iso.Map) (common : Attrs) (h : WF m (residueOf ref found M common))
    (hc : connectedB ref = true) (hne : M ≠ []) (hB : NamesDistinct ref)
    (hmark : ∀ a ∈ m.nodes, a.key ∈ found → requested a = true) :
    ∃ name b0, targetName rn mu = .ok name ∧ ff.blocks.lookup name = some b0 ∧
      ((residueAtoms (residueOf ref found M common) (repairResidue m (residueOf ref found M common))).map (·.name)).Perm
        (b0.nodes.map (·.name) ++ addedNames ff (dedupReq (mods.getD []))) ∧
      (∀ k ∈ found, k ∉ ran M → k ∉ (repairResidue m (residueOf ref found M common)).mol.keys) ∧
      (∀ t rest, mu = some (t :: rest) →
        ∀ a ∈ residueAtoms (residueOf ref found M common) (repairResidue m (residueOf ref found M common)),
          a.attrs.lookup "resname" = some (pyStr t)) := by
  obtain ⟨name, b0, h1, h2, h3, _⟩ := reference_atoms ff rn mu mods ref href
  refine ⟨name, b0, h1, h2, ?_, ?_, ?_⟩
  · rw [← h3]
    exact marked_residue_names m (residueOf ref found M common) h hc hne hB hmark
  · exact (surplus_removed m (residueOf ref found M common) h hc hne hmark).2.2
  · intro t rest hmu a ha
    subst hmu
    obtain ⟨ha1, ha2⟩ := residueAtoms_in_ran m (residueOf ref found M common) h hc hne hmark a ha
    obtain ⟨p, hp, hpk⟩ := List.mem_map.1 ha2
    obtain ⟨a', ha', hk, hl⟩ := mutation_renames_all ff rn t rest mods ref href m found M common h p hp
    have : a' = a := inj_of_nodup_map (out_keys_nodup m _ h) ha' ha1 (by rw [hk, hpk])
    rw [← this]; exact hl

/-- the same for the matcher as C04 specifies it: any maximum common induced subgraph of the
residue (its element-coloured graph, whatever its atom names, order and keys) and the reference -/
theorem mutated_residue_has_target_atoms_mcis (ff : FF) (rn : String) (mu mods : Option (List String)) (ref : Block)
    (href : getReference ff rn mu mods = .ok ref)
    (m : C04.Mol) (found : List Int) (M : Iso.Map) (common : Attrs)
    (hBk : ref.keys.Nodup) (hm : m.keys.Nodup) (hf : ∀ k ∈ found, k ∈ m.keys)
    (hM : M ∈ Iso.allMCIS (resGraph m found) (blockGraph ref))
    (hc : connectedB ref = true) (hne : M ≠ []) (hB : NamesDistinct ref)
    (hmark : ∀ a ∈ m.nodes, a.key ∈ found → requested a = true) :
    ∃ name b0, targetName rn mu = .ok name ∧ ff.blocks.lookup name = some b0 ∧
      ((residueAtoms (residueOf ref found M common) (repairResidue m (residueOf ref found M common))).map (·.name)).Perm
        (b0.nodes.map (·.name) ++ addedNames ff (dedupReq (mods.getD []))) ∧
      (∀ k ∈ found, k ∉ ran M → k ∉ (repairResidue m (residueOf ref found M common)).mol.keys) :=
  have h : WF m (residueOf ref found M common) := wf_of_mcis m (residueOf ref found M common) hBk hm hf hM
  let ⟨name, b0, h1, h2, h3, h4, _⟩ :=
    mutated_residue_has_target_atoms ff rn mu mods ref href m found M common h hc hne hB hmark
  ⟨name, b0, h1, h2, h3, h4⟩

/-! ## the same modification requested twice (finding F-C19-5, fixed by d4639ea) -/

/-- **A modification requested twice is applied once.**  For every request list `ms` the reference
is, atom for atom and bond for bond (keys, names, elements, `PTM_atom`), the reference for `ms`
with the later duplicates removed (`dedupReq` = `dict.fromkeys`: first occurrences, in order, each
once, nothing else dropped) — `-nter NH2-ter -nt` and `-nter N-ter -modify A-nter:N-ter` build
the terminus a single request builds.  Only the `modification` attribute written on the atoms keeps
the full list.  A list without duplicates is applied as it is. -/
theorem duplicate_request_applied_once (ff : FF) (rn : String) (mu : Option (List String)) (ms : List String) :
    (getReference ff rn mu (some ms)).map skeleton = (getReference ff rn mu (some (dedupReq ms))).map skeleton ∧
    (dedupReq ms).Nodup ∧ (∀ x, x ∈ dedupReq ms ↔ x ∈ ms) ∧ (ms.Nodup → dedupReq ms = ms) := by
  refine ⟨?_, nodup_dedupAux [] ms, fun x => by simp [dedupReq, mem_dedupAux], fun h => dedupAux_of_nodup [] ms h (by simp)⟩
  unfold getReference getReferenceGen
  simp only [Option.getD_some]
  have hid : dedupReq (dedupReq ms) = dedupReq ms := dedupAux_idem [] ms
  rw [hid]
  cases targetName rn mu with
  | error e => rfl
  | ok name =>
    simp only
    cases ff.blocks.lookup name with
    | none => rfl
    | some b0 =>
      simp only
      cases applyMods ff (dedupReq ms) b0 with
      | error e => rfl
      | ok b1 =>
        simp only
        cases mu with
        | none => simp [Except.map, skeleton_setAll]
        | some l =>
          cases l with
          | nil => simp [Except.map, skeleton_setAll]
          | cons t rest => simp [Except.map, skeleton_setAll]

example : dedupReq ["N-ter", "none", "N-ter", "C-ter", "none"] = ["N-ter", "none", "C-ter"] := by decide

/-- the reference for the doubled request on the toy force field: HN2 once, names distinct again -/
example :
    (match getReference ffEx "GLY" none (some ["N-ter", "N-ter"]) with
     | .ok b => b.nodes.map (·.name)
     | .error _ => []) = ["N", "CA", "C", "HN2"] ∧
    NamesDistinct (match getReference ffEx "GLY" none (some ["N-ter", "N-ter"]) with | .ok b => b | .error _ => default) := by
  decide

/-- **witness of the behaviour before the fix** (`getReferenceNoDedup`): equal modification requests
on one residue were patched in twice — the reference, hence the repaired residue, had the added atom
twice under one name, and `NamesDistinct` (hypothesis of `mutated_residue_has_target_atoms`) failed. -/
theorem old_duplicate_modification_doubled_atoms :
    (match getReferenceNoDedup ffEx "GLY" none (some ["N-ter", "N-ter"]) with
     | .ok b => b.nodes.map (·.name)
     | .error _ => []) = ["N", "CA", "C", "HN2", "HN2"] ∧
    ¬ NamesDistinct (match getReferenceNoDedup ffEx "GLY" none (some ["N-ter", "N-ter"]) with | .ok b => b | .error _ => default) := by
  decide

/-! ## other residues -/

/-- **Atoms of other residues are untouched** by the repair of a residue: every atom outside the
residue is still there with the same key, name, element, attributes and flag; no atom with an old
key outside the residue is anything but the input atom; bonds between atoms outside the residue
are exactly the old ones. -/
theorem other_residues_untouched (m : C04.Mol) (R : Residue) (h : WF m R) :
    (∀ a ∈ m.nodes, a.key ∉ R.found → a ∈ (repairResidue m R).mol.nodes) ∧
    (∀ a ∈ (repairResidue m R).mol.nodes, a.key ∈ m.keys → a.key ∉ R.found → a ∈ m.nodes) ∧
    (∀ u ∈ m.keys, ∀ v ∈ m.keys, u ∉ R.found → v ∉ R.found →
      hasEdge (repairResidue m R).mol.edges u v = hasEdge m.edges u v) :=
  ⟨fun a ha hf => outside_atom_kept m R h a ha hf,
   fun a ha hk hf => outside_atom_same m R h a ha hk hf,
   fun u hu v hv hfu hfv => (rebuild_conservative m R h).2 u hu v hv
      (fun hc => hfu (extra_sub_found hc)) (fun hc => hfv (extra_sub_found hc))⟩

/-- non-vacuity on the worked example of `C19Repair.lean`: a second residue (keys 20, 21) next to
the mutated one is found again unchanged -/
example :
    let m2 : C04.Mol := { nodes := molEx.nodes ++ [at_ 20 "N" 7 (some "ALA") none, at_ 21 "CA" 6 (some "ALA") none],
                          edges := molEx.edges ++ [(13, 20), (20, 21)] }
    WF m2 (residueOf refEx [10, 11, 12, 13, 14] matchEx []) ∧ NamesDistinct refEx ∧
    (repairResidue m2 (residueOf refEx [10, 11, 12, 13, 14] matchEx [])).mol.nodes.map (fun a => (a.key, a.name))
      = [(10, "N"), (11, "CA"), (13, "C"), (14, "HN2"), (20, "N"), (21, "CA")] := by decide

/-- the residues of a reference graph are repaired one after the other; each must be well-formed
for the molecule as its predecessors left it (true for `make_reference`: the residues partition the
atoms, and a repair removes or adds atoms of its own residue only) -/
def WFSeq : C04.Mol → List Residue → Prop
  | _, [] => True
  | m, R :: rest => WF m R ∧ WFSeq (repairResidue m R).mol rest

theorem repairGraph_fst (rs : List Residue) (acc : C04.Mol × List Iso.Map × List Event) :
    (rs.foldl (fun (acc : C04.Mol × List Iso.Map × List Event) R =>
        let o := repairResidue acc.1 R
        (o.mol, acc.2.1 ++ [o.mtch], acc.2.2 ++ o.log)) acc).1
      = rs.foldl (fun mol R => (repairResidue mol R).mol) acc.1 := by
  induction rs generalizing acc with
  | nil => rfl
  | cons R rest ih => simp only [List.foldl_cons]; rw [ih]

/-- **… through the whole `repair_graph`**: an atom that belongs to none of the repaired residues
leaves `repair_graph` exactly as it entered. -/
theorem other_residues_untouched_graph (rs : List Residue) (m : C04.Mol) (h : WFSeq m rs)
    (a : C04.Atom) (ha : a ∈ m.nodes) (hf : ∀ R ∈ rs, a.key ∉ R.found) :
    a ∈ (repairGraph m rs).1.nodes := by
  unfold repairGraph
  rw [repairGraph_fst]
  simp only
  induction rs generalizing m with
  | nil => exact ha
  | cons R rest ih =>
    simp only [List.foldl_cons]
    exact ih (repairResidue m R).mol h.2
      ((other_residues_untouched m R h.1).1 a ha (hf R (by simp)))
      (fun R' hR' => hf R' (List.mem_cons_of_mem _ hR'))

end C19.Repair

/-! ## the seam: what `AnnotateMutMod` wrote is what `RepairGraph` reads -/
namespace C19.Pipeline
open C04

/-- an attribute dictionary whose request entries are the ones `AnnotateMutMod` left on atom `a` -/
def Linked (a : C19.Atom) (d : Attrs) : Prop :=
  d.lookup "mutation" = (optRequests a.muts).map Repair.pyList ∧
  d.lookup "modification" = (optRequests a.mods).map Repair.pyList

theorem linked_requestAttrs (a : C19.Atom) : Linked a (requestAttrs a) := by
  unfold Linked requestAttrs
  cases optRequests a.muts <;> cases optRequests a.mods <;> simp [List.lookup]

theorem optRequests_cons (x : Str) (xs : List Str) : optRequests (x :: xs) = some (String.ofList x :: strs xs) := rfl

/-- **Marked ⟺ requested**: `repair_graph`'s test `node.get('mutation') or node.get('modification')`
is true exactly on the atoms on which `AnnotateMutMod` left a mark. -/
theorem marked_iff_requested (a : C19.Atom) (a4 : C04.Atom) (h : Linked a a4.attrs) :
    requested a4 = (!a.muts.isEmpty || !a.mods.isEmpty) := by
  unfold requested
  rw [h.1, h.2]
  cases hm : a.muts <;> cases hd : a.mods <;>
    simp [optRequests, strs, Repair.truthy_pyList_cons]

/-- **End to end.**  `AnnotateMutMod(mods, muts)` runs without error on a fresh system (no marks
yet); `m ∈ mols`; `a` an atom of `m`, `rn` its residue's name.  Then (1) the residue attributes
`RepairGraph` reads are the targets of exactly the requests that match the residue, in request
order, absent when there is none (`marks_iff_matches`); (2) an atom of the residue is "requested"
iff some request matches the residue; (3) the reference is built from exactly those targets. -/
theorem annotate_then_reference (lib : Lib) (ff : Repair.FF) (mods muts : List Request) (mols : List C19.Mol)
    (herr : (runSystem lib mods muts mols).err = none)
    (hfresh : ∀ m ∈ mols, ∀ a ∈ m.atoms, a.mods = [] ∧ a.muts = [])
    (m : C19.Mol) (hm : m ∈ mols) (a : C19.Atom) (ha : a ∈ m.atoms) (rn : String) :
    ∃ m' ∈ (runSystem lib mods muts mols).mols, ∃ a' ∈ m'.atoms, a'.key = a.key ∧ a'.res = a.res ∧
      a'.mods = targetsFor lib m mods a.res ∧ a'.muts = targetsFor lib m muts a.res ∧
      referenceOf ff rn a' = Repair.getReference ff rn (optRequests (targetsFor lib m muts a.res))
                                                       (optRequests (targetsFor lib m mods a.res)) ∧
      (∀ a4 : C04.Atom, Linked a' a4.attrs →
        (requested a4 = true ↔ ∃ rq ∈ mods ++ muts, residueMatches lib.protein rq.spec m a.res = true)) := by
  rw [marks_exact lib mods muts mols herr]
  refine ⟨_, List.mem_map.2 ⟨m, hm, rfl⟩, _, List.mem_map.2 ⟨a, ha, rfl⟩, rfl, rfl, ?_, ?_, ?_, ?_⟩
  · simp [(hfresh m hm a ha).1]
  · simp [(hfresh m hm a ha).2]
  · simp [referenceOf, (hfresh m hm a ha).1, (hfresh m hm a ha).2]
  · intro a4 hl
    rw [marked_iff_requested _ a4 hl]
    simp only [(hfresh m hm a ha).1, (hfresh m hm a ha).2, List.nil_append, Bool.or_eq_true, Bool.not_eq_true',
      List.isEmpty_eq_false_iff, List.mem_append]
    constructor
    · rintro (h1 | h1)
      · obtain ⟨t, ht⟩ := List.exists_mem_of_ne_nil _ h1
        obtain ⟨rq, hrq, _, hmatch⟩ := (marks_iff_matches lib m muts a.res t).1 ht
        exact ⟨rq, Or.inr hrq, hmatch⟩
      · obtain ⟨t, ht⟩ := List.exists_mem_of_ne_nil _ h1
        obtain ⟨rq, hrq, _, hmatch⟩ := (marks_iff_matches lib m mods a.res t).1 ht
        exact ⟨rq, Or.inl hrq, hmatch⟩
    · rintro ⟨rq, hrq | hrq, hmatch⟩
      · right
        exact List.ne_nil_of_mem ((marks_iff_matches lib m mods a.res rq.target).2 ⟨rq, hrq, rfl, hmatch⟩)
      · left
        exact List.ne_nil_of_mem ((marks_iff_matches lib m muts a.res rq.target).2 ⟨rq, hrq, rfl, hmatch⟩)

end C19.Pipeline
