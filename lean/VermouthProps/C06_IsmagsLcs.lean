import VermouthProofs.C06_IsmagsLcs
import VermouthProps.C06_Ismags
/-!
# C06 — theorems about the TRANSCRIPTION of `largest_common_subgraph`

`largestCommonSubgraphWith` / `lcsWith` / `lcsFound` / `lcsShrink` / `removeNode`
(`VermouthModel/C06_Ismags.lean`) follow `largest_common_subgraph`, `_largest_common_subgraph`
and `_remove_node` of `vermouth/ismags.py`; the constraints list is an input.
-/
namespace C06
open Iso C06I

/-! ### any constraints: sound, all answers of one size -/

/-- **Every mapping the common-subgraph search yields** (transcription, ANY constraints list, any
rule for the next node) maps a subset of the pattern nodes (each once) by an induced
colour-respecting subgraph isomorphism, and obeys the constraints as far as `_map_nodes` enforces them. -/
theorem ismags_lcs_sound {pick : Map → Cands → List Int → Int} (hpick : PickOK pick) (g sg : Graph) (C : Constraints)
    (hs : sg.keys.Nodup) (m : Map) (h : m ∈ largestCommonSubgraphWith pick g sg C) :
    (m.map Prod.fst).Nodup
    ∧ (∃ nodes : List Int, nodes.Sublist sg.keys ∧ ∀ u, u ∈ nodes ↔ u ∈ m.map Prod.fst)
    ∧ IsIndIsoOn g sg (colourPred g sg) (m.map Prod.fst) (Map.toFun m)
    ∧ Enforced C (m.map Prod.fst) (Map.toFun m) := by
  have key : LcsGood g sg C m := by
    unfold largestCommonSubgraphWith at h
    split at h
    · have : m = [] := by simpa using h
      subst this
      exact ⟨mapOK_nil g sg C, by simp, [], List.nil_sublist _, by simp⟩
    · split at h
      · simp at h
      · dsimp only at h
        split at h
        · obtain ⟨j, hj⟩ := lcsWith_good hpick g sg hs C sg.keys.length [sg.keys] (fun S hS => (lvl_top.2 S).1 hS)
          exact (hj m h).1
        · simp at h
  obtain ⟨h1, h2, h3⟩ := key
  exact ⟨h2, h3, mapOK_indIso h2 h1, mapOK_enforced h2 h1⟩

/-- **All yielded mappings have the same number of nodes** (any constraints). -/
theorem ismags_lcs_equal_size {pick : Map → Cands → List Int → Int} (hpick : PickOK pick) (g sg : Graph) (C : Constraints)
    (hs : sg.keys.Nodup) (m m' : Map) (h : m ∈ largestCommonSubgraphWith pick g sg C)
    (h' : m' ∈ largestCommonSubgraphWith pick g sg C) : m.length = m'.length := by
  unfold largestCommonSubgraphWith at h h'
  by_cases he : sg.keys.isEmpty = true
  · rw [if_pos he] at h h'
    have e1 : m = [] := by simpa using h
    have e2 : m' = [] := by simpa using h'
    rw [e1, e2]
  · rw [if_neg he] at h h'
    by_cases hge : g.keys.isEmpty = true
    · rw [if_pos hge] at h; simp at h
    · rw [if_neg hge] at h h'
      dsimp only at h h'
      by_cases ha : ((findNodecolorCandidates g sg).any fun e => !e.2.isEmpty) = true
      · rw [if_pos ha] at h h'
        obtain ⟨j, hj⟩ := lcsWith_good hpick g sg hs C sg.keys.length [sg.keys] (fun S hS => (lvl_top.2 S).1 hS)
        rw [(hj m h).2, (hj m' h').2]
      · rw [if_neg ha] at h; simp at h

/-! ### no constraints (symmetry off): exactly the maximum common induced subgraphs -/

theorem nodecolor_any (g sg : Graph) (h : sg.keys ≠ []) :
    ((findNodecolorCandidates g sg).any fun e => !e.2.isEmpty) = true := by
  obtain ⟨u, hu⟩ := List.exists_mem_of_ne_nil _ h
  rw [List.any_eq_true]
  exact ⟨(u, _), List.mem_map.2 ⟨u, hu, rfl⟩, rfl⟩

/-- **`largest_common_subgraph(symmetry=False)`** (transcription, `constraints = []`, any rule for
the next node): when the two graphs have anything in common, the yielded mappings, listed along the
pattern nodes, are a permutation of the verified reference `allMCIS` - i.e. only common induced
subgraphs, all of the maximum size `mcisSize`, every maximum one, each exactly once; when nothing is
in common (`mcisSize = 0`, non-empty pattern) nothing is yielded; for the empty pattern the empty
mapping is yielded. -/
theorem ismags_lcs_exact {pick : Map → Cands → List Int → Int} (hpick : PickOK pick) (g sg : Graph)
    (hs : sg.keys.Nodup) (hg : g.keys.Nodup) :
    ((1 ≤ mcisSize g sg ∨ sg.keys = []) →
        ((largestCommonSubgraphWith pick g sg []).map (canonP sg)).Perm (allMCIS g sg))
    ∧ (mcisSize g sg = 0 → sg.keys ≠ [] → largestCommonSubgraphWith pick g sg [] = []) := by
  unfold largestCommonSubgraphWith
  split
  · rename_i he
    have hk : sg.keys = [] := List.isEmpty_iff.1 he
    refine ⟨fun _ => ?_, fun _ hne => absurd hk hne⟩
    have : allMCIS g sg = [[]] := by
      simp [allMCIS, allMCISP, mcisSizeP, graphProblem, hk, searchDown, subsOfSize, isosOn, extend]
    rw [this]
    simp [canonP, ofFun, hk]
  · rename_i he
    have hne : sg.keys ≠ [] := fun e => he (by rw [e]; rfl)
    split
    · rename_i hge
      have hz : mcisSize g sg = 0 := by
        unfold mcisSize mcisSizeP
        apply searchDown_eq_zero
        intro j hj
        cases hc : hasCommon (graphProblem g sg (colourPred g sg)) j with
        | false => rfl
        | true =>
          have := hasCommon_le _ hc
          have hl : g.keys.length = 0 := by rw [List.isEmpty_iff.1 hge]; rfl
          simp only [graphProblem] at this
          omega
      refine ⟨?_, fun _ _ => rfl⟩
      rintro (h | h)
      · omega
      · exact absurd h hne
    · dsimp only
      rw [if_pos (nodecolor_any g sg hne)]
      obtain ⟨h0, h1⟩ := lcsWith_exact hpick g sg hs hg sg.keys.length [sg.keys] lvl_top (Nat.le_refl _)
      refine ⟨?_, fun hz _ => h0 hz⟩
      rintro (h | h)
      · obtain ⟨hmem, hnd⟩ := h1 h
        rw [List.perm_ext_iff_of_nodup hnd (allMCIS_nodup g sg hs hg)]
        intro m'
        rw [hmem m']
        exact (mem_allMCISP_iff _ m').symm
      · exact absurd h hne

/-- consequences in the words of the property (no constraints): every yielded mapping is a common
induced subgraph of the maximum possible size, and every maximum one is yielded. -/
theorem ismags_lcs_max_complete {pick : Map → Cands → List Int → Int} (hpick : PickOK pick) (g sg : Graph)
    (hs : sg.keys.Nodup) (hg : g.keys.Nodup) (hk : 1 ≤ mcisSize g sg) :
    (∀ m ∈ largestCommonSubgraphWith pick g sg [], m.length = mcisSize g sg
        ∧ ∀ (S : List Int) (f : Int → Int), S.Sublist sg.keys → IsIndIsoOn g sg (colourPred g sg) S f → S.length ≤ m.length)
    ∧ (∀ (S : List Int) (f : Int → Int), S.Sublist sg.keys → IsIndIsoOn g sg (colourPred g sg) S f →
        S.length = mcisSize g sg → mapOf S f ∈ (largestCommonSubgraphWith pick g sg []).map (canonP sg)) := by
  have hperm := (ismags_lcs_exact hpick g sg hs hg).1 (Or.inl hk)
  constructor
  · intro m hm
    have hin : canonP sg m ∈ allMCIS g sg := hperm.mem_iff.1 (List.mem_map.2 ⟨m, hm, rfl⟩)
    obtain ⟨hn, ⟨nodes, hsub, hmem⟩, _, _⟩ := ismags_lcs_sound hpick g sg [] hs m hm
    have hlen : m.length = (canonP sg m).length := by
      have h1 : (canonP sg m).length = ((canonP sg m).map Prod.fst).length := by simp
      rw [h1, canonP_keys hs hn hsub hmem, length_of_same_mem (hsub.nodup hs) hn hmem]; simp
    have hsz := (allMCIS_sound g sg hs _ hin).2.2
    refine ⟨by rw [hlen, hsz], ?_⟩
    intro S f hS hf
    rw [hlen, hsz]
    exact allMCIS_max g sg hs S f hS hf
  · intro S f hS hf hl
    exact hperm.mem_iff.2 (allMCIS_complete g sg hs S f hS hf hl)

/-- the code's own rule for the next node -/
theorem ismags_lcs_exact_min (g sg : Graph) (hs : sg.keys.Nodup) (hg : g.keys.Nodup) :
    ((1 ≤ mcisSize g sg ∨ sg.keys = []) →
        ((largestCommonSubgraph g sg []).map (canonP sg)).Perm (allMCIS g sg))
    ∧ (mcisSize g sg = 0 → sg.keys ≠ [] → largestCommonSubgraph g sg [] = []) :=
  ismags_lcs_exact pickMin_ok g sg hs hg

/-! non-vacuity -/
-- path 7 - 2 - 9 against the triangle: largest common induced subgraphs are the 12 edges-on-edges
example : mcisSize k3 p3 = 2 ∧ (largestCommonSubgraph k3 p3 []).length = 12 := by decide
-- with the constraint 7 < 9 (the symmetry of the path) and `_remove_node`
example : (largestCommonSubgraph k3 p3 [(7, 9)]).length = 6 := by decide
-- nothing in common: different node colours
example : largestCommonSubgraph { nodes := [(1, 1)], edges := [] } p3 [] = [] := by decide

end C06
