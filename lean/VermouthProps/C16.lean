import VermouthProofs.C16
import VermouthProofs.C16_Conect
import VermouthProofs.C16_Ter
/-!
# C16 — structure files round-trip: what is written is read back

Top-level theorems about the character-level model `VermouthModel/C16.lean` of the
fixed-column writers (`write_pdb_string`, `write_gro`, `TruncFormatter`) and readers
(`PDBParser`, `read_gro`).  The theorems in this file hold for EVERY layout (format string /
column table); `VermouthProps/C16Tables.lean` instantiates them with the layout extracted
from the repository on each run (`Generated/C16Layout.lean`) and checks the table conditions
(`allTrunc`, `covers`) with `decide`.

Vocabulary:
* `render fmt env`     : `formatter.format(fmt, …)`, the values being looked up by name in `env`;
* `allTrunc fmt`       : every field of the format string has the `t` flag and a width;
* `covers fmt n a b`   : columns `[a, b)` of a record consist of the field named `n` (whose
                         spec is returned) and blank literal columns only;
* `expected sp v`      : what a reader must get back for value `v` printed through spec `sp`.
-/
namespace C16

/-- columns `[a, b)` hold exactly the field `n` plus blank literal columns: its spec -/
def covers (fmt : List Seg) (n : FName) (a b : Nat) : Option Spec :=
  match segsOf fmt a b with
  | some mid =>
    match mid.dropWhile isBlankLit with
    | .fld n' sp :: rest => if n' = n ∧ rest.all isBlankLit = true then some sp else none
    | _ => none
  | none => none

/-- the value a reader has to return -/
def expected (sp : Spec) (v : Val) : RVal :=
  match v with
  | .int i => .int i
  | .str s => .str s
  | .fix k => .dec k sp.prec
  | .nan => .nan

/-- writer type letter, reader column type and kind of value belong together -/
def kindOk (sp : Spec) (rty : RTy) (v : Val) : Prop :=
  match sp.ty, rty, v with
  | .d, .int, .int _ => True
  | .s, .str, .str _ => True
  | .f, .float, .fix _ => 1 ≤ sp.prec
  | .f, .float, .nan => True
  | _, _, _ => False

/-- the value fits its column; a string additionally has no white space at either end -/
def fitsField (sp : Spec) (v : Val) : Prop :=
  (fieldBody sp v).length ≤ sp.width ∧
  match v with
  | .str s => strip s = s
  | _ => True

/-! ## record_length_const — no overflow can shift a column -/

/-- **record_length_const.** A record written through a format string all of whose fields carry
the `t` flag has the same length whatever the values are (over-long, negative, anything). -/
theorem record_length_const (fmt : List Seg) (env : Env) (h : allTrunc fmt = true) :
    (render fmt env).length = fmtWidth fmt :=
  length_render env fmt h

theorem field_width_const (sp : Spec) (v : Val) (ht : sp.trunc = true) (hw : sp.width ≠ 0) :
    (renderField sp v).length = sp.width :=
  length_renderField sp v ht hw

/-! ## overflow_local — a field only ever changes its own columns -/

theorem covers_spec {fmt : List Seg} {n : FName} {a b : Nat} {sp : Spec} (h : covers fmt n a b = some sp) :
    ∃ mid, segsOf fmt a b = some mid ∧ oneField mid n sp = true := by
  unfold covers at h
  split at h
  · rename_i mid hmid
    refine ⟨mid, hmid, ?_⟩
    unfold oneField
    split at h
    · rename_i n' sp' rest heq
      split at h
      · rename_i hc
        cases h
        rw [heq]; simp [hc.1, hc.2]
      · cases h
    · cases h
  · cases h

/-- what a reader slice sees of a record is the rendering of the one field it covers, up to
blank columns -/
theorem read_slice (fmt : List Seg) (env : Env) (n : FName) (a b : Nat) (sp : Spec)
    (h : allTrunc fmt = true) (hc : covers fmt n a b = some sp) :
    strip (slice (render fmt env) a b) = strip (renderField sp (env n)) := by
  obtain ⟨mid, hmid, hone⟩ := covers_spec hc
  rw [slice_render env fmt mid a b h hmid]
  exact strip_render_oneField env mid n sp hone

/-- **overflow_local.** The columns read for field `n` depend on the value of `n` only: whatever
happens to all other values (overflow included), these columns do not change. -/
theorem overflow_local (fmt : List Seg) (env env' : Env) (n : FName) (a b : Nat) (sp : Spec)
    (h : allTrunc fmt = true) (hc : covers fmt n a b = some sp) (hn : env n = env' n) :
    slice (render fmt env) a b = slice (render fmt env') a b := by
  obtain ⟨mid, hmid, hone⟩ := covers_spec hc
  rw [slice_render env fmt mid a b h hmid, slice_render env' fmt mid a b h hmid]
  exact render_oneField_congr env env' mid n sp hone hn

/-- an overflowing field is cut down to its own width: left-aligned fields keep their left end,
right-aligned ones their right end -/
theorem overflow_truncates (sp : Spec) (v : Val) (ht : sp.trunc = true) (hw : sp.width ≠ 0)
    (hover : sp.width < (fieldBody sp v).length) :
    renderField sp v = if sp.leftAligned then (fieldBody sp v).take sp.width
      else (fieldBody sp v).drop ((fieldBody sp v).length - sp.width) := by
  unfold renderField
  have hp : padded sp (fieldBody sp v) = fieldBody sp v := by
    unfold padded
    have : sp.width - (fieldBody sp v).length = 0 := by omega
    split <;> simp [this]
  have hw' : (sp.width != 0) = true := by simpa using hw
  rw [hp]
  simp [ht, hw', hover]

/-! ## field_roundtrip — a value that fits is read back exactly -/

theorem field_roundtrip_int (sp : Spec) (i : Int) (hty : sp.ty = .d) (hf : sp.fill = ' ')
    (hfit : (intRepr i).length ≤ sp.width) :
    parseInt (strip (renderField sp (.int i))) = some i := by
  have hb : fieldBody sp (.int i) = intRepr i := by unfold fieldBody; rw [hty]
  rw [renderField_of_fits sp _ (by rw [hb]; exact hfit), hb, strip_padded sp _ hf,
    strip_of_no_ws _ (intRepr_no_ws i), parseInt_intRepr]

theorem field_roundtrip_str (sp : Spec) (s : List Char) (hty : sp.ty = .s) (hf : sp.fill = ' ')
    (hfit : s.length ≤ sp.width) (hclean : strip s = s) :
    strip (renderField sp (.str s)) = s := by
  have hb : fieldBody sp (.str s) = s := by unfold fieldBody; rw [hty]
  rw [renderField_of_fits sp _ (by rw [hb]; exact hfit), hb, strip_padded sp _ hf, hclean]

theorem field_roundtrip_fix (sp : Spec) (k : Int) (hty : sp.ty = .f) (hf : sp.fill = ' ') (hp : 1 ≤ sp.prec)
    (hfit : (fixRepr sp.prec k).length ≤ sp.width) :
    parseDec (strip (renderField sp (.fix k))) = some (k, sp.prec) := by
  have hb : fieldBody sp (.fix k) = fixRepr sp.prec k := by unfold fieldBody; rw [hty]
  rw [renderField_of_fits sp _ (by rw [hb]; exact hfit), hb, strip_padded sp _ hf,
    strip_of_no_ws _ (fixRepr_no_ws _ k), parseDec_fixRepr _ hp]

/-- a natural number below `10^w` fits a `w`-column integer field (serials ≤ 99999 fit 5 columns) -/
theorem nat_fits (w n : Nat) (hw : 1 ≤ w) (hn : n < 10 ^ w) : (intRepr (n : Int)).length ≤ w := by
  unfold intRepr
  have : ¬ ((n : Int) < 0) := by omega
  simp only [this, if_false, Int.natAbs_natCast]
  exact natDigits_length_le w n hn hw

/-- **field_roundtrip** through a whole record: a reader column that covers the field named `n`
returns exactly the value that was written, whatever the other values are, provided the value
fits its column.  Holds for the PDB flavour of the reader (blank = default value) and the GRO
flavour (blank number = error) alike. -/
theorem field_roundtrip (fmt : List Seg) (env : Env) (n : FName) (rty : RTy) (a b : Nat) (sp : Spec)
    (h : allTrunc fmt = true) (hc : covers fmt n a b = some sp) (hf : sp.fill = ' ')
    (hk : kindOk sp rty (env n)) (hfit : fitsField sp (env n)) :
    readFieldPdb (render fmt env) ⟨n, rty, a, b⟩ = .ok (expected sp (env n)) ∧
    readFieldGro (render fmt env) ⟨n, rty, a, b⟩ = .ok (expected sp (env n)) := by
  have hs := read_slice fmt env n a b sp h hc
  unfold readFieldPdb readFieldGro
  simp only []
  rw [hs]
  unfold kindOk at hk
  unfold fitsField at hfit
  cases hv : env n with
  | int i =>
    rw [hv] at hk hfit
    cases hty : sp.ty <;> cases rty <;> simp only [hty] at hk
    have hb : fieldBody sp (.int i) = intRepr i := by unfold fieldBody; rw [hty]
    have hr := field_roundtrip_int sp i hty hf (by rw [← hb]; exact hfit.1)
    have hne : strip (renderField sp (.int i)) ≠ [] := by
      intro h0; rw [h0] at hr; simp [parseInt] at hr
    simp [hne, convert, hr, expected]
  | str s =>
    rw [hv] at hk hfit
    cases hty : sp.ty <;> cases rty <;> simp only [hty] at hk
    have hb : fieldBody sp (.str s) = s := by unfold fieldBody; rw [hty]
    have hr := field_roundtrip_str sp s hty hf (by rw [← hb]; exact hfit.1) hfit.2
    rw [hr]
    constructor
    · split
      · rename_i h0; rw [h0]; rfl
      · rfl
    · rfl
  | fix k =>
    rw [hv] at hk hfit
    cases hty : sp.ty <;> cases rty <;> simp only [hty] at hk
    have hb : fieldBody sp (.fix k) = fixRepr sp.prec k := by unfold fieldBody; rw [hty]
    have hr := field_roundtrip_fix sp k hty hf hk (by rw [← hb]; exact hfit.1)
    have hne : strip (renderField sp (.fix k)) ≠ [] := by
      intro h0; rw [h0] at hr; simp [parseDec, parseDecBody] at hr
    simp [hne, convert, hr, expected]
  | nan =>
    rw [hv] at hk hfit
    cases hty : sp.ty <;> cases rty <;> simp only [hty] at hk
    have hb : fieldBody sp .nan = ['n', 'a', 'n'] := by unfold fieldBody; rw [hty]
    have hs : strip (renderField sp .nan) = ['n', 'a', 'n'] := by
      rw [renderField_of_fits sp _ hfit.1, hb, strip_padded sp _ hf]
      decide
    rw [hs]
    have hc : convert .float ['n', 'a', 'n'] = .ok .nan := by
      have h1 : parseDec ['n', 'a', 'n'] = none := by decide
      have h2 : isNanText ['n', 'a', 'n'] = true := by decide
      simp [convert, h1, h2]
    constructor
    · simp [hc, expected]
    · simp [hc, expected]

/-- all columns of a record at once -/
theorem fields_roundtrip (fmt : List Seg) (env : Env) (h : allTrunc fmt = true) (slices : List RSlice)
    (spec : RSlice → Spec)
    (hall : ∀ sl ∈ slices, covers fmt sl.name sl.start sl.stop = some (spec sl) ∧ (spec sl).fill = ' ' ∧
      kindOk (spec sl) sl.ty (env sl.name) ∧ fitsField (spec sl) (env sl.name)) :
    readFields readFieldPdb (render fmt env) slices
      = .ok (slices.map fun sl => (sl.name, expected (spec sl) (env sl.name))) ∧
    readFields readFieldGro (render fmt env) slices
      = .ok (slices.map fun sl => (sl.name, expected (spec sl) (env sl.name))) := by
  induction slices with
  | nil => exact ⟨rfl, rfl⟩
  | cons sl rest ih =>
    have hsl := hall sl (by simp)
    have ih' := ih (fun s hs => hall s (by simp [hs]))
    have hr := field_roundtrip fmt env sl.name sl.ty sl.start sl.stop (spec sl) h hsl.1 hsl.2.1 hsl.2.2.1 hsl.2.2.2
    constructor
    · simp only [readFields, hr.1, ih'.1, List.map_cons]; rfl
    · simp only [readFields, hr.2, ih'.2, List.map_cons]; rfl

/-- **overflow_local at record level.**  Whatever some values do to their own columns (overflow,
blanks at the ends): if the record can be read at all, every column whose value fits returns
exactly the value written.  No hypothesis on the other columns. -/
theorem fields_overflow_local (fmt : List Seg) (env : Env) (h : allTrunc fmt = true)
    (rd : List Char → RSlice → Except Err RVal) (hrd : rd = readFieldPdb ∨ rd = readFieldGro)
    (spec : RSlice → Spec) : ∀ (slices : List RSlice) (props : Props),
    (∀ sl ∈ slices, covers fmt sl.name sl.start sl.stop = some (spec sl) ∧ (spec sl).fill = ' ' ∧
      kindOk (spec sl) sl.ty (env sl.name)) →
    readFields rd (render fmt env) slices = .ok props →
    props.map Prod.fst = slices.map (·.name) ∧
    ∀ sl ∈ slices, fitsField (spec sl) (env sl.name) → (sl.name, expected (spec sl) (env sl.name)) ∈ props
  | [], props, _, hok => by
      simp only [readFields] at hok
      cases hok
      exact ⟨rfl, fun sl hsl => by cases hsl⟩
  | sl :: rest, props, hall, hok => by
      simp only [readFields, bind, Except.bind, pure, Except.pure] at hok
      cases hv : rd (render fmt env) sl with
      | error e => rw [hv] at hok; cases hok
      | ok v =>
        rw [hv] at hok
        simp only at hok
        cases hr : readFields rd (render fmt env) rest with
        | error e => rw [hr] at hok; cases hok
        | ok r =>
          rw [hr] at hok
          simp only at hok
          cases hok
          have ih := fields_overflow_local fmt env h rd hrd spec rest r (fun s hs => hall s (by simp [hs])) hr
          refine ⟨by simp [ih.1], ?_⟩
          intro sl' hsl' hfit
          rcases List.mem_cons.mp hsl' with heq | hmem
          · subst heq
            have hs := hall sl' (by simp)
            have hrt := field_roundtrip fmt env sl'.name sl'.ty sl'.start sl'.stop (spec sl') h hs.1 hs.2.1 hs.2.2 hfit
            have : v = expected (spec sl') (env sl'.name) := by
              rcases hrd with hrd | hrd <;> subst hrd
              · rw [hrt.1] at hv; cases hv; rfl
              · rw [hrt.2] at hv; cases hv; rfl
            rw [this]; simp
          · exact List.mem_cons_of_mem _ (ih.2 sl' hmem hfit)

/-! ## CONECT records -/

/-- **conect_roundtrip** (record level).  For a layout whose CONECT numbers are `t`-truncated
right-aligned blank-filled integers as wide as the reader's stride and whose prefix ends where the
reader starts, a record is read back as exactly the serials that were written — provided each
serial fits the column (`< 10^width`, i.e. ≤ 99999 for the 5-column layout).  With the 4-column
layout of the unrepaired code the hypothesis `hfit` fails from serial 10000 on (finding F-C16-1,
see `conect_4wide_loses_bonds` in `C16Tables`). -/
theorem conect_roundtrip (L : PdbLayout) (ids : List Nat) (hne : ids ≠ [])
    (hstart : L.conectPrefix.length = L.conectStart) (hwidth : L.conectNum.width = L.conectWidth)
    (hw : 1 ≤ L.conectWidth) (hty : L.conectNum.ty = .d) (hfill : L.conectNum.fill = ' ')
    (htr : L.conectNum.trunc = true) (halign : L.conectNum.leftAligned = false)
    (hfit : ∀ i ∈ ids, i < 10 ^ L.conectWidth) :
    conectIds L (conectLine L ids) = .ok (ids.map Int.ofNat) :=
  conectIds_conectLine L ids hne hstart hwidth hw hty hfill htr halign hfit

/-- the chunks of at most `n` partners written per CONECT record lose and invent nothing -/
theorem conect_chunks (n : Nat) (l : List Nat) (hn : n ≠ 0) :
    (chunks n l).flatten = l ∧ ∀ c ∈ chunks n l, c ≠ [] ∧ c.length ≤ n :=
  ⟨chunks_flatten n l hn, chunks_bounds n l⟩

/-! ## TER records -/

/-- A written line that starts with a six-column record name (`q` padded with blanks `b`) which the
dispatcher maps to "end of molecule" is taken as such by the reader whatever follows in the line
(over-long or odd residue data, a '#', anything). -/
theorem reads_as_finish (L : PdbLayout) (excl : List (List Char)) (ignh : Bool) (q b X : List Char)
    (hlen : (q ++ b).length = 6) (hq : strip q = q) (hqL : stripL q = q) (hqne : q ≠ [])
    (hb : b.all isWs = true) (hhash : (q ++ b).all (· ≠ '#') = true) (hkind : classify q = .finish) :
    ReadsAsFinish L excl ignh (q ++ b ++ X) := by
  intro st
  obtain ⟨hne, hname⟩ := record_name q b X hlen hq hqL hqne hb hhash
  have hlq : q.length ≤ 6 := by simp at hlen; omega
  have hc : classify (decomment (q ++ b ++ X)) = .finish := by
    rw [← hkind]
    unfold classify
    rw [hname, List.take_of_length_le hlq, hq]
  unfold pdbStep
  simp only [hne, if_false, hc]

/-- A written line without '#' that starts with a six-column record name which the dispatcher maps to
`_atom` is read as the atom that parsing the raw line yields: neither the comment stripping nor
the stripping of the line changes any column. -/
theorem reads_as_atom (L : PdbLayout) (excl : List (List Char)) (ignh : Bool) (q b X : List Char) (pa : PAtom)
    (hlen : (q ++ b).length = 6) (hq : strip q = q) (hqL : stripL q = q) (hqne : q ≠ [])
    (hb : b.all isWs = true) (hkind : classify q = .atom)
    (hhash : (q ++ b ++ X).all (· ≠ '#') = true)
    (hparse : parseAtomLine L excl ignh (q ++ b ++ X) = .ok (.keep pa)) :
    ReadsAsAtom L excl ignh (q ++ b ++ X) pa := by
  intro st
  have hhash' : (q ++ b).all (· ≠ '#') = true := by
    rw [List.all_append, Bool.and_eq_true] at hhash; exact hhash.1
  obtain ⟨hne, hname⟩ := record_name q b X hlen hq hqL hqne hb hhash'
  have hlq : q.length ≤ 6 := by simp at hlen; omega
  have hc : classify (decomment (q ++ b ++ X)) = .atom := by
    rw [← hkind]
    unfold classify
    rw [hname, List.take_of_length_le hlq, hq]
  have hL : stripL (q ++ b ++ X) = q ++ b ++ X := by
    rw [List.append_assoc]; exact stripL_append_of q _ hqL hqne
  unfold pdbStep
  simp only [hne, if_false, hc]
  rw [parseAtomLine_decomment L excl ignh _ hhash hL, hparse]
  rfl

/-- **ter_split.** A file that consists, molecule after molecule, of lines the reader takes as
atoms followed by a line it takes as end-of-molecule, and then the END line, is read back as
exactly these molecules: same number, same atoms, same order.  (That the ATOM lines produced by
the writer are read as the atoms written is `fields_roundtrip`; that its TER and END lines are
end-of-molecule lines is `ter_end_lines_finish` in `C16Tables`.) -/
theorem ter_split (L : PdbLayout) (excl : List (List Char)) (ignh : Bool)
    (groups : List (List (List Char × PAtom) × List Char)) (endl : List Char)
    (h : ∀ g ∈ groups, g.1 ≠ [] ∧ (∀ p ∈ g.1, ReadsAsAtom L excl ignh p.1 p.2) ∧ ReadsAsFinish L excl ignh g.2)
    (hend : ReadsAsFinish L excl ignh endl) :
    ∃ r, readPdb L excl ignh (groupLines groups ++ [endl]) = .ok r ∧
      r.mols = groups.map (fun g => g.1.map Prod.snd) ∧ r.bonds = [] := by
  have hfin : ∀ st : PState, st.active = [] → st.finish = st := by
    intro st h; unfold PState.finish; simp [h]
  unfold readPdb
  rw [pdbFold_append, pdbFold_groups L excl ignh groups ⟨[], [], []⟩ rfl h]
  simp only [pdbFold]
  rw [hend, hfin _ rfl]
  simp only [bind, Except.bind, pure, Except.pure]
  rw [hfin _ rfl]
  simp [doConect]

end C16
