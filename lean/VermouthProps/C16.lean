import VermouthProofs.C16
namespace C16
end C16
